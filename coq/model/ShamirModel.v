(* Executable model of src/crypto/Shamir.cpp: the exp/log tables built exactly as build_exp_table / build_log_table do
   (reduction polynomial regenerated from the source), gf_add, gf_mul, gf_div, evaluate_polynomial, interpolate,
   Shamir::split (the random_device bytes are an input: 32 x (threshold-1) coefficients) and Shamir::combine.
   Exceptions: Throw 1 = std::invalid_argument.  Definitions only (proofs: proofs/ShamirProofs.v). *)
Require Import ZArith List Bool.
Import ListNotations.
Local Open Scope Z_scope.
From EphVerif Require Import lib.Bytes gen.Constants_shamir.

(* x <<= 1; if (x & 0x100) x ^= kFieldPolynomial *)
Definition xtime (x : Z) : Z := let y := 2 * x in if 256 <=? y then Z.lxor y gf_polynomial else y.

Fixpoint exp_prefix (n : nat) (x : Z) : list Z :=
  match n with O => [] | S n' => (x mod 256) :: exp_prefix n' (xtime x) end.

Definition exp_table : list Z :=
  let first := exp_prefix 255 1 in first ++ first ++ firstn 2 first.        (* exp[i] = exp[i-255] for 255 <= i < 512 *)

Fixpoint set_nth (i : nat) (v : Z) (l : list Z) : list Z :=
  match l, i with
  | [], _ => []
  | _ :: r, O => v :: r
  | x :: r, S i' => x :: set_nth i' v r
  end.

(* log[0] = 0; for i < 255: log[exp[i]] = i *)
Definition log_table : list Z :=
  fold_left (fun tbl i => set_nth (Z.to_nat (nth i exp_table 0)) (Z.of_nat i) tbl) (seq 0 255) (repeat 0 256).

Definition gexp (i : Z) : Z := nth (Z.to_nat i) exp_table 0.
Definition glog (a : Z) : Z := nth (Z.to_nat a) log_table 0.

Definition gf_add (a b : Z) : Z := Z.lxor a b.
Definition gf_mul (a b : Z) : Z := if (a =? 0) || (b =? 0) then 0 else gexp ((glog a + glog b) mod 255).

Inductive outcome (A : Type) := Val (a : A) | Throw (code : Z).
Arguments Val {A}. Arguments Throw {A}.

(* int16 diff % 255 truncates toward zero; negative results get 255 added *)
Definition gf_div (a b : Z) : outcome Z :=
  if b =? 0 then Throw 1
  else if a =? 0 then Val 0
  else let idx := Z.rem (glog a - glog b) 255 in
       Val (gexp (if idx <? 0 then idx + 255 else idx)).

(* result = constant; power = 1; for coeff: power *= x; result += coeff * power *)
Fixpoint eval_loop (x : Z) (coeffs : list Z) (power result : Z) : Z :=
  match coeffs with
  | [] => result
  | c :: r => let power' := gf_mul power x in eval_loop x r power' (gf_add result (gf_mul c power'))
  end.
Definition evaluate_polynomial (x constant : Z) (coeffs : list Z) : Z := eval_loop x coeffs 1 constant.

Record share := { s_index : Z; s_value : list Z }.

(* one byte position of interpolate() *)
Definition lagrange_term (xs : list Z) (i : nat) : Z * Z :=      (* numerator, denominator for share i *)
  let xi := nth i xs 0 in
  fold_left (fun nd j => if Nat.eqb i j then nd
                         else let xj := nth j xs 0 in (gf_mul (fst nd) xj, gf_mul (snd nd) (gf_add xj xi)))
            (seq 0 (length xs)) (1, 1).

Fixpoint interp_byte (xs : list Z) (ys : list Z) (i : nat) (value : Z) : outcome Z :=
  match ys with
  | [] => Val value
  | y :: r =>
      if y =? 0 then interp_byte xs r (S i) value
      else let '(num, den) := lagrange_term xs i in
           match gf_div num den with
           | Throw e => Throw e
           | Val factor => interp_byte xs r (S i) (gf_add value (gf_mul y factor))
           end
  end.

Fixpoint interp_bytes (fuel : nat) (byte : nat) (shares : list share) : outcome (list Z) :=
  match fuel with
  | O => Val []
  | S f =>
      match interp_byte (map s_index shares) (map (fun s => nth byte (s_value s) 0) shares) 0 0 with
      | Throw e => Throw e
      | Val v => match interp_bytes f (S byte) shares with Throw e => Throw e | Val r => Val (v :: r) end
      end
  end.
Definition interpolate (shares : list share) : outcome (list Z) := interp_bytes 32 0 shares.

Fixpoint has_dup (l : list Z) : bool :=
  match l with [] => false | x :: r => existsb (Z.eqb x) r || has_dup r end.

(* Shamir::combine(shares, threshold) *)
Definition combine (shares : list share) (threshold : Z) : outcome (list Z) :=
  if zlen shares <? threshold then Throw 1
  else let subset := firstn (Z.to_nat threshold) shares in
       if has_dup (map s_index subset) then Throw 1 else interpolate subset.

(* Shamir::split(secret, threshold, share_count); rnd = the bytes random_device yields, (threshold-1) per secret byte *)
Fixpoint split_bytes (secret : list Z) (k : nat) (rnd : list Z) (indices : list Z) : list (list Z) :=   (* per byte: values per share *)
  match secret with
  | [] => []
  | s :: r => let coeffs := firstn k rnd in
              map (fun x => evaluate_polynomial x s coeffs) indices :: split_bytes r k (skipn k rnd) indices
  end.

Fixpoint column (j : nat) (rows : list (list Z)) : list Z := map (fun row => nth j row 0) rows.

Definition split (secret : list Z) (threshold share_count : Z) (rnd : list Z) : outcome (list share) :=
  if (threshold =? 0) || (share_count =? 0) then Throw 1
  else if share_count <? threshold then Throw 1
  else let indices := map (fun i => Z.of_nat i) (seq 1 (Z.to_nat share_count)) in
       let rows := split_bytes secret (Z.to_nat (threshold - 1)) rnd indices in
       Val (map (fun j => {| s_index := nth j indices 0; s_value := column j rows |}) (seq 0 (length indices))).

(* ---- wire ---- *)
Fixpoint read_shares (n : nat) (l : list Z) : list share * list Z :=
  match n with
  | O => ([], l)
  | S n' => let '(i, l) := w_next l in let '(v, l) := w_id32 l in
            let '(rest, l) := read_shares n' l in ({| s_index := i; s_value := v |} :: rest, l)
  end.
Definition o_outcome_bytes (o : outcome (list Z)) : list Z := match o with Val b => 0 :: b | Throw e => [-1000; e] end.

Definition run (input : list Z) : list Z :=
  let '(mode, l) := w_next input in
  if mode =? 1 then let '(a, l) := w_next l in let '(b, _) := w_next l in
       [gf_mul a b; gf_add a b] ++ match gf_div a b with Val v => [0; v] | Throw e => [-1000; e] end
  else if mode =? 2 then
       let '(secret, l) := w_id32 l in let '(t, l) := w_next l in let '(n, l) := w_next l in let '(rnd, _) := w_bytes l in
       match split secret t n rnd with
       | Throw e => [-1000; e]
       | Val shares => zlen shares :: flat_map (fun s => s_index s :: s_value s) shares
       end
  else if mode =? 3 then
       let '(t, l) := w_next l in let '(n, l) := w_next l in
       let '(shares, _) := read_shares (Z.to_nat n) l in
       o_outcome_bytes (combine shares t)
  else if mode =? 4 then
       let '(x, l) := w_next l in let '(c0, l) := w_next l in let '(cs, _) := w_bytes l in [evaluate_polynomial x c0 cs]
  else [-1].
