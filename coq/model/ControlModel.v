(* Executable model of the control plane (src/daemon/ControlServer.cpp, src/daemon/ControlClient.cpp):
     - the response wire format: send_response (with its value escaping) and the client's recv_line / parse_response /
       unescape_value (C29);
     - the admission decisions of STORE, FETCH and STOP: the control-token gate and its place before any effect (C27);
     - STORE / stream-FETCH rate limiting: which identity is limited and the sliding-window limiter (C28; the payload cap
       is parse_request's, the TTL window is C02's gate, store PoW is C19's validator).
   Byte strings are lists of Z; keys are upper-case ASCII without ':' CR LF.  Definitions only. *)
Require Import ZArith List Bool.
Import ListNotations.
Local Open Scope Z_scope.
From EphVerif Require Import lib.Bytes gen.Constants_control model.Sha256Model model.PowModel model.FilenameModel.

(* ================================================================ C29: response format *)
Definition LF : Z := 10.  Definition CR : Z := 13.  Definition BSL : Z := 92.  Definition COLON : Z := 58.

Definition escape_byte (c : Z) : list Z :=
  if c =? BSL then [BSL; BSL] else if c =? LF then [BSL; 110] else if c =? CR then [BSL; 114] else [c].
Definition escape_value (v : list Z) : list Z := flat_map escape_byte v.

Fixpoint unescape_value (v : list Z) : list Z :=
  match v with
  | [] => []
  | c :: r =>
      if c =? BSL then
        match r with
        | n :: r' => if n =? 110 then LF :: unescape_value r'
                     else if n =? 114 then CR :: unescape_value r'
                     else if n =? BSL then BSL :: unescape_value r'
                     else c :: unescape_value r
        | [] => [c]
        end
      else c :: unescape_value r
  end.

Definition field : Type := (list Z * list Z)%type.

Definition status_line (ok : bool) : list Z :=
  [83; 84; 65; 84; 85; 83; 58] ++ (if ok then [79; 75] else [69; 82; 82; 79; 82]) ++ [LF].      (* STATUS:OK / STATUS:ERROR *)
Definition k_status : list Z := [83; 84; 65; 84; 85; 83].
Definition k_payload_length : list Z := [80; 65; 89; 76; 79; 65; 68; 45; 76; 69; 78; 71; 84; 72].

Fixpoint digits_of (fuel : nat) (n : Z) (acc : list Z) : list Z :=
  match fuel with
  | O => acc
  | S f => let acc' := (48 + n mod 10) :: acc in if n / 10 =? 0 then acc' else digits_of f (n / 10) acc'
  end.
Definition decimal (n : Z) : list Z := digits_of 25 n [].

(* send_response: STATUS, the fields (any order), a blank line, the payload *)
Definition render_response (ok : bool) (fields : list field) (payload : option (list Z)) : list Z :=
  let fields := match payload with Some p => (k_payload_length, decimal (zlen p)) :: fields | None => fields end in
  status_line ok ++ flat_map (fun f => fst f ++ [COLON] ++ escape_value (snd f) ++ [LF]) fields ++ [LF]
  ++ match payload with Some p => p | None => [] end.

(* client: recv_line (up to LF, CR dropped) *)
Fixpoint take_line (l : list Z) (acc : list Z) : option (list Z * list Z) :=   (* line, rest; None = connection ended first *)
  match l with
  | [] => None
  | c :: r => if c =? LF then Some (acc, r) else if c =? CR then take_line r acc else take_line r (acc ++ [c])
  end.

Fixpoint split_colon (l : list Z) (acc : list Z) : option (list Z * list Z) :=
  match l with
  | [] => None
  | c :: r => if c =? COLON then Some (acc, r) else split_colon r (acc ++ [c])
  end.

Definition to_upper_byte (c : Z) : Z := if (97 <=? c) && (c <=? 122) then c - 32 else c.
Definition to_upper (l : list Z) : list Z := map to_upper_byte l.

Fixpoint decimal_value (l : list Z) (acc : Z) : option Z :=
  match l with
  | [] => Some acc
  | c :: r => if (48 <=? c) && (c <=? 57) then decimal_value r (acc * 10 + (c - 48)) else None
  end.

Definition set_field (k v : list Z) (fs : list (list Z * list Z)) : list (list Z * list Z) :=
  (k, v) :: filter (fun f => negb (list_eqb (fst f) k)) fs.
Definition k_message : list Z := [77; 69; 83; 83; 65; 71; 69].
Definition msg_invalid_length : list Z := [73; 110; 118; 97; 108; 105; 100; 32; 112; 97; 121; 108; 111; 97; 100; 32; 108; 101; 110; 103; 116; 104].
Definition msg_truncated : list Z := [84; 114; 117; 110; 99; 97; 116; 101; 100; 32; 99; 111; 110; 116; 114; 111; 108; 32; 112; 97; 121; 108; 111; 97; 100].

Record response := { r_status_seen : bool; r_success : bool; r_fields : list field; r_payload : option (list Z) }.


Fixpoint get_field (k : list Z) (fs : list field) : option (list Z) :=
  match fs with [] => None | (k', v) :: r => if list_eqb k' k then Some v else get_field k r end.

(* parse_response header loop; fuel = number of bytes *)
Fixpoint parse_headers (fuel : nat) (l : list Z) (st : response) (plen : option Z) : response * option Z * list Z :=
  match fuel with
  | O => (st, plen, l)
  | S f =>
      match take_line l [] with
      | None => (st, plen, [])
      | Some (line, rest) =>
          match line with
          | [] => (st, plen, rest)
          | _ =>
              match split_colon line [] with
              | None => parse_headers f rest st plen
              | Some (k, v) =>
                  let key := to_upper k in
                  if list_eqb key k_status then
                    parse_headers f rest {| r_status_seen := true; r_success := list_eqb (to_upper v) [79; 75];
                                            r_fields := r_fields st; r_payload := r_payload st |} plen
                  else if list_eqb key k_payload_length then
                    match (match v with [] => None | _ => decimal_value v 0 end) with
                    | Some n => parse_headers f rest {| r_status_seen := r_status_seen st; r_success := r_success st;
                                                        r_fields := set_field key v (r_fields st); r_payload := r_payload st |} (Some n)
                    | None => ({| r_status_seen := r_status_seen st; r_success := false; r_fields := set_field k_message msg_invalid_length (r_fields st); r_payload := None |}, plen, rest)
                    end
                  else parse_headers f rest {| r_status_seen := r_status_seen st; r_success := r_success st;
                                               r_fields := set_field key (unescape_value v) (r_fields st); r_payload := r_payload st |} plen
              end
          end
      end
  end.

Definition parse_response (l : list Z) : response :=
  let '(st, plen, rest) := parse_headers (S (length l)) l {| r_status_seen := false; r_success := false; r_fields := []; r_payload := None |} None in
  let st := if r_status_seen st then st else {| r_status_seen := false; r_success := false; r_fields := r_fields st; r_payload := r_payload st |} in
  match plen with
  | None => st
  | Some n => if Z.of_nat (length rest) <? n
              then {| r_status_seen := r_status_seen st; r_success := false; r_fields := set_field k_message msg_truncated (r_fields st); r_payload := None |}
              else {| r_status_seen := r_status_seen st; r_success := r_success st; r_fields := r_fields st;
                      r_payload := Some (firstn (Z.to_nat n) rest) |}
  end.

(* ================================================================ C27: the token gate *)
Inductive command := CStore | CFetchStream | CFetchOut | CStop.
Inductive effect := EStored | EFetched | EFileWritten | EStopped | ENone.
Inductive verdict := VOk (e : effect) | VAuthError | VOtherError (code : Z).

(* constant_time_equal: equal length and equal bytes *)
Definition authorized (configured : option (list Z)) (presented : option (list Z)) : bool :=
  match configured with
  | None => true
  | Some t => match presented with Some p => list_eqb t p | None => false end
  end.

(* what a well-formed request of each kind leads to, given the gate (later checks -- TTL, PoW, rate, chunk present --
   are summarised by the flag later_ok) *)
Definition handle_command (configured presented : option (list Z)) (cmd : command) (later_ok : bool) : verdict :=
  if negb (authorized configured presented) then VAuthError
  else if negb later_ok then VOtherError 1
  else VOk (match cmd with CStore => EStored | CFetchStream => EFetched | CFetchOut => EFileWritten | CStop => EStopped end).

(* ================================================================ C28: rate limiting *)
(* the limiter key: the client address, unless a control token is configured (then requests carry exactly that token) *)
Definition rate_identity (configured : option (list Z)) (remote : Z) (presented : option (list Z)) : Z * option (list Z) :=
  match configured with
  | Some t => (0, Some t)          (* hashed_token_identity(configured token): one bucket for the token holder *)
  | None => (remote, None)
  end.

(* allow_store_request / allow_stream_fetch: drop entries older than the window (strictly), refuse at the limit *)
Definition allow (window limit : Z) (hist : list Z) (now : Z) : bool * list Z :=
  let h := filter (fun t => negb (window <? now - t)) hist in
  if limit <=? zlen h then (false, h) else (true, h ++ [now]).

Definition bucket : Type := (Z * option (list Z))%type.
Definition bucket_eqb (a b : bucket) : bool :=
  (fst a =? fst b) && match snd a, snd b with Some x, Some y => list_eqb x y | None, None => true | _, _ => false end.
Fixpoint bget (k : bucket) (m : list (bucket * list Z)) : list Z :=
  match m with [] => [] | (k', v) :: r => if bucket_eqb k' k then v else bget k r end.
Definition bset (k : bucket) (v : list Z) (m : list (bucket * list Z)) : list (bucket * list Z) :=
  (k, v) :: filter (fun e => negb (bucket_eqb (fst e) k)) m.

(* a STORE (kind 0) or stream FETCH (kind 1) that passed every earlier check arrives at the limiter *)
Record rl_state := { rl_now : Z; rl_store : list (bucket * list Z); rl_fetch : list (bucket * list Z) }.

Definition rl_step (configured : option (list Z)) (st : rl_state) (dt kind remote : Z) (presented : option (list Z)) : rl_state * bool :=
  let now := rl_now st + Z.max 0 dt in
  let id := rate_identity configured remote presented in
  if kind =? 0 then
    let '(ok, h) := allow store_rate_window store_rate_limit (bget id (rl_store st)) now in
    ({| rl_now := now; rl_store := bset id h (rl_store st); rl_fetch := rl_fetch st |}, ok)
  else
    let '(ok, h) := allow fetch_rate_window fetch_rate_limit (bget id (rl_fetch st)) now in
    ({| rl_now := now; rl_store := rl_store st; rl_fetch := bset id h (rl_fetch st) |}, ok).

(* ================================================================ C28: STORE admission of one request *)
(* parse_uint64: std::from_chars over the whole text, base 10, into a uint64_t (no sign, no blanks, no overflow) *)
Definition is_digit (c : Z) : bool := (48 <=? c) && (c <=? 57).
Fixpoint digits_value (acc : Z) (s : list Z) : option Z :=
  match s with
  | [] => Some acc
  | c :: r => if is_digit c then digits_value (acc * 10 + (c - 48)) r else None
  end.
Definition parse_u64 (s : list Z) : option Z :=
  match s with
  | [] => None
  | _ => match digits_value 0 s with
         | Some v => if v <? 18446744073709551616 then Some v else None
         | None => None
         end
  end.

Record store_cfg := mkStoreCfg { sc_pow : Z; sc_min_ttl : Z; sc_max_ttl : Z; sc_default_ttl : Z; sc_cap : Z }.

(* outcome codes: 0 OK_STORE, 1 ERR_CONTROL_PAYLOAD_LENGTH, 2 ERR_CONTROL_PAYLOAD_TOO_LARGE, 3 ERR_CONTROL_PAYLOAD_TRUNCATED,
   4 ERR_STORE_PAYLOAD_REQUIRED, 5 ERR_STORE_TTL_INVALID, 6 ERR_STORE_TTL_OUT_OF_RANGE, 7 ERR_STORE_POW_REQUIRED,
   8 ERR_STORE_POW_INVALID *)
Definition store_checks (cfg : store_cfg) (payload : list Z) (ttl path pow : option (list Z)) : Z :=
  let ttl_v := match ttl with
               | None => Some (sc_default_ttl cfg)
               | Some s => match parse_u64 s with
                           | None => None
                           (* std::chrono::seconds(uint64_t): the count is a signed 64-bit integer *)
                           | Some v => Some (if v <? 9223372036854775808 then v else v - 18446744073709551616)
                           end
               end in
  match ttl_v with
  | None => 5
  | Some t =>
      if (t <? sc_min_ttl cfg) || (sc_max_ttl cfg <? t) then 6
      else if sc_pow cfg <=? 0 then 0
      else match pow with
           | None => 7
           | Some s => match parse_u64 s with
                       | None => 8
                       | Some nonce =>
                           let fname := match path with Some p => hint_sanitize p | None => [] end in
                           if store_pow_valid (sha256 payload) (zlen payload) fname nonce (sc_pow cfg) then 0 else 8
                       end
           end
  end.

(* parse_request (the declared length is checked against the cap BEFORE any body byte is read) followed by handle_store *)
Definition store_admission (cfg : store_cfg) (declared : option (list Z)) (body : list Z) (ttl path pow : option (list Z)) : Z :=
  match declared with
  | None => 4
  | Some s =>
      match parse_u64 s with
      | None => 1
      | Some n =>
          if sc_cap cfg <? n then 2
          else if zlen body <? n then 3
          else store_checks cfg (firstn (Z.to_nat n) body) ttl path pow
      end
  end.

(* ================================================================ wire *)
Fixpoint read_fields (n : nat) (l : list Z) : list field * list Z :=
  match n with
  | O => ([], l)
  | S n' => let '(k, l) := w_bytes l in let '(v, l) := w_bytes l in let '(r, l) := read_fields n' l in ((k, v) :: r, l)
  end.

Fixpoint ins_field (f : field) (l : list field) : list field :=
  match l with
  | [] => [f]
  | x :: r => if (fix ltb (a b : list Z) : bool := match a, b with
                                                   | [], _ :: _ => true
                                                   | x1 :: a', y1 :: b' => if x1 <? y1 then true else if y1 <? x1 then false else ltb a' b'
                                                   | _, _ => false end) (fst f) (fst x)
              then f :: l else x :: ins_field f r
  end.
Definition sort_fields (l : list field) : list field := fold_right ins_field [] l.

Definition o_opt (o : option (list Z)) : list Z := match o with Some b => 1 :: o_bytes b | None => [0] end.
Definition o_response (r : response) : list Z :=
  [o_bool (r_status_seen r); o_bool (r_success r); zlen (r_fields r)]
  ++ flat_map (fun f => o_bytes (fst f) ++ o_bytes (snd f)) (sort_fields (r_fields r)) ++ o_opt (r_payload r).

Definition r_opt (l : list Z) : option (list Z) * list Z :=
  let '(has, l) := w_next l in if has =? 0 then (None, l) else let '(b, l) := w_bytes l in (Some b, l).

Fixpoint rl_run (configured : option (list Z)) (fuel : nat) (st : rl_state) (l : list Z) : list Z :=
  match fuel with
  | O => []
  | S f => match l with
           | dt :: kind :: remote :: r =>
               let '(tok, r) := r_opt r in
               let '(st', ok) := rl_step configured st dt kind remote tok in
               o_bool ok :: rl_run configured f st' r
           | _ => []
           end
  end.

(* mode 7: the same with store proof-of-work switched on (difficulty d).  Kind 0: STORE with a valid nonce; 2: STORE with a
   wrong nonce; 3: STORE without nonce.  handle_store asks the limiter BEFORE it looks at the proof of work, so all three
   take a slot; a request the limiter lets through is then answered OK (1) or with a proof-of-work error (2).  The
   proof-of-work failure bookkeeping (note / clear_store_pow_failures) only picks the error code: it never touches the
   limiter's histories. *)
Fixpoint rl_run7 (d : Z) (configured : option (list Z)) (fuel : nat) (st : rl_state) (l : list Z) : list Z :=
  match fuel with
  | O => []
  | S f => match l with
           | dt :: kind :: remote :: r =>
               let '(tok, r) := r_opt r in
               let '(st', ok) := rl_step configured st dt (if kind =? 1 then 1 else 0) remote tok in
               (if ok then (if (kind =? 0) || (kind =? 1) || (d =? 0) then 1 else 2) else 0) :: rl_run7 d configured f st' r
           | _ => []
           end
  end.

Definition run (input : list Z) : list Z :=
  let '(mode, l) := w_next input in
  if mode =? 1 then        (* C29: what the client makes of what the daemon sends *)
    let '(ok, l) := w_next l in let '(n, l) := w_next l in
    let '(fields, l) := read_fields (Z.to_nat n) l in
    let '(payload, _) := r_opt l in
    o_response (parse_response (render_response (negb (ok =? 0)) fields payload))
  else if mode =? 2 then   (* C29: client on arbitrary bytes *)
    let '(raw, _) := w_bytes l in o_response (parse_response raw)
  else if mode =? 3 then   (* C27 *)
    let '(configured, l) := r_opt l in let '(presented, l) := r_opt l in let '(cmd, _) := w_next l in
    let c := if cmd =? 0 then CStore else if cmd =? 1 then CFetchStream else if cmd =? 2 then CFetchOut else CStop in
    match handle_command configured presented c (negb (cmd =? 1)) with   (* the harness FETCHes a chunk the node lacks in case 1 *)
    | VAuthError => [0; 1] | VOtherError _ => [0; 0] | VOk _ => [1; 0]
    end
  else if mode =? 4 then   (* C28 *)
    let '(configured, l) := r_opt l in
    rl_run configured (length l) {| rl_now := 1000; rl_store := []; rl_fetch := [] |} l
  else if mode =? 7 then   (* C28: the limiter with store proof-of-work on *)
    let '(d, l) := w_next l in let '(_, l) := w_next l in let '(_, l) := w_next l in
    let '(configured, l) := r_opt l in
    rl_run7 d configured (length l) {| rl_now := 1000; rl_store := []; rl_fetch := [] |} l
  else if mode =? 6 then   (* C28: admission of one STORE *)
    let '(d, l) := w_next l in let '(mn, l) := w_next l in let '(mx, l) := w_next l in
    let '(df, l) := w_next l in let '(cap, l) := w_next l in
    let '(declared, l) := r_opt l in let '(body, l) := w_bytes l in
    let '(ttl, l) := r_opt l in let '(path, l) := r_opt l in let '(pow, _) := r_opt l in
    let code := store_admission (mkStoreCfg d mn mx df cap) declared body ttl path pow in
    [code; if code =? 0 then 1 else 0]   (* the node holds the chunk exactly when the STORE was admitted *)
  else [-1].
