(* Executable model of Node::handle_transport_handshake / Node::perform_handshake (src/core/Node.cpp) and of
   ReputationManager's saturating score (constants regenerated).  Per claimed peer id: the HandshakeRecord, the public
   key whose session key is registered (KeyManager / SessionManager; the key itself is C12's subject), the score.
   The PoW verdict is a parameter pow : peer -> public -> nonce -> bool (handshake_pow_valid at the configured difficulty,
   C19); validate_public is C12's.  Time: steady clock in whole seconds.  Definitions only. *)
Require Import ZArith List Bool.
Import ListNotations.
Local Open Scope Z_scope.
From EphVerif Require Import lib.Bytes gen.Constants_handshake gen.Constants_keyexchange.

Record hrec := { last_attempt : Z; success : bool; remote_public : Z; remote_nonce : Z }.
Record peer_state := { rec : option hrec; key_pub : option Z; score : Z }.
Definition peer0 : peer_state := {| rec := None; key_pub := None; score := 0 |}.

Definition validate_public (c : Z) : bool := (1 <? c) && (c <? kx_prime).
Definition rep_failure (s : Z) : Z := Z.max (s - rep_failure_penalty) rep_min_score.
Definition rep_success (s : Z) : Z := Z.min (s + rep_success_reward) rep_max_score.

Section Handshake.
  Variable pow : Z -> Z -> bool.            (* for one claimed peer id: public -> nonce -> valid? *)
  Variable cooldown : Z.

  (* perform_handshake; returns accepted? *)
  Definition perform (ps : peer_state) (now pub nonce : Z) : bool * peer_state :=
    let repeat_of_accepted :=
      match rec ps with
      | Some r => success r && (now - last_attempt r <? cooldown) && (remote_public r =? pub) && (remote_nonce r =? nonce)
      | None => false
      end in
    if repeat_of_accepted then (true, ps)
    else if negb (validate_public pub) then
      (false, {| rec := Some {| last_attempt := now; success := false; remote_public := pub; remote_nonce := nonce |};
                 key_pub := key_pub ps; score := rep_failure (score ps) |})
    else if negb (pow pub nonce) then
      (false, {| rec := Some {| last_attempt := now; success := false; remote_public := pub; remote_nonce := nonce |};
                 key_pub := key_pub ps; score := rep_failure (rep_failure (score ps)) |})
    else
      (true, {| rec := Some {| last_attempt := now; success := true; remote_public := pub; remote_nonce := nonce |};
                key_pub := Some pub; score := rep_success (score ps) |}).

  (* handle_transport_handshake: acknowledged (with a session key for the claimed peer) iff perform accepts and a key is held *)
  Definition handle (ps : peer_state) (now pub nonce : Z) : bool * peer_state :=
    let '(ok, ps') := perform ps now pub nonce in
    if ok then (match key_pub ps' with Some _ => true | None => false end, ps') else (false, ps').
End Handshake.

(* ---- wire: cooldown, then events: dt pub nonce powvalid (for one peer id).  The PoW verdict of each (pub, nonce) pair is
   supplied with the event; pairs are consistent inside a case (the checker builds them that way). *)
Record event := { dt : Z; e_pub : Z; e_nonce : Z; e_pow : bool }.

Fixpoint parse_events (fuel : nat) (l : list Z) : list event :=
  match fuel with
  | O => []
  | S f => match l with
           | d :: p :: n :: v :: r => {| dt := d; e_pub := p; e_nonce := n; e_pow := negb (v =? 0) |} :: parse_events f r
           | _ => []
           end
  end.

Fixpoint run_events (cooldown : Z) (now : Z) (ps : peer_state) (es : list event) : list Z :=
  match es with
  | [] => []
  | e :: r =>
      let t := now + Z.max 0 (dt e) in
      let '(ok, ps') := handle (fun _ _ => e_pow e) cooldown ps t (e_pub e) (e_nonce e) in
      [o_bool ok; (match key_pub ps' with Some p => p | None => -1 end); score ps';
       (match rec ps' with Some r => o_bool (success r) | None => -1 end)] ++ run_events cooldown t ps' r
  end.

Definition run (input : list Z) : list Z :=
  let '(cd, l) := w_next input in run_events cd 1000 peer0 (parse_events (length l) l).
