(* Executable model of what a node holds under a TTL and of Node::tick's cleanup branch (src/core/Node.cpp): local chunks
   (ChunkStore), provider locators with their holders and key-share records (KademliaTable, reusing model/ProviderModel.v),
   cached manifests, swarm plans, and the cleanup notifications.  Entry points: store_chunk, ingest_manifest, a provider
   contact learnt for a chunk, fetch_chunk (lookup), tick, clock advance.  Time in whole seconds (the harness advances its
   nanosecond clock in whole seconds in this family); the steady and the system clock move in lock-step.  The model follows
   the code after the fix: commits (expired records stay until swept; manifests and plans are pruned by the cleanup).
   Definitions only. *)
Require Import ZArith List Bool.
Import ListNotations.
Local Open Scope Z_scope.
From EphVerif Require Import lib.Bytes.
From EphVerif Require model.ProviderModel.

Definition timed : Type := list (Z * Z).            (* key -> deadline *)
Fixpoint tget (k : Z) (s : timed) : option Z := match s with [] => None | (k', v) :: r => if k' =? k then Some v else tget k r end.
Definition tdel (k : Z) (s : timed) : timed := filter (fun e => negb (fst e =? k)) s.
Definition tset (k v : Z) (s : timed) : timed := (k, v) :: tdel k s.
Definition memz (x : Z) (l : list Z) : bool := existsb (Z.eqb x) l.

Record st := mkSt { now : Z; chunks : timed; manifests : timed; shards : timed; plans : list Z; loc : ProviderModel.table;
                    notes : list Z; last_cleanup : Z; interval : Z; min_ttl : Z; max_ttl : Z }.
Definition self : Z := 0.

Definition ploc (s : st) : ProviderModel.state := {| ProviderModel.now := now s; ProviderModel.tbl := loc s |}.

(* Node::store_chunk with a TTL inside the window *)
Definition store (s : st) (c ttl : Z) : st :=
  let t := if ttl <? min_ttl s then min_ttl s else if max_ttl s <? ttl then max_ttl s else ttl in
  let e := now s + t in
  mkSt (now s) (tset c e (chunks s)) (tset c e (manifests s)) (tset c e (shards s))
       (if memz c (plans s) then plans s else c :: plans s)
       (ProviderModel.tbl (ProviderModel.add (ploc s) c self t)) (notes s) (last_cleanup s) (interval s) (min_ttl s) (max_ttl s).

(* Node::ingest_manifest of a manifest expiring rem seconds from now: refused when already expired or below the minimum
   TTL, capped at the maximum *)
Definition ingest (s : st) (c rem : Z) : st :=
  if (rem <=? 0) || (rem <? min_ttl s) then s
  else let t := if max_ttl s <? rem then max_ttl s else rem in
       mkSt (now s) (chunks s) (tset c (now s + rem) (manifests s)) (tset c (now s + t) (shards s))
            (if memz c (plans s) then plans s else c :: plans s)
            (loc s) (notes s) (last_cleanup s) (interval s) (min_ttl s) (max_ttl s).

Definition provider (s : st) (c p ttl : Z) : st :=
  mkSt (now s) (chunks s) (manifests s) (shards s) (plans s) (ProviderModel.tbl (ProviderModel.add (ploc s) c p ttl)) (notes s)
       (last_cleanup s) (interval s) (min_ttl s) (max_ttl s).

(* Node::fetch_chunk: a live local chunk is served and nothing changes; otherwise the provider lookup drops expired holders *)
Definition lookup (s : st) (c : Z) : st :=
  match tget c (chunks s) with
  | Some e => if now s <? e then s
              else mkSt (now s) (chunks s) (manifests s) (shards s) (plans s) (ProviderModel.tbl (snd (ProviderModel.find (ploc s) c))) (notes s)
                        (last_cleanup s) (interval s) (min_ttl s) (max_ttl s)
  | None => mkSt (now s) (chunks s) (manifests s) (shards s) (plans s) (ProviderModel.tbl (snd (ProviderModel.find (ploc s) c))) (notes s)
                 (last_cleanup s) (interval s) (min_ttl s) (max_ttl s)
  end.

Definition alive (t : Z) (e : Z * Z) : bool := t <? snd e.

(* Node::tick: the cleanup branch runs when cleanup_interval has elapsed *)
Definition tick (s : st) : st :=
  if now s - last_cleanup s <? interval s then s else
  let dead := map fst (filter (fun e => negb (alive (now s) e)) (chunks s)) in
  let loc1 := fold_left (fun t c => ProviderModel.tbl (ProviderModel.withdraw {| ProviderModel.now := now s; ProviderModel.tbl := t |} c self)) dead (loc s) in
  let loc2 := ProviderModel.sweep_tbl (now s) loc1 in
  let manifests' := filter (alive (now s)) (manifests s) in
  mkSt (now s) (filter (alive (now s)) (chunks s)) manifests' (filter (alive (now s)) (shards s))
       (filter (fun c => match tget c manifests' with Some _ => true | None => false end) (plans s))
       loc2 (notes s ++ dead) (now s) (interval s) (min_ttl s) (max_ttl s).

Inductive op := Store (c ttl : Z) | Ingest (c rem : Z) | Provider (c p ttl : Z) | Lookup (c : Z) | Tick | Advance (dt : Z).

(* the harness drains the notifications after every operation *)
Definition step (s : st) (o : op) : st * list Z :=
  let s' := match o with
            | Store c t => store s c t
            | Ingest c r => ingest s c r
            | Provider c p t => provider s c p t
            | Lookup c => lookup s c
            | Tick => tick s
            | Advance dt => mkSt (now s + Z.max 0 dt) (chunks s) (manifests s) (shards s) (plans s) (loc s) (notes s)
                                 (last_cleanup s) (interval s) (min_ttl s) (max_ttl s)
            end in
  (mkSt (now s') (chunks s') (manifests s') (shards s') (plans s') (loc s') [] (last_cleanup s') (interval s') (min_ttl s') (max_ttl s'),
   notes s').
Definition run_ops (s : st) (ops : list op) : st := fold_left (fun x o => fst (step x o)) ops s.

(* the TTL audit: expired local chunks, expired locators, expired holder contacts *)
Definition audit (s : st) : list Z :=
  [zlen (filter (fun e => negb (alive (now s) e)) (chunks s));
   zlen (filter (fun e => snd (snd e) <=? now s) (loc s));
   zlen (flat_map (fun e => filter (fun h => negb (ProviderModel.live (now s) h)) (fst (snd e))) (loc s))].

(* ---- wire ----
   input: interval nchunks  then ops (code a b c): 0 Store a=chunk b=ttl | 1 Ingest a=chunk b=remaining | 2 Provider a=chunk
          b=peer c=ttl | 3 Lookup a | 4 Tick | 5 Advance a
   output per op: number of drained notifications and the (sorted) chunk ids; then per chunk 1..nchunks: held, manifest,
   plan, shard record, locator, number of holders; then the audit triple *)
Fixpoint insert_z (x : Z) (l : list Z) : list Z := match l with [] => [x] | y :: r => if x <=? y then x :: l else y :: insert_z x r end.
Definition sort_z (l : list Z) : list Z := fold_right insert_z [] l.
Definition o_has {A} (o : option A) : Z := match o with Some _ => 1 | None => 0 end.

Definition observe (s : st) (nc : Z) : list Z :=
  flat_map (fun c => [o_has (tget c (chunks s)); o_has (tget c (manifests s)); o_bool (memz c (plans s)); o_has (tget c (shards s));
                      o_has (ProviderModel.get c (loc s)); match ProviderModel.get c (loc s) with Some (hs, _) => zlen hs | None => 0 end])
           (map Z.of_nat (seq 1 (Z.to_nat nc)))
  ++ audit s.

Fixpoint run_wire (fuel : nat) (s : st) (nc : Z) (l : list Z) : list Z :=
  match fuel with
  | O => []
  | S f =>
      match l with
      | [] => []
      | _ =>
          let '(code, l) := w_next l in let '(a, l) := w_next l in let '(b, l) := w_next l in let '(c, l) := w_next l in
          let o := if code =? 0 then Store a b else if code =? 1 then Ingest a b else if code =? 2 then Provider a b c
                   else if code =? 3 then Lookup a else if code =? 4 then Tick else Advance a in
          let '(s', drained) := step s o in
          [zlen drained] ++ sort_z drained ++ observe s' nc ++ run_wire f s' nc l
      end
  end.

Definition run (input : list Z) : list Z :=
  let '(iv, l) := w_next input in let '(nc, l) := w_next l in
  run_wire (length l) (mkSt 1000 [] [] [] [] [] [] 1000 iv 1 86400) nc l.
