(* Executable model of src/network/AdvertiseDiscovery.cpp (parse_ipv4, is_private_or_reserved_ipv4 / _ipv6 / _host,
   normalize_ipv6, build_transport_advertise_candidates, select_public_advertise_candidate) and of the publication path in
   src/core/Node.cpp (refresh_advertised_endpoints, preferred_control_endpoints with its self endpoint, and the discovery
   hints store_chunk writes into a manifest).  Hosts are byte strings.  The model follows the code after the fix: commits.
   Definitions only. *)
Require Import ZArith List Bool.
Import ListNotations.
Local Open Scope Z_scope.
From EphVerif Require Import lib.Bytes.

(* ---------------------------------------------------------------- text helpers *)
Definition is_digit (c : Z) : bool := (48 <=? c) && (c <=? 57).
Definition lower (c : Z) : Z := if (65 <=? c) && (c <=? 90) then c + 32 else c.
Fixpoint starts_with (p s : list Z) : bool :=
  match p, s with
  | [], _ => true
  | a :: p', b :: s' => (a =? b) && starts_with p' s'
  | _ :: _, [] => false
  end.
Definition has_char (c : Z) (s : list Z) : bool := existsb (Z.eqb c) s.
(* split at every occurrence of c *)
Fixpoint split_on (c : Z) (s : list Z) (cur : list Z) : list (list Z) :=
  match s with
  | [] => [cur]
  | x :: r => if x =? c then cur :: split_on c r [] else split_on c r (cur ++ [x])
  end.
Fixpoint take_until (c : Z) (s : list Z) : list Z :=
  match s with [] => [] | x :: r => if x =? c then [] else x :: take_until c r end.

(* one dotted-quad component: non-empty, digits only, the running value never above 255 *)
Fixpoint octet_value (acc : Z) (s : list Z) : option Z :=
  match s with
  | [] => Some acc
  | c :: r => if is_digit c then (let v := acc * 10 + (c - 48) in if 255 <? v then None else octet_value v r) else None
  end.
Definition parse_octet (s : list Z) : option Z := match s with [] => None | _ => octet_value 0 s end.

Definition parse_ipv4 (host : list Z) : option (Z * Z * Z * Z) :=
  match split_on 46 host [] with
  | [a; b; c; d] =>
      match parse_octet a, parse_octet b, parse_octet c, parse_octet d with
      | Some x, Some y, Some z, Some w => Some (x, y, z, w)
      | _, _, _, _ => None
      end
  | _ => None
  end.

Definition private4 (ip : Z * Z * Z * Z) : bool :=
  let '(a, b, c, _) := ip in
  (a =? 10) || (a =? 127) || (a =? 0) || ((a =? 169) && (b =? 254)) || ((a =? 172) && (16 <=? b) && (b <=? 31))
  || ((a =? 192) && (b =? 168)) || ((a =? 100) && (64 <=? b) && (b <=? 127))
  || ((a =? 192) && (b =? 0) && (c =? 2)) || ((a =? 198) && (b =? 51) && (c =? 100)) || ((a =? 203) && (b =? 0) && (c =? 113))
  || ((a =? 198) && (18 <=? b) && (b <=? 19))          (* benchmarking 198.18.0.0/15 *)
  || (224 <=? a).

(* "[...]" stripped, zone id cut off, lower-cased *)
Definition normalize_ipv6 (host : list Z) : list Z :=
  let h := match host with
           | 91 :: r => (match rev r with 93 :: r' => rev r' | _ => host end)
           | _ => host
           end in
  map lower (take_until 37 h).

Definition str (s : list Z) := s.
Definition s_fc := [102; 99].  Definition s_fd := [102; 100].
Definition s_fe8 := [102; 101; 56].  Definition s_fe9 := [102; 101; 57].
Definition s_fea := [102; 101; 97].  Definition s_feb := [102; 101; 98].
Definition s_doc := [50; 48; 48; 49; 58; 100; 98; 56].   (* 2001:db8 *)
Definition s_ff := [102; 102].
Definition s_unspec := [58; 58].  Definition s_loop := [58; 58; 49].
Definition s_mapped := [58; 58; 102; 102; 102; 102; 58].  (* ::ffff: *)

Definition private6 (host : list Z) : bool :=
  let n := normalize_ipv6 host in
  match n with
  | [] => true
  | _ =>
      list_eqb n s_unspec || list_eqb n s_loop
      || starts_with s_fc n || starts_with s_fd n
      || starts_with s_fe8 n || starts_with s_fe9 n || starts_with s_fea n || starts_with s_feb n
      || starts_with s_doc n || starts_with s_ff n
      || (* IPv4-mapped: judged by the embedded IPv4 address *)
         (starts_with s_mapped n &&
          match parse_ipv4 (skipn 7 n) with Some ip => private4 ip | None => false end)
  end.

Definition s_localhost := [108; 111; 99; 97; 108; 104; 111; 115; 116].
Definition s_any := [48; 46; 48; 46; 48; 46; 48].
Definition private_host (host : list Z) : bool :=
  match host with
  | [] => true
  | _ =>
      match parse_ipv4 host with
      | Some ip => private4 ip
      | None =>
          let l := map lower host in
          if list_eqb l s_localhost then true
          else if list_eqb l s_any then true
          else if has_char 58 host then private6 host
          else false
      end
  end.

(* ---------------------------------------------------------------- candidates *)
Definition valid_host (h : list Z) : bool := negb (match h with [] => true | _ => false end) && negb (list_eqb h s_any).

Definition endpoint : Type := (list Z * Z)%type.
Definition cand : Type := (list Z * Z * Z)%type.     (* host, port, via: 1 stun, 2 https-echo, 3 local-fallback *)
Definition ep_eqb (a b : endpoint) : bool := list_eqb (fst a) (fst b) && (snd a =? snd b).
Definition cand_key_eqb (a b : cand) : bool :=
  let '(h1, p1, v1) := a in let '(h2, p2, v2) := b in list_eqb h1 h2 && (p1 =? p2) && (v1 =? v2).

Definition append_candidate (allow_private : bool) (l : list cand) (c : cand) : list cand :=
  let '(h, p, _) := c in
  if negb (valid_host h) || (p =? 0) then l
  else if negb allow_private && private_host h then l
  else if existsb (cand_key_eqb c) l then l
  else l ++ [c].

Fixpoint distinct_eps (l : list endpoint) (seen : list endpoint) : Z :=
  match l with
  | [] => 0
  | e :: r => if existsb (ep_eqb e) seen then distinct_eps r seen else 1 + distinct_eps r (e :: seen)
  end.

(* traversal = (external address, external port, stun succeeded); echo = the seeded https-echo fallback address *)
Definition build_candidates (allow_private : bool) (control_host echo : list Z) (transport_port : Z)
                            (ext : list Z) (ext_port : Z) (stun_ok : bool) : list cand * bool :=
  let resolved := if ext_port =? 0 then transport_port else ext_port in
  let l1 :=
    if stun_ok && valid_host ext && negb (resolved =? 0) then append_candidate allow_private [] (ext, resolved, 1)
    else let e := if negb (valid_host ext) || private_host ext then echo else ext in
         append_candidate allow_private [] (e, (if resolved =? 0 then transport_port else resolved), 2) in
  let local := match control_host with [] => s_any | _ => control_host end in
  let l2 :=
    if allow_private && valid_host local then append_candidate allow_private l1 (local, transport_port, 3)
    else match l1 with
         | [] => if valid_host local then append_candidate allow_private l1 (local, transport_port, 3) else l1
         | _ => l1
         end in
  (l2, 1 <? distinct_eps (map (fun c => let '(h, p, _) := c in (h, p)) l2) []).

Definition select_public (l : list cand) : option cand := find (fun c => let '(_, _, v) := c in v =? 1) l.

(* ---------------------------------------------------------------- the node *)
(* advertise_auto_mode: 0 On, 1 Warn, 2 Off *)
Record ncfg := mkNcfg { mode : Z; allow_private : bool; control_host : list Z; control_port : Z;
                        manual : list endpoint;                 (* manual entries of advertised_endpoints (port 0 = default) *)
                        adv_host : option (list Z); adv_port : Z (* advertise_control_host / port (0 = none) *) }.

Definition adv : Type := (list Z * Z * bool)%type.      (* host, port, manual *)

(* append_endpoint of refresh_advertised_endpoints *)
Definition r_append (tp : Z) (st : list adv * list endpoint) (cd : cand) : list adv * list endpoint :=
  let '(h, p, _) := cd in
  let p := if p =? 0 then tp else p in
  match h with
  | [] => st
  | _ => if p =? 0 then st
         else if existsb (ep_eqb (h, p)) (snd st) then st
         else (fst st ++ [(h, p, false)], (h, p) :: snd st)
  end.

(* refresh_advertised_endpoints: (advertised endpoints, candidates, conflict) *)
Definition refresh (c : ncfg) (echo : list Z) (tp : Z) (ext : list Z) (ext_port : Z) (stun_ok : bool)
  : list adv * list cand * bool :=
  let manuals := map (fun e => (fst e, snd e, true)) (manual c) in
  if mode c =? 2 then (manuals, [], false)
  else if tp =? 0 then (manuals, [], false)
  else
    let '(cands, conflict) := build_candidates (allow_private c) (control_host c) echo tp ext ext_port stun_ok in
    let seen := flat_map (fun e => let p := if snd e =? 0 then tp else snd e in
                                   match fst e with [] => [] | _ => if p =? 0 then [] else [(fst e, p)] end) (manual c) in
    match cands with
    | [] => (manuals, cands, conflict)
    | first :: _ =>
        let promote := (mode c =? 0) || negb conflict in
        if negb promote then (manuals, cands, conflict)
        else
          let st0 := (manuals, seen) in
          let st :=
            match manual c with
            | [] => r_append tp st0 (match select_public cands with Some x => x | None => first end)
            | _ => fold_left (r_append tp) cands st0
            end in
          (fst st, cands, conflict)
    end.

(* is a host allowed into an automatically generated endpoint? *)
Definition auto_ok (c : ncfg) (h : list Z) : bool := allow_private c || negb (private_host h).

(* the append of preferred_control_endpoints *)
Definition p_append (st : list adv) (e : adv) : list adv :=
  let '(h, p, m) := e in
  match h with
  | [] => st
  | _ => if (p =? 0) || list_eqb h s_any then st
         else if existsb (fun x => let '(h', p', _) := x in list_eqb h h' && (p =? p')) st then st
         else st ++ [e]
  end.

Definition s_loopback4 := [49; 50; 55; 46; 48; 46; 48; 46; 49].   (* 127.0.0.1 *)

(* preferred_control_endpoints *)
Definition preferred (c : ncfg) (advertised : list adv) (cands : list cand) (conflict : bool)
                     (tp : Z) (ext : list Z) (ext_port : Z) (has_nat : bool) : list adv :=
  let fallback := if tp =? 0 then control_port c else tp in
  let st :=
    match advertised with
    | [] => match adv_host c with
            | Some h => p_append [] (h, (if adv_port c =? 0 then fallback else adv_port c), true)
            | None => match control_host c with [] => [] | h => p_append [] (h, fallback, true) end
            end
    | _ => fold_left (fun st e => let '(h, p, m) := e in p_append st (h, (if p =? 0 then fallback else p), m)) advertised []
    end in
  (* automatically discovered candidates are withheld when auto-advertise is off, or in warn mode with a conflict *)
  let suppressed := (mode c =? 2) || ((mode c =? 1) && conflict) in
  let st := if suppressed then st
            else fold_left (fun st cd => let '(h, p, _) := cd in p_append st (h, (if p =? 0 then fallback else p), false)) cands st in
  if tp =? 0 then st
  else
    (* the self endpoint: the NAT-discovered address, else control host (or 127.0.0.1) with the transport port *)
    let self : endpoint :=
      if has_nat && negb (match ext with [] => true | _ => false end) && negb (ext_port =? 0) then (ext, ext_port)
      else ((match control_host c with [] => s_loopback4 | h => h end), tp) in
    if suppressed || negb (auto_ok c (fst self)) then st else p_append st (fst self, snd self, false).

(* the discovery hints of a manifest: non-manual (transport) first, then manual (control); (manual?, host, port) *)
Definition hints (l : list adv) : list adv := filter (fun e => let '(_, _, m) := e in negb m) l ++ filter (fun e => let '(_, _, m) := e in m) l.

(* ---------------------------------------------------------------- wire *)
Fixpoint digits_of (fuel : nat) (n : Z) (acc : list Z) : list Z :=
  match fuel with
  | O => acc
  | S f => let acc' := (48 + n mod 10) :: acc in if n / 10 =? 0 then acc' else digits_of f (n / 10) acc'
  end.
Definition dec_digits (n : Z) : list Z := digits_of 6 n [].
Definition o_port (tp p : Z) : Z := if p =? tp then 0 else p.
Definition o_adv (tp : Z) (l : list adv) : list Z :=
  zlen l :: flat_map (fun e => let '(h, p, m) := e in o_bytes h ++ [o_port tp p; o_bool m]) l.

Definition tp_model : Z := 40000.

Definition run (input : list Z) : list Z :=
  let '(md, l) := w_next input in
  if md =? 1 then
    let '(h, _) := w_bytes l in [o_bool (private_host h)]
  else if (md =? 2) || (md =? 3) then
    (* a real node: mode allow_private control_host control_port manual-list adv_host adv_port echo-octet stun? stun-address;
       md 3 continues: stale non-manual entries that were in the configuration from the start (stripped by every refresh),
       then a second start of the transport after the operator changed mode / allow_private, with a new STUN answer *)
    let '(mo, l) := w_next l in let '(ap, l) := w_next l in
    let '(ch, l) := w_bytes l in let '(cp, l) := w_next l in
    let '(nm, l) := w_next l in
    let fix rd (n : nat) (l : list Z) : list endpoint * list Z :=
      match n with O => ([], l) | S k => let '(h, l) := w_bytes l in let '(p, l) := w_next l in let '(r, l) := rd k l in ((h, p) :: r, l) end in
    let '(ms, l) := rd (Z.to_nat nm) l in
    let '(has_adv, l) := w_next l in let '(ah, l) := w_bytes l in let '(apt, l) := w_next l in
    let '(echo_octet, l) := w_next l in
    let '(stun, l) := w_next l in let '(sa, l) := w_bytes l in
    let echo := [49; 57; 56; 46; 53; 49; 46; 49; 48; 48; 46] ++ dec_digits echo_octet in
    let tp := tp_model in
    let observe (c : ncfg) (stun : Z) (sa : list Z) : list Z :=
      let stun_ok := negb (stun =? 0) in
      let ext := if stun_ok then sa else s_any in
      let '(advd, cands, conflict) := refresh c echo tp ext tp stun_ok in
      let pref := preferred c advd cands conflict tp ext tp true in
      o_adv tp advd
      ++ (zlen cands :: flat_map (fun cd => let '(h, p, v) := cd in o_bytes h ++ [o_port tp p; v]) cands)
      ++ [o_bool conflict]
      ++ o_adv tp (hints pref) in
    let c := mkNcfg mo (negb (ap =? 0)) ch cp ms (if has_adv =? 0 then None else Some ah) apt in
    if md =? 2 then observe c stun sa
    else
      let '(nst, l) := w_next l in
      let '(_, l) := rd (Z.to_nat nst) l in
      let '(mo2, l) := w_next l in let '(ap2, l) := w_next l in
      let '(stun2, l) := w_next l in let '(sa2, _) := w_bytes l in
      let c2 := mkNcfg mo2 (negb (ap2 =? 0)) ch cp ms (if has_adv =? 0 then None else Some ah) apt in
      observe c stun sa ++ observe c2 stun2 sa2
  else [-1].
