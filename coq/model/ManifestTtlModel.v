(* Executable model of how long a node keeps what it derives from a manifest (src/core/Node.cpp): manifest_ttl and
   enforce_manifest_ttl, clamp_chunk_ttl, and the deadlines that ingest_manifest, receive_chunk (replica import) and
   handle_announce give to key-share records, the replica, the node's own announcement and the announcer's contact.
   One clock in nanoseconds (steady and system clock in lock-step); E = the manifest's expiry on that clock (manifests carry
   whole seconds).  min / max = the sanitised TTL window in seconds.  Definitions only. *)
Require Import ZArith List Bool.
Import ListNotations.
Local Open Scope Z_scope.
From EphVerif Require Import lib.Bytes gen.Constants_config.
From EphVerif Require model.FetchModel.

Definition ns : Z := 1000000000.

(* enforce_manifest_ttl: below the minimum -> refused; above the maximum -> capped *)
Definition enforce (ttl mn mx : Z) : option Z :=
  if ttl <? mn then None
  else let t := if mx <? ttl then mx else ttl in
       if t <=? 0 then None else Some t.

(* manifest_ttl: whole seconds left (duration_cast truncates), refused when expired or less than one second is left *)
Definition manifest_ttl (E now mn mx : Z) : option Z :=
  if E <=? now then None
  else let ttl := (E - now) / ns in
       if ttl <=? 0 then None else enforce ttl mn mx.

(* clamp_chunk_ttl *)
Definition clamp (ttl mn mx : Z) : Z :=
  let t := if ttl <? mn then mn else ttl in
  let t := if mx <? t then mx else t in
  if t <=? 0 then min_allowed_ttl else t.

(* what a path creates: deadlines (absolute, ns) of the key-share record, the replica chunk + own announcement, and the
   announcer's provider contact; None = nothing of that kind is created.  accepted = the manifest was taken. *)
Record derived := mkDerived { accepted : bool; d_shards : option Z; d_replica : option Z; d_contact : option Z }.
Definition nothing : derived := mkDerived false None None None.

Definition ingest (E now mn mx : Z) : derived :=
  match manifest_ttl E now mn mx with
  | None => nothing
  | Some t => mkDerived true (Some (now + t * ns)) None None
  end.

(* receive_chunk for a replica whose decryption matches the manifest (C11) *)
Definition receive (E now mn mx : Z) : derived :=
  match manifest_ttl E now mn mx with
  | None => nothing
  | Some t => mkDerived true (Some (now + t * ns)) (Some (now + t * ns)) None
  end.

(* handle_announce for an admissible announce (C21) that advertises ttl_adv seconds and an endpoint *)
Definition announce (E now mn mx ttl_adv : Z) : derived :=
  match manifest_ttl E now mn mx with
  | None => nothing
  | Some t =>
      let a := if 0 <? ttl_adv then ttl_adv else t in
      let a := if t <? a then t else a in
      let a := clamp a mn mx in
      mkDerived true (Some (now + t * ns)) None (Some (now + a * ns))
  end.

(* handle_announce of an announce that assigns this node a shard: the announce path, and schedule_assigned_fetch puts a
   pending fetch in the table (FetchModel) whose manifest expiry is the manifest's own E.  The announcer cannot be reached
   (peer 1 is offline), so the first attempt fails at once and the fetch backs off; then the clock moves dt ms and the node
   ticks.  Result: was the manifest taken, is a fetch pending after the announce, is one pending after the tick and how long
   it still waits (ms, -1 none). *)
Definition fetch_cfg (backoff : Z) : FetchModel.cfg := FetchModel.mkCfg backoff 60 15 0 0.
Definition announce_fetch (E now mn mx backoff dt : Z) : bool * bool * bool * Z :=
  match manifest_ttl E now mn mx with
  | None => (false, false, false, -1)
  | Some _ =>
      let c := fetch_cfg backoff in
      let s0 := FetchModel.mkSt [] [] [] [1] in
      let sn1 := fst (FetchModel.step c (fun _ => E) (s0, now) (FetchModel.Announce 1 1)) in
      let sn2 := fst (FetchModel.step c (fun _ => E) sn1 (FetchModel.Advance dt)) in
      let sn3 := fst (FetchModel.step c (fun _ => E) sn2 FetchModel.Tick) in
      let pending (sn : FetchModel.st * Z) := match FetchModel.ffind 1 (FetchModel.fetches (fst sn)) with Some _ => true | None => false end in
      (true, pending sn1, pending sn3,
       match FetchModel.ffind 1 (FetchModel.fetches (fst sn3)) with
       | Some f => match FetchModel.f_next f with Some nx => (nx - snd sn3) / 1000000 | None => -1 end
       | None => -1
       end)
  end.

(* ---- wire ----
   input: min max  then records of five: path(0 ingest, 1 receive, 2 announce, 3 announce with an assigned shard)  remaining_s (the manifest expires that many whole
   seconds after the current whole second; may be <= 0)  frac_ms (how far the clock is into that second)  ttl_adv (path 3:
   dt_ms between the announce and the tick)  aux (path 3: the initial retry back-off in seconds)
   output per record (path 3: accepted, key-share deadline, pending after the announce, pending after the tick, wait ms): accepted, then for key shares / replica / the node's own announcement of the replica / the announcer's
   contact: -1 or the deadline as milliseconds from now *)
Definition o_dl (now : Z) (d : option Z) : Z := match d with None => -1 | Some x => (x - now) / 1000000 end.

Fixpoint run_wire (fuel : nat) (mn mx : Z) (l : list Z) : list Z :=
  match fuel with
  | O => []
  | S f =>
      match l with
      | [] => []
      | _ =>
          let '(path, l) := w_next l in let '(rem, l) := w_next l in let '(frac, l) := w_next l in let '(adv, l) := w_next l in let '(aux, l) := w_next l in
          (* the clock stands frac ms after a whole second; the manifest expires rem whole seconds after that whole second *)
          let now := 1000 * ns + frac * 1000000 in
          let E := 1000 * ns + rem * ns in
          if path =? 3 then
            let '(acc, p0, p1, wait) := announce_fetch E now mn mx aux adv in
            [o_bool acc; o_dl now (d_shards (announce E now mn mx 0)); o_bool p0; o_bool p1; wait] ++ run_wire f mn mx l
          else if path =? 4 then
            (* a first manifest for the same chunk id, expiring aux whole seconds after the whole second, was ingested just
               before: publish_shards REPLACES the key-share record, so a manifest that is taken leaves its own deadline
               whatever the earlier one was; a refused one leaves the earlier state *)
            let dA := ingest (1000 * ns + aux * ns) now mn mx in
            let dB := ingest E now mn mx in
            let d := if accepted dB then dB else dA in
            [o_bool (accepted d); o_dl now (d_shards d); o_dl now (d_replica d); o_dl now (d_replica d); o_dl now (d_contact d)] ++ run_wire f mn mx l
          else
          let d := if path =? 0 then ingest E now mn mx else if path =? 1 then receive E now mn mx else announce E now mn mx adv in
          [o_bool (accepted d); o_dl now (d_shards d); o_dl now (d_replica d); o_dl now (d_replica d); o_dl now (d_contact d)] ++ run_wire f mn mx l
      end
  end.

Definition run (input : list Z) : list Z :=
  let '(mn, l) := w_next input in let '(mx, l) := w_next l in
  run_wire (length l) mn mx l.
