(* Executable model of the upload scheduler of src/core/Node.cpp: handle_request, handle_acknowledge, the upload part of
   tick, enqueue_upload_request, process_pending_uploads (prune, rotation, the bounded loop), can_accept_more_uploads,
   can_dispatch_upload, dispatch_upload, note_upload_start / note_upload_end, prune_stale_uploads, send_negative_ack.
   Peers and chunks are numbers; what a peer is to the node (no session key / key and live session / key but no live
   session) and which chunks the node can serve are the environment of a run.  Time is in nanoseconds.  The model follows
   the code after the fix: commit (a repeated request for an upload that is still active refreshes it instead of taking a
   second per-peer slot).  Definitions only. *)
Require Import ZArith List Bool.
Import ListNotations.
Local Open Scope Z_scope.
From EphVerif Require Import lib.Bytes.

Record cfg := mkCfg { max_parallel : Z; max_per_peer : Z; transfer_timeout_s : Z; reconsider_s : Z }.
Record env := mkEnv { peer_kind : Z -> Z;        (* 0: no session key, 1: key and live session, 2: key, no live session *)
                      servable : Z -> bool }.     (* manifest cached, record live, manifest TTL acceptable *)

Definition upload : Type := (Z * Z)%type.        (* (peer, chunk) = the key of active_uploads_ *)
Record st := mkSt { pending : list upload;       (* pending_uploads_, front first *)
                    active : list (upload * Z);  (* active_uploads_: key -> started_at *)
                    per_peer : list (Z * Z);     (* active_uploads_per_peer_ *)
                    last_rotation : Z }.
(* last_upload_rotation_ is initialised to the construction time *)
Definition init_at (t0 : Z) : st := mkSt [] [] [] t0.

(* frames the node puts on the wire: (kind, peer, chunk); kind 1 = CHUNK, 0 = negative ACK *)
Definition frame : Type := (Z * Z * Z)%type.

Definition up_eqb (a b : upload) : bool := (fst a =? fst b) && (snd a =? snd b).
Fixpoint act_find (k : upload) (m : list (upload * Z)) : option Z :=
  match m with [] => None | (k', v) :: r => if up_eqb k' k then Some v else act_find k r end.
Definition act_remove (k : upload) (m : list (upload * Z)) : list (upload * Z) :=
  filter (fun e => negb (up_eqb (fst e) k)) m.
Definition act_set (k : upload) (v : Z) (m : list (upload * Z)) : list (upload * Z) :=
  (k, v) :: act_remove k m.

Fixpoint pp_get (p : Z) (m : list (Z * Z)) : Z :=
  match m with [] => 0 | (q, n) :: r => if q =? p then n else pp_get p r end.
Definition pp_remove (p : Z) (m : list (Z * Z)) : list (Z * Z) := filter (fun e => negb (fst e =? p)) m.
Definition pp_set (p n : Z) (m : list (Z * Z)) : list (Z * Z) := (p, n) :: pp_remove p m.

Definition can_accept (c : cfg) (s : st) : bool :=
  (max_parallel c =? 0) || (zlen (active s) <? max_parallel c).
Definition can_dispatch (c : cfg) (s : st) (p : Z) : bool :=
  can_accept c s && ((max_per_peer c =? 0) || (pp_get p (per_peer s) <? max_per_peer c)).

(* note_upload_start: active_uploads_[key] = state; the per-peer counter grows only for a key that was not active *)
Definition note_start (s : st) (u : upload) (now : Z) : st :=
  let fresh := match act_find u (active s) with None => true | Some _ => false end in
  mkSt (pending s) (act_set u now (active s))
       (if fresh then pp_set (fst u) (pp_get (fst u) (per_peer s) + 1) (per_peer s) else per_peer s)
       (last_rotation s).

(* note_upload_end: nothing for a key that is not active; else the counter drops (entry erased at <= 1) and the key goes *)
Definition note_end (s : st) (u : upload) : st :=
  match act_find u (active s) with
  | None => s
  | Some _ =>
      let n := pp_get (fst u) (per_peer s) in
      mkSt (pending s) (act_remove u (active s))
           (if n <=? 1 then pp_remove (fst u) (per_peer s) else pp_set (fst u) (n - 1) (per_peer s))
           (last_rotation s)
  end.

Definition ns : Z := 1000000000.
Definition prune (c : cfg) (s : st) (now : Z) : st :=
  if transfer_timeout_s c <=? 0 then s
  else fold_left note_end
         (map fst (filter (fun e => transfer_timeout_s c * ns <=? now - snd e) (active s))) s.

(* dispatch_upload: (state, frames, dispatched?) *)
Definition dispatch (e : env) (s : st) (u : upload) (now : Z) : st * list frame :=
  if negb (servable e (snd u)) then (s, if peer_kind e (fst u) =? 1 then [(0, fst u, snd u)] else [])
  else if peer_kind e (fst u) =? 1 then (note_start s u now, [(1, fst u, snd u)])
  else (s, []).    (* no key, or the frame (and the negative ACK after it) cannot be sent *)

Fixpoint loop (c : cfg) (e : env) (iter : nat) (s : st) (now : Z) (out : list frame) : st * list frame :=
  match iter with
  | O => (s, out)
  | S k =>
      if negb (can_accept c s) then (s, out) else
      match pending s with
      | [] => (s, out)
      | u :: rest =>
          let s1 := mkSt rest (active s) (per_peer s) (last_rotation s) in
          if negb (can_dispatch c s1 (fst u))
          then loop c e k (mkSt (rest ++ [u]) (active s) (per_peer s) (last_rotation s)) now out
          else let '(s2, fr) := dispatch e s1 u now in loop c e k s2 now (out ++ fr)
      end
  end.

Definition process (c : cfg) (e : env) (s : st) (now : Z) : st * list frame :=
  match pending s with
  | [] => (prune c s now, [])
  | _ =>
      let s := prune c s now in
      let s := match pending s with
               | u :: (_ :: _) as rest =>
                   if (0 <? reconsider_s c) && (reconsider_s c * ns <=? now - last_rotation s)
                   then mkSt (rest ++ [u]) (active s) (per_peer s) now else s
               | _ => s
               end in
      loop c e (length (pending s)) s now []
  end.

Inductive op := Request (p ch : Z) | Ack (p ch : Z) | Tick | Advance (dt_ms : Z).

Definition step (c : cfg) (e : env) (sn : st * Z) (o : op) : (st * Z) * list frame :=
  let '(s, now) := sn in
  match o with
  | Request p ch =>
      if peer_kind e p =? 0 then ((s, now), [])
      else if negb (servable e ch) then ((s, now), if peer_kind e p =? 1 then [(0, p, ch)] else [])
      else let s1 := mkSt (pending s ++ [(p, ch)]) (active s) (per_peer s) (last_rotation s) in
           let '(s2, fr) := process c e s1 now in ((s2, now), fr)
  | Ack p ch =>
      let '(s2, fr) := process c e (note_end s (p, ch)) now in ((s2, now), fr)
  | Tick => let '(s2, fr) := process c e s now in ((s2, now), fr)
  | Advance dt => ((s, now + (if dt <? 0 then 0 else dt) * 1000000), [])
  end.

Definition run_ops (c : cfg) (e : env) (sn : st * Z) (ops : list op) : st * Z :=
  fold_left (fun x o => fst (step c e x o)) ops sn.

(* ---- wire ----
   input: max_parallel max_per_peer timeout_s reconsider_s  npeers kind_1..kind_n  nservable  then ops: (code a b)
   op codes: 0 Request a=peer b=chunk, 1 Ack a=peer b=chunk, 2 Tick, 3 Advance a=ms.  Peers are 1..npeers, chunk c is
   servable iff 1 <= c <= nservable.
   output per op: number of frames f, then f sorted frames (kind peer chunk), |active|, |pending|, then the per-peer counter
   of every peer 1..npeers *)
Fixpoint insert_frame (f : frame) (l : list frame) : list frame :=
  match l with
  | [] => [f]
  | g :: r =>
      let '(k1, p1, c1) := f in let '(k2, p2, c2) := g in
      if (p1 <? p2) || ((p1 =? p2) && ((c1 <? c2) || ((c1 =? c2) && (k1 <=? k2)))) then f :: l else g :: insert_frame f r
  end.
Definition sort_frames (l : list frame) : list frame := fold_right insert_frame [] l.

Fixpoint w_kinds (n : nat) (l : list Z) : list Z * list Z :=
  match n with O => ([], l) | S k => let '(x, l) := w_next l in let '(r, l) := w_kinds k l in (x :: r, l) end.

Fixpoint run_wire (fuel : nat) (c : cfg) (e : env) (np : Z) (sn : st * Z) (l : list Z) : list Z :=
  match fuel with
  | O => []
  | S k =>
      match l with
      | [] => []
      | _ =>
          let '(code, l) := w_next l in let '(a, l) := w_next l in let '(b, l) := w_next l in
          let o := if code =? 0 then Request a b else if code =? 1 then Ack a b else if code =? 2 then Tick else Advance a in
          let '(sn', fr) := step c e sn o in
          let fr := sort_frames fr in
          [zlen fr] ++ flat_map (fun f => let '(kd, p, ch) := f in [kd; p; ch]) fr
          ++ [zlen (active (fst sn')); zlen (pending (fst sn'))]
          ++ map (fun p => pp_get p (per_peer (fst sn'))) (map Z.of_nat (seq 1 (Z.to_nat np)))
          ++ run_wire k c e np sn' l
      end
  end.

Definition run (input : list Z) : list Z :=
  let '(mp, l) := w_next input in let '(pp, l) := w_next l in let '(to, l) := w_next l in let '(rc, l) := w_next l in
  let '(np, l) := w_next l in
  let '(kinds, l) := w_kinds (Z.to_nat np) l in
  let '(nserv, l) := w_next l in
  let e := mkEnv (fun p => if (1 <=? p) && (p <=? np) then nth (Z.to_nat (p - 1)) kinds 0 else 0)
                 (fun ch => (1 <=? ch) && (ch <=? nserv)) in
  run_wire (length l) (mkCfg mp pp to rc) e np (init_at 1000000000000, 1000000000000) l.
