(* Executable model of src/daemon/StructuredLogger.cpp: escape_control_characters and the record
   rendering of StructuredLogger::log, plus the reader used as specification (RFC 8259 strings and the
   fixed record shape).  Definitions only (proofs: proofs/LoggerProofs.v).  Bytes are Z in 0..255. *)
Require Import ZArith List Bool.
Import ListNotations.
Local Open Scope Z_scope.
From EphVerif Require Import lib.Bytes.

(* ------------------------------------------------------------------------------ the code *)
(* std::hex << std::uppercase digit *)
Definition hexd (d : Z) : Z := if d <? 10 then 48 + d else 55 + d.

Definition esc_byte (c : Z) : list Z :=
  if c =? 34 then [92; 34] else
  if c =? 92 then [92; 92] else
  if c =? 8 then [92; 98] else
  if c =? 12 then [92; 102] else
  if c =? 10 then [92; 110] else
  if c =? 13 then [92; 114] else
  if c =? 9 then [92; 116] else
  if c <? 32 then [92; 117; hexd ((c / 4096) mod 16); hexd ((c / 256) mod 16); hexd ((c / 16) mod 16); hexd (c mod 16)]
  else [c].

Definition escape (s : list Z) : list Z := flat_map esc_byte s.

Definition quoted (s : list Z) : list Z := [34] ++ escape s ++ [34].

Definition lit_open : list Z := [123; 34; 116; 115; 34; 58].                       (* {"ts":      *)
Definition lit_level : list Z := [44; 34; 108; 101; 118; 101; 108; 34; 58].        (* ,"level":   *)
Definition lit_event : list Z := [44; 34; 101; 118; 101; 110; 116; 34; 58].        (* ,"event":   *)
Definition lit_fields : list Z := [44; 34; 102; 105; 101; 108; 100; 115; 34; 58; 123]. (* ,"fields":{ *)

Definition render_field (f : list Z * list Z) : list Z := quoted (fst f) ++ [58] ++ quoted (snd f).

Fixpoint render_fields (fs : list (list Z * list Z)) : list Z :=
  match fs with
  | [] => []
  | [f] => render_field f
  | f :: r => render_field f ++ [44] ++ render_fields r
  end.

Definition render (ts lvl ev : list Z) (fs : list (list Z * list Z)) : list Z :=
  lit_open ++ quoted ts ++ lit_level ++ quoted lvl ++ lit_event ++ quoted ev ++
  (match fs with [] => [] | _ => lit_fields ++ render_fields fs ++ [125] end) ++ [125; 10].

Definition level_name (l : Z) : list Z :=
  if l =? 1 then [119; 97; 114; 110; 105; 110; 103] else if l =? 2 then [101; 114; 114; 111; 114] else [105; 110; 102; 111].

(* ------------------------------------------------------------------------------ the specification reader *)
Definition hexv (c : Z) : option Z :=
  if (48 <=? c) && (c <=? 57) then Some (c - 48) else
  if (65 <=? c) && (c <=? 70) then Some (c - 55) else
  if (97 <=? c) && (c <=? 102) then Some (c - 87) else None.

Definition hex4 (a b c d : Z) : option Z :=
  match hexv a, hexv b, hexv c, hexv d with
  | Some x, Some y, Some z, Some w => Some (((x * 16 + y) * 16 + z) * 16 + w)
  | _, _, _, _ => None
  end.

(* RFC 8259 section 7 two-character escapes *)
Definition simple_escape (e : Z) : option Z :=
  if e =? 34 then Some 34 else if e =? 92 then Some 92 else if e =? 47 then Some 47 else
  if e =? 98 then Some 8 else if e =? 102 then Some 12 else if e =? 110 then Some 10 else
  if e =? 114 then Some 13 else if e =? 116 then Some 9 else None.

Definition push (v : Z) (o : option (list Z * list Z)) : option (list Z * list Z) :=
  match o with Some (s, r) => Some (v :: s, r) | None => None end.

(* the characters of a JSON string after its opening quote: decoded content and what follows the closing
   quote.  Unescaped bytes below 0x20 and dangling escapes are errors.  \uXXXX is decoded for code points
   below 0x80 only (None otherwise: this reader claims less, never something wrong). *)
Fixpoint str_body (l : list Z) : option (list Z * list Z) :=
  match l with
  | [] => None
  | c :: r =>
      if c =? 34 then Some ([], r) else
      if c =? 92 then
        match r with
        | [] => None
        | e :: r' =>
            if e =? 117 then
              match r' with
              | a :: b :: c' :: d :: r'' =>
                  match hex4 a b c' d with
                  | Some v => if v <? 128 then push v (str_body r'') else None
                  | None => None
                  end
              | _ => None
              end
            else match simple_escape e with Some v => push v (str_body r') | None => None end
        end
      else if c <? 32 then None
      else push c (str_body r)
  end.

Definition jstring (l : list Z) : option (list Z * list Z) :=
  match l with c :: r => if c =? 34 then str_body r else None | [] => None end.

Definition expect (lit l : list Z) : option (list Z) :=
  if is_prefixb lit l then Some (skipn (length lit) l) else None.

(* members of the "fields" object after '{': "k":"v" ( ,"k":"v" )* '}' *)
Fixpoint members (fuel : nat) (l : list Z) : option (list (list Z * list Z) * list Z) :=
  match fuel with
  | O => None
  | S fuel' =>
      match jstring l with
      | Some (k, r1) =>
          match expect [58] r1 with
          | Some r2 =>
              match jstring r2 with
              | Some (v, r3) =>
                  match r3 with
                  | c :: r4 =>
                      if c =? 125 then Some ([(k, v)], r4)
                      else if c =? 44 then
                        match members fuel' r4 with Some (kvs, r5) => Some ((k, v) :: kvs, r5) | None => None end
                      else None
                  | [] => None
                  end
              | None => None
              end
          | None => None
          end
      | None => None
      end
  end.

Record record := { r_ts : list Z; r_level : list Z; r_event : list Z; r_fields : list (list Z * list Z) }.

Definition parse_record (l : list Z) : option record :=
  match expect lit_open l with None => None | Some l =>
  match jstring l with None => None | Some (ts, l) =>
  match expect lit_level l with None => None | Some l =>
  match jstring l with None => None | Some (lvl, l) =>
  match expect lit_event l with None => None | Some l =>
  match jstring l with None => None | Some (ev, l) =>
  match expect lit_fields l with
  | Some l' =>
      match members (length l') l' with
      | Some (fs, l'') => if list_eqb l'' [125; 10] then Some {| r_ts := ts; r_level := lvl; r_event := ev; r_fields := fs |} else None
      | None => None
      end
  | None => if list_eqb l [125; 10] then Some {| r_ts := ts; r_level := lvl; r_event := ev; r_fields := [] |} else None
  end end end end end end end.

(* ------------------------------------------------------------------------------ wire *)
Fixpoint w_fields (n : nat) (l : list Z) : list (list Z * list Z) * list Z :=
  match n with
  | O => ([], l)
  | S n' => let '(k, l) := w_bytes l in let '(v, l) := w_bytes l in
            let '(fs, l) := w_fields n' l in ((k, v) :: fs, l)
  end.

(* modes: 1 = escape_json(s); 2 = log(level, event, fields) with the timestamp's content removed *)
Definition run (input : list Z) : list Z :=
  let '(mode, l) := w_next input in
  if mode =? 1 then let '(s, _) := w_bytes l in o_bytes (escape s)
  else if mode =? 2 then
    let '(lvl, l) := w_next l in
    let '(ev, l) := w_bytes l in
    let '(n, l) := w_next l in
    let '(fs, _) := w_fields (Z.to_nat n) l in
    1 :: o_bytes (render [] (level_name lvl) ev fs)
  else [-1].
