(* Executable model of the relay server (src/relay/RelayServer.cpp): client sessions, the registry of registered peers, the
   line protocol (REGISTER, CONNECT, PONG), the identity bytes, bridging and forwarding, and close_session / detach_partner.
   A run is a history of client actions: a new connection, bytes sent by a client, a client disconnecting; the server handles
   each completely (reads everything the client sent, then flushes what it queued) before the next.  Clients are numbered
   in the order they connect.  weak_ptr::lock succeeds exactly on sessions that have not been closed.  The model follows
   the code after the fix: commit (REGISTER is refused on a session a connector has claimed).  Definitions only. *)
Require Import ZArith List Bool.
Import ListNotations.
Local Open Scope Z_scope.
From EphVerif Require Import lib.Bytes.

(* states *)
Definition AwaitingCommand := 0.  Definition Registered := 1.  Definition AwaitingIdentity := 2.  Definition Bridged := 3.

Record client := mkClient { st : Z; rbuf : list Z; wbuf : list Z; hex : list Z; cself : list Z; partner : option nat; alive : bool }.
Definition fresh : client := mkClient AwaitingCommand [] [] [] [] None true.
Definition gone : client := mkClient AwaitingCommand [] [] [] [] None false.

(* hung: the server entered the endless loop of process_protocol (a session in AwaitingIdentity whose partner is gone keeps
   its 32 buffered bytes and its state, so the loop never ends) *)
Record state := mkState { clients : list client; reg : list (list Z * nat); hung : bool }.
Definition init : state := mkState [] [] false.
Definition with_reg (s : state) (r : list (list Z * nat)) : state := mkState (clients s) r (hung s).

Definition get (s : state) (i : nat) : client := nth i (clients s) gone.
Fixpoint lset (l : list client) (i : nat) (c : client) : list client :=
  match l, i with
  | [], _ => []
  | _ :: r, O => c :: r
  | x :: r, S k => x :: lset r k c
  end.
Definition set (s : state) (i : nat) (c : client) : state := mkState (lset (clients s) i c) (reg s) (hung s).

Definition with_st (c : client) v := mkClient v (rbuf c) (wbuf c) (hex c) (cself c) (partner c) (alive c).
Definition with_rbuf (c : client) v := mkClient (st c) v (wbuf c) (hex c) (cself c) (partner c) (alive c).
Definition with_wbuf (c : client) v := mkClient (st c) (rbuf c) v (hex c) (cself c) (partner c) (alive c).
Definition with_hex (c : client) v := mkClient (st c) (rbuf c) (wbuf c) v (cself c) (partner c) (alive c).
Definition with_self (c : client) v := mkClient (st c) (rbuf c) (wbuf c) (hex c) v (partner c) (alive c).
Definition with_partner (c : client) v := mkClient (st c) (rbuf c) (wbuf c) (hex c) (cself c) v (alive c).
Definition with_alive (c : client) v := mkClient (st c) (rbuf c) (wbuf c) (hex c) (cself c) (partner c) v.

(* weak_ptr::lock *)
Definition lock (s : state) (p : option nat) : option nat :=
  match p with Some j => if alive (get s j) then Some j else None | None => None end.

(* the registry: peer hex -> session *)
Fixpoint rfind (k : list Z) (m : list (list Z * nat)) : option nat :=
  match m with [] => None | (k', j) :: r => if list_eqb k' k then Some j else rfind k r end.
Definition rerase (k : list Z) (m : list (list Z * nat)) : list (list Z * nat) := filter (fun e => negb (list_eqb (fst e) k)) m.
Definition rset (k : list Z) (j : nat) (m : list (list Z * nat)) : list (list Z * nat) := (k, j) :: rerase k m.

Definition queue (s : state) (i : nat) (data : list Z) : state := let c := get s i in set s i (with_wbuf c (wbuf c ++ data)).

(* remove_registration *)
Definition remove_registration (s : state) (i : nat) : state :=
  let c := get s i in
  match hex c with
  | [] => s
  | _ => match rfind (hex c) (reg s) with
         | None => s
         | Some j => if alive (get s j) && negb (Nat.eqb j i) then s else with_reg s (rerase (hex c) (reg s))
         end
  end.

(* close_session with detach_partner; the recursion goes at most one level (the partner's own partner link is reset first) *)
Fixpoint close (fuel : nat) (s : state) (i : nat) : state :=
  match fuel with
  | O => s
  | S f =>
      let c := get s i in
      if negb (alive c) then s else
      let s := set s i (with_alive c false) in
      let s := remove_registration s i in
      match lock s (partner c) with
      | None => s
      | Some j =>
          let pj := get s j in
          let s := set s j (with_partner pj None) in
          if (st pj =? AwaitingIdentity) || (st pj =? Bridged) then close f s j
          else if (st pj =? Registered) && negb (match hex pj with [] => true | _ => false end)
               then with_reg s (rset (hex pj) j (reg s))
               else s
      end
  end.
Definition close_session (s : state) (i : nat) : state := close 3 s i.

(* text *)
Definition is_xdigit (b : Z) : bool := ((48 <=? b) && (b <=? 57)) || ((65 <=? b) && (b <=? 70)) || ((97 <=? b) && (b <=? 102)).
Definition is_hex_string (t : list Z) : bool := negb (match t with [] => true | _ => false end) && forallb is_xdigit t.
Definition lower (b : Z) : Z := if (65 <=? b) && (b <=? 70) then b + 32 else b.
(* peer_id_to_string (peer_id_from_string t)) for a hex string of 64 digits *)
Definition canonical (t : list Z) : list Z := map lower t.

Definition t_REGISTER := [82; 69; 71; 73; 83; 84; 69; 82].
Definition t_CONNECT := [67; 79; 78; 78; 69; 67; 84].
Definition t_PONG := [80; 79; 78; 71].
Definition t_OK := [79; 75; 10].
Definition t_BEGIN := [66; 69; 71; 73; 78; 32].
(* "ERROR " ++ reason ++ "\n" *)
Definition t_err (reason : list Z) : list Z := [69; 82; 82; 79; 82; 32] ++ reason ++ [10].
Definition e_invalid_args := [105; 110; 118; 97; 108; 105; 100; 45; 97; 114; 103; 115].
Definition e_unknown_command := [117; 110; 107; 110; 111; 119; 110; 45; 99; 111; 109; 109; 97; 110; 100].
Definition e_invalid_peer := [105; 110; 118; 97; 108; 105; 100; 45; 112; 101; 101; 114].
Definition e_already_registered := [97; 108; 114; 101; 97; 100; 121; 45; 114; 101; 103; 105; 115; 116; 101; 114; 101; 100].
Definition e_invalid_target := [105; 110; 118; 97; 108; 105; 100; 45; 116; 97; 114; 103; 101; 116].
Definition e_target_unavailable := [116; 97; 114; 103; 101; 116; 45; 117; 110; 97; 118; 97; 105; 108; 97; 98; 108; 101].
Definition e_busy := [98; 117; 115; 121].

(* split at the first occurrence of a byte *)
Fixpoint split_at (x : Z) (l : list Z) : option (list Z * list Z) :=
  match l with
  | [] => None
  | b :: r => if b =? x then Some ([], r) else match split_at x r with Some (a, c) => Some (b :: a, c) | None => None end
  end.
(* split_arguments: non-empty tokens between spaces *)
Fixpoint tokens_aux (l cur : list Z) : list (list Z) :=       (* cur: the current token, last byte first *)
  match l with
  | [] => match cur with [] => [] | _ => [rev_append cur []] end
  | b :: r => if b =? 32 then (match cur with [] => tokens_aux r [] | _ => rev_append cur [] :: tokens_aux r [] end) else tokens_aux r (b :: cur)
  end.
Definition tokens (l : list Z) : list (list Z) := tokens_aux l [].

Definition handle_register (s : state) (i : nat) (arg : list Z) : state :=
  if negb (is_hex_string arg && (zlen arg =? 64)) then queue s i (t_err e_invalid_peer) else
  (* a session that a connector has claimed keeps its registration until that connector is gone *)
  match lock s (partner (get s i)) with
  | Some _ => queue s i (t_err e_busy)
  | None =>
      let s := remove_registration s i in
      let c := get s i in
      let h := canonical arg in
      let s := set s i (with_st (with_hex c h) Registered) in
      let s := with_reg s (rset h i (reg s)) in
      queue s i t_OK
  end.

(* find_registered *)
Definition find_registered (s : state) (k : list Z) : state * option nat :=
  match rfind k (reg s) with
  | None => (s, None)
  | Some j => if alive (get s j) && (st (get s j) =? Registered) then (s, Some j)
              else (with_reg s (rerase k (reg s)), None)
  end.

Definition handle_connect (s : state) (i : nat) (self_hex target_hex : list Z) : state :=
  let c := get s i in
  if st c =? Registered then queue s i (t_err e_already_registered)
  else if negb (is_hex_string self_hex && is_hex_string target_hex) then queue s i (t_err e_invalid_peer)
  else if list_eqb self_hex target_hex then queue s i (t_err e_invalid_target)
  else
    let '(s, t) := find_registered s target_hex in
    match t with
    | None => queue s i (t_err e_target_unavailable)
    | Some j =>
        let s := with_reg s (rerase target_hex (reg s)) in
        let c := get s i in
        let s := set s i (with_partner (with_self (with_st c AwaitingIdentity) self_hex) (Some j)) in
        let s := set s j (with_partner (get s j) (Some i)) in
        queue s i t_OK
    end.

Definition handle_line (s : state) (i : nat) (line : list Z) : state :=
  match line with
  | [] => s
  | _ =>
      let '(cmd, args) := match split_at 32 line with Some (a, b) => (a, b) | None => (line, []) end in
      if list_eqb cmd t_REGISTER then handle_register s i args
      else if list_eqb cmd t_CONNECT then
        match tokens args with
        | [a; b] => handle_connect s i a b
        | _ => queue s i (t_err e_invalid_args)
        end
      else if list_eqb cmd t_PONG then s
      else queue s i (t_err e_unknown_command)
  end.

(* handle_identity_ready, for a session in AwaitingIdentity whose buffer holds the 32 identity bytes *)
Definition handle_identity_ready (s : state) (i : nat) : state :=
  let c := get s i in
  match lock s (partner c) with
  | None => let s := close_session (queue s i (t_err e_target_unavailable)) i in mkState (clients s) (reg s) true
  | Some j =>
      let ident := firstn 32 (rbuf c) in
      let rest := skipn 32 (rbuf c) in
      let s := queue s j (t_BEGIN ++ cself c ++ [10]) in
      let s := set s i (with_rbuf (with_st (get s i) Bridged) []) in
      let s := set s j (with_st (get s j) Bridged) in
      queue s j (ident ++ rest)
  end.

(* a line that ends in CR loses it *)
Fixpoint strip_cr (l : list Z) : list Z :=
  match l with
  | [] => []
  | x :: r => match r with [] => if x =? 13 then [] else [x] | _ => x :: strip_cr r end
  end.

(* process_protocol; fuel: every round consumes at least one byte of the buffer or stops *)
Fixpoint process (fuel : nat) (s : state) (i : nat) : state :=
  match fuel with
  | O => s
  | S f =>
      let c := get s i in
      if negb (alive c) then s else
      if st c =? AwaitingIdentity then
        if 32 <=? zlen (rbuf c) then process f (handle_identity_ready s i) i else s
      else if st c =? Bridged then s
      else
        match split_at 10 (rbuf c) with
        | None => s
        | Some (line, rest) =>
            let s := set s i (with_rbuf c rest) in
            process f (handle_line s i (strip_cr line)) i
        end
  end.

(* forward_to_partner *)
Definition forward (s : state) (i : nat) (data : list Z) : state :=
  match lock s (partner (get s i)) with
  | None => close_session s i
  | Some j => queue s j data
  end.

(* handle_read: everything the client sent since the last event *)
Definition handle_read (s : state) (i : nat) (data : list Z) : state :=
  let c := get s i in
  if negb (alive c) then s else
  if st c =? Bridged then forward s i data
  else
    let s := set s i (with_rbuf c (rbuf c ++ data)) in
    process (S (length (rbuf c ++ data))) s i.

(* Bulk i n seed: a bridged client sends n bytes (byte k is 128 + (seed + 7 k) mod 128) while its partner does not read, and
   the partner reads everything afterwards; what is observed at the partner is a digest of what arrived: the number of bytes
   (4 bytes, big endian) and the sum of (k + 1) * byte k modulo 2^32 (4 bytes).  In the model the digest of the bytes sent
   stands for the bytes themselves (a bridge forwards whatever it is given): the correspondence check then says that under
   back-pressure the partner still receives exactly the n bytes, in order.  Outside a bridge the action is not performed. *)
Definition bulk_step (seed : Z) (ka : Z * Z) : Z * Z :=
  let '(k, acc) := ka in (k + 1, (acc + (k + 1) * (128 + (seed + 7 * k) mod 128)) mod 4294967296).
Definition be4 (v : Z) : list Z := [v / 16777216 mod 256; v / 65536 mod 256; v / 256 mod 256; v mod 256].
Definition bulk_digest (n seed : Z) : list Z :=
  let '(k, acc) := N.iter (Z.to_N n) (bulk_step seed) (0, 0) in be4 k ++ be4 acc.

Inductive op := Connect | Send (i : nat) (data : list Z) | Disconnect (i : nat) | Bulk (i : nat) (n seed : Z).

(* what reaches the clients: every live session's write buffer is flushed; a closed session's is discarded *)
Definition deliver (s : state) : state * list (list Z) :=
  (mkState (map (fun c => with_wbuf c []) (clients s)) (reg s) (hung s),
   map (fun c => if alive c then wbuf c else []) (clients s)).

Definition step (s : state) (o : op) : state * list (list Z) :=
  match o with
  | Connect => deliver (mkState (clients s ++ [fresh]) (reg s) (hung s))
  | Send i data => deliver (handle_read s i data)
  | Disconnect i => deliver (close_session s i)
  | Bulk i n seed =>
      if alive (get s i) && (st (get s i) =? Bridged) then deliver (handle_read s i (bulk_digest n seed)) else deliver s
  end.

(* ---- wire ----
   input: ops  0 | 1 i len bytes | 2 i | 3 i n seed
   output per op: the number of clients n, then for each client: len bytes delivered to it by this op, 1/0 its session is
   still open; then the number of open sessions, the number of registry entries, and 1 if the server hung; at the end, after
   every client has left: the number of open sessions and of registry entries *)
Definition count_alive (s : state) : Z := zlen (filter alive (clients s)).

Definition read_op (l : list Z) : op * list Z :=
  let '(code, l) := w_next l in
  if code =? 0 then (Connect, l)
  else if code =? 1 then let '(i, l) := w_next l in let '(d, l) := w_bytes l in (Send (Z.to_nat i) d, l)
  else if code =? 3 then let '(i, l) := w_next l in let '(n, l) := w_next l in let '(sd, l) := w_next l in (Bulk (Z.to_nat i) n sd, l)
  else let '(i, l) := w_next l in (Disconnect (Z.to_nat i), l).

(* the outputs of every action, and the state at the end *)
Fixpoint run_wire (fuel : nat) (s : state) (l : list Z) : list Z * state :=
  match fuel with
  | O => ([], s)
  | S f =>
      match l with
      | [] => ([], s)
      | _ =>
          let '(o, l) := read_op l in
          let '(s', outs) := step s o in
          let '(rest, sf) := run_wire f s' l in
          ([zlen outs] ++ flat_map (fun e => o_bytes (fst e) ++ [o_bool (alive (snd e))]) (combine outs (clients s'))
           ++ [count_alive s'; zlen (reg s'); o_bool (hung s')] ++ rest, sf)
      end
  end.

(* after the history every client that is still connected leaves (in order of connection) *)
Definition everyone_leaves (s : state) : state :=
  fold_left (fun s i => fst (step s (Disconnect i))) (seq 0 (length (clients s))) s.

Definition run (input : list Z) : list Z :=
  let '(outs, sf) := run_wire (length input) init input in
  let s := everyone_leaves sf in
  outs ++ [count_alive s; zlen (reg s)].
