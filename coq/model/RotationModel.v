(* Executable model of src/network/KeyManager.cpp (register_session_with_material, rotate_if_needed, derive_key with its
   LOCAL steady-clock timestamp) and of Node::rotate_session_keys as Node::tick runs it, for the two ends of one session
   after a mutual handshake (KeyExchangeModel).  Each node reads its own clock: an operation carries the reading of the
   node that acts.  Times are nanoseconds as steady_clock::time_point holds them.  Definitions only. *)
Require Import ZArith List Bool.
Import ListNotations.
Local Open Scope Z_scope.
From EphVerif Require Import lib.Bytes model.Sha256Model model.KeyExchangeModel model.ConfigModel.

Definition ns_per_s : Z := 1000000000.

(* SessionKeyContext *)
Record ctx := mkCtx { c_shared : list Z; c_key : list Z; c_counter : Z; c_last : Z }.

(* material[0..7] = counter big-endian, material[8..15] = ticks big-endian (both through uint64_t shifts) *)
Definition derive_key (shared : list Z) (counter ts : Z) : list Z :=
  hmac shared (be64 (counter mod two64) ++ be64 (ts mod two64)).

Definition register_with_material (shared material : list Z) (now : Z) : ctx :=
  mkCtx shared (hmac shared material) 0 now.

(* if (now - context.last_rotation < rotation_interval_) return nullopt; counter += 1; last_rotation = now; key = derive *)
Definition rotate_if_needed (interval_s : Z) (c : ctx) (now : Z) : ctx * bool :=
  if now - c_last c <? interval_s * ns_per_s then (c, false)
  else let cnt := (c_counter c + 1) mod two64 in
       (mkCtx (c_shared c) (derive_key (c_shared c) cnt now) cnt now, true).

(* one end of the session: its KeyManager context for the peer, the key its live transport session uses
   (SessionManager::register_peer_key overwrites it on every rotation and never closes the session), whether that
   session is open, and what perform_handshake remembers: the handshake key, when the peer's handshake was last
   validated (handshake_state_.last_attempt) and the cool-down *)
Record endpoint := mkEnd { e_ctx : ctx; e_session_key : list Z; e_open : bool; e_interval : Z;
                           e_hs_key : list Z; e_last_hs : Z; e_cooldown : Z }.

Definition handshake_end (priv my_pub remote_pub interval cooldown now : Z) : endpoint :=
  let k := session_key priv my_pub remote_pub in   (* = c_key (register_with_material shared material now) *)
  mkEnd (mkCtx (derive_shared_secret priv remote_pub) k 0 now) k true (sanitize_key_rotation_interval interval) k now cooldown.

(* Node::tick -> rotate_session_keys(now): rotate, and on rotation push the new key into the live session *)
Definition tick_end (e : endpoint) (now : Z) : endpoint * bool :=
  let '(c, r) := rotate_if_needed (e_interval e) (e_ctx e) now in
  (mkEnd c (if r then c_key c else e_session_key e) (e_open e) (e_interval e) (e_hs_key e) (e_last_hs e) (e_cooldown e), r).

(* perform_handshake for the SAME (public key, nonce) that was validated before: inside the cool-down it is acknowledged
   without touching anything; after it the session is registered afresh (handshake key, counter 0, timed now) and the
   key is pushed into the live session *)
Definition rehandshake_end (e : endpoint) (now : Z) : endpoint :=
  if now - e_last_hs e <? e_cooldown e * ns_per_s then e
  else mkEnd (mkCtx (c_shared (e_ctx e)) (e_hs_key e) 0 now) (e_hs_key e) (e_open e) (e_interval e) (e_hs_key e) now (e_cooldown e).

Record sys := mkSys { s_a : endpoint; s_b : endpoint }.
(* who = 0 / 1: node A / B ticks with its clock reading `now`; who = 2 / 3: node A / B takes the peer's handshake again *)
Definition step (s : sys) (op : Z * Z) : sys * bool :=
  let '(who, now) := op in
  if who =? 0 then let '(e, r) := tick_end (s_a s) now in (mkSys e (s_b s), r)
  else if who =? 1 then let '(e, r) := tick_end (s_b s) now in (mkSys (s_a s) e, r)
  else if who =? 2 then (mkSys (rehandshake_end (s_a s) now) (s_b s), true)
  else (mkSys (s_a s) (rehandshake_end (s_b s) now), true).
Definition run_ops (s : sys) (ops : list (Z * Z)) : sys := fold_left (fun st op => fst (step st op)) ops s.

Definition keys_agree (s : sys) : bool := list_eqb (e_session_key (s_a s)) (e_session_key (s_b s)).
(* a message sealed by one end opens at the other exactly when the two hold the same key (C13 for the signature, the
   stream cipher of C09 for the bytes) *)
Definition delivered (s : sys) : bool := keys_agree s.

Definition mutual_cd (a b ia ib cda cdb hsa hsb : Z) : sys :=
  let pa := compute_public a in let pb := compute_public b in
  mkSys (handshake_end a pa pb ia cda hsa) (handshake_end b pb pa ib cdb hsb).
Definition mutual (a b ia ib hsa hsb : Z) : sys := mutual_cd a b ia ib 5 5 hsa hsb.

(* ---- wire ---- *)
Fixpoint w_ops (n : nat) (l : list Z) : list (Z * Z) :=
  match n with O => [] | S k => let '(who, l) := w_next l in let '(t, l) := w_u64 l in (who, t) :: w_ops k l end.

Definition observe (s : sys) (r : bool) : list Z :=
  [o_bool r] ++ c_key (e_ctx (s_a s)) ++ c_key (e_ctx (s_b s)) ++ e_session_key (s_a s) ++ e_session_key (s_b s)
  ++ [o_bool (e_open (s_a s)); o_bool (e_open (s_b s)); o_bool (delivered s); o_bool (delivered s)].

Fixpoint run_observe (s : sys) (ops : list (Z * Z)) : list Z :=
  match ops with
  | [] => []
  | op :: r => let '(s', rot) := step s op in observe s' rot ++ run_observe s' r
  end.

Definition run (input : list Z) : list Z :=
  let '(mode, l) := w_next input in
  if mode =? 1 then
    (* two real nodes: scalars a b (predicted by the checker), intervals in seconds, the two handshake clock readings, ops *)
    let '(a, l) := w_next l in let '(b, l) := w_next l in
    let l := skipn 66 l in   (* identity seeds and peer ids: used by the implementation side only *)
    let '(ia, l) := w_next l in let '(ib, l) := w_next l in
    let '(cda, l) := w_next l in let '(cdb, l) := w_next l in
    let '(hsa, l) := w_u64 l in let '(hsb, l) := w_u64 l in
    let '(n, l) := w_next l in
    let s := mutual_cd a b ia ib cda cdb hsa hsb in
    [a; b] ++ observe s false ++ run_observe s (w_ops (Z.to_nat n) l)
  else if mode =? 2 then
    (* KeyManager alone: shared secret (32), material (len), interval, registration time, then readings *)
    let shared := firstn 32 l in let l := skipn 32 l in
    let '(mlen, l) := w_next l in
    let material := firstn (Z.to_nat mlen) l in let l := skipn (Z.to_nat mlen) l in
    let '(iv, l) := w_next l in let '(t0, l) := w_u64 l in let '(n, l) := w_next l in
    let fix go (k : nat) (c : ctx) (l : list Z) : list Z :=
      match k with O => [] | S k' =>
        let '(t, l) := w_u64 l in
        let '(c', r) := rotate_if_needed iv c t in
        [o_bool r; c_counter c' mod 4294967296] ++ c_key c' ++ go k' c' l end in
    let c0 := register_with_material shared material t0 in
    c_key c0 ++ go (Z.to_nat n) c0 l
  else [-1].
