(* Executable model of the admission logic of Node::handle_announce (src/core/Node.cpp): announce_sender_locked,
   the ten rejection points in their order, register_incoming_announce (per-peer throttle history),
   record_announce_failure / clear_announce_failures (failure window, threshold, lockout; constants regenerated).
   Time is the steady clock in whole seconds.  What an announce carries is abstracted to the verdict of each check
   (the checks themselves -- decoding, PoW, TTL -- are C15-C19's and C03's subjects); the harness builds real payloads
   that make each check fail in turn.  Definitions only (proofs: proofs/AnnounceProofs.v). *)
Require Import ZArith List Bool.
Import ListNotations.
Local Open Scope Z_scope.
From EphVerif Require Import lib.Bytes gen.Constants_announce.

Record cfg := { min_interval : Z; burst_limit : Z; burst_window : Z; pow_difficulty : Z }.

(* the verdicts of the content checks, in the order handle_announce evaluates them *)
Record announce := { names_sender : bool; has_uri : bool; pow_ok : bool; version : Z;
                     decodes : bool; chunk_matches : bool; shards_ok : bool; ttl_ok : bool; assigned_ok : bool }.

Record peer_state := { hist : list Z;              (* peer_announce_history_: oldest first *)
                       fails : list Z;             (* peer_announce_failure_history_ *)
                       lock : option Z }.          (* peer_announce_lockouts_ *)
Definition peer0 : peer_state := {| hist := []; fails := []; lock := None |}.

Fixpoint drop_while (p : Z -> bool) (l : list Z) : list Z :=
  match l with x :: r => if p x then drop_while p r else l | [] => [] end.

(* register_incoming_announce *)
Definition register (c : cfg) (ps : peer_state) (now : Z) : bool * peer_state :=
  let h := if 0 <? burst_window c then drop_while (fun t => t <? now - burst_window c) (hist ps) else hist ps in
  let too_soon := match h with [] => false
                  | _ => (0 <? min_interval c) && (now - last h 0 <? min_interval c) end in
  if too_soon then (false, {| hist := h; fails := fails ps; lock := lock ps |})
  else if (0 <? burst_limit c) && (burst_limit c <=? zlen h) then (false, {| hist := h; fails := fails ps; lock := lock ps |})
  else (true, {| hist := h ++ [now]; fails := fails ps; lock := lock ps |}).

(* record_announce_failure *)
Definition record_failure (ps : peer_state) (now : Z) : peer_state :=
  let f := drop_while (fun t => announce_failure_window <? now - t) (fails ps) in
  let still_locked := match lock ps with Some l => negb (l <=? now) | None => false end in
  if still_locked then {| hist := hist ps; fails := f; lock := lock ps |}
  else
    let f' := f ++ [now] in
    if announce_failure_threshold <=? zlen f'
    then {| hist := hist ps; fails := []; lock := Some (now + announce_lockout_duration) |}
    else {| hist := hist ps; fails := f'; lock := None |}.

(* announce_sender_locked: an elapsed lock-out is erased *)
Definition sender_locked (ps : peer_state) (now : Z) : bool * peer_state :=
  match lock ps with
  | None => (false, ps)
  | Some l => if l <=? now then (false, {| hist := hist ps; fails := fails ps; lock := None |}) else (true, ps)
  end.

Definition verify_pow (c : cfg) (a : announce) : bool :=
  if pow_difficulty c =? 0 then true else if version a <? 3 then false else pow_ok a.

Inductive verdict := Accepted | RejectedLocked | Rejected (stage : Z).

Definition handle (c : cfg) (ps : peer_state) (now : Z) (a : announce) : verdict * peer_state :=
  let '(locked, ps) := sender_locked ps now in
  if locked then (RejectedLocked, ps)
  else if negb (names_sender a) then (Rejected 1, record_failure ps now)
  else if negb (has_uri a) then (Rejected 2, record_failure ps now)
  else if negb (verify_pow c a) then (Rejected 3, record_failure ps now)
  else
    let '(passed, ps) := register c ps now in
    if negb passed then (Rejected 4, record_failure ps now)
    else if negb (decodes a) then (Rejected 5, record_failure ps now)
    else if negb (chunk_matches a) then (Rejected 6, record_failure ps now)
    else if negb (shards_ok a) then (Rejected 7, record_failure ps now)
    else if negb (ttl_ok a) then (Rejected 8, record_failure ps now)
    else if negb (assigned_ok a) then (Rejected 9, record_failure ps now)
    else (Accepted, {| hist := hist ps; fails := []; lock := None |}).     (* clear_announce_failures *)

(* ---- several peers, a clock ---- *)
Definition pmap : Type := list (Z * peer_state).
Fixpoint pget (p : Z) (m : pmap) : peer_state :=
  match m with [] => peer0 | (k, v) :: r => if k =? p then v else pget p r end.
Definition pset (p : Z) (v : peer_state) (m : pmap) : pmap := (p, v) :: filter (fun e => negb (fst e =? p)) m.

Record event := { dt : Z; sender : Z; ann : announce }.
Record state := { now : Z; peers : pmap }.

Definition step (c : cfg) (st : state) (e : event) : state * verdict :=
  let t := now st + Z.max 0 (dt e) in
  let '(v, ps) := handle c (pget (sender e) (peers st)) t (ann e) in
  ({| now := t; peers := pset (sender e) ps (peers st) |}, v).

Fixpoint run_events (c : cfg) (st : state) (es : list event) : list (verdict * peer_state) :=
  match es with
  | [] => []
  | e :: r => let '(st', v) := step c st e in (v, pget (sender e) (peers st')) :: run_events c st' r
  end.

(* ---- wire: cfg (4), then events: dt sender kind version.  kind: 0 valid, 1..9 = the check that fails, 10 = PoW wrong *)
Definition ann_of_kind (k ver : Z) : announce :=
  {| names_sender := negb (k =? 1); has_uri := negb (k =? 2); pow_ok := negb (k =? 3); version := ver;
     decodes := negb (k =? 5); chunk_matches := negb (k =? 6); shards_ok := negb (k =? 7); ttl_ok := negb (k =? 8);
     assigned_ok := negb (k =? 9) |}.

Fixpoint parse_events (fuel : nat) (l : list Z) : list event :=
  match fuel with
  | O => []
  | S f => match l with
           | d :: s :: k :: v :: r => {| dt := d; sender := s; ann := ann_of_kind k v |} :: parse_events f r
           | _ => []
           end
  end.

Definition o_verdict (v : verdict) : Z := match v with Accepted => 0 | RejectedLocked => -1 | Rejected s => s end.

Definition run (input : list Z) : list Z :=
  let '(mi, l) := w_next input in let '(bl, l) := w_next l in let '(bw, l) := w_next l in let '(d, l) := w_next l in
  let c := {| min_interval := mi; burst_limit := bl; burst_window := bw; pow_difficulty := d |} in
  flat_map (fun r => let '(v, ps) := r in
                     [ (match v with Accepted => 1 | _ => 0 end); zlen (hist ps); zlen (fails ps);
                       (match lock ps with Some l => l | None => -1 end) ])
           (run_events c {| now := 1000; peers := [] |} (parse_events (length l) l)).
