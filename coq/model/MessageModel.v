(* Executable model of src/protocol/Message.cpp: encode / decode / encode_signed / decode_signed.
   Definitions only (proofs: proofs/MessageProofs.v).

   The decoder is written in "checked read" form: every access the C++ makes through the raw pointer
   [data] is a [take_chk n], which yields [UB] when fewer than n bytes remain.  The C++ guards
   ([remaining < ...] -> nullopt) are transcribed verbatim, including the size_t sum (mod 2^64),
   so that "no out-of-bounds read" is the theorem  decode_chk buf <> UB  (C16).
   Version/type constants come from the regenerated gen/Constants_message.v. *)
Require Import ZArith List Bool.
Import ListNotations.
Local Open Scope Z_scope.
From EphVerif Require Import lib.Bytes model.Sha256Model gen.Constants_message.

Inductive payload :=
| PAnnounce (chunk peer endpoint : list Z) (ttl : Z) (manifest shards : list Z) (nonce : Z)
| PRequest (chunk requester : list Z)
| PChunk (chunk data : list Z) (ttl : Z)
| PAck (chunk peer : list Z) (accepted : bool)
| PHandshake (pub nonce ver : Z)
| PHandshakeAck (accepted : bool) (ver pub : Z).

Record message := { m_version : Z; m_type : Z; m_payload : payload }.

Inductive outcome (A : Type) := Ok (a : A) | UB.
Arguments Ok {A} a.
Arguments UB {A}.

Definition two32 : Z := 4294967296.
Definition two64 : Z := 18446744073709551616.

Definition clamp_version (v : Z) : Z :=
  if v <? kMinimumMessageVersion then kMinimumMessageVersion
  else if kCurrentMessageVersion <? v then kCurrentMessageVersion else v.

Definition is_supported_version (v : Z) : bool :=
  (kMinimumMessageVersion <=? v) && (v <=? kCurrentMessageVersion).

(* the version from which the ENCODER appends the announce PoW nonce *)
Definition encoder_pow_version : Z := announce_pow_encode_from.
(* the version from which the DECODER expects it *)
Definition decoder_pow_version : Z := announce_pow_decode_from.

Definition bool_byte (b : bool) : Z := if b then 1 else 0.

Definition encode_payload (v : Z) (p : payload) : list Z :=
  match p with
  | PAnnounce c pr e ttl man sh nonce =>
      be32 (ttl mod two32) ++ be32 (zlen e mod two32) ++ be32 (zlen man mod two32) ++
      be32 (zlen sh mod two32) ++ c ++ pr ++ e ++ man ++ sh ++
      (if encoder_pow_version <=? v then be64 (nonce mod two64) else [])
  | PRequest c r => c ++ r
  | PChunk c d ttl => be32 (ttl mod two32) ++ be32 (zlen d mod two32) ++ c ++ d
  | PAck c pr acc => [bool_byte acc] ++ c ++ pr
  | PHandshake pub nonce ver => be32 (pub mod two32) ++ be64 (nonce mod two64) ++ [ver mod 256]
  | PHandshakeAck acc ver pub => [bool_byte acc; ver mod 256] ++ be32 (pub mod two32)
  end.

Definition encode (m : message) : list Z :=
  let v := clamp_version (m_version m mod 256) in
  [v; m_type m mod 256] ++ encode_payload v (m_payload m).

(* ---- decoder ---- *)
Definition take_chk {A} (n : Z) (l : list Z) (k : list Z -> list Z -> outcome A) : outcome A :=
  if n <=? zlen l then k (firstn (Z.to_nat n) l) (skipn (Z.to_nat n) l) else UB.

Definition u32_of (b : list Z) : Z := rd32 (nth 0 b 0) (nth 1 b 0) (nth 2 b 0) (nth 3 b 0).
Definition u64_of (b : list Z) : Z :=
  rd64 (nth 0 b 0) (nth 1 b 0) (nth 2 b 0) (nth 3 b 0) (nth 4 b 0) (nth 5 b 0) (nth 6 b 0) (nth 7 b 0).
Definition u8_of (b : list Z) : Z := nth 0 b 0.

(* a wire boolean: the decoder accepts exactly the two values the encoder produces *)
Definition decode_bool (b : Z) : option bool :=
  if b =? 0 then Some false else if b =? 1 then Some true else None.

Definition parse_announce (data : list Z) (include_pow : bool) : outcome (option payload) :=
  let remaining := zlen data in
  let extra := if include_pow then 8 else 0 in
  if remaining <? 16 + 32 + 32 + extra then Ok None else
  take_chk 4 data (fun b_ttl r =>
  take_chk 4 r (fun b_el r =>
  take_chk 4 r (fun b_ml r =>
  take_chk 4 r (fun b_al r =>
    let ttl := u32_of b_ttl in
    let el := u32_of b_el in
    let ml := u32_of b_ml in
    let al := u32_of b_al in
    let expected := (16 + 32 + 32 + el + ml + al + extra) mod two64 in
    if remaining <? expected then Ok None else
    take_chk 32 r (fun c r =>
    take_chk 32 r (fun p r =>
    take_chk el r (fun e r =>
    take_chk ml r (fun man r =>
    take_chk al r (fun sh r =>
      if include_pow
      then take_chk 8 r (fun bn _ => Ok (Some (PAnnounce c p e ttl man sh (u64_of bn))))
      else Ok (Some (PAnnounce c p e ttl man sh 0))))))))))).

Definition decode_payload_v1 (type : Z) (data : list Z) : outcome (option payload) :=
  let remaining := zlen data in
  if type =? msgtype_Announce then parse_announce data false
  else if type =? msgtype_Request then
    if remaining <? 64 then Ok None else
    take_chk 32 data (fun c r => take_chk 32 r (fun p _ => Ok (Some (PRequest c p))))
  else if type =? msgtype_Chunk then
    if remaining <? 8 + 32 then Ok None else
    take_chk 4 data (fun b_ttl r =>
    take_chk 4 r (fun b_dl r =>
      let dl := u32_of b_dl in
      let expected := (8 + 32 + dl) mod two64 in
      if remaining <? expected then Ok None else
      take_chk 32 r (fun c r =>
      take_chk dl r (fun d _ => Ok (Some (PChunk c d (u32_of b_ttl)))))))
  else if type =? msgtype_Acknowledge then
    if remaining <? 1 + 32 + 32 then Ok None else
    take_chk 1 data (fun ba r =>
    take_chk 32 r (fun c r =>
    take_chk 32 r (fun p _ =>
      match decode_bool (u8_of ba) with
      | Some acc => Ok (Some (PAck c p acc))
      | None => Ok None
      end)))
  else if type =? msgtype_TransportHandshake then
    if remaining <? 4 + 8 + 1 then Ok None else
    take_chk 4 data (fun bp r =>
    take_chk 8 r (fun bn r =>
    take_chk 1 r (fun bv _ => Ok (Some (PHandshake (u32_of bp) (u64_of bn) (u8_of bv))))))
  else if type =? msgtype_HandshakeAck then
    if remaining <? 1 + 1 + 4 then Ok None else
    take_chk 1 data (fun ba r =>
    take_chk 1 r (fun bv r =>
    take_chk 4 r (fun bp _ =>
      match decode_bool (u8_of ba) with
      | Some acc => Ok (Some (PHandshakeAck acc (u8_of bv) (u32_of bp)))
      | None => Ok None
      end)))
  else Ok None.

Definition decode_chk (buffer : list Z) : outcome (option message) :=
  if zlen buffer <? 2 then Ok None else
  take_chk 1 buffer (fun bv r =>
  take_chk 1 r (fun bt data =>
    let version := u8_of bv in
    let type := u8_of bt in
    if negb (is_supported_version version) then Ok None else
    let res :=
      if (decoder_pow_version <=? version) && (type =? msgtype_Announce)
      then parse_announce data true
      else decode_payload_v1 type data in
    match res with
    | UB => UB
    | Ok None => Ok None
    | Ok (Some p) => Ok (Some {| m_version := version; m_type := type; m_payload := p |})
    end)).

Definition decode (buffer : list Z) : option message :=
  match decode_chk buffer with Ok r => r | UB => None end.

(* ---- signed variants ---- *)
Definition encode_signed (m : message) (key : list Z) : list Z :=
  let e := encode m in e ++ hmac key e.

Definition decode_signed_chk (buffer key : list Z) : outcome (option message) :=
  if zlen buffer <? 32 then Ok None else
  let n := (length buffer - 32)%nat in
  if hmac_verify key (firstn n buffer) (skipn n buffer) then decode_chk (firstn n buffer) else Ok None.

Definition decode_signed (buffer key : list Z) : option message :=
  match decode_signed_chk buffer key with Ok r => r | UB => None end.

(* ---- flat integer (de)serialisation of messages for the correspondence harness ---- *)
Definition ser_payload (p : payload) : list Z :=
  match p with
  | PAnnounce c pr e ttl man sh nonce => [0] ++ c ++ pr ++ o_bytes e ++ [ttl] ++ o_bytes man ++ o_bytes sh ++ o_u64 nonce
  | PRequest c r => [1] ++ c ++ r
  | PChunk c d ttl => [2] ++ c ++ o_bytes d ++ [ttl]
  | PAck c pr acc => [3] ++ c ++ pr ++ [bool_byte acc]
  | PHandshake pub nonce ver => [4; pub] ++ o_u64 nonce ++ [ver]
  | PHandshakeAck acc ver pub => [5; bool_byte acc; ver; pub]
  end.

Definition ser_message (m : message) : list Z := [m_version m; m_type m] ++ ser_payload (m_payload m).

Definition parse_payload (kind : Z) (l : list Z) : payload * list Z :=
  if kind =? 0 then
    let '(c, l) := w_id32 l in let '(p, l) := w_id32 l in let '(e, l) := w_bytes l in
    let '(ttl, l) := w_next l in let '(man, l) := w_bytes l in let '(sh, l) := w_bytes l in
    let '(nonce, l) := w_u64 l in (PAnnounce c p e ttl man sh nonce, l)
  else if kind =? 1 then
    let '(c, l) := w_id32 l in let '(p, l) := w_id32 l in (PRequest c p, l)
  else if kind =? 2 then
    let '(c, l) := w_id32 l in let '(d, l) := w_bytes l in let '(ttl, l) := w_next l in (PChunk c d ttl, l)
  else if kind =? 3 then
    let '(c, l) := w_id32 l in let '(p, l) := w_id32 l in let '(a, l) := w_next l in (PAck c p (negb (a =? 0)), l)
  else if kind =? 4 then
    let '(pub, l) := w_next l in let '(nonce, l) := w_u64 l in let '(ver, l) := w_next l in
    (PHandshake pub nonce ver, l)
  else
    let '(a, l) := w_next l in let '(ver, l) := w_next l in let '(pub, l) := w_next l in
    (PHandshakeAck (negb (a =? 0)) ver pub, l).

Definition parse_message (l : list Z) : message * list Z :=
  let '(v, l) := w_next l in
  let '(t, l) := w_next l in
  let '(k, l) := w_next l in
  let '(p, l) := parse_payload k l in
  ({| m_version := v; m_type := t; m_payload := p |}, l).

Definition ser_decoded (r : option message) (input : list Z) : list Z :=
  match r with
  | None => [0]
  | Some m => [1] ++ ser_message m ++ [o_bool (is_prefixb (encode m) input)]
  end.

(* modes: 1 = encode then decode again; 2 = decode bytes; 3 = decode_signed key bytes;
          4 = encode_signed then decode_signed with the same key *)
Definition run (input : list Z) : list Z :=
  let '(mode, l) := w_next input in
  if mode =? 1 then
    let '(m, _) := parse_message l in
    let e := encode m in
    o_bytes e ++ ser_decoded (decode e) e
  else if mode =? 2 then
    let '(b, _) := w_bytes l in
    ser_decoded (decode b) b
  else if mode =? 3 then
    let '(key, l) := w_bytes l in
    let '(b, _) := w_bytes l in
    ser_decoded (decode_signed b key) b
  else if mode =? 4 then
    let '(key, l) := w_bytes l in
    let '(m, _) := parse_message l in
    let e := encode_signed m key in
    o_bytes e ++ ser_decoded (decode_signed e key) e
  else [-1].
