(* Executable model of the configuration layering of src/main.cpp: the config::Value tree, merge_objects (deep merge, the
   overlay wins), remove_key, find_path, resolve_profile (the `extends` chain with its `visiting` set),
   collect_environment_overrides, load_configuration (profile selection: --profile, else the environment's `profile`, else
   "default"), the get_*_any alias lookups and apply_profile_to_options ("fill only what the command line left unset") for
   ten representative settings.  Keys are integer tokens (the checker and the harness share the table of names); the text
   parsers (YAML / JSON) are outside the model.  Definitions only. *)
Require Import ZArith List Bool.
Import ListNotations.
Local Open Scope Z_scope.
From EphVerif Require Import lib.Bytes.

Inductive value :=
| VNull | VInt (v : Z) | VStr (s : list Z) | VBool (b : bool) | VObj (fields : list (Z * value)).

(* key tokens *)
Definition k_profiles := 1.  Definition k_environments := 2.  Definition k_extends := 3.  Definition k_default := 6.
(* the keys that can stand directly inside an environment entry are numbered in the alphabetical order of their names,
   because collect_environment_overrides walks a std::map: announce control control-token network node overrides profile
   security storage transport *)
Definition k_announce := 10.  Definition k_control := 11.  Definition k_control_token := 12.  Definition k_network := 13.
Definition k_node := 14.  Definition k_overrides := 15.  Definition k_profile := 16.  Definition k_security := 17.
Definition k_storage := 18.  Definition k_transport := 19.
Definition k_port := 20.  Definition k_control_port := 21.  Definition k_transport_port := 22.  Definition k_token := 23.
Definition k_default_ttl_seconds := 25.  Definition k_default_ttl := 26.
Definition k_min_ttl_seconds := 27.  Definition k_min_ttl := 28.  Definition k_max_ttl_seconds := 29.  Definition k_max_ttl := 30.
Definition k_pow_difficulty := 31.  Definition k_announce_pow_difficulty := 32.  Definition k_persistent := 33.
Definition k_enable_persistent := 34.  Definition k_wipe_passes := 35.  Definition k_wipe_passes_dash := 36.
Definition k_key_rotation_seconds := 37.  Definition k_key_rotation_interval := 38.
(* a setting with a three-component spelling (node.fetch.max_parallel): nested sections below a section *)
Definition k_fetch := 39.  Definition k_fetch_max_parallel := 40.  Definition k_max_parallel := 41.

(* std::map semantics: one value per key; insertion replaces *)
Fixpoint oget (k : Z) (o : list (Z * value)) : option value :=
  match o with [] => None | (k', v) :: r => if k' =? k then Some v else oget k r end.
Definition odel (k : Z) (o : list (Z * value)) : list (Z * value) := filter (fun e => negb (fst e =? k)) o.
Definition oset (k : Z) (v : value) (o : list (Z * value)) : list (Z * value) := (k, v) :: odel k o.

Definition fields_of (v : value) : list (Z * value) := match v with VObj f => f | _ => [] end.
Definition is_obj (v : value) : bool := match v with VObj _ => true | _ => false end.

(* merge_objects: a non-object overlay replaces the base; object overlays merge key by key, recursively where both sides
   are objects.  Structural recursion on the overlay (merge_fields walks the overlay's fields). *)
Section MergeFields.
  Variable mrg : value -> value -> value.
  Fixpoint merge_fields (l acc : list (Z * value)) : list (Z * value) :=
    match l with
    | [] => acc
    | (k, v) :: r =>
        let nv := match v, oget k acc with
                  | VObj _, Some (VObj bfields) => mrg (VObj bfields) v
                  | _, _ => v
                  end in
        merge_fields r (oset k nv acc)
    end.
End MergeFields.
Fixpoint merge (base overlay : value) {struct overlay} : value :=
  match overlay with
  | VObj ofields => VObj (merge_fields merge ofields (fields_of base))
  | _ => overlay
  end.

Definition remove_key (v : value) (k : Z) : value := match v with VObj f => VObj (odel k f) | _ => v end.

Fixpoint find_path (root : value) (path : list Z) : option value :=
  match path with
  | [] => Some root
  | k :: r => match root with VObj f => match oget k f with Some v => find_path v r | None => None end | _ => None end
  end.

(* errors: 1 E_CONFIG_STRUCTURE, 2 E_CONFIG_PROFILE, 3 E_CONFIG_ENVIRONMENT, 4 E_CONFIG_VALUE, 5 E_CONFIG_TYPE *)
Inductive res (A : Type) := Ok (a : A) | Err (code : Z).
Arguments Ok {A} _. Arguments Err {A} _.

(* resolve_profile: fuel = number of profiles + 1 is enough (every recursive call adds a name to `visiting`) *)
Fixpoint resolve (fuel : nat) (profiles : value) (name : list Z) (names : list (list Z * Z)) (visiting : list Z) : res value :=
  match fuel with
  | O => Err 2
  | S f =>
      match profiles with
      | VObj pf =>
          (* profile names are strings; `names` maps a name to the key token under which the profile is stored *)
          match find (fun e => list_eqb (fst e) name) names with
          | None => Err 2
          | Some (_, tok) =>
              match oget tok pf with
              | None => Err 2
              | Some (VObj body) =>
                  if existsb (Z.eqb tok) visiting then Err 2 else
                  let base :=
                    match oget k_extends body with
                    | None => Ok (VObj [])
                    | Some (VStr parent) => resolve f profiles parent names (tok :: visiting)
                    | Some _ => Err 2
                    end in
                  match base with
                  | Err e => Err e
                  | Ok b => Ok (merge b (remove_key (VObj body) k_extends))
                  end
              | Some _ => Err 1
              end
          end
      | _ => Err 1
      end
  end.

(* collect_environment_overrides *)
Fixpoint insert_field (e : Z * value) (l : list (Z * value)) : list (Z * value) :=
  match l with [] => [e] | g :: r => if fst e <=? fst g then e :: l else g :: insert_field e r end.
Definition sort_fields (l : list (Z * value)) : list (Z * value) := fold_right insert_field [] l.

Definition env_overrides (env : value) : value :=
  match env with
  | VObj f0 =>
      let f := sort_fields f0 in
      fold_left (fun acc e =>
                   let '(k, v) := e in
                   if k =? k_profile then acc
                   else if (k =? k_overrides) && is_obj v then merge acc v
                   else VObj (oset k v (fields_of acc))) f (VObj [])
  | _ => VNull
  end.

(* the options the command line may have set (None = not given) *)
Record options := mkOptions {
  o_control_port : option Z; o_transport_port : option Z; o_token : option (list Z); o_default_ttl : option Z;
  o_min_ttl : option Z; o_max_ttl : option Z; o_pow : option Z; o_persistent : option bool; o_wipe_passes : option Z;
  o_rotation : option Z; o_fetch_parallel : option Z }.

Definition get_int_any (root : value) (paths : list (list Z)) : res (option Z) :=
  fold_left (fun acc p => match acc with
                          | Ok None => match find_path root p with
                                       | None => Ok None
                                       | Some (VInt v) => Ok (Some v)
                                       | Some _ => Err 5
                                       end
                          | other => other
                          end) paths (Ok None).
Definition get_str_any (root : value) (paths : list (list Z)) : res (option (list Z)) :=
  fold_left (fun acc p => match acc with
                          | Ok None => match find_path root p with
                                       | None => Ok None
                                       | Some (VStr v) => Ok (Some v)
                                       | Some _ => Err 5
                                       end
                          | other => other
                          end) paths (Ok None).
Definition get_bool_any (root : value) (paths : list (list Z)) : res (option bool) :=
  fold_left (fun acc p => match acc with
                          | Ok None => match find_path root p with
                                       | None => Ok None
                                       | Some (VBool v) => Ok (Some v)
                                       | Some _ => Err 5
                                       end
                          | other => other
                          end) paths (Ok None).

Definition p_control_port := [[k_control; k_port]; [k_network; k_control_port]].
Definition p_transport_port := [[k_transport; k_port]; [k_network; k_transport_port]; [k_node; k_transport_port]].
Definition p_token := [[k_control; k_token]; [k_control_token]].
Definition p_default_ttl := [[k_node; k_default_ttl_seconds]; [k_node; k_default_ttl]].
Definition p_min_ttl := [[k_node; k_min_ttl_seconds]; [k_node; k_min_ttl]].
Definition p_max_ttl := [[k_node; k_max_ttl_seconds]; [k_node; k_max_ttl]].
Definition p_pow := [[k_announce; k_pow_difficulty]; [k_node; k_announce_pow_difficulty]].
Definition p_persistent := [[k_storage; k_persistent]; [k_storage; k_enable_persistent]].
Definition p_wipe_passes := [[k_storage; k_wipe_passes]; [k_storage; k_wipe_passes_dash]].
Definition p_rotation := [[k_node; k_key_rotation_seconds]; [k_node; k_key_rotation_interval];
                          [k_security; k_key_rotation_seconds]; [k_security; k_key_rotation_interval]].

(* one setting: keep the command line's value; else look the profile up; range check *)
Definition p_fetch_parallel := [[k_node; k_fetch_max_parallel]; [k_node; k_fetch; k_max_parallel]; [k_fetch; k_max_parallel]].

Definition fill_int (cur : option Z) (profile : value) (paths : list (list Z)) (ok : Z -> bool) : res (option Z) :=
  match cur with
  | Some _ => Ok cur
  | None => match get_int_any profile paths with
            | Err e => Err e
            | Ok None => Ok None
            | Ok (Some v) => if ok v then Ok (Some v) else Err 4
            end
  end.

Definition bind {A B} (r : res A) (f : A -> res B) : res B := match r with Ok a => f a | Err e => Err e end.

(* apply_profile_to_options, in the order of the source (the first error wins) *)
Definition apply_profile (profile : value) (o : options) : res options :=
  if negb (is_obj profile) then Err 1 else
  bind (match o_persistent o with
        | Some _ => Ok (o_persistent o)
        | None => get_bool_any profile p_persistent
        end) (fun persistent =>
  bind (fill_int (o_wipe_passes o) profile p_wipe_passes (fun v => (0 <? v) && (v <=? 255))) (fun wipe_passes =>
  bind (fill_int (o_control_port o) profile p_control_port (fun v => (0 <? v) && (v <=? 65535))) (fun control_port =>
  bind (fill_int (o_transport_port o) profile p_transport_port (fun v => (0 <? v) && (v <=? 65535))) (fun transport_port =>
  bind (match o_token o with
        | Some _ => Ok (o_token o)
        | None => get_str_any profile p_token
        end) (fun token =>
  bind (fill_int (o_default_ttl o) profile p_default_ttl (fun v => 0 <? v)) (fun default_ttl =>
  bind (fill_int (o_min_ttl o) profile p_min_ttl (fun v => 0 <? v)) (fun min_ttl =>
  bind (fill_int (o_max_ttl o) profile p_max_ttl (fun v => 0 <? v)) (fun max_ttl =>
  bind (fill_int (o_rotation o) profile p_rotation (fun v => 0 <? v)) (fun rotation =>
  bind (fill_int (o_fetch_parallel o) profile p_fetch_parallel (fun v => (0 <=? v) && (v <=? 65535))) (fun fetch_parallel =>
  bind (fill_int (o_pow o) profile p_pow (fun v => (0 <=? v) && (v <=? 24))) (fun pow =>
  Ok (mkOptions control_port transport_port token default_ttl min_ttl max_ttl pow persistent wipe_passes rotation fetch_parallel)))))))))))).

(* load_configuration: document, --profile, --env *)
Definition load (doc : value) (names : list (list Z * Z)) (profile_flag env_flag : option (list Z)) (env_names : list (list Z * Z))
                (o : options) : res options :=
  match find_path doc [k_profiles] with
  | None => Err 1
  | Some profiles =>
      let sel0 := match profile_flag with Some p => p | None => [100; 101; 102; 97; 117; 108; 116] end in   (* "default" *)
      let env_part : res (list Z * value) :=
        match env_flag with
        | None => Ok (sel0, VObj [])
        | Some ename =>
            match find_path doc [k_environments] with
            | None => Err 3
            | Some VNull => Err 3
            | Some (VObj ef) =>
                match find (fun e => list_eqb (fst e) ename) env_names with
                | None => Err 3
                | Some (_, tok) =>
                    match oget tok ef with
                    | None => Err 3
                    | Some (VObj body) =>
                        let sel := match profile_flag with
                                   | Some _ => Ok sel0
                                   | None => match oget k_profile body with
                                             | Some (VStr p) => Ok p
                                             | Some _ => Err 5
                                             | None => Ok sel0
                                             end
                                   end in
                        match sel with Err e => Err e | Ok s => Ok (s, env_overrides (VObj body)) end
                    | Some _ => Err 3
                    end
                end
            | Some _ => Err 3
            end
        end in
      match env_part with
      | Err e => Err e
      | Ok (sel, overrides) =>
          match resolve (S (length (fields_of profiles))) profiles sel names [] with
          | Err e => Err e
          | Ok base => apply_profile (merge base overrides) o
          end
      end
  end.

(* ---- wire ----
   a value: 0 | 1 v | 2 len bytes | 3 b | 4 n (key value)*n
   input: n  document (n ints)  nprofiles (name-bytes token)*  nenvs (name-bytes token)*  profile_flag(opt bytes) env_flag(opt bytes)
          then ten option slots: each 0 | 1 v (ints), token as 0 | 1 len bytes, persistent as 0 | 1 b; then the JSON text
          of the same document (for the implementation side only)
   output: 0 followed by the ten settings (each: 0 | 1 value; token: 0 | 1 len bytes), or 1 followed by the error code *)
Fixpoint rd_value (fuel : nat) (l : list Z) : value * list Z :=
  match fuel with
  | O => (VNull, l)
  | S f =>
      let '(tag, l) := w_next l in
      if tag =? 1 then let '(v, l) := w_next l in (VInt v, l)
      else if tag =? 2 then let '(s, l) := w_bytes l in (VStr s, l)
      else if tag =? 3 then let '(b, l) := w_next l in (VBool (negb (b =? 0)), l)
      else if tag =? 4 then
        let '(n, l) := w_next l in
        let fix rd_fields (k : nat) (l : list Z) : list (Z * value) * list Z :=
          match k with
          | O => ([], l)
          | S k' => let '(key, l) := w_next l in let '(v, l) := rd_value f l in let '(r, l) := rd_fields k' l in ((key, v) :: r, l)
          end in
        let '(fs, l) := rd_fields (Z.to_nat n) l in
        (* std::map: a repeated key keeps the last value *)
        (VObj (fold_left (fun acc e => oset (fst e) (snd e) acc) fs []), l)
      else (VNull, l)
  end.

Fixpoint rd_names (n : nat) (l : list Z) : list (list Z * Z) * list Z :=
  match n with O => ([], l) | S k => let '(s, l) := w_bytes l in let '(t, l) := w_next l in let '(r, l) := rd_names k l in ((s, t) :: r, l) end.
Definition rd_optbytes (l : list Z) : option (list Z) * list Z :=
  let '(f, l) := w_next l in if f =? 0 then (None, l) else let '(s, l) := w_bytes l in (Some s, l).
Definition rd_optint (l : list Z) : option Z * list Z :=
  let '(f, l) := w_next l in if f =? 0 then (None, l) else let '(v, l) := w_next l in (Some v, l).
Definition o_optint (o : option Z) : list Z := match o with None => [0] | Some v => [1; v] end.

Definition run (input : list Z) : list Z :=
  let '(_skip, input) := w_next input in      (* number of ints the document encoding takes: used by the harness only *)
  let '(doc, l) := rd_value (length input) input in
  let '(np, l) := w_next l in let '(names, l) := rd_names (Z.to_nat np) l in
  let '(ne, l) := w_next l in let '(enames, l) := rd_names (Z.to_nat ne) l in
  let '(pf, l) := rd_optbytes l in let '(ef, l) := rd_optbytes l in
  let '(cp, l) := rd_optint l in let '(tp, l) := rd_optint l in let '(tok, l) := rd_optbytes l in
  let '(dt, l) := rd_optint l in let '(mn, l) := rd_optint l in let '(mx, l) := rd_optint l in
  let '(pw, l) := rd_optint l in let '(ps, l) := rd_optint l in let '(wp, l) := rd_optint l in let '(rot, l) := rd_optint l in
  let '(fp, _) := rd_optint l in
  let o := mkOptions cp tp tok dt mn mx pw (match ps with None => None | Some v => Some (negb (v =? 0)) end) wp rot fp in
  match load doc names pf ef enames o with
  | Err e => [1; e]
  | Ok r =>
      0 :: o_optint (o_control_port r) ++ o_optint (o_transport_port r)
        ++ (match o_token r with None => [0] | Some s => 1 :: o_bytes s end)
        ++ o_optint (o_default_ttl r) ++ o_optint (o_min_ttl r) ++ o_optint (o_max_ttl r) ++ o_optint (o_pow r)
        ++ (match o_persistent r with None => [0] | Some b => [1; o_bool b] end)
        ++ o_optint (o_wipe_passes r) ++ o_optint (o_rotation r) ++ o_optint (o_fetch_parallel r)
  end.
