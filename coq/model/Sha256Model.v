(* Executable model of src/crypto/Sha256.cpp (streaming object) and src/crypto/HmacSha256.cpp.
   Definitions only -- proofs are in proofs/Sha256Proofs.v.
   Round constants and the initial state are the values REGENERATED from the C++ source on every run
   (gen/Constants_sha256.v); everything else is written from the C++ text:
     Sha256::update     -> update  (the block-filling while loop, with fuel = |data|)
     Sha256::finalize   -> finalize (0x80, the "> 56" branch, zero fill, 64-bit length, transform)
     Sha256::transform  -> transform (same structure as FIPS 6.2.2; shared round/schedule functions)
     HmacSha256::compute/verify -> hmac / hmac_verify (key > 64 hashed, OR-accumulated difference) *)
Require Import ZArith List.
Import ListNotations.
Local Open Scope Z_scope.
From EphVerif Require Import lib.Bytes spec.Sha256Spec gen.Constants_sha256.

Record sha := { st : list Z; buf : list Z; bitlen : Z }.

Definition sha_init : sha := {| st := sha256_H0; buf := []; bitlen := 0 |}.

Definition transform (h block : list Z) : list Z := compress_with sha256_K h block.

Fixpoint update_loop (fuel : nat) (h buf data : list Z) : list Z * list Z :=
  match fuel with
  | O => (h, buf)
  | S f =>
      match data with
      | [] => (h, buf)
      | _ =>
          let space := (64 - length buf)%nat in
          let chunk := Nat.min space (length data) in
          let buf' := buf ++ firstn chunk data in
          let data' := skipn chunk data in
          if Nat.eqb (length buf') 64 then update_loop f (transform h buf') [] data'
          else update_loop f h buf' data'
      end
  end.

Definition update (s : sha) (data : list Z) : sha :=
  match data with
  | [] => s
  | _ =>
      let '(h, b) := update_loop (length data) (st s) (buf s) data in
      {| st := h; buf := b; bitlen := (bitlen s + 8 * zlen data) mod 18446744073709551616 |}
  end.

Definition finalize (s : sha) : list Z :=
  let b1 := buf s ++ [128] in
  let '(h1, b2) :=
    if Nat.ltb 56 (length b1)
    then (transform (st s) (b1 ++ repeat 0 (64 - length b1)), [])
    else (st s, b1) in
  let b3 := b2 ++ repeat 0 (56 - length b2) ++ be64 (bitlen s) in
  digest_bytes (transform h1 b3).

Definition sha256 (data : list Z) : list Z := finalize (update sha_init data).

(* HmacSha256::compute *)
Definition hmac (key data : list Z) : list Z :=
  let kb0 := if Z.ltb hmac_block_size (zlen key) then sha256 key else key in
  let key_block := kb0 ++ repeat 0 (Z.to_nat hmac_block_size - length kb0) in
  let o_key_pad := map (fun b => Z.lxor b 0x5c) key_block in
  let i_key_pad := map (fun b => Z.lxor b 0x36) key_block in
  let inner_hash := finalize (update (update sha_init i_key_pad) data) in
  finalize (update (update sha_init o_key_pad) inner_hash).

(* HmacSha256::verify *)
Definition hmac_verify (key data mac : list Z) : bool :=
  if negb (Z.eqb (zlen mac) hmac_digest_size) then false
  else
    let expected := hmac key data in
    let diff := fold_left (fun d p => Z.lor d (Z.lxor (fst p) (snd p))) (combine expected mac) 0 in
    Z.eqb diff 0.
