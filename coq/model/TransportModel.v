(* Executable model of the session framing of src/network/SessionManager.cpp: send (size limit, fresh nonce, ChaCha20 with
   counter 0, frame = nonce | big-endian length | ciphertext) and receive_loop (read nonce, read length, refuse an oversized
   length by ending the session, read the ciphertext, decrypt, hand the plaintext to the message handler).  The byte stream
   between the two ends is one list (TCP: the receiver's recv_all reassembles whatever segmentation occurred).
   transport_max_payload is regenerated from the source.  Definitions only. *)
Require Import ZArith List Bool.
Import ListNotations.
Local Open Scope Z_scope.
From EphVerif Require Import lib.Bytes spec.ChaCha20Spec model.ChaCha20Model gen.Constants_transport.

(* the same function as ChaCha20Model.apply, written without re-measuring the remaining input at every block (the extracted
   runner handles 1 MiB payloads with it); proofs/TransportProofs.v proves apply_fast = apply *)
Fixpoint apply_fast_loop (fuel : nat) (key nonce input : list Z) (counter : Z) : list Z :=
  match fuel with
  | O => []
  | S f =>
      match input with
      | [] => []
      | _ => xor_with (mblock key nonce counter) (firstn 64 input)
             ++ apply_fast_loop f key nonce (skipn 64 input) ((counter + 1) mod w32)
      end
  end.
Definition apply_fast (key nonce input : list Z) (counter : Z) : list Z :=
  apply_fast_loop (nblocks (length input)) key nonce input counter.

Definition frame (key nonce payload : list Z) : list Z :=
  nonce ++ be32 (zlen payload) ++ apply_fast key nonce payload 0.

(* SessionManager::send: None = refused (nothing is put on the wire) *)
Definition send (key nonce payload : list Z) : option (list Z) :=
  if transport_max_payload <? zlen payload then None else Some (frame key nonce payload).

(* receive_loop over the bytes that arrive before the stream ends.  Result: the payloads handed to the handler, in order,
   and how the loop ended: 0 = the stream ended between frames, 1 = inside a frame (truncated), 2 = oversized length *)
Fixpoint receive (fuel : nat) (key : list Z) (stream : list Z) (delivered : list (list Z)) : list (list Z) * Z :=
  match fuel with
  | O => (delivered, 3)
  | S f =>
      match stream with
      | [] => (delivered, 0)
      | _ =>
          if zlen stream <? 12 then (delivered, 1) else
          let nonce := firstn 12 stream in
          let rest := skipn 12 stream in
          if zlen rest <? 4 then (delivered, 1) else
          let len := be_val (firstn 4 rest) in
          let rest := skipn 4 rest in
          if transport_max_payload <? len then (delivered, 2) else
          if zlen rest <? len then (delivered, 1) else
          let ct := firstn (Z.to_nat len) rest in
          receive f key (skipn (Z.to_nat len) rest) (delivered ++ [apply_fast key nonce ct 0])
      end
  end.
Definition receive_all (key stream : list Z) : list (list Z) * Z := receive (S (length stream)) key stream [].

(* ---- wire ----
   payloads travel as (length, seed): byte i is (seed + 7 * i + i / 256) mod 256
   mode 1: key(32)  n  then n x (len seed nonce(12))      -> per message: sent? ; then what the receiver's handler got:
            count, per message (len, checksum, first <= 16 bytes)
   mode 3: key(32)  len seed nonce(12)                      -> 1 and the frame bytes one send puts on the wire, or 0
   mode 2: key(32)  raw stream bytes                       -> the same receiver observation for an arbitrary byte stream *)
Fixpoint pattern_from (fuel : nat) (i seed : Z) : list Z :=
  match fuel with O => [] | S f => ((seed + 7 * i + i / 256) mod 256) :: pattern_from f (i + 1) seed end.
Definition pattern (len seed : Z) : list Z := pattern_from (Z.to_nat len) 0 seed.
Definition checksum (l : list Z) : Z := fold_left (fun a b => (a * 31 + b + 1) mod 1000000007) l 0.
Definition o_msg (m : list Z) : list Z := [zlen m; checksum m] ++ firstn 16 m.
Fixpoint insert_item (x : Z * Z) (l : list (Z * Z)) : list (Z * Z) :=
  match l with
  | [] => [x]
  | y :: r => if (fst x <? fst y) || ((fst x =? fst y) && (snd x <=? snd y)) then x :: l else y :: insert_item x r
  end.
Definition sort_items (l : list (Z * Z)) : list (Z * Z) := fold_right insert_item [] l.

(* a message on the wire of the checker: len seed nonce(12) rekey [32 key bytes when rekey = 1: both ends register that
   key for the live session before the message is sent] *)
Fixpoint rd_msgs (n : nat) (l : list Z) : list (Z * Z * list Z) * list Z :=
  match n with
  | O => ([], l)
  | S k => let '(len, l) := w_next l in let '(seed, l) := w_next l in
           let nonce := map (fun b => b mod 256) (firstn 12 l) in let l := skipn 12 l in
           let '(rekey, l) := w_next l in
           let l := if rekey =? 0 then l else skipn 32 l in
           let '(r, l) := rd_msgs k l in ((len, seed, nonce) :: r, l)
  end.

Definition run (input : list Z) : list Z :=
  let '(mode, l) := w_next input in
  let '(key, l) := w_id32 l in
  if mode =? 1 then
    (* end to end: by Properties_C14.c14_delivery_exact the receiver hands over exactly the accepted payloads, so the runner
       does not push megabytes through its (binary-numeral) ChaCha20 here; the frame bytes themselves are compared in mode 3
       and the receiver is run on real frames in mode 2 *)
    let '(n, l) := w_next l in
    let '(msgs, _) := rd_msgs (Z.to_nat n) l in
    let accepted := filter (fun m => let '(len, _, _) := m in negb (transport_max_payload <? len)) msgs in
    map (fun m => let '(len, _, _) := m in if transport_max_payload <? len then 0 else 1) msgs
    ++ [zlen accepted] ++ flat_map (fun m => let '(len, seed, _) := m in o_msg (pattern len seed)) accepted
  else if mode =? 4 then
    (* several threads send at the same time: frames are written whole, so whatever the interleaving every accepted payload
       is delivered exactly once; the order between threads is not fixed, so the multiset is compared (sorted) *)
    let '(n, l) := w_next l in
    let '(msgs, _) := rd_msgs (Z.to_nat n) l in
    let accepted := filter (fun m => let '(len, _, _) := m in negb (transport_max_payload <? len)) msgs in
    let items := map (fun m => let '(len, seed, _) := m in (len, checksum (pattern len seed))) accepted in
    [zlen items] ++ flat_map (fun p => [fst p; snd p]) (sort_items items)
  else if mode =? 3 then
    (* what one send puts on the wire *)
    let '(msgs, _) := rd_msgs 1 l in
    match msgs with
    | (len, seed, nonce) :: _ => match send key nonce (pattern len seed) with Some f => 1 :: o_bytes f | None => [0] end
    | [] => [-1]
    end
  else if mode =? 2 then
    let '(stream, _) := w_bytes l in
    let '(got, status) := receive_all key stream in
    [zlen got] ++ flat_map o_msg got
  else [-1].
