(* Executable model of the content path of src/core/Node.cpp: store_chunk (hash, fresh key, seal, split the key into
   shares), fetch_chunk (reconstruct the key from the shares, decrypt the held bytes), receive_chunk (reconstruct, decrypt,
   compare the hash with the manifest, store) and decrypt_chunk_with_manifest of src/main.cpp -- composed from the models of
   SHA-256 (C08), ChaCha20 / CryptoManager (C09) and Shamir (C10).  What std::random_device yields (key, the seed of the
   nonce generator, the sharing coefficients) is an input.  Definitions only. *)
Require Import ZArith List Bool.
Import ListNotations.
Local Open Scope Z_scope.
From EphVerif Require Import lib.Bytes model.Sha256Model model.ChaCha20Model model.ShamirModel.

Record manifest := mkManifest { m_id : list Z; m_hash : list Z; m_nonce : list Z; m_threshold : Z; m_total : Z; m_shards : list share }.

(* store_chunk: threshold = max(1, shard_threshold), total = max(threshold, shard_total) *)
Definition eff_threshold (t : Z) : Z := Z.max 1 t.
Definition eff_total (t n : Z) : Z := Z.max (eff_threshold t) n.

(* (held bytes, manifest) *)
Definition store (id data key nonce : list Z) (t n : Z) (rnd : list Z) : outcome (list Z * manifest) :=
  match split key (eff_threshold t) (eff_total t n) rnd with
  | Throw e => Throw e
  | Val shares => Val (encrypt_with_key key id data nonce,
                       mkManifest id (sha256 data) nonce (eff_threshold t) (eff_total t n) shares)
  end.

Definition all_zero (k : list Z) : bool := forallb (Z.eqb 0) k.

(* fetch_chunk for a held, encrypted record: the key the shares reconstruct opens the held bytes *)
Definition fetch (id held nonce : list Z) (shards : list share) (t : Z) : outcome (option (list Z)) :=
  if (t <=? 0) || (zlen shards <? t) then Val None
  else match combine shards t with
       | Throw e => Throw e
       | Val k => Val (decrypt_with_key k id held nonce)
       end.

(* receive_chunk / decrypt_chunk_with_manifest: Some plaintext iff the decryption hashes to the manifest's content hash *)
(* validate_shards: a positive threshold, enough shards, and no index twice among the first `threshold` of them *)
Definition validate_shards (m : manifest) : bool :=
  negb ((m_threshold m <=? 0) || (zlen (m_shards m) <? m_threshold m))
  && negb (has_dup (map s_index (firstn (Z.to_nat (m_threshold m)) (m_shards m)))).

Definition receive (m : manifest) (ciphertext : list Z) : outcome (option (list Z)) :=
  if negb (validate_shards m) then Val None
  else match combine (m_shards m) (m_threshold m) with
       | Throw e => Throw e
       | Val k =>
           match decrypt_with_key k (m_id m) ciphertext (m_nonce m) with
           | None => Val None
           | Some p => if list_eqb (sha256 p) (m_hash m) then Val (Some p) else Val None
           end
       end.

(* ---- wire ----
   input: id(32) t n  data  key(32) nonce(12) rnd  then a tampering: kind pos val
     kind 0 none; 1 ciphertext byte pos ^= val; 2 hash byte; 3 nonce byte; 4 shard (pos / 32) value byte (pos mod 32);
     5 threshold := val; 6 shard pos gets the index of shard val; 7 ciphertext cut to pos bytes; 8 ciphertext extended by val
   output: held bytes, manifest (hash nonce t n shards), local fetch, then for the (tampered) replica: receive outcome *)
(* the CLI's decrypt_chunk_with_manifest (src/main.cpp): the same, but with the threshold / count check only -- a manifest that
   repeats an index makes Shamir::combine throw there (the command reports E_UNEXPECTED and exits 1) *)
Definition receive_cli (m : manifest) (ciphertext : list Z) : outcome (option (list Z)) :=
  if (m_threshold m <=? 0) || (zlen (m_shards m) <? m_threshold m) then Val None
  else match combine (m_shards m) (m_threshold m) with
       | Throw e => Throw e
       | Val k =>
           match decrypt_with_key k (m_id m) ciphertext (m_nonce m) with
           | None => Val None
           | Some p => if list_eqb (sha256 p) (m_hash m) then Val (Some p) else Val None
           end
       end.

Definition xor_at (l : list Z) (pos val : Z) : list Z :=
  map (fun iv => if Z.of_nat (fst iv) =? pos then Z.lxor (snd iv) val else snd iv) (List.combine (seq 0 (length l)) l).
Definition o_opt (o : outcome (option (list Z))) : list Z :=
  match o with Throw e => [-1000; e] | Val None => [0] | Val (Some p) => 1 :: o_bytes p end.

Definition tamper (m : manifest) (c : list Z) (kind pos val : Z) : manifest * list Z :=
  if kind =? 1 then (m, xor_at c pos val)
  else if kind =? 2 then (mkManifest (m_id m) (xor_at (m_hash m) pos val) (m_nonce m) (m_threshold m) (m_total m) (m_shards m), c)
  else if kind =? 3 then (mkManifest (m_id m) (m_hash m) (xor_at (m_nonce m) pos val) (m_threshold m) (m_total m) (m_shards m), c)
  else if kind =? 4 then
    let k := pos / 32 in
    (mkManifest (m_id m) (m_hash m) (m_nonce m) (m_threshold m) (m_total m)
       (map (fun is => if Z.of_nat (fst is) =? k then {| s_index := s_index (snd is); s_value := xor_at (s_value (snd is)) (pos mod 32) val |} else snd is)
            (List.combine (seq 0 (length (m_shards m))) (m_shards m))), c)
  else if kind =? 5 then (mkManifest (m_id m) (m_hash m) (m_nonce m) val (m_total m) (m_shards m), c)
  else if kind =? 6 then
    let idx := s_index (nth (Z.to_nat val) (m_shards m) {| s_index := 0; s_value := [] |}) in
    (mkManifest (m_id m) (m_hash m) (m_nonce m) (m_threshold m) (m_total m)
       (map (fun is => if Z.of_nat (fst is) =? pos then {| s_index := idx; s_value := s_value (snd is) |} else snd is)
            (List.combine (seq 0 (length (m_shards m))) (m_shards m))), c)
  else if kind =? 7 then (m, firstn (Z.to_nat pos) c)
  else if kind =? 8 then (m, c ++ repeat 90 (Z.to_nat val))
  else (m, c).

Definition run (input : list Z) : list Z :=
  let '(id, l) := w_id32 input in
  let '(t, l) := w_next l in let '(n, l) := w_next l in
  let '(data, l) := w_bytes l in
  let '(key, l) := w_id32 l in
  let nonce := map (fun b => b mod 256) (firstn 12 l) in let l := skipn 12 l in
  let '(rnd, l) := w_bytes l in
  let '(kind, l) := w_next l in let '(pos, l) := w_next l in let '(val, l) := w_next l in
  let '(_seed, l) := w_next l in
  let '(again, l) := w_next l in
  (* a second store under the same chunk id (new payload, key, nonce, coefficients): it replaces the first everywhere *)
  let second :=
    if again =? 0 then [] else
    let '(data2, l) := w_bytes l in
    let '(key2, l) := w_id32 l in
    let nonce2 := map (fun b => b mod 256) (firstn 12 l) in let l := skipn 12 l in
    let '(rnd2, _) := w_bytes l in
    match store id data2 key2 nonce2 t n rnd2 with
    | Throw e => [-1000; e]
    | Val (held2, m2) =>
        o_bytes held2 ++ o_opt (fetch id held2 (m_nonce m2) (m_shards m2) (m_threshold m2))
        ++ o_opt (receive m2 held2)
        ++ o_opt (match receive m2 held2 with Val (Some p) => Val (Some p) | _ => Val None end)
    end in
  match store id data key nonce t n rnd with
  | Throw e => [-1000; e]
  | Val (held, m) =>
      let '(m', c') := tamper m held kind pos val in
      o_bytes held ++ m_hash m ++ m_nonce m ++ [m_threshold m; m_total m; zlen (m_shards m)]
      ++ flat_map (fun s => s_index s :: s_value s) (m_shards m)
      ++ o_opt (fetch id held (m_nonce m) (m_shards m) (m_threshold m))
      ++ o_opt (receive m' c')
      (* what the receiving node holds afterwards (it stores the replica iff it accepted it), its own lookup of the chunk,
         and the CLI's decrypt_chunk_with_manifest on the same manifest and bytes *)
      ++ [match receive m' c' with Val (Some _) => 1 | _ => 0 end]
      ++ o_opt (match receive m' c' with Val (Some p) => Val (Some p) | _ => Val None end)
      ++ o_opt (receive_cli m' c')
      (* the same replica given to the node that holds the chunk: the same verdict, and its own lookup is what it was (a
         refused replica changes nothing; an accepted one carries the same key and bytes) *)
      ++ o_opt (receive m' c')
      ++ o_opt (fetch id held (m_nonce m) (m_shards m) (m_threshold m))
      ++ second
  end.
