(* Executable model of the fetch scheduler of src/core/Node.cpp: schedule_assigned_fetch, process_pending_fetches (scan,
   sort, bounded dispatch, clearing), dispatch_pending_fetch, schedule_next_fetch_attempt, can_dispatch_fetch,
   note_dispatch_start / note_dispatch_end, clear_pending_fetch.  Peers and chunks are numbers.  The environment of a run:
   each chunk's manifest expiry (one clock: the harness moves the steady and the system clock in lock-step).  Which chunks
   the node holds and which peers a request can be sent to change during a run (ops Arrive and Disconnect).  Times are
   nanoseconds; next_attempt = None stands for time_point::max().  The model follows the code after the two fix: commits
   (a re-announced in-flight fetch gives its slot back; an unanswered request that was the last allowed attempt ends the
   fetch).  Definitions only. *)
Require Import ZArith List Bool.
Import ListNotations.
Local Open Scope Z_scope.
From EphVerif Require Import lib.Bytes.

Record cfg := mkCfg { initial_backoff_s : Z; max_backoff_s : Z; success_interval_s : Z; attempt_limit : Z; max_parallel : Z }.

Record fetch := mkFetch { f_chunk : Z; f_peer : Z; f_attempts : Z; f_next : option Z; f_in_flight : bool;
                          f_expires : Z; f_enqueued : Z }.

Record st := mkSt { fetches : list fetch;           (* pending_chunk_fetches_, keyed by chunk *)
                    counters : list (Z * Z);        (* active_peer_requests_ *)
                    held : list Z;                  (* chunks the node holds locally *)
                    offline : list Z }.             (* peers a request cannot be sent to *)
Definition init : st := mkSt [] [] [] [].

Definition ns : Z := 1000000000.
Definition memz (x : Z) (l : list Z) : bool := existsb (Z.eqb x) l.

Fixpoint cget (p : Z) (m : list (Z * Z)) : Z :=
  match m with [] => 0 | (q, n) :: r => if q =? p then n else cget p r end.
Definition cremove (p : Z) (m : list (Z * Z)) : list (Z * Z) := filter (fun e => negb (fst e =? p)) m.
Definition cset (p n : Z) (m : list (Z * Z)) : list (Z * Z) := (p, n) :: cremove p m.
(* note_dispatch_start / note_dispatch_end *)
Definition cinc (p : Z) (m : list (Z * Z)) : list (Z * Z) := cset p (cget p m + 1) m.
Definition cdec (p : Z) (m : list (Z * Z)) : list (Z * Z) :=
  if existsb (fun e => fst e =? p) m then (if cget p m <=? 1 then cremove p m else cset p (cget p m - 1) m) else m.

Fixpoint ffind (ch : Z) (l : list fetch) : option fetch :=
  match l with [] => None | f :: r => if f_chunk f =? ch then Some f else ffind ch r end.
Definition fremove (ch : Z) (l : list fetch) : list fetch := filter (fun f => negb (f_chunk f =? ch)) l.
(* replace the record of f's chunk in place (the map node stays where it is) *)
Fixpoint fupdate (f : fetch) (l : list fetch) : list fetch :=
  match l with [] => [] | g :: r => if f_chunk g =? f_chunk f then f :: r else g :: fupdate f r end.

(* schedule_next_fetch_attempt *)
Definition pos_or_one (v : Z) : Z := if v <=? 0 then 1 else v.
Definition backoff_s (c : cfg) (attempts : Z) : Z :=
  let base := pos_or_one (initial_backoff_s c) in
  let e := if 0 <? attempts then attempts - 1 else 0 in
  let e := if 8 <? e then 8 else e in
  let b := base * 2 ^ e in
  let b := if (0 <? max_backoff_s c) && (max_backoff_s c <? b) then max_backoff_s c else b in
  pos_or_one b.
Definition next_attempt (c : cfg) (attempts : Z) (success : bool) (now : Z) : option Z :=
  if success then Some (now + pos_or_one (success_interval_s c) * ns)
  else if (0 <? attempt_limit c) && (attempt_limit c <=? attempts) then None
  else Some (now + backoff_s c attempts * ns).

Definition can_dispatch (c : cfg) (s : st) (p : Z) : bool :=
  (max_parallel c =? 0) || (cget p (counters s) <? max_parallel c).

(* clear_pending_fetch *)
Definition clear (s : st) (ch : Z) : st :=
  match ffind ch (fetches s) with
  | None => s
  | Some f => mkSt (fremove ch (fetches s)) (if f_in_flight f then cdec (f_peer f) (counters s) else counters s) (held s) (offline s)
  end.

(* the scan over the table: (state with timed-out requests released, completed keys, ready keys, in-flight count) *)
Definition exhausted (c : cfg) (f : fetch) : bool := (0 <? attempt_limit c) && (attempt_limit c <=? f_attempts f).

(* the table is walked key by key; the record is read when its turn comes (only its own entry can have changed) *)
Fixpoint scan (c : cfg) (now : Z) (todo : list Z) (s : st) (completed ready : list Z) (inflight : Z)
  : st * list Z * list Z * Z :=
  match todo with
  | [] => (s, completed, ready, inflight)
  | ch :: r =>
      match ffind ch (fetches s) with
      | None => scan c now r s completed ready inflight
      | Some f =>
      if memz (f_chunk f) (held s) then scan c now r s (completed ++ [f_chunk f]) ready inflight
      else if (negb (f_expires f =? 0)) && (f_expires f <=? now) then scan c now r s (completed ++ [f_chunk f]) ready inflight
      else match f_next f with
           | None => scan c now r s (completed ++ [f_chunk f]) ready inflight
           | Some nx =>
               if f_in_flight f then
                 if nx <=? now then
                   (* the request went unanswered: give the slot back *)
                   let f' := mkFetch (f_chunk f) (f_peer f) (f_attempts f) (f_next f) false (f_expires f) (f_enqueued f) in
                   let s' := mkSt (fupdate f' (fetches s)) (cdec (f_peer f) (counters s)) (held s) (offline s) in
                   if exhausted c f then scan c now r s' (completed ++ [f_chunk f]) ready inflight
                   else scan c now r s' completed (ready ++ [f_chunk f]) inflight
                 else scan c now r s completed ready (inflight + 1)
               else if now <? nx then scan c now r s completed ready inflight
               else scan c now r s completed (ready ++ [f_chunk f]) inflight
           end
      end
  end.

(* sort key of a ready fetch: provider count is 0 for all (no provider records in these runs), then remaining manifest
   lifetime in whole seconds ascending, attempts descending, enqueue time ascending *)
Definition ttl_remaining (now : Z) (f : fetch) : Z :=
  if f_expires f =? 0 then 9223372036854775807 else if f_expires f <=? now then 0 else (f_expires f - now) / ns.
Definition before (now : Z) (a b : fetch) : bool :=
  let ta := ttl_remaining now a in let tb := ttl_remaining now b in
  if negb (ta =? tb) then ta <? tb
  else if negb (f_attempts a =? f_attempts b) then f_attempts b <? f_attempts a
  else f_enqueued a <? f_enqueued b.
Fixpoint insert_ready (now : Z) (f : fetch) (l : list fetch) : list fetch :=
  match l with [] => [f] | g :: r => if before now g f then g :: insert_ready now f r else f :: l end.
Definition sort_ready (now : Z) (l : list fetch) : list fetch := fold_right (insert_ready now) [] l.

(* frames: (peer, chunk) of every REQUEST put on the wire *)
Fixpoint dispatch_loop (c : cfg) (now : Z) (ready : list Z) (s : st) (inflight : Z) (exh : list Z) (out : list (Z * Z))
  : st * list Z * list (Z * Z) :=
  match ready with
  | [] => (s, exh, out)
  | ch :: r =>
      if (negb (max_parallel c =? 0)) && (max_parallel c <=? inflight) then (s, exh, out) else
      match ffind ch (fetches s) with
      | None => dispatch_loop c now r s inflight exh out
      | Some f =>
          if negb (can_dispatch c s (f_peer f)) then dispatch_loop c now r s inflight exh out else
          let ok := negb (memz (f_peer f) (offline s)) in
          let att := f_attempts f + 1 in
          let f' := mkFetch (f_chunk f) (f_peer f) att (next_attempt c att ok now) ok (f_expires f) (f_enqueued f) in
          let s' := mkSt (fupdate f' (fetches s)) (if ok then cinc (f_peer f) (counters s) else counters s) (held s) (offline s) in
          dispatch_loop c now r s' (if ok then inflight + 1 else inflight)
                        (if negb ok && (0 <? attempt_limit c) && (attempt_limit c <=? att) then exh ++ [ch] else exh)
                        (if ok then out ++ [(f_peer f, ch)] else out)
      end
  end.

Definition process (c : cfg) (s : st) (now : Z) : st * list (Z * Z) :=
  match fetches s with
  | [] => (s, [])
  | _ =>
      let '(s1, completed, ready, inflight) := scan c now (map f_chunk (fetches s)) s [] [] 0 in
      match ready with
      | [] => (fold_left clear completed s1, [])
      | _ =>
          let sorted := map f_chunk (sort_ready now (flat_map (fun ch => match ffind ch (fetches s1) with Some f => [f] | None => [] end) ready)) in
          let '(s2, exh, out) := dispatch_loop c now sorted s1 inflight [] [] in
          (fold_left clear (completed ++ exh) s2, out)
      end
  end.

Inductive op := Announce (ch p : Z) | Arrive (ch : Z) | Disconnect (p : Z) | Tick | Advance (dt_ms : Z).

Definition step (c : cfg) (expires : Z -> Z) (sn : st * Z) (o : op) : (st * Z) * list (Z * Z) :=
  let '(s, now) := sn in
  match o with
  | Announce ch p =>
      if memz ch (held s) then ((s, now), []) else
      let s1 :=
        match ffind ch (fetches s) with
        | None => mkSt (fetches s ++ [mkFetch ch p 0 (Some now) false (expires ch) now]) (counters s) (held s) (offline s)
        | Some f =>
            let att := if f_peer f =? p then f_attempts f else 0 in
            mkSt (fupdate (mkFetch ch p att (Some now) false (f_expires f) (f_enqueued f)) (fetches s))
                 (if f_in_flight f then cdec (f_peer f) (counters s) else counters s) (held s) (offline s)
        end in
      let '(s2, out) := process c s1 now in ((s2, now), out)
  | Arrive ch => ((mkSt (fetches s) (counters s) (if memz ch (held s) then held s else ch :: held s) (offline s), now), [])
  | Disconnect p => ((mkSt (fetches s) (counters s) (held s) (if memz p (offline s) then offline s else p :: offline s), now), [])
  | Tick => let '(s2, out) := process c s now in ((s2, now), out)
  | Advance dt => ((s, now + (if dt <? 0 then 0 else dt) * 1000000), [])
  end.

Definition run_ops (c : cfg) (expires : Z -> Z) (sn : st * Z) (ops : list op) : st * Z :=
  fold_left (fun x o => fst (step c expires x o)) ops sn.

(* ---- wire ----
   input: initial_backoff max_backoff success_interval attempt_limit max_parallel  npeers nchunks ttl_1..ttl_nchunks (s)
          then ops (code a b): 0 Announce a=chunk b=peer, 1 Arrive a=chunk, 2 Disconnect a=peer, 3 Tick, 4 Advance a=ms
   output per op: f, then f sorted REQUEST frames (peer chunk), then per chunk 1..nchunks: present attempts in_flight
   wait_ms (-1 none/max), then the counter of every peer 1..npeers *)
Fixpoint insert_pair (f : Z * Z) (l : list (Z * Z)) : list (Z * Z) :=
  match l with
  | [] => [f]
  | g :: r => if (fst f <? fst g) || ((fst f =? fst g) && (snd f <=? snd g)) then f :: l else g :: insert_pair f r
  end.
Definition sort_pairs (l : list (Z * Z)) : list (Z * Z) := fold_right insert_pair [] l.

Fixpoint w_list (n : nat) (l : list Z) : list Z * list Z :=
  match n with O => ([], l) | S k => let '(x, l) := w_next l in let '(r, l) := w_list k l in (x :: r, l) end.

Definition observe (s : st) (now np nc : Z) : list Z :=
  flat_map (fun ch => match ffind ch (fetches s) with
                      | None => [0; 0; 0; -1]
                      | Some f => [1; f_attempts f; o_bool (f_in_flight f);
                                   match f_next f with None => -1 | Some nx => (nx - now) / 1000000 end]
                      end) (map Z.of_nat (seq 1 (Z.to_nat nc)))
  ++ map (fun p => cget p (counters s)) (map Z.of_nat (seq 1 (Z.to_nat np))).

Fixpoint run_wire (fuel : nat) (c : cfg) (expires : Z -> Z) (np nc : Z) (sn : st * Z) (l : list Z) : list Z :=
  match fuel with
  | O => []
  | S k =>
      match l with
      | [] => []
      | _ =>
          let '(code, l) := w_next l in let '(a, l) := w_next l in let '(b, l) := w_next l in
          let o := if code =? 0 then Announce a b else if code =? 1 then Arrive a else if code =? 2 then Disconnect a
                   else if code =? 3 then Tick else Advance a in
          let '(sn', fr) := step c expires sn o in
          let fr := sort_pairs fr in
          [zlen fr] ++ flat_map (fun f => [fst f; snd f]) fr ++ observe (fst sn') (snd sn') np nc
          ++ run_wire k c expires np nc sn' l
      end
  end.

Definition t0 : Z := 1000000000000.
Definition run (input : list Z) : list Z :=
  let '(ib, l) := w_next input in let '(mb, l) := w_next l in let '(si, l) := w_next l in
  let '(al, l) := w_next l in let '(mp, l) := w_next l in
  let '(np, l) := w_next l in let '(nc, l) := w_next l in
  let '(ttls, l) := w_list (Z.to_nat nc) l in
  let expires := fun ch => if (1 <=? ch) && (ch <=? nc) then t0 + nth (Z.to_nat (ch - 1)) ttls 0 * ns else 0 in
  run_wire (length l) (mkCfg ib mb si al mp) expires np nc (init, t0) l.
