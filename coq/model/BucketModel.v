(* Executable model of the routing (bucket) side of src/dht/KademliaTable.cpp:
     bucket_index_for, upsert_bucket, register_peer, add_contact (bucket part), sweep_buckets, xor_distance,
     closest_peers, under a virtual steady clock in whole seconds.
   buckets_ (std::array<std::deque<PeerContact>, 256>) is ONE list of (bucket index, contact) in insertion order:
   bucket i is the sub-list of entries tagged i, in that order (push_back = append, pop_front = remove the first
   entry tagged i).  ids are lists of 32 bytes; an address is an integer token (the harness renders it as text).
   std::array<uint8_t,32>::operator< (lexicographic) is modelled by comparing the big-endian values of the
   distances (proofs/BucketProofs.v: lex_ltb_be_val shows the two coincide).  std::countl_zero(diff) - 24 is
   clz8 (the bit loop of model/PowModel.v).  Definitions only. *)
Require Import ZArith List Bool.
Import ListNotations.
Local Open Scope Z_scope.
From EphVerif Require Import lib.Bytes model.PowModel gen.Constants_bucket.

Record contact := { c_id : list Z; c_addr : Z; c_exp : Z }.
Definition entry : Type := (Z * contact)%type.            (* bucket index, contact *)
Record state := { now : Z; self : list Z; ents : list entry }.

Definition id_bits : Z := 256.

Fixpoint xor_bytes (a b : list Z) : list Z :=
  match a, b with
  | x :: a', y :: b' => Z.lxor x y :: xor_bytes a' b'
  | _, _ => []
  end.

(* the byte loop of bucket_index_for over the xor of the two ids *)
Fixpoint lead_zero_loop (leading : Z) (diffs : list Z) : Z * bool :=   (* leading_zeros, all_zero *)
  match diffs with
  | [] => (leading, true)
  | d :: r => if d =? 0 then lead_zero_loop (leading + 8) r else (leading + clz8 d, false)
  end.

Definition bucket_index_for (self_id peer : list Z) : option Z :=
  let '(lz, all_zero) := lead_zero_loop 0 (xor_bytes self_id peer) in
  if all_zero || (id_bits <=? lz) then None else Some (id_bits - lz - 1).

Definition id_eqb (a b : list Z) : bool := list_eqb a b.
Definition live (t : Z) (c : contact) : bool := t <? c_exp c.      (* !(now >= expires_at) *)
Definition in_bucket (i : Z) (e : entry) : bool := fst e =? i.

Fixpoint remove_first (p : entry -> bool) (l : list entry) : list entry :=
  match l with
  | [] => []
  | e :: r => if p e then r else e :: remove_first p r
  end.

Definition count_bucket (i : Z) (l : list entry) : Z := zlen (filter (in_bucket i) l).

Definition upsert_bucket (st : state) (c : contact) : state :=
  match bucket_index_for (self st) (c_id c) with
  | None => st
  | Some i =>
      (* erase expired entries of this bucket *)
      let l1 := filter (fun e => negb (in_bucket i e) || live (now st) (snd e)) (ents st) in
      let same := fun e : entry => in_bucket i e && id_eqb (c_id (snd e)) (c_id c) in
      match find same l1 with
      | Some (_, old) =>
          let refreshed := {| c_id := c_id old; c_addr := c_addr c; c_exp := c_exp c |} in
          {| now := now st; self := self st; ents := remove_first same l1 ++ [(i, refreshed)] |}
      | None =>
          let l2 := if bucket_size <=? count_bucket i l1 then remove_first (in_bucket i) l1 else l1 in
          {| now := now st; self := self st; ents := l2 ++ [(i, c)] |}
      end
  end.

(* register_peer: a zero expiry means "now" *)
Definition register_peer (st : state) (id : list Z) (addr exp : Z) : state :=
  let exp' := if exp =? 0 then now st else exp in
  upsert_bucket st {| c_id := id; c_addr := addr; c_exp := exp' |}.

(* add_contact, bucket part: expires_at = now + ttl *)
Definition add_contact (st : state) (id : list Z) (addr ttl : Z) : state :=
  upsert_bucket st {| c_id := id; c_addr := addr; c_exp := now st + ttl |}.

Definition sweep_buckets (st : state) : state :=
  {| now := now st; self := self st; ents := filter (fun e => live (now st) (snd e)) (ents st) |}.

Definition distance (target : list Z) (c : contact) : Z := be_val (xor_bytes (c_id c) target).

Fixpoint insert_by (key : contact -> Z) (c : contact) (l : list contact) : list contact :=
  match l with
  | [] => [c]
  | x :: r => if key c <? key x then c :: l else x :: insert_by key c r
  end.
Definition sort_by (key : contact -> Z) (l : list contact) : list contact := fold_right (insert_by key) [] l.

Definition closest_peers (st : state) (target : list Z) (limit : Z) : list contact :=
  let cands := filter (live (now st)) (map snd (ents st)) in
  firstn (Z.to_nat limit) (sort_by (distance target) cands).

Definition advance (st : state) (dt : Z) : state :=
  {| now := now st + Z.max 0 dt; self := self st; ents := ents st |}.

Inductive op :=
| Register (id : list Z) (addr exp : Z)
| AddContact (id : list Z) (addr ttl : Z)
| Sweep
| Closest (target : list Z) (limit : Z)
| Advance (dt : Z)
| Dump.

(* canonical dump: entries grouped by ascending bucket index, insertion order inside a bucket *)
Fixpoint dump_from (fuel : nat) (i : Z) (l : list entry) : list Z :=
  match fuel with
  | O => []
  | S f =>
      let b := filter (in_bucket i) l in
      (match b with
       | [] => []
       | _ => i :: zlen b :: flat_map (fun e => c_id (snd e) ++ [c_addr (snd e); c_exp (snd e)]) b
       end) ++ dump_from f (i + 1) l
  end.

Definition o_contact (c : contact) : list Z := c_id c ++ [c_addr c; c_exp c].

Definition step (st : state) (o : op) : state * list Z :=
  match o with
  | Register id a e => (register_peer st id a e, [])
  | AddContact id a t => (add_contact st id a t, [])
  | Sweep => (sweep_buckets st, [])
  | Closest t k => (st, let r := closest_peers st t k in zlen r :: flat_map o_contact r)
  | Advance d => (advance st d, [])
  | Dump => (st, let d := dump_from 256 0 (ents st) in zlen d :: d)   (* length-prefixed *)
  end.

Fixpoint run_ops (st : state) (ops : list op) : list Z :=
  match ops with
  | [] => []
  | o :: r => let '(st', out) := step st o in out ++ run_ops st' r
  end.

Definition exec (st : state) (ops : list op) : state := fold_left (fun s o => fst (step s o)) ops st.

Definition init (self_id : list Z) : state := {| now := 1000; self := self_id; ents := [] |}.

(* ---- wire ---- *)
Fixpoint parse_ops (fuel : nat) (l : list Z) : list op :=
  match fuel with
  | O => []
  | S f =>
      match l with
      | [] => []
      | k :: r =>
          if k =? 1 then let '(id, r) := w_id32 r in let '(a, r) := w_next r in let '(e, r) := w_next r in
                         Register id a e :: parse_ops f r
          else if k =? 2 then let '(id, r) := w_id32 r in let '(a, r) := w_next r in let '(t, r) := w_next r in
                         AddContact id a t :: parse_ops f r
          else if k =? 3 then Sweep :: parse_ops f r
          else if k =? 4 then let '(t, r) := w_id32 r in let '(n, r) := w_next r in Closest t n :: parse_ops f r
          else if k =? 5 then let '(d, r) := w_next r in Advance d :: parse_ops f r
          else if k =? 6 then Dump :: parse_ops f r
          else []
      end
  end.

Definition run (input : list Z) : list Z :=
  let '(self_id, l) := w_id32 input in
  run_ops (init self_id) (parse_ops (length l) l).
