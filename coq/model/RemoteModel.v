(* What a remote party can make a node do (C35): the two places where remote input reaches code that can throw, with the
   exception as an explicit outcome.
   (1) transport: a signed ANNOUNCE carrying a manifest, then a signed CHUNK with replica bytes, from a peer with a live session
       (Node::handle_announce caches the manifest when validate_shards and the TTL window accept it; Node::handle_chunk then hands
       the cached manifest and the bytes to receive_chunk, which reconstructs the key with Shamir::combine -- which throws on a
       repeated share index -- and answers with an ACK).
   (2) control plane: FETCH with arbitrary header fields (ControlServer::Impl::handle_fetch: MANIFEST decoding, OUT resolved with
       std::filesystem::absolute -- which throws on an empty path --, STREAM, ingest_manifest, Node::fetch_chunk -- which also
       reconstructs the key --, writing the file).
   Built on the content model (store / tamper / validate_shards / receive / fetch) and the Shamir model.  The model follows
   the code after the two fix: commits.  Definitions only. *)
Require Import ZArith List Bool.
Import ListNotations.
Local Open Scope Z_scope.
From EphVerif Require Import lib.Bytes model.ShamirModel model.ContentModel.

(* (1) the manifest is cached iff its shard set is acceptable; the ACK says whether the replica was imported *)
Definition announce_then_chunk (m' : manifest) (c' : list Z) : outcome (bool * bool) :=
  if negb (validate_shards m') then Val (false, false)          (* nothing cached: handle_chunk finds no manifest *)
  else match receive m' c' with
       | Throw e => Throw e
       | Val (Some _) => Val (true, true)
       | Val None => Val (true, false)
       end.

(* (2) std::filesystem::absolute *)
Definition absolute (path : list Z) : outcome (list Z) := match path with [] => Throw 8 | _ => Val path end.

(* response codes: 0 OK_FETCH, 1 MANIFEST_REQUIRED, 2 MANIFEST_INVALID, 3 OUT_REQUIRED, 4 MANIFEST_REGISTRATION, 5 CHUNK_MISSING,
   6 WRITE_FAILED, 7 OUT_INVALID.
   manifest: None = no MANIFEST field; Some None = not decodable; Some (Some m') = decodes to m'.  out: None = no OUT field;
   Some path.  writable: whether the file can be created there (missing directories are created; a path below a regular file cannot).  held: the bytes the node
   holds for the chunk (it holds the genuine record, with the genuine nonce). *)
Definition control_fetch (id held nonce : list Z) (man : option (option manifest)) (out : option (list Z)) (stream writable : bool)
  : outcome Z :=
  match man with
  | None => Val 1
  | Some None => Val 2
  | Some (Some m') =>
      match (match out with
             | None => Val None
             | Some p => match absolute p with Throw _ => Val (Some None) (* caught: OUT_INVALID *) | Val q => Val (Some (Some q)) end
             end) with
      | Throw e => Throw e
      | Val (Some None) => Val 7
      | Val o =>
          if negb stream && (match o with None => true | _ => false end) then Val 3
          else if negb (validate_shards m') then Val 4
          else match fetch id held nonce (m_shards m') (m_threshold m') with
               | Throw e => Throw e
               | Val None => Val 5
               | Val (Some _) => if stream then Val 0 else if writable then Val 0 else Val 6
               end
      end
  end.

(* ---- wire ----
   input: mode(1 | 3)  then the store inputs of the content family: id32 t n data key32 nonce12 rnd kind pos val seed
   mode 1: nf, then nf hostile actions (code bytes): the model has nothing to say about them but that the node keeps serving
   mode 3: nr requests, each: 0 raw-bytes | 2 stream(0/1): a genuine FETCH whose sender hangs up before the answer | 1 manifest-kind(0 absent, 1 genuine, 2 the corrupted one, 3 undecodable)
           out-kind(0 absent, 1 empty, 2 a file in an existing directory, 3 a path below a regular file) stream(0/1)
   output mode 1: probe cached probe ack probe, then one probe per action (a probe is 1: the honest peer was served)
   output mode 3 per request: 0 (nothing escaped the handler), the response code (-9 for raw bytes), 1 (PING answered) *)
Definition o_out (o : outcome Z) : list Z := match o with Val v => [0; v] | Throw e => [1; -1000 - e] end.

Fixpoint skip_actions (n : nat) (l : list Z) : list Z :=
  match n with O => [] | S k => let '(_, l) := w_next l in let '(_, l) := w_bytes l in 1 :: skip_actions k l end.

Fixpoint requests (fuel : nat) (id held nonce : list Z) (m m' : manifest) (l : list Z) : list Z :=
  match fuel with
  | O => []
  | S f =>
      let '(rk, l) := w_next l in
      if rk =? 0 then let '(_, l) := w_bytes l in [0; -9; 1] ++ requests f id held nonce m m' l
      else if rk =? 2 then let '(_, l) := w_next l in [0; -9; 1] ++ requests f id held nonce m m' l   (* the client hangs up before the answer *)
      else
        let '(mk, l) := w_next l in let '(ok, l) := w_next l in let '(st, l) := w_next l in
        let man := if mk =? 0 then None else if mk =? 1 then Some (Some m) else if mk =? 2 then Some (Some m') else Some None in
        let out := if ok =? 0 then None else if ok =? 1 then Some [] else Some [47; 120] in
        o_out (control_fetch id held nonce man out (negb (st =? 0)) (ok =? 2)) ++ [1] ++ requests f id held nonce m m' l
  end.

Definition run (input : list Z) : list Z :=
  let '(mode, l) := w_next input in
  let '(id, l) := w_id32 l in
  let '(t, l) := w_next l in let '(n, l) := w_next l in
  let '(data, l) := w_bytes l in
  let '(key, l) := w_id32 l in
  let nonce := map (fun b => b mod 256) (firstn 12 l) in let l := skipn 12 l in
  let '(rnd, l) := w_bytes l in
  let '(kind, l) := w_next l in let '(pos, l) := w_next l in let '(val, l) := w_next l in
  let '(_seed, l) := w_next l in
  match store id data key nonce t n rnd with
  | Throw e => [-1000; e]
  | Val (held, m) =>
      let '(m', c') := tamper m held kind pos val in
      if mode =? 1 then
        let '(nf, l) := w_next l in
        match announce_then_chunk m' c' with
        | Throw e => [1; -1000 - e]
        | Val (cached, ack) => [1; o_bool cached; 1; o_bool ack; 1] ++ skip_actions (Z.to_nat nf) l
        end
      else
        let '(nr, l) := w_next l in
        requests (Z.to_nat nr) id held (m_nonce m) m m' l
  end.
