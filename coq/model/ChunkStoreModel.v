(* Executable model of src/core/ChunkStore.cpp (put, get, get_record, sweep_expired, snapshot, size) and of the Node
   entry points that read chunks (store_chunk's TTL, fetch_chunk, export_chunk_record, handle_request's acceptance,
   stored_chunks, tick's sweep) under a virtual steady clock in NANOSECONDS (so "exactly at the deadline" and "1 ns
   before" are ordinary values).  chunks_ (unordered_map) is an association list with unique keys.
   Chunk ids are integer tokens, payloads are byte lists.  Persistence is C04's subject and is not modelled here.
   Definitions only (proofs: proofs/ChunkStoreProofs.v). *)
Require Import ZArith List Bool.
Import ListNotations.
Local Open Scope Z_scope.
From EphVerif Require Import lib.Bytes gen.Constants_config.

Definition ns : Z := 1000000000.

Record rec := { r_data : list Z; r_exp : Z }.
Definition store : Type := list (Z * rec).

Fixpoint get (k : Z) (s : store) : option rec :=
  match s with [] => None | (k', v) :: r => if k' =? k then Some v else get k r end.
Fixpoint del (k : Z) (s : store) : store :=
  match s with [] => [] | (k', v) :: r => if k' =? k then del k r else (k', v) :: del k r end.
Definition set (k : Z) (v : rec) (s : store) : store := (k, v) :: del k s.

(* cfg: ChunkStore's default TTL; the node's window (used by Node::store_chunk only) *)
Record state := { now : Z; recs : store; dflt : Z; wmin : Z; wmax : Z; last_cleanup : Z; cleanup_interval : Z }.

Definition with_recs (st : state) (r : store) : state :=
  {| now := now st; recs := r; dflt := dflt st; wmin := wmin st; wmax := wmax st;
     last_cleanup := last_cleanup st; cleanup_interval := cleanup_interval st |}.

Definition live (t : Z) (r : rec) : bool := t <? r_exp r.             (* !(now >= expires_at) *)

(* ChunkStore::put *)
Definition put (st : state) (id : Z) (data : list Z) (ttl : Z) : state :=
  let effective := if 0 <? ttl then ttl else dflt st in
  let sanitized := Z.max effective store_minimum_ttl in
  with_recs st (set id {| r_data := data; r_exp := now st + sanitized * ns |} (recs st)).

(* ChunkStore::get_record: refuses an expired record; the record itself stays until sweep_expired takes it (since the
   fix: commit -- it used to be erased here, without wiping its file and without the node ever reporting the expiry) *)
Definition get_record (st : state) (id : Z) : option rec * state :=
  match get id (recs st) with
  | None => (None, st)
  | Some r => if live (now st) r then (Some r, st) else (None, st)
  end.

(* ChunkStore::sweep_expired: returns the removed ids *)
Definition sweep (st : state) : list Z * state :=
  (map fst (filter (fun e => negb (live (now st) (snd e))) (recs st)),
   with_recs st (filter (fun e => live (now st) (snd e)) (recs st))).

(* Node::store_chunk's TTL: clamp_chunk_ttl(ttl>0 ? ttl : default, min, max) -- see model/ConfigModel.v / C02 *)
Definition node_ttl (st : state) (ttl : Z) : Z :=
  let effective := if 0 <? ttl then ttl else dflt st in
  let t := if effective <? wmin st then wmin st else effective in
  let t := if wmax st <? t then wmax st else t in
  if t <=? 0 then min_allowed_ttl else t.
Definition node_store (st : state) (id : Z) (data : list Z) (ttl : Z) : state := put st id data (node_ttl st ttl).

(* Node::stored_chunks: the listing behind `eph list` and STATUS *)
Definition listing (st : state) : list (Z * rec) := filter (fun e => live (now st) (snd e)) (recs st).
(* ChunkStore::snapshot: everything held, expired-but-unswept entries included (this is what the TTL audit reads) *)
Definition snapshot (st : state) : list (Z * rec) := recs st.

(* Node::tick, chunk part: sweep when the cleanup interval has elapsed *)
Definition tick (st : state) : list Z * state :=
  if cleanup_interval st <=? now st - last_cleanup st then
    let '(removed, st') := sweep st in
    (removed, {| now := now st'; recs := recs st'; dflt := dflt st'; wmin := wmin st'; wmax := wmax st';
                 last_cleanup := now st; cleanup_interval := cleanup_interval st' |})
  else ([], st).

Definition advance (st : state) (d : Z) : state :=
  {| now := now st + Z.max 0 d; recs := recs st; dflt := dflt st; wmin := wmin st; wmax := wmax st;
     last_cleanup := last_cleanup st; cleanup_interval := cleanup_interval st |}.

Inductive op :=
| Put (id : Z) (data : list Z) (ttl : Z)        (* ChunkStore::put / Node::store_chunk (node level) *)
| Get (id : Z)                                  (* ChunkStore::get / Node::fetch_chunk *)
| GetRecord (id : Z)                            (* ChunkStore::get_record / Node::export_chunk_record *)
| PeerRequest (id : Z)                          (* Node::handle_request: is the request accepted? *)
| Sweep                                         (* ChunkStore::sweep_expired / Node::tick *)
| List                                          (* Node::stored_chunks *)
| Snapshot                                      (* ChunkStore::snapshot + size *)
| Advance (d : Z).

(* canonical order for unordered_map iteration: ascending id *)
Fixpoint ins_key {A} (e : Z * A) (l : list (Z * A)) : list (Z * A) :=
  match l with [] => [e] | x :: r => if fst e <? fst x then e :: l else x :: ins_key e r end.
Definition sort_keys {A} (l : list (Z * A)) : list (Z * A) := fold_right ins_key [] l.
Fixpoint ins_z (e : Z) (l : list Z) : list Z :=
  match l with [] => [e] | x :: r => if e <? x then e :: l else x :: ins_z e r end.
Definition sort_z (l : list Z) : list Z := fold_right ins_z [] l.

Definition remaining (st : state) (r : rec) : Z := r_exp r - now st.

(* node: true for the Node-level entry points, false for the bare ChunkStore *)
Definition step (node : bool) (st : state) (o : op) : state * list Z :=
  match o with
  | Put id data ttl => ((if node then node_store st id data ttl else put st id data ttl), [])
  | Get id => let '(r, st') := get_record st id in
              (st', match r with Some r => 1 :: o_bytes (r_data r) | None => [0] end)
  | GetRecord id => let '(r, st') := get_record st id in
              (st', match r with Some r => 1 :: remaining st r :: o_bytes (r_data r) | None => [0] end)
  | PeerRequest id =>
      (* handle_request: the record must be live AND the manifest's remaining whole seconds must reach the minimum TTL
         (manifest_ttl / enforce_manifest_ttl; the manifest expires at the same instant as the chunk) *)
      let '(r, st') := get_record st id in
      (st', [match r with
             | Some r => if node then (if (remaining st r) / ns <? wmin st then 0 else 1) else 1
             | None => 0 end])
  | Sweep => let '(removed, st') := (if node then tick st else sweep st) in (st', zlen removed :: sort_z removed)
  | List => (st, let l := sort_keys (listing st) in zlen l :: flat_map (fun e => [fst e; remaining st (snd e)]) l)
  | Snapshot => (st, let l := sort_keys (snapshot st) in zlen l :: flat_map (fun e => [fst e; remaining st (snd e)]) l)
  | Advance d => (advance st d, [])
  end.

Fixpoint run_ops (node : bool) (st : state) (ops : list op) : list Z :=
  match ops with
  | [] => []
  | o :: r => let '(st', out) := step node st o in out ++ run_ops node st' r
  end.

Definition exec (node : bool) (st : state) (ops : list op) : state := fold_left (fun s o => fst (step node s o)) ops st.

Definition init (d mn mx ci : Z) : state :=
  {| now := 1000 * ns; recs := []; dflt := d; wmin := mn; wmax := mx; last_cleanup := 1000 * ns; cleanup_interval := ci * ns |}.

(* ---- wire ---- *)
Fixpoint parse_ops (fuel : nat) (l : list Z) : list op :=
  match fuel with
  | O => []
  | S f =>
      match l with
      | [] => []
      | k :: r =>
          if k =? 1 then let '(id, r) := w_next r in let '(t, r) := w_next r in let '(d, r) := w_bytes r in Put id d t :: parse_ops f r
          else if k =? 2 then let '(id, r) := w_next r in Get id :: parse_ops f r
          else if k =? 3 then let '(id, r) := w_next r in GetRecord id :: parse_ops f r
          else if k =? 4 then let '(id, r) := w_next r in PeerRequest id :: parse_ops f r
          else if k =? 5 then Sweep :: parse_ops f r
          else if k =? 6 then List :: parse_ops f r
          else if k =? 7 then Snapshot :: parse_ops f r
          else if k =? 8 then let '(d, r) := w_next r in Advance d :: parse_ops f r
          else []
      end
  end.

Definition run (input : list Z) : list Z :=
  let '(level, l) := w_next input in
  let '(d, l) := w_next l in let '(mn, l) := w_next l in let '(mx, l) := w_next l in let '(ci, l) := w_next l in
  run_ops (level =? 2) (init d mn mx ci) (parse_ops (length l) l).
