(* Executable model of parse_stun_response (src/network/NatTraversal.cpp), in checked-read form:
   every data[i] is [rd], UB outside the datagram.  The result is (family, address bytes, port) instead of the
   inet_ntop text (the harness converts the text back with inet_pton).  Bit operations: x ^ cookie is
   Z.lxor; (attr_length + 3u) & ~0x3u is ((al + 3) / 4) * 4.  Definitions only (proofs: proofs/StunProofs.v). *)
Require Import ZArith List Bool.
Import ListNotations.
Local Open Scope Z_scope.
From EphVerif Require Import lib.Bytes lib.Outcome gen.Constants_stun.

Definition rd (l : list Z) (i : Z) : res Z :=
  if (0 <=? i) && (i <? zlen l) then Ok (nth (Z.to_nat i) l 0) else UB.

Definition rd16 (l : list Z) (i : Z) : res Z := a <- rd l i ;; b <- rd l (i + 1) ;; Ok (a * 256 + b).

Fixpoint rdn (l : list Z) (i : Z) (n : nat) : res (list Z) :=
  match n with
  | O => Ok []
  | S n' => b <- rd l i ;; r <- rdn l (i + 1) n' ;; Ok (b :: r)
  end.

Definition cookie_bytes : list Z :=
  [(stun_magic_cookie / 16777216) mod 256; (stun_magic_cookie / 65536) mod 256; (stun_magic_cookie / 256) mod 256; stun_magic_cookie mod 256].
Definition cookie_hi16 : Z := (stun_magic_cookie / 65536) mod 65536.

Fixpoint xor_list (a b : list Z) : list Z :=
  match a, b with
  | x :: a', y :: b' => Z.lxor x y :: xor_list a' b'
  | _, [] => a
  | [], _ => []
  end.

Definition result : Type := option (Z * list Z * Z).   (* family (1 = IPv4, 2 = IPv6), address bytes, port *)

Definition address_attr (data txid : list Z) (value al : Z) (xored : bool) : res result :=
  family <- rd data (value + 1) ;;
  p <- rd16 data (value + 2) ;;
  let port := if xored then Z.lxor p cookie_hi16 else p in
  if (family =? 1) && (8 <=? al) then
    b <- rdn data (value + 4) 4 ;;
    Ok (Some (1, (if xored then xor_list b cookie_bytes else b), port))
  else if (family =? 2) && (20 <=? al) then
    b <- rdn data (value + 4) 16 ;;
    Ok (Some (2, (if xored then xor_list b (cookie_bytes ++ txid) else b), port))
  else Ok None.

(* the while loop; one unit of fuel per iteration, exhaustion is reported as UB (excluded by the theorem) *)
Fixpoint attrs (fuel : nat) (data txid : list Z) (offset remaining : Z) : res result :=
  match fuel with
  | O => UB
  | S fuel' =>
      if negb ((4 <=? remaining) && (offset + 4 <=? zlen data)) then Ok None else
      aty <- rd16 data offset ;;
      al <- rd16 data (offset + 2) ;;
      if (remaining <? al) || (zlen data <? offset + 4 + al) then Ok None else
      r <- (if ((aty =? 1) || (aty =? 32)) && (4 <=? al)
            then address_attr data txid (offset + 4) al (aty =? 32) else Ok None) ;;
      match r with
      | Some x => Ok (Some x)
      | None =>
          let padded := ((al + 3) / 4) * 4 in
          if remaining <? 4 + padded then Ok None
          else attrs fuel' data txid (offset + 4 + padded) (remaining - (4 + padded))
      end
  end.

Definition parse (data txid : list Z) : res result :=
  if zlen data <? 20 then Ok None else
  ty <- rd16 data 0 ;;
  mlen <- rd16 data 2 ;;
  if negb (ty =? 257) || (zlen data <? 20 + mlen) then Ok None else
  tid <- rdn data 8 12 ;;
  if negb (list_eqb tid txid) then Ok None else
  attrs (S (length data)) data txid 20 mlen.

(* ---------------------------------------------------------------------------------- RFC 5389 encoder (spec) *)
Definition be16s (v : Z) : list Z := [(v / 256) mod 256; v mod 256].
Definition pad4 (n : Z) : nat := Z.to_nat ((4 - n mod 4) mod 4).

(* section 15: type, length, value, padding to a multiple of 4 *)
Definition tlv (ty : Z) (value : list Z) : list Z := be16s ty ++ be16s (zlen value) ++ value ++ repeat 0 (pad4 (zlen value)).

(* 15.1 MAPPED-ADDRESS, 15.2 XOR-MAPPED-ADDRESS *)
Definition mapped_attr (family : Z) (addr : list Z) (port : Z) : list Z :=
  tlv 1 ([0; family] ++ be16s port ++ addr).
Definition xor_mapped_attr (txid : list Z) (family : Z) (addr : list Z) (port : Z) : list Z :=
  tlv 32 ([0; family] ++ be16s (Z.lxor port cookie_hi16) ++ xor_list addr (cookie_bytes ++ txid)).

(* section 6: header = type, length, magic cookie, transaction id *)
Definition response (txid body : list Z) : list Z := be16s 257 ++ be16s (zlen body) ++ cookie_bytes ++ txid ++ body.

(* ---------------------------------------------------------------------------------- wire *)
Definition run (input : list Z) : list Z :=
  let '(mode, l) := w_next input in
  if mode =? 1 then
    let '(data, l) := w_bytes l in
    let '(txid, _) := w_bytes l in
    match parse data (map (fun b => b mod 256) (pad_to 12 txid)) with
    | Ok None => [0]
    | Ok (Some (fam, addr, port)) => 1 :: fam :: addr ++ [port]
    | Throw e => [-1000; e]
    | UB => [-2000; 1]
    end
  else [-1].
