(* wire entry point of the "pow" family (see harness/impl_pow.cpp for the mirror image) *)
Require Import ZArith List Bool.
Import ListNotations.
Local Open Scope Z_scope.
From EphVerif Require Import lib.Bytes model.Sha256Model model.PowModel.

Definition o_opt (o : option Z) : list Z := match o with Some v => 1 :: o_u64 v | None => [0] end.

Definition run (input : list Z) : list Z :=
  let '(mode, l) := w_next input in
  if mode =? 1 then       (* counters on a 32-byte digest *)
    let '(dg, l) := w_id32 l in let '(d, _) := w_next l in
    [clz_node dg; clz_store dg; clz_cli dg; o_bool (meets_difficulty dg d)]
  else if mode =? 2 then  (* span counters on any length *)
    let '(dg, l) := w_bytes l in let '(d, _) := w_next l in
    [clz_store dg; clz_cli dg; o_bool (meets_difficulty dg d)]
  else if mode =? 3 then  (* handshake validators + digest + seed *)
    let '(i, l) := w_id32 l in let '(r, l) := w_id32 l in let '(pub, l) := w_next l in
    let '(nonce, l) := w_u64 l in let '(d, _) := w_next l in
    [o_bool (handshake_pow_valid i r pub nonce d); o_bool (transport_pow_valid i r pub nonce d)]
    ++ o_u64 (derive_handshake_seed i r pub) ++ handshake_pow_digest i r pub nonce
  else if mode =? 4 then  (* announce validator + digest + seed *)
    let '(c, l) := w_id32 l in let '(p, l) := w_id32 l in let '(ep, l) := w_bytes l in
    let '(uri, l) := w_bytes l in let '(sh, l) := w_bytes l in let '(ttl, l) := w_u64 l in
    let '(nonce, l) := w_u64 l in let '(d, _) := w_next l in
    let a := {| a_chunk := c; a_peer := p; a_endpoint := ep; a_uri := uri; a_shards := sh; a_ttl := ttl |} in
    [o_bool (announce_pow_valid a nonce d)] ++ o_u64 (derive_pow_seed a) ++ announce_pow_digest a nonce
  else if mode =? 5 then  (* store validator + seed *)
    let '(c, l) := w_id32 l in let '(size, l) := w_u64 l in let '(fn, l) := w_bytes l in
    let '(nonce, l) := w_u64 l in let '(d, _) := w_next l in
    [o_bool (store_pow_valid c size fn nonce d)]
  else if mode =? 6 then  (* token solver *)
    let '(c, l) := w_id32 l in let '(h, l) := w_id32 l in let '(ep, l) := w_bytes l in
    let '(d, l) := w_next l in let '(mx, _) := w_next l in
    o_opt (solve_token_challenge c h ep d mx)
  else if mode =? 7 then  (* handshake solvers, node and CLI; start = first generator output *)
    let '(i, l) := w_id32 l in let '(r, l) := w_id32 l in let '(pub, l) := w_next l in
    let '(d, l) := w_next l in let '(start, _) := w_u64 l in
    o_opt (compute_handshake_pow 4096 i r pub d start) ++ o_opt (compute_transport_pow 4096 i r pub d start)
  else if mode =? 8 then  (* announce solver *)
    let '(c, l) := w_id32 l in let '(p, l) := w_id32 l in let '(ep, l) := w_bytes l in
    let '(uri, l) := w_bytes l in let '(sh, l) := w_bytes l in let '(ttl, l) := w_u64 l in
    let '(d, l) := w_next l in let '(start, _) := w_u64 l in
    let a := {| a_chunk := c; a_peer := p; a_endpoint := ep; a_uri := uri; a_shards := sh; a_ttl := ttl |} in
    o_opt (compute_announce_pow 4096 a d start)
  else if mode =? 9 then  (* store solver: candidates = generator outputs *)
    let '(c, l) := w_id32 l in let '(size, l) := w_u64 l in let '(fn, l) := w_bytes l in
    let '(d, l) := w_next l in let '(mx, l) := w_next l in let '(n, l) := w_next l in
    let cands := (fix rd (k : nat) (l : list Z) : list Z :=
                    match k with O => [] | S k' => let '(v, l') := w_u64 l in v :: rd k' l' end) (Z.to_nat n) l in
    o_opt (compute_store_pow c size fn d mx cands)
  else [-1].
