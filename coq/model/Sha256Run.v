(* wire entry point of the "sha" family: 1 = streaming hash over a split, 2 = hmac, 3 = verify *)
Require Import ZArith List.
Import ListNotations.
Local Open Scope Z_scope.
From EphVerif Require Import lib.Bytes model.Sha256Model.

Fixpoint read_chunks (n : nat) (l : list Z) : list (list Z) :=
  match n with
  | O => []
  | S n' => let '(b, r) := w_bytes l in b :: read_chunks n' r
  end.

Definition run (input : list Z) : list Z :=
  let '(mode, l) := w_next input in
  if mode =? 1 then
    let '(n, l) := w_next l in
    finalize (fold_left update (read_chunks (Z.to_nat n) l) sha_init)
  else if mode =? 2 then
    let '(key, l) := w_bytes l in let '(data, _) := w_bytes l in hmac key data
  else if mode =? 3 then
    let '(key, l) := w_bytes l in let '(data, l) := w_bytes l in let '(mac, _) := w_bytes l in
    [o_bool (hmac_verify key data mac)]
  else [-1].
