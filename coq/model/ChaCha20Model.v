(* Executable model of src/crypto/ChaCha20.cpp and the ChaCha20 use of src/crypto/CryptoManager.cpp.
   Definitions only (proofs: proofs/ChaCha20Proofs.v).
     chacha20_block  -> block16 / block : the 16 words are sixteen variables (the C++ passes references
                        to array slots to quarter_round); 10 iterations of the 8 quarter rounds; feed-forward;
                        store32_le of each word
     ChaCha20::apply -> apply : one keystream block per iteration, ++counter as (c+1) mod 2^32,
                        block_size = min(64, remaining); fuel = number of blocks
     derive_counter  -> derive_counter (little-endian load of chunk_id[0..3])
     CryptoManager::{encrypt,decrypt}_with_key -> encrypt_with_key (nonce is an input) / decrypt_with_key
   kSigma is the value regenerated from the C++ source. *)
Require Import ZArith List.
Import ListNotations.
Local Open Scope Z_scope.
From EphVerif Require Import lib.Bytes spec.ChaCha20Spec gen.Constants_chacha.

Definition st16 : Type := (Z*Z*Z*Z*Z*Z*Z*Z*Z*Z*Z*Z*Z*Z*Z*Z)%type.

Definition dround (s : st16) : st16 :=
  let '(x0,x1,x2,x3,x4,x5,x6,x7,x8,x9,x10,x11,x12,x13,x14,x15) := s in
  let '(x0,x4,x8,x12) := qr x0 x4 x8 x12 in
  let '(x1,x5,x9,x13) := qr x1 x5 x9 x13 in
  let '(x2,x6,x10,x14) := qr x2 x6 x10 x14 in
  let '(x3,x7,x11,x15) := qr x3 x7 x11 x15 in
  let '(x0,x5,x10,x15) := qr x0 x5 x10 x15 in
  let '(x1,x6,x11,x12) := qr x1 x6 x11 x12 in
  let '(x2,x7,x8,x13) := qr x2 x7 x8 x13 in
  let '(x3,x4,x9,x14) := qr x3 x4 x9 x14 in
  (x0,x1,x2,x3,x4,x5,x6,x7,x8,x9,x10,x11,x12,x13,x14,x15).

Definition to_list (s : st16) : list Z :=
  let '(x0,x1,x2,x3,x4,x5,x6,x7,x8,x9,x10,x11,x12,x13,x14,x15) := s in
  [x0;x1;x2;x3;x4;x5;x6;x7;x8;x9;x10;x11;x12;x13;x14;x15].

Definition ld32_at (b : list Z) (i : nat) : Z :=
  ld32 (nth i b 0) (nth (i + 1) b 0) (nth (i + 2) b 0) (nth (i + 3) b 0).

Definition init16 (key nonce : list Z) (counter : Z) : st16 :=
  (nth 0 chacha_sigma 0, nth 1 chacha_sigma 0, nth 2 chacha_sigma 0, nth 3 chacha_sigma 0,
   ld32_at key 0, ld32_at key 4, ld32_at key 8, ld32_at key 12,
   ld32_at key 16, ld32_at key 20, ld32_at key 24, ld32_at key 28,
   counter, ld32_at nonce 0, ld32_at nonce 4, ld32_at nonce 8).

Definition add16 (a b : st16) : st16 :=
  let '(a0,a1,a2,a3,a4,a5,a6,a7,a8,a9,a10,a11,a12,a13,a14,a15) := a in
  let '(b0,b1,b2,b3,b4,b5,b6,b7,b8,b9,b10,b11,b12,b13,b14,b15) := b in
  (add32 a0 b0, add32 a1 b1, add32 a2 b2, add32 a3 b3, add32 a4 b4, add32 a5 b5, add32 a6 b6, add32 a7 b7,
   add32 a8 b8, add32 a9 b9, add32 a10 b10, add32 a11 b11, add32 a12 b12, add32 a13 b13, add32 a14 b14, add32 a15 b15).

Definition ser16 (s : st16) : list Z :=
  let '(x0,x1,x2,x3,x4,x5,x6,x7,x8,x9,x10,x11,x12,x13,x14,x15) := s in
  le32 x0 ++ le32 x1 ++ le32 x2 ++ le32 x3 ++ le32 x4 ++ le32 x5 ++ le32 x6 ++ le32 x7 ++
  le32 x8 ++ le32 x9 ++ le32 x10 ++ le32 x11 ++ le32 x12 ++ le32 x13 ++ le32 x14 ++ le32 x15.

(* chacha20_block(key, nonce, counter, buffer) *)
Definition mblock (key nonce : list Z) (counter : Z) : list Z :=
  let st := init16 key nonce counter in
  ser16 (add16 (Nat.iter 10 dround st) st).

(* ChaCha20::apply *)
Fixpoint apply_loop (fuel : nat) (key nonce input : list Z) (counter : Z) : list Z :=
  match fuel with
  | O => []
  | S f =>
      match input with
      | [] => []
      | _ =>
          let ks := mblock key nonce counter in
          let bs := Nat.min (Z.to_nat chacha_block_size) (length input) in
          xor_with ks (firstn bs input) ++ apply_loop f key nonce (skipn bs input) ((counter + 1) mod w32)
      end
  end.

Definition apply (key nonce input : list Z) (counter : Z) : list Z :=
  apply_loop (nblocks (length input)) key nonce input counter.

(* CryptoManager *)
Definition derive_counter (chunk_id : list Z) : Z := ld32_at chunk_id 0.

Definition encrypt_with_key (key chunk_id plaintext nonce : list Z) : list Z :=
  apply key nonce plaintext (derive_counter chunk_id).

Definition decrypt_with_key (key chunk_id ciphertext nonce : list Z) : option (list Z) :=
  Some (apply key nonce ciphertext (derive_counter chunk_id)).

(* wire: 1 = apply key nonce counter(u32 as one int) input ; 2 = decrypt_with_key key id nonce ct ;
         3 = encrypt_with_key self-check flags (the implementation draws the nonce itself) *)
Definition run (input : list Z) : list Z :=
  let '(mode, l) := w_next input in
  if mode =? 1 then
    let '(key, l) := w_id32 l in
    let '(nonce, l) := w_bytes l in
    let '(ctr, l) := w_next l in
    let '(inp, _) := w_bytes l in
    apply key nonce inp (ctr mod w32)
  else if mode =? 2 then
    let '(key, l) := w_id32 l in
    let '(id, l) := w_id32 l in
    let '(nonce, l) := w_bytes l in
    let '(ct, _) := w_bytes l in
    match decrypt_with_key key id ct nonce with Some p => 1 :: p | None => [0] end
  else if mode =? 3 then [1; 1; 1]
  else [-1].
