(* Executable model of the JSON reader in src/core/UpdateCheck.cpp (JsonParser and parse_update_metadata).
   The input is the remaining suffix (input_.substr(pos_)); eof() is "the suffix is empty", peek() is its head
   (NUL at the end, as the code now returns), get() is only used after an eof() test and is the head/tail match.
   Recursion: nesting is bounded by the depth counter (kMaxNestingDepth, regenerated from the source); the model's
   nesting fuel is derived from it, the member loops run on fuel = remaining length; proofs/JsonProofs.v shows
   that neither fuel ever runs out.  Numbers are kept as their literal text (std::strtod and its ERANGE verdict are
   not modelled).  Definitions only. *)
Require Import ZArith List Bool.
Import ListNotations.
Local Open Scope Z_scope.
From EphVerif Require Import lib.Bytes gen.Constants_json.

Inductive json :=
| JNull | JBool (b : bool) | JNum (text : list Z) | JStr (s : list Z)
| JArr (items : list json) | JObj (members : list (list Z * json)).

(* error classes (the C++ throws std::runtime_error with a message; caught in parse_update_metadata) *)
Inductive res (A : Type) := Ok (a : A) (rest : list Z) | Err (code : Z) | Fuel.
Arguments Ok {A}. Arguments Err {A}. Arguments Fuel {A}.

Definition is_ws (c : Z) : bool := (c =? 32) || (c =? 10) || (c =? 13) || (c =? 9).
Definition is_digit (c : Z) : bool := (48 <=? c) && (c <=? 57).

Fixpoint skip_ws (l : list Z) : list Z :=
  match l with c :: r => if is_ws c then skip_ws r else l | [] => [] end.

Definition peek (l : list Z) : Z := match l with [] => 0 | c :: _ => c end.

Fixpoint is_prefix (p l : list Z) : option (list Z) :=     (* match_literal: the rest after the literal *)
  match p, l with
  | [], _ => Some l
  | x :: p', y :: l' => if x =? y then is_prefix p' l' else None
  | _ :: _, [] => None
  end.

(* ---- strings ---- *)
Definition hex_val (c : Z) : option Z :=
  if (48 <=? c) && (c <=? 57) then Some (c - 48)
  else if (97 <=? c) && (c <=? 102) then Some (10 + c - 97)
  else if (65 <=? c) && (c <=? 70) then Some (10 + c - 65)
  else None.

Definition hex4 (a b c d : Z) : option Z :=
  match hex_val a, hex_val b, hex_val c, hex_val d with
  | Some x, Some y, Some z, Some w => Some (Z.lor (Z.shiftl (Z.lor (Z.shiftl (Z.lor (Z.shiftl x 4) y) 4) z) 4) w)
  | _, _, _, _ => None
  end.

(* append_utf8 *)
Definition append_utf8 (cp : Z) : list Z :=
  if cp <=? 127 then [cp]
  else if cp <=? 2047 then [Z.lor 192 (Z.land (Z.shiftr cp 6) 31); Z.lor 128 (Z.land cp 63)]
  else if cp <=? 65535 then [Z.lor 224 (Z.land (Z.shiftr cp 12) 15); Z.lor 128 (Z.land (Z.shiftr cp 6) 63); Z.lor 128 (Z.land cp 63)]
  else [Z.lor 240 (Z.land (Z.shiftr cp 18) 7); Z.lor 128 (Z.land (Z.shiftr cp 12) 63);
        Z.lor 128 (Z.land (Z.shiftr cp 6) 63); Z.lor 128 (Z.land cp 63)].

Definition simple_escape (e : Z) : option Z :=
  if e =? 34 then Some 34 else if e =? 92 then Some 92 else if e =? 47 then Some 47
  else if e =? 98 then Some 8 else if e =? 102 then Some 12 else if e =? 110 then Some 10
  else if e =? 114 then Some 13 else if e =? 116 then Some 9 else None.

Definition is_low_surrogate (cp : Z) : bool := (56320 <=? cp) && (cp <=? 57343).
Definition is_high_surrogate (cp : Z) : bool := (55296 <=? cp) && (cp <=? 56319).
Definition combine_surrogates (hi lo : Z) : Z := 65536 + Z.shiftl (hi - 55296) 10 + (lo - 56320).

(* the body of parse_string after the opening quote (34 = double quote, 92 = backslash, 117 = u).
   Error codes: 1 unterminated string, 2 unterminated escape, 3 invalid escape, 4 truncated unicode escape,
   5 invalid unicode escape, 6 unpaired / invalid surrogate.  Structural recursion: every recursive call is on a tail
   obtained by pattern matching, i.e. the loop consumes input on every iteration. *)
Fixpoint string_body (l : list Z) (acc : list Z) : res (list Z) :=
  match l with
  | [] => Err 1
  | c :: r =>
      if c =? 34 then Ok acc r
      else if c =? 92 then
        match r with
        | [] => Err 2
        | e :: r' =>
            match simple_escape e with
            | Some b => string_body r' (acc ++ [b])
            | None =>
                if e =? 117 then
                  match r' with
                  | h1 :: h2 :: h3 :: h4 :: r2 =>
                      match hex4 h1 h2 h3 h4 with
                      | None => Err 5
                      | Some cp =>
                          if is_low_surrogate cp then Err 6
                          else if is_high_surrogate cp then
                            match r2 with
                            | b1 :: u1 :: g1 :: g2 :: g3 :: g4 :: r3 =>
                                if (b1 =? 92) && (u1 =? 117) then
                                  match hex4 g1 g2 g3 g4 with
                                  | None => Err 5
                                  | Some low =>
                                      if is_low_surrogate low
                                      then string_body r3 (acc ++ append_utf8 (combine_surrogates cp low))
                                      else Err 6
                                  end
                                else Err 6
                            | _ => Err 6
                            end
                          else string_body r2 (acc ++ append_utf8 cp)
                      end
                  | _ => Err 4
                  end
                else Err 3
            end
        end
      else string_body r (acc ++ [c])
  end.

Definition parse_string (l : list Z) : res (list Z) :=
  match l with c :: r => if c =? 34 then string_body r [] else Err 7 | [] => Err 7 end.

(* ---- numbers: the grammar scan of parse_number; the literal text is kept ---- *)
Fixpoint take_digits (l : list Z) : list Z * list Z :=
  match l with
  | c :: r => if is_digit c then let '(d, rest) := take_digits r in (c :: d, rest) else ([], l)
  | [] => ([], [])
  end.

Definition parse_number (l : list Z) : res json :=
  let '(sign, l1) := match l with c :: r => if c =? 45 then ([45], r) else ([], l) | [] => ([], l) end in
  let int_part :=
    match l1 with
    | c :: r => if c =? 48 then Some ([48], r) else if is_digit c then Some (take_digits l1) else None
    | [] => None
    end in
  match int_part with
  | None => Err 8
  | Some (ip, l2) =>
      let frac :=
        match l2 with
        | c :: r => if c =? 46 then (if is_digit (peek r) then let '(d, rest) := take_digits r in Some (46 :: d, rest) else None)
                    else Some ([], l2)
        | [] => Some ([], l2)
        end in
      match frac with
      | None => Err 9
      | Some (fp, l3) =>
          let expo :=
            match l3 with
            | c :: r =>
                if (c =? 101) || (c =? 69) then
                  let '(sg, r1) := match r with s :: r' => if (s =? 43) || (s =? 45) then ([s], r') else ([], r) | [] => ([], []) end in
                  if is_digit (peek r1) then let '(d, rest) := take_digits r1 in Some (c :: sg ++ d, rest) else None
                else Some ([], l3)
            | [] => Some ([], [])
            end in
          match expo with
          | None => Err 10
          | Some (ep, l4) => Ok (JNum (sign ++ ip ++ fp ++ ep)) l4
          end
      end
  end.

(* ---- values ---- *)
Section Loops.
  Variable pv : list Z -> res json.        (* parse_value for a child *)

  (* parse_array after '[' , skip_whitespace and the failed match(']') *)
  Fixpoint arr_loop (n : nat) (l : list Z) (acc : list json) : res json :=
    match n with
    | O => Fuel
    | S n' =>
        match pv (skip_ws l) with
        | Ok v l1 =>
            match skip_ws l1 with
            | c :: r => if c =? 93 then Ok (JArr (rev (v :: acc))) r
                        else if c =? 44 then arr_loop n' (skip_ws r) (v :: acc)
                        else Err 11
            | [] => Err 11
            end
        | Err e => Err e
        | Fuel => Fuel
        end
    end.

  Fixpoint obj_loop (n : nat) (l : list Z) (acc : list (list Z * json)) : res json :=
    match n with
    | O => Fuel
    | S n' =>
        let l0 := skip_ws l in
        if negb (peek l0 =? 34) then Err 12 else
        match parse_string l0 with
        | Ok key l1 =>
            match skip_ws l1 with
            | c :: r =>
                if c =? 58 then
                  match pv (skip_ws r) with
                  | Ok v l2 =>
                      match skip_ws l2 with
                      | c2 :: r2 => if c2 =? 125 then Ok (JObj (rev ((key, v) :: acc))) r2
                                    else if c2 =? 44 then obj_loop n' (skip_ws r2) ((key, v) :: acc)
                                    else Err 11
                      | [] => Err 11
                      end
                  | Err e => Err e
                  | Fuel => Fuel
                  end
                else Err 11
            | [] => Err 11
            end
        | Err e => Err e
        | Fuel => Fuel
        end
    end.
End Loops.

Definition max_depth : nat := Z.to_nat json_max_depth.

(* f: nesting fuel; d: depth_ on entry *)
Fixpoint parse_value (f : nat) (d : nat) (l : list Z) : res json :=
  match f with
  | O => Fuel
  | S f' =>
      match l with
      | [] => Err 13
      | c :: r =>
          if c =? 34 then match parse_string l with Ok s r' => Ok (JStr s) r' | Err e => Err e | Fuel => Fuel end
          else if (c =? 123) || (c =? 91) then
            if Nat.leb max_depth d then Err 14 else
            let r0 := skip_ws r in
            let closer := if c =? 123 then 125 else 93 in
            if peek r0 =? closer then
              match r0 with _ :: r' => Ok (if c =? 123 then JObj [] else JArr []) r' | [] => Err 11 end
            else if c =? 123 then obj_loop (parse_value f' (S d)) (S (length r0)) r0 []
            else arr_loop (parse_value f' (S d)) (S (length r0)) r0 []
          else if c =? 116 then match is_prefix [116; 114; 117; 101] l with Some r' => Ok (JBool true) r' | None => Err 15 end
          else if c =? 102 then match is_prefix [102; 97; 108; 115; 101] l with Some r' => Ok (JBool false) r' | None => Err 15 end
          else if c =? 110 then match is_prefix [110; 117; 108; 108] l with Some r' => Ok JNull r' | None => Err 16 end
          else if (c =? 45) || is_digit c then parse_number l
          else Err 17
      end
  end.

Definition parse_document (l : list Z) : res json :=
  match parse_value (S max_depth) 0 (skip_ws l) with
  | Ok v r => match skip_ws r with [] => Ok v [] | _ => Err 18 end
  | Err e => Err e
  | Fuel => Fuel
  end.

(* ---- parse_update_metadata ---- *)
Fixpoint find (key : list Z) (members : list (list Z * json)) : option json :=
  match members with
  | [] => None
  | (k, v) :: r => if list_eqb k key then Some v else find key r
  end.
Definition obj_find (v : json) (key : list Z) : option json := match v with JObj m => find key m | _ => None end.
Definition str_field (v : json) (key : list Z) : option (list Z) :=
  match obj_find v key with Some (JStr s) => Some s | _ => None end.

Record download := { d_platform : list Z; d_url : list Z; d_sha : option (list Z); d_arch : list Z; d_format : list Z }.
Record metadata := { m_version : list Z; m_tag : list Z; m_commit : list Z; m_channel : list Z; m_generated : list Z;
                     m_notes : option (list Z); m_downloads : list download }.

Definition k_version := [118; 101; 114; 115; 105; 111; 110].
Definition k_tag := [116; 97; 103].
Definition k_commit := [99; 111; 109; 109; 105; 116].
Definition k_channel := [99; 104; 97; 110; 110; 101; 108].
Definition k_generated := [103; 101; 110; 101; 114; 97; 116; 101; 100; 95; 97; 116].
Definition k_notes := [110; 111; 116; 101; 115; 95; 117; 114; 108].
Definition k_downloads := [100; 111; 119; 110; 108; 111; 97; 100; 115].
Definition k_url := [117; 114; 108].
Definition k_arch := [97; 114; 99; 104].
Definition k_format := [102; 111; 114; 109; 97; 116].
Definition k_sha := [115; 104; 97; 50; 53; 54].

(* None = "Missing or invalid string field: url" (the whole parse fails) *)
Fixpoint collect_downloads (members : list (list Z * json)) : option (list download) :=
  match members with
  | [] => Some []
  | (platform, v) :: r =>
      match v with
      | JObj _ =>
          match str_field v k_url with
          | None => None
          | Some url =>
              match collect_downloads r with
              | None => None
              | Some ds => Some ({| d_platform := platform; d_url := url; d_sha := str_field v k_sha;
                                    d_arch := match str_field v k_arch with Some a => a | None => [] end;
                                    d_format := match str_field v k_format with Some a => a | None => [] end |} :: ds)
              end
          end
      | _ => collect_downloads r
      end
  end.

Definition parse_update_metadata (l : list Z) : option metadata :=
  match parse_document l with
  | Ok (JObj m as root) _ =>
      match str_field root k_version, str_field root k_tag, str_field root k_commit, str_field root k_channel,
            str_field root k_generated with
      | Some v, Some t, Some c, Some ch, Some g =>
          match obj_find root k_downloads with
          | Some (JObj dm) =>
              match collect_downloads dm with
              | Some (d0 :: ds) => Some {| m_version := v; m_tag := t; m_commit := c; m_channel := ch; m_generated := g;
                                           m_notes := str_field root k_notes; m_downloads := d0 :: ds |}
              | _ => None
              end
          | _ => None
          end
      | _, _, _, _, _ => None
      end
  | _ => None
  end.

(* ---- wire ---- *)
Definition o_opt (o : option (list Z)) : list Z := match o with Some s => 1 :: o_bytes s | None => [0] end.
Definition run (input : list Z) : list Z :=
  let '(mode, l) := w_next input in
  let '(text, _) := w_bytes l in
  if mode =? 1 then
    match parse_update_metadata text with
    | None => [0]
    | Some m => [1] ++ o_bytes (m_version m) ++ o_bytes (m_tag m) ++ o_bytes (m_commit m) ++ o_bytes (m_channel m)
                ++ o_bytes (m_generated m) ++ o_opt (m_notes m) ++ [zlen (m_downloads m)]
                ++ flat_map (fun d => o_bytes (d_platform d) ++ o_bytes (d_url d) ++ o_opt (d_sha d) ++ o_bytes (d_arch d)
                                      ++ o_bytes (d_format d)) (m_downloads m)
    end
  else [-1].
