(* Executable model of the `eph fetch` command of src/main.cpp (after the fix: commit that makes finalize_fetch check the
   hash): which endpoints are tried, in which order, and what is written.  A manifest names transport hints, control hints
   and control:// fallback URIs, each with a priority; the command tries the transport hints (stable order of priority), then
   the control hints, then the fallbacks, and finally the local daemon (unless --direct-only / --transport-only), stopping at
   the first path that succeeds.  What an endpoint does is its response: unreachable, a refusal, a payload (for a transport
   peer: the bytes its record decrypts to), or "written on the daemon host" (no payload).  A payload is accepted only if its
   hash is the manifest's chunk hash.  Definitions only. *)
Require Import ZArith List Bool.
Import ListNotations.
Local Open Scope Z_scope.
From EphVerif Require Import lib.Bytes model.Sha256Model.

Inductive resp := Unreach | Refuse | Payload (b : list Z) | NoPayload.
(* kind: 0 transport hint, 1 control hint, 2 control:// fallback *)
Record hint := mkHint { h_kind : Z; h_prio : Z; h_resp : resp }.

Inductive outcome := Wrote (b : list Z) | OnDaemonHost | Failed.

Section Fetch.
  Variable hash : list Z -> list Z.
  Variable h : list Z.                      (* the manifest's chunk hash *)
  Definition matches (b : list Z) : bool := list_eqb (hash b) h.

  (* attempt_transport_hint: REQUEST over a transport session, decrypt_chunk_with_manifest checks the hash (C11) *)
  Definition attempt_transport (r : resp) : outcome :=
    match r with Payload b => if matches b then Wrote b else Failed | _ => Failed end.
  (* attempt_control_hint / the local daemon: FETCH over the control protocol, finalize_fetch checks the hash *)
  Definition attempt_control (r : resp) : outcome :=
    match r with
    | Payload b => if matches b then Wrote b else Failed
    | NoPayload => OnDaemonHost
    | _ => Failed
    end.

  (* try the paths in order; the indices tried, and the first success *)
  Fixpoint first_ok (att : resp -> outcome) (l : list (Z * hint)) : list Z * option (Z * outcome) :=
    match l with
    | [] => ([], None)
    | (i, x) :: r =>
        match att (h_resp x) with
        | Failed => let '(tried, res) := first_ok att r in (i :: tried, res)
        | o => ([i], Some (i, o))
        end
    end.

  (* std::stable_sort by priority *)
  Fixpoint insert_prio (e : Z * hint) (l : list (Z * hint)) : list (Z * hint) :=
    match l with
    | [] => [e]
    | g :: r => if h_prio (snd e) <=? h_prio (snd g) then e :: l else g :: insert_prio e r
    end.
  Definition sort_prio (l : list (Z * hint)) : list (Z * hint) := fold_right insert_prio [] l.

  Record result := mkResult { r_exit : Z; r_file : option (list Z); r_served : Z; r_tried : list Z; r_local_tried : bool }.

  (* mode: 0 default, 1 --direct-only, 2 --transport-only (implies direct-only), 3 --control-fallback; expired: the
     manifest's expiry has passed on the CLI's clock: every transport hint is refused before anything is sent ("Manifest
     expired"), the control paths are still asked *)
  Definition fetch (mode : Z) (expired : bool) (hints : list hint) (local : resp) : result :=
    let idx := combine (map Z.of_nat (seq 0 (length hints))) hints in
    let of_kind k := filter (fun e => h_kind (snd e) =? k) idx in
    let ts := sort_prio (of_kind 0) in
    let cs := sort_prio (of_kind 1) in
    let fs := sort_prio (of_kind 2) in
    let has_t := negb (match ts with [] => true | _ => false end) in
    let has_c := negb (match cs ++ fs with [] => true | _ => false end) in
    let had_hints := if mode =? 2 then has_t else if mode =? 3 then has_c else has_t || has_c in
    let '(tried, direct) :=
      if negb had_hints then ([], None) else
      let '(t1, r1) := if mode =? 3 then ([], None)
                       else first_ok (if expired then (fun _ => Failed) else attempt_transport) ts in
      match r1 with
      | Some _ => (t1, r1)
      | None =>
          if mode =? 2 then (t1, None) else
          let '(t2, r2) := first_ok attempt_control cs in
          match r2 with
          | Some _ => (t1 ++ t2, r2)
          | None => let '(t3, r3) := first_ok attempt_control fs in (t1 ++ t2 ++ t3, r3)
          end
      end in
    match direct with
    | Some (i, Wrote b) => mkResult 0 (Some b) i tried false
    | Some (i, _) => mkResult 0 None i tried false
    | None =>
        if (mode =? 1) || (mode =? 2) then mkResult 1 None (-1) tried false else
        match attempt_control local with
        | Wrote b => mkResult 0 (Some b) 100 tried true
        | OnDaemonHost => mkResult 0 None 100 tried true
        | Failed => mkResult 1 None (-1) tried true
        end
    end.
End Fetch.

(* ---- wire ----
   input: mode  expired(0/1)  P (the stored payload: the manifest's hash is sha256 P)  nh  then per hint: kind prio code [bytes when code = 2]
          (code: 0 unreachable, 1 refusal, 2 payload, 3 ok without payload)  then the local daemon: code [bytes]
   output: exit code; 0 | 1 file-bytes; served (hint index, 100 local, -1 none); per hint: -1 for a transport hint, else the
   number of control requests it received (1 when it was tried and reachable); the same for the local daemon *)
Definition rd_resp (l : list Z) : resp * list Z :=
  let '(code, l) := w_next l in
  if code =? 0 then (Unreach, l) else if code =? 1 then (Refuse, l)
  else if code =? 2 then let '(b, l) := w_bytes l in (Payload b, l) else (NoPayload, l).
Fixpoint rd_hints (n : nat) (l : list Z) : list hint * list Z :=
  match n with
  | O => ([], l)
  | S k => let '(kind, l) := w_next l in let '(prio, l) := w_next l in let '(r, l) := rd_resp l in
           let '(rest, l) := rd_hints k l in (mkHint kind prio r :: rest, l)
  end.
Definition reachable (r : resp) : bool := match r with Unreach => false | _ => true end.

Definition run (input : list Z) : list Z :=
  let '(mode, l) := w_next input in
  let '(ex, l) := w_next l in
  let '(P, l) := w_bytes l in
  let '(nh, l) := w_next l in
  let '(hints, l) := rd_hints (Z.to_nat nh) l in
  let '(local, _) := rd_resp l in
  (* ex: bit 0 = the manifest has expired on the CLI's clock; bit 1 = the manifest's content hash is 32 zero bytes (whoever
     hands out the URI chooses the hash: no payload matches this one, so nothing may be written) *)
  let h := if 2 <=? ex then repeat 0 32 else sha256 P in
  let r := fetch sha256 h mode (Z.odd ex) hints local in
  [r_exit r] ++ (match r_file r with None => [0] | Some b => 1 :: o_bytes b end) ++ [r_served r]
  ++ map (fun e => if h_kind (snd e) =? 0 then -1
                   else if existsb (Z.eqb (fst e)) (r_tried r) && reachable (h_resp (snd e)) then 1 else 0)
         (combine (map Z.of_nat (seq 0 (length hints))) hints)
  ++ [if r_local_tried r && reachable local then 1 else 0].
