(* Executable model of src/protocol/Manifest.cpp: base64, encode_manifest, decode_manifest (v1-v4).
   Definitions only (proofs: proofs/ManifestProofs.v).

   Conventions: the decoder is in checked-read form -- [take]/[take1] are the C++ accesses
   payload[offset] / iterator ranges and yield UB when they would leave the vector; every C++ guard
   "if (...) throw std::invalid_argument" is a [throw_if] transcribed with remaining = size - offset
   (so  offset >= size  is  remaining = 0,  offset + k > size  is  remaining < k,  offset + 1 >= size  is
   remaining < 2).  std::map metadata is a key-sorted association list (byte-lexicographic order);
   the (flag, digest) pair of SecurityAssessment is an option.  Time points are system_clock
   nanoseconds (int64).  (a << 18) | (b << 12) | (c << 6) | d on sextets is written as a sum. *)
Require Import ZArith List Bool.
Import ListNotations.
Local Open Scope Z_scope.
From EphVerif Require Import lib.Bytes lib.Outcome gen.Constants_manifest.

Record shard := { sh_index : Z; sh_value : list Z }.
Record hint := { h_scheme : list Z; h_transport : list Z; h_endpoint : list Z; h_priority : Z }.
Record fallback := { f_uri : list Z; f_priority : Z }.
Record manifest := {
  mf_chunk_id : list Z; mf_hash : list Z; mf_nonce : list Z;
  mf_threshold : Z; mf_total : Z; mf_expires_ns : Z;
  mf_shards : list shard;
  mf_meta : list (list Z * list Z);
  mf_hints : list hint;
  mf_token_bits : Z; mf_advisory : list Z; mf_attest : option (list Z);
  mf_fallbacks : list fallback }.

(* ---------------------------------------------------------------------------------- base64 *)
Definition b64_char (i : Z) : Z := nth (Z.to_nat i) base64_alphabet 0.
Definition pad_char : Z := 61. (* '=' *)

Definition quad (a b c : Z) : list Z :=
  let t := a * 65536 + b * 256 + c in
  [b64_char ((t / 262144) mod 64); b64_char ((t / 4096) mod 64); b64_char ((t / 64) mod 64); b64_char (t mod 64)].

Fixpoint base64_encode (l : list Z) : list Z :=
  match l with
  | a :: b :: c :: rest => quad a b c ++ base64_encode rest
  | [a; b] => let t := a * 65536 + b * 256 in
              [b64_char ((t / 262144) mod 64); b64_char ((t / 4096) mod 64); b64_char ((t / 64) mod 64); pad_char]
  | [a] => let t := a * 65536 in
           [b64_char ((t / 262144) mod 64); b64_char ((t / 4096) mod 64); pad_char; pad_char]
  | [] => []
  end.

Fixpoint index_of (c : Z) (l : list Z) (i : Z) : option Z :=
  match l with
  | [] => None
  | x :: r => if x =? c then Some i else index_of c r (i + 1)
  end.

(* the decode[] table: alphabet position, 0 for '=', -1 otherwise (later writes win: '=' is written last) *)
Definition dec_char (c : Z) : Z :=
  if c =? pad_char then 0 else match index_of c base64_alphabet 0 with Some i => i | None => -1 end.

Fixpoint base64_decode_quads (l : list Z) : res (list Z) :=
  match l with
  | [] => Ok []
  | a :: b :: c :: d :: rest =>
      let va := dec_char a in let vb := dec_char b in let vc := dec_char c in let vd := dec_char d in
      if (va <? 0) || (vb <? 0) || (vc <? 0) || (vd <? 0) then Throw InvalidArgument else
      let t := va * 262144 + vb * 4096 + vc * 64 + vd in
      tl <- base64_decode_quads rest ;;
      Ok ([(t / 65536) mod 256] ++ (if c =? pad_char then [] else [(t / 256) mod 256]) ++
          (if d =? pad_char then [] else [t mod 256]) ++ tl)
  | _ => UB   (* input[i + k] past the end: excluded by the length check *)
  end.

Definition base64_decode (l : list Z) : res (list Z) :=
  if negb (zlen l mod 4 =? 0) then Throw InvalidArgument else base64_decode_quads l.

(* ---------------------------------------------------------------------------------- encoder *)
Definition uri_scheme : list Z := [101; 112; 104; 58; 47; 47]. (* "eph://" *)

Definition be64u (v : Z) : list Z := be64 (v mod 18446744073709551616).

Definition enc_shard (s : shard) : list Z := [sh_index s mod 256] ++ sh_value s.
Definition enc_meta (e : list Z * list Z) : list Z :=
  [zlen (fst e) mod 256] ++ fst e ++ be16 (zlen (snd e) mod 65536) ++ snd e.
Definition eff_scheme (h : hint) : list Z := match h_scheme h with [] => h_transport h | s => s end.
Definition enc_hint (h : hint) : list Z :=
  [zlen (eff_scheme h) mod 256] ++ eff_scheme h ++ [zlen (h_transport h) mod 256] ++ h_transport h ++
  be16 (zlen (h_endpoint h) mod 65536) ++ h_endpoint h ++ [h_priority h mod 256].
Definition enc_fallback (f : fallback) : list Z :=
  be16 (zlen (f_uri f) mod 65536) ++ f_uri f ++ [f_priority f mod 256].

Definition billion : Z := 1000000000.

Definition enc_payload (m : manifest) : list Z :=
  [manifest_version] ++ mf_chunk_id m ++ mf_hash m ++ mf_nonce m ++
  be64u (Z.quot (mf_expires_ns m) billion) ++
  [mf_threshold m mod 256; mf_total m mod 256; zlen (mf_shards m) mod 256] ++
  flat_map enc_shard (mf_shards m) ++
  [zlen (mf_meta m) mod 256] ++ flat_map enc_meta (mf_meta m) ++
  [zlen (mf_hints m) mod 256] ++ flat_map enc_hint (mf_hints m) ++
  [mf_token_bits m mod 256] ++ be16 (zlen (mf_advisory m) mod 65536) ++ mf_advisory m ++
  (match mf_attest m with Some d => [1] ++ d | None => [0] end) ++
  [zlen (mf_fallbacks m) mod 256] ++ flat_map enc_fallback (mf_fallbacks m).

(* the std::length_error checks of encode_manifest, in source order *)
Definition encode_checks (m : manifest) : bool :=
  (zlen (mf_shards m) <=? 255) &&
  (zlen (mf_meta m) <=? 255) &&
  forallb (fun e => (zlen (fst e) <=? 255) && (zlen (snd e) <=? 65535)) (mf_meta m) &&
  (zlen (mf_hints m) <=? 255) &&
  forallb (fun h => (zlen (eff_scheme h) <=? 255) && (zlen (h_transport h) <=? 255) && (zlen (h_endpoint h) <=? 65535)) (mf_hints m) &&
  (zlen (mf_fallbacks m) <=? 255) &&
  forallb (fun f => zlen (f_uri f) <=? 65535) (mf_fallbacks m) &&
  (zlen (mf_advisory m) <=? 65535).

Definition encode_manifest (m : manifest) : res (list Z) :=
  if encode_checks m then Ok (uri_scheme ++ base64_encode (enc_payload m)) else Throw LengthError.

(* ---------------------------------------------------------------------------------- decoder *)
Definition IA := InvalidArgument.

(* std::map<std::string,std::string>::emplace on a key-sorted association list *)
Fixpoint lex_compare (a b : list Z) : comparison :=
  match a, b with
  | [], [] => Eq
  | [], _ :: _ => Lt
  | _ :: _, [] => Gt
  | x :: a', y :: b' => match Z.compare x y with Eq => lex_compare a' b' | c => c end
  end.

Fixpoint emplace (k v : list Z) (m : list (list Z * list Z)) : list (list Z * list Z) :=
  match m with
  | [] => [(k, v)]
  | (k', v') :: t =>
      match lex_compare k k' with
      | Lt => (k, v) :: m
      | Eq => m
      | Gt => (k', v') :: emplace k v t
      end
  end.

Definition p_shard : parser shard :=
  fun l => '(i, r) <- take1 l ;; '(v, r) <- take 32 r ;; Ok ({| sh_index := i; sh_value := v |}, r).

Definition p_meta : parser (list Z * list Z) :=
  fun l =>
    throw_if (zlen l =? 0) IA (
    '(kl, r) <- take1 l ;;
    throw_if (zlen r <? kl) IA (
    '(key, r) <- take kl r ;;
    throw_if (zlen r <? 2) IA (
    '(bl, r) <- take 2 r ;;
    let vl := u16_of bl in
    throw_if (zlen r <? vl) IA (
    '(value, r) <- take vl r ;;
    Ok ((key, value), r))))).

Definition p_hint (with_scheme : bool) : parser hint :=
  fun l =>
    '(scheme, r) <- (if with_scheme then
                       throw_if (zlen l =? 0) IA (
                       '(sl, r) <- take1 l ;;
                       throw_if (zlen r <? sl) IA (take sl r))
                     else Ok ([], l)) ;;
    throw_if (zlen r =? 0) IA (
    '(tl, r) <- take1 r ;;
    throw_if (zlen r <? tl) IA (
    '(transport, r) <- take tl r ;;
    throw_if (zlen r <? 2) IA (
    '(bl, r) <- take 2 r ;;
    let el := u16_of bl in
    throw_if (zlen r <? el) IA (
    '(endpoint, r) <- take el r ;;
    throw_if (zlen r =? 0) IA (
    '(prio, r) <- take1 r ;;
    Ok ({| h_scheme := match scheme with [] => transport | s => s end;
           h_transport := transport; h_endpoint := endpoint; h_priority := prio |}, r)))))).

Definition p_fallback : parser fallback :=
  fun l =>
    throw_if (zlen l <? 2) IA (
    '(bl, r) <- take 2 l ;;
    let ul := u16_of bl in
    throw_if (zlen r <? ul) IA (
    '(uri, r) <- take ul r ;;
    throw_if (zlen r =? 0) IA (
    '(prio, r) <- take1 r ;;
    Ok ({| f_uri := uri; f_priority := prio |}, r)))).

Definition u64_of8 (b : list Z) : Z :=
  rd64 (nth 0 b 0) (nth 1 b 0) (nth 2 b 0) (nth 3 b 0) (nth 4 b 0) (nth 5 b 0) (nth 6 b 0) (nth 7 b 0).

Definition to_int64 (u : Z) : Z := if u <? 9223372036854775808 then u else u - 18446744073709551616.

(* bounds computed by the code from system_clock::duration::{min,max} *)
Definition max_expiry_seconds : Z := Z.quot 9223372036854775807 billion.
Definition min_expiry_seconds : Z := Z.quot (-9223372036854775808) billion.

Definition no_overflow64 (v : Z) : res unit :=
  if (-9223372036854775808 <=? v) && (v <=? 9223372036854775807) then Ok tt else UB.

Definition empty_manifest : manifest :=
  {| mf_chunk_id := repeat 0 32; mf_hash := repeat 0 32; mf_nonce := repeat 0 12;
     mf_threshold := 0; mf_total := 0; mf_expires_ns := 0; mf_shards := []; mf_meta := [];
     mf_hints := []; mf_token_bits := 0; mf_advisory := []; mf_attest := None; mf_fallbacks := [] |}.

Definition dec_payload (payload : list Z) : res manifest :=
  throw_if (zlen payload <? 1 + 32 + 32 + 12 + 8 + 3) IA (
  '(version, r) <- take1 payload ;;
  throw_if (negb ((version =? 1) || (version =? 2) || (version =? 3) || (version =? manifest_version))) IA (
  '(cid, r) <- take 32 r ;;
  '(hash, r) <- take 32 r ;;
  '(nonce, r) <- take 12 r ;;
  '(be, r) <- take 8 r ;;
  let secs := to_int64 (u64_of8 be) in
  throw_if ((max_expiry_seconds <? secs) || (secs <? min_expiry_seconds)) IA (
  _ <- no_overflow64 (secs * billion) ;;   (* time_point{seconds{secs}}: int64 nanoseconds, signed overflow is UB *)
  '(thr, r) <- take1 r ;;
  '(tot, r) <- take1 r ;;
  '(cnt, r) <- take1 r ;;
  throw_if (zlen r <? cnt * 33) IA (
  '(shards, r) <- repeat_p (Z.to_nat cnt) p_shard r ;;
  let m1 := {| mf_chunk_id := cid; mf_hash := hash; mf_nonce := nonce; mf_threshold := thr; mf_total := tot;
               mf_expires_ns := secs * billion; mf_shards := shards; mf_meta := []; mf_hints := [];
               mf_token_bits := 0; mf_advisory := []; mf_attest := None; mf_fallbacks := [] |} in
  if version =? 1 then Ok m1 else
  throw_if (zlen r =? 0) IA (
  '(mc, r) <- take1 r ;;
  '(pairs, r) <- repeat_p (Z.to_nat mc) p_meta r ;;
  let meta := fold_left (fun acc e => emplace (fst e) (snd e) acc) pairs [] in
  let m2 := {| mf_chunk_id := cid; mf_hash := hash; mf_nonce := nonce; mf_threshold := thr; mf_total := tot;
               mf_expires_ns := secs * billion; mf_shards := shards; mf_meta := meta; mf_hints := [];
               mf_token_bits := 0; mf_advisory := []; mf_attest := None; mf_fallbacks := [] |} in
  if version =? 2 then Ok m2 else
  throw_if (zlen r =? 0) IA (
  '(dc, r) <- take1 r ;;
  '(hints, r) <- repeat_p (Z.to_nat dc) (p_hint (4 <=? version)) r ;;
  throw_if (zlen r =? 0) IA (
  '(bits, r) <- take1 r ;;
  throw_if (zlen r <? 2) IA (
  '(bl, r) <- take 2 r ;;
  let al := u16_of bl in
  throw_if (zlen r <? al) IA (
  '(advisory, r) <- take al r ;;
  throw_if (zlen r =? 0) IA (
  '(flag, r) <- take1 r ;;
  '(attest, r) <- (if negb (flag =? 0)
                   then throw_if (zlen r <? 32) IA ('(d, r) <- take 32 r ;; Ok (Some d, r))
                   else Ok (None, r)) ;;
  throw_if (zlen r =? 0) IA (
  '(fc, r) <- take1 r ;;
  '(fbs, r) <- repeat_p (Z.to_nat fc) p_fallback r ;;
  Ok {| mf_chunk_id := cid; mf_hash := hash; mf_nonce := nonce; mf_threshold := thr; mf_total := tot;
        mf_expires_ns := secs * billion; mf_shards := shards; mf_meta := meta; mf_hints := hints;
        mf_token_bits := bits; mf_advisory := advisory; mf_attest := attest; mf_fallbacks := fbs |}))))))))))).

Definition decode_manifest (uri : list Z) : res manifest :=
  if negb (is_prefixb uri_scheme uri) then Throw IA else
  payload <- base64_decode (skipn 6 uri) ;;
  dec_payload payload.

(* ---------------------------------------------------------------------------------- wire *)
Definition ser_manifest (m : manifest) : list Z :=
  mf_chunk_id m ++ mf_hash m ++ mf_nonce m ++ [mf_threshold m; mf_total m] ++
  [Z.div (mf_expires_ns m) billion; Z.modulo (mf_expires_ns m) billion] ++
  [zlen (mf_shards m)] ++ flat_map (fun s => sh_index s :: sh_value s) (mf_shards m) ++
  [zlen (mf_meta m)] ++ flat_map (fun e => o_bytes (fst e) ++ o_bytes (snd e)) (mf_meta m) ++
  [zlen (mf_hints m)] ++ flat_map (fun h => o_bytes (h_scheme h) ++ o_bytes (h_transport h) ++ o_bytes (h_endpoint h) ++ [h_priority h]) (mf_hints m) ++
  [mf_token_bits m] ++ o_bytes (mf_advisory m) ++
  (match mf_attest m with Some d => 1 :: d | None => [0] end) ++
  [zlen (mf_fallbacks m)] ++ flat_map (fun f => o_bytes (f_uri f) ++ [f_priority f]) (mf_fallbacks m).

Definition w_take (n : nat) (l : list Z) : list Z * list Z :=
  (map (fun b => b mod 256) (pad_to n (firstn n l)), skipn n l).

Fixpoint w_list {A} (n : nat) (p : list Z -> A * list Z) (l : list Z) : list A * list Z :=
  match n with
  | O => ([], l)
  | S n' => let '(x, r) := p l in let '(xs, r') := w_list n' p r in (x :: xs, r')
  end.

Definition parse_manifest (l : list Z) : manifest * list Z :=
  let '(cid, l) := w_take 32 l in let '(hash, l) := w_take 32 l in let '(nonce, l) := w_take 12 l in
  let '(thr, l) := w_next l in let '(tot, l) := w_next l in
  let '(ehi, l) := w_next l in let '(elo, l) := w_next l in
  let '(ns, l) := w_next l in
  let '(shards, l) := w_list (Z.to_nat ns) (fun l => let '(i, l) := w_next l in let '(v, l) := w_take 32 l in
                                                       ({| sh_index := i; sh_value := v |}, l)) l in
  let '(nm, l) := w_next l in
  let '(meta, l) := w_list (Z.to_nat nm) (fun l => let '(k, l) := w_bytes l in let '(v, l) := w_bytes l in ((k, v), l)) l in
  let '(nh, l) := w_next l in
  let '(hints, l) := w_list (Z.to_nat nh) (fun l => let '(s, l) := w_bytes l in let '(t, l) := w_bytes l in
                                                      let '(e, l) := w_bytes l in let '(p, l) := w_next l in
                                                      ({| h_scheme := s; h_transport := t; h_endpoint := e; h_priority := p |}, l)) l in
  let '(bits, l) := w_next l in
  let '(adv, l) := w_bytes l in
  let '(has, l) := w_next l in
  let '(att, l) := if has =? 0 then (None, l) else let '(d, l) := w_take 32 l in (Some d, l) in
  let '(nf, l) := w_next l in
  let '(fbs, l) := w_list (Z.to_nat nf) (fun l => let '(u, l) := w_bytes l in let '(p, l) := w_next l in
                                                    ({| f_uri := u; f_priority := p |}, l)) l in
  ({| mf_chunk_id := cid; mf_hash := hash; mf_nonce := nonce; mf_threshold := thr; mf_total := tot;
      mf_expires_ns := ehi * billion + elo; mf_shards := shards; mf_meta := meta; mf_hints := hints;
      mf_token_bits := bits; mf_advisory := adv; mf_attest := att; mf_fallbacks := fbs |}, l).

Definition ser_res (r : res manifest) : list Z :=
  match r with
  | Ok m => 0 :: ser_manifest m
  | Throw e => [-1000; e]
  | UB => [-2000; 1]
  end.

(* modes: 1 = encode a manifest, then decode the produced URI; 2 = decode a URI *)
Definition run (input : list Z) : list Z :=
  let '(mode, l) := w_next input in
  if mode =? 1 then
    let '(m, _) := parse_manifest l in
    match encode_manifest m with
    | Ok uri => 0 :: o_bytes uri ++ ser_res (decode_manifest uri)
    | Throw e => [-1000; e]
    | UB => [-2000; 1]
    end
  else if mode =? 2 then
    let '(uri, _) := w_bytes l in ser_res (decode_manifest uri)
  else [-1].
