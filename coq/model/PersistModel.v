(* Executable model of the persistence side of src/core/ChunkStore.cpp: the constructor (storage directory; since the fix:
   commit, chunk files left behind by an earlier instance are wiped when wipe-on-expiry is on), put (wipe the file of the
   record it replaces, persist_chunk_to_disk), get_record (no effect on files), sweep_expired (wipe the files of the records
   it removes), secure_wipe_file (overwrite, remove).  The storage directory is a map from chunk keys to file contents
   (<hex key>.chunk); whatever else lives in the directory is never touched.  Time in nanoseconds.  Definitions only. *)
Require Import ZArith List Bool.
Import ListNotations.
Local Open Scope Z_scope.
From EphVerif Require Import lib.Bytes gen.Constants_config.

Definition ns : Z := 1000000000.
Record rec := mkRec { r_data : list Z; r_exp : Z; r_persisted : bool }.
Definition dir : Type := list (Z * list Z).          (* chunk key -> bytes of <key>.chunk *)

Fixpoint get {A} (k : Z) (s : list (Z * A)) : option A :=
  match s with [] => None | (k', v) :: r => if k' =? k then Some v else get k r end.
Definition del {A} (k : Z) (s : list (Z * A)) : list (Z * A) := filter (fun e => negb (fst e =? k)) s.
Definition set {A} (k : Z) (v : A) (s : list (Z * A)) : list (Z * A) := (k, v) :: del k s.

Record state := mkState { now : Z; recs : list (Z * rec); files : dir; dflt : Z; wipe_on_expiry : bool }.

Definition live (t : Z) (r : rec) : bool := t <? r_exp r.

(* secure_wipe_file: the file is gone afterwards *)
Definition wipe (k : Z) (d : dir) : dir := del k d.

(* ChunkStore::put with persistence enabled *)
Definition put (st : state) (k : Z) (data : list Z) (ttl : Z) : state :=
  let effective := if 0 <? ttl then ttl else dflt st in
  let sanitized := Z.max effective store_minimum_ttl in
  (* the record being replaced gives up its file; persist_chunk_to_disk wipes whatever file is in the way, then writes *)
  let d1 := match get k (recs st) with Some r => if r_persisted r then wipe k (files st) else files st | None => files st end in
  let d2 := set k data (wipe k d1) in
  mkState (now st) (set k (mkRec data (now st + sanitized * ns) true) (recs st)) d2 (dflt st) (wipe_on_expiry st).

Definition get_record (st : state) (k : Z) : option (list Z) :=
  match get k (recs st) with Some r => if live (now st) r then Some (r_data r) else None | None => None end.

(* sweep_expired: expired records go; their files are wiped when wipe-on-expiry is on *)
Definition sweep (st : state) : state :=
  let expired := filter (fun e => negb (live (now st) (snd e))) (recs st) in
  let d := if wipe_on_expiry st
           then fold_left (fun d e => if r_persisted (snd e) then wipe (fst e) d else d) expired (files st)
           else files st in
  mkState (now st) (filter (fun e => live (now st) (snd e)) (recs st)) d (dflt st) (wipe_on_expiry st).

(* a new instance on the same directory.  left = what the directory holds at that moment beyond the files the old instance
   knew were there: anything a crash in the middle of a store or a wipe can leave (any content under any chunk key) *)
Definition restart (st : state) (leftover : dir) : state :=
  let d := fold_left (fun d e => set (fst e) (snd e) d) leftover (files st) in
  mkState (now st) [] (if wipe_on_expiry st then [] else d) (dflt st) (wipe_on_expiry st).

Inductive op := Put (k : Z) (data : list Z) (ttl : Z) | Get (k : Z) | Sweep | Advance (ms : Z) | Restart (leftover : dir).

Definition step (st : state) (o : op) : state :=
  match o with
  | Put k d t => put st k d t
  | Get _ => st
  | Sweep => sweep st
  | Advance ms => mkState (now st + (if ms <? 0 then 0 else ms) * 1000000) (recs st) (files st) (dflt st) (wipe_on_expiry st)
  | Restart leftover => restart st leftover
  end.
Definition run_ops (st : state) (ops : list op) : state := fold_left step ops st.

(* ---- wire ----
   input: wipe_on_expiry default_ttl  then ops: 0 k ttl data | 1 k | 2 | 3 ms | 4 n (k data)*n
   output per op: [get result for 1: -1 none / else bytes] then the directory: count, sorted by key: key bytes *)
Fixpoint insert_file (f : Z * list Z) (l : dir) : dir :=
  match l with [] => [f] | g :: r => if fst f <=? fst g then f :: l else g :: insert_file f r end.
Definition sort_dir (d : dir) : dir := fold_right insert_file [] d.
Definition o_dir (d : dir) : list Z := zlen d :: flat_map (fun f => fst f :: o_bytes (snd f)) (sort_dir d).

Fixpoint rd_left (n : nat) (l : list Z) : dir * list Z :=
  match n with O => ([], l) | S k => let '(key, l) := w_next l in let '(b, l) := w_bytes l in let '(r, l) := rd_left k l in ((key, b) :: r, l) end.

Fixpoint run_wire (fuel : nat) (st : state) (l : list Z) : list Z :=
  match fuel with
  | O => []
  | S f =>
      match l with
      | [] => []
      | _ =>
          let '(code, l) := w_next l in
          if code =? 0 then
            let '(k, l) := w_next l in let '(ttl, l) := w_next l in let '(data, l) := w_bytes l in
            let st' := put st k data ttl in o_dir (files st') ++ run_wire f st' l
          else if code =? 1 then
            let '(k, l) := w_next l in
            (match get_record st k with Some b => 1 :: o_bytes b | None => [0] end) ++ o_dir (files st) ++ run_wire f st l
          else if code =? 2 then let st' := sweep st in o_dir (files st') ++ run_wire f st' l
          else if code =? 3 then
            let '(ms, l) := w_next l in let st' := step st (Advance ms) in o_dir (files st') ++ run_wire f st' l
          else if code =? 5 then
            (* crash enumeration of the next operation: whatever the dying process left, a new instance leaves nothing
               (Properties_C04.c04_restart_leaves_nothing): worst directory size seen = 0; then the operation itself *)
            let '(tc, l) := w_next l in
            if tc =? 0 then
              let '(k, l) := w_next l in let '(ttl, l) := w_next l in let '(data, l) := w_bytes l in
              let st' := put st k data ttl in [0; 1] ++ o_dir (files st') ++ run_wire f st' l
            else let st' := sweep st in [0; 1] ++ o_dir (files st') ++ run_wire f st' l
          else
            let '(n, l) := w_next l in let '(lo, l) := rd_left (Z.to_nat n) l in
            let st' := restart st lo in o_dir (files st') ++ run_wire f st' l
      end
  end.

Definition run (input : list Z) : list Z :=
  let '(w, l) := w_next input in let '(d, l) := w_next l in
  run_wire (length l) (mkState 1000000000000 [] [] d (negb (w =? 0))) l ++ [1].   (* the bystander files are never touched *)
