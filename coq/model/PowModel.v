(* Executable model of the four proof-of-work surfaces and of every leading-zero counter in the code.
   Definitions only -- proofs are in proofs/PowProofs.v.
     src/core/Node.cpp      to_big_endian_bytes, update_length_prefixed, announce_pow_digest, count_leading_zero_bits,
                            announce_pow_valid, derive_pow_seed, compute_announce_pow, handshake_pow_digest,
                            handshake_pow_valid, derive_handshake_seed, compute_handshake_pow
     src/main.cpp           count_leading_zero_bits, transport_handshake_digest, transport_pow_valid, compute_transport_pow
     src/security/StoreProof.cpp   update_length_prefixed (32-bit prefix), pow_digest, count_leading_zero_bits,
                            store_pow_valid (cap at kMaxStorePowDifficulty), compute_store_pow
     src/bootstrap/TokenChallenge.cpp  digest_meets_difficulty, solve_token_challenge
   Hashing goes through the streaming Sha256 model (model/Sha256Model.v) with exactly the update calls the C++ makes.
   std::mt19937_64 is not modelled: the solvers take the generator's outputs as inputs (start / candidate list). *)
Require Import ZArith List Bool.
Import ListNotations.
Local Open Scope Z_scope.
From EphVerif Require Import lib.Bytes model.Sha256Model gen.Constants_pow.

Definition two64 : Z := 18446744073709551616.

Definition hash_updates (chunks : list (list Z)) : list Z := finalize (fold_left update chunks sha_init).

(* Node.cpp / main.cpp update_length_prefixed: 8-byte big-endian size, then the bytes *)
Definition lp64 (d : list Z) : list (list Z) := [be64 (zlen d); d].
(* StoreProof.cpp update_length_prefixed: 4-byte big-endian min(size, 2^32-1), then the bytes *)
Definition lp32 (d : list Z) : list (list Z) := [be32 (Z.min (zlen d) 4294967295); d].

(* ---- leading-zero counters ---- *)
(* for (bit = nbits-1; bit >= 0; --bit) { if ((byte >> bit) & 1) stop; ++count; } *)
Fixpoint lead_loop (nbits : nat) (byte : Z) : Z :=
  match nbits with
  | O => 0
  | S k => if Z.odd (Z.shiftr byte (Z.of_nat k)) then 0 else 1 + lead_loop k byte
  end.
Definition clz8 (b : Z) : Z := lead_loop 8 b.

(* Node.cpp: running total, returns from inside the bit loop *)
Fixpoint clz_node_from (total : Z) (dg : list Z) : Z :=
  match dg with
  | [] => total
  | b :: r => if b =? 0 then clz_node_from (total + 8) r else total + clz8 b
  end.
Definition clz_node (dg : list Z) : Z := clz_node_from 0 dg.

(* main.cpp: textually the same loop over a span *)
Definition clz_cli (dg : list Z) : Z := clz_node_from 0 dg.

(* StoreProof.cpp: `leading` counted separately, total += leading; break *)
Fixpoint clz_store_from (total : Z) (dg : list Z) : Z :=
  match dg with
  | [] => total
  | b :: r => if b =? 0 then clz_store_from (total + 8) r
              else let leading := lead_loop 8 b in total + leading
  end.
Definition clz_store (dg : list Z) : Z := clz_store_from 0 dg.

(* TokenChallenge.cpp digest_meets_difficulty (index based) *)
Definition meets_difficulty (dg : list Z) (d : Z) : bool :=
  if d =? 0 then true else
  let full := d / 8 in
  let rem := d mod 8 in
  if zlen dg <? full then false else
  if negb (forallb (fun b => b =? 0) (firstn (Z.to_nat full) dg)) then false else
  if rem =? 0 then true else
  if zlen dg <=? full then false else
  let mask := (255 * 2 ^ (8 - rem)) mod 256 in
  Z.land (nth (Z.to_nat full) dg 0) mask =? 0.

(* ---- handshake (node and CLI) ---- *)
Definition handshake_chunks (i r : list Z) (pub nonce : Z) : list (list Z) :=
  lp64 i ++ lp64 r ++ [be64 pub; be64 nonce].
Definition handshake_pow_digest i r pub nonce : list Z := hash_updates (handshake_chunks i r pub nonce).
Definition handshake_pow_valid i r pub nonce d : bool :=
  if d =? 0 then true else d <=? clz_node (handshake_pow_digest i r pub nonce).
Definition transport_pow_valid i r pub nonce d : bool :=
  if d =? 0 then true else d <=? clz_cli (handshake_pow_digest i r pub nonce).

Definition seed_be (dg : list Z) : Z :=
  fold_left (fun s b => (s * 256 + b) mod two64) (firstn 8 dg) 0.
Definition derive_handshake_seed i r pub : Z := seed_be (handshake_pow_digest i r pub 0).

(* candidate = start + attempt (uint64 wrap), attempt = 0 .. fuel-1 *)
Fixpoint first_from (fuel : nat) (valid : Z -> bool) (start attempt : Z) : option Z :=
  match fuel with
  | O => None
  | S f => let c := (start + attempt) mod two64 in
           if valid c then Some c else first_from f valid start (attempt + 1)
  end.

Definition compute_handshake_pow (fuel : nat) i r pub d start : option Z :=
  if d =? 0 then Some 0 else first_from fuel (fun c => handshake_pow_valid i r pub c d) start 0.
Definition compute_transport_pow (fuel : nat) i r pub d start : option Z :=
  if d =? 0 then Some 0 else first_from fuel (fun c => transport_pow_valid i r pub c d) start 0.

(* ---- announce ---- *)
Record announce := { a_chunk : list Z; a_peer : list Z; a_endpoint : list Z; a_uri : list Z;
                     a_shards : list Z; a_ttl : Z (* as uint64 *) }.
Definition announce_chunks (a : announce) (nonce : Z) : list (list Z) :=
  lp64 (a_chunk a) ++ lp64 (a_peer a) ++ lp64 (a_endpoint a) ++ lp64 (a_uri a) ++ lp64 (a_shards a)
  ++ [be64 (a_ttl a); be64 nonce].
Definition announce_pow_digest a nonce := hash_updates (announce_chunks a nonce).
Definition announce_pow_valid a nonce d : bool :=
  if d =? 0 then true else d <=? clz_node (announce_pow_digest a nonce).
Definition derive_pow_seed a : Z := seed_be (announce_pow_digest a 0).
Definition compute_announce_pow (fuel : nat) a d start : option Z :=
  if d =? 0 then Some 0 else first_from fuel (fun c => announce_pow_valid a c d) start 0.

(* ---- store ---- *)
Definition store_chunks (cid : list Z) (size : Z) (fname : list Z) (nonce : Z) : list (list Z) :=
  [cid; be64 size] ++ lp32 fname ++ [be64 nonce].
Definition store_pow_digest cid size fname nonce := hash_updates (store_chunks cid size fname nonce).
Definition store_cap (d : Z) : Z := if max_store_pow_difficulty <? d then max_store_pow_difficulty else d.
Definition store_pow_valid cid size fname nonce d : bool :=
  if d =? 0 then true else store_cap d <=? clz_store (store_pow_digest cid size fname nonce).
(* memcpy of the first 8 digest bytes into a uint64 on a little-endian machine *)
Definition seed_le (dg : list Z) : Z :=
  fold_right (fun b s => (s * 256 + b) mod two64) 0 (firstn 8 dg).
Definition store_seed cid size fname : Z := seed_le (store_pow_digest cid size fname 0).
(* candidates = successive outputs of the generator, at most max_attempts of them *)
Definition compute_store_pow cid size fname d (max_attempts : Z) (cands : list Z) : option Z :=
  if d =? 0 then Some 0 else
  let m := if max_attempts =? 0 then default_store_pow_attempts else max_attempts in
  find (fun c => store_pow_valid cid size fname c d) (firstn (Z.to_nat m) cands).

(* ---- bootstrap token ---- *)
Definition token_material (cid chash ep : list Z) (nonce : Z) : list Z := cid ++ chash ++ ep ++ be64 nonce.
Definition token_digest cid chash ep nonce := sha256 (token_material cid chash ep nonce).
Definition token_valid cid chash ep nonce d : bool := meets_difficulty (token_digest cid chash ep nonce) d.
Fixpoint token_search (fuel : nat) (valid : Z -> bool) (attempt : Z) : option Z :=
  match fuel with
  | O => None
  | S f => if valid attempt then Some attempt else token_search f valid (attempt + 1)
  end.
Definition solve_token_challenge cid chash ep d (max_attempts : Z) : option Z :=
  if d =? 0 then Some 0 else
  match ep with [] => None | _ =>
    if max_attempts =? 0 then None
    else token_search (Z.to_nat max_attempts) (fun n => token_valid cid chash ep n d) 0
  end.
