(* Executable model of src/network/KeyExchange.cpp (modexp with its uint64_t products, compute_public,
   validate_public, derive_shared_secret), Node.cpp's make_handshake_material and the session-key derivation of
   KeyManager::register_session_with_material (HMAC-SHA256(shared secret, material)) as perform_handshake uses it.
   kPrime / kGenerator are regenerated from the header on every run.  Definitions only. *)
Require Import ZArith List Bool.
Import ListNotations.
Local Open Scope Z_scope.
From EphVerif Require Import lib.Bytes model.Sha256Model gen.Constants_keyexchange.

Definition two64 : Z := 18446744073709551616.
Definition two32 : Z := 4294967296.

(* while (exponent > 0) { if (exponent & 1) result = (result * base) % modulus; base = (base * base) % modulus; exponent >>= 1; }
   result and base are uint64_t: the products are taken mod 2^64 before the % *)
Fixpoint modexp_loop (fuel : nat) (result base e m : Z) : Z :=
  match fuel with
  | O => result
  | S f =>
      if e <=? 0 then result else
      let result' := if Z.odd e then ((result * base) mod two64) mod m else result in
      let base' := ((base * base) mod two64) mod m in
      modexp_loop f result' base' (e / 2) m
  end.

(* base: uint64_t, exponent and modulus: uint32_t; modulus = 0 would be a division by zero (never called that way) *)
Definition modexp (base e m : Z) : Z :=
  ((modexp_loop 32 (1 mod m) (base mod m) e m) mod m) mod two32.

Definition compute_public (priv : Z) : Z := modexp kx_generator priv kx_prime.
Definition validate_public (c : Z) : bool := (1 <? c) && (c <? kx_prime).

Definition derive_shared_secret (priv remote_public : Z) : list Z :=
  let valid_public := remote_public mod kx_prime in
  let shared_scalar := modexp valid_public priv kx_prime in
  sha256 (be32 shared_scalar).

(* std::sort of the two publics, each as 4 big-endian bytes *)
Definition make_handshake_material (local_public remote_public : Z) : list Z :=
  be32 (Z.min local_public remote_public) ++ be32 (Z.max local_public remote_public).

(* what a node with scalar priv (and public my_public) holds for a peer that offered remote_public *)
Definition session_key (priv my_public remote_public : Z) : list Z :=
  hmac (derive_shared_secret priv remote_public) (make_handshake_material my_public remote_public).

(* KeyManager::register_session_with_material: contexts_[peer] = context -- the newest registration replaces the old one *)
Definition keymap : Type := list (Z * list Z).
Definition km_register (m : keymap) (peer : Z) (key : list Z) : keymap :=
  (peer, key) :: filter (fun e => negb (fst e =? peer)) m.
Fixpoint km_current (m : keymap) (peer : Z) : option (list Z) :=
  match m with [] => None | (p, k) :: r => if p =? peer then Some k else km_current r peer end.

(* a node with scalar priv accepts a sequence of handshakes (peer, offered public) *)
Definition accept_all (priv : Z) (hs : list (Z * Z)) : keymap :=
  fold_left (fun m h => km_register m (fst h) (session_key priv (compute_public priv) (snd h))) hs [].

(* ---- wire ---- *)
Definition run (input : list Z) : list Z :=
  let '(mode, l) := w_next input in
  if mode =? 1 then
    let '(b, l) := w_u64 l in let '(e, l) := w_next l in let '(m, _) := w_next l in
    [modexp b e m]
  else if mode =? 2 then
    let '(a, l) := w_next l in let '(b, _) := w_next l in
    let pa := compute_public a in let pb := compute_public b in
    [pa; pb; o_bool (validate_public pa); o_bool (validate_public pb)] ++ session_key a pa pb ++ session_key b pb pa
  else if mode =? 3 then
    (* two real nodes; the scalars are what the nodes drew from their seeded generators (computed by the checker) *)
    let '(a, l) := w_next l in let '(b, _) := w_next l in
    let pa := compute_public a in let pb := compute_public b in
    [a; b; pa; pb; 1; 1] ++ session_key a pa pb ++ session_key b pb pa
  else if mode =? 4 then
    let '(c, _) := w_next l in [o_bool (validate_public c)]
  else if mode =? 5 then
    let '(a, l) := w_next l in let '(rp, l) := w_next l in let '(mp, _) := w_next l in
    derive_shared_secret a rp ++ make_handshake_material mp rp
  else if mode =? 6 then
    (* node A (scalar a) accepts peer 1 with scalar b, then -- after the cool-down -- the same peer id with scalar b2 *)
    let '(a, l) := w_next l in let '(b, l) := w_next l in let '(b2, _) := w_next l in
    let pa := compute_public a in
    let m := accept_all a [(1, compute_public b); (1, compute_public b2)] in
    [a; b; b2] ++ (match km_current m 1 with Some k => k | None => [-7] end) ++ session_key b2 (compute_public b2) pa
  else [-1].
