(* Executable model of the lifetime arithmetic of src/core/Node.cpp and src/core/ChunkStore.cpp:
     sanitize_key_rotation_interval, sanitize_manifest_min/max, sanitize_announce_interval/window, sanitize_config,
     clamp_chunk_ttl, the four TTL uses of Node::store_chunk (chunk record via ChunkStore::put, manifest expiry,
     publish_shards, announce_chunk) and the STORE TTL gate of the control server (parse_uint64 = std::from_chars on
     uint64_t, conversion to std::chrono::seconds = int64_t, range test).
   Durations are Z seconds (std::chrono::seconds has an int64_t count; no arithmetic here can overflow: only
   comparisons and assignments).  All bounds are regenerated from the source (gen/Constants_config.v).  Definitions only. *)
Require Import ZArith List Bool.
Import ListNotations.
Local Open Scope Z_scope.
From EphVerif Require Import lib.Bytes gen.Constants_config.

Record cfg := { min_ttl : Z; max_ttl : Z; default_ttl : Z; rotation : Z; ann_interval : Z; burst_limit : Z;
                burst_window : Z; pow_a : Z; pow_h : Z; pow_s : Z }.

Definition sanitize_key_rotation_interval (i : Z) : Z :=
  let i := if i <=? 0 then min_key_rotation else i in
  let i := if i <? min_key_rotation then min_key_rotation else i in
  if max_key_rotation <? i then max_key_rotation else i.

Definition sanitize_manifest_min (v : Z) : Z :=
  if v <? min_allowed_ttl then min_allowed_ttl else if max_allowed_ttl <? v then max_allowed_ttl else v.

Definition sanitize_manifest_max (v mn : Z) : Z :=
  let v := if v <? mn then mn else v in
  let v := if v <? min_allowed_ttl then min_allowed_ttl else v in
  if max_allowed_ttl <? v then max_allowed_ttl else v.

Definition sanitize_announce_interval (v : Z) : Z :=
  if v <=? 0 then min_announce_interval else if v <? min_announce_interval then min_announce_interval else v.

Definition sanitize_announce_window (v : Z) : Z :=
  if v <=? 0 then min_announce_interval else if max_announce_window <? v then max_announce_window else v.

Definition sanitize_config (c : cfg) : cfg :=
  let rot := sanitize_key_rotation_interval (rotation c) in
  let mn := sanitize_manifest_min (min_ttl c) in
  let mx := sanitize_manifest_max (max_ttl c) mn in
  let d := if default_ttl c <? mn then mn else default_ttl c in
  let d := if mx <? d then mx else d in
  let ai := sanitize_announce_interval (ann_interval c) in
  let bl := if burst_limit c =? 0 then 1 else burst_limit c in
  let bw := sanitize_announce_window (burst_window c) in
  let bw := if bw <? ai then ai else bw in
  {| min_ttl := mn; max_ttl := mx; default_ttl := d; rotation := rot; ann_interval := ai; burst_limit := bl;
     burst_window := bw;
     pow_a := if max_announce_pow <? pow_a c then max_announce_pow else pow_a c;
     pow_h := if max_handshake_pow <? pow_h c then max_handshake_pow else pow_h c;
     pow_s := if max_store_pow <? pow_s c then max_store_pow else pow_s c |}.

Definition clamp_chunk_ttl (ttl mn mx : Z) : Z :=
  let t := if ttl <? mn then mn else ttl in
  let t := if mx <? t then mx else t in
  if t <=? 0 then min_allowed_ttl else t.

Record lifetimes := { l_chunk : Z; l_manifest : Z; l_shards : Z; l_announce : Z }.

(* Node::store_chunk on a node whose configuration is c (already sanitised by the constructor) *)
Definition store_lifetimes (c : cfg) (ttl : Z) : lifetimes :=
  let effective := if 0 <? ttl then ttl else default_ttl c in
  let sanitized := clamp_chunk_ttl effective (min_ttl c) (max_ttl c) in
  (* ChunkStore::put(id, data, sanitized, ...) *)
  let eff2 := if 0 <? sanitized then sanitized else default_ttl c in
  let chunk := Z.max eff2 store_minimum_ttl in
  {| l_chunk := chunk; l_manifest := sanitized; l_shards := sanitized; l_announce := sanitized |}.

(* ---- control plane: STORE TTL header ---- *)
Definition two64 : Z := 18446744073709551616.
Definition two63 : Z := 9223372036854775808.
Definition is_digit (c : Z) : bool := (48 <=? c) && (c <=? 57).

(* std::from_chars(first, last, uint64_t&): digits only, at least one, the whole text, no overflow *)
Fixpoint digits_value (acc : Z) (l : list Z) : option Z :=
  match l with
  | [] => Some acc
  | c :: r => if is_digit c then
                let acc' := acc * 10 + (c - 48) in
                if two64 <=? acc' then None else digits_value acc' r
              else None
  end.
Definition parse_uint64 (text : list Z) : option Z :=
  match text with [] => None | _ => digits_value 0 text end.

(* std::chrono::seconds(uint64_t) : the count is int64_t *)
Definition to_int64 (v : Z) : Z := if two63 <=? v then v - two64 else v.

Inductive gate := GateOk (ttl : Z) | GateInvalid | GateOutOfRange.

Definition store_ttl_gate (c : cfg) (hdr : option (list Z)) : gate :=
  match hdr with
  | None => if (default_ttl c <? min_ttl c) || (max_ttl c <? default_ttl c) then GateOutOfRange else GateOk (default_ttl c)
  | Some text =>
      match parse_uint64 text with
      | None => GateInvalid
      | Some v => let t := to_int64 v in
                  if (t <? min_ttl c) || (max_ttl c <? t) then GateOutOfRange else GateOk t
      end
  end.

(* ---- wire ---- *)
Definition read_cfg (l : list Z) : cfg * list Z :=
  let '(a, l) := w_next l in let '(b, l) := w_next l in let '(c, l) := w_next l in let '(d, l) := w_next l in
  let '(e, l) := w_next l in let '(f, l) := w_next l in let '(g, l) := w_next l in let '(h, l) := w_next l in
  let '(i, l) := w_next l in let '(j, l) := w_next l in
  ({| min_ttl := a; max_ttl := b; default_ttl := c; rotation := d; ann_interval := e; burst_limit := f;
      burst_window := g; pow_a := h; pow_h := i; pow_s := j |}, l).

Definition o_cfg (c : cfg) : list Z :=
  [min_ttl c; max_ttl c; default_ttl c; rotation c; ann_interval c; burst_limit c; burst_window c; pow_a c; pow_h c; pow_s c].

Definition run (input : list Z) : list Z :=
  let '(mode, l) := w_next input in
  let '(c, l) := read_cfg l in
  let s := sanitize_config c in
  if mode =? 1 then o_cfg s
  else if mode =? 2 then
    let '(ttl, _) := w_next l in
    let lt := store_lifetimes s ttl in [min_ttl s; max_ttl s; l_chunk lt; l_manifest lt; l_shards lt; l_announce lt]
  else if mode =? 4 then
    (* the same chunk stored a second time, dt_ms later: ChunkStore::put replaces the record (insert_or_assign) and every
       other deadline is rewritten, so the lifetimes are those of a first store -- the earlier store leaves no trace *)
    let '(_, l) := w_next l in
    let '(_, l) := w_next l in
    let '(ttl, _) := w_next l in
    let lt := store_lifetimes s ttl in [min_ttl s; max_ttl s; l_chunk lt; l_manifest lt; l_shards lt; l_announce lt]
  else if mode =? 3 then
    let '(has, l) := w_next l in
    let '(text, _) := w_bytes l in
    match store_ttl_gate s (if has =? 0 then None else Some text) with
    | GateOk t => let lt := store_lifetimes s t in [min_ttl s; max_ttl s; 1; t; l_chunk lt]
    | GateInvalid => [min_ttl s; max_ttl s; 2]
    | GateOutOfRange => [min_ttl s; max_ttl s; 3]
    end
  else [-1].
