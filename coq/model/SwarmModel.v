(* Executable model of SwarmCoordinator::compute_plan / candidate_peers (src/core/SwarmCoordinator.cpp).
   The floating-point scoring, the mt19937 jitter and std::sort are NOT modelled: the ranked candidate list is an
   input (any order).  Everything the property talks about -- how many providers, which shard goes to which slot --
   is decided after the ranking and is modelled exactly: the provider-count arithmetic and the
   `shard_index % provider_count` loop.  Definitions only (proofs: proofs/SwarmProofs.v). *)
Require Import ZArith List Bool.
Import ListNotations.
Local Open Scope Z_scope.
From EphVerif Require Import lib.Bytes.

(* number of candidates the coordinator asks the table for: max(swarm_candidate_sample, 1) *)
Definition sample_limit (sample : Z) : Z := Z.max sample 1.

Definition provider_count (ncand nshards min_config target_config threshold : Z) : Z :=
  let min_providers := Z.max min_config threshold in
  let clamped_min := Z.min min_providers (Z.min ncand nshards) in
  let desired_target := Z.max target_config clamped_min in
  Z.min ncand (Z.min desired_target nshards).

(* plan.assignments[recipient].shard_indices.push_back(label) *)
Fixpoint push_at (k : nat) (x : Z) (slots : list (list Z)) : list (list Z) :=
  match slots, k with
  | [], _ => []
  | s :: r, O => (s ++ [x]) :: r
  | s :: r, S k' => s :: push_at k' x r
  end.

(* for (shard_index = 0; shard_index < total; ++shard_index) recipient = shard_index % provider_count *)
Fixpoint assign_loop (p : nat) (labels : list Z) (index : nat) (slots : list (list Z)) : list (list Z) :=
  match labels with
  | [] => slots
  | x :: r => assign_loop p r (S index) (push_at (Nat.modulo index p) x slots)
  end.

(* candidates: ranked candidate tokens; returns (peer, shard labels) per assignment *)
Definition compute_plan (labels : list Z) (threshold : Z) (ranked : list Z) (min_config target_config : Z)
  : list (Z * list Z) :=
  match labels with
  | [] => []
  | _ =>
    match ranked with
    | [] => []
    | _ =>
      let pc := provider_count (zlen ranked) (zlen labels) min_config target_config threshold in
      if pc =? 0 then [] else
      let p := Z.to_nat pc in
      combine (firstn p ranked) (assign_loop p labels 0 (repeat [] p))
    end
  end.

(* ---- wire: ncand, labels, threshold, min, target.  Candidate tokens are 0..ncand-1 in ranked order; only the count
   and the per-slot shard lists are compared with the implementation (who ranks where is not modelled). *)
Definition run (input : list Z) : list Z :=
  let '(ncand, l) := w_next input in
  let '(labels, l) := w_bytes l in
  let '(thr, l) := w_next l in let '(mn, l) := w_next l in let '(tg, _) := w_next l in
  let plan := compute_plan labels thr (map Z.of_nat (seq 0 (Z.to_nat ncand))) mn tg in
  zlen plan :: flat_map (fun a => o_bytes (snd a)) plan.
