(* Lock discipline of Node's fields (C36).  A row of the access table says: some thread of a role (0 = a session thread: it
   runs the callbacks the node registers with its session manager, and enters the node holding nothing; 1 = the control /
   tick thread: it enters the node holding node_mutex) reads or writes a field at a line of Node.cpp, with scheduler_mutex_
   held there or not.  The table itself is regenerated from the clang AST of the current sources on every run
   (gen/Constants_locktable.v).  This file defines when a field is unprotected, and the execution model the theorem is about:
   any number of threads, each running any sequence of the table's accesses of its role, interleaved in any way, with the two
   locks excluding each other's holders.  Definitions only. *)
Require Import ZArith List Bool.
Import ListNotations.
Local Open Scope Z_scope.
From EphVerif Require Import lib.Bytes.

Definition row := (Z * Z * Z * Z * Z)%type.
Definition r_field (r : row) : Z := let '(f, _, _, _, _) := r in f.
Definition r_write (r : row) : bool := let '(_, w, _, _, _) := r in negb (w =? 0).
Definition r_role (r : row) : Z := let '(_, _, ro, _, _) := r in ro.
Definition r_line (r : row) : Z := let '(_, _, _, l, _) := r in l.
Definition r_sched (r : row) : bool := let '(_, _, _, _, s) := r in negb (s =? 0).

Definition conflict (a b : row) : bool := (r_field a =? r_field b) && (r_write a || r_write b).
(* two accesses of which one is a session thread's: safe only if both hold scheduler_mutex_ *)
Definition unprotected (a b : row) : bool := conflict a b && negb (r_sched a && r_sched b).

Definition memz (x : Z) (l : list Z) : bool := existsb (Z.eqb x) l.

(* a field is racy when a session thread's access and any access (another session thread's -- possibly the same line --, or
   the control thread's) conflict without both holding scheduler_mutex_; fields whose own type synchronises are left out *)
Definition racy_field (t : list row) (sync : list Z) (x : Z) : bool :=
  negb (memz x sync) &&
  existsb (fun a => (r_role a =? 0) && (r_field a =? x) && existsb (fun b => unprotected a b) t) t.
Definition racy_fields (t : list row) (sync : list Z) (n : Z) : list Z :=
  filter (racy_field t sync) (map Z.of_nat (seq 0 (Z.to_nat n))).

(* ---- executions ---- *)
(* a thread works through its accesses one by one; for each: (0) take node_mutex if it is the control thread, (1) take
   scheduler_mutex_ if the access is made under it, (2) access, (3) give scheduler_mutex_ back, (4) give node_mutex back *)
Record thread := mkThread { todo : list row; pc : Z }.
Record config := mkConfig { thr : nat -> thread; node_owner : option nat; sched_owner : option nat }.

Definition cur (th : thread) : option row := match todo th with [] => None | r :: _ => Some r end.
Definition upd (f : nat -> thread) (i : nat) (th : thread) : nat -> thread := fun j => if Nat.eqb j i then th else f j.

(* one step of thread i; None = thread i cannot move now (it waits for a lock, or has nothing left) *)
Definition step (c : config) (i : nat) : option config :=
  let th := thr c i in
  match todo th with
  | [] => None
  | r :: rest =>
      if pc th =? 0 then
        if r_role r =? 1 then
          match node_owner c with
          | None => Some (mkConfig (upd (thr c) i (mkThread (todo th) 1)) (Some i) (sched_owner c))
          | Some _ => None
          end
        else Some (mkConfig (upd (thr c) i (mkThread (todo th) 1)) (node_owner c) (sched_owner c))
      else if pc th =? 1 then
        if r_sched r then
          match sched_owner c with
          | None => Some (mkConfig (upd (thr c) i (mkThread (todo th) 2)) (node_owner c) (Some i))
          | Some _ => None
          end
        else Some (mkConfig (upd (thr c) i (mkThread (todo th) 2)) (node_owner c) (sched_owner c))
      else if pc th =? 2 then Some (mkConfig (upd (thr c) i (mkThread (todo th) 3)) (node_owner c) (sched_owner c))
      else if pc th =? 3 then
        Some (mkConfig (upd (thr c) i (mkThread (todo th) 4)) (node_owner c) (if r_sched r then None else sched_owner c))
      else Some (mkConfig (upd (thr c) i (mkThread rest 0)) (if r_role r =? 1 then None else node_owner c) (sched_owner c))
  end.

(* a schedule: which thread moves next; moves of a thread that cannot move are skipped *)
Definition exec (c : config) (schedule : list nat) : config :=
  fold_left (fun c i => match step c i with Some c' => c' | None => c end) schedule c.

Definition start (programs : nat -> list row) : config := mkConfig (fun i => mkThread (programs i) 0) None None.

(* the two threads are both about to make their access *)
Definition at_access (c : config) (i : nat) (r : row) : Prop := cur (thr c i) = Some r /\ pc (thr c i) = 2.

(* ---- wire (the decision procedure on a table given as integers) ----
   input: n-fields  nsync sync...  then rows of five;  output: the racy fields *)
Fixpoint rd_rows (fuel : nat) (l : list Z) : list row :=
  match fuel with
  | O => []
  | S f => match l with
           | a :: b :: c :: d :: e :: rest => (a, b, c, d, e) :: rd_rows f rest
           | _ => []
           end
  end.
Definition run (input : list Z) : list Z :=
  let '(n, l) := w_next input in
  let '(ns, l) := w_next l in
  let sync := firstn (Z.to_nat ns) l in
  let l := skipn (Z.to_nat ns) l in
  racy_fields (rd_rows (length l) l) sync n.
