(* Executable model of the provider side of src/dht/KademliaTable.cpp: add_contact (locator part),
   find_providers, withdraw_contact, sweep_expired (locator part), under a virtual steady clock in whole seconds.
   table_ is an association list chunk -> (holders, locator.expires_at); a holder is (peer, expires_at).
   std::sort by expiry (descending) is an insertion sort; ties are ordered by the model, not by the standard --
   the correspondence generator avoids equal expiries.  Definitions only (proofs: proofs/ProviderProofs.v). *)
Require Import ZArith List Bool.
Import ListNotations.
Local Open Scope Z_scope.
From EphVerif Require Import lib.Bytes gen.Constants_kademlia.

Definition holder : Type := (Z * Z)%type.                 (* peer, expires_at *)
Definition locator : Type := (list holder * Z)%type.      (* holders, locator.expires_at *)
Definition table : Type := list (Z * locator).

Fixpoint get (c : Z) (t : table) : option locator :=
  match t with [] => None | (k, v) :: r => if k =? c then Some v else get c r end.
Fixpoint del (c : Z) (t : table) : table :=
  match t with [] => [] | (k, v) :: r => if k =? c then del c r else (k, v) :: del c r end.
Definition set (c : Z) (v : locator) (t : table) : table := (c, v) :: del c t.

Record state := { now : Z; tbl : table }.
Definition init : state := {| now := 1000; tbl := [] |}.   (* harness/common.hpp starts the clock at 1000 s *)

Definition live (t : Z) (h : holder) : bool := t <? snd h.          (* !expired: !(now >= expires_at) *)

Fixpoint insert_desc (h : holder) (l : list holder) : list holder :=
  match l with
  | [] => [h]
  | x :: r => if snd x <? snd h then h :: l else x :: insert_desc h r
  end.
Definition sort_desc (l : list holder) : list holder := fold_right insert_desc [] l.

Definition add (st : state) (c p ttl : Z) : state :=
  let exp := now st + ttl in
  let '(hs, lexp) := match get c (tbl st) with Some v => v | None => ([], 0) end in
  let hs1 := filter (fun h => negb (fst h =? p)) hs ++ [(p, exp)] in
  let hs2 := if max_providers <? zlen hs1 then firstn (Z.to_nat max_providers) (sort_desc hs1) else hs1 in
  {| now := now st; tbl := set c (hs2, Z.max lexp exp) (tbl st) |}.

Definition find (st : state) (c : Z) : list holder * state :=
  match get c (tbl st) with
  | None => ([], st)
  | Some (hs, lexp) =>
      let hs' := filter (live (now st)) hs in
      match hs' with
      | [] => ([], {| now := now st; tbl := del c (tbl st) |})
      | _ => (hs', {| now := now st; tbl := set c (hs', lexp) (tbl st) |})
      end
  end.

Definition withdraw (st : state) (c p : Z) : state :=
  match get c (tbl st) with
  | None => st
  | Some (hs, lexp) =>
      let hs' := filter (fun h => negb (fst h =? p)) hs in
      match hs' with
      | [] => {| now := now st; tbl := del c (tbl st) |}
      | _ => {| now := now st; tbl := set c (hs', lexp) (tbl st) |}
      end
  end.

Fixpoint sweep_tbl (t0 : Z) (t : table) : table :=
  match t with
  | [] => []
  | (c, (hs, lexp)) :: r =>
      let hs' := filter (live t0) hs in
      match hs' with
      | [] => sweep_tbl t0 r
      | _ => if lexp <=? t0 then sweep_tbl t0 r else (c, (hs', lexp)) :: sweep_tbl t0 r
      end
  end.
Definition sweep (st : state) : state := {| now := now st; tbl := sweep_tbl (now st) (tbl st) |}.

Definition advance (st : state) (dt : Z) : state := {| now := now st + Z.max 0 dt; tbl := tbl st |}.

Inductive op := Add (c p ttl : Z) | Withdraw (c p : Z) | Find (c : Z) | Sweep | Advance (dt : Z).

Definition step (st : state) (o : op) : state * list Z :=
  match o with
  | Add c p ttl => (add st c p ttl, [])
  | Withdraw c p => (withdraw st c p, [])
  | Find c => let '(hs, st') := find st c in
              let sorted := fold_right (fun h acc => (* by peer id, ascending: canonical order for comparison *)
                                          (fix ins (l : list holder) := match l with
                                             | [] => [h] | x :: r => if fst h <? fst x then h :: l else x :: ins r end) acc) [] hs in
              (st', zlen hs :: flat_map (fun h => [fst h; snd h]) sorted)
  | Sweep => let st' := sweep st in (st', [zlen (tbl st')])
  | Advance dt => (advance st dt, [])
  end.

Fixpoint run_ops (st : state) (ops : list op) : list Z :=
  match ops with
  | [] => []
  | o :: r => let '(st', out) := step st o in out ++ run_ops st' r
  end.

Definition exec (st : state) (ops : list op) : state := fold_left (fun s o => fst (step s o)) ops st.

(* ---------------------------------------------------------------------------------- wire *)
Fixpoint parse_ops (fuel : nat) (l : list Z) : list op :=
  match fuel with
  | O => []
  | S f =>
      match l with
      | [] => []
      | k :: r =>
          if k =? 1 then let '(c, r) := w_next r in let '(p, r) := w_next r in let '(t, r) := w_next r in Add c p t :: parse_ops f r
          else if k =? 2 then let '(c, r) := w_next r in let '(p, r) := w_next r in Withdraw c p :: parse_ops f r
          else if k =? 3 then let '(c, r) := w_next r in Find c :: parse_ops f r
          else if k =? 4 then Sweep :: parse_ops f r
          else if k =? 5 then let '(d, r) := w_next r in Advance d :: parse_ops f r
          else []
      end
  end.

Definition run (input : list Z) : list Z := run_ops init (parse_ops (length input) input).
