(* Executable model of the three filename sanitisers: the `eph fetch` lambda (src/main.cpp), the store_chunk
   lambda (src/core/Node.cpp) and security::sanitize_filename_hint (src/security/StoreProof.cpp).
   POSIX path::filename() is the suffix after the last '/'; std::iscntrl (C locale) is 0..31 and 127.
   Definitions only (proofs: proofs/FilenameProofs.v). *)
Require Import ZArith List Bool.
Import ListNotations.
Local Open Scope Z_scope.
From EphVerif Require Import lib.Bytes gen.Constants_filename.

Fixpoint fname_acc (acc l : list Z) : list Z :=
  match l with
  | [] => acc
  | c :: r => if c =? 47 then fname_acc [] r else fname_acc (acc ++ [c]) r
  end.
Definition filename (l : list Z) : list Z := fname_acc [] l.

Definition iscntrl (c : Z) : bool := (c <? 32) || (c =? 127).
Definition reserved : list Z := [47; 92; 58; 42; 63; 34; 60; 62; 124].   (* slash backslash colon star question dquote lt gt pipe *)
Definition is_reserved (c : Z) : bool := existsb (Z.eqb c) reserved.
Definition repl (c : Z) : Z := if is_reserved c then 95 else c.
Definition dot : list Z := [46].
Definition dotdot : list Z := [46; 46].
Definition is_dots (l : list Z) : bool := list_eqb l dot || list_eqb l dotdot.
Definition is_nil (l : list Z) : bool := match l with [] => true | _ => false end.

Definition scrub (l : list Z) : list Z := map repl (filter (fun c => negb (iscntrl c)) l).

Definition fetch_sanitize (raw : list Z) : list Z :=
  let base := scrub (filename raw) in
  if is_nil base || is_dots base then [] else firstn (Z.to_nat fetch_max_name) base.

Definition store_sanitize (raw : list Z) : list Z :=
  let v := scrub (filename raw) in
  let v := if is_dots v then [] else v in
  firstn (Z.to_nat store_max_name) v.

Definition hint_sanitize (raw : list Z) : list Z :=
  let b := filename raw in
  if is_nil raw || is_nil b || is_dots b then [] else firstn (Z.to_nat hint_max_name) b.

(* std::filesystem::path(dir) /= name, for a non-empty name and a dir without trailing slash *)
Definition join (dir name : list Z) : list Z := dir ++ [47] ++ name.

(* ---------------------------------------------------------------------------------- wire *)
Definition run (input : list Z) : list Z :=
  let '(which, l) := w_next input in
  let '(raw, _) := w_bytes l in
  let name := if which =? 1 then fetch_sanitize raw else if which =? 2 then store_sanitize raw else hint_sanitize raw in
  if (which <? 1) || (3 <? which) then [-1] else
  o_bytes name ++ [if is_nil name then 0 else 1].
