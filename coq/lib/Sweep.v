(* Exhaustive checks over finite domains, evaluated by vm_compute and lifted to universally quantified lemmas
   (the bound is part of every statement).  Stdlib only, axiom-free. *)
Require Import ZArith List Bool Lia ZifyBool.
Import ListNotations.
Local Open Scope Z_scope.
From EphVerif Require Import lib.Bytes.

Definition bytes256 : list Z := map Z.of_nat (seq 0 256).
Lemma in_bytes256 b : byte_ok b -> In b bytes256.
Proof.
  intros H. unfold bytes256. apply in_map_iff. exists (Z.to_nat b). split; [unfold byte_ok in H; lia|].
  apply in_seq. unfold byte_ok in H. lia.
Qed.

Lemma my_iter_succ {A} n (f : A -> A) x : Nat.iter (S n) f x = f (Nat.iter n f x).
Proof. reflexivity. Qed.

(* a counting loop lo, lo+1, ..., lo+count-1 that and-s a boolean test *)
Definition sweep (f : Z -> bool) (lo : Z) (count : positive) : bool :=
  snd (Pos.iter (fun st : Z * bool => let '(i, ok) := st in (i + 1, ok && f i)) (lo, true) count).

Lemma sweep_spec (f : Z -> bool) (count : positive) lo : sweep f lo count = true ->
  forall i, lo <= i < lo + Z.pos count -> f i = true.
Proof.
  unfold sweep.
  assert (G : forall (n : nat) lo ok,
             let st := Nat.iter n (fun st : Z * bool => let '(i, ok) := st in (i + 1, ok && f i)) (lo, ok) in
             fst st = lo + Z.of_nat n /\ (snd st = true -> ok = true /\ forall i, lo <= i < lo + Z.of_nat n -> f i = true)).
  { induction n as [|n IH]; intros lo' ok.
    - cbn. split; [lia|]. intros H. split; [exact H | intros i Hi; lia].
    - cbv zeta in *. rewrite my_iter_succ. destruct (IH lo' ok) as [Hf Hs].
      destruct (Nat.iter n _ (lo', ok)) as [j okj] eqn:E. cbn [fst snd] in *. split; [lia|].
      intros H. apply andb_true_iff in H. destruct H as [H1 H2]. destruct (Hs H1) as [Hok Hall]. split; [exact Hok|].
      intros i Hi. destruct (Z.eq_dec i j) as [->|Hne]; [exact H2 | apply Hall; lia]. }
  intros H i Hi. rewrite Pos2Nat.inj_iter in H.
  destruct (G (Pos.to_nat count) lo true) as [_ Hs]. cbv zeta in Hs. destruct (Hs H) as [_ Hall]. apply Hall. lia.
Qed.

(* pairs of bytes, swept as one index a*256+b *)
Notation sweep2 f := (sweep (fun k => f (k / 256) (k mod 256)) 0 65536) (only parsing).
Lemma sweep2_spec (f : Z -> Z -> bool) : sweep2 f = true -> forall a b, byte_ok a -> byte_ok b -> f a b = true.
Proof.
  intros H a b Ha Hb. unfold byte_ok in *.
  pose proof (sweep_spec (fun k => f (k / 256) (k mod 256)) 65536 0 H (a * 256 + b) ltac:(lia)) as S. cbv beta in S.
  replace ((a * 256 + b) / 256) with a in S by lia. replace ((a * 256 + b) mod 256) with b in S by lia. exact S.
Qed.

Notation sweep1 f := (sweep f 0 256) (only parsing).
Lemma sweep1_spec (f : Z -> bool) : sweep1 f = true -> forall a, byte_ok a -> f a = true.
Proof. intros H a Ha. unfold byte_ok in Ha. apply (sweep_spec f 256 0 H). lia. Qed.

(* xor of bytes *)
Lemma lxor_sweep : sweep2 (fun a b => let x := Z.lxor a b in (0 <=? x) && (x <? 256) && Bool.eqb (x =? 0) (a =? b)) = true.
Proof. vm_compute. reflexivity. Qed.

Lemma lxor_byte a b : byte_ok a -> byte_ok b -> byte_ok (Z.lxor a b) /\ (Z.lxor a b = 0 <-> a = b).
Proof.
  intros Ha Hb. pose proof (sweep2_spec _ lxor_sweep a b Ha Hb) as S. cbv zeta beta in S.
  apply andb_true_iff in S. destruct S as [S1 S2]. apply andb_true_iff in S1. destruct S1 as [S0 S1].
  apply Bool.eqb_prop in S2. unfold byte_ok. split; [lia|]. split; intros H.
  - assert ((Z.lxor a b =? 0) = true) by lia. rewrite S2 in H0. lia.
  - assert ((a =? b) = true) by lia. rewrite <- S2 in H0. lia.
Qed.
