(* Outcomes of modelled C++ computations: normal return, a thrown exception class, or undefined
   behaviour (an out-of-bounds read, a signed overflow).  A tiny parser monad over the remaining
   input for decoders written in "checked read" form. *)
Require Import ZArith List.
Import ListNotations.
Local Open Scope Z_scope.
From EphVerif Require Import lib.Bytes.

(* exception classes; the numbers are the ones harness/common.hpp reports *)
Definition InvalidArgument : Z := 1.
Definition LengthError : Z := 2.
Definition OutOfRange : Z := 3.

Inductive res (A : Type) := Ok (a : A) | Throw (e : Z) | UB.
Arguments Ok {A} a.
Arguments Throw {A} e.
Arguments UB {A}.

Definition bind {A B} (r : res A) (k : A -> res B) : res B :=
  match r with Ok a => k a | Throw e => Throw e | UB => UB end.

Notation "x <- e ;; k" := (bind e (fun x => k)) (at level 61, e at next level, right associativity).
Notation "' p <- e ;; k" := (bind e (fun x => let 'p := x in k)) (at level 61, p pattern, e at next level, right associativity).

Definition parser (A : Type) : Type := list Z -> res (A * list Z).

(* a read of n bytes through an unchecked pointer/index: UB when fewer remain *)
Definition take (n : Z) : parser (list Z) :=
  fun l => if n <=? zlen l then Ok (firstn (Z.to_nat n) l, skipn (Z.to_nat n) l) else UB.

Definition take1 : parser Z :=
  fun l => match l with [] => UB | b :: r => Ok (b, r) end.

(* if (cond) throw e; *)
Definition throw_if {A} (c : bool) (e : Z) (k : res A) : res A := if c then Throw e else k.

Definition u16_of (b : list Z) : Z := nth 0 b 0 * 256 + nth 1 b 0.
Definition be16 (v : Z) : list Z := [(v / 256) mod 256; v mod 256].

(* n repetitions of a parser, results in order *)
Fixpoint repeat_p {A} (n : nat) (p : parser A) : parser (list A) :=
  fun l =>
    match n with
    | O => Ok ([], l)
    | S n' => '(x, r) <- p l ;; '(xs, r') <- repeat_p n' p r ;; Ok (x :: xs, r')
    end.
