(* Bytes, big/little-endian words, and the wire helpers shared by every model.
   Bytes are Z in [0,256); byte strings are list Z.  Stdlib only, axiom-free. *)
Require Import ZArith List Lia ZifyBool Bool.
Import ListNotations.
Local Open Scope Z_scope.
Ltac Zify.zify_post_hook ::= Z.div_mod_to_equations.

Definition byte_ok (b : Z) : Prop := 0 <= b < 256.
Definition bytes_ok (l : list Z) : Prop := Forall byte_ok l.
Definition byte_okb (b : Z) : bool := (0 <=? b) && (b <? 256).
Definition bytes_okb (l : list Z) : bool := forallb byte_okb l.

Lemma byte_okb_spec b : byte_okb b = true <-> byte_ok b.
Proof. unfold byte_okb, byte_ok. lia. Qed.

Lemma bytes_okb_spec l : bytes_okb l = true <-> bytes_ok l.
Proof.
  unfold bytes_okb, bytes_ok. rewrite forallb_forall, Forall_forall.
  split; intros H x Hx; apply byte_okb_spec, H, Hx.
Qed.

Lemma bytes_ok_app a b : bytes_ok a -> bytes_ok b -> bytes_ok (a ++ b).
Proof. unfold bytes_ok. intros. apply Forall_app. split; assumption. Qed.

Lemma bytes_ok_app_inv a b : bytes_ok (a ++ b) -> bytes_ok a /\ bytes_ok b.
Proof. unfold bytes_ok. intros H. apply Forall_app in H. exact H. Qed.

Lemma bytes_ok_firstn n l : bytes_ok l -> bytes_ok (firstn n l).
Proof.
  unfold bytes_ok. rewrite !Forall_forall. intros H x Hx. apply H.
  rewrite <- (firstn_skipn n l). apply in_or_app. left. exact Hx.
Qed.

Lemma bytes_ok_skipn n l : bytes_ok l -> bytes_ok (skipn n l).
Proof.
  unfold bytes_ok. rewrite !Forall_forall. intros H x Hx. apply H.
  rewrite <- (firstn_skipn n l). apply in_or_app. right. exact Hx.
Qed.

(* ---- lengths as Z ---- *)
Definition zlen {A} (l : list A) : Z := Z.of_nat (length l).

Lemma zlen_app {A} (a b : list A) : zlen (a ++ b) = zlen a + zlen b.
Proof. unfold zlen. rewrite app_length. lia. Qed.

Lemma zlen_nonneg {A} (l : list A) : 0 <= zlen l.
Proof. unfold zlen. lia. Qed.

(* ---- 32/64-bit big-endian ---- *)
Definition be32 (v : Z) : list Z :=
  [ (v / 16777216) mod 256; (v / 65536) mod 256; (v / 256) mod 256; v mod 256 ].

Definition rd32 (a b c d : Z) : Z := ((a * 256 + b) * 256 + c) * 256 + d.

Definition be64 (v : Z) : list Z := be32 (v / 4294967296) ++ be32 (v mod 4294967296).

Definition rd64 (a b c d e f g h : Z) : Z := rd32 a b c d * 4294967296 + rd32 e f g h.

Lemma rd32_be32 v : 0 <= v < 4294967296 ->
  rd32 ((v / 16777216) mod 256) ((v / 65536) mod 256) ((v / 256) mod 256) (v mod 256) = v.
Proof. intros. unfold rd32. lia. Qed.

Lemma be32_rd32 a b c d : byte_ok a -> byte_ok b -> byte_ok c -> byte_ok d ->
  be32 (rd32 a b c d) = [a; b; c; d].
Proof. unfold byte_ok. intros. unfold be32, rd32. repeat f_equal; lia. Qed.

Lemma rd32_range a b c d : byte_ok a -> byte_ok b -> byte_ok c -> byte_ok d ->
  0 <= rd32 a b c d < 4294967296.
Proof. unfold byte_ok, rd32. lia. Qed.

Lemma be32_ok v : bytes_ok (be32 v).
Proof. unfold be32, bytes_ok, byte_ok. repeat constructor; lia. Qed.

Lemma be32_length v : length (be32 v) = 4%nat.
Proof. reflexivity. Qed.

Lemma be64_ok v : bytes_ok (be64 v).
Proof. unfold be64. apply bytes_ok_app; apply be32_ok. Qed.

Lemma be64_length v : length (be64 v) = 8%nat.
Proof. reflexivity. Qed.

Lemma rd64_range a b c d e f g h :
  byte_ok a -> byte_ok b -> byte_ok c -> byte_ok d -> byte_ok e -> byte_ok f -> byte_ok g -> byte_ok h ->
  0 <= rd64 a b c d e f g h < 18446744073709551616.
Proof.
  intros. unfold rd64.
  pose proof (rd32_range a b c d) as R1. pose proof (rd32_range e f g h) as R2. lia.
Qed.

Lemma be64_rd64 a b c d e f g h :
  byte_ok a -> byte_ok b -> byte_ok c -> byte_ok d -> byte_ok e -> byte_ok f -> byte_ok g -> byte_ok h ->
  be64 (rd64 a b c d e f g h) = [a; b; c; d; e; f; g; h].
Proof.
  intros. unfold be64, rd64.
  pose proof (rd32_range a b c d) as R1. pose proof (rd32_range e f g h) as R2.
  replace ((rd32 a b c d * 4294967296 + rd32 e f g h) / 4294967296) with (rd32 a b c d) by lia.
  replace ((rd32 a b c d * 4294967296 + rd32 e f g h) mod 4294967296) with (rd32 e f g h) by lia.
  rewrite !be32_rd32 by assumption. reflexivity.
Qed.

(* big-endian value of a byte string of any length *)
Fixpoint be_val (l : list Z) : Z :=
  match l with [] => 0 | b :: r => b * 256 ^ zlen r + be_val r end.

(* reading from a list at an offset; [nth_default 0] is only ever used under a proved bound *)
Definition byte_at (l : list Z) (i : nat) : Z := nth i l 0.

Definition rd32_at (l : list Z) (i : nat) : Z :=
  rd32 (byte_at l i) (byte_at l (i + 1)) (byte_at l (i + 2)) (byte_at l (i + 3)).

Definition rd64_at (l : list Z) (i : nat) : Z :=
  rd32_at l i * 4294967296 + rd32_at l (i + 4).

Definition slice (l : list Z) (off len : nat) : list Z := firstn len (skipn off l).

Lemma slice_length l off len : (off + len <= length l)%nat -> length (slice l off len) = len.
Proof. intros. unfold slice. rewrite firstn_length, skipn_length. lia. Qed.

Lemma slice_ok l off len : bytes_ok l -> bytes_ok (slice l off len).
Proof. intros. unfold slice. apply bytes_ok_firstn, bytes_ok_skipn. assumption. Qed.

Lemma byte_at_ok l i : bytes_ok l -> byte_ok (byte_at l i).
Proof.
  intros H. unfold byte_at. destruct (Nat.lt_ge_cases i (length l)) as [Hlt|Hge].
  - unfold bytes_ok in H. rewrite Forall_forall in H. apply H. apply nth_In. exact Hlt.
  - rewrite nth_overflow by exact Hge. unfold byte_ok. lia.
Qed.

Lemma rd32_at_range l i : bytes_ok l -> 0 <= rd32_at l i < 4294967296.
Proof. intros. unfold rd32_at. apply rd32_range; apply byte_at_ok; assumption. Qed.

Lemma byte_at_app_r a b i : byte_at (a ++ b) (length a + i) = byte_at b i.
Proof. unfold byte_at. rewrite app_nth2 by lia. f_equal. lia. Qed.

Lemma byte_at_app_l a b i : (i < length a)%nat -> byte_at (a ++ b) i = byte_at a i.
Proof. unfold byte_at. intros. apply app_nth1. assumption. Qed.

Lemma slice_app_r a b off len : slice (a ++ b) (length a + off) len = slice b off len.
Proof.
  unfold slice. f_equal. rewrite skipn_app.
  rewrite skipn_all2 by lia. simpl. f_equal. lia.
Qed.

Lemma slice_0_app a b : slice (a ++ b) 0 (length a) = a.
Proof. unfold slice. simpl. rewrite firstn_app, Nat.sub_diag, firstn_all. simpl. apply app_nil_r. Qed.

(* list prefix as a boolean and a Prop *)
Fixpoint is_prefixb (p l : list Z) : bool :=
  match p, l with
  | [], _ => true
  | x :: p', y :: l' => (x =? y) && is_prefixb p' l'
  | _ :: _, [] => false
  end.

Lemma is_prefixb_spec p l : is_prefixb p l = true <-> exists r, l = p ++ r.
Proof.
  revert l. induction p as [|x p IH]; intros l; simpl.
  - split; [intros _; exists l; reflexivity | reflexivity].
  - destruct l as [|y l].
    + split; [discriminate | intros [r Hr]; discriminate].
    + rewrite andb_true_iff, IH, Z.eqb_eq. split.
      * intros [-> [r ->]]. exists r. reflexivity.
      * intros [r Hr]. injection Hr as -> ->. split; [reflexivity | exists r; reflexivity].
Qed.

Fixpoint list_eqb (a b : list Z) : bool :=
  match a, b with
  | [], [] => true
  | x :: a', y :: b' => (x =? y) && list_eqb a' b'
  | _, _ => false
  end.

Lemma list_eqb_spec a b : list_eqb a b = true <-> a = b.
Proof.
  revert b. induction a as [|x a IH]; intros [|y b]; simpl; try (split; congruence).
  rewrite andb_true_iff, IH, Z.eqb_eq. split; [intros [-> ->]; reflexivity | intros H; injection H; auto].
Qed.

Lemma list_eqb_refl a : list_eqb a a = true.
Proof. apply list_eqb_spec. reflexivity. Qed.

(* ---- the flat integer wire format used between checker, model runner and harness ---- *)
Definition pad_to (n : nat) (l : list Z) : list Z := firstn n (l ++ repeat 0 n).

Definition w_next (l : list Z) : Z * list Z :=
  match l with [] => (0, []) | x :: r => (x, r) end.

Definition w_bytes (l : list Z) : list Z * list Z :=
  match l with
  | [] => ([], [])
  | n :: r => let k := Z.to_nat n in (map (fun b => b mod 256) (firstn k r), skipn k r)
  end.

Definition w_id32 (l : list Z) : list Z * list Z :=
  (map (fun b => b mod 256) (pad_to 32 (firstn 32 l)), skipn 32 l).

Definition w_u64 (l : list Z) : Z * list Z :=
  let '(hi, r) := w_next l in
  let '(lo, r) := w_next r in
  ((hi mod 4294967296) * 4294967296 + lo mod 4294967296, r).

Definition o_bytes (b : list Z) : list Z := zlen b :: b.
Definition o_u64 (v : Z) : list Z := [v / 4294967296; v mod 4294967296].
Definition o_bool (b : bool) : Z := if b then 1 else 0.
