(* FIPS 180-4 SHA-256 as a one-shot function on byte strings (section numbers refer to the standard),
   and RFC 2104 HMAC instantiated with it.  Validated inside the kernel against the published vectors
   at the end of this file.  Stdlib only, axiom-free. *)
Require Import ZArith List.
Import ListNotations.
Local Open Scope Z_scope.
From EphVerif Require Import lib.Bytes.

Definition w32 : Z := 4294967296.
Definition add32 (a b : Z) : Z := (a + b) mod w32.
Definition shr (x n : Z) : Z := Z.shiftr x n.
Definition rotr (x n : Z) : Z := Z.lor (Z.shiftr x n) ((Z.shiftl x (32 - n)) mod w32).
Definition not32 (x : Z) : Z := w32 - 1 - x.

(* 4.1.2 *)
Definition Ch (x y z : Z) : Z := Z.lxor (Z.land x y) (Z.land (not32 x) z).
Definition Maj (x y z : Z) : Z := Z.lxor (Z.lxor (Z.land x y) (Z.land x z)) (Z.land y z).
Definition Sigma0 (x : Z) : Z := Z.lxor (Z.lxor (rotr x 2) (rotr x 13)) (rotr x 22).
Definition Sigma1 (x : Z) : Z := Z.lxor (Z.lxor (rotr x 6) (rotr x 11)) (rotr x 25).
Definition sigma0 (x : Z) : Z := Z.lxor (Z.lxor (rotr x 7) (rotr x 18)) (shr x 3).
Definition sigma1 (x : Z) : Z := Z.lxor (Z.lxor (rotr x 17) (rotr x 19)) (shr x 10).

(* 4.2.2 *)
Definition K : list Z :=
  [ 0x428a2f98; 0x71374491; 0xb5c0fbcf; 0xe9b5dba5; 0x3956c25b; 0x59f111f1; 0x923f82a4; 0xab1c5ed5;
    0xd807aa98; 0x12835b01; 0x243185be; 0x550c7dc3; 0x72be5d74; 0x80deb1fe; 0x9bdc06a7; 0xc19bf174;
    0xe49b69c1; 0xefbe4786; 0x0fc19dc6; 0x240ca1cc; 0x2de92c6f; 0x4a7484aa; 0x5cb0a9dc; 0x76f988da;
    0x983e5152; 0xa831c66d; 0xb00327c8; 0xbf597fc7; 0xc6e00bf3; 0xd5a79147; 0x06ca6351; 0x14292967;
    0x27b70a85; 0x2e1b2138; 0x4d2c6dfc; 0x53380d13; 0x650a7354; 0x766a0abb; 0x81c2c92e; 0x92722c85;
    0xa2bfe8a1; 0xa81a664b; 0xc24b8b70; 0xc76c51a3; 0xd192e819; 0xd6990624; 0xf40e3585; 0x106aa070;
    0x19a4c116; 0x1e376c08; 0x2748774c; 0x34b0bcb5; 0x391c0cb3; 0x4ed8aa4a; 0x5b9cca4f; 0x682e6ff3;
    0x748f82ee; 0x78a5636f; 0x84c87814; 0x8cc70208; 0x90befffa; 0xa4506ceb; 0xbef9a3f7; 0xc67178f2 ].

(* 5.3.3 *)
Definition H0 : list Z :=
  [ 0x6a09e667; 0xbb67ae85; 0x3c6ef372; 0xa54ff53a; 0x510e527f; 0x9b05688c; 0x1f83d9ab; 0x5be0cd19 ].

(* 5.1.1 padding: message, 0x80, k zero bytes so that the length is 56 mod 64, 64-bit big-endian bit length *)
Definition pad_zeros (n : Z) : nat := Z.to_nat ((55 - n) mod 64).
Definition pad (msg : list Z) : list Z :=
  msg ++ [128] ++ repeat 0 (pad_zeros (zlen msg)) ++ be64 ((8 * zlen msg) mod 18446744073709551616).

(* 5.2.1 parsing: sixteen 32-bit big-endian words per 64-byte block *)
Fixpoint words_of (n : nat) (b : list Z) : list Z :=
  match n with
  | O => []
  | S n' => rd32 (nth 0 b 0) (nth 1 b 0) (nth 2 b 0) (nth 3 b 0) :: words_of n' (skipn 4 b)
  end.

(* 6.2.2 step 1: message schedule, W_t for t = 16..63 appended one at a time *)
Fixpoint extend_schedule (n : nat) (w : list Z) : list Z :=
  match n with
  | O => w
  | S n' =>
      let t := length w in
      let wt := add32 (add32 (add32 (sigma1 (nth (t - 2) w 0)) (nth (t - 7) w 0))
                             (sigma0 (nth (t - 15) w 0))) (nth (t - 16) w 0) in
      extend_schedule n' (w ++ [wt])
  end.

Definition schedule (block : list Z) : list Z := extend_schedule 48 (words_of 16 block).

(* 6.2.2 step 3 *)
Record regs := { ra : Z; rb : Z; rc : Z; rd : Z; re : Z; rf : Z; rg : Z; rh : Z }.

Definition round (r : regs) (kw : Z * Z) : regs :=
  let t1 := add32 (add32 (add32 (add32 (rh r) (Sigma1 (re r))) (Ch (re r) (rf r) (rg r))) (fst kw)) (snd kw) in
  let t2 := add32 (Sigma0 (ra r)) (Maj (ra r) (rb r) (rc r)) in
  {| ra := add32 t1 t2; rb := ra r; rc := rb r; rd := rc r;
     re := add32 (rd r) t1; rf := re r; rg := rf r; rh := rg r |}.

Definition regs_of (h : list Z) : regs :=
  {| ra := nth 0 h 0; rb := nth 1 h 0; rc := nth 2 h 0; rd := nth 3 h 0;
     re := nth 4 h 0; rf := nth 5 h 0; rg := nth 6 h 0; rh := nth 7 h 0 |}.

(* 6.2.2 steps 2-4 for one block *)
Definition compress_with (k : list Z) (h : list Z) (block : list Z) : list Z :=
  let r := fold_left round (combine k (schedule block)) (regs_of h) in
  [ add32 (nth 0 h 0) (ra r); add32 (nth 1 h 0) (rb r); add32 (nth 2 h 0) (rc r); add32 (nth 3 h 0) (rd r);
    add32 (nth 4 h 0) (re r); add32 (nth 5 h 0) (rf r); add32 (nth 6 h 0) (rg r); add32 (nth 7 h 0) (rh r) ].

Definition compress := compress_with K.

(* split into 64-byte blocks; [n] blocks are taken *)
Fixpoint blocks (n : nat) (l : list Z) : list (list Z) :=
  match n with
  | O => []
  | S n' => firstn 64 l :: blocks n' (skipn 64 l)
  end.

Definition digest_bytes (h : list Z) : list Z := flat_map be32 h.

(* 6.2: the hash of a byte string *)
Definition hash (msg : list Z) : list Z :=
  let p := pad msg in
  digest_bytes (fold_left compress (blocks (length p / 64) p) H0).

(* ---- RFC 2104 HMAC over a hash with 64-byte blocks ---- *)
Section Hmac.
  Variable H : list Z -> list Z.
  Definition hmac_K0 (key : list Z) : list Z :=
    let k := if (64 <? zlen key) then H key else key in
    k ++ repeat 0 (64 - length k).
  Definition xor_pad (c : Z) (k : list Z) : list Z := map (fun b => Z.lxor b c) k.
  Definition hmac (key text : list Z) : list Z :=
    let k0 := hmac_K0 key in
    H (xor_pad 0x5c k0 ++ H (xor_pad 0x36 k0 ++ text)).
End Hmac.

Definition hmac_sha256 := hmac hash.

(* ---- validation against published vectors (kernel evaluation) ---- *)
Definition ascii_abc : list Z := [97; 98; 99].
Definition hex_abc : list Z :=
  [0xba;0x78;0x16;0xbf;0x8f;0x01;0xcf;0xea;0x41;0x41;0x40;0xde;0x5d;0xae;0x22;0x23;
   0xb0;0x03;0x61;0xa3;0x96;0x17;0x7a;0x9c;0xb4;0x10;0xff;0x61;0xf2;0x00;0x15;0xad].
Example fips_abc : hash ascii_abc = hex_abc.
Proof. vm_compute. reflexivity. Qed.

Example fips_empty : hash [] =
  [0xe3;0xb0;0xc4;0x42;0x98;0xfc;0x1c;0x14;0x9a;0xfb;0xf4;0xc8;0x99;0x6f;0xb9;0x24;
   0x27;0xae;0x41;0xe4;0x64;0x9b;0x93;0x4c;0xa4;0x95;0x99;0x1b;0x78;0x52;0xb8;0x55].
Proof. vm_compute. reflexivity. Qed.

(* "abcdbcdecdefdefgefghfghighijhijkijkljklmklmnlmnomnopnopq" (448 bits: two blocks) *)
Definition ascii_448 : list Z :=
  [97;98;99;100;98;99;100;101;99;100;101;102;100;101;102;103;101;102;103;104;102;103;104;105;103;104;105;106;
   104;105;106;107;105;106;107;108;106;107;108;109;107;108;109;110;108;109;110;111;109;110;111;112;110;111;112;113].
Example fips_448 : hash ascii_448 =
  [0x24;0x8d;0x6a;0x61;0xd2;0x06;0x38;0xb8;0xe5;0xc0;0x26;0x93;0x0c;0x3e;0x60;0x39;
   0xa3;0x3c;0xe4;0x59;0x64;0xff;0x21;0x67;0xf6;0xec;0xed;0xd4;0x19;0xdb;0x06;0xc1].
Proof. vm_compute. reflexivity. Qed.

(* RFC 4231 test case 1: key = 0x0b * 20, data = "Hi There" *)
Example rfc4231_1 : hmac_sha256 (repeat 0x0b 20) [72;105;32;84;104;101;114;101] =
  [0xb0;0x34;0x4c;0x61;0xd8;0xdb;0x38;0x53;0x5c;0xa8;0xaf;0xce;0xaf;0x0b;0xf1;0x2b;
   0x88;0x1d;0xc2;0x00;0xc9;0x83;0x3d;0xa7;0x26;0xe9;0x37;0x6c;0x2e;0x32;0xcf;0xf7].
Proof. vm_compute. reflexivity. Qed.

(* RFC 4231 test case 2: key = "Jefe", data = "what do ya want for nothing?" *)
Example rfc4231_2 : hmac_sha256 [74;101;102;101]
  [119;104;97;116;32;100;111;32;121;97;32;119;97;110;116;32;102;111;114;32;110;111;116;104;105;110;103;63] =
  [0x5b;0xdc;0xc1;0x46;0xbf;0x60;0x75;0x4e;0x6a;0x04;0x24;0x26;0x08;0x95;0x75;0xc7;
   0x5a;0x00;0x3f;0x08;0x9d;0x27;0x39;0x83;0x9d;0xec;0x58;0xb9;0x64;0xec;0x38;0x43].
Proof. vm_compute. reflexivity. Qed.

(* RFC 4231 test case 6: 131-byte key 0xaa (longer than the block), data = "Test Using Larger Than Block-Size Key - Hash Key First" *)
Example rfc4231_6 : hmac_sha256 (repeat 0xaa 131)
  [84;101;115;116;32;85;115;105;110;103;32;76;97;114;103;101;114;32;84;104;97;110;32;66;108;111;99;107;45;83;105;122;101;32;75;101;121;32;45;32;72;97;115;104;32;75;101;121;32;70;105;114;115;116] =
  [0x60;0xe4;0x31;0x59;0x1e;0xe0;0xb6;0x7f;0x0d;0x8a;0x26;0xaa;0xcb;0xf5;0xb7;0x7f;
   0x8e;0x0b;0xc6;0x21;0x37;0x28;0xc5;0x14;0x05;0x46;0x04;0x0f;0x0e;0xe3;0x7f;0x54].
Proof. vm_compute. reflexivity. Qed.
