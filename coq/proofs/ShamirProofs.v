(* Proofs about model/ShamirModel.v (C10): the byte arithmetic is a field; split/combine contracts. *)
Require Import ZArith List Bool Lia ZifyBool.
Import ListNotations.
Local Open Scope Z_scope.
From EphVerif Require Import lib.Bytes lib.Sweep model.ShamirModel gen.Constants_shamir.
Ltac Zify.zify_post_hook ::= Z.to_euclidean_division_equations.

(* ---------------------------------------------------------------- table facts, by exhaustive evaluation *)
Lemma exp_sweep : sweep (fun i => let e := gexp i in (1 <=? e) && (e <=? 255) && (glog e =? i)) 0 255 = true.
Proof. vm_compute. reflexivity. Qed.
Lemma log_sweep : sweep (fun a => (0 <=? glog a) && (glog a <? 255) && (gexp (glog a) =? a)) 1 255 = true.
Proof. vm_compute. reflexivity. Qed.

Lemma exp_facts i : 0 <= i < 255 -> 1 <= gexp i <= 255 /\ glog (gexp i) = i.
Proof. intros H. pose proof (sweep_spec _ 255 0 exp_sweep i ltac:(lia)) as S. cbv zeta beta in S. lia. Qed.
Lemma log_facts a : 1 <= a <= 255 -> 0 <= glog a < 255 /\ gexp (glog a) = a.
Proof. intros H. pose proof (sweep_spec _ 255 1 log_sweep a ltac:(lia)) as S. cbv beta in S. lia. Qed.

Definition nz (a : Z) : Prop := 1 <= a <= 255.

Lemma gf_mul_nz a b : nz a -> nz b -> gf_mul a b = gexp ((glog a + glog b) mod 255) /\ nz (gf_mul a b).
Proof.
  unfold nz. intros Ha Hb. unfold gf_mul.
  assert ((a =? 0) || (b =? 0) = false) by lia. rewrite H. split; [reflexivity|].
  apply exp_facts. apply Z.mod_pos_bound. lia.
Qed.

Lemma gf_mul_byte a b : byte_ok a -> byte_ok b -> byte_ok (gf_mul a b).
Proof.
  unfold byte_ok. intros Ha Hb. destruct (Z.eq_dec a 0) as [->|Hna]; [unfold gf_mul; simpl; lia|].
  destruct (Z.eq_dec b 0) as [->|Hnb]; [unfold gf_mul; rewrite orb_true_r; lia|].
  destruct (gf_mul_nz a b) as [_ H]; unfold nz in *; lia.
Qed.

Theorem gf_mul_comm a b : gf_mul a b = gf_mul b a.
Proof. unfold gf_mul. rewrite orb_comm, Z.add_comm. reflexivity. Qed.

Theorem gf_mul_0_l a : gf_mul 0 a = 0.
Proof. reflexivity. Qed.

Theorem gf_mul_0_r a : gf_mul a 0 = 0.
Proof. unfold gf_mul. rewrite orb_true_r. reflexivity. Qed.

Theorem gf_mul_1_l a : byte_ok a -> gf_mul 1 a = a.
Proof.
  unfold byte_ok. intros Ha. destruct (Z.eq_dec a 0) as [->|Hn]; [reflexivity|].
  destruct (gf_mul_nz 1 a) as [E _]; [unfold nz; lia | unfold nz; lia|]. rewrite E.
  destruct (log_facts a ltac:(lia)) as [Hl He]. change (glog 1) with 0. rewrite Z.add_0_l, Z.mod_small by lia. exact He.
Qed.

Theorem gf_mul_assoc a b c : byte_ok a -> byte_ok b -> byte_ok c -> gf_mul (gf_mul a b) c = gf_mul a (gf_mul b c).
Proof.
  unfold byte_ok. intros Ha Hb Hc.
  destruct (Z.eq_dec a 0) as [->|Hna]; [reflexivity|].
  destruct (Z.eq_dec b 0) as [->|Hnb]; [rewrite gf_mul_0_r, !gf_mul_0_l, gf_mul_0_r; reflexivity|].
  destruct (Z.eq_dec c 0) as [->|Hnc]; [rewrite !gf_mul_0_r; reflexivity|].
  assert (Na : nz a) by (unfold nz; lia). assert (Nb : nz b) by (unfold nz; lia). assert (Nc : nz c) by (unfold nz; lia).
  destruct (gf_mul_nz a b Na Nb) as [Eab Nab]. destruct (gf_mul_nz b c Nb Nc) as [Ebc Nbc].
  destruct (gf_mul_nz (gf_mul a b) c Nab Nc) as [E1 _]. destruct (gf_mul_nz a (gf_mul b c) Na Nbc) as [E2 _].
  rewrite E1, E2, Eab, Ebc.
  destruct (exp_facts ((glog a + glog b) mod 255)) as [_ L1]; [apply Z.mod_pos_bound; lia|].
  destruct (exp_facts ((glog b + glog c) mod 255)) as [_ L2]; [apply Z.mod_pos_bound; lia|].
  rewrite L1, L2. rewrite Z.add_mod_idemp_l, Z.add_mod_idemp_r by lia. f_equal. f_equal. lia.
Qed.

(* multiplicative inverse *)
Definition gf_inv (a : Z) : Z := gexp ((255 - glog a) mod 255).

Theorem gf_inv_spec a : nz a -> nz (gf_inv a) /\ gf_mul a (gf_inv a) = 1.
Proof.
  intros Na. unfold gf_inv. destruct (log_facts a Na) as [Hl _].
  destruct (exp_facts ((255 - glog a) mod 255)) as [Hn Hlg]; [apply Z.mod_pos_bound; lia|].
  split; [exact Hn|]. destruct (gf_mul_nz a _ Na Hn) as [E _]. rewrite E, Hlg.
  rewrite Z.add_mod_idemp_r by lia. replace (glog a + (255 - glog a)) with 255 by lia. reflexivity.
Qed.

(* no zero divisors *)
Theorem gf_mul_eq_0 a b : byte_ok a -> byte_ok b -> gf_mul a b = 0 -> a = 0 \/ b = 0.
Proof.
  unfold byte_ok. intros Ha Hb H. destruct (Z.eq_dec a 0); [left; assumption|]. destruct (Z.eq_dec b 0); [right; assumption|].
  destruct (gf_mul_nz a b) as [_ N]; unfold nz in *; lia.
Qed.

(* division: refuses a zero divisor with invalid_argument, otherwise yields the quotient q with q*b = a *)
Theorem gf_div_spec a b : byte_ok a -> byte_ok b ->
  (b = 0 -> gf_div a b = Throw 1) /\
  (b <> 0 -> exists q, gf_div a b = Val q /\ byte_ok q /\ gf_mul q b = a /\ q = gf_mul a (gf_inv b)).
Proof.
  unfold byte_ok. intros Ha Hb. split.
  - intros ->. reflexivity.
  - intros Hnb. unfold gf_div. assert ((b =? 0) = false) by lia. rewrite H.
    destruct (Z.eq_dec a 0) as [->|Hna].
    + exists 0. repeat split; try lia; reflexivity.
    + assert ((a =? 0) = false) by lia. rewrite H0.
      assert (Na : nz a) by (unfold nz; lia). assert (Nb : nz b) by (unfold nz; lia).
      destruct (log_facts a Na) as [La _]. destruct (log_facts b Nb) as [Lb Eb].
      set (idx := Z.rem (glog a - glog b) 255).
      assert (Eidx : (if idx <? 0 then idx + 255 else idx) = (glog a - glog b) mod 255).
      { unfold idx. destruct (Z.rem (glog a - glog b) 255 <? 0) eqn:E; lia. }
      rewrite Eidx. eexists. split; [reflexivity|].
      destruct (exp_facts ((glog a - glog b) mod 255)) as [Hq Lq]; [apply Z.mod_pos_bound; lia|].
      split; [lia|]. split.
      * destruct (gf_mul_nz (gexp ((glog a - glog b) mod 255)) b Hq Nb) as [E _]. rewrite E, Lq.
        rewrite Z.add_mod_idemp_l by lia. replace (glog a - glog b + glog b) with (glog a) by lia.
        rewrite Z.mod_small by lia. apply log_facts. exact Na.
      * destruct (gf_inv_spec b Nb) as [Ni _]. destruct (gf_mul_nz a (gf_inv b) Na Ni) as [E _]. rewrite E.
        unfold gf_inv. destruct (exp_facts ((255 - glog b) mod 255)) as [_ Li]; [apply Z.mod_pos_bound; lia|].
        rewrite Li. rewrite Z.add_mod_idemp_r by lia. f_equal.
        replace (glog a + (255 - glog b)) with ((glog a - glog b) + 1 * 255) by lia. rewrite Z.mod_add by lia. reflexivity.
Qed.

(* ---------------------------------------------------------------- addition (xor) *)
Theorem gf_add_comm a b : gf_add a b = gf_add b a.
Proof. apply Z.lxor_comm. Qed.
Theorem gf_add_assoc a b c : gf_add (gf_add a b) c = gf_add a (gf_add b c).
Proof. apply Z.lxor_assoc. Qed.
Theorem gf_add_0_l a : gf_add 0 a = a.
Proof. apply Z.lxor_0_l. Qed.
Theorem gf_add_self a : gf_add a a = 0.
Proof. apply Z.lxor_nilpotent. Qed.
Lemma gf_add_byte a b : byte_ok a -> byte_ok b -> byte_ok (gf_add a b).
Proof. intros Ha Hb. apply lxor_byte; assumption. Qed.

(* ---------------------------------------------------------------- distributivity, through the doubling map *)
Lemma xtime_is_mul2 : sweep (fun b => gf_mul 2 b =? xtime b) 0 256 = true.
Proof. vm_compute. reflexivity. Qed.
Lemma xtime_linear : sweep2 (fun b c => xtime (Z.lxor b c) =? Z.lxor (xtime b) (xtime c)) = true.
Proof. vm_compute. reflexivity. Qed.
Lemma xtime_byte_sweep : sweep (fun b => (0 <=? xtime b) && (xtime b <? 256)) 0 256 = true.
Proof. vm_compute. reflexivity. Qed.
(* multiplying by the next power of the generator = doubling the product *)
Lemma exp_step_sweep : sweep (fun k => let i := k / 256 in let b := k mod 256 in gf_mul (gexp (i + 1)) b =? xtime (gf_mul (gexp i) b)) 0 65024 = true.
Proof. vm_compute. reflexivity. Qed.

Lemma xtime_byte b : byte_ok b -> byte_ok (xtime b).
Proof. intros H. unfold byte_ok in *. pose proof (sweep_spec _ 256 0 xtime_byte_sweep b ltac:(lia)) as S. cbv beta in S. lia. Qed.

Lemma exp_step i b : 0 <= i < 254 -> byte_ok b -> gf_mul (gexp (i + 1)) b = xtime (gf_mul (gexp i) b).
Proof.
  unfold byte_ok. intros Hi Hb.
  pose proof (sweep_spec _ 65024 0 exp_step_sweep (i * 256 + b) ltac:(lia)) as S. cbv zeta beta in S.
  replace ((i * 256 + b) / 256) with i in S by lia. replace ((i * 256 + b) mod 256) with b in S by lia. lia.
Qed.

Lemma distr_exp (n : nat) : forall b c, (Z.of_nat n < 255) -> byte_ok b -> byte_ok c ->
  gf_mul (gexp (Z.of_nat n)) (gf_add b c) = gf_add (gf_mul (gexp (Z.of_nat n)) b) (gf_mul (gexp (Z.of_nat n)) c).
Proof.
  induction n as [|n IH]; intros b c Hn Hb Hc.
  - change (gexp (Z.of_nat 0)) with 1. rewrite !gf_mul_1_l by (assumption || apply gf_add_byte; assumption). reflexivity.
  - replace (Z.of_nat (S n)) with (Z.of_nat n + 1) by lia.
    assert (Hg : byte_ok (gexp (Z.of_nat n))) by (destruct (exp_facts (Z.of_nat n) ltac:(lia)); unfold byte_ok; lia).
    rewrite !exp_step by (try lia; try assumption; apply gf_add_byte; assumption).
    rewrite IH by (assumption || lia). unfold gf_add.
    pose proof (sweep2_spec _ xtime_linear (gf_mul (gexp (Z.of_nat n)) b) (gf_mul (gexp (Z.of_nat n)) c)
                  (gf_mul_byte _ _ Hg Hb) (gf_mul_byte _ _ Hg Hc)) as S. cbv beta in S. lia.
Qed.

Theorem gf_distr_l a b c : byte_ok a -> byte_ok b -> byte_ok c ->
  gf_mul a (gf_add b c) = gf_add (gf_mul a b) (gf_mul a c).
Proof.
  intros Ha Hb Hc. destruct (Z.eq_dec a 0) as [->|Hn]; [reflexivity|].
  assert (Na : nz a) by (unfold nz, byte_ok in *; lia). destruct (log_facts a Na) as [Hl He].
  rewrite <- He. replace (glog a) with (Z.of_nat (Z.to_nat (glog a))) by lia. apply distr_exp; [lia | assumption | assumption].
Qed.

Theorem gf_distr_r a b c : byte_ok a -> byte_ok b -> byte_ok c ->
  gf_mul (gf_add a b) c = gf_add (gf_mul a c) (gf_mul b c).
Proof. intros. rewrite gf_mul_comm, gf_distr_l by assumption. rewrite (gf_mul_comm c a), (gf_mul_comm c b). reflexivity. Qed.

(* the reduction polynomial in the source is x^8+x^4+x^3+x^2+1, and the table's generator is x *)
Lemma poly_is_11d : gf_polynomial = 285 /\ gexp 1 = 2.
Proof. split; reflexivity. Qed.

(* ---------------------------------------------------------------- split *)
Lemma split_refuses secret t n rnd : t = 0 \/ n = 0 \/ n < t -> split secret t n rnd = Throw 1.
Proof. unfold split. intros H. destruct ((t =? 0) || (n =? 0)) eqn:E; [reflexivity|]. destruct (n <? t) eqn:E2; [reflexivity | lia]. Qed.

Lemma map_nth_seq_id {A} (d : A) (l : list A) : map (fun j => nth j l d) (seq 0 (length l)) = l.
Proof.
  induction l as [|x l IH]; [reflexivity|]. cbn [length seq map nth]. f_equal.
  rewrite <- seq_shift, map_map. exact IH.
Qed.

Lemma NoDup_map_of_nat l : NoDup l -> NoDup (map Z.of_nat l).
Proof.
  induction 1 as [|x l Hx Hl IH]; cbn [map]; constructor; [|exact IH].
  intros Hin. apply in_map_iff in Hin. destruct Hin as [y [Hy Hin]]. apply Nat2Z.inj in Hy. subst. contradiction.
Qed.

Lemma skipn_plus {A} a : forall b (l : list A), skipn a (skipn b l) = skipn (b + a) l.
Proof. intros b. induction b as [|b IH]; intros l; [reflexivity|]. destruct l as [|x l]; [cbn; destruct a; reflexivity | cbn [skipn Nat.add]; apply IH]. Qed.

Theorem split_indices secret t n rnd : 1 <= t <= n -> n <= 255 ->
  exists shares, split secret t n rnd = Val shares /\
                 map s_index shares = map Z.of_nat (seq 1 (Z.to_nat n)) /\
                 zlen shares = n /\ NoDup (map s_index shares) /\ Forall (fun s => 1 <= s_index s <= 255) shares.
Proof.
  intros Ht Hn. unfold split. assert (E1 : (t =? 0) || (n =? 0) = false) by lia. assert (E2 : (n <? t) = false) by lia.
  rewrite E1, E2. eexists. split; [reflexivity|].
  set (indices := map (fun i => Z.of_nat i) (seq 1 (Z.to_nat n))).
  assert (Hmap : map s_index (map (fun j => {| s_index := nth j indices 0; s_value := column j (split_bytes secret (Z.to_nat (t - 1)) rnd indices) |}) (seq 0 (length indices))) = indices).
  { rewrite map_map. cbn [s_index]. apply map_nth_seq_id. }
  split; [exact Hmap|]. split; [|split].
  - unfold zlen. rewrite map_length, seq_length. unfold indices. rewrite map_length, seq_length. lia.
  - rewrite Hmap. unfold indices. apply NoDup_map_of_nat. apply seq_NoDup.
  - apply Forall_forall. intros s Hs. assert (Hin : In (s_index s) indices) by (rewrite <- Hmap; apply in_map; exact Hs).
    unfold indices in Hin. apply in_map_iff in Hin. destruct Hin as [i [<- Hi]]. apply in_seq in Hi. lia.
Qed.

(* every share value byte is the byte's polynomial evaluated at the share index *)
Lemma split_bytes_nth secret k rnd indices b j : (b < length secret)%nat -> (j < length indices)%nat ->
  nth j (nth b (split_bytes secret k rnd indices) []) 0 =
  evaluate_polynomial (nth j indices 0) (nth b secret 0) (firstn k (skipn (b * k) rnd)).
Proof.
  revert rnd b. induction secret as [|s r IH]; intros rnd b Hb Hj; [simpl in Hb; lia|].
  cbn [split_bytes]. destruct b as [|b].
  - cbn [nth]. rewrite Nat.mul_0_l. cbn [skipn].
    rewrite (nth_indep _ 0 (evaluate_polynomial 0 s (firstn k rnd))) by (rewrite map_length; exact Hj).
    rewrite (map_nth (fun x => evaluate_polynomial x s (firstn k rnd)) indices 0 j). reflexivity.
  - cbn [nth]. rewrite IH by (cbn [length] in Hb; lia || assumption).
    rewrite skipn_plus. replace (k + b * k)%nat with (S b * k)%nat by lia. reflexivity.
Qed.

(* ---------------------------------------------------------------- combine *)
Lemma has_dup_spec l : has_dup l = false <-> NoDup l.
Proof.
  induction l as [|x r IH]; cbn [has_dup]; [split; [constructor | reflexivity]|].
  rewrite orb_false_iff, IH. split.
  - intros [H1 H2]. constructor; [|exact H2]. intros Hin.
    assert (existsb (Z.eqb x) r = true) by (apply existsb_exists; exists x; split; [exact Hin | apply Z.eqb_refl]). congruence.
  - intros H. inversion H as [|? ? Hn Hd]; subst. split; [|exact Hd].
    destruct (existsb (Z.eqb x) r) eqn:E; [|reflexivity]. apply existsb_exists in E. destruct E as [y [Hy Ey]].
    apply Z.eqb_eq in Ey. subst. contradiction.
Qed.

Theorem combine_refuses_too_few shares t : zlen shares < t -> combine shares t = Throw 1.
Proof. intros H. unfold combine. destruct (zlen shares <? t) eqn:E; [reflexivity | lia]. Qed.

Theorem combine_refuses_repeated_index shares t :
  ~ NoDup (map s_index (firstn (Z.to_nat t) shares)) -> combine shares t = Throw 1.
Proof.
  intros H. unfold combine. destruct (zlen shares <? t); [reflexivity|].
  destruct (has_dup (map s_index (firstn (Z.to_nat t) shares))) eqn:E; [reflexivity|].
  apply has_dup_spec in E. contradiction.
Qed.

(* with distinct byte indices every Lagrange denominator is a non-zero byte, so no division can fail *)
Lemma lagrange_term_ok xs i : Forall byte_ok xs -> NoDup xs -> (i < length xs)%nat ->
  byte_ok (fst (lagrange_term xs i)) /\ nz (snd (lagrange_term xs i)).
Proof.
  intros Hb Hn Hi. unfold lagrange_term.
  assert (G : forall js nd, (forall j, In j js -> (j < length xs)%nat) -> byte_ok (fst nd) -> nz (snd nd) ->
            let r := fold_left (fun nd j => if Nat.eqb i j then nd else
                       (gf_mul (fst nd) (nth j xs 0), gf_mul (snd nd) (gf_add (nth j xs 0) (nth i xs 0)))) js nd in
            byte_ok (fst r) /\ nz (snd r)).
  { induction js as [|j js IH]; intros nd Hjs H1 H2; cbn [fold_left]; [split; assumption|].
    apply IH; [intros k Hk; apply Hjs; right; exact Hk | |].
    - destruct (Nat.eqb i j); [exact H1|]. cbn [fst]. apply gf_mul_byte; [exact H1|].
      rewrite Forall_forall in Hb. apply Hb. apply nth_In. apply Hjs. left. reflexivity.
    - destruct (Nat.eqb i j) eqn:E; [exact H2|]. cbn [snd]. apply Nat.eqb_neq in E.
      assert (Hj : (j < length xs)%nat) by (apply Hjs; left; reflexivity).
      rewrite Forall_forall in Hb.
      assert (Bj : byte_ok (nth j xs 0)) by (apply Hb; apply nth_In; exact Hj).
      assert (Bi : byte_ok (nth i xs 0)) by (apply Hb; apply nth_In; exact Hi).
      destruct (lxor_byte _ _ Bj Bi) as [Bx Hz].
      assert (Nx : nz (gf_add (nth j xs 0) (nth i xs 0))).
      { unfold nz, gf_add, byte_ok in *. assert (Z.lxor (nth j xs 0) (nth i xs 0) <> 0); [|lia].
        intros Hc. apply Hz in Hc. apply (NoDup_nth xs 0) in Hc; [lia | exact Hn | exact Hj | exact Hi]. }
      apply (gf_mul_nz _ _ H2 Nx). }
  apply G; [intros j Hj; apply in_seq in Hj; lia | unfold byte_ok; cbn; lia | unfold nz; cbn; lia].
Qed.

Lemma interp_byte_ok xs : Forall byte_ok xs -> NoDup xs -> forall ys i value,
  (i + length ys = length xs)%nat -> exists v, interp_byte xs ys i value = Val v.
Proof.
  intros Hb Hn. induction ys as [|y r IH]; intros i value Hl; cbn [interp_byte]; [eexists; reflexivity|].
  cbn [length] in Hl. destruct (y =? 0); [apply IH; lia|].
  destruct (lagrange_term xs i) as [num den] eqn:E.
  destruct (lagrange_term_ok xs i Hb Hn ltac:(lia)) as [B1 N2]. rewrite E in B1, N2. cbn [fst snd] in B1, N2.
  destruct (gf_div_spec num den B1 ltac:(unfold nz, byte_ok in *; lia)) as [_ D].
  destruct (D ltac:(unfold nz in N2; lia)) as [q [Eq _]]. rewrite Eq. apply IH. lia.
Qed.

Lemma interp_bytes_ok shares : Forall byte_ok (map s_index shares) -> NoDup (map s_index shares) ->
  forall fuel byte, exists secret, interp_bytes fuel byte shares = Val secret /\ length secret = fuel.
Proof.
  intros Hb Hn. induction fuel as [|f IH]; intros byte; cbn [interp_bytes]; [exists []; split; reflexivity|].
  destruct (interp_byte_ok (map s_index shares) Hb Hn (map (fun s => nth byte (s_value s) 0) shares) 0 0
              ltac:(rewrite !map_length; lia)) as [v Ev]. rewrite Ev.
  destruct (IH (S byte)) as [r [Er Lr]]. rewrite Er. exists (v :: r). split; [reflexivity | cbn [length]; lia].
Qed.

(* a set of at least t shares whose first t indices are distinct bytes is never refused: combine returns 32 bytes *)
Theorem combine_total_on_good_sets shares t : 0 <= t <= zlen shares ->
  Forall byte_ok (map s_index shares) -> NoDup (map s_index (firstn (Z.to_nat t) shares)) ->
  exists secret, combine shares t = Val secret /\ length secret = 32%nat.
Proof.
  intros Ht Hb Hn. unfold combine. destruct (zlen shares <? t) eqn:E; [lia|].
  assert (D : has_dup (map s_index (firstn (Z.to_nat t) shares)) = false) by (apply has_dup_spec; exact Hn). rewrite D.
  apply interp_bytes_ok; [|exact Hn]. rewrite Forall_forall in *. intros x Hx. apply Hb.
  apply in_map_iff in Hx. destruct Hx as [s [<- Hs]]. apply in_map. rewrite <- (firstn_skipn (Z.to_nat t) shares).
  apply in_or_app. left. exact Hs.
Qed.

Lemma skipn_cons_nth {A} n : forall (l : list A) d, (n < length l)%nat -> skipn n l = nth n l d :: skipn (S n) l.
Proof.
  induction n as [|n IH]; intros l d H; destruct l as [|x l]; cbn [length] in H; try lia; [reflexivity|].
  cbn [skipn nth]. apply IH. lia.
Qed.

(* threshold 1: the single share IS the secret (the constant polynomial), and combine hands it back *)
Lemma interp_single x y : byte_ok y -> interp_byte [x] [y] 0 0 = Val y.
Proof.
  intros Hy. cbn [interp_byte]. destruct (y =? 0) eqn:E; [f_equal; lia|].
  unfold lagrange_term. cbn [length seq fold_left Nat.eqb fst snd].
  assert (D : gf_div 1 1 = Val 1) by (vm_compute; reflexivity). rewrite D.
  rewrite gf_add_0_l, gf_mul_comm, gf_mul_1_l by exact Hy. reflexivity.
Qed.

Theorem reconstruct_threshold_1 x secret : length secret = 32%nat -> Forall byte_ok secret ->
  combine [{| s_index := x; s_value := secret |}] 1 = Val secret.
Proof.
  intros Hl Hb. set (sh := {| s_index := x; s_value := secret |}).
  assert (G : forall fuel byte, (byte + fuel = 32)%nat ->
              interp_bytes fuel byte [sh] = Val (skipn byte secret)).
  { induction fuel as [|f IH]; intros byte Hbf.
    - cbn [interp_bytes]. rewrite skipn_all2 by lia. reflexivity.
    - cbn [interp_bytes map]. unfold sh at 1 2. cbn [s_index s_value].
      assert (Hy : byte_ok (nth byte secret 0)) by (rewrite Forall_forall in Hb; apply Hb; apply nth_In; lia).
      rewrite (interp_single x _ Hy). rewrite IH by lia.
      f_equal. rewrite (skipn_cons_nth byte secret 0) by lia. reflexivity. }
  unfold combine.
  assert (E1 : (zlen [sh] <? 1) = false) by reflexivity. rewrite E1.
  change (firstn (Z.to_nat 1) [sh]) with [sh].
  assert (E2 : has_dup (map s_index [sh]) = false) by reflexivity. rewrite E2.
  unfold interpolate. rewrite (G 32%nat 0%nat eq_refl). reflexivity.
Qed.
