(* Proofs about model/UploadModel.v (C23). *)
Require Import ZArith List Bool Lia ZifyBool.
Import ListNotations.
Local Open Scope Z_scope.
From EphVerif Require Import lib.Bytes model.UploadModel.

Definition keys (m : list (upload * Z)) : list upload := map fst m.
Definition of_peer (p : Z) (e : upload * Z) : bool := fst (fst e) =? p.
Definition count (p : Z) (m : list (upload * Z)) : Z := zlen (filter (of_peer p) m).

Lemma zlen_cons {A} (x : A) l : zlen (x :: l) = zlen l + 1.
Proof. unfold zlen. cbn [length]. lia. Qed.
Lemma zlen_nil {A} : zlen (@nil A) = 0. Proof. reflexivity. Qed.
Lemma zlen_nonneg {A} (l : list A) : 0 <= zlen l. Proof. unfold zlen. lia. Qed.

Lemma up_eqb_true a b : up_eqb a b = true <-> a = b.
Proof. destruct a as [a1 a2], b as [b1 b2]. unfold up_eqb. cbn [fst snd]. split; [intros H; f_equal; lia | intros H; inversion H; subst; lia]. Qed.
Lemma up_eqb_refl a : up_eqb a a = true. Proof. apply up_eqb_true. reflexivity. Qed.
Lemma up_eqb_false a b : up_eqb a b = false <-> a <> b.
Proof. split; [intros H E; apply up_eqb_true in E; congruence | intros H; destruct (up_eqb a b) eqn:E; [apply up_eqb_true in E; contradiction | reflexivity]]. Qed.

(* ---------- the active map ---------- *)
Lemma act_find_none_notin k m : act_find k m = None <-> ~ In k (keys m).
Proof.
  induction m as [|[k' v] r IH]; cbn [act_find keys map In fst]; [tauto|].
  destruct (up_eqb k' k) eqn:E.
  - apply up_eqb_true in E. subst. split; [discriminate | intros H; exfalso; apply H; left; reflexivity].
  - apply up_eqb_false in E. rewrite IH. unfold keys. tauto.
Qed.

Lemma act_remove_notin k m : ~ In k (keys (act_remove k m)).
Proof.
  unfold act_remove, keys. rewrite in_map_iff. intros [[k' v] [E H]]. cbn [fst] in E. subst.
  apply filter_In in H. destruct H as [_ H]. cbn [fst] in H. rewrite up_eqb_refl in H. discriminate.
Qed.

Lemma act_remove_keys_incl k m x : In x (keys (act_remove k m)) -> In x (keys m).
Proof. unfold act_remove, keys. rewrite !in_map_iff. intros [e [E H]]. exists e. apply filter_In in H. tauto. Qed.

Lemma act_remove_nodup k m : NoDup (keys m) -> NoDup (keys (act_remove k m)).
Proof.
  induction m as [|[k' v] r IH]; cbn [act_remove filter keys map fst]; intros H; [constructor|].
  inversion H as [|? ? Hn Hd]; subst. destruct (negb (up_eqb k' k)); [|apply IH; exact Hd].
  cbn [map fst]. constructor; [|apply IH; exact Hd]. intros Hin. apply Hn. eapply act_remove_keys_incl. exact Hin.
Qed.

Lemma act_remove_absent k m : act_find k m = None -> act_remove k m = m.
Proof.
  induction m as [|[k' v] r IH]; cbn [act_find act_remove filter fst]; intros H; [reflexivity|].
  destruct (up_eqb k' k) eqn:E; [discriminate|]. cbn [negb]. f_equal. apply IH. exact H.
Qed.

Lemma act_set_nodup k v m : NoDup (keys m) -> NoDup (keys (act_set k v m)).
Proof. intros H. unfold act_set. cbn [keys map fst]. constructor; [apply act_remove_notin | apply act_remove_nodup; exact H]. Qed.

Lemma act_find_remove_same k m : act_find k (act_remove k m) = None.
Proof. apply act_find_none_notin. apply act_remove_notin. Qed.

Lemma act_find_remove_other k k' m : k <> k' -> act_find k' (act_remove k m) = act_find k' m.
Proof.
  intros Hne. induction m as [|[k2 v] r IH]; cbn [act_remove filter act_find fst]; [reflexivity|].
  destruct (up_eqb k2 k) eqn:E; cbn [negb].
  - apply up_eqb_true in E. subst. destruct (up_eqb k k') eqn:E2; [apply up_eqb_true in E2; contradiction | exact IH].
  - cbn [act_find]. destruct (up_eqb k2 k'); [reflexivity | exact IH].
Qed.

Lemma count_remove_present p k m : NoDup (keys m) -> act_find k m <> None ->
  count p (act_remove k m) + (if fst k =? p then 1 else 0) = count p m.
Proof.
  unfold count. induction m as [|[k' v] r IH]; cbn [act_find act_remove filter keys map fst]; intros Hd Hf; [congruence|].
  inversion Hd as [|? ? Hn Hd']; subst.
  destruct (up_eqb k' k) eqn:E; cbn [negb].
  - apply up_eqb_true in E. subst k'.
    assert (Ha : act_find k r = None) by (apply act_find_none_notin; exact Hn).
    fold (act_remove k r). rewrite (act_remove_absent k r Ha).
    unfold of_peer at 2. cbn [fst]. destruct (fst k =? p); [rewrite zlen_cons|]; lia.
  - cbn [filter]. fold (act_remove k r). specialize (IH Hd' Hf).
    destruct (of_peer p (k', v)); rewrite ?zlen_cons; lia.
Qed.

Lemma count_remove_le p k m : count p (act_remove k m) <= count p m.
Proof.
  unfold count. induction m as [|[k' v] r IH]; cbn [act_remove filter fst]; [lia|].
  fold (act_remove k r). destruct (negb (up_eqb k' k)); cbn [filter]; destruct (of_peer p (k', v)); rewrite ?zlen_cons; lia.
Qed.

Lemma zlen_remove_le k m : zlen (act_remove k m) <= zlen m.
Proof.
  induction m as [|[k' v] r IH]; cbn [act_remove filter fst]; [lia|].
  fold (act_remove k r). destruct (negb (up_eqb k' k)); rewrite ?zlen_cons; lia.
Qed.

Lemma zlen_remove_present k m : NoDup (keys m) -> act_find k m <> None -> zlen (act_remove k m) + 1 = zlen m.
Proof.
  induction m as [|[k' v] r IH]; cbn [act_find act_remove filter keys map fst]; intros Hd Hf; [congruence|].
  inversion Hd as [|? ? Hn Hd']; subst. fold (act_remove k r).
  destruct (up_eqb k' k) eqn:E; cbn [negb].
  - apply up_eqb_true in E. subst k'. rewrite (act_remove_absent k r) by (apply act_find_none_notin; exact Hn). rewrite zlen_cons. lia.
  - rewrite !zlen_cons. specialize (IH Hd' Hf). lia.
Qed.

Lemma count_set p k v m : count p (act_set k v m) = count p (act_remove k m) + (if fst k =? p then 1 else 0).
Proof. unfold act_set, count. cbn [filter]. unfold of_peer at 1. cbn [fst]. destruct (fst k =? p); rewrite ?zlen_cons; lia. Qed.

(* ---------- the per-peer counters ---------- *)
Lemma pp_get_remove p q m : pp_get p (pp_remove q m) = if q =? p then 0 else pp_get p m.
Proof.
  induction m as [|[q' n] r IH]; cbn [pp_remove filter pp_get fst]; [destruct (q =? p); reflexivity|].
  fold (pp_remove q r). destruct (q' =? q) eqn:E; cbn [negb].
  - rewrite IH. destruct (q =? p) eqn:E2; [reflexivity|]. destruct (q' =? p) eqn:E3; [lia | reflexivity].
  - cbn [pp_get]. destruct (q' =? p) eqn:E3; [destruct (q =? p) eqn:E2; [lia | reflexivity] | exact IH].
Qed.
Lemma pp_get_set p q n m : pp_get p (pp_set q n m) = if q =? p then n else pp_get p m.
Proof. unfold pp_set. cbn [pp_get]. destruct (q =? p) eqn:E; [reflexivity|]. rewrite pp_get_remove, E. reflexivity. Qed.

(* ---------- the invariant ---------- *)
Definition Agree (s : st) : Prop := forall p, pp_get p (per_peer s) = count p (active s).
Definition Lim (c : cfg) (s : st) : Prop :=
  (0 < max_parallel c -> zlen (active s) <= max_parallel c) /\
  (0 < max_per_peer c -> forall p, count p (active s) <= max_per_peer c).
Definition Inv (c : cfg) (s : st) : Prop := NoDup (keys (active s)) /\ Agree s /\ Lim c s.

Lemma Inv_init c t0 : Inv c (init_at t0).
Proof. split; [constructor|]. split; [intros p; reflexivity|]. split; intros; cbn; try lia. Qed.

Lemma count_nonneg p m : 0 <= count p m. Proof. apply zlen_nonneg. Qed.

Lemma note_end_inv c s u : Inv c s -> Inv c (note_end s u).
Proof.
  intros [Hd [Ha [Hg Hp]]]. unfold note_end. destruct (act_find u (active s)) eqn:F; [|repeat split; assumption].
  assert (Fn : act_find u (active s) <> None) by congruence.
  split; [cbn [active]; apply act_remove_nodup; exact Hd|]. split.
  - intros p. cbn [per_peer active]. pose proof (count_remove_present p u (active s) Hd Fn) as C.
    pose proof (Ha (fst u)) as A1. pose proof (Ha p) as A2.
    pose proof (count_remove_present (fst u) u (active s) Hd Fn) as C1. rewrite Z.eqb_refl in C1.
    pose proof (count_nonneg (fst u) (act_remove u (active s))).
    destruct (pp_get (fst u) (per_peer s) <=? 1) eqn:L.
    + rewrite pp_get_remove. destruct (fst u =? p) eqn:E; [|lia]. assert (fst u = p) by lia. subst p. lia.
    + rewrite pp_get_set. destruct (fst u =? p) eqn:E; [|lia]. assert (fst u = p) by lia. subst p. lia.
  - split; cbn [active].
    + intros H. pose proof (zlen_remove_le u (active s)). specialize (Hg H). lia.
    + intros H p. pose proof (count_remove_le p u (active s)). specialize (Hp H p). lia.
Qed.

Lemma note_end_pending s u : pending (note_end s u) = pending s /\ last_rotation (note_end s u) = last_rotation s.
Proof. unfold note_end. destruct (act_find u (active s)); split; reflexivity. Qed.

Lemma fold_note_end_inv c us : forall s, Inv c s -> Inv c (fold_left note_end us s).
Proof. induction us as [|u r IH]; cbn [fold_left]; intros s H; [exact H | apply IH, note_end_inv, H]. Qed.
Lemma fold_note_end_pending us : forall s, pending (fold_left note_end us s) = pending s /\ last_rotation (fold_left note_end us s) = last_rotation s.
Proof.
  induction us as [|u r IH]; cbn [fold_left]; intros s; [split; reflexivity|].
  destruct (IH (note_end s u)) as [A B]. destruct (note_end_pending s u) as [A' B']. split; congruence.
Qed.

Lemma prune_inv c s now : Inv c s -> Inv c (prune c s now).
Proof. intros H. unfold prune. destruct (_ <=? 0); [exact H | apply fold_note_end_inv; exact H]. Qed.
Lemma prune_pending c s now : pending (prune c s now) = pending s /\ last_rotation (prune c s now) = last_rotation s.
Proof. unfold prune. destruct (_ <=? 0); [split; reflexivity | apply fold_note_end_pending]. Qed.

(* starting an upload when the scheduler allows it keeps the invariant *)
Lemma note_start_inv c s u now : 0 <= max_parallel c -> 0 <= max_per_peer c ->
  Inv c s -> can_dispatch c s (fst u) = true -> Inv c (note_start s u now).
Proof.
  intros Hm0 Hp0 [Hd [Ha [Hg Hp]]] Hc. unfold can_dispatch, can_accept in Hc.
  unfold note_start. destruct (act_find u (active s)) eqn:F.
  - (* the upload was active already: refreshed, same slot *)
    assert (Fn : act_find u (active s) <> None) by congruence.
    split; [cbn [active]; apply act_set_nodup; exact Hd|]. split.
    + intros p. cbn [per_peer active]. rewrite count_set. rewrite (count_remove_present p u (active s) Hd Fn). apply Ha.
    + split; cbn [active].
      * intros H. unfold act_set. rewrite zlen_cons. rewrite (zlen_remove_present u (active s) Hd Fn). apply Hg. exact H.
      * intros H p. rewrite count_set. rewrite (count_remove_present p u (active s) Hd Fn). apply Hp. exact H.
  - rewrite (act_remove_absent u (active s) F) || idtac.
    split; [cbn [active]; apply act_set_nodup; exact Hd|]. split.
    + intros p. cbn [per_peer active]. rewrite count_set, (act_remove_absent u (active s) F), pp_get_set.
      destruct (fst u =? p) eqn:E; [assert (fst u = p) by lia; subst p; rewrite Ha; lia | rewrite Ha; lia].
    + split; cbn [active].
      * intros H. unfold act_set. rewrite zlen_cons, (act_remove_absent u (active s) F). lia.
      * intros H p. rewrite count_set, (act_remove_absent u (active s) F).
        destruct (fst u =? p) eqn:E; [|specialize (Hp H p); lia].
        assert (fst u = p) by lia. subst p. rewrite <- Ha. lia.
Qed.

Lemma dispatch_inv c e s u now : 0 <= max_parallel c -> 0 <= max_per_peer c ->
  Inv c s -> can_dispatch c s (fst u) = true -> Inv c (fst (dispatch e s u now)).
Proof.
  intros Hm Hp H Hc. unfold dispatch. destruct (negb (servable e (snd u))); [exact H|].
  destruct (peer_kind e (fst u) =? 1); [apply note_start_inv; assumption | exact H].
Qed.

Lemma Inv_pending_irrelevant c s pd lr : Inv c s -> Inv c (mkSt pd (active s) (per_peer s) lr).
Proof. intros H. exact H. Qed.

Lemma loop_inv c e iter : forall s now out, 0 <= max_parallel c -> 0 <= max_per_peer c ->
  Inv c s -> Inv c (fst (loop c e iter s now out)).
Proof.
  induction iter as [|k IH]; intros s now out Hm Hp H; cbn [loop fst]; [exact H|].
  destruct (negb (can_accept c s)); [exact H|].
  destruct (pending s) as [|u rest]; [exact H|].
  destruct (negb (can_dispatch c (mkSt rest (active s) (per_peer s) (last_rotation s)) (fst u))) eqn:D.
  - apply IH; assumption.
  - destruct (dispatch e (mkSt rest (active s) (per_peer s) (last_rotation s)) u now) as [s2 fr] eqn:E.
    apply IH; try assumption.
    pose proof (dispatch_inv c e (mkSt rest (active s) (per_peer s) (last_rotation s)) u now Hm Hp H) as K.
    rewrite E in K. apply K. destruct (can_dispatch _ _ _); [reflexivity | discriminate].
Qed.

Lemma process_inv c e s now : 0 <= max_parallel c -> 0 <= max_per_peer c -> Inv c s -> Inv c (fst (process c e s now)).
Proof.
  intros Hm Hp H. unfold process. destruct (pending s) as [|u0 r0]; [apply prune_inv; exact H|].
  set (s1 := prune c s now). assert (H1 : Inv c s1) by (apply prune_inv; exact H).
  apply loop_inv; try assumption.
  destruct (pending s1) as [|u [|u' rest]]; try exact H1.
  destruct (_ && _); exact H1.
Qed.

Theorem step_inv c e s now o : 0 <= max_parallel c -> 0 <= max_per_peer c ->
  Inv c s -> Inv c (fst (fst (step c e (s, now) o))).
Proof.
  intros Hm Hp H. destruct o as [p ch|p ch| |dt]; cbn [step].
  - destruct (peer_kind e p =? 0); [exact H|]. destruct (negb (servable e ch)); [exact H|].
    pose proof (process_inv c e (mkSt (pending s ++ [(p, ch)]) (active s) (per_peer s) (last_rotation s)) now Hm Hp H) as K.
    destruct (process _ _ _ _) as [s2 fr]. exact K.
  - pose proof (process_inv c e (note_end s (p, ch)) now Hm Hp (note_end_inv c s (p, ch) H)) as K.
    destruct (process _ _ _ _) as [s2 fr]. exact K.
  - pose proof (process_inv c e s now Hm Hp H) as K. destruct (process _ _ _ _) as [s2 fr]. exact K.
  - exact H.
Qed.

Theorem reachable_inv c e ops : 0 <= max_parallel c -> 0 <= max_per_peer c ->
  forall sn, Inv c (fst sn) -> Inv c (fst (run_ops c e sn ops)).
Proof.
  intros Hm Hp. unfold run_ops. induction ops as [|o r IH]; cbn [fold_left]; intros sn H; [exact H|].
  apply IH. destruct sn as [s now]. apply step_inv; assumption.
Qed.

(* ---------- consequences, in the property's words ---------- *)
(* an acknowledgement (or a time-out) for an upload removes it from the active set *)
Lemma note_end_removes s u : act_find u (active (note_end s u)) = None.
Proof.
  unfold note_end. destruct (act_find u (active s)) eqn:F; [cbn [active]; apply act_find_remove_same | exact F].
Qed.
Lemma note_end_keeps_others s u u' : u <> u' -> act_find u' (active (note_end s u)) = act_find u' (active s).
Proof. intros H. unfold note_end. destruct (act_find u (active s)); [cbn [active]; apply act_find_remove_other; exact H | reflexivity]. Qed.

(* after pruning at `now` every upload that is still active started less than the time-out ago *)
Lemma fold_note_end_active_subset us : forall s x, In x (active (fold_left note_end us s)) -> In x (active s).
Proof.
  induction us as [|u r IH]; cbn [fold_left]; intros s x H; [exact H|].
  specialize (IH _ _ H). unfold note_end in IH. destruct (act_find u (active s)); [|exact IH].
  cbn [active] in IH. unfold act_remove in IH. apply filter_In in IH. tauto.
Qed.
Lemma fold_note_end_absent u us : forall s0, act_find u (active s0) = None -> act_find u (active (fold_left note_end us s0)) = None.
Proof.
  induction us as [|w ws IHw]; cbn [fold_left]; intros s0 H0; [exact H0|]. apply IHw.
  unfold note_end. destruct (act_find w (active s0)) eqn:F; [|exact H0]. cbn [active].
  destruct (up_eqb w u) eqn:E; [apply up_eqb_true in E; subst w; apply act_find_remove_same|].
  apply up_eqb_false in E. rewrite act_find_remove_other by exact E. exact H0.
Qed.
Lemma fold_note_end_removed us : forall s u, In u us -> act_find u (active (fold_left note_end us s)) = None.
Proof.
  induction us as [|u0 r IH]; cbn [fold_left In]; intros s u H; [contradiction|].
  destruct H as [H|H]; [subst u0; apply fold_note_end_absent, note_end_removes | apply IH; exact H].
Qed.

(* after pruning at `now`, no active upload is older than the time-out *)
Theorem prune_leaves_young c s now : NoDup (keys (active s)) -> 0 < transfer_timeout_s c ->
  forall u t, In (u, t) (active (prune c s now)) -> now - t < transfer_timeout_s c * ns.
Proof.
  intros Hd Ht u t Hin. unfold prune in Hin. destruct (transfer_timeout_s c <=? 0) eqn:E; [lia|].
  pose proof (fold_note_end_active_subset _ _ _ Hin) as Hin0.
  destruct (transfer_timeout_s c * ns <=? now - t) eqn:L; [|lia]. exfalso.
  assert (Hu : In u (map fst (filter (fun e => transfer_timeout_s c * ns <=? now - snd e) (active s)))).
  { apply in_map_iff. exists (u, t). split; [reflexivity|]. apply filter_In. split; [exact Hin0 | exact L]. }
  pose proof (fold_note_end_removed _ s u Hu) as Hr.
  apply act_find_none_notin in Hr. apply Hr. unfold keys. apply in_map_iff. exists (u, t). split; [reflexivity | exact Hin].
Qed.

(* a request for a chunk the node cannot serve, from a peer with a live session: exactly one negative ACK, nothing else changes *)
Theorem nack_for_unservable c e s now p ch : peer_kind e p = 1 -> servable e ch = false ->
  step c e (s, now) (Request p ch) = ((s, now), [(0, p, ch)]).
Proof. intros K S. cbn [step]. rewrite K, S. reflexivity. Qed.

(* a request from a peer without a session key is ignored *)
Theorem request_without_key_ignored c e s now p ch : peer_kind e p = 0 ->
  step c e (s, now) (Request p ch) = ((s, now), []).
Proof. intros K. cbn [step]. rewrite K. reflexivity. Qed.

(* the slot count of a peer is exactly its number of active uploads: zero as soon as all of them are acknowledged or timed out *)
Theorem slots_released c s p : Inv c s -> (forall ch, act_find (p, ch) (active s) = None) -> pp_get p (per_peer s) = 0.
Proof.
  intros [_ [Ha _]] H. rewrite Ha. unfold count.
  assert (E : filter (of_peer p) (active s) = []).
  { destruct (filter (of_peer p) (active s)) as [|[[q ch] t] r] eqn:F; [reflexivity|]. exfalso.
    assert (Hin : In ((q, ch), t) (filter (of_peer p) (active s))) by (rewrite F; left; reflexivity).
    apply filter_In in Hin. destruct Hin as [Hin Hq]. unfold of_peer in Hq. cbn [fst] in Hq. assert (q = p) by lia. subst q.
    specialize (H ch). apply act_find_none_notin in H. apply H. unfold keys. apply in_map_iff. exists ((p, ch), t). split; [reflexivity | exact Hin]. }
  rewrite E. reflexivity.
Qed.

(* ---------- frames and uploads ---------- *)
Lemma act_find_set k v m k' : act_find k' (act_set k v m) = if up_eqb k k' then Some v else act_find k' m.
Proof.
  unfold act_set. cbn [act_find]. destruct (up_eqb k k') eqn:E; [reflexivity|].
  apply up_eqb_false in E. apply act_find_remove_other. exact E.
Qed.

Definition Sent (out : list frame) (s : st) (now : Z) : Prop :=
  forall p ch, In (1, p, ch) out -> act_find (p, ch) (active s) = Some now.

Lemma dispatch_sent e s u now out : Sent out s now ->
  Sent (out ++ snd (dispatch e s u now)) (fst (dispatch e s u now)) now.
Proof.
  intros H p ch Hin. unfold dispatch in *.
  destruct (negb (servable e (snd u))).
  - cbn [fst snd] in *. apply in_app_or in Hin. destruct Hin as [Hin|Hin]; [apply H; exact Hin|].
    destruct (peer_kind e (fst u) =? 1); [destruct Hin as [Hin|[]]; inversion Hin | contradiction].
  - destruct (peer_kind e (fst u) =? 1); cbn [fst snd] in *.
    + unfold note_start. cbn [active]. rewrite act_find_set.
      destruct (up_eqb u (p, ch)) eqn:E; [reflexivity|].
      apply in_app_or in Hin. destruct Hin as [Hin|[Hin|[]]]; [apply H; exact Hin|].
      inversion Hin; subst. destruct u as [a b]. cbn [fst snd] in E. rewrite up_eqb_refl in E. discriminate.
    + rewrite app_nil_r in Hin. apply H. exact Hin.
Qed.

Lemma loop_sent c e iter : forall s now out, Sent out s now ->
  Sent (snd (loop c e iter s now out)) (fst (loop c e iter s now out)) now.
Proof.
  induction iter as [|k IH]; intros s now out H; cbn [loop fst snd]; [exact H|].
  destruct (negb (can_accept c s)); [exact H|].
  destruct (pending s) as [|u rest]; [exact H|].
  destruct (negb (can_dispatch c _ (fst u))).
  - apply IH. exact H.
  - pose proof (dispatch_sent e (mkSt rest (active s) (per_peer s) (last_rotation s)) u now out H) as K.
    destruct (dispatch e _ u now) as [s2 fr]. apply IH. exact K.
Qed.

(* every CHUNK frame a step puts on the wire belongs to an upload that is active, started now, after the step *)
Theorem chunk_frames_are_active_uploads c e s now o p ch :
  In (1, p, ch) (snd (step c e (s, now) o)) ->
  act_find (p, ch) (active (fst (fst (step c e (s, now) o)))) = Some now.
Proof.
  assert (P : forall s0, In (1, p, ch) (snd (process c e s0 now)) -> act_find (p, ch) (active (fst (process c e s0 now))) = Some now).
  { intros s0. unfold process. destruct (pending s0); [cbn [snd]; contradiction|].
    intros Hin. eapply loop_sent; [|exact Hin]. intros p' ch' [] . }
  destruct o as [q c0|q c0| |dt]; cbn [step].
  - destruct (peer_kind e q =? 0); [cbn [snd]; contradiction|].
    destruct (negb (servable e c0)).
    + cbn [snd]. destruct (peer_kind e q =? 1); [intros [H|[]]; inversion H | contradiction].
    + specialize (P (mkSt (pending s ++ [(q, c0)]) (active s) (per_peer s) (last_rotation s))).
      destruct (process _ _ _ _) as [s2 fr]. exact P.
  - specialize (P (note_end s (q, c0))). destruct (process _ _ _ _) as [s2 fr]. exact P.
  - specialize (P s). destruct (process _ _ _ _) as [s2 fr]. exact P.
  - cbn [snd]. contradiction.
Qed.
