(* C33: proofs about model/StunModel.v. *)
Require Import ZArith List Bool Lia ZifyBool.
Import ListNotations.
Local Open Scope Z_scope.
From EphVerif Require Import lib.Bytes lib.Outcome model.StunModel gen.Constants_stun.
Ltac Zify.zify_post_hook ::= Z.div_mod_to_equations.

Definition safe {A} (r : res A) : Prop := match r with Ok _ => True | _ => False end.

Lemma safe_bind {A B} (e : res A) (k : A -> res B) a : e = Ok a -> safe (k a) -> safe (bind e k).
Proof. intros -> H. exact H. Qed.

Section Datagram.
Variable data : list Z.
Hypothesis Hdata : bytes_ok data.

Lemma rd_ok i : 0 <= i < zlen data -> exists v, rd data i = Ok v /\ 0 <= v < 256.
Proof.
  intros Hi. unfold rd. destruct ((0 <=? i) && (i <? zlen data)) eqn:E; [|lia].
  eexists. split; [reflexivity|].
  assert (Hin : In (nth (Z.to_nat i) data 0) data) by (apply nth_In; unfold zlen in Hi; lia).
  unfold bytes_ok in Hdata. rewrite Forall_forall in Hdata. exact (Hdata _ Hin).
Qed.

Lemma rd16_ok i : 0 <= i -> i + 1 < zlen data -> exists v, rd16 data i = Ok v /\ 0 <= v < 65536.
Proof.
  intros H0 H1. destruct (rd_ok i ltac:(lia)) as (a & Ea & Ha). destruct (rd_ok (i + 1) ltac:(lia)) as (b & Eb & Hb).
  unfold rd16. rewrite Ea. cbn [bind]. rewrite Eb. cbn [bind]. eexists. split; [reflexivity | lia].
Qed.

Lemma rdn_ok n : forall i, 0 <= i -> i + Z.of_nat n <= zlen data -> exists v, rdn data i n = Ok v.
Proof.
  induction n as [|n IH]; intros i H0 H1; cbn [rdn]; [eauto|].
  destruct (rd_ok i ltac:(lia)) as (a & Ea & _). rewrite Ea. cbn [bind].
  destruct (IH (i + 1) ltac:(lia) ltac:(lia)) as (v & Ev). rewrite Ev. cbn [bind]. eauto.
Qed.

Lemma address_attr_safe txid value al x : 0 <= value -> 4 <= al -> value + al <= zlen data ->
  safe (address_attr data txid value al x).
Proof.
  intros Hv Hal Hlen. unfold address_attr.
  destruct (rd_ok (value + 1) ltac:(lia)) as (fam & Ef & _). rewrite Ef. cbn [bind].
  destruct (rd16_ok (value + 2) ltac:(lia) ltac:(lia)) as (p & Ep & _). rewrite Ep. cbn [bind].
  destruct ((fam =? 1) && (8 <=? al)) eqn:E1.
  - destruct (rdn_ok 4 (value + 4) ltac:(lia) ltac:(lia)) as (b & Eb). rewrite Eb. exact I.
  - destruct ((fam =? 2) && (20 <=? al)) eqn:E2; [|exact I].
    destruct (rdn_ok 16 (value + 4) ltac:(lia) ltac:(lia)) as (b & Eb). rewrite Eb. exact I.
Qed.

(* the loop: never reads outside the datagram and never runs out of fuel *)
Lemma attrs_safe txid fuel : forall offset remaining, 0 <= offset -> 0 <= remaining < 4 * Z.of_nat fuel ->
  safe (attrs fuel data txid offset remaining).
Proof.
  induction fuel as [|fuel IH]; intros offset remaining Ho Hr; [lia|].
  cbn [attrs].
  destruct ((4 <=? remaining) && (offset + 4 <=? zlen data)) eqn:Eloop; cbn [negb]; [|exact I].
  destruct (rd16_ok offset ltac:(lia) ltac:(lia)) as (aty & Eaty & _). rewrite Eaty. cbn [bind].
  destruct (rd16_ok (offset + 2) ltac:(lia) ltac:(lia)) as (al & Eal & Hal). rewrite Eal. cbn [bind].
  destruct ((remaining <? al) || (zlen data <? offset + 4 + al)) eqn:Ebrk; [exact I|].
  assert (Hstep : forall r : result, safe (match r with
            | Some x => Ok (Some x)
            | None => if remaining <? 4 + (al + 3) / 4 * 4 then Ok None
                      else attrs fuel data txid (offset + 4 + (al + 3) / 4 * 4) (remaining - (4 + (al + 3) / 4 * 4))
            end)).
  { intros [x|]; [exact I|]. destruct (remaining <? 4 + (al + 3) / 4 * 4) eqn:E3; [exact I|].
    apply IH; lia. }
  destruct (((aty =? 1) || (aty =? 32)) && (4 <=? al)) eqn:Eaddr.
  - pose proof (address_attr_safe txid (offset + 4) al (aty =? 32) ltac:(lia) ltac:(lia) ltac:(lia)) as Hs.
    destruct (address_attr data txid (offset + 4) al (aty =? 32)) as [r| |]; try contradiction.
    cbn [bind]. apply Hstep.
  - cbn [bind]. apply (Hstep None).
Qed.

(* C33, safety: for any datagram and transaction id, parsing returns (an address or nothing) -- no read outside
   the datagram, no exception, and the loop terminates within its fuel *)
Theorem parse_safe txid : safe (parse data txid).
Proof.
  unfold parse. destruct (zlen data <? 20) eqn:E20; [exact I|].
  destruct (rd16_ok 0 ltac:(lia) ltac:(lia)) as (ty & Ety & _). rewrite Ety. cbn [bind].
  destruct (rd16_ok 2 ltac:(lia) ltac:(lia)) as (mlen & Em & Hm). rewrite Em. cbn [bind].
  destruct (negb (ty =? 257) || (zlen data <? 20 + mlen)) eqn:Ehdr; [exact I|].
  destruct (rdn_ok 12 8 ltac:(lia) ltac:(lia)) as (tid & Et). rewrite Et. cbn [bind].
  destruct (negb (list_eqb tid txid)); [exact I|].
  apply attrs_safe; [lia|]. unfold zlen in *. lia.
Qed.

(* C33, "only": an address is reported only for a Binding Success response (type 0x0101) of at least a header
   whose transaction id field equals the expected one *)
Theorem parse_some_only txid r : parse data txid = Ok (Some r) ->
  20 <= zlen data /\ rd16 data 0 = Ok 257 /\ rdn data 8 12 = Ok txid /\
  exists mlen, rd16 data 2 = Ok mlen /\ 20 + mlen <= zlen data.
Proof.
  unfold parse. destruct (zlen data <? 20) eqn:E20; [discriminate|].
  destruct (rd16 data 0) as [ty| |] eqn:Ety; cbn [bind]; try discriminate.
  destruct (rd16 data 2) as [mlen| |] eqn:Em; cbn [bind]; try discriminate.
  destruct (negb (ty =? 257) || (zlen data <? 20 + mlen)) eqn:Ehdr; [discriminate|].
  destruct (rdn data 8 12) as [tid| |] eqn:Et; cbn [bind]; try discriminate.
  destruct (list_eqb tid txid) eqn:Eq; cbn [negb]; [|discriminate].
  intros _. apply list_eqb_spec in Eq. subst tid.
  assert (ty = 257) by lia. subst ty. repeat split; try lia; try reflexivity. exists mlen. split; [reflexivity | lia].
Qed.
End Datagram.

(* ---- exactness of the XOR decoding: x ^ k ^ k = x, bytewise and for the port ---- *)
Lemma xor_list_involutive a : forall k, (length a <= length k)%nat -> xor_list (xor_list a k) k = a.
Proof.
  induction a as [|x a IH]; intros k Hk; [destruct k; reflexivity|].
  destruct k as [|y k]; [simpl in Hk; lia|]. cbn [xor_list]. rewrite IH by (simpl in Hk; lia).
  rewrite Z.lxor_assoc, Z.lxor_nilpotent, Z.lxor_0_r. reflexivity.
Qed.

Lemma xor_port_involutive p : Z.lxor (Z.lxor p cookie_hi16) cookie_hi16 = p.
Proof. rewrite Z.lxor_assoc, Z.lxor_nilpotent, Z.lxor_0_r. reflexivity. Qed.

Lemma xor_list_length a : forall k, length (xor_list a k) = length a.
Proof. induction a as [|x a IH]; intros [|y k]; cbn [xor_list length]; try reflexivity. rewrite IH. reflexivity. Qed.
