(* Proofs about model/RotationModel.v (C39). *)
Require Import ZArith List Bool Lia.
Import ListNotations.
Local Open Scope Z_scope.
From EphVerif Require Import lib.Bytes model.Sha256Model model.KeyExchangeModel model.ConfigModel
  proofs.MessageProofs proofs.KeyExchangeProofs model.RotationModel.

(* keep the unifier and the kernel from unfolding SHA-256 on symbolic data while comparing record fields *)
Lemma handshake_end_registers priv mp rp iv cd now :
  e_ctx (handshake_end priv mp rp iv cd now) =
  register_with_material (derive_shared_secret priv rp) (make_handshake_material mp rp) now.
Proof. unfold handshake_end, register_with_material, session_key. reflexivity. Qed.
Local Opaque hmac session_key derive_shared_secret compute_public.
Local Strategy opaque [hmac session_key derive_shared_secret compute_public].

(* ---------- one KeyManager context ---------- *)
Lemma rotate_not_due iv c now : now - c_last c < iv * ns_per_s -> rotate_if_needed iv c now = (c, false).
Proof. intros H. unfold rotate_if_needed. destruct (Z.ltb_spec (now - c_last c) (iv * ns_per_s)); [reflexivity | lia]. Qed.

Lemma rotate_due iv c now : iv * ns_per_s <= now - c_last c ->
  rotate_if_needed iv c now =
  (mkCtx (c_shared c) (derive_key (c_shared c) ((c_counter c + 1) mod two64) now) ((c_counter c + 1) mod two64) now, true).
Proof. intros H. unfold rotate_if_needed. destruct (Z.ltb_spec (now - c_last c) (iv * ns_per_s)); [lia | reflexivity]. Qed.

(* a rotation happens exactly when the interval has elapsed on the LOCAL clock, and then the context is re-timed *)
Lemma rotate_iff iv c now : snd (rotate_if_needed iv c now) = true <-> iv * ns_per_s <= now - c_last c.
Proof.
  unfold rotate_if_needed. destruct (Z.ltb_spec (now - c_last c) (iv * ns_per_s)); cbn [snd]; split; intros; try lia; try discriminate; reflexivity.
Qed.

Lemma rotate_shared iv c now : c_shared (fst (rotate_if_needed iv c now)) = c_shared c.
Proof. unfold rotate_if_needed. destruct (_ <? _); reflexivity. Qed.

Lemma rotate_key_length iv c now : length (c_key c) = 32%nat -> length (c_key (fst (rotate_if_needed iv c now))) = 32%nat.
Proof. intros H. unfold rotate_if_needed. destruct (_ <? _); cbn [fst c_key]; [exact H | apply hmac_length]. Qed.

(* ---------- one end ---------- *)
(* the live session always uses the key manager's current key, and is never closed by a rotation *)
Definition EndInv (e : endpoint) : Prop := e_session_key e = c_key (e_ctx e).

Lemma tick_end_inv e now : EndInv e -> EndInv (fst (tick_end e now)).
Proof.
  unfold EndInv, tick_end. intros H. destruct (rotate_if_needed (e_interval e) (e_ctx e) now) as [c r] eqn:E.
  cbn [fst e_session_key e_ctx]. destruct r; [reflexivity|].
  unfold rotate_if_needed in E. destruct (_ <? _); inversion E; subst; exact H.
Qed.

Lemma tick_end_open e now : e_open (fst (tick_end e now)) = e_open e.
Proof. unfold tick_end. destruct (rotate_if_needed _ _ _); reflexivity. Qed.
Lemma tick_end_interval e now : e_interval (fst (tick_end e now)) = e_interval e.
Proof. unfold tick_end. destruct (rotate_if_needed _ _ _); reflexivity. Qed.

Lemma tick_end_not_due e now : now - c_last (e_ctx e) < e_interval e * ns_per_s -> tick_end e now = (e, false).
Proof. intros H. unfold tick_end. rewrite rotate_not_due by exact H. destruct e; reflexivity. Qed.

Lemma tick_end_due e now : e_interval e * ns_per_s <= now - c_last (e_ctx e) ->
  e_session_key (fst (tick_end e now)) =
    derive_key (c_shared (e_ctx e)) ((c_counter (e_ctx e) + 1) mod two64) now
  /\ c_last (e_ctx (fst (tick_end e now))) = now /\ snd (tick_end e now) = true.
Proof. intros H. unfold tick_end. rewrite rotate_due by exact H. cbn. auto. Qed.

(* consecutive rotations of one end are at least one interval apart on its clock *)
Lemma tick_end_last e now :
  c_last (e_ctx (fst (tick_end e now))) = c_last (e_ctx e) \/
  (c_last (e_ctx (fst (tick_end e now))) = now /\ e_interval e * ns_per_s <= now - c_last (e_ctx e)).
Proof.
  destruct (Z.lt_ge_cases (now - c_last (e_ctx e)) (e_interval e * ns_per_s)) as [H|H].
  - left. rewrite tick_end_not_due by exact H. reflexivity.
  - right. split; [apply (tick_end_due e now H) | exact H].
Qed.

(* ---------- the pair ---------- *)
Definition SysInv (s : sys) : Prop := EndInv (s_a s) /\ EndInv (s_b s).
Lemma rehandshake_end_inv e now : EndInv e -> EndInv (rehandshake_end e now).
Proof. unfold EndInv, rehandshake_end. intros H. destruct (_ <? _); [exact H | reflexivity]. Qed.
Lemma rehandshake_end_open e now : e_open (rehandshake_end e now) = e_open e.
Proof. unfold rehandshake_end. destruct (_ <? _); reflexivity. Qed.

Lemma step_inv s op : SysInv s -> SysInv (fst (step s op)).
Proof.
  intros [Ha Hb]. destruct op as [who now]. unfold step.
  destruct (who =? 0); [|destruct (who =? 1); [|destruct (who =? 2)]].
  - pose proof (tick_end_inv (s_a s) now Ha) as H. destruct (tick_end (s_a s) now) as [e r]. split; [exact H | exact Hb].
  - pose proof (tick_end_inv (s_b s) now Hb) as H. destruct (tick_end (s_b s) now) as [e r]. split; [exact Ha | exact H].
  - split; [apply rehandshake_end_inv; exact Ha | exact Hb].
  - split; [exact Ha | apply rehandshake_end_inv; exact Hb].
Qed.
Lemma run_inv ops : forall s, SysInv s -> SysInv (run_ops s ops).
Proof. unfold run_ops. induction ops as [|op r IH]; cbn [fold_left]; intros s H; [exact H | apply IH, step_inv, H]. Qed.

Lemma step_open s op : e_open (s_a (fst (step s op))) = e_open (s_a s) /\ e_open (s_b (fst (step s op))) = e_open (s_b s).
Proof.
  destruct op as [who now]. unfold step. destruct (who =? 0); [|destruct (who =? 1); [|destruct (who =? 2)]].
  - pose proof (tick_end_open (s_a s) now) as H. destruct (tick_end (s_a s) now). cbn in *. auto.
  - pose proof (tick_end_open (s_b s) now) as H. destruct (tick_end (s_b s) now). cbn in *. auto.
  - cbn [fst s_a s_b]. split; [apply rehandshake_end_open | reflexivity].
  - cbn [fst s_a s_b]. split; [reflexivity | apply rehandshake_end_open].
Qed.
(* no rotation ever tears the session down: both ends stay open over every schedule *)
Theorem sessions_stay_open ops : forall s,
  e_open (s_a (run_ops s ops)) = e_open (s_a s) /\ e_open (s_b (run_ops s ops)) = e_open (s_b s).
Proof.
  unfold run_ops. induction ops as [|op r IH]; cbn [fold_left]; intros s; [auto|].
  destruct (IH (fst (step s op))) as [Ha Hb]. destruct (step_open s op) as [Ha' Hb']. split; congruence.
Qed.

(* an op that changes nothing: a tick that is not yet due on the acting node's clock, a repeated handshake inside the
   acting node's cool-down *)
Definition early (s : sys) (op : Z * Z) : Prop :=
  let '(who, now) := op in
  if who =? 0 then now - c_last (e_ctx (s_a s)) < e_interval (s_a s) * ns_per_s
  else if who =? 1 then now - c_last (e_ctx (s_b s)) < e_interval (s_b s) * ns_per_s
  else if who =? 2 then now - e_last_hs (s_a s) < e_cooldown (s_a s) * ns_per_s
  else now - e_last_hs (s_b s) < e_cooldown (s_b s) * ns_per_s.

Lemma rehandshake_end_early e now : now - e_last_hs e < e_cooldown e * ns_per_s -> rehandshake_end e now = e.
Proof. intros H. unfold rehandshake_end. destruct (Z.ltb_spec (now - e_last_hs e) (e_cooldown e * ns_per_s)); [reflexivity | lia]. Qed.

Lemma step_early s op : early s op -> fst (step s op) = s.
Proof.
  destruct op as [who now]. unfold early, step.
  destruct (who =? 0); [|destruct (who =? 1); [|destruct (who =? 2)]]; intros H.
  - rewrite tick_end_not_due by exact H. destruct s; reflexivity.
  - rewrite tick_end_not_due by exact H. destruct s; reflexivity.
  - cbn [fst]. rewrite rehandshake_end_early by exact H. destruct s; reflexivity.
  - cbn [fst]. rewrite rehandshake_end_early by exact H. destruct s; reflexivity.
Qed.

(* while neither clock has passed its interval since the handshake, nothing changes: the ends keep the common key *)
Theorem stable_before_interval ops : forall s, Forall (early s) ops -> run_ops s ops = s.
Proof.
  unfold run_ops. induction ops as [|op r IH]; cbn [fold_left]; intros s H; [reflexivity|].
  inversion H as [|? ? H1 H2]; subst. rewrite step_early by exact H1. apply IH. exact H2.
Qed.

(* the first due tick of an end replaces its key by HMAC(shared, be64 counter || be64 OWN clock reading) *)
Theorem first_rotation_key s now : e_interval (s_a s) * ns_per_s <= now - c_last (e_ctx (s_a s)) ->
  e_session_key (s_a (fst (step s (0, now)))) =
    derive_key (c_shared (e_ctx (s_a s))) ((c_counter (e_ctx (s_a s)) + 1) mod two64) now
  /\ s_b (fst (step s (0, now))) = s_b s.
Proof.
  intros H. unfold step. cbn [Z.eqb]. pose proof (tick_end_due (s_a s) now H) as [K _].
  destruct (tick_end (s_a s) now) as [e r]. cbn in *. auto.
Qed.

(* ---------- after the handshake ---------- *)
Lemma mutual_inv a b ia ib hsa hsb : SysInv (mutual a b ia ib hsa hsb).
Proof. split; reflexivity. Qed.

Lemma keys_agree_iff s : keys_agree s = true <-> e_session_key (s_a s) = e_session_key (s_b s).
Proof. unfold keys_agree. apply list_eqb_spec. Qed.

Lemma mutual_keys a b ia ib hsa hsb :
  e_session_key (s_a (mutual a b ia ib hsa hsb)) = session_key a (compute_public a) (compute_public b) /\
  e_session_key (s_b (mutual a b ia ib hsa hsb)) = session_key b (compute_public b) (compute_public a).
Proof. split; reflexivity. Qed.
Lemma mutual_hs_keys a b ia ib hsa hsb :
  e_hs_key (s_a (mutual a b ia ib hsa hsb)) = session_key a (compute_public a) (compute_public b) /\
  e_hs_key (s_b (mutual a b ia ib hsa hsb)) = session_key b (compute_public b) (compute_public a).
Proof. split; reflexivity. Qed.

Theorem mutual_agrees a b ia ib hsa hsb : 0 <= a < two32 -> 0 <= b < two32 ->
  keys_agree (mutual a b ia ib hsa hsb) = true.
Proof.
  intros Ha Hb. apply keys_agree_iff. destruct (mutual_keys a b ia ib hsa hsb) as [Ka Kb]. rewrite Ka, Kb.
  exact (same_session_key a b Ha Hb).
Qed.

Lemma mutual_open a b ia ib hsa hsb :
  e_open (s_a (mutual a b ia ib hsa hsb)) = true /\ e_open (s_b (mutual a b ia ib hsa hsb)) = true.
Proof. split; reflexivity. Qed.

Lemma mutual_intervals a b ia ib hsa hsb :
  e_interval (s_a (mutual a b ia ib hsa hsb)) = sanitize_key_rotation_interval ia /\
  e_interval (s_b (mutual a b ia ib hsa hsb)) = sanitize_key_rotation_interval ib /\
  c_last (e_ctx (s_a (mutual a b ia ib hsa hsb))) = hsa /\ c_last (e_ctx (s_b (mutual a b ia ib hsa hsb))) = hsb.
Proof. repeat split; reflexivity. Qed.

(* the property as stated: over every schedule the two open ends agree *)
Definition c39_statement : Prop :=
  forall a b ia ib hsa hsb ops, 0 <= a < two32 -> 0 <= b < two32 ->
    let s := run_ops (mutual a b ia ib hsa hsb) ops in
    keys_agree s = true \/ e_open (s_a s) = false \/ e_open (s_b s) = false.

(* witness 1: only A's clock has passed the interval *)
Definition witness1 : sys := run_ops (mutual 3 7 5 5 1000 1000) [(0, 1000 + 5 * ns_per_s)].
(* witness 2: both ends rotate, each when its own clock says so; the readings differ by one nanosecond *)
Definition witness2 : sys :=
  run_ops (mutual 3 7 5 5 1000 1001) [(0, 1000 + 5 * ns_per_s); (1, 1001 + 5 * ns_per_s)].

Lemma witness1_disagrees : keys_agree witness1 = false /\ e_open (s_a witness1) = true /\ e_open (s_b witness1) = true.
Proof. vm_compute. auto. Qed.
Lemma witness2_disagrees : keys_agree witness2 = false /\ e_open (s_a witness2) = true /\ e_open (s_b witness2) = true.
Proof. vm_compute. auto. Qed.

Theorem statement_refuted : ~ c39_statement.
Proof.
  intros H. specialize (H 3 7 5 5 1000 1000 [(0, 1000 + 5 * ns_per_s)]).
  assert (Ha : 0 <= 3 < two32) by (unfold two32; lia). assert (Hb : 0 <= 7 < two32) by (unfold two32; lia).
  specialize (H Ha Hb). cbv zeta in H. fold witness1 in H.
  destruct witness1_disagrees as [K [Oa Ob]]. destruct H as [H|[H|H]]; congruence.
Qed.

(* both ends rotating at the same counter with the same reading do agree: the disagreement comes from the readings *)
Theorem same_reading_same_key sh cnt t : derive_key sh cnt t = derive_key sh cnt t.
Proof. reflexivity. Qed.

Lemma step_a s now : fst (step s (0, now)) = mkSys (fst (tick_end (s_a s) now)) (s_b s).
Proof. unfold step. cbn [Z.eqb]. destruct (tick_end (s_a s) now); reflexivity. Qed.
Lemma step_b s now : fst (step s (1, now)) = mkSys (s_a s) (fst (tick_end (s_b s) now)).
Proof. unfold step. cbn [Z.eqb]. destruct (tick_end (s_b s) now); reflexivity. Qed.

(* ---------- tear-down and re-establishment: the re-handshake ---------- *)
Lemma rehandshake_end_due e now : e_cooldown e * ns_per_s <= now - e_last_hs e ->
  e_session_key (rehandshake_end e now) = e_hs_key e /\ c_counter (e_ctx (rehandshake_end e now)) = 0 /\
  c_last (e_ctx (rehandshake_end e now)) = now /\ e_hs_key (rehandshake_end e now) = e_hs_key e.
Proof. intros H. unfold rehandshake_end. destruct (Z.ltb_spec (now - e_last_hs e) (e_cooldown e * ns_per_s)); [lia|]. cbn. auto. Qed.

Lemma tick_end_hs e now : e_hs_key (fst (tick_end e now)) = e_hs_key e.
Proof. unfold tick_end. destruct (rotate_if_needed _ _ _); reflexivity. Qed.
Lemma rehandshake_end_hs e now : e_hs_key (rehandshake_end e now) = e_hs_key e.
Proof. unfold rehandshake_end. destruct (_ <? _); reflexivity. Qed.
Lemma step_hs s op : e_hs_key (s_a (fst (step s op))) = e_hs_key (s_a s) /\ e_hs_key (s_b (fst (step s op))) = e_hs_key (s_b s).
Proof.
  destruct op as [who now]. unfold step. destruct (who =? 0); [|destruct (who =? 1); [|destruct (who =? 2)]].
  - pose proof (tick_end_hs (s_a s) now) as H. destruct (tick_end (s_a s) now). cbn in *. auto.
  - pose proof (tick_end_hs (s_b s) now) as H. destruct (tick_end (s_b s) now). cbn in *. auto.
  - cbn [fst s_a s_b]. split; [apply rehandshake_end_hs | reflexivity].
  - cbn [fst s_a s_b]. split; [reflexivity | apply rehandshake_end_hs].
Qed.
Lemma run_hs ops : forall s, e_hs_key (s_a (run_ops s ops)) = e_hs_key (s_a s) /\ e_hs_key (s_b (run_ops s ops)) = e_hs_key (s_b s).
Proof.
  unfold run_ops. induction ops as [|op r IH]; cbn [fold_left]; intros s; [auto|].
  destruct (IH (fst (step s op))) as [A B]. destruct (step_hs s op) as [A' B']. split; congruence.
Qed.

Lemma synchronized_rotation_agrees s now :
  c_shared (e_ctx (s_a s)) = c_shared (e_ctx (s_b s)) -> c_counter (e_ctx (s_a s)) = c_counter (e_ctx (s_b s)) ->
  e_interval (s_a s) * ns_per_s <= now - c_last (e_ctx (s_a s)) ->
  e_interval (s_b s) * ns_per_s <= now - c_last (e_ctx (s_b s)) ->
  keys_agree (run_ops s [(0, now); (1, now)]) = true.
Proof.
  intros Hs Hc Ha Hb. unfold run_ops. cbn [fold_left]. apply keys_agree_iff.
  rewrite step_b, step_a. cbn [s_a s_b].
  destruct (tick_end_due (s_a s) now Ha) as [Ka _]. destruct (tick_end_due (s_b s) now Hb) as [Kb _].
  rewrite Ka, Kb, Hs, Hc. reflexivity.
Qed.

Lemma step_2 s t : fst (step s (2, t)) = mkSys (rehandshake_end (s_a s) t) (s_b s).
Proof. reflexivity. Qed.
Lemma step_3 s t : fst (step s (3, t)) = mkSys (s_a s) (rehandshake_end (s_b s) t).
Proof. reflexivity. Qed.

(* whatever happened before -- any rotations on either end -- once both ends take the handshake again (each after its
   cool-down) they are back on one key: the re-establishment branch of the property *)
Theorem rehandshake_reestablishes a b ia ib hsa hsb ops ta tb : 0 <= a < two32 -> 0 <= b < two32 ->
  let s := run_ops (mutual a b ia ib hsa hsb) ops in
  e_cooldown (s_a s) * ns_per_s <= ta - e_last_hs (s_a s) ->
  e_cooldown (s_b s) * ns_per_s <= tb - e_last_hs (s_b s) ->
  keys_agree (run_ops s [(2, ta); (3, tb)]) = true.
Proof.
  intros Ha Hb s Hca Hcb. apply keys_agree_iff. unfold run_ops at 1 2. cbn [fold_left]. rewrite step_3, step_2. cbn [s_a s_b].
  destruct (rehandshake_end_due (s_a s) ta Hca) as [Ka _]. destruct (rehandshake_end_due (s_b s) tb Hcb) as [Kb _].
  rewrite Ka, Kb. subst s.
  destruct (run_hs ops (mutual a b ia ib hsa hsb)) as [A B]. rewrite A, B.
  destruct (mutual_hs_keys a b ia ib hsa hsb) as [A' B']. rewrite A', B'.
  exact (same_session_key a b Ha Hb).
Qed.
