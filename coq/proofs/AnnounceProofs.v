(* Proofs about model/AnnounceModel.v (C21). *)
Require Import ZArith List Bool Lia ZifyBool.
Import ListNotations.
Local Open Scope Z_scope.
From EphVerif Require Import lib.Bytes model.AnnounceModel gen.Constants_announce.

(* ---------------------------------------------------------------- admissibility *)
Theorem accepted_only_if_admissible c ps now a ps' :
  handle c ps now a = (Accepted, ps') ->
  fst (sender_locked ps now) = false /\
  names_sender a = true /\ has_uri a = true /\ verify_pow c a = true /\
  fst (register c (snd (sender_locked ps now)) now) = true /\
  decodes a = true /\ chunk_matches a = true /\ shards_ok a = true /\ ttl_ok a = true /\ assigned_ok a = true.
Proof.
  unfold handle. destruct (sender_locked ps now) as [locked ps1] eqn:E1. cbn [fst snd].
  destruct locked; [discriminate|].
  destruct (names_sender a); cbn [negb]; [|discriminate].
  destruct (has_uri a); cbn [negb]; [|discriminate].
  destruct (verify_pow c a); cbn [negb]; [|discriminate].
  destruct (register c ps1 now) as [passed ps2] eqn:E2. cbn [fst].
  destruct passed; cbn [negb]; [|discriminate].
  destruct (decodes a); cbn [negb]; [|discriminate].
  destruct (chunk_matches a); cbn [negb]; [|discriminate].
  destruct (shards_ok a); cbn [negb]; [|discriminate].
  destruct (ttl_ok a); cbn [negb]; [|discriminate].
  destruct (assigned_ok a); cbn [negb]; [|discriminate].
  intros _. repeat split; reflexivity.
Qed.

(* PoW: with a non-zero difficulty an announce below version 3 never verifies *)
Theorem pow_requires_version_3 c a : pow_difficulty c <> 0 -> verify_pow c a = true -> 3 <= version a /\ pow_ok a = true.
Proof. unfold verify_pow. intros Hd. destruct (pow_difficulty c =? 0) eqn:E; [lia|]. destruct (version a <? 3) eqn:E2; [discriminate|]. intros H. split; [lia | exact H]. Qed.

(* ---------------------------------------------------------------- lock-out *)
Theorem locked_out_is_rejected_unchanged c ps now a l :
  lock ps = Some l -> now < l -> handle c ps now a = (RejectedLocked, ps).
Proof.
  intros Hl Hn. unfold handle, sender_locked. rewrite Hl. assert ((l <=? now) = false) by lia. rewrite H. reflexivity.
Qed.

Theorem lockout_ends_exactly ps now l :
  lock ps = Some l -> l <= now -> fst (sender_locked ps now) = false /\ lock (snd (sender_locked ps now)) = None.
Proof. intros Hl Hn. unfold sender_locked. rewrite Hl. assert ((l <=? now) = true) by lia. rewrite H. split; reflexivity. Qed.

Lemma drop_while_all_false p l : (forall x, In x l -> p x = false) -> drop_while p l = l.
Proof. destruct l as [|x r]; intros H; [reflexivity|]. cbn [drop_while]. rewrite (H x (or_introl eq_refl)). reflexivity. Qed.

(* the third failure inside the failure window locks the peer out for the lock-out duration, from that failure *)
Theorem third_failure_locks ps now t1 t2 :
  lock ps = None -> fails ps = [t1; t2] -> t1 <= t2 <= now -> now - t1 <= announce_failure_window ->
  lock (record_failure ps now) = Some (now + announce_lockout_duration) /\ fails (record_failure ps now) = [].
Proof.
  intros Hl Hf Ho Hw. unfold record_failure. rewrite Hl, Hf.
  rewrite drop_while_all_false by (intros x [<-|[<-|[]]]; lia).
  change (zlen ([t1; t2] ++ [now])) with 3.
  assert (E : (announce_failure_threshold <=? 3) = true) by reflexivity. rewrite E. split; reflexivity.
Qed.

Theorem failure_constants : announce_failure_window = 120 /\ announce_lockout_duration = 180 /\ announce_failure_threshold = 3.
Proof. repeat split; reflexivity. Qed.

(* a failure recorded while locked out does not extend or shorten the lock-out *)
Theorem failure_while_locked_keeps_lock ps now l : lock ps = Some l -> now < l -> lock (record_failure ps now) = Some l.
Proof. intros Hl Hn. unfold record_failure. rewrite Hl. assert ((l <=? now) = false) by lia. rewrite H. reflexivity. Qed.

(* ---------------------------------------------------------------- the throttle: spacing and burst over the whole history *)
(* P = every time the throttle let an announce of this peer through, oldest first (ghost); h = peer_announce_history_ *)
Fixpoint gaps_ok (mi : Z) (l : list Z) : Prop :=
  match l with
  | x :: ((y :: _) as r) => y - x >= mi /\ gaps_ok mi r
  | _ => True
  end.

Definition cfg_ok (c : cfg) : Prop := 0 < min_interval c <= burst_window c /\ 0 < burst_limit c.

Definition TInv (c : cfg) (P h : list Z) (t : Z) : Prop :=
  gaps_ok (min_interval c) P /\ Forall (fun x => x <= t) P /\
  exists pre, P = pre ++ h /\ Forall (fun x => x < t - burst_window c) pre.

Lemma drop_while_split p l : exists d, l = d ++ drop_while p l /\ Forall (fun x => p x = true) d /\
  (match drop_while p l with x :: _ => p x = false | [] => True end).
Proof.
  induction l as [|x r IH]; cbn [drop_while]; [exists []; repeat split; constructor|].
  destruct (p x) eqn:E.
  - destruct IH as [d [H1 [H2 H3]]]. exists (x :: d). split; [cbn [app]; f_equal; exact H1|]. split; [constructor; assumption | exact H3].
  - exists []. repeat split; [constructor | exact E].
Qed.

Lemma gaps_ok_app_last mi P t : gaps_ok mi P -> (P = [] \/ t - last P 0 >= mi) -> gaps_ok mi (P ++ [t]).
Proof.
  induction P as [|x r IH]; intros G H; [exact I|].
  destruct r as [|y r']; cbn [app gaps_ok] in *.
  - destruct H as [H|H]; [discriminate|]. cbn [last] in H. split; [lia | exact I].
  - destruct G as [G1 G2]. split; [exact G1|]. apply IH; [exact G2|]. right. destruct H as [H|H]; [discriminate|]. exact H.
Qed.

Lemma last_app_nonempty {A} (a b : list A) d : b <> [] -> last (a ++ b) d = last b d.
Proof.
  induction a as [|x a IH]; intros H; [reflexivity|]. cbn [app].
  destruct (a ++ b) as [|y l] eqn:E.
  - apply app_eq_nil in E. destruct E as [_ E]. congruence.
  - change (last (x :: y :: l) d) with (last (y :: l) d). apply IH. exact H.
Qed.

Lemma last_in_forall {A} (P : A -> Prop) l d : l <> [] -> Forall P l -> P (last l d).
Proof.
  induction l as [|x r IH]; intros Hn H; [congruence|]. inversion H; subst. destruct r as [|y r']; [exact H2|].
  cbn [last]. apply IH; [discriminate | exact H3].
Qed.

Lemma gaps_ok_tail mi q : forall l, gaps_ok mi (q ++ l) -> gaps_ok mi l.
Proof.
  induction q as [|z q IH]; intros l G; [exact G|]. apply IH. cbn [app] in G.
  destruct (q ++ l) as [|y r]; [exact I | destruct G as [_ G]; exact G].
Qed.

Lemma gaps_ok_ge mi r : 0 < mi -> forall x b, gaps_ok mi (x :: r) -> b <= x -> Forall (fun y => b <= y) (x :: r).
Proof.
  intros Hm. induction r as [|y r IH]; intros x b G Hb; [constructor; [exact Hb | constructor]|].
  destruct G as [G1 G2]. constructor; [exact Hb|]. apply IH; [exact G2 | lia].
Qed.

(* one throttle decision at time t' >= t *)
Theorem register_step c P h t t' : cfg_ok c -> t <= t' -> TInv c P h t ->
  let '(passed, ps') := register c {| hist := h; fails := []; lock := None |} t' in
  let P' := if passed then P ++ [t'] else P in
  TInv c P' (hist ps') t' /\
  (passed = true ->
     (* spacing: at least min_interval after the previous pass *)
     (P = [] \/ t' - last P 0 >= min_interval c) /\
     (* burst: with this one, at most burst_limit passes have a time in [t' - window, t'] *)
     zlen (filter (fun x => t' - burst_window c <=? x) P') <= burst_limit c).
Proof.
  intros (Hc1 & Hc2) Ht (G & Hle & pre & EP & Hpre). unfold register. cbn [hist fails lock].
  assert (Ew : (0 <? burst_window c) = true) by lia. rewrite Ew.
  destruct (drop_while_split (fun x => x <? t' - burst_window c) h) as [d [Eh [Hd Hk]]].
  set (h' := drop_while (fun x => x <? t' - burst_window c) h) in *.
  assert (EP' : P = (pre ++ d) ++ h') by (rewrite EP, Eh at 1; rewrite app_assoc; reflexivity).
  assert (Hpre' : Forall (fun x => x < t' - burst_window c) (pre ++ d)).
  { apply Forall_app. split; [refine (Forall_impl _ _ Hpre); intros x Hx; lia | refine (Forall_impl _ _ Hd); intros x Hx; cbv beta in Hx; lia]. }
  (* everything kept is inside the window, because P is ascending *)
  assert (Hkeep : Forall (fun x => t' - burst_window c <= x) h').
  { destruct h' as [|x0 r0] eqn:Eh'; [constructor|]. apply (gaps_ok_ge (min_interval c)); [lia | | lia].
    apply (gaps_ok_tail _ (pre ++ d)). rewrite <- EP'. exact G. }
  assert (Hcount : forall extra, filter (fun x => t' - burst_window c <=? x) (P ++ extra) = h' ++ filter (fun x => t' - burst_window c <=? x) extra).
  { intros extra. rewrite EP', filter_app, filter_app.
    assert (F1 : filter (fun x => t' - burst_window c <=? x) (pre ++ d) = []).
    { clear -Hpre'. induction Hpre' as [|x l Hx Hl IH]; [reflexivity|]. cbn [filter]. assert ((t' - burst_window c <=? x) = false) by lia. rewrite H. exact IH. }
    assert (F2 : filter (fun x => t' - burst_window c <=? x) h' = h').
    { clear -Hkeep. induction Hkeep as [|x l Hx Hl IH]; [reflexivity|]. cbn [filter]. assert ((t' - burst_window c <=? x) = true) by lia. rewrite H, IH. reflexivity. }
    rewrite F1, F2. reflexivity. }
  assert (Hle' : Forall (fun x => x <= t') P) by (refine (Forall_impl _ _ Hle); intros x Hx; lia).
  destruct h' as [|x0 r0] eqn:Eh'.
  - (* nothing left in the window *)
    cbn [zlen length]. assert (Eb : (0 <? burst_limit c) && (burst_limit c <=? Z.of_nat 0) = false) by lia. unfold zlen. cbn [length]. rewrite Eb.
    cbn [app hist]. split.
    + split; [|split].
      * apply gaps_ok_app_last; [exact G|]. destruct P as [|p0 Pr] eqn:EPP; [left; reflexivity|]. right.
        rewrite <- EPP in *. rewrite app_nil_r in EP'. rewrite EP'.
        assert (last (pre ++ d) 0 < t' - burst_window c). { apply last_in_forall; [rewrite <- EP', EPP; discriminate | exact Hpre']. } lia.
      * apply Forall_app. split; [exact Hle' | constructor; [lia | constructor]].
      * exists (pre ++ d). split; [rewrite EP', app_nil_r; reflexivity | exact Hpre'].
    + intros _. split.
      * destruct P as [|p0 Pr] eqn:EPP; [left; reflexivity|]. right.
        rewrite <- EPP in *. rewrite app_nil_r in EP'. rewrite EP'.
        assert (last (pre ++ d) 0 < t' - burst_window c). { apply last_in_forall; [rewrite <- EP', EPP; discriminate | exact Hpre']. } lia.
      * rewrite (Hcount [t']). cbn [app filter]. assert ((t' - burst_window c <=? t') = true) by lia. rewrite H. unfold zlen. cbn [length]. lia.
  - (* the window still holds passes *)
    assert (Hlast : last P 0 = last (x0 :: r0) 0) by (rewrite EP'; apply last_app_nonempty; discriminate).
    assert (Em : (0 <? min_interval c) = true) by lia. rewrite Em. cbn [andb].
    destruct (t' - last (x0 :: r0) 0 <? min_interval c) eqn:E1.
    + cbn [hist]. split; [|discriminate]. split; [exact G|]. split; [exact Hle'|]. exists (pre ++ d). split; [exact EP' | exact Hpre'].
    + destruct ((0 <? burst_limit c) && (burst_limit c <=? zlen (x0 :: r0))) eqn:E2.
      * cbn [hist]. split; [|discriminate]. split; [exact G|]. split; [exact Hle'|]. exists (pre ++ d). split; [exact EP' | exact Hpre'].
      * cbn [hist]. split.
        -- split; [|split].
           ++ apply gaps_ok_app_last; [exact G|]. right. rewrite Hlast. lia.
           ++ apply Forall_app. split; [exact Hle' | constructor; [lia | constructor]].
           ++ exists (pre ++ d). split; [rewrite EP', <- app_assoc; reflexivity | exact Hpre'].
        -- intros _. split; [right; rewrite Hlast; lia|].
           rewrite (Hcount [t']). cbn [filter]. assert ((t' - burst_window c <=? t') = true) by lia. rewrite H.
           rewrite zlen_app. unfold zlen at 2. cbn [length]. lia.
Qed.

(* any number of throttle decisions at non-decreasing times *)
Fixpoint reg_run (c : cfg) (h P : list Z) (ts : list Z) : list Z * list Z :=
  match ts with
  | [] => (h, P)
  | t' :: r => let '(passed, ps') := register c {| hist := h; fails := []; lock := None |} t' in
               reg_run c (hist ps') (if passed then P ++ [t'] else P) r
  end.

Fixpoint nondecreasing_from (t : Z) (ts : list Z) : Prop :=
  match ts with [] => True | x :: r => t <= x /\ nondecreasing_from x r end.

Theorem throttle_history c ts : cfg_ok c -> forall h P t, nondecreasing_from t ts -> TInv c P h t ->
  let '(h', P') := reg_run c h P ts in gaps_ok (min_interval c) P' /\ exists t', TInv c P' h' t'.
Proof.
  intros Hc. induction ts as [|t' r IH]; intros h P t Hs HI; cbn [reg_run].
  - split; [apply HI | exists t; exact HI].
  - destruct Hs as [Ht Hs]. pose proof (register_step c P h t t' Hc Ht HI) as S.
    destruct (register c {| hist := h; fails := []; lock := None |} t') as [passed ps']. destruct S as [S _].
    apply (IH _ _ t' Hs S).
Qed.

Lemma TInv_init c t : TInv c [] [] t.
Proof. unfold TInv. split; [exact I|]. split; [constructor|]. exists []. split; [reflexivity | constructor]. Qed.

(* the throttle history of handle is that of register: nothing else touches hist *)
Theorem handle_hist c ps now a :
  hist (snd (handle c ps now a)) = hist ps \/
  hist (snd (handle c ps now a)) = hist (snd (register c (snd (sender_locked ps now)) now)).
Proof.
  unfold handle. destruct (sender_locked ps now) as [locked ps1] eqn:E1.
  assert (H1 : hist ps1 = hist ps). { unfold sender_locked in E1. destruct (lock ps); [destruct (z <=? now)|]; injection E1 as _ <-; reflexivity. }
  cbn [snd]. destruct locked; [left; exact H1|].
  assert (RF : forall q t, hist (record_failure q t) = hist q).
  { intros q t. unfold record_failure. destruct (match lock q with Some l => negb (l <=? t) | None => false end); [reflexivity|].
    destruct (announce_failure_threshold <=? _); reflexivity. }
  destruct (negb (names_sender a)); [left; cbn [snd]; rewrite RF; exact H1|].
  destruct (negb (has_uri a)); [left; cbn [snd]; rewrite RF; exact H1|].
  destruct (negb (verify_pow c a)); [left; cbn [snd]; rewrite RF; exact H1|].
  destruct (register c ps1 now) as [passed ps2] eqn:E2. right. cbn [snd].
  destruct (negb passed); [cbn [snd]; apply RF|].
  destruct (negb (decodes a)); [cbn [snd]; apply RF|].
  destruct (negb (chunk_matches a)); [cbn [snd]; apply RF|].
  destruct (negb (shards_ok a)); [cbn [snd]; apply RF|].
  destruct (negb (ttl_ok a)); [cbn [snd]; apply RF|].
  destruct (negb (assigned_ok a)); [cbn [snd]; apply RF|]. reflexivity.
Qed.

(* peers are independent *)
Theorem step_other_peer c st e p : p <> sender e -> pget p (peers (fst (step c st e))) = pget p (peers st).
Proof.
  intros Hne. unfold step. destruct (handle c (pget (sender e) (peers st)) (now st + Z.max 0 (dt e)) (ann e)) as [v ps].
  cbn [fst peers]. unfold pset. cbn [pget]. assert ((sender e =? p) = false) by lia. rewrite H.
  induction (peers st) as [|[k v0] r IH]; cbn [filter pget fst]; [reflexivity|].
  destruct (k =? sender e) eqn:E; cbn [negb pget].
  - assert ((k =? p) = false) by lia. rewrite H0. exact IH.
  - destruct (k =? p); [reflexivity | exact IH].
Qed.
