(* Proofs about model/MessageModel.v: round trip (C15), totality / no out-of-bounds read and
   verbatim decoding (C16), exact-MAC characterisation of signed decoding (C13). *)
Require Import ZArith List Bool Lia ZifyBool.
Import ListNotations.
Local Open Scope Z_scope.
From EphVerif Require Import lib.Bytes spec.Sha256Spec model.Sha256Model model.MessageModel gen.Constants_message gen.Constants_sha256.
Ltac Zify.zify_post_hook ::= Z.div_mod_to_equations.

(* ------------------------------------------------------------------------------------------ *)
(* generic facts                                                                               *)

Lemma zlen_length {A} (l : list A) n : length l = n -> zlen l = Z.of_nat n.
Proof. unfold zlen. intros ->. reflexivity. Qed.

Lemma take_chk_app {A} n a r (k : list Z -> list Z -> outcome A) :
  zlen a = n -> take_chk n (a ++ r) k = k a r.
Proof.
  intros Hn. unfold take_chk. rewrite zlen_app.
  pose proof (zlen_nonneg r). destruct (n <=? zlen a + zlen r) eqn:E; [|lia].
  assert (Z.to_nat n = length a) as -> by (unfold zlen in Hn; lia).
  rewrite firstn_app, Nat.sub_diag, firstn_all, skipn_app, skipn_all, Nat.sub_diag. simpl.
  rewrite app_nil_r. reflexivity.
Qed.

Lemma take_chk_all {A} n a (k : list Z -> list Z -> outcome A) :
  zlen a = n -> take_chk n a k = k a [].
Proof. intros. rewrite <- (app_nil_r a) at 1. apply take_chk_app. assumption. Qed.

Lemma take_chk_ok {A} n l (k : list Z -> list Z -> outcome A) :
  0 <= n -> n <= zlen l ->
  take_chk n l k = k (firstn (Z.to_nat n) l) (skipn (Z.to_nat n) l) /\
  zlen (firstn (Z.to_nat n) l) = n /\ zlen (skipn (Z.to_nat n) l) = zlen l - n /\
  l = firstn (Z.to_nat n) l ++ skipn (Z.to_nat n) l.
Proof.
  intros H0 Hn. unfold take_chk. destruct (n <=? zlen l) eqn:E; [|lia].
  split; [reflexivity|]. unfold zlen in *. rewrite firstn_length, skipn_length.
  split; [lia|]. split; [lia|]. symmetry. apply firstn_skipn.
Qed.

Lemma u32_of_be32 v : 0 <= v < two32 -> u32_of (be32 v) = v.
Proof. unfold two32. intros. unfold u32_of, be32. cbn [nth]. apply rd32_be32. assumption. Qed.

Lemma u64_of_be64 v : 0 <= v < two64 -> u64_of (be64 v) = v.
Proof.
  unfold two64. intros H. unfold u64_of, be64, be32. cbn [nth app]. unfold rd64, rd32. lia.
Qed.

Lemma zlen_be32 v : zlen (be32 v) = 4. Proof. reflexivity. Qed.
Lemma zlen_be64 v : zlen (be64 v) = 8. Proof. reflexivity. Qed.

Lemma list4 (b : list Z) : zlen b = 4 -> b = [nth 0 b 0; nth 1 b 0; nth 2 b 0; nth 3 b 0].
Proof.
  unfold zlen. intros H. do 4 (destruct b as [|? b]; [simpl in H; lia|]).
  destruct b; [reflexivity | simpl in H; lia].
Qed.

Lemma list1 (b : list Z) : zlen b = 1 -> b = [nth 0 b 0].
Proof.
  unfold zlen. intros H. destruct b as [|? b]; [simpl in H; lia|].
  destruct b; [reflexivity | simpl in H; lia].
Qed.

Lemma list8 (b : list Z) : zlen b = 8 ->
  b = [nth 0 b 0; nth 1 b 0; nth 2 b 0; nth 3 b 0; nth 4 b 0; nth 5 b 0; nth 6 b 0; nth 7 b 0].
Proof.
  unfold zlen. intros H. do 8 (destruct b as [|? b]; [simpl in H; lia|]).
  destruct b; [reflexivity | simpl in H; lia].
Qed.

Lemma bytes_ok_nth b i : bytes_ok b -> byte_ok (nth i b 0).
Proof. intros. apply (byte_at_ok b i). assumption. Qed.

Lemma be32_u32_of b : bytes_ok b -> zlen b = 4 -> be32 (u32_of b mod two32) = b.
Proof.
  intros Hok H4. rewrite (list4 b H4) at 2. unfold u32_of.
  pose proof (rd32_range _ _ _ _ (bytes_ok_nth b 0 Hok) (bytes_ok_nth b 1 Hok) (bytes_ok_nth b 2 Hok) (bytes_ok_nth b 3 Hok)) as R.
  unfold two32. rewrite Z.mod_small by exact R.
  apply be32_rd32; apply bytes_ok_nth; assumption.
Qed.

Lemma be64_u64_of b : bytes_ok b -> zlen b = 8 -> be64 (u64_of b mod two64) = b.
Proof.
  intros Hok H8. rewrite (list8 b H8) at 2. unfold u64_of.
  pose proof (rd64_range _ _ _ _ _ _ _ _ (bytes_ok_nth b 0 Hok) (bytes_ok_nth b 1 Hok) (bytes_ok_nth b 2 Hok) (bytes_ok_nth b 3 Hok)
                (bytes_ok_nth b 4 Hok) (bytes_ok_nth b 5 Hok) (bytes_ok_nth b 6 Hok) (bytes_ok_nth b 7 Hok)) as R.
  unfold two64. rewrite Z.mod_small by exact R.
  apply be64_rd64; apply bytes_ok_nth; assumption.
Qed.

Lemma u32_of_range b : bytes_ok b -> 0 <= u32_of b < two32.
Proof. intros. unfold u32_of, two32. apply rd32_range; apply bytes_ok_nth; assumption. Qed.

(* ------------------------------------------------------------------------------------------ *)
(* well-formed messages: fields within their wire ranges                                       *)

Definition id_ok (i : list Z) : Prop := bytes_ok i /\ zlen i = 32.
Definition str_ok (s : list Z) : Prop := bytes_ok s /\ zlen s < two32.

Definition wf_payload (t : Z) (p : payload) : Prop :=
  match p with
  | PAnnounce c pr e ttl man sh nonce =>
      t = msgtype_Announce /\ id_ok c /\ id_ok pr /\ str_ok e /\ str_ok man /\ str_ok sh /\
      0 <= ttl < two32 /\ 0 <= nonce < two64
  | PRequest c r => t = msgtype_Request /\ id_ok c /\ id_ok r
  | PChunk c d ttl => t = msgtype_Chunk /\ id_ok c /\ str_ok d /\ 0 <= ttl < two32
  | PAck c pr _ => t = msgtype_Acknowledge /\ id_ok c /\ id_ok pr
  | PHandshake pub nonce ver =>
      t = msgtype_TransportHandshake /\ 0 <= pub < two32 /\ 0 <= nonce < two64 /\ 0 <= ver < 256
  | PHandshakeAck _ ver pub => t = msgtype_HandshakeAck /\ 0 <= ver < 256 /\ 0 <= pub < two32
  end.

Definition wf (m : message) : Prop :=
  0 <= m_version m < 256 /\ wf_payload (m_type m) (m_payload m).

(* what the receiver sees: the version is clamped into 1..4, and an announce nonce is carried
   only from the version at which the encoder writes it (3 on the repaired tree) *)
Definition carry (m : message) : message :=
  let v := clamp_version (m_version m) in
  {| m_version := v; m_type := m_type m;
     m_payload := match m_payload m with
                  | PAnnounce c pr e ttl man sh nonce =>
                      PAnnounce c pr e ttl man sh (if encoder_pow_version <=? v then nonce else 0)
                  | p => p
                  end |}.

Lemma clamp_range v : 1 <= clamp_version v <= 4.
Proof.
  unfold clamp_version, kMinimumMessageVersion, kCurrentMessageVersion.
  destruct (v <? 1) eqn:?; destruct (4 <? v) eqn:?; lia.
Qed.

Lemma supported_clamp v : is_supported_version (clamp_version v) = true.
Proof.
  unfold is_supported_version, clamp_version, kMinimumMessageVersion, kCurrentMessageVersion.
  destruct (v <? 1) eqn:?; destruct (4 <? v) eqn:?; lia.
Qed.

Lemma pow_versions_agree : encoder_pow_version = decoder_pow_version.
Proof. reflexivity. Qed.

Ltac zl := rewrite ?zlen_app, ?zlen_be32, ?zlen_be64 in *.

Lemma parse_announce_encode c pr e ttl man sh nonce (pw : bool) :
  id_ok c -> id_ok pr -> str_ok e -> str_ok man -> str_ok sh -> 0 <= ttl < two32 -> 0 <= nonce < two64 ->
  parse_announce (be32 (ttl mod two32) ++ be32 (zlen e mod two32) ++ be32 (zlen man mod two32) ++
                  be32 (zlen sh mod two32) ++ c ++ pr ++ e ++ man ++ sh ++
                  (if pw then be64 (nonce mod two64) else [])) pw
  = Ok (Some (PAnnounce c pr e ttl man sh (if pw then nonce else 0))).
Proof.
  intros [Hc Hc32] [Hp Hp32] [He Hel] [Hm Hml] [Hs Hsl] Httl Hn.
  pose proof (zlen_nonneg e). pose proof (zlen_nonneg man). pose proof (zlen_nonneg sh).
  unfold two32, two64 in *.
  rewrite !Z.mod_small by lia.
  unfold parse_announce.
  set (tail := if pw then be64 nonce else []).
  assert (Htail : zlen tail = if pw then 8 else 0) by (unfold tail; destruct pw; reflexivity).
  match goal with |- context [if ?c then Ok None else _] => assert (c = false) as -> end.
  { zl. rewrite Htail, Hc32, Hp32. destruct pw; lia. }
  rewrite take_chk_app by reflexivity.
  rewrite take_chk_app by reflexivity.
  rewrite take_chk_app by reflexivity.
  rewrite take_chk_app by reflexivity.
  cbv zeta.
  rewrite !u32_of_be32 by (unfold two32; lia).
  match goal with |- context [if ?c then Ok None else _] => assert (c = false) as -> end.
  { zl. rewrite Htail, Hc32, Hp32. unfold two64. destruct pw; lia. }
  rewrite take_chk_app by assumption.
  rewrite take_chk_app by assumption.
  rewrite take_chk_app by reflexivity.
  rewrite take_chk_app by reflexivity.
  rewrite take_chk_app by reflexivity.
  unfold tail. destruct pw.
  - rewrite take_chk_all by reflexivity.
    rewrite u64_of_be64 by (unfold two64; lia). reflexivity.
  - reflexivity.
Qed.

Theorem decode_encode (m : message) : wf m -> decode (encode m) = Some (carry m).
Proof.
  destruct m as [v t p]. unfold wf. cbn [m_version m_type m_payload]. intros [Hv Hp].
  unfold decode, encode, decode_chk. cbn [m_version m_type m_payload].
  rewrite (Z.mod_small v 256) by lia.
  set (cv := clamp_version v).
  pose proof (clamp_range v) as Hcv. fold cv in Hcv.
  assert (Ht : 0 <= t < 256).
  { destruct p; cbn in Hp; destruct Hp as [-> _];
      unfold msgtype_Announce, msgtype_Request, msgtype_Chunk, msgtype_Acknowledge,
             msgtype_TransportHandshake, msgtype_HandshakeAck; lia. }
  rewrite (Z.mod_small t 256) by lia.
  match goal with |- context [if ?c then Ok None else _] => assert (c = false) as -> end.
  { change ([cv; t] ++ encode_payload cv p) with ([cv] ++ [t] ++ encode_payload cv p). zl.
    pose proof (zlen_nonneg (encode_payload cv p)). change (zlen [cv]) with 1. change (zlen [t]) with 1. lia. }
  change ([cv; t] ++ encode_payload cv p) with ([cv] ++ [t] ++ encode_payload cv p).
  rewrite take_chk_app by reflexivity. rewrite take_chk_app by reflexivity.
  cbv zeta. change (u8_of [cv]) with cv. change (u8_of [t]) with t.
  unfold cv at 1. rewrite supported_clamp. cbn [negb].
  unfold carry. cbn [m_version m_type m_payload]. fold cv.
  destruct p as [c pr e ttl man sh nonce | c r | c d ttl | c pr acc | pub nonce ver | acc ver pub];
    cbn [wf_payload] in Hp.
  - (* announce *)
    destruct Hp as (-> & Hc & Hpr & He & Hman & Hsh & Httl & Hn).
    rewrite Z.eqb_refl, andb_true_r.
    cbn [encode_payload]. rewrite <- pow_versions_agree.
    destruct (encoder_pow_version <=? cv) eqn:E.
    + rewrite (parse_announce_encode c pr e ttl man sh nonce true) by assumption. reflexivity.
    + unfold decode_payload_v1. rewrite Z.eqb_refl.
      rewrite (parse_announce_encode c pr e ttl man sh nonce false) by assumption. reflexivity.
  - (* request *)
    destruct Hp as (-> & [Hc Hc32] & [Hr Hr32]).
    replace ((decoder_pow_version <=? cv) && (msgtype_Request =? msgtype_Announce)) with false
      by (unfold msgtype_Request, msgtype_Announce; rewrite andb_false_r; reflexivity).
    unfold decode_payload_v1. cbn [encode_payload].
    change (msgtype_Request =? msgtype_Announce) with false. change (msgtype_Request =? msgtype_Request) with true.
    cbv iota.
    match goal with |- context [if ?c then Ok None else _] => assert (c = false) as -> end.
    { zl. lia. }
    rewrite take_chk_app by assumption. rewrite take_chk_all by assumption. reflexivity.
  - (* chunk *)
    destruct Hp as (-> & [Hc Hc32] & [Hd Hdl] & Httl).
    replace ((decoder_pow_version <=? cv) && (msgtype_Chunk =? msgtype_Announce)) with false
      by (unfold msgtype_Chunk, msgtype_Announce; rewrite andb_false_r; reflexivity).
    unfold decode_payload_v1. cbn [encode_payload].
    change (msgtype_Chunk =? msgtype_Announce) with false. change (msgtype_Chunk =? msgtype_Request) with false.
    change (msgtype_Chunk =? msgtype_Chunk) with true. cbv iota.
    pose proof (zlen_nonneg d). unfold two32 in *.
    rewrite !Z.mod_small by lia.
    match goal with |- context [if ?c then Ok None else _] => assert (c = false) as -> end.
    { zl. lia. }
    rewrite take_chk_app by reflexivity. rewrite take_chk_app by reflexivity. cbv zeta.
    rewrite !u32_of_be32 by (unfold two32; lia).
    match goal with |- context [if ?c then Ok None else _] => assert (c = false) as -> end.
    { zl. unfold two64. lia. }
    rewrite take_chk_app by assumption.
    rewrite take_chk_all by reflexivity. reflexivity.
  - (* ack *)
    destruct Hp as (-> & [Hc Hc32] & [Hr Hr32]).
    replace ((decoder_pow_version <=? cv) && (msgtype_Acknowledge =? msgtype_Announce)) with false
      by (unfold msgtype_Acknowledge, msgtype_Announce; rewrite andb_false_r; reflexivity).
    unfold decode_payload_v1. cbn [encode_payload].
    change (msgtype_Acknowledge =? msgtype_Announce) with false. change (msgtype_Acknowledge =? msgtype_Request) with false.
    change (msgtype_Acknowledge =? msgtype_Chunk) with false. change (msgtype_Acknowledge =? msgtype_Acknowledge) with true.
    cbv iota.
    match goal with |- context [if ?c then Ok None else _] => assert (c = false) as -> end.
    { zl. change (zlen [bool_byte acc]) with 1. lia. }
    rewrite take_chk_app by reflexivity. rewrite take_chk_app by assumption.
    rewrite take_chk_all by assumption.
    destruct acc; reflexivity.
  - (* handshake *)
    destruct Hp as (-> & Hpub & Hn & Hver).
    replace ((decoder_pow_version <=? cv) && (msgtype_TransportHandshake =? msgtype_Announce)) with false
      by (unfold msgtype_TransportHandshake, msgtype_Announce; rewrite andb_false_r; reflexivity).
    unfold decode_payload_v1. cbn [encode_payload].
    change (msgtype_TransportHandshake =? msgtype_Announce) with false.
    change (msgtype_TransportHandshake =? msgtype_Request) with false.
    change (msgtype_TransportHandshake =? msgtype_Chunk) with false.
    change (msgtype_TransportHandshake =? msgtype_Acknowledge) with false.
    change (msgtype_TransportHandshake =? msgtype_TransportHandshake) with true. cbv iota.
    unfold two32, two64 in *. rewrite !Z.mod_small by lia.
    match goal with |- context [if ?c then Ok None else _] => assert (c = false) as -> end.
    { zl. change (zlen [ver]) with 1. lia. }
    rewrite take_chk_app by reflexivity. rewrite take_chk_app by reflexivity.
    rewrite take_chk_all by reflexivity.
    rewrite u32_of_be32 by (unfold two32; lia). rewrite u64_of_be64 by (unfold two64; lia). reflexivity.
  - (* handshake ack *)
    destruct Hp as (-> & Hver & Hpub).
    replace ((decoder_pow_version <=? cv) && (msgtype_HandshakeAck =? msgtype_Announce)) with false
      by (unfold msgtype_HandshakeAck, msgtype_Announce; rewrite andb_false_r; reflexivity).
    unfold decode_payload_v1. cbn [encode_payload].
    change (msgtype_HandshakeAck =? msgtype_Announce) with false.
    change (msgtype_HandshakeAck =? msgtype_Request) with false.
    change (msgtype_HandshakeAck =? msgtype_Chunk) with false.
    change (msgtype_HandshakeAck =? msgtype_Acknowledge) with false.
    change (msgtype_HandshakeAck =? msgtype_TransportHandshake) with false.
    change (msgtype_HandshakeAck =? msgtype_HandshakeAck) with true. cbv iota.
    unfold two32 in *. rewrite !Z.mod_small by lia.
    change ([bool_byte acc; ver] ++ be32 pub) with ([bool_byte acc] ++ [ver] ++ be32 pub).
    match goal with |- context [if ?c then Ok None else _] => assert (c = false) as -> end.
    { zl. change (zlen [bool_byte acc]) with 1. change (zlen [ver]) with 1. lia. }
    rewrite take_chk_app by reflexivity. rewrite take_chk_app by reflexivity.
    rewrite take_chk_all by reflexivity.
    rewrite u32_of_be32 by (unfold two32; lia).
    destruct acc; reflexivity.
Qed.

(* a version outside 1..4 is encoded exactly like the nearest supported version *)
Theorem encode_clamps (m : message) : 0 <= m_version m < 256 ->
  encode m = encode {| m_version := clamp_version (m_version m); m_type := m_type m; m_payload := m_payload m |}.
Proof.
  intros Hv. unfold encode. cbn [m_version m_type m_payload].
  pose proof (clamp_range (m_version m)) as Hc.
  rewrite (Z.mod_small (m_version m)) by lia.
  rewrite (Z.mod_small (clamp_version (m_version m))) by lia.
  assert (clamp_version (clamp_version (m_version m)) = clamp_version (m_version m)) as ->.
  { revert Hc. generalize (clamp_version (m_version m)). intros z Hz.
    unfold clamp_version, kMinimumMessageVersion, kCurrentMessageVersion.
    destruct (z <? 1) eqn:?; destruct (4 <? z) eqn:?; lia. }
  reflexivity.
Qed.

(* ------------------------------------------------------------------------------------------ *)
(* C16: the decoder never reads outside the buffer, and what it accepts is read verbatim        *)

Lemma take_chk_step {A} n l (k : list Z -> list Z -> outcome A) (P : outcome A -> Prop) :
  0 <= n -> n <= zlen l ->
  (forall a r, zlen a = n -> zlen r = zlen l - n -> l = a ++ r -> P (k a r)) ->
  P (take_chk n l k).
Proof.
  intros H0 Hn HP. destruct (take_chk_ok n l k H0 Hn) as (-> & Ha & Hr & Hl).
  apply HP; assumption.
Qed.

Ltac split_ok H :=
  match type of H with
  | bytes_ok (_ ++ _) => let H1 := fresh "Hok" in let H2 := fresh "Hok" in
                         apply bytes_ok_app_inv in H; destruct H as [H1 H2]
  end.

Ltac step :=
  apply take_chk_step; [lia | lia |];
  let a := fresh "a" in let r := fresh "r" in let Ha := fresh "Ha" in let Hr := fresh "Hr" in
  let Hl := fresh "Hl" in
  intros a r Ha Hr Hl;
  match goal with
  | Hok : bytes_ok ?l |- _ => match type of Hl with l = _ => rewrite Hl in Hok; split_ok Hok end
  end.

(* the result of a successful announce parse, with the exact byte layout it was read from *)
Lemma parse_announce_spec data pw :
  bytes_ok data ->
  parse_announce data pw <> UB /\
  forall p v, (encoder_pow_version <=? v) = pw -> parse_announce data pw = Ok (Some p) ->
    exists r, data = encode_payload v p ++ r.
Proof.
  intros Hok. unfold parse_announce.
  set (extra := if pw then 8 else 0).
  assert (Hextra : 0 <= extra <= 8) by (unfold extra; destruct pw; lia).
  destruct (zlen data <? 16 + 32 + 32 + extra) eqn:E0.
  { split; [discriminate | intros p v Hv Hp; discriminate]. }
  step. step. step. step. cbv zeta.
  pose proof (u32_of_range a ltac:(assumption)) as R0. pose proof (u32_of_range a0 ltac:(assumption)) as R1.
  pose proof (u32_of_range a1 ltac:(assumption)) as R2. pose proof (u32_of_range a2 ltac:(assumption)) as R3.
  unfold two32 in R0, R1, R2, R3.
  match goal with |- context [if ?c then Ok None else _] => destruct c eqn:E1 end.
  { split; [discriminate | intros p v Hv Hp; discriminate]. }
  unfold two64 in E1.
  step. step. step. step. step.
  assert (Hdata : data = a ++ a0 ++ a1 ++ a2 ++ a3 ++ a4 ++ a5 ++ a6 ++ a7 ++ r7).
  { rewrite Hl, Hl0, Hl1, Hl2, Hl3, Hl4, Hl5, Hl6, Hl7. reflexivity. }
  destruct pw.
  - step. split; [discriminate|]. intros p v Hv Hp. injection Hp as <-.
    exists r8. cbn [encode_payload]. rewrite Hv.
    rewrite Ha6, Ha7, Ha5.
    rewrite !be32_u32_of by assumption. rewrite be64_u64_of by assumption.
    rewrite Hdata, Hl8. rewrite <- !app_assoc. reflexivity.
  - split; [discriminate|]. intros p v Hv Hp. injection Hp as <-.
    exists r7. cbn [encode_payload]. rewrite Hv.
    rewrite Ha6, Ha7, Ha5.
    rewrite !be32_u32_of by assumption.
    rewrite Hdata. rewrite <- !app_assoc. reflexivity.
Qed.

Lemma decode_bool_byte b acc : decode_bool b = Some acc -> b = bool_byte acc.
Proof.
  unfold decode_bool. destruct (b =? 0) eqn:E0; [intros H; injection H as <-; simpl; lia|].
  destruct (b =? 1) eqn:E1; [intros H; injection H as <-; simpl; lia | discriminate].
Qed.

Lemma decode_payload_v1_spec t data :
  bytes_ok data ->
  decode_payload_v1 t data <> UB /\
  forall p v, (encoder_pow_version <=? v) = false \/ t <> msgtype_Announce ->
    decode_payload_v1 t data = Ok (Some p) ->
    exists r, data = encode_payload v p ++ r.
Proof.
  intros Hok. unfold decode_payload_v1.
  destruct (t =? msgtype_Announce) eqn:Ta.
  { destruct (parse_announce_spec data false Hok) as [Hn Hs]. split; [exact Hn|].
    intros p v [Hv|Hv] Hp; [eapply Hs; eassumption | lia]. }
  destruct (t =? msgtype_Request) eqn:Tr.
  { destruct (zlen data <? 64) eqn:E0; [split; [discriminate | intros p v _ Hp; discriminate]|].
    step. step. split; [discriminate|]. intros p v _ Hp. injection Hp as <-.
    exists r0. cbn [encode_payload]. rewrite Hl, Hl0, <- app_assoc. reflexivity. }
  destruct (t =? msgtype_Chunk) eqn:Tc.
  { destruct (zlen data <? 8 + 32) eqn:E0; [split; [discriminate | intros p v _ Hp; discriminate]|].
    step. step. cbv zeta.
    pose proof (u32_of_range a0 ltac:(assumption)) as R1. unfold two32 in R1.
    match goal with |- context [if ?c then Ok None else _] => destruct c eqn:E1 end.
    { split; [discriminate | intros p v _ Hp; discriminate]. }
    unfold two64 in E1.
    step. step. split; [discriminate|]. intros p v _ Hp. injection Hp as <-.
    exists r2. cbn [encode_payload]. rewrite Ha2.
    rewrite !be32_u32_of by assumption.
    rewrite Hl, Hl0, Hl1, Hl2. rewrite <- !app_assoc. reflexivity. }
  destruct (t =? msgtype_Acknowledge) eqn:Tk.
  { destruct (zlen data <? 1 + 32 + 32) eqn:E0; [split; [discriminate | intros p v _ Hp; discriminate]|].
    step. step. step.
    destruct (decode_bool (u8_of a)) as [acc|] eqn:Eb; [|split; [discriminate | intros p v _ Hp; discriminate]].
    split; [discriminate|]. intros p v _ Hp. injection Hp as <-.
    exists r1. cbn [encode_payload]. apply decode_bool_byte in Eb. rewrite <- Eb.
    unfold u8_of. rewrite <- (list1 a Ha).
    rewrite Hl, Hl0, Hl1. rewrite <- !app_assoc. reflexivity. }
  destruct (t =? msgtype_TransportHandshake) eqn:Th.
  { destruct (zlen data <? 4 + 8 + 1) eqn:E0; [split; [discriminate | intros p v _ Hp; discriminate]|].
    step. step. step.
    split; [discriminate|]. intros p v _ Hp. injection Hp as <-.
    exists r1. cbn [encode_payload].
    rewrite be32_u32_of by assumption. rewrite be64_u64_of by assumption.
    pose proof (bytes_ok_nth a1 0 ltac:(assumption)) as B. unfold byte_ok in B.
    unfold u8_of. rewrite Z.mod_small by lia. rewrite <- (list1 a1 Ha1).
    rewrite Hl, Hl0, Hl1. rewrite <- !app_assoc. reflexivity. }
  destruct (t =? msgtype_HandshakeAck) eqn:Tha.
  { destruct (zlen data <? 1 + 1 + 4) eqn:E0; [split; [discriminate | intros p v _ Hp; discriminate]|].
    step. step. step.
    destruct (decode_bool (u8_of a)) as [acc|] eqn:Eb; [|split; [discriminate | intros p v _ Hp; discriminate]].
    split; [discriminate|]. intros p v _ Hp. injection Hp as <-.
    exists r1. cbn [encode_payload]. apply decode_bool_byte in Eb. rewrite <- Eb.
    rewrite be32_u32_of by assumption.
    pose proof (bytes_ok_nth a0 0 ltac:(assumption)) as B. unfold byte_ok in B.
    unfold u8_of. rewrite Z.mod_small by lia.
    change [nth 0 a 0; nth 0 a0 0] with ([nth 0 a 0] ++ [nth 0 a0 0]).
    rewrite <- (list1 a Ha), <- (list1 a0 Ha0).
    rewrite Hl, Hl0, Hl1. rewrite <- !app_assoc. reflexivity. }
  split; [discriminate | intros p v _ Hp; discriminate].
Qed.

Theorem decode_chk_no_ub buf : bytes_ok buf -> decode_chk buf <> UB.
Proof.
  intros Hok. unfold decode_chk.
  destruct (zlen buf <? 2) eqn:E0; [discriminate|].
  step. step. cbv zeta.
  destruct (negb (is_supported_version (u8_of a))); [discriminate|].
  match goal with |- context [if ?c then parse_announce _ true else _] => destruct c end.
  - destruct (parse_announce_spec r0 true ltac:(assumption)) as [Hn _].
    destruct (parse_announce r0 true) as [[p|]|]; [discriminate | discriminate | contradiction].
  - destruct (decode_payload_v1_spec (u8_of a0) r0 ltac:(assumption)) as [Hn _].
    destruct (decode_payload_v1 (u8_of a0) r0) as [[p|]|]; [discriminate | discriminate | contradiction].
Qed.

Theorem decode_verbatim buf m : bytes_ok buf -> decode buf = Some m -> exists r, buf = encode m ++ r.
Proof.
  intros Hok. unfold decode, decode_chk.
  destruct (zlen buf <? 2) eqn:E0; [discriminate|].
  step. step. cbv zeta.
  destruct (is_supported_version (u8_of a)) eqn:Es; cbn [negb]; [|discriminate].
  pose proof (bytes_ok_nth a 0 ltac:(assumption)) as Bv. pose proof (bytes_ok_nth a0 0 ltac:(assumption)) as Bt.
  unfold byte_ok in Bv, Bt. fold (u8_of a) in Bv. fold (u8_of a0) in Bt.
  assert (Hclamp : clamp_version (u8_of a mod 256) = u8_of a).
  { rewrite Z.mod_small by lia. revert Es. unfold is_supported_version, clamp_version,
      kMinimumMessageVersion, kCurrentMessageVersion.
    destruct (u8_of a <? 1) eqn:?; destruct (4 <? u8_of a) eqn:?; lia. }
  assert (Hhead : buf = [u8_of a; u8_of a0] ++ r0).
  { rewrite Hl, Hl0. unfold u8_of. rewrite (list1 a Ha) at 1. rewrite (list1 a0 Ha0) at 1. reflexivity. }
  match goal with |- context [if ?c then parse_announce _ true else _] => destruct c eqn:Ec end.
  - destruct (parse_announce_spec r0 true ltac:(assumption)) as [_ Hs].
    destruct (parse_announce r0 true) as [[p|]|] eqn:Ep; try discriminate.
    intros H. injection H as <-.
    destruct (Hs p (u8_of a) ltac:(unfold encoder_pow_version, decoder_pow_version, announce_pow_encode_from, announce_pow_decode_from, msgtype_Announce in *; lia) eq_refl) as [r' Hr'].
    exists r'. unfold encode. cbn [m_version m_type m_payload]. rewrite Hclamp.
    rewrite (Z.mod_small (u8_of a0)) by lia. rewrite Hhead at 1. rewrite Hr'.
    rewrite <- app_assoc. reflexivity.
  - destruct (decode_payload_v1_spec (u8_of a0) r0 ltac:(assumption)) as [_ Hs].
    destruct (decode_payload_v1 (u8_of a0) r0) as [[p|]|] eqn:Ep; try discriminate.
    intros H. injection H as <-.
    destruct (Hs p (u8_of a) ltac:(unfold encoder_pow_version, decoder_pow_version, announce_pow_encode_from, announce_pow_decode_from, msgtype_Announce in *; lia) eq_refl) as [r' Hr'].
    exists r'. unfold encode. cbn [m_version m_type m_payload]. rewrite Hclamp.
    rewrite (Z.mod_small (u8_of a0)) by lia. rewrite Hhead at 1. rewrite Hr'.
    rewrite <- app_assoc. reflexivity.
Qed.

(* ------------------------------------------------------------------------------------------ *)
(* C13: signed decoding accepts exactly the buffers whose last 32 bytes are the HMAC of the rest *)

Lemma or_fold_zero (e m : list Z) d :
  length e = length m ->
  (fold_left (fun d p => Z.lor d (Z.lxor (fst p) (snd p))) (combine e m) d = 0 <-> d = 0 /\ e = m).
Proof.
  revert m d. induction e as [|x e IH]; intros [|y m] d Hlen; simpl in Hlen; try discriminate.
  - simpl. split; [intros ->; split; reflexivity | intros [-> _]; reflexivity].
  - cbn [combine fold_left fst snd]. rewrite IH by (injection Hlen; auto).
    rewrite Z.lor_eq_0_iff, Z.lxor_eq_0_iff. split.
    + intros [[-> ->] ->]. split; reflexivity.
    + intros [-> H]. injection H as -> ->. repeat split; reflexivity.
Qed.

Lemma finalize_length s : length (finalize s) = 32%nat.
Proof.
  unfold finalize. destruct (Nat.ltb 56 (length (buf s ++ [128]))); reflexivity.
Qed.

Lemma hmac_length key data : length (hmac key data) = 32%nat.
Proof. unfold hmac. apply finalize_length. Qed.

Theorem hmac_verify_iff key data mac : hmac_verify key data mac = true <-> mac = hmac key data.
Proof.
  unfold hmac_verify. pose proof (hmac_length key data) as HL.
  destruct (zlen mac =? hmac_digest_size) eqn:E; cbn [negb].
  - assert (Hlen : length (hmac key data) = length mac).
    { rewrite HL. unfold zlen, hmac_digest_size in E. lia. }
    rewrite Z.eqb_eq. rewrite (or_fold_zero (hmac key data) mac 0 Hlen). split.
    + intros [_ H]. symmetry. exact H.
    + intros ->. split; reflexivity.
  - split; [discriminate|]. intros ->. unfold zlen, hmac_digest_size in E. rewrite HL in E. lia.
Qed.

Definition body (buf : list Z) : list Z := firstn (length buf - 32) buf.
Definition tag (buf : list Z) : list Z := skipn (length buf - 32) buf.

Theorem decode_signed_iff buf key m :
  decode_signed buf key = Some m <->
  (32 <= length buf)%nat /\ tag buf = hmac key (body buf) /\ decode (body buf) = Some m.
Proof.
  unfold decode_signed, decode_signed_chk, body, tag, decode.
  destruct (zlen buf <? 32) eqn:E.
  - split; [discriminate|]. intros [H _]. unfold zlen in E. lia.
  - destruct (hmac_verify key (firstn (length buf - 32) buf) (skipn (length buf - 32) buf)) eqn:V.
    + apply hmac_verify_iff in V. split.
      * intros H. split; [unfold zlen in E; lia|]. split; [exact V | exact H].
      * intros (_ & _ & H). exact H.
    + split; [discriminate|]. intros (_ & Ht & _). apply hmac_verify_iff in Ht. congruence.
Qed.

Theorem decode_signed_no_ub buf key : bytes_ok buf -> decode_signed_chk buf key <> UB.
Proof.
  intros Hok. unfold decode_signed_chk. destruct (zlen buf <? 32); [discriminate|].
  destruct (hmac_verify _ _ _); [|discriminate].
  apply decode_chk_no_ub, bytes_ok_firstn, Hok.
Qed.

Theorem decode_signed_encode_signed m key : wf m ->
  decode_signed (encode_signed m key) key = Some (carry m).
Proof.
  intros Hwf. apply decode_signed_iff. unfold encode_signed, body, tag.
  rewrite app_length, hmac_length.
  replace (length (encode m) + 32 - 32)%nat with (length (encode m)) by lia.
  rewrite firstn_app, Nat.sub_diag, firstn_all, skipn_app, skipn_all, Nat.sub_diag. simpl.
  rewrite app_nil_r. split; [lia|]. split; [reflexivity|]. apply decode_encode. exact Hwf.
Qed.

(* any change confined to the last 32 bytes is rejected -- unconditionally *)
Theorem tag_tamper_rejected b t key :
  length t = 32%nat -> t <> hmac key b -> decode_signed (b ++ t) key = None.
Proof.
  intros Ht Hne. destruct (decode_signed (b ++ t) key) as [m|] eqn:E; [|reflexivity].
  apply decode_signed_iff in E. destruct E as (_ & Htag & _).
  unfold tag, body in Htag. rewrite app_length, Ht in Htag.
  replace (length b + 32 - 32)%nat with (length b) in Htag by lia.
  rewrite firstn_app, Nat.sub_diag, firstn_all, skipn_app, skipn_all, Nat.sub_diag in Htag. simpl in Htag.
  rewrite app_nil_r in Htag. contradiction.
Qed.

(* a changed body (bit flip, truncation, extension, reordering) or another key is rejected unless
   the trailing 32 bytes happen to be the HMAC of the new body under the verifying key -- that
   residual possibility is exactly HMAC forgery, a cryptographic assumption, not a theorem *)
Theorem body_or_key_tamper_rejected buf key :
  (32 <= length buf)%nat -> tag buf <> hmac key (body buf) -> decode_signed buf key = None.
Proof.
  intros _ Hne. destruct (decode_signed buf key) as [m|] eqn:E; [|reflexivity].
  apply decode_signed_iff in E. destruct E as (_ & Htag & _). contradiction.
Qed.

Theorem short_rejected buf key : (length buf < 32)%nat -> decode_signed buf key = None.
Proof.
  intros H. destruct (decode_signed buf key) as [m|] eqn:E; [|reflexivity].
  apply decode_signed_iff in E. lia.
Qed.
