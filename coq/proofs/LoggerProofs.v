(* C37: proofs about model/LoggerModel.v. *)
Require Import ZArith List Bool Lia ZifyBool.
Import ListNotations.
Local Open Scope Z_scope.
From EphVerif Require Import lib.Bytes model.LoggerModel.
Ltac Zify.zify_post_hook ::= Z.div_mod_to_equations.

(* ---- \u00XX escapes of control bytes decode to the byte (finite sweep over the 32 control bytes) ---- *)
Lemma ctl_sweep :
  forallb (fun c => match hex4 (hexd ((c / 4096) mod 16)) (hexd ((c / 256) mod 16)) (hexd ((c / 16) mod 16)) (hexd (c mod 16))
                    with Some v => v =? c | None => false end) (map Z.of_nat (seq 0 32)) = true.
Proof. vm_compute. reflexivity. Qed.

Lemma ctl_hex4 c : 0 <= c < 32 ->
  hex4 (hexd ((c / 4096) mod 16)) (hexd ((c / 256) mod 16)) (hexd ((c / 16) mod 16)) (hexd (c mod 16)) = Some c.
Proof.
  intros Hc. pose proof ctl_sweep as S. rewrite forallb_forall in S.
  assert (Hin : In c (map Z.of_nat (seq 0 32))).
  { apply in_map_iff. exists (Z.to_nat c). split; [lia|]. apply in_seq. lia. }
  specialize (S c Hin). destruct (hex4 _ _ _ _) as [v|]; [|discriminate].
  f_equal. lia.
Qed.

(* ---- one escaped byte is read back as that byte ---- *)
Lemma str_body_esc_byte c rest : byte_ok c ->
  str_body (esc_byte c ++ rest) = push c (str_body rest).
Proof.
  intros Hc. unfold byte_ok in Hc. unfold esc_byte.
  destruct (c =? 34) eqn:E1; [assert (c = 34) by lia; subst; reflexivity|].
  destruct (c =? 92) eqn:E2; [assert (c = 92) by lia; subst; reflexivity|].
  destruct (c =? 8) eqn:E3; [assert (c = 8) by lia; subst; reflexivity|].
  destruct (c =? 12) eqn:E4; [assert (c = 12) by lia; subst; reflexivity|].
  destruct (c =? 10) eqn:E5; [assert (c = 10) by lia; subst; reflexivity|].
  destruct (c =? 13) eqn:E6; [assert (c = 13) by lia; subst; reflexivity|].
  destruct (c =? 9) eqn:E7; [assert (c = 9) by lia; subst; reflexivity|].
  destruct (c <? 32) eqn:E8.
  - cbn [app str_body]. change (92 =? 34) with false. change (92 =? 92) with true. change (117 =? 117) with true.
    cbv iota. rewrite ctl_hex4 by lia. replace (c <? 128) with true by lia. reflexivity.
  - cbn [app str_body]. rewrite E1, E2, E8. reflexivity.
Qed.

(* C37 core: whatever bytes are logged, the escaped text followed by the closing quote reads back exactly *)
Theorem str_body_escape s rest : bytes_ok s -> str_body (escape s ++ [34] ++ rest) = Some (s, rest).
Proof.
  induction 1 as [|c s Hc _ IH]; [reflexivity|].
  unfold escape in *. cbn [flat_map]. rewrite <- app_assoc. rewrite str_body_esc_byte by exact Hc.
  rewrite IH. reflexivity.
Qed.

Corollary jstring_quoted s rest : bytes_ok s -> jstring (quoted s ++ rest) = Some (s, rest).
Proof.
  intros Hs. unfold quoted. cbn [app jstring]. change (34 =? 34) with true. cbv iota.
  rewrite <- app_assoc. apply str_body_escape. exact Hs.
Qed.

(* ---- the escaped text never contains a raw control byte (so no newline) or a bare quote ---- *)
Lemma hexd_range d : 0 <= d < 16 -> 48 <= hexd d <= 70.
Proof. intros. unfold hexd. destruct (d <? 10) eqn:E; lia. Qed.

Lemma esc_byte_clean c : byte_ok c -> Forall (fun b => 32 <= b < 256) (esc_byte c).
Proof.
  intros Hc. unfold byte_ok in Hc. unfold esc_byte.
  repeat match goal with |- context [if ?b then _ else _] => destruct b eqn:? end;
    repeat constructor; try lia;
    match goal with |- _ <= hexd ?d => pose proof (hexd_range d ltac:(lia)); lia
                  | |- hexd ?d < _ => pose proof (hexd_range d ltac:(lia)); lia end.
Qed.

Lemma escape_clean s : bytes_ok s -> Forall (fun b => 32 <= b < 256) (escape s).
Proof.
  induction 1 as [|c s Hc _ IH]; [constructor|]. unfold escape. cbn [flat_map].
  apply Forall_app. split; [apply esc_byte_clean; exact Hc | exact IH].
Qed.

Definition clean (l : list Z) : Prop := Forall (fun b => 32 <= b < 256) l.

Lemma clean_app a b : clean a -> clean b -> clean (a ++ b).
Proof. intros. apply Forall_app. split; assumption. Qed.

Lemma quoted_clean s : bytes_ok s -> clean (quoted s).
Proof.
  intros. unfold quoted. apply clean_app; [repeat constructor; lia|].
  apply clean_app; [apply escape_clean; assumption | repeat constructor; lia].
Qed.

Definition field_ok (f : list Z * list Z) : Prop := bytes_ok (fst f) /\ bytes_ok (snd f).

Lemma render_fields_clean fs : Forall field_ok fs -> clean (render_fields fs).
Proof.
  induction 1 as [|f fs [Hk Hv] Hfs IH]; [constructor|].
  assert (Hf : clean (render_field f)).
  { unfold render_field. apply clean_app; [apply quoted_clean; exact Hk|].
    apply clean_app; [repeat constructor; lia | apply quoted_clean; exact Hv]. }
  destruct fs as [|g fs']; [exact Hf|].
  change (render_fields (f :: g :: fs')) with (render_field f ++ [44] ++ render_fields (g :: fs')).
  apply clean_app; [exact Hf|]. apply clean_app; [repeat constructor; lia | exact IH].
Qed.

(* exactly one line: everything before the final newline is free of control bytes *)
Theorem render_one_line ts lvl ev fs : bytes_ok ts -> bytes_ok lvl -> bytes_ok ev -> Forall field_ok fs ->
  exists body, render ts lvl ev fs = body ++ [10] /\ clean body.
Proof.
  intros Hts Hl He Hfs. unfold render.
  eexists (lit_open ++ quoted ts ++ lit_level ++ quoted lvl ++ lit_event ++ quoted ev ++
           (match fs with [] => [] | _ => lit_fields ++ render_fields fs ++ [125] end) ++ [125]).
  split.
  - repeat rewrite <- app_assoc. reflexivity.
  - apply clean_app; [repeat constructor; lia|]. apply clean_app; [apply quoted_clean; exact Hts|].
    apply clean_app; [repeat constructor; lia|]. apply clean_app; [apply quoted_clean; exact Hl|].
    apply clean_app; [repeat constructor; lia|]. apply clean_app; [apply quoted_clean; exact He|].
    apply clean_app; [|repeat constructor; lia].
    destruct fs as [|f fs']; [constructor|].
    apply clean_app; [repeat constructor; lia|]. apply clean_app; [apply render_fields_clean; exact Hfs | repeat constructor; lia].
Qed.

(* ---- the fields object reads back ---- *)
Lemma expect_app lit rest : expect lit (lit ++ rest) = Some rest.
Proof.
  unfold expect. assert (is_prefixb lit (lit ++ rest) = true) as -> by (apply is_prefixb_spec; eauto).
  rewrite skipn_app, skipn_all, Nat.sub_diag. reflexivity.
Qed.

Lemma members_render fs : forall fuel rest, fs <> [] -> Forall field_ok fs -> (length fs <= fuel)%nat ->
  members fuel (render_fields fs ++ [125] ++ rest) = Some (fs, rest).
Proof.
  induction fs as [|[k v] fs IH]; intros fuel rest Hne Hok Hfuel; [congruence|].
  destruct fuel as [|fuel]; [simpl in Hfuel; lia|].
  inversion Hok as [|? ? [Hk Hv] Hok']; subst. cbn [fst snd] in *.
  destruct fs as [|g fs'].
  - cbn [render_fields members]. unfold render_field. cbn [fst snd]. repeat rewrite <- app_assoc.
    rewrite jstring_quoted by exact Hk. rewrite (expect_app [58]).
    rewrite jstring_quoted by exact Hv. cbn [app]. change (125 =? 125) with true. reflexivity.
  - change (render_fields ((k, v) :: g :: fs')) with (render_field (k, v) ++ [44] ++ render_fields (g :: fs')).
    cbn [members]. unfold render_field. cbn [fst snd]. repeat rewrite <- app_assoc.
    rewrite jstring_quoted by exact Hk. rewrite (expect_app [58]).
    rewrite jstring_quoted by exact Hv. cbn [app]. change (44 =? 125) with false. change (44 =? 44) with true. cbv iota.
    change (render_fields (g :: fs') ++ 125 :: rest) with (render_fields (g :: fs') ++ [125] ++ rest).
    rewrite IH; [reflexivity | discriminate | exact Hok' | simpl in *; lia].
Qed.

Lemma render_field_len f : (1 <= length (render_field f))%nat.
Proof. unfold render_field, quoted. rewrite !app_length. simpl. lia. Qed.

Lemma render_fields_len fs : (length fs <= length (render_fields fs))%nat.
Proof.
  induction fs as [|f fs IH]; [simpl; lia|].
  destruct fs as [|g fs']; [pose proof (render_field_len f); simpl in *; lia|].
  change (render_fields (f :: g :: fs')) with (render_field f ++ [44] ++ render_fields (g :: fs')).
  rewrite !app_length. pose proof (render_field_len f). simpl in *. lia.
Qed.

(* C37: the record is read back, by an RFC 8259 string reader, as exactly what was logged *)
Theorem parse_render ts lvl ev fs : bytes_ok ts -> bytes_ok lvl -> bytes_ok ev -> Forall field_ok fs ->
  parse_record (render ts lvl ev fs) = Some {| r_ts := ts; r_level := lvl; r_event := ev; r_fields := fs |}.
Proof.
  intros Hts Hl He Hfs. unfold parse_record, render.
  rewrite expect_app. rewrite jstring_quoted by exact Hts.
  rewrite expect_app. rewrite jstring_quoted by exact Hl.
  rewrite expect_app. rewrite jstring_quoted by exact He.
  destruct fs as [|f fs'].
  - cbn [app]. reflexivity.
  - rewrite <- !app_assoc. rewrite expect_app.
    change ([125] ++ [125; 10]) with ([125] ++ [125; 10]).
    rewrite members_render; [reflexivity | discriminate | exact Hfs |].
    rewrite app_length. pose proof (render_fields_len (f :: fs')). lia.
Qed.

(* UTF-8 is untouched: multi-byte sequences pass through byte for byte, ASCII is rewritten to ASCII *)
Lemma esc_byte_utf8 c : byte_ok c -> (128 <= c -> esc_byte c = [c]) /\ (c < 128 -> Forall (fun b => 0 <= b < 128) (esc_byte c)).
Proof.
  intros Hc. unfold byte_ok in Hc. split; intros H; unfold esc_byte.
  - repeat match goal with |- context [if ?b then _ else _] => destruct b eqn:? end; try lia; reflexivity.
  - repeat match goal with |- context [if ?b then _ else _] => destruct b eqn:? end;
      repeat constructor; try lia;
      match goal with |- _ <= hexd ?d => pose proof (hexd_range d ltac:(lia)); lia
                    | |- hexd ?d < _ => pose proof (hexd_range d ltac:(lia)); lia end.
Qed.
