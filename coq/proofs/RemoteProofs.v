(* Proofs about model/RemoteModel.v (C35). *)
Require Import ZArith List Bool Lia.
Import ListNotations.
Local Open Scope Z_scope.
From EphVerif Require Import lib.Bytes model.ShamirModel model.ContentModel model.RemoteModel proofs.ShamirProofs proofs.ContentProofs.

(* shard indices are bytes (uint8_t in the manifest codec) *)
Definition wf (m : manifest) : Prop := Forall byte_ok (map s_index (m_shards m)).

Theorem announce_then_chunk_never_throws m' c' : wf m' -> forall e, announce_then_chunk m' c' <> Throw e.
Proof.
  intros W e. unfold announce_then_chunk. destruct (negb (validate_shards m')); [discriminate|].
  destruct (receive m' c') as [[p|]|e'] eqn:R; try discriminate. exfalso. exact (receive_never_throws m' c' W e' R).
Qed.

Lemma fetch_never_throws id held nonce m' : wf m' -> validate_shards m' = true ->
  forall e, fetch id held nonce (m_shards m') (m_threshold m') <> Throw e.
Proof.
  intros W V e. unfold fetch. unfold validate_shards in V. apply andb_true_iff in V. destruct V as [V1 V2].
  destruct ((m_threshold m' <=? 0) || (zlen (m_shards m') <? m_threshold m')) eqn:E; [discriminate|].
  assert (Ht : 0 <= m_threshold m' <= zlen (m_shards m')) by lia.
  assert (Hn : NoDup (map s_index (firstn (Z.to_nat (m_threshold m')) (m_shards m')))).
  { apply has_dup_spec. destruct (has_dup _); [discriminate | reflexivity]. }
  destruct (combine_total_on_good_sets (m_shards m') (m_threshold m') Ht W Hn) as [k [Ek _]]. rewrite Ek. discriminate.
Qed.

Theorem control_fetch_never_throws id held nonce man out stream writable :
  (forall m', man = Some (Some m') -> wf m') -> forall e, control_fetch id held nonce man out stream writable <> Throw e.
Proof.
  intros W e. unfold control_fetch. destruct man as [[m'|]|]; try discriminate.
  specialize (W m' eq_refl).
  destruct out as [p|].
  - destruct (absolute p) as [q|x]; [|discriminate].
    cbn [negb andb]. rewrite andb_false_r.
    destruct (validate_shards m') eqn:V; cbn [negb]; [|discriminate].
    destruct (fetch id held nonce (m_shards m') (m_threshold m')) as [[b|]|x] eqn:F; try discriminate.
    + destruct stream; [discriminate | destruct writable; discriminate].
    + exfalso. exact (fetch_never_throws id held nonce m' W V x F).
  - destruct (negb stream && true); [discriminate|].
    destruct (validate_shards m') eqn:V; cbn [negb]; [|discriminate].
    destruct (fetch id held nonce (m_shards m') (m_threshold m')) as [[b|]|x] eqn:F; try discriminate.
    + destruct stream; [discriminate | destruct writable; discriminate].
    + exfalso. exact (fetch_never_throws id held nonce m' W V x F).
Qed.

(* what the shard check must exclude, and does: every set Shamir::combine refuses *)
Theorem validate_excludes_what_combine_refuses m : wf m -> validate_shards m = true ->
  exists k, combine (m_shards m) (m_threshold m) = Val k /\ length k = 32%nat.
Proof.
  intros W V. unfold validate_shards in V. apply andb_true_iff in V. destruct V as [V1 V2].
  apply combine_total_on_good_sets; [lia | exact W |]. apply has_dup_spec. destruct (has_dup _); [discriminate | reflexivity].
Qed.
(* ... and the check refuses nothing else: a set combine accepts (with a positive threshold) passes it *)
Theorem validate_refuses_only_what_combine_refuses m k : 0 < m_threshold m -> combine (m_shards m) (m_threshold m) = Val k ->
  validate_shards m = true.
Proof.
  intros Ht. unfold combine, validate_shards. destruct (zlen (m_shards m) <? m_threshold m) eqn:E; [discriminate|].
  destruct (has_dup _); [discriminate|]. intros _. assert (m_threshold m <=? 0 = false) by lia. rewrite H. reflexivity.
Qed.

(* an empty OUT is answered with an error code: the exception of std::filesystem::absolute does not leave the handler *)
Theorem empty_out_is_an_error id held nonce m' stream writable :
  control_fetch id held nonce (Some (Some m')) (Some []) stream writable = Val 7.
Proof. reflexivity. Qed.
