(* The pending fetch an accepted announce creates does not survive a tick at or after the manifest's expiry (C03's fourth
   path): ManifestTtlModel.announce_fetch, through the scheduler theorem of proofs/FetchDropProofs.v. *)
Require Import ZArith List Bool Lia ZifyBool.
Import ListNotations.
Local Open Scope Z_scope.
From EphVerif Require Import lib.Bytes model.ManifestTtlModel.
From EphVerif Require model.FetchModel proofs.FetchProofs proofs.FetchDropProofs.

Definition s_start : FetchModel.st := FetchModel.mkSt [] [] [] [1].
Lemma start_inv c : FetchProofs.Inv c s_start.
Proof. exact (FetchProofs.Inv_env c FetchModel.init [] [1] (FetchProofs.Inv_init c)). Qed.
Lemma start_expok e : FetchDropProofs.ExpOK e s_start.
Proof. intros f []. Qed.

Theorem refused_announce_schedules_nothing E now mn mx backoff dt :
  manifest_ttl E now mn mx = None -> announce_fetch E now mn mx backoff dt = (false, false, false, -1).
Proof. intros H. unfold announce_fetch. rewrite H. reflexivity. Qed.

Theorem assigned_fetch_dropped_at_expiry E now mn mx backoff dt : E <> 0 -> 0 <= dt -> E <= now + dt * 1000000 ->
  snd (fst (announce_fetch E now mn mx backoff dt)) = false.
Proof.
  intros HE Hdt Hlate. unfold announce_fetch. destruct (manifest_ttl E now mn mx); [|reflexivity].
  cbn [fst snd].
  set (c := fetch_cfg backoff). set (e := fun _ : Z => E).
  pose proof (FetchDropProofs.tick_drops_expired c e [FetchModel.Announce 1 1; FetchModel.Advance dt] (s_start, now)
                (start_inv c) (start_expok e)) as K.
  cbv zeta in K. unfold FetchModel.run_ops in K. cbn [fold_left] in K. fold s_start.
  set (sn1 := fst (FetchModel.step c e (s_start, now) (FetchModel.Announce 1 1))) in *.
  set (sn2 := fst (FetchModel.step c e sn1 (FetchModel.Advance dt))) in *.
  destruct (FetchModel.ffind 1 (FetchModel.fetches (fst (fst (FetchModel.step c e sn2 FetchModel.Tick))))) as [f|] eqn:F; [|reflexivity].
  exfalso. destruct (FetchProofs.ffind_some_in _ _ _ F) as [Hin _]. specialize (K f Hin). unfold e in K.
  assert (T : snd sn2 = now + dt * 1000000).
  { unfold sn2. destruct sn1 as [s1 n1] eqn:E1. rewrite FetchDropProofs.step_time.
    assert (n1 = now) as ->.
    { change n1 with (snd (s1, n1)). rewrite <- E1. unfold sn1. rewrite FetchDropProofs.step_time. reflexivity. }
    destruct (dt <? 0) eqn:D; lia. }
  lia.
Qed.
