(* Proofs about model/ControlModel.v (C27, C28, C29). *)
Require Import ZArith List Bool Lia ZifyBool.
Import ListNotations.
Local Open Scope Z_scope.
From EphVerif Require Import lib.Bytes model.Sha256Model model.PowModel model.FilenameModel model.ControlModel gen.Constants_control.

(* ================================================================ C29 *)
Theorem unescape_escape v : unescape_value (escape_value v) = v.
Proof.
  induction v as [|c r IH]; [reflexivity|]. cbn [escape_value flat_map]. fold (escape_value r). unfold escape_byte.
  destruct (c =? BSL) eqn:E1.
  - assert (c = BSL) by lia. subst. cbn [app unescape_value]. change (BSL =? BSL) with true. cbv iota.
    change (BSL =? 110) with false. change (BSL =? 114) with false. cbv iota. rewrite IH. reflexivity.
  - destruct (c =? LF) eqn:E2.
    + assert (c = LF) by lia. subst. cbn [app unescape_value]. change (BSL =? BSL) with true. cbv iota.
      change (110 =? 110) with true. cbv iota. rewrite IH. reflexivity.
    + destruct (c =? CR) eqn:E3.
      * assert (c = CR) by lia. subst. cbn [app unescape_value]. change (BSL =? BSL) with true. cbv iota.
        change (114 =? 110) with false. change (114 =? 114) with true. cbv iota. rewrite IH. reflexivity.
      * cbn [app unescape_value]. rewrite E1, IH. reflexivity.
Qed.

Definition plain (c : Z) : Prop := c <> LF /\ c <> CR.
Lemma escape_plain v : Forall plain (escape_value v).
Proof.
  induction v as [|c r IH]; [constructor|]. cbn [escape_value flat_map]. apply Forall_app. split; [|exact IH].
  unfold escape_byte, plain, LF, CR, BSL. destruct (c =? 92) eqn:E1; [repeat constructor; lia|].
  destruct (c =? 10) eqn:E2; [repeat constructor; lia|]. destruct (c =? 13) eqn:E3; repeat constructor; lia.
Qed.

Lemma take_line_plain line rest : Forall plain line -> forall acc, take_line (line ++ LF :: rest) acc = Some (acc ++ line, rest).
Proof.
  induction 1 as [|c r [H1 H2] Hr IH]; intros acc; cbn [app take_line].
  - change (LF =? LF) with true. cbv iota. rewrite app_nil_r. reflexivity.
  - assert ((c =? LF) = false) by lia. assert ((c =? CR) = false) by lia. rewrite H, H0, IH, <- app_assoc. reflexivity.
Qed.

Lemma split_colon_key k v : Forall (fun c => c <> COLON) k -> forall acc, split_colon (k ++ COLON :: v) acc = Some (acc ++ k, v).
Proof.
  induction 1 as [|c r Hc Hr IH]; intros acc; cbn [app split_colon].
  - change (COLON =? COLON) with true. cbv iota. rewrite app_nil_r. reflexivity.
  - assert ((c =? COLON) = false) by lia. rewrite H, IH, <- app_assoc. reflexivity.
Qed.

(* keys the daemon uses: non-empty upper-case text without ':' CR LF, other than STATUS and PAYLOAD-LENGTH *)
Definition key_ok (k : list Z) : Prop :=
  k <> [] /\ Forall (fun c => c <> COLON /\ plain c) k /\ to_upper k = k /\ k <> k_status /\ k <> k_payload_length.

Definition render_field (f : field) : list Z := fst f ++ [COLON] ++ escape_value (snd f) ++ [LF].

Lemma list_eqb_false a b : a <> b -> list_eqb a b = false.
Proof. intros H. destruct (list_eqb a b) eqn:E; [apply list_eqb_spec in E; contradiction | reflexivity]. Qed.

Lemma header_loop fields : Forall (fun f => key_ok (fst f)) fields -> forall fuel st plen tail,
  (length fields < fuel)%nat ->
  parse_headers fuel (flat_map render_field fields ++ LF :: tail) st plen =
  ({| r_status_seen := r_status_seen st; r_success := r_success st;
      r_fields := fold_left (fun acc f => set_field (fst f) (snd f) acc) fields (r_fields st); r_payload := r_payload st |},
   plen, tail).
Proof.
  induction 1 as [|[k v] fs Hk Hfs IH]; intros fuel st plen tail Hf.
  - destruct fuel as [|fuel]; [simpl in Hf; lia|]. cbn [flat_map app parse_headers take_line].
    change (LF =? LF) with true. cbv iota. destruct st; reflexivity.
  - destruct fuel as [|fuel]; [simpl in Hf; lia|]. cbn [flat_map]. unfold render_field at 1. cbn [fst snd].
    destruct Hk as (Hne & Hch & Hup & Hs & Hp). cbn [fst] in *.
    assert (Hline : Forall plain (k ++ [COLON] ++ escape_value v)).
    { apply Forall_app. split; [refine (Forall_impl _ _ Hch); intros c Hc; cbv beta in Hc; tauto|].
      apply Forall_app. split; [repeat constructor; unfold plain, COLON, LF, CR; lia | apply escape_plain]. }
    cbn [parse_headers].
    replace (((k ++ [COLON] ++ escape_value v ++ [LF]) ++ flat_map render_field fs) ++ LF :: tail)
      with ((k ++ [COLON] ++ escape_value v) ++ LF :: (flat_map render_field fs ++ LF :: tail))
      by (rewrite <- !app_assoc; reflexivity).
    rewrite (take_line_plain _ _ Hline []). cbn [app].
    destruct (k ++ COLON :: escape_value v) as [|c0 l0] eqn:El; [destruct k; discriminate|]. rewrite <- El.
    rewrite (split_colon_key k (escape_value v)) by (refine (Forall_impl _ _ Hch); intros c Hc; cbv beta in Hc; tauto). cbn [app].
    rewrite Hup, (list_eqb_false _ _ Hs), (list_eqb_false _ _ Hp), unescape_escape.
    rewrite IH by (cbn [length] in Hf; lia). cbn [fold_left r_status_seen r_success r_fields r_payload fst snd]. reflexivity.
Qed.

Lemma status_step ok fuel body st plen :
  parse_headers (S fuel) (status_line ok ++ body) st plen =
  parse_headers fuel body {| r_status_seen := true; r_success := ok; r_fields := r_fields st; r_payload := r_payload st |} plen.
Proof.
  cbn [parse_headers].
  assert (Hst : take_line (status_line ok ++ body) [] = Some (if ok then [83; 84; 65; 84; 85; 83; 58; 79; 75] else [83; 84; 65; 84; 85; 83; 58; 69; 82; 82; 79; 82], body)).
  { unfold status_line. rewrite <- app_assoc. destruct ok; reflexivity. }
  rewrite Hst. destruct ok.
  - assert (E : split_colon [83; 84; 65; 84; 85; 83; 58; 79; 75] [] = Some (k_status, [79; 75])) by reflexivity. rewrite E.
    assert (E2 : list_eqb (to_upper k_status) k_status = true) by reflexivity. rewrite E2.
    assert (E3 : list_eqb (to_upper [79; 75]) [79; 75] = true) by reflexivity. rewrite E3. reflexivity.
  - assert (E : split_colon [83; 84; 65; 84; 85; 83; 58; 69; 82; 82; 79; 82] [] = Some (k_status, [69; 82; 82; 79; 82])) by reflexivity. rewrite E.
    assert (E2 : list_eqb (to_upper k_status) k_status = true) by reflexivity. rewrite E2.
    assert (E3 : list_eqb (to_upper [69; 82; 82; 79; 82]) [79; 75] = false) by reflexivity. rewrite E3. reflexivity.
Qed.

(* what the client ends up with, without a payload *)
Theorem response_roundtrip ok fields : Forall (fun f => key_ok (fst f)) fields ->
  parse_response (render_response ok fields None) =
  {| r_status_seen := true; r_success := ok;
     r_fields := fold_left (fun acc f => set_field (fst f) (snd f) acc) fields []; r_payload := None |}.
Proof.
  intros Hf. unfold parse_response, render_response.
  change (flat_map (fun f => fst f ++ [COLON] ++ escape_value (snd f) ++ [LF]) fields) with (flat_map render_field fields).
  set (body := flat_map render_field fields ++ [LF] ++ []).
  assert (Hlen : (length fields <= length (flat_map render_field fields))%nat).
  { clear. induction fields as [|f r IH]; cbn [flat_map length]; [lia|]. unfold render_field at 1. rewrite !app_length. cbn [length]. lia. }
  assert (Hfuel : (length fields < length (status_line ok ++ body))%nat).
  { unfold body. rewrite !app_length. cbn [length]. lia. }
  rewrite status_step. unfold body. cbn [app].
  rewrite (header_loop fields Hf) by exact Hfuel. reflexivity.
Qed.

(* with distinct keys every field the daemon put in comes out with exactly its value *)
Lemma get_set_same k v fs : get_field k (set_field k v fs) = Some v.
Proof. unfold set_field. cbn [get_field]. rewrite list_eqb_refl. reflexivity. Qed.
Lemma get_set_other k k' v fs : k' <> k -> get_field k' (set_field k v fs) = get_field k' fs.
Proof.
  intros H. unfold set_field. cbn [get_field]. rewrite (list_eqb_false k k') by congruence.
  induction fs as [|[a b] r IH]; cbn [filter get_field fst]; [reflexivity|].
  destruct (list_eqb a k) eqn:E; cbn [negb get_field].
  - apply list_eqb_spec in E. subst. rewrite (list_eqb_false k k') by congruence. exact IH.
  - destruct (list_eqb a k'); [reflexivity | exact IH].
Qed.

Theorem fields_preserved fields : NoDup (map fst fields) -> forall k v acc, In (k, v) fields ->
  get_field k (fold_left (fun acc f => set_field (fst f) (snd f) acc) fields acc) = Some v.
Proof.
  induction fields as [|[k0 v0] r IH]; intros Hn k v acc Hin; [destruct Hin|].
  cbn [map fst] in Hn. inversion Hn as [|? ? Hk Hd]; subst. cbn [fold_left fst snd].
  destruct Hin as [H|H].
  - injection H as -> ->.
    assert (G : forall l acc', ~ In k (map fst l) -> get_field k (fold_left (fun acc f => set_field (fst f) (snd f) acc) l acc') = get_field k acc').
    { induction l as [|[a b] l IHl]; intros acc' Hni; [reflexivity|]. cbn [fold_left fst snd]. rewrite IHl by (cbn in Hni; tauto).
      apply get_set_other. cbn in Hni. intros E. apply Hni. left. congruence. }
    rewrite G by exact Hk. apply get_set_same.
  - apply IH; [exact Hd | exact H].
Qed.

(* ================================================================ C27 *)
Theorem gate_refuses_without_exact_token t presented cmd later :
  presented <> Some t -> handle_command (Some t) presented cmd later = VAuthError.
Proof.
  intros H. unfold handle_command, authorized. destruct presented as [p|]; [|reflexivity].
  rewrite (list_eqb_false t p) by congruence. reflexivity.
Qed.

Theorem gate_effect_needs_token configured presented cmd later e :
  handle_command configured presented cmd later = VOk e ->
  (configured = None \/ presented = configured) /\ later = true.
Proof.
  unfold handle_command, authorized. destruct configured as [t|].
  - destruct presented as [p|]; [|discriminate]. destruct (list_eqb t p) eqn:E; [|discriminate].
    apply list_eqb_spec in E. subst. cbn [negb]. destruct later; [|discriminate]. intros _. split; [right; reflexivity | reflexivity].
  - cbn [negb]. destruct later; [|discriminate]. intros _. split; [left; reflexivity | reflexivity].
Qed.

(* ================================================================ C28 *)
Theorem rate_identity_ignores_token_when_unconfigured remote p q :
  rate_identity None remote p = rate_identity None remote q.
Proof. reflexivity. Qed.

Definition in_window (w now t : Z) : bool := negb (w <? now - t).

Lemma filter_filter_window w now now' l : now <= now' ->
  filter (in_window w now') (filter (in_window w now) l) = filter (in_window w now') l.
Proof.
  intros H. induction l as [|x r IH]; [reflexivity|]. cbn [filter].
  destruct (in_window w now x) eqn:E1; destruct (in_window w now' x) eqn:E2; cbn [filter]; rewrite ?E2; rewrite ?IH; try reflexivity.
  unfold in_window in *. lia.
Qed.

(* P: every time a request of this identity was let through (ghost); hist = what the limiter still remembers *)
Theorem limiter_step w limit P now now' : 0 <= w -> now <= now' ->
  let hist := filter (in_window w now) P in
  let '(ok, hist') := allow w limit hist now' in
  let P' := if ok then P ++ [now'] else P in
  hist' = filter (in_window w now') P' /\
  (ok = true -> zlen (filter (in_window w now') P') <= Z.max limit 1) /\
  (ok = false -> limit <= zlen (filter (in_window w now') P)).
Proof.
  intros Hw H. cbv zeta. unfold allow.
  change (fun t : Z => negb (w <? now' - t)) with (in_window w now').
  rewrite (filter_filter_window w now now' P H).
  destruct (limit <=? zlen (filter (in_window w now') P)) eqn:E.
  - split; [reflexivity|]. split; [discriminate | intros _; lia].
  - rewrite filter_app. cbn [filter].
    assert (E2 : in_window w now' now' = true) by (unfold in_window; lia). rewrite E2.
    split; [reflexivity|]. split; [|discriminate]. intros _. rewrite zlen_app. unfold zlen at 2. cbn [length]. lia.
Qed.

Theorem limiter_constants : store_rate_window = 30 /\ store_rate_limit = 6 /\ fetch_rate_window = 30 /\ fetch_rate_limit = 12.
Proof. repeat split; reflexivity. Qed.

(* ================================================================ C28: admission of one STORE *)
Lemma digits_value_bounds s : forall acc v, 0 <= acc -> digits_value acc s = Some v -> acc <= v /\ forallb is_digit s = true.
Proof.
  induction s as [|c r IH]; intros acc v Ha H; cbn [digits_value forallb] in *.
  - inversion H; subst. split; [lia | reflexivity].
  - destruct (is_digit c) eqn:D; [|discriminate]. unfold is_digit in D.
    destruct (IH (acc * 10 + (c - 48)) v ltac:(lia) H) as [Hv Hd]. rewrite Hd. split; [lia | reflexivity].
Qed.

(* the header parser accepts exactly non-empty all-digit strings whose value fits a uint64_t *)
Theorem parse_u64_sound s v : parse_u64 s = Some v ->
  s <> [] /\ forallb is_digit s = true /\ 0 <= v < 18446744073709551616 /\ digits_value 0 s = Some v.
Proof.
  unfold parse_u64. destruct s as [|c r]; [discriminate|]. intros H.
  destruct (digits_value 0 (c :: r)) as [w|] eqn:E; [|discriminate].
  destruct (w <? 18446744073709551616) eqn:L; [|discriminate]. inversion H; subst.
  destruct (digits_value_bounds (c :: r) 0 v ltac:(lia) E) as [Hv Hd].
  split; [discriminate|]. split; [exact Hd|]. split; [lia | reflexivity].
Qed.

(* an accepted STORE passed every admission check *)
Theorem store_accept_sound cfg declared body ttl path pow :
  store_admission cfg declared body ttl path pow = 0 ->
  exists s n, declared = Some s /\ parse_u64 s = Some n /\ n <= sc_cap cfg /\ n <= zlen body /\
    let payload := firstn (Z.to_nat n) body in
    (exists t, (match ttl with
                | None => t = sc_default_ttl cfg
                | Some ts => exists v, parse_u64 ts = Some v /\ t = (if v <? 9223372036854775808 then v else v - 18446744073709551616)
                end) /\ sc_min_ttl cfg <= t <= sc_max_ttl cfg) /\
    (sc_pow cfg <= 0 \/
     exists ps nonce, pow = Some ps /\ parse_u64 ps = Some nonce /\
       store_pow_valid (sha256 payload) (zlen payload)
         (match path with Some p => hint_sanitize p | None => [] end) nonce (sc_pow cfg) = true).
Proof.
  unfold store_admission. destruct declared as [s|]; [|discriminate].
  destruct (parse_u64 s) as [n|] eqn:Pn; [|discriminate].
  destruct (sc_cap cfg <? n) eqn:C; [discriminate|].
  destruct (zlen body <? n) eqn:B; [discriminate|].
  intros H. exists s, n. split; [reflexivity|]. split; [exact Pn|]. split; [lia|]. split; [lia|].
  cbv zeta. unfold store_checks in H.
  destruct ttl as [ts|].
  - destruct (parse_u64 ts) as [v|] eqn:Pt; [|discriminate].
    destruct (((if v <? 9223372036854775808 then v else v - 18446744073709551616) <? sc_min_ttl cfg) ||
              (sc_max_ttl cfg <? (if v <? 9223372036854775808 then v else v - 18446744073709551616))) eqn:W; [discriminate|].
    split.
    + exists (if v <? 9223372036854775808 then v else v - 18446744073709551616). split; [exists v; auto | lia].
    + destruct (sc_pow cfg <=? 0) eqn:D; [left; lia|]. right.
      destruct pow as [ps|]; [|discriminate]. destruct (parse_u64 ps) as [nonce|] eqn:Pp; [|discriminate].
      destruct (store_pow_valid _ _ _ nonce (sc_pow cfg)) eqn:V; [|discriminate].
      exists ps, nonce. auto.
  - destruct ((sc_default_ttl cfg <? sc_min_ttl cfg) || (sc_max_ttl cfg <? sc_default_ttl cfg)) eqn:W; [discriminate|].
    split.
    + exists (sc_default_ttl cfg). split; [reflexivity | lia].
    + destruct (sc_pow cfg <=? 0) eqn:D; [left; lia|]. right.
      destruct pow as [ps|]; [|discriminate]. destruct (parse_u64 ps) as [nonce|] eqn:Pp; [|discriminate].
      destruct (store_pow_valid _ _ _ nonce (sc_pow cfg)) eqn:V; [|discriminate].
      exists ps, nonce. auto.
Qed.

(* a declared length above the cap is refused whatever the body is: no body byte takes part in the decision *)
Theorem oversize_refused_before_body cfg s n body body' ttl path pow ttl' path' pow' :
  parse_u64 s = Some n -> sc_cap cfg < n ->
  store_admission cfg (Some s) body ttl path pow = 2 /\
  store_admission cfg (Some s) body ttl path pow = store_admission cfg (Some s) body' ttl' path' pow'.
Proof.
  intros P C. unfold store_admission. rewrite P.
  destruct (sc_cap cfg <? n) eqn:E; [split; reflexivity | lia].
Qed.

(* with PoW enabled, a STORE without a nonce, with an unparsable one or with one that fails the validator is refused *)
Theorem store_pow_enforced cfg declared body ttl path pow :
  0 < sc_pow cfg -> store_admission cfg declared body ttl path pow = 0 -> pow <> None.
Proof.
  intros D H. destruct (store_accept_sound _ _ _ _ _ _ H) as [s [n [_ [_ [_ [_ K]]]]]]. cbv zeta in K.
  destruct K as [_ [K|[ps [nonce [K _]]]]]; [lia | congruence].
Qed.
