(* Proofs about model/AdvertiseModel.v (C34). *)
Require Import ZArith List Bool Lia ZifyBool.
Import ListNotations.
Local Open Scope Z_scope.
From EphVerif Require Import lib.Bytes model.AdvertiseModel.

(* ================================================================ IPv4: the classifier is exactly the reserved ranges *)
(* the address as a number, and membership in a CIDR block *)
Definition v4 (ip : Z * Z * Z * Z) : Z := let '(a, b, c, d) := ip in a * 16777216 + b * 65536 + c * 256 + d.
(* a CIDR block as (first address, number of addresses) *)
Definition in_block (v base size : Z) : bool := (base <=? v) && (v <? base + size).
Definition quad (a b c d : Z) : Z := a * 16777216 + b * 65536 + c * 256 + d.

(* 0/8, 10/8, 100.64/10, 127/8, 169.254/16, 172.16/12, 192.0.2/24, 192.168/16, 198.18/15, 198.51.100/24, 203.0.113/24,
   224/3: "this network", private, CGNAT, loopback, link-local, private, TEST-NET-1, private, benchmarking, TEST-NET-2,
   TEST-NET-3, multicast and reserved *)
Definition non_routable4 (v : Z) : bool :=
  in_block v (quad 10 0 0 0) 16777216 || in_block v (quad 127 0 0 0) 16777216 || in_block v (quad 0 0 0 0) 16777216
  || in_block v (quad 169 254 0 0) 65536 || in_block v (quad 172 16 0 0) 1048576 || in_block v (quad 192 168 0 0) 65536
  || in_block v (quad 100 64 0 0) 4194304 || in_block v (quad 192 0 2 0) 256 || in_block v (quad 198 51 100 0) 256
  || in_block v (quad 203 0 113 0) 256 || in_block v (quad 198 18 0 0) 131072 || in_block v (quad 224 0 0 0) 536870912.

Lemma block_sizes : 16777216 = 2 ^ (32 - 8) /\ 4194304 = 2 ^ (32 - 10) /\ 65536 = 2 ^ (32 - 16) /\ 1048576 = 2 ^ (32 - 12)
  /\ 256 = 2 ^ (32 - 24) /\ 131072 = 2 ^ (32 - 15) /\ 536870912 = 2 ^ (32 - 3).
Proof. repeat split; reflexivity. Qed.

Definition octets_ok (ip : Z * Z * Z * Z) : Prop :=
  let '(a, b, c, d) := ip in 0 <= a < 256 /\ 0 <= b < 256 /\ 0 <= c < 256 /\ 0 <= d < 256.

Ltac block_eq := unfold in_block, quad; apply eq_true_iff_eq; split; intros; lia.
Lemma blk_10 a b c d : 0 <= a < 256 -> 0 <= b < 256 -> 0 <= c < 256 -> 0 <= d < 256 ->
  (a =? 10) = in_block (a * 16777216 + b * 65536 + c * 256 + d) (quad 10 0 0 0) 16777216.
Proof. intros Ha Hb Hc Hd. block_eq. Qed.
Lemma blk_127 a b c d : 0 <= a < 256 -> 0 <= b < 256 -> 0 <= c < 256 -> 0 <= d < 256 ->
  (a =? 127) = in_block (a * 16777216 + b * 65536 + c * 256 + d) (quad 127 0 0 0) 16777216.
Proof. intros Ha Hb Hc Hd. block_eq. Qed.
Lemma blk_0 a b c d : 0 <= a < 256 -> 0 <= b < 256 -> 0 <= c < 256 -> 0 <= d < 256 ->
  (a =? 0) = in_block (a * 16777216 + b * 65536 + c * 256 + d) (quad 0 0 0 0) 16777216.
Proof. intros Ha Hb Hc Hd. block_eq. Qed.
Lemma blk_169 a b c d : 0 <= a < 256 -> 0 <= b < 256 -> 0 <= c < 256 -> 0 <= d < 256 ->
  ((a =? 169) && (b =? 254)) = in_block (a * 16777216 + b * 65536 + c * 256 + d) (quad 169 254 0 0) 65536.
Proof. intros Ha Hb Hc Hd. block_eq. Qed.
Lemma blk_172 a b c d : 0 <= a < 256 -> 0 <= b < 256 -> 0 <= c < 256 -> 0 <= d < 256 ->
  ((a =? 172) && (16 <=? b) && (b <=? 31)) = in_block (a * 16777216 + b * 65536 + c * 256 + d) (quad 172 16 0 0) 1048576.
Proof. intros Ha Hb Hc Hd. block_eq. Qed.
Lemma blk_192168 a b c d : 0 <= a < 256 -> 0 <= b < 256 -> 0 <= c < 256 -> 0 <= d < 256 ->
  ((a =? 192) && (b =? 168)) = in_block (a * 16777216 + b * 65536 + c * 256 + d) (quad 192 168 0 0) 65536.
Proof. intros Ha Hb Hc Hd. block_eq. Qed.
Lemma blk_100 a b c d : 0 <= a < 256 -> 0 <= b < 256 -> 0 <= c < 256 -> 0 <= d < 256 ->
  ((a =? 100) && (64 <=? b) && (b <=? 127)) = in_block (a * 16777216 + b * 65536 + c * 256 + d) (quad 100 64 0 0) 4194304.
Proof. intros Ha Hb Hc Hd. block_eq. Qed.
Lemma blk_test1 a b c d : 0 <= a < 256 -> 0 <= b < 256 -> 0 <= c < 256 -> 0 <= d < 256 ->
  ((a =? 192) && (b =? 0) && (c =? 2)) = in_block (a * 16777216 + b * 65536 + c * 256 + d) (quad 192 0 2 0) 256.
Proof. intros Ha Hb Hc Hd. block_eq. Qed.
Lemma blk_test2 a b c d : 0 <= a < 256 -> 0 <= b < 256 -> 0 <= c < 256 -> 0 <= d < 256 ->
  ((a =? 198) && (b =? 51) && (c =? 100)) = in_block (a * 16777216 + b * 65536 + c * 256 + d) (quad 198 51 100 0) 256.
Proof. intros Ha Hb Hc Hd. block_eq. Qed.
Lemma blk_test3 a b c d : 0 <= a < 256 -> 0 <= b < 256 -> 0 <= c < 256 -> 0 <= d < 256 ->
  ((a =? 203) && (b =? 0) && (c =? 113)) = in_block (a * 16777216 + b * 65536 + c * 256 + d) (quad 203 0 113 0) 256.
Proof. intros Ha Hb Hc Hd. block_eq. Qed.
Lemma blk_bench a b c d : 0 <= a < 256 -> 0 <= b < 256 -> 0 <= c < 256 -> 0 <= d < 256 ->
  ((a =? 198) && (18 <=? b) && (b <=? 19)) = in_block (a * 16777216 + b * 65536 + c * 256 + d) (quad 198 18 0 0) 131072.
Proof. intros Ha Hb Hc Hd. block_eq. Qed.
Lemma blk_224 a b c d : 0 <= a < 256 -> 0 <= b < 256 -> 0 <= c < 256 -> 0 <= d < 256 ->
  (224 <=? a) = in_block (a * 16777216 + b * 65536 + c * 256 + d) (quad 224 0 0 0) 536870912.
Proof. intros Ha Hb Hc Hd. block_eq. Qed.

Theorem private4_is_the_reserved_ranges ip : octets_ok ip -> private4 ip = non_routable4 (v4 ip).
Proof.
  destruct ip as [[[a b] c] d]. unfold octets_ok. intros [Ha [Hb [Hc Hd]]]. unfold private4, non_routable4, v4.
  rewrite (blk_10 a b c d Ha Hb Hc Hd), (blk_127 a b c d Ha Hb Hc Hd), (blk_0 a b c d Ha Hb Hc Hd), (blk_169 a b c d Ha Hb Hc Hd),
          (blk_172 a b c d Ha Hb Hc Hd), (blk_192168 a b c d Ha Hb Hc Hd), (blk_100 a b c d Ha Hb Hc Hd), (blk_test1 a b c d Ha Hb Hc Hd),
          (blk_test2 a b c d Ha Hb Hc Hd), (blk_test3 a b c d Ha Hb Hc Hd), (blk_bench a b c d Ha Hb Hc Hd), (blk_224 a b c d Ha Hb Hc Hd).
  reflexivity.
Qed.

(* ---------------------------------------------------------------- decimal text of an octet parses back *)
Definition fmt_octet (v : Z) : list Z := dec_digits v.
Definition fmt4 (ip : Z * Z * Z * Z) : list Z :=
  let '(a, b, c, d) := ip in fmt_octet a ++ [46] ++ fmt_octet b ++ [46] ++ fmt_octet c ++ [46] ++ fmt_octet d.

Definition octet_roundtrip (v : Z) : bool :=
  match parse_octet (fmt_octet v) with Some w => (w =? v) | None => false end
  && forallb is_digit (fmt_octet v) && negb (match fmt_octet v with [] => true | _ => false end).

Lemma octet_sweep : forallb octet_roundtrip (map Z.of_nat (seq 0 256)) = true.
Proof. vm_compute. reflexivity. Qed.

Lemma octet_ok v : 0 <= v < 256 ->
  parse_octet (fmt_octet v) = Some v /\ forallb is_digit (fmt_octet v) = true /\ fmt_octet v <> [].
Proof.
  intros H. pose proof octet_sweep as S. rewrite forallb_forall in S.
  assert (Hin : In v (map Z.of_nat (seq 0 256))).
  { apply in_map_iff. exists (Z.to_nat v). split; [lia|]. apply in_seq. lia. }
  specialize (S v Hin). unfold octet_roundtrip in S.
  apply andb_true_iff in S. destruct S as [S S3]. apply andb_true_iff in S. destruct S as [S1 S2].
  destruct (parse_octet (fmt_octet v)) as [w|]; [|discriminate].
  split; [f_equal; lia|]. split; [exact S2|]. intros E. rewrite E in S3. discriminate.
Qed.

(* splitting at dots: a run of digits followed by a dot is one component *)
Lemma split_on_digits l r cur : forallb is_digit l = true ->
  split_on 46 (l ++ 46 :: r) cur = (cur ++ l) :: split_on 46 r [].
Proof.
  revert cur. induction l as [|x l IH]; intros cur H; cbn [app split_on].
  - rewrite Z.eqb_refl, app_nil_r. reflexivity.
  - cbn [forallb] in H. apply andb_true_iff in H. destruct H as [Hx Hl].
    assert (E : (x =? 46) = false) by (unfold is_digit in Hx; lia). rewrite E.
    rewrite IH by exact Hl. rewrite <- app_assoc. reflexivity.
Qed.
Lemma split_on_digits_end l cur : forallb is_digit l = true -> split_on 46 l cur = [cur ++ l].
Proof.
  revert cur. induction l as [|x l IH]; intros cur H; cbn [split_on]; [rewrite app_nil_r; reflexivity|].
  cbn [forallb] in H. apply andb_true_iff in H. destruct H as [Hx Hl].
  assert (E : (x =? 46) = false) by (unfold is_digit in Hx; lia). rewrite E.
  rewrite IH by exact Hl. rewrite <- app_assoc. reflexivity.
Qed.

Theorem parse_fmt4 ip : octets_ok ip -> parse_ipv4 (fmt4 ip) = Some ip.
Proof.
  destruct ip as [[[a b] c] d]. intros [Ha [Hb [Hc Hd]]].
  destruct (octet_ok a Ha) as [Pa [Da _]]. destruct (octet_ok b Hb) as [Pb [Db _]].
  destruct (octet_ok c Hc) as [Pc [Dc _]]. destruct (octet_ok d Hd) as [Pd [Dd _]].
  unfold parse_ipv4, fmt4. cbn [app].
  rewrite (split_on_digits (fmt_octet a) _ [] Da). rewrite (split_on_digits (fmt_octet b) _ [] Db).
  rewrite (split_on_digits (fmt_octet c) _ [] Dc). rewrite (split_on_digits_end (fmt_octet d) [] Dd).
  cbn [app]. rewrite Pa, Pb, Pc, Pd. reflexivity.
Qed.

Lemma fmt4_nonempty ip : octets_ok ip -> fmt4 ip <> [].
Proof.
  destruct ip as [[[a b] c] d]. intros [Ha _]. destruct (octet_ok a Ha) as [_ [_ Na]]. unfold fmt4.
  destruct (fmt_octet a); [contradiction | discriminate].
Qed.

(* every IPv4 address in a reserved range, written as a dotted quad, is classified as not publishable -- and no other *)
Theorem classifier_ipv4 ip : octets_ok ip -> private_host (fmt4 ip) = non_routable4 (v4 ip).
Proof.
  intros H. unfold private_host. pose proof (fmt4_nonempty ip H) as N.
  destruct (fmt4 ip) as [|x r] eqn:E; [contradiction|]. rewrite <- E. rewrite (parse_fmt4 ip H).
  apply private4_is_the_reserved_ranges. exact H.
Qed.

(* ================================================================ IPv6 text *)
(* a host that is not a dotted quad, "localhost" or "0.0.0.0" and contains a colon is judged by private6 *)
Lemma starts_with_app p s : starts_with p (p ++ s) = true.
Proof. induction p as [|a p IH]; cbn [starts_with app]; [reflexivity|]. rewrite Z.eqb_refl, IH. reflexivity. Qed.

(* the normalised text decides: the two special addresses, and the prefixes of unique-local, link-local, documentation
   and multicast space *)
Theorem private6_prefixes host : let n := normalize_ipv6 host in
  n = [] \/ n = s_unspec \/ n = s_loop \/
  starts_with s_fc n = true \/ starts_with s_fd n = true \/
  starts_with s_fe8 n = true \/ starts_with s_fe9 n = true \/ starts_with s_fea n = true \/ starts_with s_feb n = true \/
  starts_with s_doc n = true \/ starts_with s_ff n = true ->
  private6 host = true.
Proof.
  cbv zeta. unfold private6. destruct (normalize_ipv6 host) as [|x r] eqn:E; [reflexivity|]. rewrite <- E.
  intros [H|[H|[H|[H|[H|[H|[H|[H|[H|[H|H]]]]]]]]]]; try (rewrite E in H; discriminate H);
    rewrite H; rewrite ?orb_true_r; reflexivity.
Qed.

(* text without upper-case letters, '%' and a leading '[' is its own normal form *)
Definition plain (c : Z) : bool := negb (c =? 37) && negb ((65 <=? c) && (c <=? 90)).
Lemma take_until_plain s : forallb plain s = true -> take_until 37 s = s.
Proof.
  induction s as [|x r IH]; cbn [take_until forallb]; [reflexivity|]. intros H. apply andb_true_iff in H. destruct H as [Hx Hr].
  assert (E : (x =? 37) = false) by (unfold plain in Hx; lia). rewrite E, IH by exact Hr. reflexivity.
Qed.
Lemma map_lower_plain s : forallb plain s = true -> map lower s = s.
Proof.
  induction s as [|x r IH]; cbn [map forallb]; [reflexivity|]. intros H. apply andb_true_iff in H. destruct H as [Hx Hr].
  rewrite IH by exact Hr. f_equal. unfold lower, plain in *. destruct ((65 <=? x) && (x <=? 90)) eqn:E; [lia | reflexivity].
Qed.
Lemma normalize_plain s : forallb plain s = true -> (forall r, s <> 91 :: r) -> normalize_ipv6 s = s.
Proof.
  intros H Hb. unfold normalize_ipv6. destruct s as [|x r]; [reflexivity|].
  destruct (Z.eq_dec x 91) as [E|E]; [subst; exfalso; eapply Hb; reflexivity|].
  assert (Hx : match x with 91 => false | _ => true end = true \/ True) by (right; exact I).
  replace (match x :: r with 91 :: r0 => match rev r0 with 93 :: r' => rev r' | _ => x :: r end | _ => x :: r end) with (x :: r).
  - rewrite take_until_plain by exact H. apply map_lower_plain. exact H.
  - destruct x as [|p|p]; try reflexivity. repeat (destruct p as [p|p|]; try reflexivity). contradiction.
Qed.

Lemma digits_plain l : forallb is_digit l = true -> forallb plain l = true.
Proof.
  induction l as [|x r IH]; cbn [forallb]; [reflexivity|]. intros H. apply andb_true_iff in H. destruct H as [Hx Hr].
  rewrite IH by exact Hr. unfold is_digit in Hx. unfold plain. lia.
Qed.
Lemma fmt4_plain ip : octets_ok ip -> forallb plain (fmt4 ip) = true.
Proof.
  destruct ip as [[[a b] c] d]. intros [Ha [Hb [Hc Hd]]].
  destruct (octet_ok a Ha) as [_ [Da _]]. destruct (octet_ok b Hb) as [_ [Db _]].
  destruct (octet_ok c Hc) as [_ [Dc _]]. destruct (octet_ok d Hd) as [_ [Dd _]].
  unfold fmt4. rewrite !forallb_app. cbn [forallb]. rewrite !(digits_plain _ Da), !(digits_plain _ Db), !(digits_plain _ Dc), !(digits_plain _ Dd).
  reflexivity.
Qed.

(* a component that starts with a colon is not an octet, so "::ffff:a.b.c.d" is never taken for a dotted quad *)
Lemma parse_ipv4_colon r : parse_ipv4 (58 :: r) = None.
Proof.
  unfold parse_ipv4. cbn [split_on]. change (58 =? 46) with false. cbv iota.
  assert (K : forall s cur, exists x rest, split_on 46 s (58 :: cur) = (58 :: x) :: rest).
  { induction s as [|y s IH]; intros cur; cbn [split_on]; [exists cur, []; reflexivity|].
    destruct (y =? 46); [exists cur, (split_on 46 s []); reflexivity | apply (IH (cur ++ [y]))]. }
  destruct (K r []) as [x [rest E]]. cbn [app]. rewrite E.
  destruct rest as [|b [|c [|d [|e rest]]]]; reflexivity.
Qed.

(* an IPv4-mapped address in the text form inet_ntop gives it is judged by the IPv4 address it embeds *)
Theorem classifier_mapped ip : octets_ok ip -> private_host (s_mapped ++ fmt4 ip) = non_routable4 (v4 ip).
Proof.
  intros H.
  set (tail := [58; 102; 102; 102; 102; 58] ++ fmt4 ip).
  assert (Eh : s_mapped ++ fmt4 ip = 58 :: tail) by reflexivity.
  assert (Hplain : forallb plain (58 :: tail) = true).
  { unfold tail. cbn [forallb app]. rewrite (fmt4_plain ip H). reflexivity. }
  assert (Hnorm : normalize_ipv6 (58 :: tail) = 58 :: tail) by (apply normalize_plain; [exact Hplain | intros r E; discriminate]).
  rewrite Eh. unfold private_host. rewrite parse_ipv4_colon.
  cbn [map]. change (lower 58) with 58. unfold s_localhost, s_any. cbn [list_eqb].
  change (58 =? 108) with false. change (58 =? 48) with false. cbn [andb].
  cbn [has_char existsb]. change (58 =? 58) with true. cbn [orb].
  unfold private6. rewrite Hnorm.
  assert (S : starts_with s_mapped (58 :: tail) = true) by (rewrite <- Eh; apply starts_with_app).
  assert (K : skipn 7 (58 :: tail) = fmt4 ip) by reflexivity.
  rewrite S, K, (parse_fmt4 ip H). cbn [andb].
  rewrite (private4_is_the_reserved_ranges ip H).
  unfold tail. cbn. reflexivity.
Qed.

(* ================================================================ what gets published *)
Definition ok (ap : bool) (h : list Z) : bool := ap || negb (private_host h).
Definition CGood (ap : bool) (l : list cand) : Prop := forall h p v, In (h, p, v) l -> ok ap h = true.
Definition Good (ap : bool) (l : list adv) : Prop := forall h p, In (h, p, false) l -> ok ap h = true.
Definition AllManual (l : list adv) : Prop := forall h p m, In (h, p, m) l -> m = true.

Lemma append_candidate_good ap l c : CGood ap l -> CGood ap (append_candidate ap l c).
Proof.
  intros H. destruct c as [[h p] v]. unfold append_candidate.
  destruct (negb (valid_host h) || (p =? 0)); [exact H|].
  destruct (negb ap && private_host h) eqn:E; [exact H|].
  destruct (existsb _ l); [exact H|].
  intros h' p' v' Hin. apply in_app_or in Hin. destruct Hin as [Hin|[Hin|[]]]; [eapply H; exact Hin|].
  inversion Hin; subst. unfold ok. destruct ap; [reflexivity|]. cbn [negb andb orb] in *. rewrite E. reflexivity.
Qed.

Lemma CGood_nil ap : CGood ap []. Proof. intros h p v []. Qed.

Theorem build_candidates_good ap ch echo tp ext ep st : CGood ap (fst (build_candidates ap ch echo tp ext ep st)).
Proof.
  unfold build_candidates. cbn [fst].
  set (l1 := if st && valid_host ext && negb ((if ep =? 0 then tp else ep) =? 0) then _ else _).
  assert (H1 : CGood ap l1) by (unfold l1; destruct (_ && _ && _); apply append_candidate_good, CGood_nil).
  destruct (ap && valid_host _); [apply append_candidate_good; exact H1|].
  destruct l1 as [|x r] eqn:E; [|exact H1].
  destruct (valid_host match ch with [] => s_any | _ :: _ => ch end); [apply append_candidate_good; exact H1 | exact H1].
Qed.

Lemma manuals_all_manual (l : list endpoint) : AllManual (map (fun e => (fst e, snd e, true)) l).
Proof. intros h p m Hin. apply in_map_iff in Hin. destruct Hin as [e [E _]]. inversion E. reflexivity. Qed.
Lemma AllManual_good ap l : AllManual l -> Good ap l.
Proof. intros H h p Hin. specialize (H h p false Hin). discriminate. Qed.

Lemma r_append_good ap tp st cd : Good ap (fst st) -> (let '(h, _, _) := cd in ok ap h = true) -> Good ap (fst (r_append tp st cd)).
Proof.
  intros H Hc. destruct cd as [[h p] v]. unfold r_append. destruct h as [|x r]; [exact H|].
  destruct ((if p =? 0 then tp else p) =? 0); [exact H|]. destruct (existsb _ (snd st)); [exact H|].
  cbn [fst]. intros h' p' Hin. apply in_app_or in Hin. destruct Hin as [Hin|[Hin|[]]]; [eapply H; exact Hin|].
  inversion Hin; subst. exact Hc.
Qed.
Lemma fold_r_append_good ap tp cands : forall st, Good ap (fst st) -> CGood ap cands -> Good ap (fst (fold_left (r_append tp) cands st)).
Proof.
  induction cands as [|cd r IH]; cbn [fold_left]; intros st H Hc; [exact H|].
  apply IH; [|intros h p v Hin; eapply Hc; right; exact Hin].
  apply r_append_good; [exact H|]. destruct cd as [[h p] v]. eapply Hc. left. reflexivity.
Qed.

Lemma select_public_in l x : select_public l = Some x -> In x l.
Proof. unfold select_public. intros H. apply find_some in H. tauto. Qed.

Theorem refresh_good c echo tp ext ep st :
  let '(advd, cands, _) := refresh c echo tp ext ep st in Good (allow_private c) advd /\ CGood (allow_private c) cands.
Proof.
  unfold refresh. set (manuals := map (fun e => (fst e, snd e, true)) (manual c)).
  assert (Hm : Good (allow_private c) manuals) by (apply AllManual_good, manuals_all_manual).
  destruct (mode c =? 2); [split; [exact Hm | apply CGood_nil]|].
  destruct (tp =? 0); [split; [exact Hm | apply CGood_nil]|].
  pose proof (build_candidates_good (allow_private c) (control_host c) echo tp ext ep st) as Hc.
  destruct (build_candidates _ _ _ _ _ _ _) as [cands conflict]. cbn [fst] in Hc.
  destruct cands as [|first rest] eqn:E; [split; [exact Hm | exact Hc]|]. rewrite <- E in *.
  destruct (negb ((mode c =? 0) || negb conflict)); [split; [exact Hm | exact Hc]|].
  split; [|exact Hc].
  destruct (manual c) as [|m0 ms] eqn:Em.
  - apply r_append_good; [exact Hm|].
    destruct (select_public cands) as [x|] eqn:S.
    + destruct x as [[h p] v]. eapply Hc. apply select_public_in. exact S.
    + destruct first as [[h p] v]. eapply Hc. rewrite E. left. reflexivity.
  - apply fold_r_append_good; [exact Hm | exact Hc].
Qed.

Lemma p_append_good ap st e : Good ap st -> (let '(h, _, m) := e in m = true \/ ok ap h = true) -> Good ap (p_append st e).
Proof.
  intros H He. destruct e as [[h p] m]. unfold p_append. destruct h as [|x r]; [exact H|].
  destruct ((p =? 0) || list_eqb (x :: r) s_any); [exact H|].
  match goal with |- context [existsb ?f st] => destruct (existsb f st) end; [exact H|].
  intros h' p' Hin. apply in_app_or in Hin. destruct Hin as [Hin|[Hin|[]]]; [eapply H; exact Hin|].
  inversion Hin; subst. destruct He as [He|He]; [discriminate | exact He].
Qed.
Lemma Good_nil ap : Good ap []. Proof. intros h p []. Qed.

Lemma fold_p_append_adv ap fb advertised : forall st, Good ap st -> Good ap advertised ->
  Good ap (fold_left (fun st e => let '(h, p, m) := e in p_append st (h, (if p =? 0 then fb else p), m)) advertised st).
Proof.
  induction advertised as [|e r IH]; cbn [fold_left]; intros st H Ha; [exact H|].
  apply IH; [|intros h p Hin; eapply Ha; right; exact Hin].
  destruct e as [[h p] m]. apply p_append_good; [exact H|]. destruct m; [left; reflexivity|]. right. eapply Ha. left. reflexivity.
Qed.
Lemma fold_p_append_cands ap fb cands : forall st, Good ap st -> CGood ap cands ->
  Good ap (fold_left (fun st cd => let '(h, p, _) := cd in p_append st (h, (if p =? 0 then fb else p), false)) cands st).
Proof.
  induction cands as [|cd r IH]; cbn [fold_left]; intros st H Hc; [exact H|].
  apply IH; [|intros h p v Hin; eapply Hc; right; exact Hin].
  destruct cd as [[h p] v]. apply p_append_good; [exact H|]. right. eapply Hc. left. reflexivity.
Qed.

(* every automatically generated entry of preferred_control_endpoints passes the filter *)
Theorem preferred_good c advertised cands conflict tp ext ep hn :
  Good (allow_private c) advertised -> CGood (allow_private c) cands ->
  Good (allow_private c) (preferred c advertised cands conflict tp ext ep hn).
Proof.
  intros Ha Hc. unfold preferred.
  set (fb := if tp =? 0 then control_port c else tp).
  set (st0 := match advertised with [] => _ | _ => _ end).
  assert (H0 : Good (allow_private c) st0).
  { unfold st0. destruct advertised as [|a0 ar] eqn:E.
    - destruct (adv_host c); [apply p_append_good; [apply Good_nil | left; reflexivity]|].
      destruct (control_host c); [apply Good_nil | apply p_append_good; [apply Good_nil | left; reflexivity]].
    - rewrite <- E in *. apply fold_p_append_adv; [apply Good_nil | exact Ha]. }
  set (st1 := if (mode c =? 2) || (mode c =? 1) && conflict then st0 else _).
  assert (H1 : Good (allow_private c) st1).
  { unfold st1. destruct ((mode c =? 2) || (mode c =? 1) && conflict); [exact H0 | apply fold_p_append_cands; assumption]. }
  destruct (tp =? 0); [exact H1|].
  destruct (((mode c =? 2) || (mode c =? 1) && conflict) || negb (auto_ok c _)) eqn:E; [exact H1|].
  apply p_append_good; [exact H1|]. right. apply orb_false_iff in E. destruct E as [_ E].
  unfold auto_ok in E. unfold ok. destruct (allow_private c || negb (private_host _)); [reflexivity | discriminate].
Qed.

(* ... and when auto-advertise withholds (off, or warn with a conflict) only manual entries remain *)
Lemma p_append_manual st e : AllManual st -> (let '(_, _, m) := e in m = true) -> AllManual (p_append st e).
Proof.
  intros H He. destruct e as [[h p] m]. unfold p_append. destruct h as [|x r]; [exact H|].
  destruct ((p =? 0) || list_eqb (x :: r) s_any); [exact H|].
  match goal with |- context [existsb ?f st] => destruct (existsb f st) end; [exact H|].
  intros h' p' m' Hin. apply in_app_or in Hin. destruct Hin as [Hin|[Hin|[]]]; [eapply H; exact Hin|]. inversion Hin as [[E1 E2 E3]]. rewrite <- E3. exact He.
Qed.
Lemma AllManual_nil : AllManual []. Proof. intros h p m []. Qed.
Lemma fold_p_append_manual fb advertised : forall st, AllManual st -> AllManual advertised ->
  AllManual (fold_left (fun st e => let '(h, p, m) := e in p_append st (h, (if p =? 0 then fb else p), m)) advertised st).
Proof.
  induction advertised as [|e r IH]; cbn [fold_left]; intros st H Ha; [exact H|].
  apply IH; [|intros h p m Hin; eapply Ha; right; exact Hin].
  destruct e as [[h p] m]. apply p_append_manual; [exact H|]. eapply Ha. left. reflexivity.
Qed.

Theorem preferred_suppressed c advertised cands conflict tp ext ep hn :
  (mode c =? 2) || ((mode c =? 1) && conflict) = true -> AllManual advertised ->
  AllManual (preferred c advertised cands conflict tp ext ep hn).
Proof.
  intros Hs Ha. unfold preferred. rewrite Hs. cbn [orb].
  assert (H0 : AllManual (match advertised with
                          | [] => match adv_host c with
                                  | Some h => p_append [] (h, (if adv_port c =? 0 then (if tp =? 0 then control_port c else tp) else adv_port c), true)
                                  | None => match control_host c with [] => [] | h => p_append [] (h, (if tp =? 0 then control_port c else tp), true) end
                                  end
                          | _ => fold_left (fun st e => let '(h, p, m) := e in p_append st (h, (if p =? 0 then (if tp =? 0 then control_port c else tp) else p), m)) advertised []
                          end)).
  { destruct advertised as [|a0 ar] eqn:E.
    - destruct (adv_host c); [apply p_append_manual; [apply AllManual_nil | reflexivity]|].
      destruct (control_host c); [apply AllManual_nil | apply p_append_manual; [apply AllManual_nil | reflexivity]].
    - rewrite <- E in *. apply fold_p_append_manual; [apply AllManual_nil | exact Ha]. }
  destruct (tp =? 0); exact H0.
Qed.

Theorem refresh_suppressed c echo tp ext ep st :
  let '(advd, _, conflict) := refresh c echo tp ext ep st in
  (mode c =? 2) || ((mode c =? 1) && conflict) = true -> AllManual advd.
Proof.
  unfold refresh. set (manuals := map (fun e => (fst e, snd e, true)) (manual c)).
  assert (Hm : AllManual manuals) by apply manuals_all_manual.
  destruct (mode c =? 2) eqn:M2; [intros _; exact Hm|].
  destruct (tp =? 0); [intros _; exact Hm|].
  destruct (build_candidates _ _ _ _ _ _ _) as [cands conflict].
  destruct cands as [|first rest]; [intros _; exact Hm|].
  destruct (negb ((mode c =? 0) || negb conflict)) eqn:P; [intros _; exact Hm|].
  intros H. exfalso. cbn [orb] in H. apply andb_true_iff in H. destruct H as [H1 H2]. rewrite H2 in P.
  assert ((mode c =? 0) = false) by lia. rewrite H in P. discriminate.
Qed.

Lemma hints_in l e : In e (hints l) -> In e l.
Proof. unfold hints. intros H. apply in_app_or in H. destruct H as [H|H]; apply filter_In in H; tauto. Qed.
