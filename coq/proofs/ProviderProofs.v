(* C06: proofs about model/ProviderModel.v. *)
Require Import ZArith List Bool Lia ZifyBool.
Import ListNotations.
Local Open Scope Z_scope.
From EphVerif Require Import lib.Bytes model.ProviderModel gen.Constants_kademlia.

(* ---- the association list ---- *)
Lemma get_del_eq c t : get c (del c t) = None.
Proof. induction t as [|[k v] t IH]; cbn [del get]; [reflexivity|]. destruct (k =? c) eqn:E; [exact IH|]. cbn [get]. rewrite E. exact IH. Qed.

Lemma get_del_neq c c' t : c <> c' -> get c' (del c t) = get c' t.
Proof.
  intros Hn. induction t as [|[k v] t IH]; cbn [del get]; [reflexivity|].
  destruct (k =? c) eqn:E.
  - destruct (k =? c') eqn:E'; [lia | exact IH].
  - cbn [get]. destruct (k =? c'); [reflexivity | exact IH].
Qed.

Lemma get_set_eq c v t : get c (set c v t) = Some v.
Proof. unfold set. cbn [get]. rewrite Z.eqb_refl. reflexivity. Qed.

Lemma get_set_neq c c' v t : c <> c' -> get c' (set c v t) = get c' t.
Proof. intros Hn. unfold set. cbn [get]. destruct (c =? c') eqn:E; [lia|]. apply get_del_neq. exact Hn. Qed.

(* ---- what every locator satisfies ---- *)
Definition loc_ok (l : locator) : Prop :=
  Forall (fun h => snd h <= snd l) (fst l) /\ NoDup (map fst (fst l)) /\ zlen (fst l) <= max_providers /\ fst l <> [].

Definition Inv (st : state) : Prop := forall c l, get c (tbl st) = Some l -> loc_ok l.

Lemma filter_Forall {A} (P : A -> Prop) f l : Forall P l -> Forall P (filter f l).
Proof. intros H. rewrite Forall_forall in *. intros x Hx. apply filter_In in Hx. apply H. tauto. Qed.

Lemma filter_NoDup_map (f : holder -> bool) l : NoDup (map fst l) -> NoDup (map fst (filter f l)).
Proof.
  induction l as [|h l IH]; cbn [filter map]; intros H; [constructor|].
  inversion H as [|? ? Hn Hd]; subst. destruct (f h); cbn [map]; [|apply IH; exact Hd].
  constructor; [|apply IH; exact Hd]. intros Hin. apply Hn.
  apply in_map_iff in Hin. destruct Hin as (x & Hx & Hf). apply filter_In in Hf. apply in_map_iff. exists x. tauto.
Qed.

Lemma filter_zlen {A} (f : A -> bool) l : zlen (filter f l) <= zlen l.
Proof. unfold zlen. induction l as [|x l IH]; cbn [filter length]; [lia|]. destruct (f x); cbn [length]; lia. Qed.

Lemma loc_ok_filter f hs lexp : loc_ok (hs, lexp) -> filter f hs <> [] -> loc_ok (filter f hs, lexp).
Proof.
  intros (A & B & C & _) Hne. cbn [fst snd] in *. repeat split; cbn [fst snd].
  - apply filter_Forall. exact A.
  - apply filter_NoDup_map. exact B.
  - pose proof (filter_zlen f hs). lia.
  - exact Hne.
Qed.

(* ---- the sort ---- *)
Lemma insert_desc_perm h l : forall x, In x (insert_desc h l) <-> x = h \/ In x l.
Proof.
  induction l as [|y l IH]; intros x; cbn [insert_desc]; [simpl; intuition congruence|].
  destruct (snd y <? snd h); [simpl; intuition congruence|]. simpl. rewrite IH. intuition congruence.
Qed.

Lemma sort_desc_in l : forall x, In x (sort_desc l) <-> In x l.
Proof.
  induction l as [|h l IH]; intros x; [simpl; tauto|].
  unfold sort_desc in *. cbn [fold_right]. rewrite insert_desc_perm, IH. simpl. intuition congruence.
Qed.

Lemma insert_desc_length h l : length (insert_desc h l) = S (length l).
Proof. induction l as [|y l IH]; cbn [insert_desc]; [reflexivity|]. destruct (snd y <? snd h); cbn [length]; lia. Qed.

Lemma sort_desc_length l : length (sort_desc l) = length l.
Proof. induction l as [|h l IH]; [reflexivity|]. unfold sort_desc in *. cbn [fold_right]. rewrite insert_desc_length, IH. reflexivity. Qed.

Fixpoint desc (l : list holder) : Prop :=
  match l with [] => True | x :: r => Forall (fun y => snd y <= snd x) r /\ desc r end.

Lemma insert_desc_sorted h l : desc l -> desc (insert_desc h l).
Proof.
  induction l as [|y l IH]; intros Hd; cbn [insert_desc]; [simpl; auto|].
  destruct Hd as [Hy Hl]. destruct (snd y <? snd h) eqn:E.
  - cbn [desc]. split; [|split; assumption]. constructor; [lia|]. eapply Forall_impl; [|exact Hy]. intros a Ha. cbn beta in *. lia.
  - cbn [desc]. split; [|apply IH; exact Hl]. rewrite Forall_forall. intros x Hx. apply insert_desc_perm in Hx.
    destruct Hx as [->|Hx]; [lia|]. rewrite Forall_forall in Hy. apply Hy. exact Hx.
Qed.

Lemma sort_desc_sorted l : desc (sort_desc l).
Proof. induction l as [|h l IH]; [exact I|]. unfold sort_desc in *. cbn [fold_right]. apply insert_desc_sorted. exact IH. Qed.

Lemma insert_desc_NoDup h l : ~ In (fst h) (map fst l) -> NoDup (map fst l) -> NoDup (map fst (insert_desc h l)).
Proof.
  induction l as [|y l IH]; intros Hn Hd; cbn [insert_desc]; [cbn; constructor; [tauto | constructor]|].
  destruct (snd y <? snd h); [cbn [map]; constructor; assumption|].
  cbn [map] in *. inversion Hd as [|? ? Hy Hd']; subst. constructor.
  - intros Hin. apply in_map_iff in Hin. destruct Hin as (x & Hx & Hin). apply insert_desc_perm in Hin.
    destruct Hin as [->|Hin]; [apply Hn; left; congruence | apply Hy; apply in_map_iff; eauto].
  - apply IH; [intros Hin; apply Hn; right; exact Hin | exact Hd'].
Qed.

Lemma sort_desc_NoDup l : NoDup (map fst l) -> NoDup (map fst (sort_desc l)).
Proof.
  induction l as [|h l IH]; intros Hd; [constructor|]. cbn [map] in Hd. inversion Hd as [|? ? Hn Hd']; subst.
  change (sort_desc (h :: l)) with (insert_desc h (sort_desc l)). apply insert_desc_NoDup; [|apply IH; exact Hd'].
  intros Hin. apply Hn. apply in_map_iff in Hin. destruct Hin as (x & Hx & Hin). apply (proj1 (sort_desc_in l x)) in Hin. apply in_map_iff. eauto.
Qed.

Lemma firstn_NoDup_map n (l : list holder) : NoDup (map fst l) -> NoDup (map fst (firstn n l)).
Proof.
  revert l. induction n as [|n IH]; intros [|h l] Hd; cbn [firstn map]; try constructor.
  - cbn [map] in Hd. inversion Hd as [|? ? Hn Hd']; subst. intros Hin. apply Hn.
    apply in_map_iff in Hin. destruct Hin as (x & Hx & Hin). apply in_map_iff. exists x. split; [exact Hx|].
    rewrite <- (firstn_skipn n l). apply in_or_app. left. exact Hin.
  - cbn [map] in Hd. inversion Hd; subst. apply IH. assumption.
Qed.

Lemma firstn_Forall {A} (P : A -> Prop) n l : Forall P l -> Forall P (firstn n l).
Proof. revert l. induction n as [|n IH]; intros [|x l] H; cbn [firstn]; try constructor; inversion H; subst; auto. Qed.

(* the cap keeps those expiring last: whatever is cut expires no later than everything kept *)
Lemma desc_cut l : desc l -> forall n x y, In x (firstn n l) -> In y (skipn n l) -> snd y <= snd x.
Proof.
  induction l as [|a l IH]; intros Hd n x y Hx Hy; [destruct n; simpl in Hy; contradiction|].
  destruct n as [|n]; [simpl in Hx; contradiction|]. cbn [firstn skipn] in *. destruct Hd as [Ha Hl].
  destruct Hx as [->|Hx].
  - rewrite Forall_forall in Ha. apply Ha. rewrite <- (firstn_skipn n l). apply in_or_app. right. exact Hy.
  - eapply IH; eassumption.
Qed.

Lemma NoDup_snoc {A} (l : list A) a : NoDup l -> ~ In a l -> NoDup (l ++ [a]).
Proof. intros H1 H2. pose proof (Add_app a l []) as HA. rewrite app_nil_r in HA. apply (NoDup_Add HA). split; assumption. Qed.

(* ---- the invariant ---- *)
Lemma add_holders_ok hs lexp p exp :
  Forall (fun h => snd h <= lexp) hs -> NoDup (map fst hs) ->
  let hs1 := filter (fun h => negb (fst h =? p)) hs ++ [(p, exp)] in
  Forall (fun h => snd h <= Z.max lexp exp) hs1 /\ NoDup (map fst hs1).
Proof.
  intros A B hs1. split.
  - apply Forall_app. split.
    + apply filter_Forall. eapply Forall_impl; [|exact A]. intros h Hh. cbn beta in *. lia.
    + constructor; [cbn; lia | constructor].
  - unfold hs1. rewrite map_app. cbn [map fst].
    apply NoDup_snoc; [apply filter_NoDup_map; exact B|].
    intros Hin. apply in_map_iff in Hin. destruct Hin as (x & Hx & Hf). apply filter_In in Hf. destruct Hf as [_ Hf]. lia.
Qed.

Lemma add_inv st c p ttl : Inv st -> Inv (add st c p ttl).
Proof.
  intros HI c' l. unfold add. remember (Z.to_nat max_providers) as cap eqn:Hcap.
  destruct (get c (tbl st)) as [[hs lexp]|] eqn:G.
  - destruct (HI c _ G) as (A & B & C & D). cbn [fst snd] in *.
    destruct (add_holders_ok hs lexp p (now st + ttl) A B) as [A1 B1].
    set (hs1 := filter (fun h => negb (fst h =? p)) hs ++ [(p, now st + ttl)]) in *.
    cbn [tbl]. destruct (Z.eq_dec c c') as [<-|Hn].
    + rewrite get_set_eq. intros E. injection E as <-. unfold loc_ok. cbn [fst snd].
      destruct (max_providers <? zlen hs1) eqn:Ecap.
      * assert (Hmp : max_providers = 20) by reflexivity.
        assert (Hlen : length (firstn cap (sort_desc hs1)) = cap).
        { rewrite firstn_length, sort_desc_length. subst cap. unfold zlen in Ecap. apply Z.ltb_lt in Ecap. apply Nat.min_l. rewrite Hmp in *. apply Nat2Z.inj_le. rewrite Z2Nat.id by lia. apply Z.lt_le_incl. exact Ecap. }
        split; [|split; [|split]].
        -- apply firstn_Forall. rewrite Forall_forall in *. intros x Hx. apply A1. apply (proj1 (sort_desc_in hs1 x)). exact Hx.
        -- apply firstn_NoDup_map. apply sort_desc_NoDup. exact B1.
        -- unfold zlen. rewrite Hlen. subst cap. lia.
        -- intros E. rewrite E in Hlen. cbn [length] in Hlen. subst cap. lia.
      * apply Z.ltb_ge in Ecap. repeat split; try assumption. unfold hs1. intros E. apply app_eq_nil in E. destruct E as [_ E]. discriminate.
    + rewrite get_set_neq by exact Hn. apply HI.
  - cbn [tbl]. destruct (Z.eq_dec c c') as [<-|Hn].
    + rewrite get_set_eq. intros E. injection E as <-. unfold loc_ok. cbn [fst snd filter app].
      change (max_providers <? zlen [(p, now st + ttl)]) with false. cbv iota. cbn [fst snd].
      repeat split; [constructor; [cbn; lia | constructor] | cbn; constructor; [simpl; tauto | constructor] | unfold max_providers, zlen; simpl; lia | discriminate].
    + rewrite get_set_neq by exact Hn. apply HI.
Qed.

Lemma find_inv st c : Inv st -> Inv (snd (find st c)).
Proof.
  intros HI. unfold find. destruct (get c (tbl st)) as [[hs lexp]|] eqn:G; [|exact HI].
  destruct (filter (live (now st)) hs) as [|h hs'] eqn:F; cbn [snd]; intros c' l; cbn [tbl].
  - destruct (Z.eq_dec c c') as [<-|Hn]; [rewrite get_del_eq; discriminate | rewrite get_del_neq by exact Hn; apply HI].
  - destruct (Z.eq_dec c c') as [<-|Hn]; [|rewrite get_set_neq by exact Hn; apply HI].
    rewrite get_set_eq. intros E. injection E as <-. rewrite <- F. apply loc_ok_filter; [apply (HI c); exact G | rewrite F; discriminate].
Qed.

Lemma withdraw_inv st c p : Inv st -> Inv (withdraw st c p).
Proof.
  intros HI. unfold withdraw. destruct (get c (tbl st)) as [[hs lexp]|] eqn:G; [|exact HI].
  destruct (filter (fun h => negb (fst h =? p)) hs) as [|h hs'] eqn:F; intros c' l; cbn [tbl].
  - destruct (Z.eq_dec c c') as [<-|Hn]; [rewrite get_del_eq; discriminate | rewrite get_del_neq by exact Hn; apply HI].
  - destruct (Z.eq_dec c c') as [<-|Hn]; [|rewrite get_set_neq by exact Hn; apply HI].
    rewrite get_set_eq. intros E. injection E as <-. pose proof (loc_ok_filter (fun h0 => negb (fst h0 =? p)) hs lexp (HI c _ G)) as L. unfold holder in *. rewrite F in L. apply L. discriminate.
Qed.

(* what a sweep leaves of a table *)
Lemma get_sweep t0 t c l : get c (sweep_tbl t0 t) = Some l ->
  exists hs lexp, In (c, (hs, lexp)) t /\ l = (filter (live t0) hs, lexp) /\ filter (live t0) hs <> [] /\ t0 < lexp.
Proof.
  induction t as [|[k [hs lexp]] t IH]; cbn [sweep_tbl get]; [discriminate|].
  destruct (filter (live t0) hs) as [|h hs'] eqn:F.
  - intros G. destruct (IH G) as (a & b & Hin & R). exists a, b. split; [right; exact Hin | exact R].
  - destruct (lexp <=? t0) eqn:E.
    + intros G. destruct (IH G) as (a & b & Hin & R). exists a, b. split; [right; exact Hin | exact R].
    + cbn [get]. destruct (k =? c) eqn:Ek.
      * intros G. injection G as <-. assert (k = c) by lia. subst k. exists hs, lexp. rewrite F.
        split; [left; reflexivity|]. split; [reflexivity|]. split; [discriminate | lia].
      * intros G. destruct (IH G) as (a & b & Hin & R). exists a, b. split; [right; exact Hin | exact R].
Qed.

(* Inv is stated through [get]; for the sweep we need it for every physical entry, so keys must be unique *)
Definition keys_unique (t : table) : Prop := NoDup (map fst t).

Lemma in_get t c l : keys_unique t -> In (c, l) t -> get c t = Some l.
Proof.
  induction t as [|[k v] t IH]; intros Hu Hin; [contradiction|].
  cbn [map fst] in Hu. inversion Hu as [|? ? Hn Hu']; subst. cbn [get]. destruct Hin as [E|Hin].
  - injection E as -> ->. rewrite Z.eqb_refl. reflexivity.
  - destruct (k =? c) eqn:Ek; [|apply IH; assumption]. assert (k = c) by lia. subst k.
    exfalso. apply Hn. apply in_map_iff. exists (c, l). split; [reflexivity | exact Hin].
Qed.

Lemma del_keys c t : forall k, In k (map fst (del c t)) -> In k (map fst t) /\ k <> c.
Proof.
  induction t as [|[k' v] t IH]; intros k Hin; [contradiction|]. cbn [del] in Hin.
  destruct (k' =? c) eqn:E.
  - destruct (IH k Hin) as [A B]. split; [right; exact A | exact B].
  - cbn [map fst] in Hin. destruct Hin as [<-|Hin]; [split; [left; reflexivity | lia]|].
    destruct (IH k Hin) as [A B]. split; [right; exact A | exact B].
Qed.

Lemma del_unique c t : keys_unique t -> keys_unique (del c t).
Proof.
  unfold keys_unique. induction t as [|[k v] t IH]; intros Hu; [constructor|]. cbn [map fst] in Hu. inversion Hu as [|? ? Hn Hu']; subst.
  cbn [del]. destruct (k =? c); [apply IH; exact Hu'|]. cbn [map fst]. constructor; [|apply IH; exact Hu'].
  intros Hin. apply Hn. apply (del_keys c t k Hin).
Qed.

Lemma set_unique c v t : keys_unique t -> keys_unique (set c v t).
Proof.
  intros Hu. unfold set, keys_unique. cbn [map fst]. constructor; [|apply del_unique; exact Hu].
  intros Hin. destruct (del_keys c t c Hin) as [_ Hc]. congruence.
Qed.

Lemma sweep_keys t0 t : forall k, In k (map fst (sweep_tbl t0 t)) -> In k (map fst t).
Proof.
  induction t as [|[k' [hs lexp]] t IH]; intros k Hin; [contradiction|]. cbn [sweep_tbl] in Hin. cbn [map fst].
  destruct (filter (live t0) hs); [right; apply IH; exact Hin|].
  destruct (lexp <=? t0); [right; apply IH; exact Hin|].
  cbn [map fst] in Hin. destruct Hin as [<-|Hin]; [left; reflexivity | right; apply IH; exact Hin].
Qed.

Lemma sweep_unique t0 t : keys_unique t -> keys_unique (sweep_tbl t0 t).
Proof.
  unfold keys_unique. induction t as [|[k [hs lexp]] t IH]; intros Hu; [constructor|]. cbn [map fst] in Hu. inversion Hu as [|? ? Hn Hu']; subst.
  cbn [sweep_tbl]. destruct (filter (live t0) hs); [apply IH; exact Hu'|].
  destruct (lexp <=? t0); [apply IH; exact Hu'|]. cbn [map fst]. constructor; [|apply IH; exact Hu'].
  intros Hin. apply Hn. apply (sweep_keys t0 t k Hin).
Qed.

Definition Inv2 (st : state) : Prop := Inv st /\ keys_unique (tbl st).

Lemma sweep_inv st : Inv2 st -> Inv2 (sweep st).
Proof.
  intros [HI Hu]. split; [|apply sweep_unique; exact Hu].
  intros c l G. cbn [sweep tbl] in G. destruct (get_sweep _ _ _ _ G) as (hs & lexp & Hin & -> & Hne & _).
  apply loc_ok_filter; [apply (HI c); apply in_get; assumption | exact Hne].
Qed.

Lemma step_inv2 st o : Inv2 st -> Inv2 (fst (step st o)).
Proof.
  intros [HI Hu]. destruct o as [c p ttl|c p|c| |dt]; cbn [step fst].
  - split; [apply add_inv; exact HI|]. unfold add. destruct (get c (tbl st)) as [[hs lexp]|]; cbn [tbl]; apply set_unique; exact Hu.
  - split; [apply withdraw_inv; exact HI|]. unfold withdraw. destruct (get c (tbl st)) as [[hs lexp]|]; [|exact Hu].
    destruct (filter (fun h => negb (fst h =? p)) hs); cbn [tbl]; [apply del_unique | apply set_unique]; exact Hu.
  - pose proof (find_inv st c HI) as H. destruct (find st c) as [hs st'] eqn:F. cbn [fst snd] in *. split; [exact H|].
    unfold find in F. destruct (get c (tbl st)) as [[hs0 lexp]|]; [|injection F as _ <-; exact Hu].
    destruct (filter (live (now st)) hs0); injection F as _ <-; cbn [tbl]; [apply del_unique | apply set_unique]; exact Hu.
  - apply sweep_inv. split; assumption.
  - split; [exact HI | exact Hu].
Qed.

(* C06: every reachable state satisfies the invariant *)
Theorem reachable_inv ops : Inv2 (exec init ops).
Proof.
  unfold exec. assert (H0 : Inv2 init) by (split; [intros c l G; discriminate | constructor]).
  revert H0. generalize init. induction ops as [|o ops IH]; intros st H; cbn [fold_left]; [exact H|].
  apply IH. apply step_inv2. exact H.
Qed.

(* C06: a sweep never removes a provider before its own expiry, whatever else was announced for the chunk *)
Theorem sweep_keeps_live st c hs lexp h : Inv2 st ->
  get c (tbl st) = Some (hs, lexp) -> In h hs -> now st < snd h ->
  exists hs', get c (tbl (sweep st)) = Some (hs', lexp) /\ In h hs' /\ hs' = filter (live (now st)) hs.
Proof.
  intros [HI Hu] G Hin Hlive. destruct (HI c _ G) as (A & _). cbn [fst snd] in A.
  assert (Hl : now st < lexp). { rewrite Forall_forall in A. specialize (A h Hin). cbn beta in A. lia. }
  assert (Hf : In h (filter (live (now st)) hs)) by (apply filter_In; split; [exact Hin | unfold live; lia]).
  exists (filter (live (now st)) hs). split; [|split; [exact Hf | reflexivity]].
  cbn [sweep tbl]. clear HI A. revert G Hu. generalize (tbl st) as t.
  induction t as [|[k [hs0 l0]] t IH]; cbn [get]; [discriminate|]. intros G Hu.
  cbn [map fst] in Hu. inversion Hu as [|? ? Hn Hu']; subst. cbn [sweep_tbl].
  destruct (k =? c) eqn:Ek.
  - injection G as -> ->. destruct (filter (live (now st)) hs) as [|x xs] eqn:F; [contradiction|].
    destruct (lexp <=? now st) eqn:E; [lia|]. cbn [get]. rewrite Ek. reflexivity.
  - destruct (filter (live (now st)) hs0); [apply IH; assumption|].
    destruct (l0 <=? now st); [apply IH; assumption|]. cbn [get]. rewrite Ek. apply IH; assumption.
Qed.

(* C06: the answer of a lookup is exactly the live holders, and a sweep does not change any answer *)
Theorem find_exact st c : fst (find st c) =
  match get c (tbl st) with Some (hs, _) => filter (live (now st)) hs | None => [] end.
Proof.
  unfold find. destruct (get c (tbl st)) as [[hs lexp]|]; [|reflexivity].
  destruct (filter (live (now st)) hs); reflexivity.
Qed.

Lemma filter_idem {A} (f : A -> bool) l : filter f (filter f l) = filter f l.
Proof. induction l as [|x l IH]; [reflexivity|]. cbn [filter]. destruct (f x) eqn:E; [cbn [filter]; rewrite E, IH; reflexivity | exact IH]. Qed.

Lemma get_sweep_none t0 t c : keys_unique t -> get c (sweep_tbl t0 t) = None ->
  match get c t with Some (hs, lexp) => filter (live t0) hs = [] \/ lexp <= t0 | None => True end.
Proof.
  induction t as [|[k [hs lexp]] t IH]; intros Hu G; [exact I|].
  cbn [map fst] in Hu. inversion Hu as [|? ? Hn Hu']; subst. cbn [get sweep_tbl] in *.
  destruct (k =? c) eqn:Ek.
  - destruct (filter (live t0) hs) eqn:F; [left; reflexivity|].
    destruct (lexp <=? t0) eqn:E; [right; lia|]. cbn [get] in G. rewrite Ek in G. discriminate.
  - destruct (filter (live t0) hs); [apply IH; assumption|].
    destruct (lexp <=? t0); [apply IH; assumption|]. cbn [get] in G. rewrite Ek in G. apply IH; assumption.
Qed.

Lemma all_expired t0 lexp hs : Forall (fun h : holder => snd h <= lexp) hs -> lexp <= t0 -> filter (live t0) hs = [].
Proof.
  induction 1 as [|h hs Hh _ IH]; intros Hl; [reflexivity|]. cbn [filter]. unfold live at 1.
  destruct (t0 <? snd h) eqn:E; [lia | apply IH; exact Hl].
Qed.

Theorem sweep_invisible st c : Inv2 st -> fst (find (sweep st) c) = fst (find st c).
Proof.
  intros [HI Hu]. rewrite !find_exact. cbn [sweep tbl now].
  destruct (get c (sweep_tbl (now st) (tbl st))) as [[hs' l']|] eqn:G.
  - destruct (get_sweep _ _ _ _ G) as (hs & lexp & Hin & E & _). injection E as -> ->.
    rewrite (in_get _ _ _ Hu Hin). apply filter_idem.
  - pose proof (get_sweep_none _ _ _ Hu G) as H. destruct (get c (tbl st)) as [[hs lexp]|] eqn:G0; [|reflexivity].
    destruct H as [H|H]; [rewrite H; reflexivity|].
    destruct (HI c _ G0) as (A & _). cbn [fst snd] in A. symmetry. apply (all_expired _ lexp); assumption.
Qed.

(* C06: announce / withdraw as seen by the next lookup *)
Theorem add_then_find st c p ttl : 0 < ttl -> zlen (match get c (tbl st) with Some (hs, _) => hs | None => [] end) < max_providers ->
  In (p, now st + ttl) (fst (find (add st c p ttl) c)) /\
  (forall h, In h (fst (find st c)) -> fst h <> p -> In h (fst (find (add st c p ttl) c))).
Proof.
  intros Httl Hroom. rewrite !find_exact. unfold add.
  destruct (get c (tbl st)) as [[hs lexp]|] eqn:G; cbn [tbl now]; rewrite get_set_eq.
  - set (hs1 := filter (fun h => negb (fst h =? p)) hs ++ [(p, now st + ttl)]).
    assert (Hle : zlen hs1 <= max_providers).
    { unfold hs1. rewrite zlen_app. pose proof (filter_zlen (fun h : Z * Z => negb (fst h =? p)) hs). change (zlen [(p, now st + ttl)]) with 1. unfold holder, zlen in *. lia. }
    destruct (max_providers <? zlen hs1) eqn:E; [lia|]. split.
    + apply filter_In. split; [apply in_or_app; right; left; reflexivity | unfold live; cbn [snd]; lia].
    + intros h Hh Hp. apply filter_In in Hh. destruct Hh as [Hin Hl]. apply filter_In. split; [|exact Hl].
      apply in_or_app. left. apply filter_In. split; [exact Hin | lia].
  - cbn [filter app]. change (max_providers <? zlen [(p, now st + ttl)]) with false. cbv iota. split; [|intros h []].
    cbn [filter]. unfold live at 1. cbn [snd]. destruct (now st <? now st + ttl) eqn:E; [left; reflexivity | lia].
Qed.

Theorem withdraw_then_find st c p h : In h (fst (find (withdraw st c p) c)) -> fst h <> p /\ In h (fst (find st c)).
Proof.
  rewrite !find_exact. unfold withdraw. destruct (get c (tbl st)) as [[hs lexp]|] eqn:G; [|rewrite G; intros []].
  destruct (filter (fun h0 => negb (fst h0 =? p)) hs) as [|x xs] eqn:F; cbn [tbl now].
  - rewrite get_del_eq. intros [].
  - rewrite get_set_eq. rewrite <- F. intros Hin. apply filter_In in Hin. destruct Hin as [Hin Hl].
    apply filter_In in Hin. destruct Hin as [Hin Hp]. split; [lia|]. apply filter_In. split; assumption.
Qed.

(* C06: the 20-cap keeps those expiring last *)
Theorem cap_keeps_latest l x y : In x (firstn (Z.to_nat max_providers) (sort_desc l)) ->
  In y (skipn (Z.to_nat max_providers) (sort_desc l)) -> snd y <= snd x.
Proof. apply desc_cut. apply sort_desc_sorted. Qed.
