(* A pass of the fetch scheduler leaves no fetch whose manifest has expired (or whose chunk is held): the part of C03 / C24
   that is about pending fetches.  Proofs about model/FetchModel.v, on top of proofs/FetchProofs.v. *)
Require Import ZArith List Bool Lia ZifyBool.
Import ListNotations.
Local Open Scope Z_scope.
From EphVerif Require Import lib.Bytes model.FetchModel proofs.FetchProofs.

(* a key whose manifest expiry is e is due for removal at `now` *)
Definition deadk (now : Z) (hl : list Z) (ch e : Z) : bool := memz ch hl || (negb (e =? 0) && (e <=? now)).
Definition dead (now : Z) (hl : list Z) (f : fetch) : bool := deadk now hl (f_chunk f) (f_expires f).

Definition exp_of (l : list fetch) (ch : Z) : option Z := option_map f_expires (ffind ch l).
(* what scanning and dispatching never change: which chunks are held, and every fetch's manifest expiry *)
Definition Same (s s' : st) : Prop := held s' = held s /\ forall ch, exp_of (fetches s') ch = exp_of (fetches s) ch.
Lemma Same_refl s : Same s s. Proof. split; reflexivity. Qed.
Lemma Same_trans a b c : Same a b -> Same b c -> Same a c.
Proof. intros [H1 H2] [H3 H4]. split; [congruence | intros ch; rewrite H4; apply H2]. Qed.

Lemma exp_fupdate f' l f : ffind (f_chunk f') l = Some f -> f_expires f' = f_expires f ->
  forall ch, exp_of (fupdate f' l) ch = exp_of l ch.
Proof.
  intros F E ch. unfold exp_of. destruct (Z.eq_dec ch (f_chunk f')) as [->|N].
  - rewrite (ffind_fupdate_same _ _ _ F), F. cbn [option_map]. rewrite E. reflexivity.
  - rewrite ffind_fupdate_other by exact N. reflexivity.
Qed.

Lemma Same_update s f f' cs : ffind (f_chunk f') (fetches s) = Some f -> f_expires f' = f_expires f ->
  Same s (mkSt (fupdate f' (fetches s)) cs (held s) (offline s)).
Proof. intros F E. split; [reflexivity | cbn [fetches]; apply (exp_fupdate _ _ _ F E)]. Qed.

(* ---------- the scan ---------- *)
Definition scan_st (r : st * list Z * list Z * Z) : st := fst (fst (fst r)).
Definition scan_completed (r : st * list Z * list Z * Z) : list Z := snd (fst (fst r)).

Lemma scan_same c now todo : forall s completed ready inflight, Same s (scan_st (scan c now todo s completed ready inflight)).
Proof.
  induction todo as [|ch r IH]; intros s completed ready inflight; cbn [scan]; [apply Same_refl|].
  destruct (ffind ch (fetches s)) as [f|] eqn:F; [|apply IH].
  destruct (memz (f_chunk f) (held s)); [apply IH|].
  destruct (negb (f_expires f =? 0) && (f_expires f <=? now)); [apply IH|].
  destruct (f_next f) as [nx|]; [|apply IH].
  destruct (f_in_flight f).
  - destruct (nx <=? now); [|apply IH].
    destruct (ffind_some_in _ _ _ F) as [_ Ech].
    assert (K : Same s (mkSt (fupdate (mkFetch (f_chunk f) (f_peer f) (f_attempts f) (Some nx) false (f_expires f) (f_enqueued f)) (fetches s))
                            (cdec (f_peer f) (counters s)) (held s) (offline s))).
    { apply Same_update with (f := f); [cbn [f_chunk]; rewrite Ech; exact F | reflexivity]. }
    destruct (exhausted c f); (eapply Same_trans; [exact K | apply IH]).
  - destruct (now <? nx); apply IH.
Qed.

Lemma scan_completed_grows c now todo : forall s completed ready inflight x,
  In x completed -> In x (scan_completed (scan c now todo s completed ready inflight)).
Proof.
  induction todo as [|ch r IH]; intros s completed ready inflight x Hx; cbn [scan]; [exact Hx|].
  destruct (ffind ch (fetches s)) as [f|]; [|apply IH; exact Hx].
  destruct (memz (f_chunk f) (held s)); [apply IH, in_or_app; left; exact Hx|].
  destruct (negb (f_expires f =? 0) && (f_expires f <=? now)); [apply IH, in_or_app; left; exact Hx|].
  destruct (f_next f) as [nx|]; [|apply IH, in_or_app; left; exact Hx].
  destruct (f_in_flight f).
  - destruct (nx <=? now); [|apply IH; exact Hx].
    destruct (exhausted c f); apply IH; [apply in_or_app; left|]; exact Hx.
  - destruct (now <? nx); apply IH; exact Hx.
Qed.

(* every key on the walk whose fetch is due for removal ends up in the completed list *)
Lemma scan_completes c now todo : forall s completed ready inflight ch e,
  In ch todo -> exp_of (fetches s) ch = Some e -> deadk now (held s) ch e = true ->
  In ch (scan_completed (scan c now todo s completed ready inflight)).
Proof.
  induction todo as [|ch0 r IH]; intros s completed ready inflight ch e Hin He Hd; [contradiction|].
  cbn [scan].
  destruct (ffind ch0 (fetches s)) as [f|] eqn:F.
  2:{ destruct Hin as [->|Hin]; [unfold exp_of in He; rewrite F in He; discriminate | eapply IH; eassumption]. }
  destruct (ffind_some_in _ _ _ F) as [_ Ech].
  (* when the walk stands on ch itself and keeps it, the fetch was not due *)
  assert (Own : ch = ch0 -> memz (f_chunk f) (held s) = false ->
                negb (f_expires f =? 0) && (f_expires f <=? now) = false -> False).
  { intros -> M X. unfold exp_of in He. rewrite F in He. cbn [option_map] in He. inversion He; subst e.
    unfold deadk in Hd. rewrite Ech in M. rewrite M, X in Hd. discriminate. }
  destruct (memz (f_chunk f) (held s)) eqn:M.
  { destruct Hin as [->|Hin]; [apply scan_completed_grows, in_or_app; right; left; exact Ech | eapply IH; eassumption]. }
  destruct (negb (f_expires f =? 0) && (f_expires f <=? now)) eqn:X.
  { destruct Hin as [->|Hin]; [apply scan_completed_grows, in_or_app; right; left; exact Ech | eapply IH; eassumption]. }
  assert (Hrest : In ch r -> forall s', Same s s' -> forall cm rd inf, In ch (scan_completed (scan c now r s' cm rd inf))).
  { intros Hr s' [Hh Hx] cm rd inf. eapply IH; [exact Hr | rewrite Hx; exact He | rewrite Hh; exact Hd]. }
  assert (Hin' : In ch r) by (destruct Hin as [E|Hin]; [exfalso; apply Own; auto | exact Hin]).
  destruct (f_next f) as [nx|]; [|apply Hrest; [exact Hin' | apply Same_refl]].
  destruct (f_in_flight f).
  - destruct (nx <=? now); [|apply Hrest; [exact Hin' | apply Same_refl]].
    assert (K : Same s (mkSt (fupdate (mkFetch (f_chunk f) (f_peer f) (f_attempts f) (Some nx) false (f_expires f) (f_enqueued f)) (fetches s))
                            (cdec (f_peer f) (counters s)) (held s) (offline s))).
    { apply Same_update with (f := f); [cbn [f_chunk]; rewrite Ech; exact F | reflexivity]. }
    destruct (exhausted c f); apply Hrest; assumption.
  - destruct (now <? nx); apply Hrest; try exact Hin'; apply Same_refl.
Qed.

(* ---------- dispatching ---------- *)
Lemma dispatch_same c now ready : forall s inflight exh out, Same s (fst (fst (dispatch_loop c now ready s inflight exh out))).
Proof.
  induction ready as [|ch r IH]; intros s inflight exh out; cbn [dispatch_loop fst]; [apply Same_refl|].
  destruct (negb (max_parallel c =? 0) && (max_parallel c <=? inflight)); [apply Same_refl|].
  destruct (ffind ch (fetches s)) as [f|] eqn:F; [|apply IH].
  destruct (negb (can_dispatch c s (f_peer f))); [apply IH|].
  destruct (ffind_some_in _ _ _ F) as [_ Ech].
  eapply Same_trans; [|apply IH].
  apply Same_update with (f := f); [cbn [f_chunk]; rewrite Ech; exact F | reflexivity].
Qed.

(* ---------- clearing only removes ---------- *)
Lemma clear_sub s ch ch' f : ffind ch' (fetches (clear s ch)) = Some f -> ffind ch' (fetches s) = Some f.
Proof.
  unfold clear. destruct (ffind ch (fetches s)) eqn:F; [|auto]. cbn [fetches]. intros H.
  destruct (Z.eq_dec ch ch') as [->|N]; [rewrite ffind_fremove_same in H; discriminate | rewrite ffind_fremove_other in H by exact N; exact H].
Qed.
Lemma clear_held s ch : held (clear s ch) = held s.
Proof. unfold clear. destruct (ffind ch (fetches s)); reflexivity. Qed.
Lemma fold_clear_sub l : forall s ch' f, ffind ch' (fetches (fold_left clear l s)) = Some f -> ffind ch' (fetches s) = Some f.
Proof. induction l as [|x r IH]; cbn [fold_left]; intros s ch' f H; [exact H | eapply clear_sub, IH, H]. Qed.

Lemma in_ffind l : NoDup (chunks l) -> forall f, In f l -> ffind (f_chunk f) l = Some f.
Proof.
  induction l as [|g r IH]; intros Hd f Hin; [contradiction|]. cbn [chunks map] in Hd. inversion Hd as [|? ? Hn Hd']; subst.
  cbn [ffind]. destruct Hin as [->|Hin]; [rewrite Z.eqb_refl; reflexivity|].
  destruct (f_chunk g =? f_chunk f) eqn:E; [|apply IH; assumption].
  exfalso. apply Hn. assert (f_chunk g = f_chunk f) as -> by lia. apply in_map. exact Hin.
Qed.

Lemma drop_core now s sX L completed f :
  NoDup (chunks (fetches (fold_left clear L sX))) -> Same s sX -> (forall x, In x completed -> In x L) ->
  (forall ch e, In ch (chunks (fetches s)) -> exp_of (fetches s) ch = Some e -> deadk now (held s) ch e = true -> In ch completed) ->
  In f (fetches (fold_left clear L sX)) -> dead now (held s) f = false.
Proof.
  intros Hnd [Hh Hx] Hsub Hcomp Hin.
  pose proof (in_ffind _ Hnd f Hin) as F.
  pose proof (fold_clear_sub _ _ _ _ F) as FX.
  destruct (dead now (held s) f) eqn:D; [exfalso | reflexivity].
  assert (E : exp_of (fetches s) (f_chunk f) = Some (f_expires f)) by (rewrite <- Hx; unfold exp_of; rewrite FX; reflexivity).
  assert (Hk : In (f_chunk f) (chunks (fetches s))).
  { destruct (in_dec Z.eq_dec (f_chunk f) (chunks (fetches s))) as [K|K]; [exact K|].
    apply ffind_none_notin in K. unfold exp_of in E. rewrite K in E. discriminate. }
  pose proof (Hcomp _ _ Hk E D) as Hc.
  rewrite (fold_clear_removes L sX (f_chunk f) (Hsub _ Hc)) in F. discriminate.
Qed.

(* ---------- the theorem: after a pass nothing due for removal is left, whatever it was waiting for ---------- *)
Theorem process_drops c s now : Inv c s -> forall f, In f (fetches (fst (process c s now))) -> dead now (held s) f = false.
Proof.
  intros H f. pose proof (process_inv c s now H) as Kinv. destruct Kinv as [Knd _]. revert Knd.
  unfold process. destruct (fetches s) as [|f0 r0] eqn:Efs; [cbn [fst]; rewrite Efs; intros _ []|]. rewrite <- Efs.
  pose proof (scan_same c now (map f_chunk (fetches s)) s [] [] 0) as K1.
  pose proof (fun ch e => scan_completes c now (map f_chunk (fetches s)) s [] [] 0 ch e) as K2.
  destruct (scan c now (map f_chunk (fetches s)) s [] [] 0) as [[[s1 completed] ready] inflight].
  unfold scan_st, scan_completed in K1, K2. cbn [fst snd] in K1, K2.
  destruct ready as [|r1 rs].
  - cbn [fst]. intros Knd Hin. eapply drop_core; [exact Knd | exact K1 | intros x Hx; exact Hx | exact K2 | exact Hin].
  - pose proof (fun l => dispatch_same c now l s1 inflight [] []) as K3.
    match goal with |- context [dispatch_loop c now ?l s1 inflight [] []] => specialize (K3 l); destruct (dispatch_loop c now l s1 inflight [] []) as [[s2 exh] out] end.
    cbn [fst] in *. intros Knd Hin.
    eapply drop_core; [exact Knd | eapply Same_trans; eassumption | intros x Hx; apply in_or_app; left; exact Hx | exact K2 | exact Hin].
Qed.

(* in particular: a tick at or after the manifest's expiry leaves no fetch of that manifest, in flight or backing off *)
Theorem no_fetch_outlives_its_manifest c expires s now : Inv c s ->
  forall f, In f (fetches (fst (fst (step c expires (s, now) Tick)))) -> f_expires f = 0 \/ now < f_expires f.
Proof.
  intros H f. cbn [step]. pose proof (process_drops c s now H f) as K.
  destruct (process c s now) as [s2 out]. cbn [fst] in *. intros Hin. specialize (K Hin).
  unfold dead, deadk in K. lia.
Qed.

(* ---------- every fetch carries its manifest's expiry, in every reachable state ---------- *)
Lemma process_keeps_expiry c s now : Inv c s -> forall f, In f (fetches (fst (process c s now))) ->
  exp_of (fetches s) (f_chunk f) = Some (f_expires f).
Proof.
  intros H f. pose proof (process_inv c s now H) as Kinv. destruct Kinv as [Knd _]. revert Knd.
  unfold process. destruct (fetches s) as [|f0 r0] eqn:Efs; [cbn [fst]; rewrite Efs; intros _ []|]. rewrite <- Efs.
  pose proof (scan_same c now (map f_chunk (fetches s)) s [] [] 0) as K1.
  destruct (scan c now (map f_chunk (fetches s)) s [] [] 0) as [[[s1 completed] ready] inflight].
  unfold scan_st in K1. cbn [fst] in K1.
  assert (Core : forall sX L, Same s sX -> NoDup (chunks (fetches (fold_left clear L sX))) ->
                 In f (fetches (fold_left clear L sX)) -> exp_of (fetches s) (f_chunk f) = Some (f_expires f)).
  { intros sX L [_ Hx] Hnd Hin. pose proof (fold_clear_sub _ _ _ _ (in_ffind _ Hnd f Hin)) as FX.
    rewrite <- Hx. unfold exp_of. rewrite FX. reflexivity. }
  destruct ready as [|r1 rs].
  - cbn [fst]. intros Knd Hin. eapply Core; eassumption.
  - pose proof (fun l => dispatch_same c now l s1 inflight [] []) as K3.
    match goal with |- context [dispatch_loop c now ?l s1 inflight [] []] => specialize (K3 l); destruct (dispatch_loop c now l s1 inflight [] []) as [[s2 exh] out] end.
    cbn [fst] in *. intros Knd Hin. eapply Core; [eapply Same_trans; eassumption | exact Knd | exact Hin].
Qed.

Definition ExpOK (expires : Z -> Z) (s : st) : Prop := forall f, In f (fetches s) -> f_expires f = expires (f_chunk f).

Lemma exp_of_ok expires s ch e : ExpOK expires s -> exp_of (fetches s) ch = Some e -> e = expires ch.
Proof.
  intros H E. unfold exp_of in E. destruct (ffind ch (fetches s)) as [g|] eqn:F; [|discriminate].
  destruct (ffind_some_in _ _ _ F) as [Hin Ech]. cbn [option_map] in E. inversion E. rewrite <- Ech. apply H. exact Hin.
Qed.

Lemma process_expok c expires s now : Inv c s -> ExpOK expires s -> ExpOK expires (fst (process c s now)).
Proof. intros H He f Hin. eapply exp_of_ok; [exact He | apply (process_keeps_expiry c s now H f Hin)]. Qed.

Lemma in_fupdate f' l g : In g (fupdate f' l) -> g = f' \/ In g l.
Proof.
  induction l as [|h r IH]; cbn [fupdate]; [intros []|]. destruct (f_chunk h =? f_chunk f').
  - intros [<-|H]; [left; reflexivity | right; right; exact H].
  - intros [<-|H]; [right; left; reflexivity | destruct (IH H); [left; assumption | right; right; assumption]].
Qed.

Lemma step_expok c expires s now o : Inv c s -> ExpOK expires s -> ExpOK expires (fst (fst (step c expires (s, now) o))).
Proof.
  intros H He. pose proof (step_inv c expires s now o H) as Kinv. revert Kinv.
  destruct o as [ch p|ch|p| |dt]; cbn [step]; try (intros _; exact He).
  - destruct (memz ch (held s)); [intros _; exact He|].
    match goal with |- context [process c ?S now] => assert (K : ExpOK expires S); [|assert (KI : Inv c S)] end.
    { destruct (ffind ch (fetches s)) as [f|] eqn:F; intros g Hg; cbn [fetches] in Hg.
      - destruct (ffind_some_in _ _ _ F) as [Hin Ech]. apply in_fupdate in Hg. destruct Hg as [->|Hg]; [|apply He; exact Hg].
        cbn [f_expires f_chunk]. rewrite <- Ech. apply He. exact Hin.
      - apply in_app_or in Hg. destruct Hg as [Hg|[<-|[]]]; [apply He; exact Hg | reflexivity]. }
    { destruct (ffind ch (fetches s)) as [f|] eqn:F.
      - destruct (ffind_some_in _ _ _ F) as [_ Ech].
        assert (F' : ffind (f_chunk f) (fetches s) = Some f) by (rewrite Ech; exact F).
        destruct (f_in_flight f) eqn:I.
        + apply release_inv with (f := f); try assumption; try reflexivity. cbn [f_chunk]. symmetry. exact Ech.
        + apply idle_update_inv with (f := f); try assumption; try reflexivity. cbn [f_chunk]. symmetry. exact Ech.
      - destruct H as [Hd [Ha Hl]]. split.
        + cbn [fetches]. unfold chunks. rewrite map_app. cbn [map f_chunk].
          apply NoDup_snoc; [exact Hd | apply ffind_none_notin; exact F].
        + split; [|exact Hl]. intros q. cbn [counters fetches]. rewrite cnt_app, cnt_cons. unfold fl at 1. cbn [f_in_flight andb b2z].
          unfold cnt at 2. cbn. rewrite Ha. unfold zlen. cbn. lia. }
    intros _. pose proof (process_expok c expires _ now KI K) as K'. destruct (process c _ now) as [s2 out]. exact K'.
  - intros _. pose proof (process_expok c expires s now H He) as K'. destruct (process c s now) as [s2 out]. exact K'.
Qed.

Theorem reachable_expok c expires ops : forall sn, Inv c (fst sn) -> ExpOK expires (fst sn) ->
  Inv c (fst (run_ops c expires sn ops)) /\ ExpOK expires (fst (run_ops c expires sn ops)).
Proof.
  unfold run_ops. induction ops as [|o r IH]; cbn [fold_left]; intros sn H He; [split; assumption|].
  destruct sn as [s now]. apply IH; [apply step_inv; exact H | apply step_expok; assumption].
Qed.

(* the reachable-state form: after ANY history, a tick leaves no fetch whose manifest (expires ch) has run out *)
Theorem tick_drops_expired c expires ops sn : Inv c (fst sn) -> ExpOK expires (fst sn) ->
  let sn' := run_ops c expires sn ops in
  forall f, In f (fetches (fst (fst (step c expires sn' Tick)))) ->
    expires (f_chunk f) = 0 \/ snd sn' < expires (f_chunk f).
Proof.
  intros H He sn' f Hin. destruct (reachable_expok c expires ops sn H He) as [HI HE]. fold sn' in HI, HE.
  destruct sn' as [s now]. cbn [fst snd] in *.
  pose proof (step_expok c expires s now Tick HI HE f Hin) as Ef.
  pose proof (no_fetch_outlives_its_manifest c expires s now HI f Hin) as K. rewrite Ef in K. exact K.
Qed.

Lemma step_time c expires s now o :
  snd (fst (step c expires (s, now) o)) = match o with Advance dt => now + (if dt <? 0 then 0 else dt) * 1000000 | _ => now end.
Proof.
  destruct o as [ch p|ch|p| |dt]; cbn [step]; try reflexivity.
  - destruct (memz ch (held s)); [reflexivity|]. destruct (process c _ now) as [s2 out]. reflexivity.
  - destruct (process c s now) as [s2 out]. reflexivity.
Qed.
