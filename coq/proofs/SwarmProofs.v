(* Proofs about model/SwarmModel.v (C22). *)
Require Import ZArith List Bool Lia ZifyBool Permutation.
Import ListNotations.
Local Open Scope Z_scope.
From EphVerif Require Import lib.Bytes model.SwarmModel.

(* ---------------------------------------------------------------- provider count *)
Theorem provider_count_formula c s mn tg thr :
  provider_count c s mn tg thr = Z.min c (Z.min s (Z.max tg (Z.min (Z.max mn thr) (Z.min c s)))).
Proof. unfold provider_count. lia. Qed.

Lemma provider_count_bounds c s mn tg thr : 0 <= c -> 0 <= s -> 0 <= mn -> 0 <= tg -> 0 <= thr ->
  0 <= provider_count c s mn tg thr <= c /\ provider_count c s mn tg thr <= s.
Proof. unfold provider_count. lia. Qed.

(* ---------------------------------------------------------------- the round-robin loop *)
Lemma push_at_length k x slots : length (push_at k x slots) = length slots.
Proof. revert k. induction slots as [|s r IH]; intros [|k]; cbn [push_at length]; auto. Qed.

Lemma push_at_perm k x slots : (k < length slots)%nat -> Permutation (concat (push_at k x slots)) (x :: concat slots).
Proof.
  revert k. induction slots as [|s r IH]; intros k Hk; [simpl in Hk; lia|].
  destruct k as [|k]; cbn [push_at concat].
  - rewrite <- app_assoc. cbn [app].
    apply Permutation_sym. apply (Permutation_middle s (concat r) x).
  - cbn [length] in Hk. eapply Permutation_trans; [apply Permutation_app_head; apply IH; lia|].
    apply Permutation_sym. apply (Permutation_middle s (concat r) x).
Qed.

Lemma push_at_nth_same k x slots : (k < length slots)%nat -> nth k (push_at k x slots) [] = nth k slots [] ++ [x].
Proof.
  revert k. induction slots as [|s r IH]; intros [|k] Hk; cbn [push_at nth length] in *; try lia; [reflexivity|].
  apply IH. lia.
Qed.

Lemma push_at_nth_other k j x slots : j <> k -> nth j (push_at k x slots) [] = nth j slots [].
Proof.
  revert k j. induction slots as [|s r IH]; intros [|k] [|j] H; cbn [push_at nth]; try reflexivity; try lia.
  apply IH. lia.
Qed.

(* shape of the slots while the loop runs: after `index` shards, with index = q*p + r and r < p,
   the first r slots hold q+1 shards and the others q *)
Definition shape (p q r : nat) (slots : list (list Z)) : Prop :=
  length slots = p /\ (r < p)%nat /\
  forall k, (k < p)%nat -> length (nth k slots []) = if Nat.ltb k r then S q else q.

Lemma mod_of_split p q r : (r < p)%nat -> Nat.modulo (q * p + r) p = r.
Proof. intros H. rewrite Nat.add_comm. rewrite Nat.mod_add by lia. apply Nat.mod_small. exact H. Qed.

Lemma assign_loop_spec p : (0 < p)%nat -> forall labels q r slots,
  shape p q r slots ->
  let out := assign_loop p labels (q * p + r) slots in
  Permutation (concat out) (concat slots ++ labels) /\
  exists q' r', shape p q' r' out /\ (q' * p + r' = q * p + r + length labels)%nat.
Proof.
  intros Hp. induction labels as [|x rest IH]; intros q r slots Hs; cbn [assign_loop].
  - split; [rewrite app_nil_r; apply Permutation_refl|]. exists q, r. split; [exact Hs | simpl; lia].
  - destruct Hs as (Hl & Hr & Hk). rewrite (mod_of_split p q r Hr).
    set (slots' := push_at r x slots).
    assert (Hs' : exists q1 r1, shape p q1 r1 slots' /\ (q1 * p + r1 = S (q * p + r))%nat).
    { destruct (Nat.eq_dec (S r) p) as [E|E].
      - exists (S q), 0%nat. split; [|simpl; lia]. unfold shape. split; [unfold slots'; rewrite push_at_length; exact Hl|].
        split; [lia|]. intros k Hkp. cbn [Nat.ltb Nat.leb]. unfold slots'.
        destruct (Nat.eq_dec k r) as [->|Hne].
        + rewrite push_at_nth_same by lia. rewrite app_length, (Hk r Hr). cbn [length].
          replace (r <? r)%nat with false by (symmetry; apply Nat.ltb_ge; lia). lia.
        + rewrite push_at_nth_other by exact Hne. rewrite (Hk k Hkp).
          replace (k <? r)%nat with true by (symmetry; apply Nat.ltb_lt; lia). reflexivity.
      - exists q, (S r). split; [|lia]. unfold shape. split; [unfold slots'; rewrite push_at_length; exact Hl|].
        split; [lia|]. intros k Hkp. unfold slots'.
        destruct (Nat.eq_dec k r) as [->|Hne].
        + rewrite push_at_nth_same by lia. rewrite app_length, (Hk r Hr). cbn [length].
          replace (r <? r)%nat with false by (symmetry; apply Nat.ltb_ge; lia).
          replace (r <? S r)%nat with true by (symmetry; apply Nat.ltb_lt; lia). lia.
        + rewrite push_at_nth_other by exact Hne. rewrite (Hk k Hkp).
          destruct (Nat.ltb_spec k r); destruct (Nat.ltb_spec k (S r)); try reflexivity; lia. }
    destruct Hs' as (q1 & r1 & Hs1 & E1). rewrite <- E1.
    specialize (IH q1 r1 slots' Hs1). cbn zeta in IH. destruct IH as (P & q' & r' & Hs2 & E2).
    split.
    + eapply Permutation_trans; [exact P|]. unfold slots'.
      eapply Permutation_trans; [apply Permutation_app_tail; apply push_at_perm; lia|].
      cbn [app]. apply Permutation_middle.
    + exists q', r'. split; [exact Hs2|]. cbn [length]. lia.
Qed.

Lemma shape_init p : (0 < p)%nat -> shape p 0 0 (repeat [] p).
Proof.
  intros Hp. unfold shape. split; [apply repeat_length|]. split; [exact Hp|].
  intros k Hk. cbn [Nat.ltb Nat.leb]. rewrite nth_repeat. reflexivity.
Qed.

Lemma concat_repeat_nil {A} n : concat (repeat (@nil A) n) = [].
Proof. induction n; simpl; auto. Qed.

(* every shard position goes to exactly one slot, and slot sizes differ by at most one *)
Theorem assign_loop_partition_even p labels : (0 < p)%nat ->
  let out := assign_loop p labels 0 (repeat [] p) in
  Permutation (concat out) labels /\ length out = p /\
  exists q r, (r < p)%nat /\ (q * p + r = length labels)%nat /\
              forall k, (k < p)%nat -> length (nth k out []) = if Nat.ltb k r then S q else q.
Proof.
  intros Hp. pose proof (assign_loop_spec p Hp labels 0 0 (repeat [] p) (shape_init p Hp)) as H.
  cbn zeta in H. replace (0 * p + 0)%nat with 0%nat in H by lia.
  destruct H as (P & q & r & (Hl & Hr & Hk) & E). rewrite concat_repeat_nil in P. cbn [app] in P.
  split; [exact P|]. split; [exact Hl|]. exists q, r. split; [exact Hr|]. split; [lia | exact Hk].
Qed.

(* ---------------------------------------------------------------- the plan *)
Lemma combine_fst_length {A B} (a : list A) (b : list B) : length a = length b -> map fst (combine a b) = a.
Proof.
  revert b. induction a as [|x a IH]; intros [|y b] H; cbn in *; try discriminate; [reflexivity|].
  f_equal. apply IH. lia.
Qed.
Lemma combine_snd_length {A B} (a : list A) (b : list B) : length a = length b -> map snd (combine a b) = b.
Proof.
  revert b. induction a as [|x a IH]; intros [|y b] H; cbn in *; try discriminate; [reflexivity|].
  f_equal. apply IH. lia.
Qed.

Theorem plan_spec labels thr ranked mn tg :
  0 <= thr -> 0 <= mn -> 0 <= tg ->
  let plan := compute_plan labels thr ranked mn tg in
  let pc := provider_count (zlen ranked) (zlen labels) mn tg thr in
  (* number of providers *)
  zlen plan = (if (zlen labels =? 0) || (zlen ranked =? 0) then 0 else pc) /\
  (* the providers are the first pc ranked candidates *)
  map fst plan = firstn (length plan) ranked /\
  (plan <> [] ->
     (* every shard (position) is handed to exactly one provider *)
     Permutation (concat (map snd plan)) labels /\
     (* evenly: floor or ceiling of shards/providers, and at least one each *)
     exists q r, (r < length plan)%nat /\ (q * length plan + r = length labels)%nat /\ (1 <= q)%nat /\
       forall k, (k < length plan)%nat -> length (nth k (map snd plan) []) = if Nat.ltb k r then S q else q).
Proof.
  intros Ht Hm Hg. cbn zeta. unfold compute_plan.
  destruct labels as [|l0 lr]; [cbn; split; [reflexivity|]; split; [reflexivity | intros H; congruence]|].
  destruct ranked as [|c0 cr].
  { split; [|split; [reflexivity | intros H; congruence]].
    unfold zlen. cbn [length]. destruct (Z.of_nat (S (length lr)) =? 0); reflexivity. }
  set (labels := l0 :: lr). set (ranked := c0 :: cr).
  set (pc := provider_count (zlen ranked) (zlen labels) mn tg thr).
  assert (Hzl : 0 < zlen labels) by (unfold zlen, labels; cbn [length]; lia).
  assert (Hzr : 0 < zlen ranked) by (unfold zlen, ranked; cbn [length]; lia).
  pose proof (provider_count_bounds (zlen ranked) (zlen labels) mn tg thr ltac:(lia) ltac:(lia) Hm Hg Ht) as (B1 & B2).
  fold pc in B1, B2.
  assert (Eo : (zlen labels =? 0) || (zlen ranked =? 0) = false) by lia. rewrite Eo.
  destruct (pc =? 0) eqn:E0.
  - split; [unfold zlen; cbn [length]; lia|]. split; [reflexivity | intros H; congruence].
  - set (p := Z.to_nat pc). assert (Hp : (0 < p)%nat) by (unfold p; lia).
    pose proof (assign_loop_partition_even p labels Hp) as (P & Hl & q & r & Hr & E & Hk). cbn zeta in *.
    set (out := assign_loop p labels 0 (repeat [] p)) in *.
    assert (Hf : length (firstn p ranked) = p) by (rewrite firstn_length; unfold zlen in *; lia).
    assert (Hlen : length (combine (firstn p ranked) out) = p) by (rewrite combine_length; lia).
    split; [unfold zlen; rewrite Hlen; unfold p; lia|].
    split; [rewrite Hlen; apply combine_fst_length; lia|].
    intros _. rewrite Hlen. rewrite combine_snd_length by lia.
    split; [exact P|]. exists q, r. split; [exact Hr|]. split; [exact E|]. split; [|exact Hk].
    (* p <= number of shards, so q >= 1 *)
    assert (p <= length labels)%nat by (unfold p, zlen in *; lia).
    destruct q; [lia | lia].
Qed.

Lemma NoDup_app_l {A} (a b : list A) : NoDup (a ++ b) -> NoDup a.
Proof.
  induction a as [|x a IH]; intros H; [constructor|]. cbn [app] in H. inversion H as [|? ? Hx Hd]; subst.
  constructor; [intros Hin; apply Hx; apply in_or_app; left; exact Hin | apply IH; exact Hd].
Qed.

Lemma NoDup_combine_fst {A B} (a : list A) : NoDup a -> forall b : list B, NoDup (map fst (combine a b)).
Proof.
  induction a as [|x a IH]; intros Hn b; [constructor|].
  destruct b as [|y b]; cbn [combine map fst]; [constructor|]. inversion Hn as [|? ? Hx Hd]; subst.
  constructor; [|apply IH; exact Hd]. intros Hin. apply Hx.
  apply in_map_iff in Hin. destruct Hin as [[a' b'] [<- Hin]]. apply in_combine_l in Hin. exact Hin.
Qed.

(* providers are distinct candidates when the candidates are distinct (C07: no id is held twice) *)
Theorem plan_providers_distinct labels thr ranked mn tg : NoDup ranked ->
  NoDup (map fst (compute_plan labels thr ranked mn tg)) /\
  forall x, In x (map fst (compute_plan labels thr ranked mn tg)) -> In x ranked.
Proof.
  intros Hn. unfold compute_plan.
  destruct labels as [|l0 lr]; [cbn; split; [constructor | tauto]|].
  destruct ranked as [|c0 cr]; [cbn; split; [constructor | tauto]|].
  destruct (provider_count _ _ _ _ _ =? 0); [cbn; split; [constructor | tauto]|].
  set (p := Z.to_nat _). set (out := assign_loop _ _ _ _). set (ranked := c0 :: cr) in *.
  assert (Hsub : forall x, In x (map fst (combine (firstn p ranked) out)) -> In x (firstn p ranked)).
  { intros x Hx. apply in_map_iff in Hx. destruct Hx as [[a b] [<- Hin]]. apply in_combine_l in Hin. exact Hin. }
  split.
  - assert (Hnf : NoDup (firstn p ranked)).
    { rewrite <- (firstn_skipn p ranked) in Hn. apply NoDup_app_l in Hn. exact Hn. }
    apply NoDup_combine_fst. exact Hnf.
  - intros x Hx. apply Hsub in Hx. rewrite <- (firstn_skipn p ranked). apply in_or_app. left. exact Hx.
Qed.
