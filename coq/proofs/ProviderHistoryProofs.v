(* C06, the history-level statement (below the cap): every lookup of the real table -- which purges expired holders lazily, at
   lookups and sweeps -- answers exactly what a reference that never purges anything by time answers.  On top of
   proofs/ProviderProofs.v. *)
Require Import ZArith List Bool Lia ZifyBool.
Import ListNotations.
Local Open Scope Z_scope.
From EphVerif Require Import lib.Bytes model.ProviderModel proofs.ProviderProofs gen.Constants_kademlia.

Definition holders (st : state) (c : Z) : list holder := match get c (tbl st) with Some (hs, _) => hs | None => [] end.

(* the reference: announcements and withdrawals as in the table, but nothing is ever removed because time has passed *)
Definition ref_step (sp : state) (o : op) : state :=
  match o with
  | Add c p ttl => add sp c p ttl
  | Withdraw c p => withdraw sp c p
  | Advance dt => advance sp dt
  | Find _ | Sweep => sp
  end.
Definition ref_exec (ops : list op) : state := fold_left ref_step ops init.
Definition ref_find (sp : state) (c : Z) : list holder := filter (live (now sp)) (holders sp c).

(* the histories in which the reference never has to cut a list down to the cap *)
Fixpoint below_cap (sp : state) (ops : list op) : Prop :=
  match ops with
  | [] => True
  | o :: r =>
      match o with
      | Add c p _ => zlen (filter (fun h => negb (fst h =? p)) (holders sp c)) + 1 <= max_providers
      | _ => True
      end /\ below_cap (ref_step sp o) r
  end.

(* l1 is l2 with some holders removed, all of them expired at time t *)
Inductive Sub (t : Z) : list holder -> list holder -> Prop :=
| sub_nil : Sub t [] []
| sub_keep h l1 l2 : Sub t l1 l2 -> Sub t (h :: l1) (h :: l2)
| sub_drop h l1 l2 : live t h = false -> Sub t l1 l2 -> Sub t l1 (h :: l2).

Lemma Sub_refl t l : Sub t l l.
Proof. induction l; constructor; assumption. Qed.
Lemma Sub_live t l1 l2 : Sub t l1 l2 -> filter (live t) l1 = filter (live t) l2.
Proof. induction 1 as [|h l1 l2 _ IH|h l1 l2 Hd _ IH]; cbn [filter]; [reflexivity | rewrite IH; reflexivity | rewrite Hd; exact IH]. Qed.
Lemma Sub_later t t' l1 l2 : t <= t' -> Sub t l1 l2 -> Sub t' l1 l2.
Proof.
  intros Ht. induction 1 as [|h l1 l2 _ IH|h l1 l2 Hd _ IH]; constructor; try assumption.
  unfold live in *. lia.
Qed.
Lemma Sub_filter t f l1 l2 : Sub t l1 l2 -> Sub t (filter f l1) (filter f l2).
Proof.
  induction 1 as [|h l1 l2 _ IH|h l1 l2 Hd _ IH]; cbn [filter]; [constructor | destruct (f h); [constructor|]; exact IH|].
  destruct (f h); [apply sub_drop; assumption | exact IH].
Qed.
Lemma Sub_app t l1 l2 m : Sub t l1 l2 -> Sub t (l1 ++ m) (l2 ++ m).
Proof. induction 1; cbn [app]; [apply Sub_refl | constructor; assumption | apply sub_drop; assumption]. Qed.
Lemma Sub_length t l1 l2 : Sub t l1 l2 -> zlen l1 <= zlen l2.
Proof. unfold zlen. induction 1; cbn [length]; lia. Qed.
Lemma Sub_purge t l : Sub t (filter (live t) l) l.
Proof. induction l as [|h l IH]; cbn [filter]; [constructor|]. destruct (live t h) eqn:E; [constructor; exact IH | apply sub_drop; assumption]. Qed.
Lemma Sub_trans t a b c : Sub t a b -> Sub t b c -> Sub t a c.
Proof.
  intros H1 H2. revert a H1. induction H2 as [|h l1 l2 _ IH|h l1 l2 Hd _ IH]; intros a H1.
  - exact H1.
  - inversion H1; subst; [constructor; apply IH; assumption | apply sub_drop; [assumption | apply IH; assumption]].
  - apply sub_drop; [exact Hd | apply IH; exact H1].
Qed.
Lemma Sub_all_dead t l : filter (live t) l = [] -> Sub t [] l.
Proof.
  induction l as [|h l IH]; cbn [filter]; [constructor|]. destruct (live t h) eqn:E; [discriminate|]. intros H. apply sub_drop; [exact E | apply IH; exact H].
Qed.

(* ---------- holders after each operation ---------- *)
Lemma holders_set st c v c' : holders {| now := now st; tbl := set c v (tbl st) |} c' = if c =? c' then fst v else holders st c'.
Proof.
  unfold holders. cbn [tbl]. destruct (c =? c') eqn:E.
  - assert (c = c') by lia. subst. rewrite get_set_eq. destruct v; reflexivity.
  - rewrite get_set_neq by lia. reflexivity.
Qed.
Lemma holders_del st c c' : holders {| now := now st; tbl := del c (tbl st) |} c' = if c =? c' then [] else holders st c'.
Proof.
  unfold holders. cbn [tbl]. destruct (c =? c') eqn:E.
  - assert (c = c') by lia. subst. rewrite get_del_eq. reflexivity.
  - rewrite get_del_neq by lia. reflexivity.
Qed.

Definition added (hs : list holder) (p e : Z) : list holder := filter (fun h => negb (fst h =? p)) hs ++ [(p, e)].

Lemma holders_add st c p ttl c' : zlen (added (holders st c) p (now st + ttl)) <= max_providers ->
  holders (add st c p ttl) c' = if c =? c' then added (holders st c) p (now st + ttl) else holders st c'.
Proof.
  intros Hc. unfold add.
  assert (Eg : match get c (tbl st) with Some v => v | None => ([], 0) end
               = (holders st c, match get c (tbl st) with Some (_, l) => l | None => 0 end)).
  { unfold holders. destruct (get c (tbl st)) as [[hs l]|]; reflexivity. }
  rewrite Eg. cbv beta iota zeta. fold (added (holders st c) p (now st + ttl)).
  destruct (max_providers <? _) eqn:E; [unfold holder in *; lia|].
  rewrite holders_set. cbn [fst]. reflexivity.
Qed.

Lemma holders_withdraw st c p c' :
  holders (withdraw st c p) c' = if c =? c' then filter (fun h => negb (fst h =? p)) (holders st c) else holders st c'.
Proof.
  unfold withdraw. unfold holders at 2. destruct (get c (tbl st)) as [[hs lexp]|] eqn:G.
  - destruct (filter (fun h => negb (fst h =? p)) hs) as [|x r] eqn:F.
    + rewrite holders_del. destruct (c =? c'); reflexivity.
    + rewrite holders_set. cbn [fst]. destruct (c =? c'); reflexivity.
  - destruct (c =? c') eqn:E; [|reflexivity]. assert (c = c') by lia. subst. unfold holders. rewrite G. reflexivity.
Qed.

Lemma holders_find st c c' :
  holders (snd (find st c)) c' = if c =? c' then filter (live (now st)) (holders st c) else holders st c'.
Proof.
  unfold find. unfold holders at 2. destruct (get c (tbl st)) as [[hs lexp]|] eqn:G.
  - destruct (filter (live (now st)) hs) as [|x r] eqn:F; cbn [snd].
    + rewrite holders_del. destruct (c =? c'); reflexivity.
    + rewrite holders_set. cbn [fst]. destruct (c =? c'); reflexivity.
  - cbn [snd]. destruct (c =? c') eqn:E; [|reflexivity]. assert (c = c') by lia. subst. unfold holders. rewrite G. reflexivity.
Qed.

(* a sweep of a consistent table leaves, per chunk, the live holders *)
Lemma holders_sweep st c : Inv2 st -> Sub (now st) (holders (sweep st) c) (holders st c) /\
  filter (live (now st)) (holders (sweep st) c) = filter (live (now st)) (holders st c).
Proof.
  intros [HI Hu]. unfold holders. cbn [sweep tbl].
  destruct (get c (sweep_tbl (now st) (tbl st))) as [[hs' l']|] eqn:G.
  - destruct (get_sweep _ _ _ _ G) as (hs & lexp & Hin & E & _). injection E as -> ->.
    rewrite (in_get _ _ _ Hu Hin). split; [apply Sub_purge | apply filter_idem].
  - pose proof (get_sweep_none _ _ _ Hu G) as H. destruct (get c (tbl st)) as [[hs lexp]|] eqn:G0; [|split; [constructor | reflexivity]].
    assert (D : filter (live (now st)) hs = []).
    { destruct H as [H|H]; [exact H|]. destruct (HI c _ G0) as (A & _). cbn [fst snd] in A. apply (all_expired _ lexp); assumption. }
    split; [apply Sub_all_dead; exact D | rewrite D; reflexivity].
Qed.

Lemma now_add st c p ttl : now (add st c p ttl) = now st.
Proof. unfold add. destruct (match get c (tbl st) with Some v => v | None => ([], 0) end) as [hs lexp]. reflexivity. Qed.

(* ---------- the simulation ---------- *)
Definition Rel (st sp : state) : Prop := now st = now sp /\ forall c, Sub (now st) (holders st c) (holders sp c).

Lemma step_rel st sp o : Inv2 st -> Rel st sp ->
  match o with Add c p _ => zlen (filter (fun h => negb (fst h =? p)) (holders sp c)) + 1 <= max_providers | _ => True end ->
  Rel (fst (step st o)) (ref_step sp o).
Proof.
  intros HI [Hn Hs] Hc. destruct o as [c p ttl|c p|c| |dt]; cbn [step ref_step fst].
  - (* Add *)
    assert (Ls : zlen (added (holders sp c) p (now sp + ttl)) <= max_providers).
    { unfold added, zlen, holder in *. rewrite app_length. cbn [length]. lia. }
    assert (Lc : zlen (added (holders st c) p (now st + ttl)) <= max_providers).
    { pose proof (Sub_length _ _ _ (Sub_app _ _ _ [(p, now st + ttl)] (Sub_filter _ (fun h => negb (fst h =? p)) _ _ (Hs c)))) as L.
      unfold added, zlen, holder in *. rewrite !app_length in *. cbn [length] in *. lia. }
    split; [rewrite !now_add; exact Hn|]. intros c'. rewrite (holders_add st c p ttl c' Lc), (holders_add sp c p ttl c' Ls).
    rewrite now_add.
    destruct (c =? c'); [|apply Hs]. unfold added. rewrite Hn. apply Sub_app. apply Sub_filter. rewrite <- Hn. apply Hs.
  - (* Withdraw *)
    split; [unfold withdraw; destruct (get c (tbl st)) as [[? ?]|]; [destruct (filter _ _)|]; destruct (get c (tbl sp)) as [[? ?]|]; try destruct (filter _ _); exact Hn|].
    intros c'. rewrite !holders_withdraw.
    assert (Nn : now (withdraw st c p) = now st) by (unfold withdraw; destruct (get c (tbl st)) as [[? ?]|]; [destruct (filter _ _)|]; reflexivity).
    rewrite Nn. destruct (c =? c'); [apply Sub_filter|]; apply Hs.
  - (* Find *)
    assert (E : fst (let '(hs, st') := find st c in (st', zlen hs :: flat_map (fun h => [fst h; snd h])
                 (fold_right (fun h acc => (fix ins (l : list holder) := match l with [] => [h] | x :: r => if fst h <? fst x then h :: l else x :: ins r end) acc) [] hs)))
              = snd (find st c)) by (destruct (find st c); reflexivity).
    rewrite E.
    assert (Nn : now (snd (find st c)) = now st) by (unfold find; destruct (get c (tbl st)) as [[? ?]|]; [destruct (filter _ _)|]; reflexivity).
    split; [rewrite Nn; exact Hn|]. intros c'. rewrite Nn, holders_find. destruct (c =? c') eqn:Ec; [|apply Hs].
    assert (c = c') by lia. subst c'. eapply Sub_trans; [apply Sub_purge | apply Hs].
  - (* Sweep *)
    split; [exact Hn|]. intros c. cbn [sweep now]. eapply Sub_trans; [apply (holders_sweep st c HI) | apply Hs].
  - (* Advance *)
    split; [cbn [advance now]; lia|]. intros c. cbn [advance now]. unfold holders. cbn [tbl]. fold (holders st c). fold (holders sp c).
    apply Sub_later with (t := now st); [lia | apply Hs].
Qed.

Lemma exec_rel ops : forall st sp, Inv2 st -> Rel st sp -> below_cap sp ops ->
  Rel (exec st ops) (fold_left ref_step ops sp).
Proof.
  unfold exec. induction ops as [|o r IH]; intros st sp HI HR Hb; cbn [fold_left]; [exact HR|].
  cbn [below_cap] in Hb. destruct Hb as [Hc Hb]. apply IH; [apply step_inv2; exact HI | apply step_rel; assumption | exact Hb].
Qed.

Lemma init_rel : Rel init init.
Proof. split; [reflexivity | intros c; apply Sub_refl]. Qed.
Lemma init_inv2 : Inv2 init.
Proof. exact (reachable_inv []). Qed.

(* THE THEOREM: after ANY history that stays below the cap, every lookup answers exactly what the never-purging reference
   answers -- the holders last announced, not withdrawn since, whose own expiry lies in the future -- in the same order *)
Theorem history_refinement ops c : below_cap init ops ->
  fst (find (exec init ops) c) = ref_find (ref_exec ops) c /\ now (exec init ops) = now (ref_exec ops).
Proof.
  intros Hb. destruct (exec_rel ops init init init_inv2 init_rel Hb) as [Hn Hs]. split; [|exact Hn].
  assert (F : fst (find (exec init ops) c) = filter (live (now (exec init ops))) (holders (exec init ops) c)).
  { rewrite find_exact. unfold holders. destruct (get c (tbl (exec init ops))) as [[hs l]|]; reflexivity. }
  rewrite F. unfold ref_find, ref_exec. rewrite <- Hn. apply Sub_live. apply Hs.
Qed.
