(* Proofs about model/TransportModel.v (C14). *)
Require Import ZArith List Bool Lia ZifyBool Arith.
Import ListNotations.
Local Open Scope Z_scope.
From EphVerif Require Import lib.Bytes spec.ChaCha20Spec model.ChaCha20Model proofs.ChaCha20Proofs
  gen.Constants_chacha gen.Constants_transport model.TransportModel.

(* ---------- apply_fast is ChaCha20Model.apply ---------- *)
Lemma firstn_min {A} n (l : list A) : firstn (Nat.min n (length l)) l = firstn n l.
Proof.
  destruct (Nat.le_ge_cases n (length l)) as [H|H].
  - rewrite Nat.min_l by exact H. reflexivity.
  - rewrite Nat.min_r by exact H. rewrite firstn_all. symmetry. apply firstn_all2. exact H.
Qed.
Lemma skipn_min {A} n (l : list A) : skipn (Nat.min n (length l)) l = skipn n l.
Proof.
  destruct (Nat.le_ge_cases n (length l)) as [H|H].
  - rewrite Nat.min_l by exact H. reflexivity.
  - rewrite Nat.min_r by exact H. rewrite skipn_all. symmetry. apply skipn_all2. exact H.
Qed.

Lemma apply_fast_loop_eq fuel : forall key nonce input c,
  apply_fast_loop fuel key nonce input c = apply_loop fuel key nonce input c.
Proof.
  induction fuel as [|f IH]; intros key nonce input c; cbn [apply_fast_loop apply_loop]; [reflexivity|].
  destruct input as [|x r]; [reflexivity|].
  change (Z.to_nat chacha_block_size) with 64%nat.
  rewrite firstn_min, skipn_min, IH. reflexivity.
Qed.
Theorem apply_fast_eq key nonce input c : apply_fast key nonce input c = apply key nonce input c.
Proof. unfold apply_fast, apply. apply apply_fast_loop_eq. Qed.

Lemma apply_fast_length key nonce input c : length (apply_fast key nonce input c) = length input.
Proof. rewrite apply_fast_eq. apply apply_length. Qed.
Lemma apply_fast_involution key nonce input c : apply_fast key nonce (apply_fast key nonce input c) c = input.
Proof. rewrite !apply_fast_eq. apply apply_involution. Qed.

(* ---------- frames ---------- *)
Lemma zlen_app {A} (a b : list A) : zlen (a ++ b) = zlen a + zlen b.
Proof. unfold zlen. rewrite app_length. lia. Qed.
Lemma zlen_nonneg {A} (l : list A) : 0 <= zlen l. Proof. unfold zlen. lia. Qed.

(* what send puts on the wire: the nonce, the length, the encryption under counter 0 -- and nothing above the limit *)
Theorem send_spec key nonce payload :
  send key nonce payload = if transport_max_payload <? zlen payload then None
                           else Some (nonce ++ be32 (zlen payload) ++ apply key nonce payload 0).
Proof. unfold send, frame. rewrite apply_fast_eq. reflexivity. Qed.
Theorem oversized_payload_not_sent key nonce payload : transport_max_payload < zlen payload -> send key nonce payload = None.
Proof. intros H. unfold send. destruct (transport_max_payload <? zlen payload) eqn:E; [reflexivity | lia]. Qed.

Lemma be_val_be32 v : 0 <= v < 4294967296 -> be_val (be32 v) = v.
Proof.
  intros H. unfold be32. cbn [be_val]. unfold zlen. cbn [length Z.of_nat].
  change (256 ^ Z.of_nat 3) with 16777216. change (256 ^ Z.of_nat 2) with 65536. change (256 ^ Z.of_nat 1) with 256.
  change (256 ^ Z.of_nat 0) with 1.
  Ltac Zify.zify_post_hook ::= Z.div_mod_to_equations.
  lia.
Qed.

(* one well-formed frame at the head of the stream is taken off and its payload delivered, byte for byte *)
Lemma receive_frame fuel key nonce payload rest delivered :
  length nonce = 12%nat -> zlen payload <= transport_max_payload ->
  receive (S fuel) key (frame key nonce payload ++ rest) delivered = receive fuel key rest (delivered ++ [payload]).
Proof.
  intros Hn Hl. unfold frame. cbn [receive].
  assert (Hmax : transport_max_payload = 1048576) by reflexivity.
  pose proof (zlen_nonneg payload) as Hp0.
  set (ct := apply_fast key nonce payload 0).
  assert (Hct : length ct = length payload) by apply apply_fast_length.
  assert (Hb : length (be32 (zlen payload)) = 4%nat) by reflexivity.
  remember ((nonce ++ be32 (zlen payload) ++ ct) ++ rest) as stream eqn:Es.
  assert (Hne : stream <> []).
  { subst stream. destruct nonce; [discriminate Hn | discriminate]. }
  destruct stream as [|s0 sr]; [contradiction|]. rewrite Es. clear Hne.
  assert (L1 : (zlen ((nonce ++ be32 (zlen payload) ++ ct) ++ rest) <? 12) = false).
  { rewrite !zlen_app. unfold zlen at 1. rewrite Hn. pose proof (zlen_nonneg (be32 (zlen payload))). pose proof (zlen_nonneg ct). pose proof (zlen_nonneg rest). lia. }
  rewrite L1.
  rewrite <- !app_assoc.
  assert (F1 : firstn 12 (nonce ++ be32 (zlen payload) ++ ct ++ rest) = nonce).
  { rewrite <- Hn. rewrite firstn_app, Nat.sub_diag, firstn_all. cbn [firstn]. apply app_nil_r. }
  assert (S1 : skipn 12 (nonce ++ be32 (zlen payload) ++ ct ++ rest) = be32 (zlen payload) ++ ct ++ rest).
  { rewrite <- Hn. rewrite skipn_app, Nat.sub_diag, skipn_all. reflexivity. }
  rewrite F1, S1.
  assert (L2 : (zlen (be32 (zlen payload) ++ ct ++ rest) <? 4) = false).
  { rewrite !zlen_app. unfold zlen at 1. rewrite Hb. pose proof (zlen_nonneg ct). pose proof (zlen_nonneg rest). lia. }
  rewrite L2.
  assert (F2 : firstn 4 (be32 (zlen payload) ++ ct ++ rest) = be32 (zlen payload)) by reflexivity.
  assert (S2 : skipn 4 (be32 (zlen payload) ++ ct ++ rest) = ct ++ rest) by reflexivity.
  rewrite F2, S2, be_val_be32 by lia.
  assert (L3 : (transport_max_payload <? zlen payload) = false) by lia. rewrite L3.
  assert (L4 : (zlen (ct ++ rest) <? zlen payload) = false).
  { rewrite zlen_app. unfold zlen at 1. rewrite Hct. fold (zlen payload). pose proof (zlen_nonneg rest). lia. }
  rewrite L4.
  assert (Hk : Z.to_nat (zlen payload) = length ct) by (unfold zlen; rewrite Hct; lia).
  rewrite Hk, firstn_app, Nat.sub_diag, firstn_all, skipn_app, Nat.sub_diag, skipn_all. cbn [firstn skipn app]. rewrite app_nil_r.
  unfold ct. rewrite apply_fast_involution. reflexivity.
Qed.

(* the stream of any number of frames: every payload is delivered exactly once, byte for byte, in send order, and the loop
   then waits between frames *)
Definition wf_msg (m : list Z * list Z) : Prop := length (fst m) = 12%nat /\ zlen (snd m) <= transport_max_payload.
Definition wire (key : list Z) (msgs : list (list Z * list Z)) : list Z := flat_map (fun m => frame key (fst m) (snd m)) msgs.

Theorem delivery_exact key msgs : Forall wf_msg msgs -> forall fuel delivered, (length msgs < fuel)%nat ->
  receive fuel key (wire key msgs) delivered = (delivered ++ map snd msgs, 0).
Proof.
  induction msgs as [|[nonce payload] r IH]; intros Hw fuel delivered Hf.
  - destruct fuel; [lia|]. cbn [wire flat_map receive map]. rewrite app_nil_r. reflexivity.
  - inversion Hw as [|? ? [Hn Hl] Hr]; subst. destruct fuel as [|f]; [cbn in Hf; lia|].
    unfold wire. cbn [flat_map fst snd]. fold (wire key r).
    rewrite receive_frame by assumption. rewrite IH; [|exact Hr | cbn [length] in Hf; lia].
    cbn [map snd]. rewrite <- app_assoc. reflexivity.
Qed.

(* an oversized length ends the session: nothing of it, and nothing after it, is delivered *)
Theorem oversized_frame_ends_session fuel key nonce len rest delivered :
  length nonce = 12%nat -> transport_max_payload < len < 4294967296 ->
  receive (S fuel) key (nonce ++ be32 len ++ rest) delivered = (delivered, 2).
Proof.
  intros Hn Hl. cbn [receive]. assert (Hmax : transport_max_payload = 1048576) by reflexivity.
  remember (nonce ++ be32 len ++ rest) as stream eqn:Es.
  destruct stream as [|s0 sr]; [destruct nonce; discriminate|]. rewrite Es.
  assert (Hb : length (be32 len) = 4%nat) by reflexivity.
  assert (L1 : (zlen (nonce ++ be32 len ++ rest) <? 12) = false).
  { rewrite !zlen_app. unfold zlen at 1. rewrite Hn. pose proof (zlen_nonneg (be32 len)). pose proof (zlen_nonneg rest). lia. }
  rewrite L1.
  assert (F1 : firstn 12 (nonce ++ be32 len ++ rest) = nonce).
  { rewrite <- Hn. rewrite firstn_app, Nat.sub_diag, firstn_all. cbn [firstn]. apply app_nil_r. }
  assert (S1 : skipn 12 (nonce ++ be32 len ++ rest) = be32 len ++ rest).
  { rewrite <- Hn. rewrite skipn_app, Nat.sub_diag, skipn_all. reflexivity. }
  rewrite S1.
  assert (L2 : (zlen (be32 len ++ rest) <? 4) = false).
  { rewrite zlen_app. unfold zlen at 1. rewrite Hb. pose proof (zlen_nonneg rest). lia. }
  rewrite L2.
  assert (F2 : firstn 4 (be32 len ++ rest) = be32 len) by reflexivity.
  rewrite F2, be_val_be32 by lia.
  assert (L3 : (transport_max_payload <? len) = true) by lia. rewrite L3. reflexivity.
Qed.
