(* Proofs about model/ConfigLayerModel.v (C32). *)
Require Import ZArith List Bool Lia ZifyBool.
Import ListNotations.
Local Open Scope Z_scope.
From EphVerif Require Import lib.Bytes model.ConfigLayerModel.

(* ---------- objects as maps ---------- *)
Lemma oget_odel_same k o : oget k (odel k o) = None.
Proof.
  induction o as [|[k' v] r IH]; cbn [odel filter oget fst]; [reflexivity|].
  destruct (k' =? k) eqn:E; cbn [negb]; [exact IH|]. cbn [oget]. rewrite E. exact IH.
Qed.
Lemma oget_odel_other k k' o : k <> k' -> oget k' (odel k o) = oget k' o.
Proof.
  intros H. induction o as [|[k2 v] r IH]; cbn [odel filter oget fst]; [reflexivity|].
  destruct (k2 =? k) eqn:E; cbn [negb].
  - destruct (k2 =? k') eqn:E2; [lia | exact IH].
  - cbn [oget]. destruct (k2 =? k'); [reflexivity | exact IH].
Qed.
Lemma oget_oset_same k v o : oget k (oset k v o) = Some v.
Proof. unfold oset. cbn [oget]. rewrite Z.eqb_refl. reflexivity. Qed.
Lemma oget_oset_other k k' v o : k <> k' -> oget k' (oset k v o) = oget k' o.
Proof. intros H. unfold oset. cbn [oget]. destruct (k =? k') eqn:E; [lia|]. apply oget_odel_other. exact H. Qed.

Definition okeys (o : list (Z * value)) : list Z := map fst o.
Lemma oget_none_notin k o : oget k o = None <-> ~ In k (okeys o).
Proof.
  induction o as [|[k' v] r IH]; cbn [oget okeys map In fst]; [tauto|]. destruct (k' =? k) eqn:E.
  - split; [discriminate | intros H; exfalso; apply H; left; lia].
  - rewrite IH. unfold okeys. split; [intros H [H1|H1]; [lia | contradiction] | tauto].
Qed.

(* what merge_fields leaves under a key: the overlay's entry (merged into the accumulator's when both are objects), or
   the accumulator's own entry when the overlay does not mention the key *)
Definition merged_entry (mrg : value -> value -> value) (v : value) (old : option value) : value :=
  match v, old with VObj _, Some (VObj bf) => mrg (VObj bf) v | _, _ => v end.

Lemma merge_fields_spec mrg l : NoDup (okeys l) -> forall acc k,
  oget k (merge_fields mrg l acc) =
  match oget k l with Some v => Some (merged_entry mrg v (oget k acc)) | None => oget k acc end.
Proof.
  induction l as [|[k0 v0] r IH]; intros Hd acc k; cbn [merge_fields oget]; [reflexivity|].
  cbn [okeys map fst] in Hd. inversion Hd as [|? ? Hn Hd']; subst.
  rewrite IH by exact Hd'. destruct (k0 =? k) eqn:E.
  - assert (k0 = k) by lia. subst k0.
    assert (G : oget k r = None) by (apply oget_none_notin; exact Hn). rewrite G, oget_oset_same. reflexivity.
  - destruct (oget k r) as [v|] eqn:G.
    + rewrite oget_oset_other by lia. reflexivity.
    + apply oget_oset_other. lia.
Qed.

(* ---------- precedence along one key path ---------- *)
Definition leaf (v : value) : Prop := is_obj v = false.

(* the objects met along the path have one entry per key (a std::map always has) *)
Fixpoint nodup_along (v : value) (p : list Z) : Prop :=
  match v with
  | VObj f => NoDup (okeys f) /\ match p with
                                | [] => True
                                | k :: r => match oget k f with Some w => nodup_along w r | None => True end
                                end
  | _ => True
  end.

(* the overlay says nothing about the path: at some level its object simply lacks the key *)
Fixpoint silent (v : value) (p : list Z) : Prop :=
  match p with
  | [] => False
  | k :: r => match v with
              | VObj f => match oget k f with None => True | Some w => silent w r end
              | _ => False
              end
  end.

(* the overlay wins wherever it holds a plain value ... *)
Theorem overlay_wins p : forall base overlay v, leaf v -> nodup_along overlay p ->
  find_path overlay p = Some v -> find_path (merge base overlay) p = Some v.
Proof.
  induction p as [|k r IH]; intros base overlay v Hl Hn Hf.
  - cbn [find_path] in *. inversion Hf; subst. destruct v; try reflexivity. unfold leaf in Hl. discriminate.
  - destruct overlay as [| | | |f]; cbn [find_path] in Hf; try discriminate.
    destruct (oget k f) as [w|] eqn:G; [|discriminate].
    cbn [nodup_along] in Hn. destruct Hn as [Hd Hw]. rewrite G in Hw.
    cbn [merge find_path]. rewrite merge_fields_spec by exact Hd. rewrite G. unfold merged_entry.
    destruct w as [| | | |wf].
    + exact Hf.
    + exact Hf.
    + exact Hf.
    + exact Hf.
    + destruct (oget k (fields_of base)) as [[| | | |bf]|]; try exact Hf.
      apply IH; assumption.
Qed.

Lemma silent_none p : forall w, silent w p -> find_path w p = None.
Proof.
  induction p as [|a q IH]; intros w H; [contradiction|].
  destruct w as [| | | |g]; cbn [silent] in H; try contradiction. cbn [find_path].
  destruct (oget a g) as [x|]; [apply IH; exact H | reflexivity].
Qed.
Lemma leaf_path_none v p : leaf v -> p <> [] -> find_path v p = None.
Proof. intros Hl Hp. destruct p as [|k r]; [contradiction|]. destruct v; try reflexivity. unfold leaf in Hl. discriminate. Qed.

(* ... and where the overlay is silent the base shows through unchanged *)
Theorem base_shows_through p : forall base overlay, nodup_along overlay p -> silent overlay p ->
  find_path (merge base overlay) p = find_path base p.
Proof.
  induction p as [|k r IH]; intros base overlay Hn Hs; [contradiction|].
  destruct overlay as [| | | |f]; cbn [silent] in Hs; try contradiction.
  cbn [nodup_along] in Hn. destruct Hn as [Hd Hw].
  remember (find_path base (k :: r)) as rhs eqn:Er.
  cbn [merge find_path]. rewrite merge_fields_spec by exact Hd. subst rhs.
  destruct (oget k f) as [w|] eqn:G.
  - (* the overlay has an object under k that is silent about the rest of the path *)
    assert (Hr : r <> []) by (intros ->; destruct w; contradiction).
    assert (Hwo : exists wf, w = VObj wf) by (destruct w as [| | | |wf]; try (destruct r; contradiction); eexists; reflexivity).
    destruct Hwo as [wf ->]. unfold merged_entry.
    assert (Eb : find_path base (k :: r) = match oget k (fields_of base) with Some v => find_path v r | None => None end).
    { destruct base; cbn [find_path fields_of oget]; reflexivity. }
    rewrite Eb.
    destruct (oget k (fields_of base)) as [[| | | |bf]|] eqn:B.
    + rewrite (silent_none _ _ Hs). symmetry. apply leaf_path_none; [reflexivity | exact Hr].
    + rewrite (silent_none _ _ Hs). symmetry. apply leaf_path_none; [reflexivity | exact Hr].
    + rewrite (silent_none _ _ Hs). symmetry. apply leaf_path_none; [reflexivity | exact Hr].
    + rewrite (silent_none _ _ Hs). symmetry. apply leaf_path_none; [reflexivity | exact Hr].
    + apply IH; assumption.
    + apply silent_none. exact Hs.
  - destruct base; reflexivity.
Qed.

(* ---------- the command line wins ---------- *)
Lemma bind_ok {A B} (r : res A) (f : A -> res B) b : bind r f = Ok b -> exists a, r = Ok a /\ f a = Ok b.
Proof. destruct r as [a|e]; cbn [bind]; [intros H; exists a; auto | discriminate]. Qed.

Lemma fill_int_keeps cur profile paths ok v r : cur = Some v -> fill_int cur profile paths ok = Ok r -> r = Some v.
Proof. intros -> H. cbn [fill_int] in H. inversion H. reflexivity. Qed.

Theorem flags_win profile o r : apply_profile profile o = Ok r ->
  (forall v, o_control_port o = Some v -> o_control_port r = Some v) /\
  (forall v, o_transport_port o = Some v -> o_transport_port r = Some v) /\
  (forall v, o_token o = Some v -> o_token r = Some v) /\
  (forall v, o_default_ttl o = Some v -> o_default_ttl r = Some v) /\
  (forall v, o_min_ttl o = Some v -> o_min_ttl r = Some v) /\
  (forall v, o_max_ttl o = Some v -> o_max_ttl r = Some v) /\
  (forall v, o_pow o = Some v -> o_pow r = Some v) /\
  (forall v, o_persistent o = Some v -> o_persistent r = Some v) /\
  (forall v, o_wipe_passes o = Some v -> o_wipe_passes r = Some v) /\
  (forall v, o_rotation o = Some v -> o_rotation r = Some v) /\
  (forall v, o_fetch_parallel o = Some v -> o_fetch_parallel r = Some v).
Proof.
  unfold apply_profile. destruct (negb (is_obj profile)); [discriminate|]. intros H.
  apply bind_ok in H. destruct H as [persistent [H1 H]].
  apply bind_ok in H. destruct H as [wipe_passes [H2 H]].
  apply bind_ok in H. destruct H as [control_port [H3 H]].
  apply bind_ok in H. destruct H as [transport_port [H4 H]].
  apply bind_ok in H. destruct H as [token [H5 H]].
  apply bind_ok in H. destruct H as [default_ttl [H6 H]].
  apply bind_ok in H. destruct H as [min_ttl [H7 H]].
  apply bind_ok in H. destruct H as [max_ttl [H8 H]].
  apply bind_ok in H. destruct H as [rotation [H9 H]].
  apply bind_ok in H. destruct H as [fetch_parallel [H11 H]].
  apply bind_ok in H. destruct H as [pow [H10 H]].
  inversion H; subst r. cbn.
  repeat split; intros v Hv.
  - eapply fill_int_keeps; eassumption.
  - eapply fill_int_keeps; eassumption.
  - rewrite Hv in H5. inversion H5. reflexivity.
  - eapply fill_int_keeps; eassumption.
  - eapply fill_int_keeps; eassumption.
  - eapply fill_int_keeps; eassumption.
  - eapply fill_int_keeps; eassumption.
  - rewrite Hv in H1. inversion H1. reflexivity.
  - eapply fill_int_keeps; eassumption.
  - eapply fill_int_keeps; eassumption.
  - eapply fill_int_keeps; eassumption.
Qed.

(* ---------- profile resolution ---------- *)
(* a profile that is being visited again, or that does not exist, is an error -- never a loop, never ignored *)
Theorem cycle_is_an_error f profiles name names visiting tok pf body :
  profiles = VObj pf -> find (fun e => list_eqb (fst e) name) names = Some (name, tok) ->
  oget tok pf = Some (VObj body) -> existsb (Z.eqb tok) visiting = true ->
  resolve (S f) profiles name names visiting = Err 2.
Proof. intros -> Hn Hg Hv. cbn [resolve]. rewrite Hn, Hg, Hv. reflexivity. Qed.
Theorem missing_profile_is_an_error f pf name names visiting :
  find (fun e => list_eqb (fst e) name) names = None -> resolve (S f) (VObj pf) name names visiting = Err 2.
Proof. intros Hn. cbn [resolve]. rewrite Hn. reflexivity. Qed.

(* a profile on top of its parent: its own plain values win, the parent's show through where it is silent *)
Theorem child_over_parent f pf name names visiting tok body parent pbase :
  find (fun e => list_eqb (fst e) name) names = Some (name, tok) -> oget tok pf = Some (VObj body) ->
  existsb (Z.eqb tok) visiting = false -> oget k_extends body = Some (VStr parent) ->
  resolve f (VObj pf) parent names (tok :: visiting) = Ok pbase ->
  exists r, resolve (S f) (VObj pf) name names visiting = Ok r /\
    r = merge pbase (VObj (odel k_extends body)).
Proof.
  intros Hn Hg Hv He Hp. cbn [resolve]. rewrite Hn, Hg, Hv, He, Hp. eexists. split; reflexivity.
Qed.

(* ---------- resolution never runs out of fuel: the fuel load gives it (number of profiles + 1) is always enough, so an
   Err 2 is a real "cyclic / missing profile" answer and not an artefact of the fuel ---------- *)
Definition unvisited (pf : list (Z * value)) (visiting : list Z) : nat :=
  length (filter (fun k => negb (existsb (Z.eqb k) visiting)) (okeys pf)).

Lemma filter_shrinks (P Q : Z -> bool) l x : (forall y, Q y = true -> P y = true) -> In x l -> P x = true -> Q x = false ->
  (length (filter Q l) < length (filter P l))%nat.
Proof.
  intros Hsub. induction l as [|a r IH]; intros Hin Hp Hq; [contradiction|].
  assert (Hle : forall m, (length (filter Q m) <= length (filter P m))%nat).
  { induction m as [|b m IHm]; cbn [filter]; [lia|]. destruct (Q b) eqn:E.
    - rewrite (Hsub _ E). cbn [length]. lia.
    - destruct (P b); cbn [length]; lia. }
  cbn [filter]. destruct Hin as [->|Hin].
  - rewrite Hp, Hq. cbn [length]. specialize (Hle r). lia.
  - specialize (IH Hin Hp Hq). destruct (Q a) eqn:E.
    + rewrite (Hsub _ E). cbn [length]. lia.
    + destruct (P a); cbn [length]; lia.
Qed.

Lemma oget_some_in k o v : oget k o = Some v -> In k (okeys o).
Proof.
  induction o as [|[k' w] r IH]; cbn [oget okeys map In fst]; [discriminate|]. destruct (k' =? k) eqn:E.
  - intros _. left. lia.
  - intros H. right. apply IH. exact H.
Qed.

Lemma visit_shrinks pf visiting tok v : oget tok pf = Some v -> existsb (Z.eqb tok) visiting = false ->
  (unvisited pf (tok :: visiting) < unvisited pf visiting)%nat.
Proof.
  intros Hg Hv. unfold unvisited. apply filter_shrinks with (x := tok).
  - intros y. cbn [existsb]. destruct (y =? tok); cbn [orb negb]; [discriminate | auto].
  - eapply oget_some_in; exact Hg.
  - rewrite Hv. reflexivity.
  - cbn [existsb]. rewrite Z.eqb_refl. reflexivity.
Qed.

Theorem resolve_fuel_enough pf names : forall f1 f2 name visiting,
  (unvisited pf visiting < f1)%nat -> (unvisited pf visiting < f2)%nat ->
  resolve f1 (VObj pf) name names visiting = resolve f2 (VObj pf) name names visiting.
Proof.
  induction f1 as [|f1 IH]; intros f2 name visiting H1 H2; [lia|].
  destruct f2 as [|f2]; [lia|]. cbn [resolve].
  destruct (find (fun e => list_eqb (fst e) name) names) as [[nm tok]|]; [|reflexivity].
  destruct (oget tok pf) as [[| | | |body]|] eqn:G; try reflexivity.
  destruct (existsb (Z.eqb tok) visiting) eqn:V; [reflexivity|].
  destruct (oget k_extends body) as [[| |parent| |]|]; try reflexivity.
  pose proof (visit_shrinks _ _ _ _ G V) as Hs.
  rewrite (IH f2 parent (tok :: visiting)) by lia. reflexivity.
Qed.

Lemma unvisited_le pf visiting : (unvisited pf visiting <= length pf)%nat.
Proof.
  unfold unvisited, okeys. rewrite <- (map_length fst pf). generalize (map fst pf). intros l.
  induction l as [|a r IH]; cbn [filter length]; [lia|]. destruct (negb _); cbn [length]; lia.
Qed.

(* in particular: the answer load computes (fuel = profiles + 1) is the answer for every larger fuel *)
Theorem load_fuel_is_enough pf names name extra :
  resolve (S (length pf)) (VObj pf) name names [] = resolve (S (length pf) + extra) (VObj pf) name names [].
Proof. apply resolve_fuel_enough; pose proof (unvisited_le pf []); lia. Qed.

(* a chain that comes back to a profile it is visiting is an error whatever the fuel *)
Theorem revisit_is_an_error f pf name names visiting nm tok body :
  find (fun e => list_eqb (fst e) name) names = Some (nm, tok) -> oget tok pf = Some (VObj body) ->
  existsb (Z.eqb tok) visiting = true -> resolve f (VObj pf) name names visiting = Err 2.
Proof. intros Hn Hg Hv. destruct f; cbn [resolve]; [reflexivity|]. rewrite Hn, Hg, Hv. reflexivity. Qed.

(* ---------- whole settings (a list of spellings looked up in order) ---------- *)
Definition int_step (root : value) (acc : res (option Z)) (p : list Z) : res (option Z) :=
  match acc with
  | Ok None => match find_path root p with None => Ok None | Some (VInt v) => Ok (Some v) | Some _ => Err 5 end
  | other => other
  end.
Lemma get_int_any_fold root paths : get_int_any root paths = fold_left (int_step root) paths (Ok None).
Proof. reflexivity. Qed.
Lemma int_fold_done root paths r : r <> Ok None -> fold_left (int_step root) paths r = r.
Proof. intros H. induction paths as [|p ps IH]; cbn [fold_left]; [reflexivity|]. destruct r as [[v|]|e]; try (exact IH). contradiction. Qed.
Lemma int_fold_ext root root' paths acc : (forall q, In q paths -> find_path root q = find_path root' q) ->
  fold_left (int_step root) paths acc = fold_left (int_step root') paths acc.
Proof.
  revert acc. induction paths as [|p ps IH]; intros acc H; cbn [fold_left]; [reflexivity|].
  assert (E : int_step root acc p = int_step root' acc p) by (unfold int_step; rewrite (H p (or_introl eq_refl)); reflexivity).
  rewrite E. apply IH. intros q Hq. apply H. right. exact Hq.
Qed.

(* a layer that does not mention any spelling of a setting leaves the setting as the layers below give it *)
Theorem setting_base_shows_through base overlay paths :
  (forall q, In q paths -> nodup_along overlay q /\ silent overlay q) ->
  get_int_any (merge base overlay) paths = get_int_any base paths.
Proof.
  intros H. rewrite !get_int_any_fold. apply int_fold_ext. intros q Hq. destruct (H q Hq) as [Hn Hs].
  apply base_shows_through; assumption.
Qed.

(* a layer that sets a setting wins over everything below it -- PROVIDED no layer below uses an earlier spelling (`pre`):
   that proviso is exactly what the unchanged code needs and the property does not grant (setting_precedence_refuted) *)
Theorem setting_overlay_wins base overlay pre p post v : nodup_along overlay p ->
  (forall q, In q pre -> nodup_along overlay q /\ silent overlay q /\ find_path base q = None) ->
  find_path overlay p = Some (VInt v) ->
  get_int_any (merge base overlay) (pre ++ p :: post) = Ok (Some v).
Proof.
  intros Hn Hpre Hf. rewrite get_int_any_fold, fold_left_app.
  assert (E : fold_left (int_step (merge base overlay)) pre (Ok None) = Ok None).
  { clear Hf Hn. induction pre as [|q qs IH]; cbn [fold_left]; [reflexivity|].
    destruct (Hpre q (or_introl eq_refl)) as [Hn [Hs Hb]].
    unfold int_step at 2. rewrite (base_shows_through _ _ _ Hn Hs), Hb. apply IH. intros q' Hq'. apply Hpre. right. exact Hq'. }
  rewrite E. cbn [fold_left]. unfold int_step at 2. rewrite (overlay_wins p base overlay (VInt v) eq_refl Hn Hf).
  apply int_fold_done. discriminate.
Qed.

(* ---------- the property's statement for one setting and two layers, and its refutation ---------- *)
(* what one layer says about a setting: its first spelling present *)
Definition layer_int (layer : value) (paths : list (list Z)) : res (option Z) := get_int_any layer paths.
(* the documented precedence: the highest layer that sets it *)
Definition precedence_int (overlay base : value) (paths : list (list Z)) : res (option Z) :=
  match layer_int overlay paths with Ok None => layer_int base paths | r => r end.

Definition setting_precedence_statement : Prop :=
  forall base overlay paths, get_int_any (merge base overlay) paths = precedence_int overlay base paths.

Definition w_base := VObj [(k_storage, VObj [(k_wipe_passes, VInt 155)])].
Definition w_child := VObj [(k_storage, VObj [(k_wipe_passes_dash, VInt 255)])].
Theorem setting_precedence_refuted : ~ setting_precedence_statement.
Proof. intros H. specialize (H w_base w_child p_wipe_passes). vm_compute in H. discriminate. Qed.

(* the same through the whole loader: profile `default` (wipe-passes: 255) extends `base` (wipe_passes: 155), no flags,
   no environment: the effective value is the ANCESTOR's *)
Definition n_default := [100; 101; 102; 97; 117; 108; 116].
Definition n_base := [98; 97; 115; 101].
Definition w_doc := VObj [(k_profiles, VObj [(100, VObj [(k_extends, VStr n_base); (k_storage, VObj [(k_wipe_passes_dash, VInt 255)])]);
                                              (101, w_base)])].
Definition no_flags := mkOptions None None None None None None None None None None None.
Theorem loader_witness : exists r, load w_doc [(n_default, 100); (n_base, 101)] None None [] no_flags = Ok r /\ o_wipe_passes r = Some 155.
Proof. eexists. split; vm_compute; reflexivity. Qed.
(* with one spelling in both layers the descendant wins *)
Theorem loader_same_spelling : exists r,
  load (VObj [(k_profiles, VObj [(100, VObj [(k_extends, VStr n_base); (k_storage, VObj [(k_wipe_passes, VInt 255)])]); (101, w_base)])])
       [(n_default, 100); (n_base, 101)] None None [] no_flags = Ok r /\ o_wipe_passes r = Some 255.
Proof. eexists. split; vm_compute; reflexivity. Qed.
