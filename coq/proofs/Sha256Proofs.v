(* C08: the streaming SHA-256 object of model/Sha256Model.v computes the FIPS 180-4 hash of
   spec/Sha256Spec.v for every message and every split into update calls; the HMAC model is
   RFC 2104 HMAC over that hash. *)
Require Import ZArith List Bool Lia ZifyBool Arith.
Import ListNotations.
Local Open Scope Z_scope.
From EphVerif Require Import lib.Bytes spec.Sha256Spec model.Sha256Model gen.Constants_sha256.
Ltac Zify.zify_post_hook ::= Z.div_mod_to_equations.

Lemma K_matches_fips : sha256_K = Sha256Spec.K.
Proof. reflexivity. Qed.

Lemma H0_matches_fips : sha256_H0 = Sha256Spec.H0.
Proof. reflexivity. Qed.

Lemma transform_is_compress h b : transform h b = compress h b.
Proof. unfold transform, compress. rewrite K_matches_fips. reflexivity. Qed.

Definition len64 (b : list Z) : Prop := length b = 64%nat.

(* ---- the update loop splits buf ++ data into full blocks and a remainder ---- *)
Lemma update_loop_step f h buf data : data <> [] ->
  update_loop (S f) h buf data =
    let chunk := Nat.min (64 - length buf) (length data) in
    if Nat.eqb (length (buf ++ firstn chunk data)) 64
    then update_loop f (transform h (buf ++ firstn chunk data)) [] (skipn chunk data)
    else update_loop f h (buf ++ firstn chunk data) (skipn chunk data).
Proof. destruct data; [congruence | reflexivity]. Qed.

Lemma update_loop_nil f h buf : update_loop f h buf [] = (h, buf).
Proof. destruct f; reflexivity. Qed.

Lemma update_loop_spec fuel : forall h buf data,
  (length buf < 64)%nat -> (length data <= fuel)%nat ->
  exists bs,
    Forall len64 bs /\
    buf ++ data = concat bs ++ snd (update_loop fuel h buf data) /\
    (length (snd (update_loop fuel h buf data)) < 64)%nat /\
    fst (update_loop fuel h buf data) = fold_left transform bs h.
Proof.
  induction fuel as [|f IH]; intros h buf data Hb Hf.
  - destruct data; [|simpl in Hf; lia]. exists []. simpl. rewrite app_nil_r. repeat split; auto.
  - destruct (list_eq_dec Z.eq_dec data []) as [->|Hne].
    + rewrite update_loop_nil. exists []. simpl. rewrite app_nil_r. repeat split; auto.
    + rewrite (update_loop_step f h buf data Hne). cbv zeta.
      assert (Hdl : (1 <= length data)%nat) by (destruct data; [congruence | simpl; lia]).
      set (chunk := Nat.min (64 - length buf) (length data)).
      assert (Hc1 : (1 <= chunk)%nat) by (unfold chunk; lia).
      assert (Hc2 : (chunk <= length data)%nat) by (unfold chunk; lia).
      assert (Hlen : length (buf ++ firstn chunk data) = (length buf + chunk)%nat).
      { rewrite app_length, firstn_length. lia. }
      assert (Hsplit : buf ++ data = (buf ++ firstn chunk data) ++ skipn chunk data).
      { rewrite <- app_assoc, firstn_skipn. reflexivity. }
      destruct (Nat.eqb (length (buf ++ firstn chunk data)) 64) eqn:E64.
      * apply Nat.eqb_eq in E64.
        destruct (IH (transform h (buf ++ firstn chunk data)) [] (skipn chunk data)) as (bs & Hall & Hcat & Hlt & Hfold).
        { simpl. lia. } { rewrite skipn_length. lia. }
        exists ((buf ++ firstn chunk data) :: bs). repeat split.
        -- constructor; [exact E64 | exact Hall].
        -- rewrite Hsplit. cbn [concat]. rewrite <- (app_assoc (buf ++ firstn chunk data) (concat bs)). f_equal. exact Hcat.
        -- exact Hlt.
        -- cbn [fold_left]. exact Hfold.
      * apply Nat.eqb_neq in E64.
        assert (Hall : chunk = length data) by (unfold chunk in *; lia).
        assert (Hnil : skipn chunk data = []) by (rewrite Hall; apply skipn_all).
        rewrite Hnil, update_loop_nil. cbn [fst snd]. exists []. repeat split.
        -- constructor.
        -- simpl. rewrite Hsplit, Hnil, app_nil_r. reflexivity.
        -- unfold chunk in *. lia.
Qed.

(* ---- the invariant of the streaming object ---- *)
Definition Inv (s : sha) (msg : list Z) : Prop :=
  exists bs, Forall len64 bs /\ msg = concat bs ++ buf s /\ (length (buf s) < 64)%nat /\
             st s = fold_left transform bs sha256_H0 /\
             bitlen s = (8 * zlen msg) mod 18446744073709551616.

Lemma Inv_init : Inv sha_init [].
Proof. exists []. repeat split; simpl; auto. lia. Qed.

Lemma fold_left_app_transform bs1 bs2 h :
  fold_left transform (bs1 ++ bs2) h = fold_left transform bs2 (fold_left transform bs1 h).
Proof. apply fold_left_app. Qed.

Lemma Inv_update s msg data : Inv s msg -> Inv (update s data) (msg ++ data).
Proof.
  intros (bs & Hall & Hmsg & Hlt & Hst & Hbl). unfold update.
  destruct data as [|d data'] eqn:Ed.
  - rewrite app_nil_r. exists bs. repeat split; assumption.
  - rewrite <- Ed.
    destruct (update_loop_spec (length data) (st s) (buf s) data Hlt (le_n _)) as (bs2 & Hall2 & Hcat & Hlt2 & Hfold).
    destruct (update_loop (length data) (st s) (buf s) data) as [h b] eqn:EL. cbn [fst snd] in *.
    exists (bs ++ bs2). cbn [st buf bitlen]. repeat split.
    + apply Forall_app. split; assumption.
    + rewrite Hmsg, concat_app, <- !app_assoc. f_equal. exact Hcat.
    + exact Hlt2.
    + rewrite fold_left_app_transform, <- Hst. exact Hfold.
    + rewrite Hbl, zlen_app. lia.
Qed.

Lemma Inv_fold chunks : forall s msg, Inv s msg -> Inv (fold_left update chunks s) (msg ++ concat chunks).
Proof.
  induction chunks as [|c cs IH]; intros s msg H; cbn [fold_left concat].
  - rewrite app_nil_r. exact H.
  - rewrite app_assoc. apply IH. apply Inv_update. exact H.
Qed.

(* ---- the spec's block splitting follows the same decomposition ---- *)
Lemma blocks_concat bs : forall k rest, Forall len64 bs ->
  blocks (length bs + k) (concat bs ++ rest) = bs ++ blocks k rest.
Proof.
  induction bs as [|b bs IH]; intros k rest Hall; [reflexivity|].
  inversion Hall as [|? ? Hb Hbs]; subst. unfold len64 in Hb.
  cbn [length Nat.add blocks concat]. rewrite <- app_assoc.
  rewrite firstn_app, Hb, Nat.sub_diag, firstn_all2 by lia. cbn [firstn]. rewrite app_nil_r.
  rewrite skipn_app, Hb, Nat.sub_diag, skipn_all2 by lia. cbn [skipn app].
  f_equal. apply IH. exact Hbs.
Qed.

Lemma concat_length64 bs : Forall len64 bs -> length (concat bs) = (64 * length bs)%nat.
Proof.
  induction 1 as [|b bs Hb _ IH]; [reflexivity|]. unfold len64 in Hb.
  cbn [concat length]. rewrite app_length, Hb, IH. lia.
Qed.

Lemma fold_compress_transform bs h : fold_left compress bs h = fold_left transform bs h.
Proof.
  revert h. induction bs as [|b bs IH]; intros h; [reflexivity|].
  cbn [fold_left]. rewrite <- transform_is_compress. apply IH.
Qed.

Lemma repeat_add {A} (x : A) a b : repeat x (a + b) = repeat x a ++ repeat x b.
Proof. apply repeat_app. Qed.

(* ---- finalize against the padded tail ---- *)
Theorem finalize_correct s msg : Inv s msg -> finalize s = hash msg.
Proof.
  intros (bs & Hall & Hmsg & Hlt & Hst & Hbl).
  unfold hash, finalize.
  set (n := length (buf s)) in *.
  assert (Hmlen : zlen msg = 64 * Z.of_nat (length bs) + Z.of_nat n).
  { unfold zlen. rewrite Hmsg, app_length, (concat_length64 bs Hall). fold n. lia. }
  assert (Hpz : pad_zeros (zlen msg) = if Nat.ltb 55 n then (119 - n)%nat else (55 - n)%nat).
  { unfold pad_zeros. rewrite Hmlen. destruct (Nat.ltb 55 n) eqn:E.
    - apply Nat.ltb_lt in E. replace ((55 - (64 * Z.of_nat (length bs) + Z.of_nat n)) mod 64) with (119 - Z.of_nat n) by lia. lia.
    - apply Nat.ltb_ge in E. replace ((55 - (64 * Z.of_nat (length bs) + Z.of_nat n)) mod 64) with (55 - Z.of_nat n) by lia. lia. }
  unfold pad. rewrite Hpz. rewrite <- Hbl.
  rewrite app_length. cbn [length]. fold n.
  replace (Nat.ltb 56 (n + 1)) with (Nat.ltb 55 n)
    by (destruct (Nat.ltb 55 n) eqn:E1; destruct (Nat.ltb 56 (n + 1)) eqn:E2; try reflexivity;
        rewrite ?Nat.ltb_lt, ?Nat.ltb_ge in *; lia).
  destruct (Nat.ltb 55 n) eqn:E.
  - (* two final blocks *)
    apply Nat.ltb_lt in E.
    set (b1 := (buf s ++ [128]) ++ repeat 0 (64 - (n + 1))).
    set (b2 := [] ++ repeat 0 (56 - length (@nil Z)) ++ be64 (bitlen s)).
    assert (Hb1 : length b1 = 64%nat).
    { unfold b1. rewrite !app_length, repeat_length. cbn [length]. fold n. lia. }
    assert (Hb2 : length b2 = 64%nat) by reflexivity.
    assert (Hp : msg ++ [128] ++ repeat 0 (119 - n) ++ be64 (bitlen s) = concat (bs ++ [b1]) ++ b2).
    { rewrite Hmsg, concat_app. cbn [concat]. rewrite app_nil_r. unfold b1, b2.
      change (56 - length (@nil Z))%nat with 56%nat.
      replace (119 - n)%nat with ((64 - (n + 1)) + 56)%nat by lia. rewrite repeat_add.
      cbn [app]. rewrite <- !app_assoc. reflexivity. }
    rewrite Hp.
    assert (Hall' : Forall len64 (bs ++ [b1])).
    { apply Forall_app. split; [exact Hall | constructor; [exact Hb1 | constructor]]. }
    assert (Hplen : (length (concat (bs ++ [b1]) ++ b2) / 64 = length (bs ++ [b1]) + 1)%nat).
    { rewrite app_length, (concat_length64 _ Hall'), Hb2.
      replace (64 * length (bs ++ [b1]) + 64)%nat with ((length (bs ++ [b1]) + 1) * 64)%nat by lia.
      apply Nat.div_mul. lia. }
    rewrite Hplen, (blocks_concat _ 1 b2 Hall').
    cbn [blocks]. rewrite firstn_all2 by lia.
    rewrite !fold_left_app. cbn [fold_left].
    rewrite fold_compress_transform, Hst. reflexivity.
  - (* one final block *)
    apply Nat.ltb_ge in E.
    set (b3 := (buf s ++ [128]) ++ repeat 0 (56 - length (buf s ++ [128])) ++ be64 (bitlen s)).
    assert (Hb3 : length b3 = 64%nat).
    { unfold b3. rewrite !app_length, repeat_length, be64_length. cbn [length]. fold n. lia. }
    assert (Hp : msg ++ [128] ++ repeat 0 (55 - n) ++ be64 (bitlen s) = concat bs ++ b3).
    { rewrite Hmsg. unfold b3. rewrite app_length. cbn [length]. fold n.
      replace (56 - (n + 1))%nat with (55 - n)%nat by lia. rewrite <- !app_assoc. reflexivity. }
    rewrite Hp.
    assert (Hplen : (length (concat bs ++ b3) / 64 = length bs + 1)%nat).
    { rewrite app_length, (concat_length64 _ Hall), Hb3.
      replace (64 * length bs + 64)%nat with ((length bs + 1) * 64)%nat by lia.
      apply Nat.div_mul. lia. }
    rewrite Hplen, (blocks_concat _ 1 b3 Hall).
    cbn [blocks]. rewrite firstn_all2 by lia.
    rewrite fold_left_app. cbn [fold_left].
    rewrite fold_compress_transform, Hst. reflexivity.
Qed.

(* every message, every split into update calls *)
Theorem sha_streaming chunks : finalize (fold_left update chunks sha_init) = hash (concat chunks).
Proof.
  apply finalize_correct. change (concat chunks) with ([] ++ concat chunks).
  apply Inv_fold, Inv_init.
Qed.

Corollary sha256_is_hash data : sha256 data = hash data.
Proof.
  unfold sha256. rewrite <- (app_nil_r data) at 2.
  change (data ++ []) with (concat [data]). apply (sha_streaming [data]).
Qed.

Lemma hash_length msg : length (hash msg) = 32%nat.
Proof. rewrite <- sha256_is_hash. unfold sha256, finalize.
  destruct (Nat.ltb 56 _); reflexivity. Qed.

(* ---- HMAC ---- *)
Theorem hmac_is_rfc2104 key data : hmac key data = hmac_sha256 key data.
Proof.
  unfold hmac, hmac_sha256, Sha256Spec.hmac, hmac_K0, xor_pad.
  change hmac_block_size with 64. change (Z.to_nat 64) with 64%nat.
  rewrite sha256_is_hash.
  set (k0 := (if 64 <? zlen key then hash key else key)).
  set (kb := k0 ++ repeat 0 (64 - length k0)).
  change (update (update sha_init (map (fun b : Z => Z.lxor b 54) kb)) data)
    with (fold_left update [map (fun b : Z => Z.lxor b 54) kb; data] sha_init).
  rewrite sha_streaming.
  match goal with |- finalize (update (update sha_init ?o) ?i) = _ =>
    change (update (update sha_init o) i) with (fold_left update [o; i] sha_init) end.
  rewrite sha_streaming. cbn [concat]. rewrite !app_nil_r. reflexivity.
Qed.
