(* C31: proofs about model/FilenameModel.v. *)
Require Import ZArith List Bool Lia ZifyBool.
Import ListNotations.
Local Open Scope Z_scope.
From EphVerif Require Import lib.Bytes model.FilenameModel gen.Constants_filename.

(* a character allowed in a produced name *)
Definition ok_char (c : Z) : Prop := iscntrl c = false /\ is_reserved c = false.
Definition noslash (l : list Z) : Prop := Forall (fun c => c <> 47) l.

Definition safe_name (max : Z) (n : list Z) : Prop :=
  n <> [] /\ Forall ok_char n /\ n <> dot /\ n <> dotdot /\ zlen n <= max.

(* ---- filename(): suffix after the last '/' ---- *)
Lemma fname_acc_noslash l : forall acc, noslash acc -> noslash (fname_acc acc l).
Proof.
  induction l as [|c r IH]; intros acc Ha; cbn [fname_acc]; [exact Ha|].
  destruct (c =? 47) eqn:E; [apply IH; constructor|].
  apply IH. apply Forall_app. split; [exact Ha | constructor; [lia | constructor]].
Qed.

Lemma filename_noslash l : noslash (filename l).
Proof. apply fname_acc_noslash. constructor. Qed.

Lemma fname_acc_app a : forall acc b, fname_acc acc (a ++ b) = fname_acc (fname_acc acc a) b.
Proof. induction a as [|c a IH]; intros acc b; cbn [app fname_acc]; [reflexivity|]. destruct (c =? 47); apply IH. Qed.

Lemma fname_acc_plain n : forall acc, noslash n -> fname_acc acc n = acc ++ n.
Proof.
  induction n as [|c n IH]; intros acc Hn; cbn [fname_acc]; [rewrite app_nil_r; reflexivity|].
  inversion Hn as [|? ? Hc Hn']; subst. destruct (c =? 47) eqn:E; [lia|].
  rewrite IH by exact Hn'. rewrite <- app_assoc. reflexivity.
Qed.

(* dir /= name: the name is the last component, i.e. the file is a direct child of dir *)
Theorem join_direct_child dir name : noslash name -> filename (join dir name) = name.
Proof.
  intros Hn. unfold filename, join. rewrite fname_acc_app. cbn [app fname_acc]. change (47 =? 47) with true. cbv iota.
  apply (fname_acc_plain name []). exact Hn.
Qed.

(* ---- scrub: no control byte survives, no reserved byte survives ---- *)
Lemma repl_ok c : iscntrl c = false -> ok_char (repl c).
Proof.
  intros Hc. unfold repl. destruct (is_reserved c) eqn:E; [split; reflexivity | split; assumption].
Qed.

Lemma scrub_ok l : Forall ok_char (scrub l).
Proof.
  unfold scrub. induction l as [|c l IH]; cbn [filter map]; [constructor|].
  destruct (iscntrl c) eqn:E; cbn [negb map]; [exact IH|]. constructor; [apply repl_ok; exact E | exact IH].
Qed.

Lemma firstn_ok {P : Z -> Prop} n l : Forall P l -> Forall P (firstn n l).
Proof.
  revert l. induction n as [|n IH]; intros [|x l] H; cbn [firstn]; try constructor; inversion H; subst; [assumption | apply IH; assumption].
Qed.

Lemma firstn_short n (l : list Z) : (length l <= n)%nat -> firstn n l = l.
Proof. intros. apply firstn_all2. assumption. Qed.

Lemma zlen_firstn n (l : list Z) : 0 <= n -> zlen (firstn (Z.to_nat n) l) <= n.
Proof. intros. unfold zlen. rewrite firstn_length. lia. Qed.

Lemma is_dots_false l : is_dots l = false -> l <> dot /\ l <> dotdot.
Proof.
  unfold is_dots. intros H. apply orb_false_iff in H. destruct H as [H1 H2]. split; intros ->.
  - rewrite list_eqb_refl in H1. discriminate.
  - rewrite list_eqb_refl in H2. discriminate.
Qed.

(* truncation at max >= 3 of a name that is not "." / ".." cannot produce "." / ".." or "" *)
Lemma firstn_keeps l max : 3 <= max -> l <> [] -> l <> dot -> l <> dotdot ->
  firstn (Z.to_nat max) l <> [] /\ firstn (Z.to_nat max) l <> dot /\ firstn (Z.to_nat max) l <> dotdot.
Proof.
  intros Hm Hn Hd Hdd.
  destruct (Nat.le_gt_cases (length l) (Z.to_nat max)) as [Hs|Hl].
  - rewrite firstn_short by exact Hs. auto.
  - assert (Hlen : length (firstn (Z.to_nat max) l) = Z.to_nat max) by (rewrite firstn_length; lia).
    repeat split; intros E; rewrite E in Hlen; simpl in Hlen; lia.
Qed.

Theorem fetch_sanitize_safe raw : fetch_sanitize raw = [] \/ safe_name fetch_max_name (fetch_sanitize raw).
Proof.
  unfold fetch_sanitize. set (base := scrub (filename raw)).
  destruct (is_nil base || is_dots base) eqn:E; [left; reflexivity|right].
  apply orb_false_iff in E. destruct E as [En Ed]. apply is_dots_false in Ed. destruct Ed as [Hd Hdd].
  assert (Hne : base <> []) by (destruct base; [discriminate | discriminate]).
  destruct (firstn_keeps base fetch_max_name ltac:(unfold fetch_max_name; lia) Hne Hd Hdd) as (A & B & C).
  repeat split; try assumption.
  - apply firstn_ok. apply scrub_ok.
  - apply zlen_firstn. unfold fetch_max_name. lia.
Qed.

Theorem store_sanitize_safe raw : store_sanitize raw = [] \/ safe_name store_max_name (store_sanitize raw).
Proof.
  unfold store_sanitize. set (v := scrub (filename raw)).
  destruct (is_dots v) eqn:Ed; [left; destruct (Z.to_nat store_max_name); reflexivity|].
  destruct v as [|c v'] eqn:Ev; [left; destruct (Z.to_nat store_max_name); reflexivity|right].
  apply is_dots_false in Ed. destruct Ed as [Hd Hdd].
  destruct (firstn_keeps (c :: v') store_max_name ltac:(unfold store_max_name; lia) ltac:(discriminate) Hd Hdd) as (A & B & C).
  repeat split; try assumption.
  - apply firstn_ok. rewrite <- Ev. apply scrub_ok.
  - apply zlen_firstn. unfold store_max_name. lia.
Qed.

(* the hint keeps the bytes but is still a single, non-dot component of bounded length *)
Theorem hint_sanitize_component raw : hint_sanitize raw = [] \/
  (noslash (hint_sanitize raw) /\ hint_sanitize raw <> dot /\ hint_sanitize raw <> dotdot /\ zlen (hint_sanitize raw) <= hint_max_name).
Proof.
  unfold hint_sanitize. destruct (is_nil raw || is_nil (filename raw) || is_dots (filename raw)) eqn:E; [left; reflexivity|right].
  apply orb_false_iff in E. destruct E as [E Ed]. apply orb_false_iff in E. destruct E as [_ En].
  apply is_dots_false in Ed. destruct Ed as [Hd Hdd].
  assert (Hne : filename raw <> []) by (destruct (filename raw); discriminate).
  destruct (firstn_keeps (filename raw) hint_max_name ltac:(unfold hint_max_name; lia) Hne Hd Hdd) as (A & B & C).
  repeat split; try assumption.
  - apply firstn_ok. apply filename_noslash.
  - apply zlen_firstn. unfold hint_max_name. lia.
Qed.

Lemma ok_char_noslash n : Forall ok_char n -> noslash n.
Proof.
  apply Forall_impl. intros c [_ Hr] ->. vm_compute in Hr. discriminate.
Qed.

(* what ok_char excludes, spelled out *)
Lemma ok_char_spec c : ok_char c -> 32 <= c /\ c <> 127 /\ ~ In c reserved.
Proof.
  intros [Hc Hr]. unfold iscntrl in Hc. apply orb_false_iff in Hc. destruct Hc as [H1 H2].
  repeat split; try lia. intros Hin. unfold is_reserved in Hr.
  assert (existsb (Z.eqb c) reserved = true); [|congruence].
  apply existsb_exists. exists c. split; [exact Hin | apply Z.eqb_refl].
Qed.
