(* C17 / C18: proofs about model/ManifestModel.v.
   Part 1 (C18): the decoder never reaches UB and throws nothing but invalid_argument.
   Part 2 (C17): base64 round trip; decode (encode m) = norm m; unrepresentable manifests are refused. *)
Require Import ZArith List Bool Lia ZifyBool Arith.
Import ListNotations.
Local Open Scope Z_scope.
From EphVerif Require Import lib.Bytes lib.Outcome model.ManifestModel gen.Constants_manifest.
Ltac Zify.zify_post_hook ::= Z.div_mod_to_equations.

(* ================================================================================ Part 1 *)
Definition good {A} (r : res A) : Prop :=
  match r with UB => False | Throw e => e = InvalidArgument | Ok _ => True end.

Lemma good_throw_if {A} c (k : res A) : (c = false -> good k) -> good (throw_if c IA k).
Proof. unfold throw_if. destruct c; [reflexivity | auto]. Qed.

Lemma good_bind {A B} (e : res A) (k : A -> res B) :
  good e -> (forall a, e = Ok a -> good (k a)) -> good (bind e k).
Proof. destruct e; simpl; auto. Qed.

Lemma good_take {B} n l (k : list Z * list Z -> res B) :
  n <= zlen l ->
  (forall a r, zlen r = zlen l - Z.max 0 n -> zlen a = Z.max 0 n -> l = a ++ r -> good (k (a, r))) ->
  good (bind (take n l) k).
Proof.
  intros Hn Hk. unfold take. destruct (n <=? zlen l) eqn:E; [|lia]. cbn [bind].
  apply Hk; unfold zlen in *.
  - rewrite skipn_length. lia.
  - rewrite firstn_length. lia.
  - symmetry. apply firstn_skipn.
Qed.

Lemma good_take1 {B} l (k : Z * list Z -> res B) :
  0 < zlen l ->
  (forall b r, zlen r = zlen l - 1 -> l = b :: r -> good (k (b, r))) ->
  good (bind (take1 l) k).
Proof.
  intros Hl Hk. destruct l as [|b r]; [unfold zlen in Hl; simpl in Hl; lia|].
  cbn [take1 bind]. apply Hk; [unfold zlen; cbn [length]; lia | reflexivity].
Qed.

Lemma good_repeat {A} (p : parser A) n : (forall l, good (p l)) -> forall l, good (repeat_p n p l).
Proof.
  intros Hp. induction n as [|n IH]; intros l; cbn [repeat_p]; [exact I|].
  apply good_bind; [apply Hp|]. intros [x r] _.
  apply good_bind; [apply IH|]. intros [xs r'] _. exact I.
Qed.

Ltac gstep :=
  lazymatch goal with
  | |- good (throw_if _ _ _) => apply good_throw_if; let H := fresh "G" in intros H
  | |- good (bind (take _ _) _) =>
      apply good_take; [unfold zlen in *; lia | let a := fresh "a" in let r := fresh "r" in
                              let H1 := fresh "Hr" in let H2 := fresh "Ha" in let H3 := fresh "Hl" in
                              intros a r H1 H2 H3; cbv beta iota]
  | |- good (bind (take1 _) _) =>
      apply good_take1; [unfold zlen in *; lia | let b := fresh "b" in let r := fresh "r" in
                               let H1 := fresh "Hr" in let H3 := fresh "Hl" in
                               intros b r H1 H3; cbv beta iota]
  | |- good (Ok _) => exact I
  end.

Lemma good_p_meta l : good (p_meta l).
Proof. unfold p_meta. repeat gstep. Qed.

Lemma good_p_fallback l : good (p_fallback l).
Proof. unfold p_fallback. repeat gstep. Qed.

Lemma good_p_hint ws l : good (p_hint ws l).
Proof.
  unfold p_hint. apply good_bind.
  - destruct ws; [|exact I]. repeat gstep.
    unfold take. destruct (_ <=? _) eqn:E; [exact I | unfold zlen in *; lia].
  - intros [scheme r] _. repeat gstep.
Qed.

Lemma shards_ok n : forall l, 33 * Z.of_nat n <= zlen l ->
  exists xs r, repeat_p n p_shard l = Ok (xs, r).
Proof.
  induction n as [|n IH]; intros l Hl; cbn [repeat_p]; [eauto|].
  unfold p_shard at 1.
  destruct l as [|b l']; [unfold zlen in Hl; simpl in Hl; lia|].
  cbn [take1 bind]. unfold take. assert (Hl' : zlen l' = zlen (b :: l') - 1) by (unfold zlen; cbn [length]; lia).
  destruct (32 <=? zlen l') eqn:E; [|lia]. cbn [bind].
  destruct (IH (skipn (Z.to_nat 32) l')) as (xs & r & Hx).
  { unfold zlen in *. rewrite skipn_length. lia. }
  rewrite Hx. cbn [bind]. eauto.
Qed.

Lemma good_no_overflow {B} v (k : unit -> res B) :
  -9223372036854775808 <= v <= 9223372036854775807 -> good (k tt) -> good (bind (no_overflow64 v) k).
Proof.
  intros Hv Hk. unfold no_overflow64.
  destruct ((-9223372036854775808 <=? v) && (v <=? 9223372036854775807)) eqn:E; [exact Hk | lia].
Qed.

Theorem dec_payload_good payload : good (dec_payload payload).
Proof.
  unfold dec_payload.
  gstep. gstep. gstep. gstep. gstep. gstep. gstep. gstep.
  apply good_no_overflow; [unfold max_expiry_seconds, min_expiry_seconds, billion in *;
    change (Z.quot 9223372036854775807 1000000000) with 9223372036 in *;
    change (Z.quot (-9223372036854775808) 1000000000) with (-9223372036) in *; lia|].
  gstep. gstep. gstep. gstep.
  match goal with |- good (bind (repeat_p ?n p_shard ?l) _) => destruct (shards_ok n l) as (xs & rs & Hx); [unfold zlen in *; lia|] end. rewrite Hx. cbn [bind].
  match goal with |- good (if ?c then _ else _) => destruct c end; [exact I|].
  gstep. gstep.
  apply good_bind; [apply good_repeat, good_p_meta|]. intros [pairs r8] _.
  match goal with |- good (if ?c then _ else _) => destruct c end; [exact I|].
  gstep. gstep.
  apply good_bind; [apply good_repeat, good_p_hint|]. intros [hints r10] _.
  gstep. gstep. gstep. gstep. gstep. gstep. gstep. gstep.
  apply good_bind.
  { match goal with |- good (if ?c then _ else _) => destruct c end; [|exact I]. gstep. gstep. gstep. }
  intros [att r15] _. gstep. gstep.
  apply good_bind; [apply good_repeat, good_p_fallback|]. intros [fbs r17] _. exact I.
Qed.

(* ---- base64 decoding never reads past the end and throws only invalid_argument ---- *)
Lemma quads_good n : forall l, length l = (4 * n)%nat -> good (base64_decode_quads l).
Proof.
  induction n as [|n IH]; intros l Hl.
  - destruct l; [exact I | simpl in Hl; lia].
  - do 4 (destruct l as [|? l]; [simpl in Hl; lia|]).
    cbn [base64_decode_quads].
    match goal with |- good (if ?c then _ else _) => destruct c end; [reflexivity|].
    apply good_bind; [apply IH; simpl in Hl; lia|]. intros tl _. exact I.
Qed.

Theorem base64_decode_good l : good (base64_decode l).
Proof.
  unfold base64_decode. destruct (zlen l mod 4 =? 0) eqn:E; cbn [negb]; [|reflexivity].
  apply (quads_good (length l / 4)). unfold zlen in E.
  assert (H : Z.of_nat (length l) mod 4 = 0) by lia.
  rewrite <- (Nat2Z.id (length l)) at 1.
  pose proof (Nat.div_mod (length l) 4 ltac:(lia)) as D.
  assert (length l mod 4 = 0)%nat.
  { apply Nat2Z.inj. rewrite Nat2Z.inj_mod. exact H. }
  rewrite Nat2Z.id. lia.
Qed.

(* C18: for every string the decoder returns a manifest or throws invalid_argument; it never reaches UB *)
Theorem decode_manifest_total uri : good (decode_manifest uri).
Proof.
  unfold decode_manifest. destruct (negb (is_prefixb uri_scheme uri)); [reflexivity|].
  apply good_bind; [apply base64_decode_good|]. intros payload _. apply dec_payload_good.
Qed.

Corollary decode_manifest_cases uri :
  (exists m, decode_manifest uri = Ok m) \/ decode_manifest uri = Throw InvalidArgument.
Proof.
  pose proof (decode_manifest_total uri) as G. destruct (decode_manifest uri) as [m|e|]; cbn in G.
  - left. eauto.
  - right. rewrite G. reflexivity.
  - contradiction.
Qed.

(* ================================================================================ Part 2 *)
(* ---- base64 ---- *)
Lemma alphabet_sweep :
  forallb (fun i => (dec_char (b64_char i) =? i) && negb (b64_char i =? pad_char)) (map Z.of_nat (seq 0 64)) = true.
Proof. vm_compute. reflexivity. Qed.

Lemma alphabet_inverse i : 0 <= i < 64 -> dec_char (b64_char i) = i /\ b64_char i <> pad_char.
Proof.
  intros Hi. pose proof alphabet_sweep as S. rewrite forallb_forall in S.
  specialize (S i). assert (Hin : In i (map Z.of_nat (seq 0 64))).
  { apply in_map_iff. exists (Z.to_nat i). split; [lia|]. apply in_seq. lia. }
  specialize (S Hin). apply andb_true_iff in S. destruct S as [S1 S2]. lia.
Qed.

Lemma pad_dec : dec_char pad_char = 0.
Proof. reflexivity. Qed.

Lemma sextet_range t k : 0 <= (t / k) mod 64 < 64.
Proof. apply Z.mod_pos_bound. lia. Qed.

Ltac sext x := destruct (alphabet_inverse x (sextet_range _ _)) as [? ?].

Lemma b64_roundtrip_n n : forall l, (length l <= n)%nat -> bytes_ok l ->
  base64_decode_quads (base64_encode l) = Ok l.
Proof.
  induction n as [|n IH]; intros l Hlen Hok.
  - destruct l; [reflexivity | simpl in Hlen; lia].
  - destruct l as [|a [|b [|c rest]]].
    + reflexivity.
    + (* one byte *)
      inversion Hok as [|? ? Ha _]; subst. unfold byte_ok in Ha.
      cbn [base64_encode]. cbv zeta. cbn [base64_decode_quads].
      set (t := a * 65536).
      destruct (alphabet_inverse ((t / 262144) mod 64)) as [E0 _]; [apply Z.mod_pos_bound; lia|].
      destruct (alphabet_inverse ((t / 4096) mod 64)) as [E1 _]; [apply Z.mod_pos_bound; lia|].
      rewrite E0, E1, pad_dec.
      replace ((((t / 262144) mod 64 <? 0) || ((t / 4096) mod 64 <? 0) || (0 <? 0) || (0 <? 0))) with false by lia.
      rewrite Z.eqb_refl. cbn [bind app]. unfold t. f_equal. f_equal. lia.
    + (* two bytes *)
      inversion Hok as [|? ? Ha Hok']; subst. inversion Hok' as [|? ? Hb _]; subst. unfold byte_ok in Ha, Hb.
      cbn [base64_encode]. cbv zeta. cbn [base64_decode_quads].
      set (t := a * 65536 + b * 256).
      destruct (alphabet_inverse ((t / 262144) mod 64)) as [E0 _]; [apply Z.mod_pos_bound; lia|].
      destruct (alphabet_inverse ((t / 4096) mod 64)) as [E1 _]; [apply Z.mod_pos_bound; lia|].
      destruct (alphabet_inverse ((t / 64) mod 64)) as [E2 N2]; [apply Z.mod_pos_bound; lia|].
      rewrite E0, E1, E2, pad_dec.
      replace ((((t / 262144) mod 64 <? 0) || ((t / 4096) mod 64 <? 0) || ((t / 64) mod 64 <? 0) || (0 <? 0))) with false by lia.
      replace (b64_char ((t / 64) mod 64) =? pad_char) with false by lia.
      rewrite Z.eqb_refl. cbn [bind app]. unfold t. f_equal. f_equal; [lia|]. f_equal. lia.
    + (* a full triple *)
      inversion Hok as [|? ? Ha Hok1]; subst. inversion Hok1 as [|? ? Hb Hok2]; subst.
      inversion Hok2 as [|? ? Hc Hok3]; subst. unfold byte_ok in Ha, Hb, Hc.
      cbn [base64_encode]. unfold quad. cbv zeta. cbn [app base64_decode_quads].
      set (t := a * 65536 + b * 256 + c).
      destruct (alphabet_inverse ((t / 262144) mod 64)) as [E0 _]; [apply Z.mod_pos_bound; lia|].
      destruct (alphabet_inverse ((t / 4096) mod 64)) as [E1 _]; [apply Z.mod_pos_bound; lia|].
      destruct (alphabet_inverse ((t / 64) mod 64)) as [E2 N2]; [apply Z.mod_pos_bound; lia|].
      destruct (alphabet_inverse (t mod 64)) as [E3 N3]; [apply Z.mod_pos_bound; lia|].
      rewrite E0, E1, E2, E3.
      replace ((((t / 262144) mod 64 <? 0) || ((t / 4096) mod 64 <? 0) || ((t / 64) mod 64 <? 0) || (t mod 64 <? 0))) with false by lia.
      replace (b64_char ((t / 64) mod 64) =? pad_char) with false by lia.
      replace (b64_char (t mod 64) =? pad_char) with false by lia.
      rewrite IH by (simpl in Hlen; try lia; assumption). cbn [bind app]. unfold t.
      f_equal. f_equal; [lia|]. f_equal; [lia|]. f_equal. lia.
Qed.

Lemma b64_encode_len4 l : (length (base64_encode l) mod 4 = 0)%nat.
Proof.
  assert (H : forall n l, (length l <= n)%nat -> (length (base64_encode l) mod 4 = 0)%nat).
  { induction n as [|n IH]; intros l0 Hl.
    - destruct l0; [reflexivity | simpl in Hl; lia].
    - destruct l0 as [|a [|b [|c rest]]]; try reflexivity.
      cbn [base64_encode]. unfold quad. cbn [app length].
      specialize (IH rest ltac:(simpl in Hl; lia)).
      replace (S (S (S (S (length (base64_encode rest)))))) with (length (base64_encode rest) + 1 * 4)%nat by lia.
      rewrite Nat.mod_add by lia. exact IH. }
  apply (H (length l)). lia.
Qed.

Theorem b64_roundtrip l : bytes_ok l -> base64_decode (base64_encode l) = Ok l.
Proof.
  intros Hok. unfold base64_decode.
  assert (zlen (base64_encode l) mod 4 = 0) as ->.
  { unfold zlen. pose proof (b64_encode_len4 l) as H.
    rewrite <- (Nat2Z.inj_mod _ 4). rewrite H. reflexivity. }
  cbn [Z.eqb negb]. apply (b64_roundtrip_n (length l)); [lia | exact Hok].
Qed.

(* ---- payload round trip ---- *)
Definition shard_ok (s : shard) : Prop := 0 <= sh_index s < 256 /\ bytes_ok (sh_value s) /\ zlen (sh_value s) = 32.
Definition meta_ok (e : list Z * list Z) : Prop :=
  bytes_ok (fst e) /\ bytes_ok (snd e) /\ zlen (fst e) <= 255 /\ zlen (snd e) <= 65535.
Definition hint_ok (h : hint) : Prop :=
  bytes_ok (h_scheme h) /\ bytes_ok (h_transport h) /\ bytes_ok (h_endpoint h) /\ 0 <= h_priority h < 256 /\
  zlen (eff_scheme h) <= 255 /\ zlen (h_transport h) <= 255 /\ zlen (h_endpoint h) <= 65535.
Definition fallback_ok (f : fallback) : Prop :=
  bytes_ok (f_uri f) /\ zlen (f_uri f) <= 65535 /\ 0 <= f_priority f < 256.

(* strictly ascending keys: what a std::map always holds *)
Fixpoint asc (l : list (list Z * list Z)) : Prop :=
  match l with
  | [] => True
  | e :: t => Forall (fun e' => lex_compare (fst e') (fst e) = Gt) t /\ asc t
  end.

Definition wf (m : manifest) : Prop :=
  (bytes_ok (mf_chunk_id m) /\ zlen (mf_chunk_id m) = 32) /\
  (bytes_ok (mf_hash m) /\ zlen (mf_hash m) = 32) /\
  (bytes_ok (mf_nonce m) /\ zlen (mf_nonce m) = 12) /\
  0 <= mf_threshold m < 256 /\ 0 <= mf_total m < 256 /\
  -9223372036854775808 <= mf_expires_ns m < 9223372036854775808 /\
  (Forall shard_ok (mf_shards m) /\ zlen (mf_shards m) <= 255) /\
  (Forall meta_ok (mf_meta m) /\ zlen (mf_meta m) <= 255 /\ asc (mf_meta m)) /\
  (Forall hint_ok (mf_hints m) /\ zlen (mf_hints m) <= 255) /\
  0 <= mf_token_bits m < 256 /\
  (bytes_ok (mf_advisory m) /\ zlen (mf_advisory m) <= 65535) /\
  (match mf_attest m with Some d => bytes_ok d /\ zlen d = 32 | None => True end) /\
  (Forall fallback_ok (mf_fallbacks m) /\ zlen (mf_fallbacks m) <= 255).

Definition norm_hint (h : hint) : hint :=
  {| h_scheme := eff_scheme h; h_transport := h_transport h; h_endpoint := h_endpoint h; h_priority := h_priority h |}.

(* whole-second expiry (truncation toward zero, as duration_cast) and empty scheme reported as transport *)
Definition norm (m : manifest) : manifest :=
  {| mf_chunk_id := mf_chunk_id m; mf_hash := mf_hash m; mf_nonce := mf_nonce m;
     mf_threshold := mf_threshold m; mf_total := mf_total m;
     mf_expires_ns := Z.quot (mf_expires_ns m) billion * billion;
     mf_shards := mf_shards m; mf_meta := mf_meta m; mf_hints := map norm_hint (mf_hints m);
     mf_token_bits := mf_token_bits m; mf_advisory := mf_advisory m; mf_attest := mf_attest m;
     mf_fallbacks := mf_fallbacks m |}.

Lemma take_app n a r : zlen a = n -> take n (a ++ r) = Ok (a, r).
Proof.
  intros Hn. unfold take. rewrite zlen_app. pose proof (zlen_nonneg r).
  destruct (n <=? zlen a + zlen r) eqn:E; [|lia].
  assert (Z.to_nat n = length a) as -> by (unfold zlen in Hn; lia).
  rewrite firstn_app, Nat.sub_diag, firstn_all, skipn_app, skipn_all, Nat.sub_diag. simpl.
  rewrite app_nil_r. reflexivity.
Qed.

Lemma u16_be16 v : 0 <= v < 65536 -> u16_of (be16 v) = v.
Proof. intros. unfold u16_of, be16. cbn [nth]. lia. Qed.

Lemma zlen_be16 v : zlen (be16 v) = 2. Proof. reflexivity. Qed.
Lemma zlen_cons {A} (x : A) l : zlen (x :: l) = 1 + zlen l.
Proof. unfold zlen. cbn [length]. lia. Qed.

Lemma repeat_p_map {A} (p : parser A) (enc : A -> list Z) (nrm : A -> A) (P : A -> Prop) :
  (forall x r, P x -> p (enc x ++ r) = Ok (nrm x, r)) ->
  forall xs r, Forall P xs -> repeat_p (length xs) p (flat_map enc xs ++ r) = Ok (map nrm xs, r).
Proof.
  intros Hp. induction xs as [|x xs IH]; intros r Hall; [reflexivity|].
  inversion Hall as [|? ? Hx Hxs]; subst.
  cbn [length repeat_p flat_map map]. rewrite <- app_assoc, (Hp x _ Hx). cbn [bind].
  rewrite (IH r Hxs). reflexivity.
Qed.

Lemma p_shard_enc s r : shard_ok s -> p_shard (enc_shard s ++ r) = Ok (s, r).
Proof.
  intros (Hi & Hv & H32). destruct s as [i v]. cbn [sh_index sh_value] in *.
  unfold p_shard, enc_shard. cbn [sh_index sh_value app take1 bind].
  rewrite take_app by assumption. cbn [bind]. rewrite Z.mod_small by lia. reflexivity.
Qed.

Lemma zlen_nil {A} : zlen (@nil A) = 0. Proof. reflexivity. Qed.
Ltac zl := repeat first [rewrite zlen_app | rewrite zlen_cons | rewrite zlen_be16 | rewrite zlen_nil].
Ltac tif := match goal with
  | |- throw_if ?c _ _ = _ => replace c with false; [unfold throw_if at 1 | ]
  | |- context [throw_if ?c _ _] => replace c with false; [unfold throw_if at 1 | ]
  end.

Lemma p_meta_enc e r : meta_ok e -> p_meta (enc_meta e ++ r) = Ok (e, r).
Proof.
  intros (Hk & Hv & Hkl & Hvl). destruct e as [k v]. cbn [fst snd] in *.
  pose proof (zlen_nonneg k). pose proof (zlen_nonneg v). pose proof (zlen_nonneg r).
  unfold p_meta, enc_meta. cbn [fst snd]. rewrite !Z.mod_small by lia.
  rewrite <- !app_assoc. cbn [app].
  tif; [| zl; lia]. cbn [take1 bind].
  tif; [| zl; lia]. rewrite take_app by reflexivity. cbn [bind].
  tif; [| zl; lia]. rewrite take_app by reflexivity. cbn [bind]. cbv zeta.
  rewrite u16_be16 by lia.
  tif; [| zl; lia]. rewrite take_app by reflexivity. cbn [bind]. reflexivity.
Qed.

Lemma p_fallback_enc f r : fallback_ok f -> p_fallback (enc_fallback f ++ r) = Ok (f, r).
Proof.
  intros (Hu & Hul & Hp). destruct f as [u p]. cbn [f_uri f_priority] in *.
  pose proof (zlen_nonneg u). pose proof (zlen_nonneg r).
  unfold p_fallback, enc_fallback. cbn [f_uri f_priority]. rewrite !Z.mod_small by lia.
  rewrite <- !app_assoc. cbn [app].
  tif; [| zl; lia]. rewrite take_app by reflexivity. cbn [bind]. cbv zeta.
  rewrite u16_be16 by lia.
  tif; [| zl; lia]. rewrite take_app by reflexivity. cbn [bind].
  tif; [| zl; lia]. cbn [take1 bind]. reflexivity.
Qed.

Lemma p_hint_enc h r : hint_ok h -> p_hint true (enc_hint h ++ r) = Ok (norm_hint h, r).
Proof.
  intros (Hs & Ht & He & Hp & Hsl & Htl & Hel).
  pose proof (zlen_nonneg (eff_scheme h)). pose proof (zlen_nonneg (h_transport h)).
  pose proof (zlen_nonneg (h_endpoint h)). pose proof (zlen_nonneg r).
  unfold p_hint, enc_hint. rewrite !Z.mod_small by lia.
  rewrite <- !app_assoc. cbn [app].
  tif; [| zl; lia]. cbn [take1 bind].
  tif; [| zl; lia]. rewrite take_app by reflexivity. cbn [bind].
  tif; [| zl; lia]. cbn [take1 bind].
  tif; [| zl; lia]. rewrite take_app by reflexivity. cbn [bind].
  tif; [| zl; lia]. rewrite take_app by reflexivity. cbn [bind]. cbv zeta.
  rewrite u16_be16 by lia.
  tif; [| zl; lia]. rewrite take_app by reflexivity. cbn [bind].
  tif; [| zl; lia]. cbn [take1 bind].
  unfold norm_hint. f_equal. f_equal. f_equal.
  unfold eff_scheme. destruct (h_scheme h) as [|x s]; [|reflexivity].
  destruct (h_transport h); reflexivity.
Qed.

(* ---- metadata: inserting strictly ascending keys one by one rebuilds the same list ---- *)
Lemma emplace_end k v acc :
  Forall (fun e' => lex_compare k (fst e') = Gt) acc -> emplace k v acc = acc ++ [(k, v)].
Proof.
  induction acc as [|[k' v'] acc IH]; intros H; [reflexivity|].
  inversion H as [|? ? Hk Hacc]; subst. cbn [fst] in Hk. cbn [emplace app]. rewrite Hk.
  rewrite IH by assumption. reflexivity.
Qed.

Lemma asc_app_inv acc x xs : asc (acc ++ x :: xs) ->
  Forall (fun e' => lex_compare (fst x) (fst e') = Gt) acc /\ asc ((acc ++ [x]) ++ xs).
Proof.
  intros H. split.
  - induction acc as [|a acc IH]; [constructor|].
    cbn [app asc] in H. destruct H as [Ha Hasc]. constructor.
    + rewrite Forall_forall in Ha. apply (Ha x). apply in_or_app. right. left. reflexivity.
    + apply IH. exact Hasc.
  - rewrite <- app_assoc. exact H.
Qed.

Lemma fold_emplace xs : forall acc, asc (acc ++ xs) ->
  fold_left (fun a e => emplace (fst e) (snd e) a) xs acc = acc ++ xs.
Proof.
  induction xs as [|x xs IH]; intros acc H; cbn [fold_left]; [rewrite app_nil_r; reflexivity|].
  destruct (asc_app_inv acc x xs H) as [Hall Hasc].
  rewrite emplace_end by exact Hall. destruct x as [k v]. cbn [fst snd].
  rewrite IH by exact Hasc. rewrite <- app_assoc. reflexivity.
Qed.

Lemma u64_of8_be64 v : 0 <= v < 18446744073709551616 -> u64_of8 (be64 v) = v.
Proof. intros H. unfold u64_of8, be64, be32. cbn [nth app]. unfold rd64, rd32. lia. Qed.

Lemma to_int64_mod s : -9223372036854775808 <= s < 9223372036854775808 ->
  to_int64 (s mod 18446744073709551616) = s.
Proof. intros H. unfold to_int64. destruct (_ <? _) eqn:E; lia. Qed.

Lemma quot_billion_range ns : -9223372036854775808 <= ns < 9223372036854775808 ->
  -9223372036 <= Z.quot ns billion <= 9223372036.
Proof.
  intros H. unfold billion. Z.quot_rem_to_equations. lia.
Qed.

Lemma zlen_flat_nonneg {A} (f : A -> list Z) xs : 0 <= zlen (flat_map f xs).
Proof. apply zlen_nonneg. Qed.

Lemma shards_len xs : Forall shard_ok xs -> zlen (flat_map enc_shard xs) = 33 * zlen xs.
Proof.
  induction 1 as [|s xs (Hi & Hv & H32) _ IH]; [reflexivity|].
  cbn [flat_map]. unfold enc_shard at 1. zl. rewrite IH, H32. lia.
Qed.

Lemma map_id_ext {A} (l : list A) : map (fun x => x) l = l.
Proof. apply map_id. Qed.

Ltac znn := repeat match goal with
  | |- context [zlen ?x] => lazymatch goal with | _ : 0 <= zlen x |- _ => fail | _ => pose proof (zlen_nonneg x) end
  end.
Ltac slen := zl; znn; lia.

Theorem dec_enc_payload m : wf m -> dec_payload (enc_payload m) = Ok (norm m).
Proof.
  intros ((Hcid & Lcid) & (Hh & Lh) & (Hn & Ln) & Hthr & Htot & Hexp & (Hsh & Lsh) & (Hme & Lme & Hasc) &
          (Hhi & Lhi) & Hbits & (Hadv & Ladv) & Hatt & (Hfb & Lfb)).
  pose proof (zlen_nonneg (mf_shards m)). pose proof (zlen_nonneg (mf_meta m)).
  pose proof (zlen_nonneg (mf_hints m)). pose proof (zlen_nonneg (mf_fallbacks m)).
  pose proof (zlen_nonneg (mf_advisory m)).
  pose proof (quot_billion_range _ Hexp) as Hq.
  unfold enc_payload, dec_payload.
  rewrite !Z.mod_small by lia.
  set (tail1 := flat_map enc_shard (mf_shards m) ++ _).
  (* initial size check *)
  tif.
  2:{ zl. change (zlen (be64u _)) with 8. rewrite Lcid, Lh, Ln. pose proof (zlen_nonneg tail1). lia. }
  cbn [app take1 bind].
  tif. 2:{ rewrite Z.eqb_refl. rewrite !orb_true_r. reflexivity. }
  rewrite take_app by assumption. cbn [bind].
  rewrite take_app by assumption. cbn [bind].
  rewrite take_app by assumption. cbn [bind].
  rewrite take_app by reflexivity. cbn [bind]. cbv zeta.
  unfold be64u. rewrite u64_of8_be64 by (apply Z.mod_pos_bound; lia).
  rewrite to_int64_mod by lia.
  tif. 2:{ unfold max_expiry_seconds, min_expiry_seconds, billion. cbn [Z.quot]. unfold billion in Hq.
           change (Z.quot 9223372036854775807 1000000000) with 9223372036.
           change (Z.quot (-9223372036854775808) 1000000000) with (-9223372036). lia. }
  replace (no_overflow64 _) with (Ok tt)
    by (unfold no_overflow64, billion in *; destruct (_ && _) eqn:E; [reflexivity | lia]).
  cbn [take1 bind].
  unfold tail1.
  tif. 2:{ zl. rewrite (shards_len _ Hsh). slen. }
  replace (Z.to_nat (zlen (mf_shards m))) with (length (mf_shards m)) by (unfold zlen; lia).
  rewrite (repeat_p_map p_shard enc_shard (fun s => s) shard_ok p_shard_enc _ _ Hsh). cbn [bind].
  rewrite map_id.
  change (manifest_version =? 1) with false. cbv iota.
  tif. 2:{ slen. }
  cbn [app take1 bind].
  replace (Z.to_nat (zlen (mf_meta m))) with (length (mf_meta m)) by (unfold zlen; lia).
  rewrite (repeat_p_map p_meta enc_meta (fun s => s) meta_ok p_meta_enc _ _ Hme). cbn [bind].
  rewrite map_id. rewrite (fold_emplace (mf_meta m) [] Hasc). cbn [app].
  change (manifest_version =? 2) with false. cbv iota.
  tif. 2:{ slen. }
  cbn [take1 bind].
  replace (Z.to_nat (zlen (mf_hints m))) with (length (mf_hints m)) by (unfold zlen; lia).
  change (4 <=? manifest_version) with true.
  rewrite (repeat_p_map (p_hint true) enc_hint norm_hint hint_ok p_hint_enc _ _ Hhi). cbn [bind].
  tif. 2:{ slen. }
  cbn [app take1 bind].
  tif. 2:{ slen. }
  rewrite take_app by reflexivity. cbn [bind]. cbv zeta. rewrite u16_be16 by lia.
  tif. 2:{ slen. }
  rewrite take_app by reflexivity. cbn [bind].
  pose proof (zlen_nonneg (flat_map enc_fallback (mf_fallbacks m))).
  destruct (mf_attest m) as [d|] eqn:Eatt.
  - destruct Hatt as [Hd Ld].
    tif. 2:{ slen. }
    cbn [app take1 bind]. change (negb (1 =? 0)) with true. cbv iota.
    tif. 2:{ slen. }
    rewrite take_app by assumption. cbn [bind].
    tif. 2:{ slen. }
    cbn [app take1 bind].
    replace (Z.to_nat (zlen (mf_fallbacks m))) with (length (mf_fallbacks m)) by (unfold zlen; lia).
    rewrite <- (app_nil_r (flat_map enc_fallback (mf_fallbacks m))).
    rewrite (repeat_p_map p_fallback enc_fallback (fun s => s) fallback_ok p_fallback_enc _ _ Hfb). cbn [bind].
    rewrite map_id. unfold norm. rewrite Eatt. reflexivity.
  - tif. 2:{ slen. }
    cbn [app take1 bind]. change (negb (0 =? 0)) with false. cbv iota. cbn [bind].
    tif. 2:{ slen. }
    cbn [app take1 bind].
    replace (Z.to_nat (zlen (mf_fallbacks m))) with (length (mf_fallbacks m)) by (unfold zlen; lia).
    rewrite <- (app_nil_r (flat_map enc_fallback (mf_fallbacks m))).
    rewrite (repeat_p_map p_fallback enc_fallback (fun s => s) fallback_ok p_fallback_enc _ _ Hfb). cbn [bind].
    rewrite map_id. unfold norm. rewrite Eatt. reflexivity.
Qed.

(* ---- the whole URI ---- *)
Lemma byte_mod v : byte_ok (v mod 256).
Proof. unfold byte_ok. apply Z.mod_pos_bound. lia. Qed.

Lemma be16_ok v : bytes_ok (be16 v).
Proof. unfold be16. repeat constructor; apply byte_mod. Qed.

Lemma bytes_ok_flat_map {A} (f : A -> list Z) (P : A -> Prop) xs :
  (forall x, P x -> bytes_ok (f x)) -> Forall P xs -> bytes_ok (flat_map f xs).
Proof.
  intros Hf. induction 1 as [|x xs Hx _ IH]; [constructor|].
  cbn [flat_map]. apply bytes_ok_app; [apply Hf; exact Hx | exact IH].
Qed.

Lemma bytes_ok_one v : byte_ok v -> bytes_ok [v].
Proof. intros H. constructor; [exact H | constructor]. Qed.

Ltac bok := repeat first [ assumption | apply be16_ok | apply be64_ok | apply be32_ok | apply bytes_ok_one; apply byte_mod | apply bytes_ok_app ].

Lemma enc_payload_ok m : wf m -> bytes_ok (enc_payload m).
Proof.
  intros ((Hcid & Lcid) & (Hh & Lh) & (Hn & Ln) & Hthr & Htot & Hexp & (Hsh & Lsh) & (Hme & Lme & Hasc) &
          (Hhi & Lhi) & Hbits & (Hadv & Ladv) & Hatt & (Hfb & Lfb)).
  unfold enc_payload, be64u.
  apply bytes_ok_app; [apply bytes_ok_one; unfold byte_ok; change manifest_version with 4; lia|].
  bok.
  - repeat constructor; apply byte_mod.
  - apply (bytes_ok_flat_map _ shard_ok); [|exact Hsh]. intros s (_ & Hv & _). unfold enc_shard. bok.
  - apply (bytes_ok_flat_map _ meta_ok); [|exact Hme]. intros e (Hk & Hv & _). unfold enc_meta. bok.
  - apply (bytes_ok_flat_map _ hint_ok); [|exact Hhi]. intros h (Hs & Ht & He & _). unfold enc_hint.
    assert (bytes_ok (eff_scheme h)) by (unfold eff_scheme; destruct (h_scheme h); assumption). bok.
  - destruct (mf_attest m) as [d|]; [destruct Hatt as [Hd _]; bok; apply bytes_ok_one; unfold byte_ok; lia |
                                     apply bytes_ok_one; unfold byte_ok; lia].
  - apply (bytes_ok_flat_map _ fallback_ok); [|exact Hfb]. intros f (Hu & _). unfold enc_fallback. bok.
Qed.

Lemma forallb_Forall {A} (P : A -> Prop) (f : A -> bool) xs :
  (forall x, P x -> f x = true) -> Forall P xs -> forallb f xs = true.
Proof. intros Hf. induction 1 as [|x xs Hx _ IH]; [reflexivity|]. cbn [forallb]. rewrite (Hf x Hx), IH. reflexivity. Qed.

Lemma wf_encode_checks m : wf m -> encode_checks m = true.
Proof.
  intros (_ & _ & _ & _ & _ & _ & (Hsh & Lsh) & (Hme & Lme & _) & (Hhi & Lhi) & _ & (_ & Ladv) & _ & (Hfb & Lfb)).
  unfold encode_checks. repeat (apply andb_true_iff; split); try lia.
  - apply (forallb_Forall meta_ok); [|exact Hme]. intros e (_ & _ & ? & ?). lia.
  - apply (forallb_Forall hint_ok); [|exact Hhi]. intros h (_ & _ & _ & _ & ? & ? & ?). lia.
  - apply (forallb_Forall fallback_ok); [|exact Hfb]. intros f (_ & ? & _). lia.
Qed.

Lemma prefix_scheme x : is_prefixb uri_scheme (uri_scheme ++ x) = true.
Proof. apply is_prefixb_spec. eauto. Qed.

(* C17, first half: what the encoder accepts decodes to the same manifest up to [norm] *)
Theorem encode_decode m : wf m ->
  exists uri, encode_manifest m = Ok uri /\ decode_manifest uri = Ok (norm m).
Proof.
  intros Hwf. unfold encode_manifest. rewrite (wf_encode_checks m Hwf).
  eexists. split; [reflexivity|].
  unfold decode_manifest. rewrite prefix_scheme. cbn [negb].
  change (skipn 6 (uri_scheme ++ ?x)) with x.
  rewrite b64_roundtrip by (apply enc_payload_ok; exact Hwf). cbn [bind].
  apply dec_enc_payload. exact Hwf.
Qed.

(* the C++ types alone (fixed-size arrays, uint8_t fields, std::string bytes, int64 clock, std::map order) *)
Definition typed (m : manifest) : Prop :=
  (bytes_ok (mf_chunk_id m) /\ zlen (mf_chunk_id m) = 32) /\
  (bytes_ok (mf_hash m) /\ zlen (mf_hash m) = 32) /\
  (bytes_ok (mf_nonce m) /\ zlen (mf_nonce m) = 12) /\
  0 <= mf_threshold m < 256 /\ 0 <= mf_total m < 256 /\
  -9223372036854775808 <= mf_expires_ns m < 9223372036854775808 /\
  Forall (fun s => 0 <= sh_index s < 256 /\ bytes_ok (sh_value s) /\ zlen (sh_value s) = 32) (mf_shards m) /\
  (Forall (fun e => bytes_ok (fst e) /\ bytes_ok (snd e)) (mf_meta m) /\ asc (mf_meta m)) /\
  Forall (fun h => bytes_ok (h_scheme h) /\ bytes_ok (h_transport h) /\ bytes_ok (h_endpoint h) /\ 0 <= h_priority h < 256) (mf_hints m) /\
  0 <= mf_token_bits m < 256 /\ bytes_ok (mf_advisory m) /\
  (match mf_attest m with Some d => bytes_ok d /\ zlen d = 32 | None => True end) /\
  Forall (fun f => bytes_ok (f_uri f) /\ 0 <= f_priority f < 256) (mf_fallbacks m).

Lemma Forall_forallb_and {A} (P Q : A -> Prop) (f : A -> bool) xs :
  (forall x, P x -> f x = true -> Q x) -> Forall P xs -> forallb f xs = true -> Forall Q xs.
Proof.
  intros Hf. induction 1 as [|x xs Hx _ IH]; intros Hb; [constructor|].
  cbn [forallb] in Hb. apply andb_true_iff in Hb. destruct Hb as [H1 H2]. constructor; [apply Hf; assumption | apply IH; exact H2].
Qed.

Lemma typed_checks_wf m : typed m -> encode_checks m = true -> wf m.
Proof.
  intros (Hcid & Hh & Hn & Hthr & Htot & Hexp & Hsh & (Hme & Hasc) & Hhi & Hbits & Hadv & Hatt & Hfb) Hc.
  unfold encode_checks in Hc.
  repeat (apply andb_true_iff in Hc; let H := fresh "C" in destruct Hc as [Hc H]).
  unfold wf. split; [exact Hcid|]. split; [exact Hh|]. split; [exact Hn|]. split; [exact Hthr|].
  split; [exact Htot|]. split; [exact Hexp|].
  split; [split; [exact Hsh | lia]|].
  split; [split; [|split; [lia | exact Hasc]]|].
  { eapply Forall_forallb_and; [|exact Hme|eassumption]. intros e (? & ?) Hb. unfold meta_ok. repeat split; try assumption; lia. }
  split; [split; [|lia]|].
  { eapply Forall_forallb_and; [|exact Hhi|eassumption]. intros h (? & ? & ? & ?) Hb. unfold hint_ok. repeat split; try assumption; lia. }
  split; [exact Hbits|]. split; [split; [exact Hadv | lia]|]. split; [exact Hatt|].
  split; [|lia].
  eapply Forall_forallb_and; [|exact Hfb|eassumption]. intros f (? & ?) Hb. unfold fallback_ok. repeat split; try assumption; lia.
Qed.

Theorem accepted_roundtrip m uri : typed m -> encode_manifest m = Ok uri -> decode_manifest uri = Ok (norm m).
Proof.
  intros Ht He. unfold encode_manifest in He. destruct (encode_checks m) eqn:Hc; [|discriminate].
  destruct (encode_decode m (typed_checks_wf m Ht Hc)) as (uri' & He' & Hd).
  unfold encode_manifest in He'. rewrite Hc in He'. congruence.
Qed.

(* C17, second half: a field the format cannot represent is refused, never truncated *)
Definition unrepresentable (m : manifest) : Prop :=
  255 < zlen (mf_shards m) \/ 255 < zlen (mf_meta m) \/ 255 < zlen (mf_hints m) \/ 255 < zlen (mf_fallbacks m) \/
  65535 < zlen (mf_advisory m) \/
  Exists (fun e => 255 < zlen (fst e) \/ 65535 < zlen (snd e)) (mf_meta m) \/
  Exists (fun h => 255 < zlen (eff_scheme h) \/ 255 < zlen (h_transport h) \/ 65535 < zlen (h_endpoint h)) (mf_hints m) \/
  Exists (fun f => 65535 < zlen (f_uri f)) (mf_fallbacks m).

Lemma forallb_Exists_false {A} (P : A -> Prop) (f : A -> bool) xs :
  (forall x, P x -> f x = false) -> Exists P xs -> forallb f xs = false.
Proof.
  intros Hf. induction 1 as [x xs Hx | x xs _ IH]; cbn [forallb].
  - rewrite (Hf x Hx). reflexivity.
  - rewrite IH. apply andb_false_r.
Qed.

Theorem unrepresentable_refused m : unrepresentable m -> encode_manifest m = Throw LengthError.
Proof.
  intros H. unfold encode_manifest.
  assert (Hc : encode_checks m = false); [|rewrite Hc; reflexivity].
  unfold encode_checks.
  destruct H as [H|[H|[H|[H|[H|[H|[H|H]]]]]]].
  - replace (zlen (mf_shards m) <=? 255) with false by lia. reflexivity.
  - replace (zlen (mf_meta m) <=? 255) with false by lia. rewrite ?andb_false_r. reflexivity.
  - replace (zlen (mf_hints m) <=? 255) with false by lia. rewrite ?andb_false_r. reflexivity.
  - replace (zlen (mf_fallbacks m) <=? 255) with false by lia. rewrite ?andb_false_r. reflexivity.
  - replace (zlen (mf_advisory m) <=? 65535) with false by lia. rewrite ?andb_false_r. reflexivity.
  - match goal with |- context [forallb ?f (mf_meta m)] => assert (E : forallb f (mf_meta m) = false) by (eapply forallb_Exists_false; [|exact H]; intros e He; cbv beta in *; lia); rewrite E end. rewrite ?andb_false_r. reflexivity.
  - match goal with |- context [forallb ?f (mf_hints m)] => assert (E : forallb f (mf_hints m) = false) by (eapply forallb_Exists_false; [|exact H]; intros e He; cbv beta in *; lia); rewrite E end. rewrite ?andb_false_r. reflexivity.
  - match goal with |- context [forallb ?f (mf_fallbacks m)] => assert (E : forallb f (mf_fallbacks m) = false) by (eapply forallb_Exists_false; [|exact H]; intros e He; cbv beta in *; lia); rewrite E end. rewrite ?andb_false_r. reflexivity.
Qed.

(* conversely the encoder refuses nothing else *)
Theorem refused_only_unrepresentable m : encode_manifest m = Throw LengthError \/ exists uri, encode_manifest m = Ok uri.
Proof. unfold encode_manifest. destruct (encode_checks m); eauto. Qed.

(* the model does flag the signed overflow C18 is about: outside int64 the conversion is UB *)
Lemma overflow_is_ub v : v < -9223372036854775808 \/ 9223372036854775807 < v -> no_overflow64 v = UB.
Proof. intros H. unfold no_overflow64. destruct (_ && _) eqn:E; [lia | reflexivity]. Qed.
