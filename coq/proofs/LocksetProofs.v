(* Proofs about model/LocksetModel.v (C36): the lock discipline excludes conflicting accesses in every schedule. *)
Require Import ZArith List Bool Lia Arith.
Import ListNotations.
Local Open Scope Z_scope.
From EphVerif Require Import lib.Bytes model.LocksetModel.

(* what a thread holds, read off its position *)
Definition holds_node (th : thread) : Prop := exists r, cur th = Some r /\ r_role r = 1 /\ 1 <= pc th <= 4.
Definition holds_sched (th : thread) : Prop := exists r, cur th = Some r /\ r_sched r = true /\ 2 <= pc th <= 3.

Record Inv (c : config) : Prop := mkInv {
  i_node : forall i, holds_node (thr c i) <-> node_owner c = Some i;
  i_sched : forall i, holds_sched (thr c i) <-> sched_owner c = Some i;
  i_pc : forall i, 0 <= pc (thr c i) <= 4
}.

Lemma start_inv programs : Inv (start programs).
Proof.
  split; cbn.
  - intros i. split; [intros [r [_ [_ H]]]; cbn in H; lia | discriminate].
  - intros i. split; [intros [r [_ [_ H]]]; cbn in H; lia | discriminate].
  - intros i. lia.
Qed.

Lemma upd_same f i th : upd f i th i = th. Proof. unfold upd. rewrite Nat.eqb_refl. reflexivity. Qed.
Lemma upd_other f i th j : j <> i -> upd f i th j = f j.
Proof. intros N. unfold upd. destruct (Nat.eqb j i) eqn:E; [apply Nat.eqb_eq in E; contradiction | reflexivity]. Qed.

Lemma step_inv c i c' : Inv c -> step c i = Some c' -> Inv c'.
Proof.
  intros [HN HS HP] St. unfold step in St.
  destruct (todo (thr c i)) as [|r rest] eqn:T; [discriminate|].
  assert (Cur : cur (thr c i) = Some r) by (unfold cur; rewrite T; reflexivity).
  pose proof (HP i) as Pi.
  (* facts about the other threads never change *)
  assert (Other : forall th j, j <> i -> (holds_node (upd (thr c) i th j) <-> holds_node (thr c j)) /\
                                          (holds_sched (upd (thr c) i th j) <-> holds_sched (thr c j)) /\
                                          pc (upd (thr c) i th j) = pc (thr c j)).
  { intros th j N. rewrite upd_other by exact N. tauto. }
  destruct (pc (thr c i) =? 0) eqn:P0.
  { (* take node_mutex, or nothing *)
    assert (Pc : pc (thr c i) = 0) by lia.
    assert (NoN : ~ holds_node (thr c i)) by (intros [r' [_ [_ H]]]; lia).
    assert (NoS : ~ holds_sched (thr c i)) by (intros [r' [_ [_ H]]]; lia).
    destruct (r_role r =? 1) eqn:R.
    - destruct (node_owner c) as [o|] eqn:O; [discriminate|]. inversion St; subst c'; clear St. split; cbn [thr node_owner sched_owner].
      + intros j. destruct (Nat.eq_dec j i) as [->|N].
        * rewrite upd_same. split; [reflexivity|]. intros _. exists r. cbn. split; [reflexivity | split; lia].
        * destruct (Other (mkThread (r :: rest) 1) j N) as [A _]. rewrite A, HN. split; [discriminate | intros H; inversion H; congruence].
      + intros j. destruct (Nat.eq_dec j i) as [->|N].
        * rewrite upd_same. split; [intros [r' [_ [_ H]]]; cbn in H; lia|]. intros H. apply HS in H. contradiction.
        * destruct (Other (mkThread (r :: rest) 1) j N) as [_ [A _]]. rewrite A. apply HS.
      + intros j. destruct (Nat.eq_dec j i) as [->|N]; [rewrite upd_same; cbn; lia | rewrite upd_other by exact N; apply HP].
    - inversion St; subst c'; clear St. split; cbn [thr node_owner sched_owner].
      + intros j. destruct (Nat.eq_dec j i) as [->|N].
        * rewrite upd_same. split.
          -- intros [r' [C' [Ro _]]]. cbn in C'. inversion C'; subst r'. lia.
          -- intros H. apply HN in H. contradiction.
        * destruct (Other (mkThread (r :: rest) 1) j N) as [A _]. rewrite A. apply HN.
      + intros j. destruct (Nat.eq_dec j i) as [->|N].
        * rewrite upd_same. split; [intros [r' [_ [_ H]]]; cbn in H; lia|]. intros H. apply HS in H. contradiction.
        * destruct (Other (mkThread (r :: rest) 1) j N) as [_ [A _]]. rewrite A. apply HS.
      + intros j. destruct (Nat.eq_dec j i) as [->|N]; [rewrite upd_same; cbn; lia | rewrite upd_other by exact N; apply HP]. }
  destruct (pc (thr c i) =? 1) eqn:P1.
  { assert (Pc : pc (thr c i) = 1) by lia.
    assert (NoS : ~ holds_sched (thr c i)) by (intros [r' [_ [_ H]]]; lia).
    assert (KeepN : forall p, 1 <= p <= 4 -> (holds_node (mkThread (r :: rest) p) <-> holds_node (thr c i))).
    { intros p Hp. split; intros [r' [C' [Ro _]]]; exists r'.
      - cbn in C'. split; [rewrite Cur; exact C' | split; [exact Ro | lia]].
      - rewrite Cur in C'. split; [cbn; exact C' | split; [exact Ro | cbn; lia]]. }
    destruct (r_sched r) eqn:Sc.
    - destruct (sched_owner c) as [o|] eqn:O; [discriminate|]. inversion St; subst c'; clear St. split; cbn [thr node_owner sched_owner].
      + intros j. destruct (Nat.eq_dec j i) as [->|N].
        * rewrite upd_same, KeepN by lia. apply HN.
        * destruct (Other (mkThread (r :: rest) 2) j N) as [A _]. rewrite A. apply HN.
      + intros j. destruct (Nat.eq_dec j i) as [->|N].
        * rewrite upd_same. split; [reflexivity|]. intros _. exists r. cbn. split; [reflexivity | split; [exact Sc | lia]].
        * destruct (Other (mkThread (r :: rest) 2) j N) as [_ [A _]]. rewrite A, HS. split; [discriminate | intros H; inversion H; congruence].
      + intros j. destruct (Nat.eq_dec j i) as [->|N]; [rewrite upd_same; cbn; lia | rewrite upd_other by exact N; apply HP].
    - inversion St; subst c'; clear St. split; cbn [thr node_owner sched_owner].
      + intros j. destruct (Nat.eq_dec j i) as [->|N].
        * rewrite upd_same, KeepN by lia. apply HN.
        * destruct (Other (mkThread (r :: rest) 2) j N) as [A _]. rewrite A. apply HN.
      + intros j. destruct (Nat.eq_dec j i) as [->|N].
        * rewrite upd_same. split.
          -- intros [r' [C' [S' _]]]. cbn in C'. inversion C'; subst r'. congruence.
          -- intros H. apply HS in H. contradiction.
        * destruct (Other (mkThread (r :: rest) 2) j N) as [_ [A _]]. rewrite A. apply HS.
      + intros j. destruct (Nat.eq_dec j i) as [->|N]; [rewrite upd_same; cbn; lia | rewrite upd_other by exact N; apply HP]. }
  (* pc 2, 3: the access, then giving scheduler_mutex_ back; pc 4: giving node_mutex back *)
  assert (KeepN : forall p, 1 <= pc (thr c i) <= 4 -> 1 <= p <= 4 -> (holds_node (mkThread (r :: rest) p) <-> holds_node (thr c i))).
  { intros p Hq Hp. split; intros [r' [C' [Ro _]]]; exists r'.
    - cbn in C'. split; [rewrite Cur; exact C' | split; [exact Ro | lia]].
    - rewrite Cur in C'. split; [cbn; exact C' | split; [exact Ro | cbn; lia]]. }
  destruct (pc (thr c i) =? 2) eqn:P2.
  { assert (Pc : pc (thr c i) = 2) by lia. inversion St; subst c'; clear St. split; cbn [thr node_owner sched_owner].
    - intros j. destruct (Nat.eq_dec j i) as [->|N]; [rewrite upd_same, KeepN by lia; apply HN|].
      destruct (Other (mkThread (r :: rest) 3) j N) as [A _]. rewrite A. apply HN.
    - intros j. destruct (Nat.eq_dec j i) as [->|N].
      + rewrite upd_same. rewrite <- HS. split; intros [r' [C' [S' _]]]; exists r'.
        * cbn in C'. split; [rewrite Cur; exact C' | split; [exact S' | lia]].
        * rewrite Cur in C'. split; [cbn; exact C' | split; [exact S' | cbn; lia]].
      + destruct (Other (mkThread (r :: rest) 3) j N) as [_ [A _]]. rewrite A. apply HS.
    - intros j. destruct (Nat.eq_dec j i) as [->|N]; [rewrite upd_same; cbn; lia | rewrite upd_other by exact N; apply HP]. }
  destruct (pc (thr c i) =? 3) eqn:P3.
  { assert (Pc : pc (thr c i) = 3) by lia. inversion St; subst c'; clear St. split; cbn [thr node_owner sched_owner].
    - intros j. destruct (Nat.eq_dec j i) as [->|N]; [rewrite upd_same, KeepN by lia; apply HN|].
      destruct (Other (mkThread (r :: rest) 4) j N) as [A _]. rewrite A. apply HN.
    - intros j. destruct (Nat.eq_dec j i) as [->|N].
      + rewrite upd_same. split; [intros [r' [_ [_ H]]]; cbn in H; lia|].
        destruct (r_sched r) eqn:Sc; [discriminate|]. intros H. apply HS in H. destruct H as [r' [C' [S' _]]].
        rewrite Cur in C'. inversion C'; subst r'. congruence.
      + destruct (Other (mkThread (r :: rest) 4) j N) as [_ [A _]]. rewrite A. destruct (r_sched r) eqn:Sc; [|apply HS].
        (* thread i held it: nobody else did *)
        assert (Hi : sched_owner c = Some i) by (apply HS; exists r; repeat split; try assumption; lia).
        rewrite HS, Hi. split; [intros H; inversion H; congruence | discriminate].
    - intros j. destruct (Nat.eq_dec j i) as [->|N]; [rewrite upd_same; cbn; lia | rewrite upd_other by exact N; apply HP]. }
  { assert (Pc : pc (thr c i) = 4) by lia. inversion St; subst c'; clear St. split; cbn [thr node_owner sched_owner].
    - intros j. destruct (Nat.eq_dec j i) as [->|N].
      + rewrite upd_same. split; [intros [r' [_ [_ H]]]; cbn in H; lia|].
        destruct (r_role r =? 1) eqn:R; [discriminate|]. intros H. apply HN in H. destruct H as [r' [C' [Ro _]]].
        rewrite Cur in C'. inversion C'; subst r'. lia.
      + destruct (Other (mkThread rest 0) j N) as [A _]. rewrite A. destruct (r_role r =? 1) eqn:R; [|apply HN].
        assert (Hi : node_owner c = Some i) by (apply HN; exists r; repeat split; try assumption; lia).
        rewrite HN, Hi. split; [intros H; inversion H; congruence | discriminate].
    - intros j. destruct (Nat.eq_dec j i) as [->|N].
      + rewrite upd_same. split; [intros [r' [_ [_ H]]]; cbn in H; lia|]. intros H. apply HS in H. destruct H as [r' [_ [_ H]]]. lia.
      + destruct (Other (mkThread rest 0) j N) as [_ [A _]]. rewrite A. apply HS.
    - intros j. destruct (Nat.eq_dec j i) as [->|N]; [rewrite upd_same; cbn; lia | rewrite upd_other by exact N; apply HP]. }
Qed.

Lemma exec_inv schedule : forall c, Inv c -> Inv (exec c schedule).
Proof.
  unfold exec. induction schedule as [|i r IH]; intros c H; cbn [fold_left]; [exact H|].
  apply IH. destruct (step c i) as [c'|] eqn:S; [eapply step_inv; eassumption | exact H].
Qed.

(* every access a thread still has to make is one of the table's, of the thread's kind *)
Definition from_table (t : list row) (c : config) : Prop := forall i r, In r (todo (thr c i)) -> In r t.
Lemma step_from_table t c i c' : from_table t c -> step c i = Some c' -> from_table t c'.
Proof.
  intros H St j r Hin. unfold step in St. destruct (todo (thr c i)) as [|r0 rest] eqn:T; [discriminate|].
  assert (Sub : forall th, (todo th = todo (thr c i) \/ todo th = rest) -> In r (todo (upd (thr c) i th j)) -> In r t).
  { intros th Hth Hin'. destruct (Nat.eq_dec j i) as [->|N].
    - rewrite upd_same in Hin'. apply (H i). rewrite T. destruct Hth as [E|E]; rewrite E in Hin'; [rewrite T in Hin'; exact Hin' | right; exact Hin'].
    - rewrite upd_other in Hin' by exact N. apply (H j). exact Hin'. }
  repeat match type of St with
         | (if ?b then _ else _) = Some _ => destruct b
         | match ?o with Some _ => _ | None => _ end = Some _ => destruct o
         end; try discriminate; inversion St; subst c'; cbn [thr] in Hin; (eapply Sub; [|exact Hin]); cbn; auto.
Qed.
Lemma exec_from_table t schedule : forall c, from_table t c -> from_table t (exec c schedule).
Proof.
  unfold exec. induction schedule as [|i r IH]; intros c H; cbn [fold_left]; [exact H|].
  apply IH. destruct (step c i) as [c'|] eqn:S; [eapply step_from_table; eassumption | exact H].
Qed.

(* THE THEOREM: a field that is not racy is never about to be accessed by two threads in conflict, in any schedule of any
   threads running any accesses of the table *)
Theorem protected_field_never_races t sync x programs schedule :
  racy_field t sync x = false -> memz x sync = false ->
  (forall r, In r t -> r_role r = 0 \/ r_role r = 1) ->
  (forall i r, In r (programs i) -> In r t) ->
  let c := exec (start programs) schedule in
  forall i j a b, i <> j -> at_access c i a -> at_access c j b -> r_field a = x -> conflict a b = true -> False.
Proof.
  intros Hr Hs Hroles Hp c i j a b Nij [Ca Pa] [Cb Pb] Fa Cf.
  pose proof (exec_inv schedule (start programs) (start_inv programs)) as I. fold c in I.
  assert (FT : from_table t c) by (apply exec_from_table; intros k r Hin; apply (Hp k); exact Hin).
  assert (Ta : In a t) by (apply (FT i); unfold cur in Ca; destruct (todo (thr c i)); [discriminate | inversion Ca; left; reflexivity]).
  assert (Tb : In b t) by (apply (FT j); unfold cur in Cb; destruct (todo (thr c j)); [discriminate | inversion Cb; left; reflexivity]).
  unfold racy_field in Hr. rewrite Hs in Hr. cbn [negb andb] in Hr.
  (* if either is a session thread's access, both must hold scheduler_mutex_ *)
  assert (Both : (r_role a = 0 \/ r_role b = 0) -> r_sched a = true /\ r_sched b = true).
  { intros [Ra|Rb].
    - destruct (r_sched a && r_sched b) eqn:E; [apply andb_true_iff in E; exact E|]. exfalso.
      assert (X : existsb (fun a0 => (r_role a0 =? 0) && (r_field a0 =? x) && existsb (fun b0 => unprotected a0 b0) t) t = true).
      { apply existsb_exists. exists a. split; [exact Ta|]. rewrite Ra, Fa, !Z.eqb_refl. cbn [andb].
        apply existsb_exists. exists b. split; [exact Tb|]. unfold unprotected. rewrite Cf, E. reflexivity. }
      congruence.
    - destruct (r_sched a && r_sched b) eqn:E; [apply andb_true_iff in E; exact E|]. exfalso.
      assert (Cf' : conflict b a = true).
      { unfold conflict in *. apply andb_true_iff in Cf. destruct Cf as [E1 E2]. rewrite Z.eqb_sym, E1, orb_comm, E2. reflexivity. }
      assert (Fb : r_field b = x) by (unfold conflict in Cf; lia).
      assert (X : existsb (fun a0 => (r_role a0 =? 0) && (r_field a0 =? x) && existsb (fun b0 => unprotected a0 b0) t) t = true).
      { apply existsb_exists. exists b. split; [exact Tb|]. rewrite Rb, Fb, !Z.eqb_refl. cbn [andb].
        apply existsb_exists. exists a. split; [exact Ta|]. unfold unprotected. rewrite Cf', (andb_comm (r_sched b) (r_sched a)), E. reflexivity. }
      congruence. }
  destruct (Z.eq_dec (r_role a) 0) as [Ra|Ra]; [|destruct (Z.eq_dec (r_role b) 0) as [Rb|Rb]].
  - destruct (Both (or_introl Ra)) as [Sa Sb].
    assert (Hi : sched_owner c = Some i) by (apply (i_sched _ I); exists a; repeat split; try assumption; lia).
    assert (Hj : sched_owner c = Some j) by (apply (i_sched _ I); exists b; repeat split; try assumption; lia).
    congruence.
  - destruct (Both (or_intror Rb)) as [Sa Sb].
    assert (Hi : sched_owner c = Some i) by (apply (i_sched _ I); exists a; repeat split; try assumption; lia).
    assert (Hj : sched_owner c = Some j) by (apply (i_sched _ I); exists b; repeat split; try assumption; lia).
    congruence.
  - (* both are control-thread accesses: node_mutex excludes them *)
    assert (Ra1 : r_role a = 1) by (destruct (Hroles a Ta); [contradiction | assumption]).
    assert (Rb1 : r_role b = 1) by (destruct (Hroles b Tb); [contradiction | assumption]).
    assert (Hi : node_owner c = Some i) by (apply (i_node _ I); exists a; repeat split; try assumption; lia).
    assert (Hj : node_owner c = Some j) by (apply (i_node _ I); exists b; repeat split; try assumption; lia).
    congruence.
Qed.
