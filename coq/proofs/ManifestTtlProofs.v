(* Proofs about model/ManifestTtlModel.v (C03). *)
Require Import ZArith List Bool Lia ZifyBool.
Import ListNotations.
Local Open Scope Z_scope.
From EphVerif Require Import lib.Bytes model.ManifestTtlModel gen.Constants_config.

Ltac Zify.zify_post_hook ::= Z.div_mod_to_equations.

(* what manifest_ttl returns: whole seconds, at least the minimum, at most the maximum, and never more than is left *)
Theorem manifest_ttl_sound E now mn mx t : mn <= mx -> manifest_ttl E now mn mx = Some t ->
  now < E /\ 1 <= t /\ mn <= t /\ t <= mx /\ t * ns <= E - now.
Proof.
  intros Hw. unfold manifest_ttl, enforce, ns. destruct (E <=? now) eqn:E1; [discriminate|].
  destruct ((E - now) / 1000000000 <=? 0) eqn:E2; [discriminate|].
  destruct ((E - now) / 1000000000 <? mn) eqn:E3; [discriminate|].
  destruct (mx <? (E - now) / 1000000000) eqn:E4.
  - destruct (mx <=? 0) eqn:E5; [discriminate|]. intros H. inversion H; subst. lia.
  - destruct ((E - now) / 1000000000 <=? 0) eqn:E5; [discriminate|]. intros H. inversion H; subst. lia.
Qed.

(* refusal: expired, less than a whole second left, or fewer whole seconds left than the minimum *)
Theorem manifest_ttl_refuses E now mn mx : 0 < mn <= mx ->
  (manifest_ttl E now mn mx = None <-> E <= now \/ (E - now) / ns < mn).
Proof.
  intros Hw. unfold manifest_ttl, enforce, ns. destruct (E <=? now) eqn:E1; [split; [left; lia | reflexivity]|].
  destruct ((E - now) / 1000000000 <=? 0) eqn:E2; [split; [right; lia | reflexivity]|].
  destruct ((E - now) / 1000000000 <? mn) eqn:E3; [split; [right; lia | reflexivity]|].
  destruct (mx <? (E - now) / 1000000000) eqn:E4.
  - destruct (mx <=? 0) eqn:E5; [lia|]. split; [discriminate | lia].
  - rewrite E2. split; [discriminate | lia].
Qed.

Lemma clamp_bounds a mn mx : 0 < mn <= mx -> mn <= clamp a mn mx <= mx.
Proof. intros H. unfold clamp. destruct (a <? mn) eqn:E1; destruct (mx <? _) eqn:E2; destruct (_ <=? 0) eqn:E3; lia. Qed.
Lemma clamp_below a mn mx t : 0 < mn <= mx -> mn <= t -> a <= t -> clamp a mn mx <= t.
Proof. intros H Ht Ha. unfold clamp. destruct (a <? mn) eqn:E1; destruct (mx <? _) eqn:E2; destruct (_ <=? 0) eqn:E3; lia. Qed.

(* every deadline a path creates *)
Definition deadlines (d : derived) : list Z :=
  (match d_shards d with Some x => [x] | None => [] end) ++ (match d_replica d with Some x => [x] | None => [] end)
  ++ (match d_contact d with Some x => [x] | None => [] end).

(* whatever a manifest makes a node create -- key-share record, replica and its announcement, the announcer's contact --
   expires no later than the manifest itself and no later than the maximum TTL from now, on every path *)
Theorem nothing_outlives_the_manifest E now mn mx adv path : 0 < mn <= mx ->
  let d := if path =? 0 then ingest E now mn mx else if path =? 1 then receive E now mn mx else announce E now mn mx adv in
  forall x, In x (deadlines d) -> x <= E /\ x <= now + mx * ns.
Proof.
  intros Hw. cbv zeta. unfold ingest, receive, announce.
  destruct (manifest_ttl E now mn mx) as [t|] eqn:M.
  - destruct (manifest_ttl_sound _ _ _ _ _ (proj2 Hw) M) as [H0 [H1 [H2 [H3 H4]]]].
    assert (Hns : ns = 1000000000) by reflexivity.
    assert (Ht : now + t * ns <= E /\ now + t * ns <= now + mx * ns) by (rewrite Hns in *; lia).
    destruct (path =? 0); [|destruct (path =? 1)]; unfold deadlines; cbn [d_shards d_replica d_contact app In].
    + intros x [Hx|[]]; subst x; exact Ht.
    + intros x [Hx|[Hx|[]]]; subst x; exact Ht.
    + set (a := clamp _ mn mx).
      assert (Ha : a <= t).
      { unfold a. apply clamp_below; [exact Hw | exact H2|]. destruct (0 <? adv); destruct (t <? _) eqn:Et; lia. }
      intros x [Hx|[Hx|[]]]; subst x; [exact Ht|]. rewrite Hns in *. lia.
  - destruct (path =? 0); [|destruct (path =? 1)]; unfold deadlines; cbn; intros x [].
Qed.

(* a manifest that is expired or too short-lived is refused on every path and nothing is created *)
Theorem refused_manifest_creates_nothing E now mn mx adv : 0 < mn <= mx -> E <= now \/ (E - now) / ns < mn ->
  ingest E now mn mx = nothing /\ receive E now mn mx = nothing /\ announce E now mn mx adv = nothing.
Proof.
  intros Hw H. apply (manifest_ttl_refuses E now mn mx Hw) in H. unfold ingest, receive, announce. rewrite H. auto.
Qed.

(* and an accepted one is given exactly its remaining whole seconds, capped at the maximum *)
Theorem accepted_lifetime E now mn mx : 0 < mn <= mx -> now < E -> mn <= (E - now) / ns ->
  manifest_ttl E now mn mx = Some (Z.min ((E - now) / ns) mx).
Proof.
  intros Hw H1 H2. unfold manifest_ttl, enforce, ns in *. destruct (E <=? now) eqn:E1; [lia|].
  destruct ((E - now) / 1000000000 <=? 0) eqn:E2; [lia|].
  destruct ((E - now) / 1000000000 <? mn) eqn:E3; [lia|].
  destruct (mx <? (E - now) / 1000000000) eqn:E4.
  - destruct (mx <=? 0) eqn:E5; [lia|]. f_equal. lia.
  - rewrite E2. f_equal. lia.
Qed.
