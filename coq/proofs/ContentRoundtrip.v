(* C11 with C10's reconstruction theorem: the round trip without the hypothesis that the shares reconstruct the key. *)
Require Import ZArith List Bool Lia.
Import ListNotations.
Local Open Scope Z_scope.
From EphVerif Require Import lib.Bytes model.Sha256Model model.ChaCha20Model model.ShamirModel model.ContentModel
  proofs.ShamirProofs proofs.ContentProofs proofs.ShamirReconstruct.

Theorem key_reconstructs id data key nonce t n rnd held m : store id data key nonce t n rnd = Val (held, m) ->
  eff_total t n <= 255 -> length key = 32%nat -> Forall byte_ok key -> Forall byte_ok rnd ->
  combine (m_shards m) (m_threshold m) = Val key.
Proof.
  intros H Hn Hl Bk Br. destruct (store_shape _ _ _ _ _ _ _ _ _ H) as [_ [_ [_ [_ [Ht [_ Hs]]]]]].
  rewrite Ht. apply (reconstruct_all key (eff_threshold t) (eff_total t n) rnd); try assumption. apply eff_bounds.
Qed.

Theorem fetch_roundtrip_full id data key nonce t n rnd held m : store id data key nonce t n rnd = Val (held, m) ->
  eff_total t n <= 255 -> length key = 32%nat -> Forall byte_ok key -> Forall byte_ok rnd ->
  fetch id held (m_nonce m) (m_shards m) (m_threshold m) = Val (Some data).
Proof. intros H Hn Hl Bk Br. eapply fetch_roundtrip; [exact H | exact Hn | eapply key_reconstructs; eassumption]. Qed.

Theorem receive_genuine_full id data key nonce t n rnd held m : store id data key nonce t n rnd = Val (held, m) ->
  eff_total t n <= 255 -> length key = 32%nat -> Forall byte_ok key -> Forall byte_ok rnd ->
  receive m held = Val (Some data).
Proof. intros H Hn Hl Bk Br. eapply receive_genuine; [exact H | exact Hn | eapply key_reconstructs; eassumption]. Qed.
