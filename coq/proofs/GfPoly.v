(* The field GF(2^8) of the Shamir model as a ring for the `ring` tactic (operations on normalised representatives, equality
   up to normalisation), polynomials over it, the factor theorem, "a polynomial with fewer coefficients than distinct roots is
   zero", and Lagrange interpolation.  Used by proofs/ShamirReconstruct.v (C10). *)
Require Import ZArith List Bool Lia Ring Setoid Morphisms.
Import ListNotations.
Local Open Scope Z_scope.
From EphVerif Require Import lib.Bytes model.ShamirModel proofs.ShamirProofs.

Definition nm (x : Z) : Z := x mod 256.
Definition fadd (a b : Z) : Z := gf_add (nm a) (nm b).
Definition fmul (a b : Z) : Z := gf_mul (nm a) (nm b).
Definition feq (a b : Z) : Prop := nm a = nm b.

Lemma nm_byte x : byte_ok (nm x).
Proof. unfold byte_ok, nm. pose proof (Z.mod_pos_bound x 256). lia. Qed.
Lemma nm_of_byte x : byte_ok x -> nm x = x.
Proof. unfold byte_ok, nm. intros H. apply Z.mod_small. lia. Qed.
Lemma nm_nm x : nm (nm x) = nm x.
Proof. apply nm_of_byte, nm_byte. Qed.

#[export] Instance feq_equiv : Equivalence feq.
Proof. split; unfold feq; [intros x; reflexivity | intros x y H; symmetry; exact H | intros x y z H1 H2; congruence]. Qed.
#[export] Instance fadd_proper : Proper (feq ==> feq ==> feq) fadd.
Proof. intros a a' Ha b b' Hb. unfold feq, fadd in *. rewrite Ha, Hb. reflexivity. Qed.
#[export] Instance fmul_proper : Proper (feq ==> feq ==> feq) fmul.
Proof. intros a a' Ha b b' Hb. unfold feq, fmul in *. rewrite Ha, Hb. reflexivity. Qed.
Definition fopp (x : Z) : Z := x.
#[export] Instance fopp_proper : Proper (feq ==> feq) fopp.
Proof. intros a a' Ha. exact Ha. Qed.

Lemma gf_ring_theory : ring_theory 0 1 fadd fmul fadd fopp feq.
Proof.
  assert (B : forall x, byte_ok (nm x)) by apply nm_byte.
  assert (AB : forall a b, byte_ok a -> byte_ok b -> byte_ok (gf_add a b)) by (intros; apply gf_add_byte; assumption).
  assert (MB : forall a b, byte_ok a -> byte_ok b -> byte_ok (gf_mul a b)) by (intros; apply gf_mul_byte; assumption).
  split; unfold feq, fadd, fmul, fopp; intros.
  - change (nm 0) with 0. rewrite gf_add_0_l. apply nm_nm.
  - rewrite gf_add_comm. reflexivity.
  - rewrite !(nm_of_byte (gf_add _ _)) by (repeat (first [apply B | apply AB | apply MB])). rewrite gf_add_assoc. reflexivity.
  - change (nm 1) with 1. rewrite gf_mul_1_l by apply B. apply nm_nm.
  - rewrite gf_mul_comm. reflexivity.
  - rewrite !(nm_of_byte (gf_mul _ _)) by (repeat (first [apply B | apply AB | apply MB])). rewrite gf_mul_assoc by apply B. reflexivity.
  - rewrite !(nm_of_byte (gf_add _ _)) by (repeat (first [apply B | apply AB | apply MB])). rewrite !(nm_of_byte (gf_mul _ _)) by (repeat (first [apply B | apply AB | apply MB])).
    rewrite gf_distr_r by apply B. reflexivity.
  - reflexivity.
  - rewrite gf_add_self. reflexivity.
Qed.

Lemma gf_ring_eqe : ring_eq_ext fadd fmul fopp feq.
Proof. split; [exact fadd_proper | exact fmul_proper | exact fopp_proper]. Qed.

Add Ring gf_ring : gf_ring_theory (setoid feq_equiv gf_ring_eqe).


Notation "a == b" := (feq a b) (at level 70, no associativity).

Lemma feq_bytes a b : byte_ok a -> byte_ok b -> a == b -> a = b.
Proof. unfold feq. intros Ha Hb H. rewrite !nm_of_byte in H by assumption. exact H. Qed.

(* characteristic 2: the `ring` tactic reasons in an arbitrary commutative ring, so x + x = 0 is used through these two lemmas
   (and through fopp, which is the identity: fadd x (fopp a) is convertible to fadd x a) *)
Lemma fadd_self a : fadd a a == 0.
Proof. unfold feq, fadd. rewrite gf_add_self. reflexivity. Qed.
Lemma fadd_cancel a b : fadd a b == 0 -> a == b.
Proof.
  intros H. assert (E : fadd (fadd a b) b == a).
  { transitivity (fadd a (fadd b b)); [ring|]. rewrite fadd_self. ring. }
  rewrite <- E, H. ring.
Qed.

Lemma fmul_zero a b : fmul a b == 0 -> a == 0 \/ b == 0.
Proof.
  unfold feq, fmul. change (nm 0) with 0. rewrite (nm_of_byte (gf_mul _ _)) by (apply gf_mul_byte; apply nm_byte).
  intros H. exact (gf_mul_eq_0 _ _ (nm_byte a) (nm_byte b) H).
Qed.

Definition finv (a : Z) : Z := gf_inv (nm a).
Lemma finv_spec a : ~ a == 0 -> fmul a (finv a) == 1.
Proof.
  unfold feq, fmul, finv. change (nm 0) with 0. change (nm 1) with 1. intros H.
  assert (N : nz (nm a)) by (pose proof (nm_byte a); unfold nz, byte_ok in *; lia).
  destruct (gf_inv_spec _ N) as [Ni E]. rewrite (nm_of_byte (gf_inv _)) by (unfold nz, byte_ok in *; lia). rewrite E. reflexivity.
Qed.

(* ---------- polynomials: coefficient lists, lowest degree first ---------- *)
Fixpoint eval (p : list Z) (x : Z) : Z := match p with [] => 0 | c :: r => fadd c (fmul x (eval r x)) end.

#[export] Instance eval_proper p : Proper (feq ==> feq) (eval p).
Proof. intros x y H. induction p as [|c r IH]; cbn [eval]; [reflexivity|]. rewrite IH, H. reflexivity. Qed.

(* division by (x + a): the factor theorem *)
Fixpoint quot (p : list Z) (a : Z) : list Z :=
  match p with
  | [] => []
  | c :: r => match r with [] => [] | _ => eval r a :: quot r a end
  end.
Lemma quot_spec p a x : eval p x == fadd (fmul (fadd x a) (eval (quot p a) x)) (eval p a).
Proof.
  induction p as [|c r IH]; [cbn [eval quot]; ring|].
  destruct r as [|d r'].
  - cbn [eval quot]. ring.
  - change (quot (c :: d :: r') a) with (eval (d :: r') a :: quot (d :: r') a).
    change (eval (c :: d :: r') x) with (fadd c (fmul x (eval (d :: r') x))).
    change (eval (c :: d :: r') a) with (fadd c (fmul a (eval (d :: r') a))).
    change (eval (eval (d :: r') a :: quot (d :: r') a) x) with (fadd (eval (d :: r') a) (fmul x (eval (quot (d :: r') a) x))).
    rewrite IH. change (fadd x a) with (fadd x (fopp a)). ring.
Qed.
Lemma quot_length p a : length (quot p a) = pred (length p).
Proof. induction p as [|c r IH]; [reflexivity|]. destruct r as [|d r']; [reflexivity|]. cbn [quot length pred] in *. rewrite IH. reflexivity. Qed.

Fixpoint distinct (l : list Z) : Prop :=
  match l with [] => True | a :: r => (forall b, In b r -> ~ a == b) /\ distinct r end.

(* a polynomial with fewer coefficients than distinct roots vanishes everywhere *)
Theorem roots_zero : forall roots p, (length p <= length roots)%nat -> distinct roots ->
  (forall r, In r roots -> eval p r == 0) -> forall x, eval p x == 0.
Proof.
  induction roots as [|a rs IH]; intros p Hl Hd Hr x.
  - destruct p; [reflexivity | cbn in Hl; lia].
  - destruct Hd as [Ha Hd].
    assert (Hq : forall z, eval (quot p a) z == 0).
    { apply IH; [rewrite quot_length; cbn [length] in Hl; lia | exact Hd|].
      intros r Hin. pose proof (Hr r (or_intror Hin)) as H0. rewrite (quot_spec p a r) in H0.
      rewrite (Hr a (or_introl eq_refl)) in H0.
      assert (H1 : fmul (fadd r a) (eval (quot p a) r) == 0) by (rewrite <- H0; ring).
      destruct (fmul_zero _ _ H1) as [H2|H2]; [|exact H2].
      exfalso. apply (Ha r Hin). symmetry. apply fadd_cancel. exact H2. }
    rewrite (quot_spec p a x), (Hq x), (Hr a (or_introl eq_refl)). ring.
Qed.

(* ---------- building polynomials ---------- *)
Definition addh (c : Z) (l : list Z) : list Z := match l with [] => [c] | d :: t => fadd c d :: t end.
Lemma eval_addh c l x : eval (addh c l) x == fadd c (eval l x).
Proof. destruct l as [|d t]; cbn -[feq fadd fmul finv]; ring. Qed.

(* (x + a) * p *)
Fixpoint mul_lin (p : list Z) (a : Z) : list Z :=
  match p with [] => [] | c :: r => fmul a c :: addh c (mul_lin r a) end.
Lemma eval_mul_lin p a x : eval (mul_lin p a) x == fmul (fadd x a) (eval p x).
Proof.
  induction p as [|c r IH]; [cbn -[feq fadd fmul finv]; ring|].
  change (eval (mul_lin (c :: r) a) x) with (fadd (fmul a c) (fmul x (eval (addh c (mul_lin r a)) x))).
  rewrite eval_addh, IH. cbn [eval]. ring.
Qed.
Lemma length_addh c l : length (addh c l) = Nat.max 1 (length l).
Proof. destruct l; cbn; lia. Qed.
Lemma length_mul_lin p a : p <> [] -> length (mul_lin p a) = S (length p).
Proof.
  induction p as [|c r IH]; [congruence|]. intros _. cbn [mul_lin length]. rewrite length_addh.
  destruct r as [|d r']; [reflexivity|]. rewrite IH by discriminate. cbn [length]. lia.
Qed.

Definition pscale (k : Z) (p : list Z) : list Z := map (fmul k) p.
Lemma eval_pscale k p x : eval (pscale k p) x == fmul k (eval p x).
Proof. induction p as [|c r IH]; cbn [pscale map eval]; [ring|]. fold (pscale k r). rewrite IH. ring. Qed.

Fixpoint padd (p q : list Z) : list Z :=
  match p, q with
  | [], _ => q
  | _, [] => p
  | a :: p', b :: q' => fadd a b :: padd p' q'
  end.
Lemma eval_padd p q x : eval (padd p q) x == fadd (eval p x) (eval q x).
Proof.
  revert q. induction p as [|a p' IH]; intros q; [cbn -[feq fadd fmul finv]; ring|]. destruct q as [|b q']; [cbn -[feq fadd fmul finv]; ring|].
  cbn [padd eval]. rewrite IH. ring.
Qed.
Lemma length_padd p q : length (padd p q) = Nat.max (length p) (length q).
Proof. revert q. induction p as [|a p' IH]; intros [|b q']; cbn [padd length]; try lia. rewrite IH. lia. Qed.

(* the product of (x + a) over a list of points *)
Definition prod_lin (others : list Z) : list Z := fold_right (fun a p => mul_lin p a) [1] others.
Lemma prod_lin_nonempty others : prod_lin others <> [].
Proof.
  induction others as [|a r IH]; cbn [prod_lin fold_right]; [discriminate|]. fold (prod_lin r).
  destruct (prod_lin r) as [|c t]; [congruence | discriminate].
Qed.
Lemma length_prod_lin others : length (prod_lin others) = S (length others).
Proof.
  induction others as [|a r IH]; [reflexivity|]. cbn [prod_lin fold_right length]. fold (prod_lin r).
  rewrite length_mul_lin by apply prod_lin_nonempty. rewrite IH. reflexivity.
Qed.
Fixpoint fprod (z : Z) (others : list Z) : Z := match others with [] => 1 | a :: r => fmul (fadd z a) (fprod z r) end.
Lemma eval_prod_lin others z : eval (prod_lin others) z == fprod z others.
Proof.
  induction others as [|a r IH]; [cbn -[feq fadd fmul finv]; ring|]. cbn [prod_lin fold_right fprod]. fold (prod_lin r).
  rewrite eval_mul_lin, IH. reflexivity.
Qed.
Lemma fprod_root z others : (exists a, In a others /\ z == a) -> fprod z others == 0.
Proof.
  induction others as [|b r IH]; intros [a [Hin Hz]]; [contradiction|]. cbn [fprod]. destruct Hin as [->|Hin].
  - assert (E : fadd z a == 0) by (rewrite Hz; apply fadd_self). rewrite E. ring.
  - rewrite IH by (exists a; split; assumption). ring.
Qed.
Lemma fprod_nonzero z others : (forall a, In a others -> ~ z == a) -> ~ fprod z others == 0.
Proof.
  induction others as [|b r IH]; intros H; cbn [fprod].
  - unfold feq, nm. cbn. discriminate.
  - intros E. destruct (fmul_zero _ _ E) as [E1|E1].
    + apply (H b (or_introl eq_refl)). apply fadd_cancel. exact E1.
    + apply IH; [intros a Ha; apply H; right; exact Ha | exact E1].
Qed.

(* ---------- Lagrange interpolation through the points (x_i, y_i), the points before the current one in `pre` ---------- *)
Definition term_weight (others : list Z) (xi yi : Z) : Z := fmul yi (finv (fprod xi others)).
Fixpoint lag (pre : list Z) (rest : list (Z * Z)) : list Z :=
  match rest with
  | [] => []
  | (xi, yi) :: r =>
      let others := pre ++ map fst r in
      padd (pscale (term_weight others xi yi) (prod_lin others)) (lag (pre ++ [xi]) r)
  end.

Lemma lag_length pre rest : (length (lag pre rest) <= length pre + length rest)%nat.
Proof.
  revert pre. induction rest as [|[xi yi] r IH]; intros pre; cbn [lag length]; [lia|].
  rewrite length_padd. unfold pscale. rewrite map_length, length_prod_lin, app_length, map_length.
  specialize (IH (pre ++ [xi])). rewrite app_length in IH. cbn [length] in IH. lia.
Qed.

(* at a point that has already been passed every remaining term vanishes *)
Lemma lag_at_passed pre rest z : (exists a, In a pre /\ z == a) -> eval (lag pre rest) z == 0.
Proof.
  revert pre. induction rest as [|[xi yi] r IH]; intros pre [a [Hin Hz]]; cbn [lag]; [reflexivity|].
  rewrite eval_padd, eval_pscale, eval_prod_lin.
  rewrite (fprod_root z (pre ++ map fst r)) by (exists a; split; [apply in_or_app; left; exact Hin | exact Hz]).
  rewrite IH by (exists a; split; [apply in_or_app; left; exact Hin | exact Hz]). ring.
Qed.

(* the interpolant takes the prescribed value at every one of its points *)
Lemma lag_at_point rest : forall pre xk yk, distinct (pre ++ map fst rest) -> In (xk, yk) rest -> eval (lag pre rest) xk == yk.
Proof.
  induction rest as [|[xi yi] r IH]; intros pre xk yk Hd Hin; [contradiction|].
  cbn [lag]. rewrite eval_padd, eval_pscale, eval_prod_lin.
  (* distinctness facts *)
  assert (Dsplit : forall l1 x l2, distinct (l1 ++ x :: l2) -> (forall a, In a (l1 ++ l2) -> ~ x == a) /\ distinct ((l1 ++ [x]) ++ l2)).
  { induction l1 as [|b l1 IHl]; intros x l2 D; cbn [app] in *.
    - destruct D as [D1 D2]. split; [exact D1 | split; assumption].
    - destruct D as [D1 D2]. destruct (IHl x l2 D2) as [E1 E2]. split.
      + intros a [<-|Ha]; [intros E; apply (D1 x); [apply in_or_app; right; left; reflexivity | symmetry; exact E] | apply E1; exact Ha].
      + split; [|exact E2]. intros a Ha. apply D1. rewrite <- app_assoc in Ha. cbn [app] in Ha. exact Ha. }
  cbn [map fst] in Hd. destruct (Dsplit pre xi (map fst r) Hd) as [Hne Hd'].
  destruct Hin as [E|Hin].
  - inversion E; subst xi yi. clear E.
    rewrite (lag_at_passed (pre ++ [xk]) r xk) by (exists xk; split; [apply in_or_app; right; left; reflexivity | reflexivity]).
    unfold term_weight.
    assert (Nz : ~ fprod xk (pre ++ map fst r) == 0) by (apply fprod_nonzero; exact Hne).
    transitivity (fmul yk (fmul (fprod xk (pre ++ map fst r)) (finv (fprod xk (pre ++ map fst r))))); [ring|].
    rewrite (finv_spec _ Nz). ring.
  - (* xk is one of the later points: this term vanishes there *)
    rewrite (fprod_root xk (pre ++ map fst r)).
    2:{ exists xk. split; [apply in_or_app; right; apply in_map_iff; exists (xk, yk); split; [reflexivity | exact Hin] | reflexivity]. }
    rewrite (IH (pre ++ [xi]) xk yk Hd' Hin). ring.
Qed.

(* THE interpolation theorem: a polynomial with at most as many coefficients as there are (distinct) points is determined by
   its values there -- the interpolant through those values agrees with it everywhere *)
Theorem lagrange_unique pts p : (length p <= length pts)%nat -> distinct (map fst pts) ->
  (forall x y, In (x, y) pts -> y == eval p x) -> forall z, eval (lag [] pts) z == eval p z.
Proof.
  intros Hl Hd Hv z.
  assert (Q : forall w, eval (padd (lag [] pts) p) w == 0).
  { apply (roots_zero (map fst pts)).
    - rewrite length_padd, map_length. pose proof (lag_length [] pts). cbn [length] in *. lia.
    - exact Hd.
    - intros r Hin. apply in_map_iff in Hin. destruct Hin as [[x y] [E Hin]]. cbn [fst] in E. subst r.
      rewrite eval_padd, (lag_at_point pts [] x y Hd Hin), (Hv x y Hin). apply fadd_self. }
  apply fadd_cancel. rewrite <- eval_padd. apply Q.
Qed.

(* its value at 0, written out: the sum the C++ computes *)
Fixpoint lag0 (pre : list Z) (rest : list (Z * Z)) : Z :=
  match rest with
  | [] => 0
  | (xi, yi) :: r =>
      let others := pre ++ map fst r in
      fadd (fmul (term_weight others xi yi) (fprod 0 others)) (lag0 (pre ++ [xi]) r)
  end.
Lemma lag_at_zero pre rest : eval (lag pre rest) 0 == lag0 pre rest.
Proof.
  revert pre. induction rest as [|[xi yi] r IH]; intros pre; cbn [lag lag0]; [reflexivity|].
  rewrite eval_padd, eval_pscale, eval_prod_lin, IH. reflexivity.
Qed.
