(* Proofs about model/FetchModel.v (C24). *)
Require Import ZArith List Bool Lia ZifyBool.
Import ListNotations.
Local Open Scope Z_scope.
From EphVerif Require Import lib.Bytes model.FetchModel.

Lemma zlen_cons {A} (x : A) l : zlen (x :: l) = zlen l + 1.
Proof. unfold zlen. cbn [length]. lia. Qed.
Lemma zlen_nonneg {A} (l : list A) : 0 <= zlen l. Proof. unfold zlen. lia. Qed.

Definition b2z (b : bool) : Z := if b then 1 else 0.
Definition chunks (l : list fetch) : list Z := map f_chunk l.
(* is this fetch an outstanding request to peer p? *)
Definition fl (p : Z) (f : fetch) : bool := f_in_flight f && (f_peer f =? p).
Definition cnt (p : Z) (l : list fetch) : Z := zlen (filter (fl p) l).

Lemma cnt_nonneg p l : 0 <= cnt p l. Proof. apply zlen_nonneg. Qed.
Lemma cnt_cons p f l : cnt p (f :: l) = b2z (fl p f) + cnt p l.
Proof. unfold cnt. cbn [filter]. destruct (fl p f); cbn [b2z]; rewrite ?zlen_cons; lia. Qed.
Lemma cnt_app p l1 l2 : cnt p (l1 ++ l2) = cnt p l1 + cnt p l2.
Proof. induction l1 as [|f r IH]; cbn [app]; [unfold cnt at 2; cbn; unfold zlen; cbn; lia|]. rewrite !cnt_cons. lia. Qed.

(* ---------- the per-peer counters ---------- *)
Lemma cget_remove p q m : cget p (cremove q m) = if q =? p then 0 else cget p m.
Proof.
  induction m as [|[q' n] r IH]; cbn [cremove filter cget fst]; [destruct (q =? p); reflexivity|].
  fold (cremove q r). destruct (q' =? q) eqn:E; cbn [negb].
  - rewrite IH. destruct (q =? p) eqn:E2; [reflexivity|]. destruct (q' =? p) eqn:E3; [lia | reflexivity].
  - cbn [cget]. destruct (q' =? p) eqn:E3; [destruct (q =? p) eqn:E2; [lia | reflexivity] | exact IH].
Qed.
Lemma cget_set p q n m : cget p (cset q n m) = if q =? p then n else cget p m.
Proof. unfold cset. cbn [cget]. destruct (q =? p) eqn:E; [reflexivity|]. rewrite cget_remove, E. reflexivity. Qed.
Lemma cget_inc p q m : cget p (cinc q m) = cget p m + (if q =? p then 1 else 0).
Proof. unfold cinc. rewrite cget_set. destruct (q =? p) eqn:E; [assert (q = p) by lia; subst; lia | lia]. Qed.
Lemma cget_absent p m : existsb (fun e => fst e =? p) m = false -> cget p m = 0.
Proof.
  induction m as [|[q n] r IH]; cbn [existsb cget fst]; [reflexivity|]. intros H.
  apply orb_false_iff in H. destruct H as [H1 H2]. rewrite H1. apply IH. exact H2.
Qed.
(* one slot given back: exact when the peer holds at least one *)
Lemma cget_dec p q m : cget p (cdec q m) = if q =? p then (if cget q m <=? 1 then 0 else cget q m - 1) else cget p m.
Proof.
  unfold cdec. destruct (existsb (fun e => fst e =? q) m) eqn:E.
  - destruct (cget q m <=? 1) eqn:L.
    + rewrite cget_remove. destruct (q =? p); reflexivity.
    + rewrite cget_set. destruct (q =? p); reflexivity.
  - destruct (q =? p) eqn:E2; [|reflexivity]. assert (q = p) by lia. subst p.
    rewrite (cget_absent q m E). reflexivity.
Qed.

(* ---------- the fetch table ---------- *)
Lemma ffind_some_in ch l f : ffind ch l = Some f -> In f l /\ f_chunk f = ch.
Proof.
  induction l as [|g r IH]; cbn [ffind]; [discriminate|]. destruct (f_chunk g =? ch) eqn:E.
  - intros H. inversion H; subst. split; [left; reflexivity | lia].
  - intros H. destruct (IH H) as [A B]. split; [right; exact A | exact B].
Qed.
Lemma ffind_none_notin ch l : ffind ch l = None <-> ~ In ch (chunks l).
Proof.
  induction l as [|g r IH]; cbn [ffind chunks map In]; [tauto|]. destruct (f_chunk g =? ch) eqn:E.
  - split; [discriminate | intros H; exfalso; apply H; left; lia].
  - rewrite IH. unfold chunks. split; [intros H [H1|H1]; [lia | contradiction] | tauto].
Qed.

Lemma chunks_fupdate f l : chunks (fupdate f l) = chunks l.
Proof.
  induction l as [|g r IH]; cbn [fupdate chunks map]; [reflexivity|]. destruct (f_chunk g =? f_chunk f) eqn:E.
  - cbn [map]. f_equal. lia.
  - cbn [map]. f_equal. exact IH.
Qed.

Lemma cnt_fupdate p f' l f : NoDup (chunks l) -> ffind (f_chunk f') l = Some f ->
  cnt p (fupdate f' l) = cnt p l - b2z (fl p f) + b2z (fl p f').
Proof.
  induction l as [|g r IH]; cbn [ffind fupdate chunks map]; intros Hd Hf; [discriminate|].
  inversion Hd as [|? ? Hn Hd']; subst. destruct (f_chunk g =? f_chunk f') eqn:E.
  - inversion Hf; subst. rewrite !cnt_cons. lia.
  - rewrite !cnt_cons. rewrite (IH Hd' Hf). lia.
Qed.

Lemma ffind_fupdate_same f' l f : ffind (f_chunk f') l = Some f -> ffind (f_chunk f') (fupdate f' l) = Some f'.
Proof.
  induction l as [|g r IH]; cbn [ffind fupdate]; [discriminate|]. destruct (f_chunk g =? f_chunk f') eqn:E.
  - intros _. cbn [ffind]. rewrite Z.eqb_refl. reflexivity.
  - intros H. cbn [ffind]. rewrite E. apply IH. exact H.
Qed.
Lemma ffind_fupdate_other f' l ch : ch <> f_chunk f' -> ffind ch (fupdate f' l) = ffind ch l.
Proof.
  intros Hne. induction l as [|g r IH]; cbn [ffind fupdate]; [reflexivity|]. destruct (f_chunk g =? f_chunk f') eqn:E.
  - cbn [ffind]. destruct (f_chunk f' =? ch) eqn:E1; [lia|]. destruct (f_chunk g =? ch) eqn:E2; [lia | reflexivity].
  - cbn [ffind]. destruct (f_chunk g =? ch); [reflexivity | exact IH].
Qed.

Lemma chunks_fremove_incl ch l x : In x (chunks (fremove ch l)) -> In x (chunks l).
Proof. unfold fremove, chunks. rewrite !in_map_iff. intros [f [E H]]. exists f. apply filter_In in H. tauto. Qed.
Lemma fremove_nodup ch l : NoDup (chunks l) -> NoDup (chunks (fremove ch l)).
Proof.
  induction l as [|g r IH]; cbn [fremove filter chunks map]; intros H; [constructor|].
  inversion H as [|? ? Hn Hd]; subst. fold (fremove ch r). destruct (negb (f_chunk g =? ch)); [|apply IH; exact Hd].
  cbn [map]. constructor; [|apply IH; exact Hd]. intros Hin. apply Hn. eapply chunks_fremove_incl. exact Hin.
Qed.
Lemma fremove_absent ch l : ffind ch l = None -> fremove ch l = l.
Proof.
  induction l as [|g r IH]; cbn [ffind fremove filter]; intros H; [reflexivity|].
  destruct (f_chunk g =? ch) eqn:E; [discriminate|]. cbn [negb]. f_equal. apply IH. exact H.
Qed.
Lemma cnt_fremove p ch l f : NoDup (chunks l) -> ffind ch l = Some f -> cnt p (fremove ch l) = cnt p l - b2z (fl p f).
Proof.
  induction l as [|g r IH]; cbn [ffind fremove filter chunks map]; intros Hd Hf; [discriminate|].
  inversion Hd as [|? ? Hn Hd']; subst. fold (fremove ch r). destruct (f_chunk g =? ch) eqn:E; cbn [negb].
  - inversion Hf; subst g. assert (Ec : ch = f_chunk f) by lia. subst ch.
    assert (Ha : ffind (f_chunk f) r = None) by (apply ffind_none_notin; exact Hn).
    rewrite (fremove_absent _ _ Ha). rewrite cnt_cons. lia.
  - rewrite !cnt_cons. rewrite (IH Hd' Hf). lia.
Qed.
Lemma ffind_fremove_same ch l : ffind ch (fremove ch l) = None.
Proof.
  apply ffind_none_notin. unfold fremove, chunks. rewrite in_map_iff. intros [f [E H]].
  apply filter_In in H. destruct H as [_ H]. lia.
Qed.
Lemma ffind_fremove_other ch ch' l : ch <> ch' -> ffind ch' (fremove ch l) = ffind ch' l.
Proof.
  intros Hne. induction l as [|g r IH]; cbn [fremove filter ffind]; [reflexivity|]. fold (fremove ch r).
  destruct (f_chunk g =? ch) eqn:E; cbn [negb].
  - destruct (f_chunk g =? ch') eqn:E2; [lia | exact IH].
  - cbn [ffind]. destruct (f_chunk g =? ch'); [reflexivity | exact IH].
Qed.

(* an in-flight fetch in the table is counted for its peer *)
Lemma cnt_at_least_one p l f : In f l -> fl p f = true -> 1 <= cnt p l.
Proof.
  induction l as [|g r IH]; cbn [In]; [contradiction|]. intros [H|H] Hf; rewrite cnt_cons.
  - subst g. rewrite Hf. cbn [b2z]. pose proof (cnt_nonneg p r). lia.
  - specialize (IH H Hf). destruct (fl p g); cbn [b2z]; lia.
Qed.

(* ---------- the invariant ---------- *)
Definition Agree (s : st) : Prop := forall p, cget p (counters s) = cnt p (fetches s).
Definition Lim (c : cfg) (s : st) : Prop := 0 < max_parallel c -> forall p, cget p (counters s) <= max_parallel c.
Definition Inv (c : cfg) (s : st) : Prop := NoDup (chunks (fetches s)) /\ Agree s /\ Lim c s.

Lemma Inv_init c : Inv c init.
Proof. split; [constructor|]. split; [intros p; reflexivity | intros H p; cbn; lia]. Qed.

(* releasing the slot of an in-flight fetch f (it stays in the table as f', not in flight) *)
Lemma release_inv c s f f' : Inv c s -> ffind (f_chunk f) (fetches s) = Some f -> f_in_flight f = true ->
  f_chunk f' = f_chunk f -> f_in_flight f' = false ->
  Inv c (mkSt (fupdate f' (fetches s)) (cdec (f_peer f) (counters s)) (held s) (offline s)).
Proof.
  intros [Hd [Ha Hl]] Hf Hin Hc Hn. rewrite <- Hc in Hf.
  split; [cbn [fetches]; rewrite chunks_fupdate; exact Hd|]. split.
  - intros p. cbn [counters fetches]. rewrite (cnt_fupdate p f' (fetches s) f Hd Hf), cget_dec.
    unfold fl at 2. rewrite Hn. cbn [andb b2z].
    destruct (ffind_some_in _ _ _ Hf) as [Hin' _].
    destruct (f_peer f =? p) eqn:E.
    + assert (f_peer f = p) by lia. subst p. rewrite Ha.
      assert (F : fl (f_peer f) f = true) by (unfold fl; rewrite Hin, Z.eqb_refl; reflexivity).
      pose proof (cnt_at_least_one (f_peer f) (fetches s) f Hin' F). rewrite F. cbn [b2z]. destruct (_ <=? 1) eqn:L; lia.
    + rewrite Ha. unfold fl. rewrite E, andb_false_r. cbn [b2z]. lia.
  - intros H p. cbn [counters]. rewrite cget_dec. specialize (Hl H). pose proof (Hl p). pose proof (Hl (f_peer f)).
    destruct (f_peer f =? p); [destruct (_ <=? 1); lia | lia].
Qed.

(* replacing a record that is not in flight by another one that is not in flight *)
Lemma idle_update_inv c s f f' : Inv c s -> ffind (f_chunk f) (fetches s) = Some f -> f_in_flight f = false ->
  f_chunk f' = f_chunk f -> f_in_flight f' = false ->
  Inv c (mkSt (fupdate f' (fetches s)) (counters s) (held s) (offline s)).
Proof.
  intros [Hd [Ha Hl]] Hf Hin Hc Hn. rewrite <- Hc in Hf.
  split; [cbn [fetches]; rewrite chunks_fupdate; exact Hd|]. split; [|exact Hl].
  intros p. cbn [counters fetches]. rewrite (cnt_fupdate p f' (fetches s) f Hd Hf). unfold fl. rewrite Hin, Hn. cbn. rewrite Ha. lia.
Qed.

(* sending a request for an idle fetch when the peer has a free slot *)
Lemma start_inv c s f f' : Inv c s -> ffind (f_chunk f) (fetches s) = Some f -> f_in_flight f = false ->
  f_chunk f' = f_chunk f -> f_peer f' = f_peer f -> f_in_flight f' = true -> can_dispatch c s (f_peer f) = true ->
  Inv c (mkSt (fupdate f' (fetches s)) (cinc (f_peer f) (counters s)) (held s) (offline s)).
Proof.
  intros [Hd [Ha Hl]] Hf Hin Hc Hp Hn Hcan. rewrite <- Hc in Hf.
  split; [cbn [fetches]; rewrite chunks_fupdate; exact Hd|]. split.
  - intros p. cbn [counters fetches]. rewrite (cnt_fupdate p f' (fetches s) f Hd Hf), cget_inc. unfold fl. rewrite Hin, Hn, Hp. cbn [andb b2z].
    rewrite Ha. destruct (f_peer f =? p); cbn [b2z]; lia.
  - intros H p. cbn [counters]. rewrite cget_inc. unfold can_dispatch in Hcan. specialize (Hl H p).
    destruct (f_peer f =? p) eqn:E; [assert (f_peer f = p) by lia; subst p; lia | lia].
Qed.

Lemma clear_inv c s ch : Inv c s -> Inv c (clear s ch).
Proof.
  intros H. unfold clear. destruct (ffind ch (fetches s)) as [f|] eqn:F; [|exact H].
  destruct H as [Hd [Ha Hl]]. split; [cbn [fetches]; apply fremove_nodup; exact Hd|]. split.
  - intros p. cbn [counters fetches]. rewrite (cnt_fremove p ch (fetches s) f Hd F).
    destruct (ffind_some_in _ _ _ F) as [Hin _].
    destruct (f_in_flight f) eqn:I.
    + rewrite cget_dec. destruct (f_peer f =? p) eqn:E.
      * assert (f_peer f = p) by lia. subst p. rewrite Ha.
        assert (Fl : fl (f_peer f) f = true) by (unfold fl; rewrite I, Z.eqb_refl; reflexivity).
        pose proof (cnt_at_least_one (f_peer f) (fetches s) f Hin Fl). rewrite Fl. cbn [b2z]. destruct (_ <=? 1) eqn:L; lia.
      * rewrite Ha. unfold fl. rewrite E, andb_false_r. cbn [b2z]. lia.
    + rewrite Ha. unfold fl. rewrite I. cbn. lia.
  - intros Hm p. cbn [counters]. specialize (Hl Hm). pose proof (Hl p). pose proof (Hl (f_peer f)).
    destruct (f_in_flight f); [|lia]. rewrite cget_dec. destruct (f_peer f =? p); [destruct (_ <=? 1); lia | lia].
Qed.
Lemma fold_clear_inv c l : forall s, Inv c s -> Inv c (fold_left clear l s).
Proof. induction l as [|x r IH]; cbn [fold_left]; intros s H; [exact H | apply IH, clear_inv, H]. Qed.

Lemma Inv_env c s h o : Inv c s -> Inv c (mkSt (fetches s) (counters s) h o).
Proof. intros H. exact H. Qed.

Lemma scan_inv c now todo : forall s completed ready inflight, Inv c s ->
  Inv c (fst (fst (fst (scan c now todo s completed ready inflight)))).
Proof.
  induction todo as [|ch r IH]; intros s completed ready inflight H; cbn [scan fst]; [exact H|].
  destruct (ffind ch (fetches s)) as [f|] eqn:F; [|apply IH; exact H].
  destruct (memz (f_chunk f) (held s)); [apply IH; exact H|].
  destruct (negb (f_expires f =? 0) && (f_expires f <=? now)); [apply IH; exact H|].
  destruct (f_next f) as [nx|]; [|apply IH; exact H].
  destruct (f_in_flight f) eqn:I.
  - destruct (nx <=? now); [|apply IH; exact H].
    assert (K : Inv c (mkSt (fupdate (mkFetch (f_chunk f) (f_peer f) (f_attempts f) (Some nx) false (f_expires f) (f_enqueued f)) (fetches s))
                           (cdec (f_peer f) (counters s)) (held s) (offline s))).
    { apply release_inv; try assumption; try reflexivity. destruct (ffind_some_in _ _ _ F) as [_ E]. rewrite E. exact F. }
    destruct (exhausted c f); apply IH; exact K.
  - destruct (now <? nx); apply IH; exact H.
Qed.

(* ---------- the ready queue holds distinct keys of fetches that are not in flight ---------- *)
Definition Idle (ready : list Z) (s : st) : Prop :=
  forall ch f, In ch ready -> ffind ch (fetches s) = Some f -> f_in_flight f = false.

Lemma NoDup_snoc {A} (l : list A) x : NoDup l -> ~ In x l -> NoDup (l ++ [x]).
Proof.
  induction l as [|y r IH]; cbn [app]; intros Hd Hn; [constructor; [intros [] | constructor]|].
  inversion Hd; subst. constructor.
  - intros Hin. apply in_app_or in Hin. destruct Hin as [Hin|[Hin|[]]]; [contradiction | subst; apply Hn; left; reflexivity].
  - apply IH; [assumption | intros Hin; apply Hn; right; exact Hin].
Qed.
Lemma NoDup_move {A} (l1 : list A) x l2 : NoDup (l1 ++ x :: l2) -> NoDup ((l1 ++ [x]) ++ l2).
Proof. intros H. rewrite <- app_assoc. exact H. Qed.
Lemma NoDup_drop {A} (l1 : list A) x l2 : NoDup (l1 ++ x :: l2) -> NoDup (l1 ++ l2).
Proof. apply NoDup_remove_1. Qed.
Lemma NoDup_head_notin {A} (l1 : list A) x l2 : NoDup (l1 ++ x :: l2) -> ~ In x l1.
Proof. intros H Hin. apply NoDup_remove_2 in H. apply H. apply in_or_app. left. exact Hin. Qed.

Lemma scan_ready c now todo : forall s completed ready inflight,
  NoDup (ready ++ todo) -> Idle ready s ->
  let '(s1, _, ready1, _) := scan c now todo s completed ready inflight in
  NoDup ready1 /\ Idle ready1 s1.
Proof.
  induction todo as [|ch r IH]; intros s completed ready inflight Hd Hi; cbn [scan].
  - rewrite app_nil_r in Hd. split; assumption.
  - pose proof (NoDup_drop ready ch r Hd) as Hdrop. pose proof (NoDup_move ready ch r Hd) as Hmove.
    pose proof (NoDup_head_notin ready ch r Hd) as Hnot.
    destruct (ffind ch (fetches s)) as [f|] eqn:F; [|apply IH; assumption].
    destruct (ffind_some_in _ _ _ F) as [_ Ech].
    assert (Hi' : forall f0, f_in_flight f0 = false -> ffind ch (fetches s) = Some f0 -> Idle (ready ++ [ch]) s).
    { intros f0 If0 F0 ch' g Hin Hg. apply in_app_or in Hin. destruct Hin as [Hin|[Hin|[]]]; [eapply Hi; eassumption|].
      subst ch'. rewrite F0 in Hg. inversion Hg; subst. exact If0. }
    destruct (memz (f_chunk f) (held s)); [apply IH; assumption|].
    destruct (negb (f_expires f =? 0) && (f_expires f <=? now)); [apply IH; assumption|].
    destruct (f_next f) as [nx|]; [|apply IH; assumption].
    destruct (f_in_flight f) eqn:I.
    + destruct (nx <=? now); [|apply IH; assumption].
      set (f' := mkFetch (f_chunk f) (f_peer f) (f_attempts f) (Some nx) false (f_expires f) (f_enqueued f)).
      set (s' := mkSt (fupdate f' (fetches s)) (cdec (f_peer f) (counters s)) (held s) (offline s)).
      assert (Hother : forall ch', ch' <> ch -> ffind ch' (fetches s') = ffind ch' (fetches s)).
      { intros ch' Hne. cbn [s' fetches]. apply ffind_fupdate_other. cbn [f' f_chunk]. rewrite Ech. exact Hne. }
      assert (Hsame : ffind ch (fetches s') = Some f').
      { cbn [s' fetches]. rewrite <- Ech. change (f_chunk f) with (f_chunk f') at 1. apply ffind_fupdate_same with (f := f).
        cbn [f' f_chunk]. rewrite Ech. exact F. }
      assert (Hidle : Idle ready s').
      { intros ch' g Hin Hg. assert (ch' <> ch) by (intros E; subst; contradiction). rewrite Hother in Hg by assumption. eapply Hi; eassumption. }
      destruct (exhausted c f).
      * apply IH; assumption.
      * rewrite Ech. apply IH; [exact Hmove|].
        intros ch' g Hin Hg. apply in_app_or in Hin. destruct Hin as [Hin|[Hin|[]]]; [eapply Hidle; eassumption|].
        subst ch'. rewrite Hsame in Hg. inversion Hg; subst. reflexivity.
    + destruct (now <? nx); [apply IH; assumption|]. rewrite Ech. apply IH; [exact Hmove | eapply Hi'; eassumption].
Qed.

(* the insertion sort of the ready queue only reorders it *)
Require Import Permutation.
Lemma insert_ready_perm now f l : Permutation (insert_ready now f l) (f :: l).
Proof.
  induction l as [|g r IH]; cbn [insert_ready]; [apply Permutation_refl|].
  destruct (before now g f); [|apply Permutation_refl].
  eapply Permutation_trans; [apply perm_skip, IH | apply perm_swap].
Qed.
Lemma sort_ready_perm now l : Permutation (sort_ready now l) l.
Proof.
  induction l as [|f r IH]; cbn [sort_ready fold_right]; [apply Permutation_refl|].
  eapply Permutation_trans; [apply insert_ready_perm | apply perm_skip, IH].
Qed.

Definition lookup (l : list fetch) (ch : Z) : list fetch := match ffind ch l with Some f => [f] | None => [] end.
Lemma lookup_chunks l ready : map f_chunk (flat_map (lookup l) ready) = filter (fun ch => match ffind ch l with Some _ => true | None => false end) ready.
Proof.
  induction ready as [|ch r IH]; cbn [flat_map filter map]; [reflexivity|].
  unfold lookup at 1. destruct (ffind ch l) as [f|] eqn:F; cbn [app map]; [|exact IH].
  destruct (ffind_some_in _ _ _ F) as [_ E]. rewrite E, IH. reflexivity.
Qed.

Lemma sorted_keys now l ready : NoDup ready ->
  let sorted := map f_chunk (sort_ready now (flat_map (lookup l) ready)) in
  NoDup sorted /\ (forall x, In x sorted -> In x ready).
Proof.
  intros Hd sorted.
  assert (P : Permutation sorted (filter (fun ch => match ffind ch l with Some _ => true | None => false end) ready)).
  { unfold sorted. rewrite <- lookup_chunks. apply Permutation_map, sort_ready_perm. }
  split.
  - eapply Permutation_NoDup; [apply Permutation_sym; exact P | apply NoDup_filter; exact Hd].
  - intros x Hx. eapply Permutation_in in Hx; [|exact P]. apply filter_In in Hx. tauto.
Qed.

Lemma dispatch_loop_inv c now ready : forall s inflight exh out, Inv c s -> NoDup ready -> Idle ready s ->
  Inv c (fst (fst (dispatch_loop c now ready s inflight exh out))).
Proof.
  induction ready as [|ch r IH]; intros s inflight exh out H Hd Hi; cbn [dispatch_loop fst]; [exact H|].
  inversion Hd as [|? ? Hn Hd']; subst.
  assert (Hi' : Idle r s) by (intros ch' g Hin Hg; eapply Hi; [right; exact Hin | exact Hg]).
  destruct (negb (max_parallel c =? 0) && (max_parallel c <=? inflight)); [exact H|].
  destruct (ffind ch (fetches s)) as [f|] eqn:F; [|apply IH; assumption].
  destruct (negb (can_dispatch c s (f_peer f))) eqn:D; [apply IH; assumption|].
  assert (Hcan : can_dispatch c s (f_peer f) = true) by (destruct (can_dispatch c s (f_peer f)); [reflexivity | discriminate]).
  destruct (ffind_some_in _ _ _ F) as [_ Ech].
  assert (F' : ffind (f_chunk f) (fetches s) = Some f) by (rewrite Ech; exact F).
  assert (I : f_in_flight f = false) by (eapply Hi; [left; reflexivity | exact F]).
  assert (Hrest : forall f', f_chunk f' = f_chunk f -> forall cs h o, Idle r (mkSt (fupdate f' (fetches s)) cs h o)).
  { intros f' Ec cs h o ch' g Hin Hg. cbn [fetches] in Hg. assert (ch' <> ch) by (intros E; subst; contradiction).
    rewrite ffind_fupdate_other in Hg by (rewrite Ec, Ech; assumption). eapply Hi'; eassumption. }
  destruct (negb (memz (f_peer f) (offline s))) eqn:Ok; apply IH; try assumption.
  - apply start_inv; try assumption; reflexivity.
  - apply Hrest. reflexivity.
  - apply idle_update_inv with (f := f); try assumption; reflexivity.
  - apply Hrest. reflexivity.
Qed.

Lemma process_inv c s now : Inv c s -> Inv c (fst (process c s now)).
Proof.
  intros H. unfold process. destruct (fetches s) as [|f0 r0] eqn:Efs; [exact H|]. rewrite <- Efs.
  pose proof (scan_inv c now (map f_chunk (fetches s)) s [] [] 0 H) as K1.
  pose proof (scan_ready c now (map f_chunk (fetches s)) s [] [] 0) as K2.
  destruct (scan c now (map f_chunk (fetches s)) s [] [] 0) as [[[s1 completed] ready] inflight]. cbn [fst] in K1.
  assert (K2' : NoDup ready /\ Idle ready s1).
  { apply K2; [cbn [app]; destruct H as [Hd _]; exact Hd | intros ch f [] ]. }
  destruct K2' as [Hnd Hidle].
  destruct ready as [|r1 rs] eqn:Er; [cbn [fst]; apply fold_clear_inv; exact K1|]. rewrite <- Er in *.
  change (fun ch : Z => match ffind ch (fetches s1) with Some f => [f] | None => [] end) with (lookup (fetches s1)).
  destruct (sorted_keys now (fetches s1) ready Hnd) as [Hsd Hsin].
  pose proof (dispatch_loop_inv c now (map f_chunk (sort_ready now (flat_map (lookup (fetches s1)) ready))) s1 inflight [] [] K1 Hsd) as K3.
  destruct (dispatch_loop c now _ s1 inflight [] []) as [[s2 exh] out]. cbn [fst] in *.
  apply fold_clear_inv. apply K3. intros ch f Hin Hf. eapply Hidle; [apply Hsin; exact Hin | exact Hf].
Qed.

Theorem step_inv c expires s now o : Inv c s -> Inv c (fst (fst (step c expires (s, now) o))).
Proof.
  intros H. destruct o as [ch p|ch|p| |dt]; cbn [step].
  - destruct (memz ch (held s)); [exact H|].
    match goal with |- context [process c ?S now] => assert (K : Inv c S) end.
    { destruct (ffind ch (fetches s)) as [f|] eqn:F.
      - destruct (ffind_some_in _ _ _ F) as [_ Ech].
        assert (F' : ffind (f_chunk f) (fetches s) = Some f) by (rewrite Ech; exact F).
        destruct (f_in_flight f) eqn:I.
        + apply release_inv with (f := f); try assumption; try reflexivity. cbn [f_chunk]. symmetry. exact Ech.
        + apply idle_update_inv with (f := f); try assumption; try reflexivity. cbn [f_chunk]. symmetry. exact Ech.
      - destruct H as [Hd [Ha Hl]]. split.
        + cbn [fetches]. unfold chunks. rewrite map_app. cbn [map f_chunk].
          apply NoDup_snoc; [exact Hd | apply ffind_none_notin; exact F].
        + split; [|exact Hl]. intros q. cbn [counters fetches]. rewrite cnt_app, cnt_cons. unfold fl at 1. cbn [f_in_flight andb b2z].
          unfold cnt at 2. cbn. rewrite Ha. unfold zlen. cbn. lia. }
    pose proof (process_inv c _ now K) as K'. destruct (process c _ now) as [s2 out]. exact K'.
  - exact H.
  - exact H.
  - pose proof (process_inv c s now H) as K. destruct (process c s now) as [s2 out]. exact K.
  - exact H.
Qed.

Theorem reachable_inv c expires ops : forall sn, Inv c (fst sn) -> Inv c (fst (run_ops c expires sn ops)).
Proof.
  unfold run_ops. induction ops as [|o r IH]; cbn [fold_left]; intros sn H; [exact H|].
  apply IH. destruct sn as [s now]. apply step_inv. exact H.
Qed.

(* ---------- consequences ---------- *)
(* a peer with no outstanding request has an in-flight count of zero *)
Theorem count_zero_when_idle c s p : Inv c s ->
  (forall f, In f (fetches s) -> f_peer f = p -> f_in_flight f = false) -> cget p (counters s) = 0.
Proof.
  intros [_ [Ha _]] H. rewrite Ha. unfold cnt.
  assert (E : filter (fl p) (fetches s) = []).
  { destruct (filter (fl p) (fetches s)) as [|f r] eqn:F; [reflexivity|]. exfalso.
    assert (Hin : In f (filter (fl p) (fetches s))) by (rewrite F; left; reflexivity).
    apply filter_In in Hin. destruct Hin as [Hin Hf]. unfold fl in Hf. apply andb_true_iff in Hf. destruct Hf as [Hf Hp].
    rewrite (H f Hin) in Hf by lia. discriminate. }
  rewrite E. reflexivity.
Qed.

(* the retry delay after a failed send: initial back-off, doubling with every attempt up to 2^8, capped by the maximum *)
Theorem backoff_value c k : 1 <= k ->
  backoff_s c k =
    let base := if initial_backoff_s c <=? 0 then 1 else initial_backoff_s c in
    let raw := base * 2 ^ (Z.min (k - 1) 8) in
    if (0 <? max_backoff_s c) && (max_backoff_s c <? raw) then max_backoff_s c else raw.
Proof.
  intros Hk. unfold backoff_s, pos_or_one. cbv zeta.
  assert (E1 : (0 <? k) = true) by lia. rewrite E1.
  assert (E2 : (if 8 <? k - 1 then 8 else k - 1) = Z.min (k - 1) 8) by (destruct (8 <? k - 1) eqn:E; lia). rewrite E2.
  set (base := if initial_backoff_s c <=? 0 then 1 else initial_backoff_s c).
  assert (Hb : 1 <= base) by (unfold base; destruct (initial_backoff_s c <=? 0) eqn:E; lia).
  assert (Hp : 1 <= 2 ^ Z.min (k - 1) 8) by (pose proof (Z.pow_pos_nonneg 2 (Z.min (k - 1) 8)); lia).
  assert (Hr : 1 <= base * 2 ^ Z.min (k - 1) 8) by nia.
  destruct ((0 <? max_backoff_s c) && (max_backoff_s c <? base * 2 ^ Z.min (k - 1) 8)) eqn:E.
  - destruct (max_backoff_s c <=? 0) eqn:E3; [lia | reflexivity].
  - destruct (base * 2 ^ Z.min (k - 1) 8 <=? 0) eqn:E3; [lia | reflexivity].
Qed.
Theorem backoff_first c : backoff_s c 1 = (let base := if initial_backoff_s c <=? 0 then 1 else initial_backoff_s c in
                                            if (0 <? max_backoff_s c) && (max_backoff_s c <? base) then max_backoff_s c else base).
Proof. rewrite backoff_value by lia. cbv zeta. change (Z.min (1 - 1) 8) with 0. rewrite Z.pow_0_r, Z.mul_1_r. reflexivity. Qed.
Theorem backoff_doubles c k : 1 <= k < 9 -> max_backoff_s c = 0 -> backoff_s c (k + 1) = 2 * backoff_s c k.
Proof.
  intros Hk Hm. rewrite !backoff_value by lia. cbv zeta. rewrite Hm.
  change (0 <? 0) with false. cbn [andb].
  replace (Z.min (k + 1 - 1) 8) with (Z.min (k - 1) 8 + 1) by lia. rewrite Z.pow_add_r by lia.
  change (2 ^ 1) with 2. ring.
Qed.
Theorem backoff_capped c k : 1 <= k -> 0 < max_backoff_s c -> backoff_s c k <= max_backoff_s c.
Proof. intros Hk Hm. rewrite backoff_value by exact Hk. cbv zeta. destruct (_ && _) eqn:E; lia. Qed.
(* a failed send that uses up the last allowed attempt ends the fetch (next_attempt = never), any other failure waits *)
Theorem failed_send_schedule c k now : next_attempt c k false now =
  if (0 <? attempt_limit c) && (attempt_limit c <=? k) then None else Some (now + backoff_s c k * ns).
Proof. reflexivity. Qed.

(* clearing removes the fetch, and only that one *)
Lemma clear_removes s ch : ffind ch (fetches (clear s ch)) = None.
Proof. unfold clear. destruct (ffind ch (fetches s)) eqn:F; [cbn [fetches]; apply ffind_fremove_same | exact F]. Qed.
Lemma clear_keeps_absent s ch ch' : ffind ch' (fetches s) = None -> ffind ch' (fetches (clear s ch)) = None.
Proof.
  intros H. unfold clear. destruct (ffind ch (fetches s)) eqn:F; [|exact H]. cbn [fetches].
  destruct (Z.eq_dec ch ch') as [E|E]; [subst; apply ffind_fremove_same | rewrite ffind_fremove_other by exact E; exact H].
Qed.
Lemma fold_clear_removes l : forall s ch, In ch l -> ffind ch (fetches (fold_left clear l s)) = None.
Proof.
  induction l as [|x r IH]; cbn [fold_left In]; intros s ch H; [contradiction|].
  destruct (in_dec Z.eq_dec ch r) as [Hin|Hnot]; [apply IH; exact Hin|].
  destruct H as [H|H]; [subst x | contradiction].
  clear IH Hnot. assert (P : forall l0 s0, ffind ch (fetches s0) = None -> ffind ch (fetches (fold_left clear l0 s0)) = None).
  { induction l0 as [|y l0 IHl]; cbn [fold_left]; intros s0 H0; [exact H0 | apply IHl, clear_keeps_absent, H0]. }
  apply P, clear_removes.
Qed.
