(* Proofs about model/PowModel.v (C19). *)
Require Import ZArith List Bool Lia ZifyBool.
Import ListNotations.
Local Open Scope Z_scope.
From EphVerif Require Import lib.Bytes lib.Sweep spec.Sha256Spec model.Sha256Model proofs.Sha256Proofs model.PowModel
  gen.Constants_pow.
Ltac Zify.zify_post_hook ::= Z.div_mod_to_equations.

(* ---- the specification: number of leading zero bits of a byte string ---- *)
Fixpoint clz (dg : list Z) : Z :=
  match dg with
  | [] => 0
  | b :: r => if b =? 0 then 8 + clz r else clz8 b
  end.

Lemma lead_loop_range n b : 0 <= lead_loop n b <= Z.of_nat n.
Proof.
  induction n as [|k IH]; cbn [lead_loop]; [lia|].
  destruct (Z.odd _); lia.
Qed.

Lemma clz_nonneg dg : 0 <= clz dg.
Proof.
  induction dg as [|b r IH]; cbn [clz]; [lia|].
  destruct (b =? 0); [lia|]. unfold clz8. pose proof (lead_loop_range 8 b). lia.
Qed.

Lemma clz_node_from_spec dg : forall t, clz_node_from t dg = t + clz dg.
Proof.
  induction dg as [|b r IH]; intros t; cbn [clz_node_from clz]; [lia|].
  destruct (b =? 0); [rewrite IH; lia | reflexivity].
Qed.

Lemma clz_store_from_spec dg : forall t, clz_store_from t dg = t + clz dg.
Proof.
  induction dg as [|b r IH]; intros t; cbn [clz_store_from clz]; [lia|].
  destruct (b =? 0); [rewrite IH; lia | reflexivity].
Qed.

Theorem counters_agree dg : clz_node dg = clz dg /\ clz_store dg = clz dg /\ clz_cli dg = clz dg.
Proof.
  unfold clz_node, clz_store, clz_cli. rewrite clz_node_from_spec, clz_store_from_spec. lia.
Qed.

(* ---- byte-level facts by exhaustive evaluation over the whole finite domain ---- *)
(* clz8 is the position of the highest set bit: clz8 b >= k  <->  b < 2^(8-k) *)
Definition clz8_value_check (b : Z) : bool :=
  forallb (fun k => Bool.eqb (k <=? clz8 b) (b <? 2 ^ (8 - k))) [0; 1; 2; 3; 4; 5; 6; 7; 8].
Lemma clz8_value_sweep : forallb clz8_value_check bytes256 = true.
Proof. vm_compute. reflexivity. Qed.

Lemma clz8_value b k : byte_ok b -> 0 <= k <= 8 -> (k <= clz8 b <-> b < 2 ^ (8 - k)).
Proof.
  intros Hb Hk. pose proof clz8_value_sweep as S. rewrite forallb_forall in S.
  specialize (S b (in_bytes256 b Hb)). unfold clz8_value_check in S. rewrite forallb_forall in S.
  assert (Hin : In k [0; 1; 2; 3; 4; 5; 6; 7; 8]) by (simpl; lia).
  specialize (S k Hin). apply Bool.eqb_prop in S.
  split; intros H.
  - apply Z.ltb_lt. rewrite <- S. apply Z.leb_le. exact H.
  - apply Z.leb_le. rewrite S. apply Z.ltb_lt. exact H.
Qed.

Lemma clz8_range b : byte_ok b -> 0 <= clz8 b <= 8.
Proof.
  intros Hb. split.
  - apply (proj2 (clz8_value b 0 Hb ltac:(lia))). unfold byte_ok in Hb. simpl. lia.
  - unfold clz8. pose proof (lead_loop_range 8 b). lia.
Qed.

Lemma clz8_nonzero b : byte_ok b -> b <> 0 -> clz8 b <= 7.
Proof.
  intros Hb Hnz. destruct (Z.le_gt_cases 8 (clz8 b)) as [H|H]; [|lia].
  apply (clz8_value b 8 Hb ltac:(lia)) in H. simpl in H. unfold byte_ok in Hb. lia.
Qed.

(* the mask test of digest_meets_difficulty on one byte *)
Definition mask_check (b : Z) : bool :=
  forallb (fun r => Bool.eqb (Z.land b ((255 * 2 ^ (8 - r)) mod 256) =? 0) (r <=? clz8 b)) [1; 2; 3; 4; 5; 6; 7].
Lemma mask_sweep : forallb mask_check bytes256 = true.
Proof. vm_compute. reflexivity. Qed.

Lemma mask_spec b r : byte_ok b -> 1 <= r <= 7 ->
  (Z.land b ((255 * 2 ^ (8 - r)) mod 256) =? 0) = (r <=? clz8 b).
Proof.
  intros Hb Hr. pose proof mask_sweep as S. rewrite forallb_forall in S.
  specialize (S b (in_bytes256 b Hb)). unfold mask_check in S. rewrite forallb_forall in S.
  assert (Hin : In r [1; 2; 3; 4; 5; 6; 7]) by (simpl; lia).
  specialize (S r Hin). apply Bool.eqb_prop in S. exact S.
Qed.

(* ---- digest_meets_difficulty = "at least d leading zero bits" ---- *)
Lemma meets_cons_ge8 b r d : 8 <= d ->
  meets_difficulty (b :: r) d = (b =? 0) && meets_difficulty r (d - 8).
Proof.
  intros Hd. unfold meets_difficulty.
  assert (E1 : (d =? 0) = false) by lia. rewrite E1.
  assert (Hf : d / 8 = (d - 8) / 8 + 1) by lia.
  assert (Hm : d mod 8 = (d - 8) mod 8) by lia.
  set (f := (d - 8) / 8) in *. set (m := (d - 8) mod 8) in *.
  assert (Hf0 : 0 <= f) by (subst f; lia).
  rewrite Hf, Hm. clearbody f m.
  replace (Z.to_nat (f + 1)) with (S (Z.to_nat f)) by lia.
  replace (zlen (b :: r)) with (zlen r + 1) by (unfold zlen; simpl length; lia).
  cbn [firstn forallb nth].
  replace (zlen r + 1 <? f + 1) with (zlen r <? f) by lia.
  replace (zlen r + 1 <=? f + 1) with (zlen r <=? f) by lia.
  destruct (b =? 0) eqn:Eb; cbn [andb negb].
  - destruct (d - 8 =? 0) eqn:E2; [|reflexivity].
    assert (f = 0) by lia. assert (m = 0) by lia. subst f m.
    change (Z.to_nat 0) with O. cbn [firstn forallb negb].
    pose proof (zlen_nonneg r).
    destruct (zlen r <? 0) eqn:E3; [lia|].
    match goal with |- context [?x =? 0] => assert (E5 : (x =? 0) = true) by lia; rewrite E5 end. reflexivity.
  - destruct (zlen r <? f); reflexivity.
Qed.

Theorem meets_iff dg : bytes_ok dg -> forall d, 0 <= d ->
  meets_difficulty dg d = (d <=? clz dg).
Proof.
  induction dg as [|b r IH]; intros Hok d Hd.
  - unfold meets_difficulty. simpl. destruct (d =? 0) eqn:E; [lia|].
    unfold zlen; simpl length.
    destruct (Z.of_nat 0 <? d / 8) eqn:E1; [lia|].
    assert (d / 8 = 0) by lia. rewrite H. simpl.
    destruct (d mod 8 =? 0) eqn:E2; [lia|]. simpl. lia.
  - inversion Hok as [|? ? Hb Hr]; subst.
    destruct (Z.lt_ge_cases d 8) as [Hlt|Hge].
    + (* the decision is taken on the first byte *)
      cbn [clz]. unfold meets_difficulty.
      destruct (d =? 0) eqn:E.
      { pose proof (clz_nonneg r). pose proof (clz8_range b Hb). destruct (b =? 0); lia. }
      assert (Hf : d / 8 = 0) by lia. assert (Hm : d mod 8 = d) by lia.
      rewrite Hf, Hm. change (Z.to_nat 0) with O. cbn [firstn forallb negb nth].
      pose proof (zlen_nonneg r).
      replace (zlen (b :: r)) with (zlen r + 1) by (unfold zlen; simpl length; lia).
      destruct (zlen r + 1 <? 0) eqn:E1; [lia|].
      rewrite E.
      destruct (zlen r + 1 <=? 0) eqn:E2; [lia|].
      rewrite mask_spec by (assumption || lia).
      destruct (b =? 0) eqn:Eb.
      * assert (b = 0) by lia. subst b. pose proof (clz_nonneg r).
        assert (clz8 0 = 8) by reflexivity. lia.
      * reflexivity.
    + rewrite meets_cons_ge8 by lia. rewrite IH by (assumption || lia). cbn [clz].
      destruct (b =? 0) eqn:Eb; cbn [andb].
      * lia.
      * assert (b <> 0) by lia. pose proof (clz8_nonzero b Hb H). lia.
Qed.

(* value form: at least d leading zero bits <-> the big-endian value is below 2^(8*len - d) *)
Lemma be_val_range l : bytes_ok l -> 0 <= be_val l < 256 ^ zlen l.
Proof.
  induction l as [|b r IH]; intros H; cbn [be_val].
  - unfold zlen; simpl. lia.
  - inversion H as [|? ? Hb Hr]; subst. specialize (IH Hr).
    replace (zlen (b :: r)) with (zlen r + 1) by (unfold zlen; simpl length; lia).
    pose proof (zlen_nonneg r). rewrite Z.pow_add_r by lia. unfold byte_ok in Hb. nia.
Qed.

Theorem clz_value dg : bytes_ok dg -> forall d, 0 <= d <= 8 * zlen dg ->
  (d <= clz dg <-> be_val dg < 2 ^ (8 * zlen dg - d)).
Proof.
  induction dg as [|b r IH]; intros Hok d Hd.
  - unfold zlen in *; simpl in *. assert (d = 0) by lia. subst. simpl. lia.
  - inversion Hok as [|? ? Hb Hr]; subst. cbn [clz be_val].
    replace (zlen (b :: r)) with (zlen r + 1) in * by (unfold zlen; simpl length; lia).
    pose proof (zlen_nonneg r) as Hn. pose proof (be_val_range r Hr) as Hv.
    assert (P256 : 256 ^ zlen r = 2 ^ (8 * zlen r)).
    { change 256 with (2 ^ 8). rewrite <- Z.pow_mul_r by lia. reflexivity. }
    destruct (b =? 0) eqn:Eb.
    + assert (b = 0) by lia. subst b.
      destruct (Z.le_gt_cases d 8) as [Hle|Hgt].
      * (* d <= 8: both sides true *)
        split; intros _; [|pose proof (clz_nonneg r); lia].
        assert (2 ^ (8 * zlen r) <= 2 ^ (8 * (zlen r + 1) - d)) by (apply Z.pow_le_mono_r; lia). lia.
      * specialize (IH Hr (d - 8) ltac:(lia)).
        replace (8 * (zlen r + 1) - d) with (8 * zlen r - (d - 8)) by lia. rewrite <- IH. lia.
    + assert (Hnz : b <> 0) by lia. pose proof (clz8_nonzero b Hb Hnz) as H7. pose proof (clz8_range b Hb) as H8.
      destruct (Z.le_gt_cases d 8) as [Hle|Hgt].
      * rewrite (clz8_value b d Hb ltac:(lia)).
        replace (8 * (zlen r + 1) - d) with ((8 - d) + 8 * zlen r) by lia.
        rewrite Z.pow_add_r by lia. rewrite <- P256.
        assert (0 < 2 ^ (8 - d)) by (apply Z.pow_pos_nonneg; lia).
        split; intros HH; nia.
      * split; intros HH; [lia|]. exfalso.
        assert (2 ^ (8 * (zlen r + 1) - d) <= 2 ^ (8 * zlen r)) by (apply Z.pow_le_mono_r; lia).
        unfold byte_ok in Hb. nia.
Qed.

(* ---- hashing: the update calls the C++ makes hash the concatenation of the chunks (C08) ---- *)
Lemma hash_updates_spec chunks : hash_updates chunks = Sha256Spec.hash (concat chunks).
Proof. unfold hash_updates. apply sha_streaming. Qed.

Lemma sha256_spec data : sha256 data = Sha256Spec.hash data.
Proof.
  unfold sha256. pose proof (sha_streaming [data]) as H. simpl in H. rewrite app_nil_r in H. exact H.
Qed.

Lemma digest_bytes_ok h : bytes_ok (digest_bytes h).
Proof.
  unfold digest_bytes. induction h as [|x h IH]; cbn [flat_map]; [constructor|].
  apply bytes_ok_app; [apply be32_ok | exact IH].
Qed.

Lemma hash_ok msg : bytes_ok (Sha256Spec.hash msg).
Proof. unfold Sha256Spec.hash. apply digest_bytes_ok. Qed.

Lemma hash_zlen msg : zlen (Sha256Spec.hash msg) = 32.
Proof. unfold zlen. rewrite hash_length. reflexivity. Qed.

(* "at least d leading zero bits" as a bound on the 256-bit big-endian value of the digest *)
Theorem work_value_form msg d : 0 <= d <= 256 ->
  (d <= clz (Sha256Spec.hash msg) <-> be_val (Sha256Spec.hash msg) < 2 ^ (256 - d)).
Proof.
  intros Hd. pose proof (clz_value (Sha256Spec.hash msg) (hash_ok msg) d) as H.
  rewrite hash_zlen in H. apply H. lia.
Qed.

(* ---- the byte strings that are hashed (flat form of the update calls) ---- *)
Definition handshake_preimage (i r : list Z) (pub nonce : Z) : list Z :=
  be64 (zlen i) ++ i ++ be64 (zlen r) ++ r ++ be64 pub ++ be64 nonce.
Definition announce_preimage (a : announce) (nonce : Z) : list Z :=
  be64 (zlen (a_chunk a)) ++ a_chunk a ++ be64 (zlen (a_peer a)) ++ a_peer a ++
  be64 (zlen (a_endpoint a)) ++ a_endpoint a ++ be64 (zlen (a_uri a)) ++ a_uri a ++
  be64 (zlen (a_shards a)) ++ a_shards a ++ be64 (a_ttl a) ++ be64 nonce.
Definition store_preimage (cid : list Z) (size : Z) (fname : list Z) (nonce : Z) : list Z :=
  cid ++ be64 size ++ be32 (Z.min (zlen fname) 4294967295) ++ fname ++ be64 nonce.

Lemma handshake_concat i r pub nonce : concat (handshake_chunks i r pub nonce) = handshake_preimage i r pub nonce.
Proof.
  unfold handshake_chunks, handshake_preimage, lp64. cbn [app concat].
  rewrite ?app_nil_r. reflexivity.
Qed.
Lemma announce_concat a nonce : concat (announce_chunks a nonce) = announce_preimage a nonce.
Proof.
  unfold announce_chunks, announce_preimage, lp64. cbn [app concat].
  rewrite ?app_nil_r. reflexivity.
Qed.
Lemma store_concat cid size fname nonce : concat (store_chunks cid size fname nonce) = store_preimage cid size fname nonce.
Proof.
  unfold store_chunks, store_preimage, lp32. cbn [app concat].
  rewrite ?app_nil_r. reflexivity.
Qed.

Lemma handshake_digest_spec i r pub nonce :
  handshake_pow_digest i r pub nonce = Sha256Spec.hash (handshake_preimage i r pub nonce).
Proof. unfold handshake_pow_digest. rewrite hash_updates_spec, handshake_concat. reflexivity. Qed.
Lemma announce_digest_spec a nonce : announce_pow_digest a nonce = Sha256Spec.hash (announce_preimage a nonce).
Proof. unfold announce_pow_digest. rewrite hash_updates_spec, announce_concat. reflexivity. Qed.
Lemma store_digest_spec cid size fname nonce :
  store_pow_digest cid size fname nonce = Sha256Spec.hash (store_preimage cid size fname nonce).
Proof. unfold store_pow_digest. rewrite hash_updates_spec, store_concat. reflexivity. Qed.
Lemma token_digest_spec cid chash ep nonce :
  token_digest cid chash ep nonce = Sha256Spec.hash (token_material cid chash ep nonce).
Proof. apply sha256_spec. Qed.

(* ---- validators: accepted exactly when the digest of the encoded fields has enough leading zero bits ---- *)
Theorem handshake_valid_iff i r pub nonce d :
  handshake_pow_valid i r pub nonce d = true <->
  d = 0 \/ d <= clz (Sha256Spec.hash (handshake_preimage i r pub nonce)).
Proof.
  unfold handshake_pow_valid. rewrite handshake_digest_spec.
  destruct (counters_agree (Sha256Spec.hash (handshake_preimage i r pub nonce))) as [-> _].
  destruct (d =? 0) eqn:E; lia.
Qed.

Theorem transport_valid_is_node_valid i r pub nonce d :
  transport_pow_valid i r pub nonce d = handshake_pow_valid i r pub nonce d.
Proof. unfold transport_pow_valid, handshake_pow_valid, clz_cli, clz_node. destruct (d =? 0); reflexivity. Qed.

Theorem announce_valid_iff a nonce d :
  announce_pow_valid a nonce d = true <-> d = 0 \/ d <= clz (Sha256Spec.hash (announce_preimage a nonce)).
Proof.
  unfold announce_pow_valid. rewrite announce_digest_spec.
  destruct (counters_agree (Sha256Spec.hash (announce_preimage a nonce))) as [-> _].
  destruct (d =? 0) eqn:E; lia.
Qed.

Theorem store_valid_iff cid size fname nonce d :
  store_pow_valid cid size fname nonce d = true <->
  d = 0 \/ Z.min d max_store_pow_difficulty <= clz (Sha256Spec.hash (store_preimage cid size fname nonce)).
Proof.
  unfold store_pow_valid, store_cap. rewrite store_digest_spec.
  destruct (counters_agree (Sha256Spec.hash (store_preimage cid size fname nonce))) as [_ [-> _]].
  destruct (d =? 0) eqn:E; [lia|].
  destruct (max_store_pow_difficulty <? d) eqn:E2; lia.
Qed.

Theorem token_valid_iff cid chash ep nonce d : 0 <= d ->
  token_valid cid chash ep nonce d = true <->
  d <= clz (Sha256Spec.hash (token_material cid chash ep nonce)).
Proof.
  intros Hd. unfold token_valid. rewrite token_digest_spec.
  rewrite meets_iff by (apply hash_ok || assumption). lia.
Qed.

(* ---- every field is bound: the encodings are injective ---- *)
Lemma app_inj_len {A} (a b x y : list A) : length a = length b -> a ++ x = b ++ y -> a = b /\ x = y.
Proof.
  revert b. induction a as [|h a IH]; intros [|h' b] Hl H; simpl in *; try discriminate.
  - split; [reflexivity | exact H].
  - injection H as -> H. injection Hl as Hl. destruct (IH b Hl H) as [-> ->]. split; reflexivity.
Qed.

Lemma be32_inj a b : 0 <= a < 4294967296 -> 0 <= b < 4294967296 -> be32 a = be32 b -> a = b.
Proof.
  intros Ha Hb H. unfold be32 in H. injection H as H1 H2 H3 H4. lia.
Qed.

Lemma be64_inj a b : 0 <= a < two64 -> 0 <= b < two64 -> be64 a = be64 b -> a = b.
Proof.
  unfold two64. intros Ha Hb H. unfold be64 in H.
  apply app_inj_len in H; [|reflexivity]. destruct H as [H1 H2].
  apply be32_inj in H1; [|lia|lia]. apply be32_inj in H2; [|lia|lia]. lia.
Qed.

Lemma be64_app_inj a b x y : 0 <= a < two64 -> 0 <= b < two64 -> be64 a ++ x = be64 b ++ y -> a = b /\ x = y.
Proof.
  intros Ha Hb H. apply app_inj_len in H; [|reflexivity]. destruct H as [H1 H2].
  split; [apply be64_inj; assumption | exact H2].
Qed.

Lemma lp64_inj (a b x y : list Z) : zlen a < two64 -> zlen b < two64 ->
  be64 (zlen a) ++ a ++ x = be64 (zlen b) ++ b ++ y -> a = b /\ x = y.
Proof.
  intros Ha Hb H. pose proof (zlen_nonneg a). pose proof (zlen_nonneg b).
  apply be64_app_inj in H; [|lia|lia]. destruct H as [Hl H].
  apply app_inj_len in H; [exact H | unfold zlen in Hl; lia].
Qed.

Theorem handshake_preimage_injective i r pub nonce i' r' pub' nonce' :
  zlen i < two64 -> zlen r < two64 -> zlen i' < two64 -> zlen r' < two64 ->
  0 <= pub < two64 -> 0 <= pub' < two64 -> 0 <= nonce < two64 -> 0 <= nonce' < two64 ->
  handshake_preimage i r pub nonce = handshake_preimage i' r' pub' nonce' ->
  i = i' /\ r = r' /\ pub = pub' /\ nonce = nonce'.
Proof.
  intros Hi Hr Hi' Hr' Hp Hp' Hn Hn' H. unfold handshake_preimage in H.
  apply lp64_inj in H; [|assumption|assumption]. destruct H as [-> H].
  apply lp64_inj in H; [|assumption|assumption]. destruct H as [-> H].
  apply be64_app_inj in H; [|assumption|assumption]. destruct H as [-> H].
  apply be64_inj in H; [|assumption|assumption]. subst. repeat split; reflexivity.
Qed.

Definition announce_wf (a : announce) : Prop :=
  zlen (a_chunk a) < two64 /\ zlen (a_peer a) < two64 /\ zlen (a_endpoint a) < two64 /\
  zlen (a_uri a) < two64 /\ zlen (a_shards a) < two64 /\ 0 <= a_ttl a < two64.

Theorem announce_preimage_injective a nonce a' nonce' :
  announce_wf a -> announce_wf a' -> 0 <= nonce < two64 -> 0 <= nonce' < two64 ->
  announce_preimage a nonce = announce_preimage a' nonce' -> a = a' /\ nonce = nonce'.
Proof.
  intros (A1 & A2 & A3 & A4 & A5 & A6) (B1 & B2 & B3 & B4 & B5 & B6) Hn Hn' H.
  destruct a as [c p e u s t], a' as [c' p' e' u' s' t']. unfold announce_preimage in H. cbn [a_chunk a_peer a_endpoint a_uri a_shards a_ttl] in *.
  apply lp64_inj in H; [|assumption|assumption]. destruct H as [-> H].
  apply lp64_inj in H; [|assumption|assumption]. destruct H as [-> H].
  apply lp64_inj in H; [|assumption|assumption]. destruct H as [-> H].
  apply lp64_inj in H; [|assumption|assumption]. destruct H as [-> H].
  apply lp64_inj in H; [|assumption|assumption]. destruct H as [-> H].
  apply be64_app_inj in H; [|assumption|assumption]. destruct H as [-> H].
  apply be64_inj in H; [|assumption|assumption]. subst. split; reflexivity.
Qed.

Theorem store_preimage_injective cid size fname nonce cid' size' fname' nonce' :
  length cid = 32%nat -> length cid' = 32%nat -> zlen fname < 4294967296 -> zlen fname' < 4294967296 ->
  0 <= size < two64 -> 0 <= size' < two64 -> 0 <= nonce < two64 -> 0 <= nonce' < two64 ->
  store_preimage cid size fname nonce = store_preimage cid' size' fname' nonce' ->
  cid = cid' /\ size = size' /\ fname = fname' /\ nonce = nonce'.
Proof.
  intros Hc Hc' Hf Hf' Hs Hs' Hn Hn' H. unfold store_preimage in H.
  apply app_inj_len in H; [|congruence]. destruct H as [-> H].
  apply be64_app_inj in H; [|assumption|assumption]. destruct H as [-> H].
  pose proof (zlen_nonneg fname). pose proof (zlen_nonneg fname').
  rewrite !Z.min_l in H by lia.
  apply app_inj_len in H; [|reflexivity]. destruct H as [Hl H].
  apply be32_inj in Hl; [|lia|lia].
  apply app_inj_len in H; [|unfold zlen in Hl; lia]. destruct H as [-> H].
  apply be64_inj in H; [|assumption|assumption]. subst. repeat split; reflexivity.
Qed.

Theorem token_material_injective cid chash ep nonce cid' chash' ep' nonce' :
  length cid = 32%nat -> length cid' = 32%nat -> length chash = 32%nat -> length chash' = 32%nat ->
  0 <= nonce < two64 -> 0 <= nonce' < two64 ->
  token_material cid chash ep nonce = token_material cid' chash' ep' nonce' ->
  cid = cid' /\ chash = chash' /\ ep = ep' /\ nonce = nonce'.
Proof.
  intros Hc Hc' Hh Hh' Hn Hn' H. unfold token_material in H.
  apply app_inj_len in H; [|congruence]. destruct H as [-> H].
  apply app_inj_len in H; [|congruence]. destruct H as [-> H].
  assert (Hl : length ep = length ep').
  { apply (f_equal (@length Z)) in H. rewrite !app_length, !be64_length in H. lia. }
  apply app_inj_len in H; [|exact Hl]. destruct H as [-> H].
  apply be64_inj in H; [|assumption|assumption]. subst. repeat split; reflexivity.
Qed.

(* ---- solvers: what they return is accepted, and it is the first acceptable candidate in their order ---- *)
Lemma first_from_spec fuel valid start : forall att c,
  first_from fuel valid start att = Some c ->
  valid c = true /\
  exists k, att <= k < att + Z.of_nat fuel /\ c = (start + k) mod two64 /\
            forall j, att <= j < k -> valid ((start + j) mod two64) = false.
Proof.
  induction fuel as [|f IH]; intros att c H; cbn [first_from] in H; [discriminate|].
  destruct (valid ((start + att) mod two64)) eqn:E.
  - injection H as <-. split; [exact E|]. exists att. split; [lia|]. split; [reflexivity|]. intros j Hj. lia.
  - apply IH in H. destruct H as [Hv [k [Hk [Hc Hmin]]]]. split; [exact Hv|].
    exists k. split; [lia|]. split; [exact Hc|]. intros j Hj.
    destruct (Z.eq_dec j att) as [->|Hne]; [exact E | apply Hmin; lia].
Qed.

Theorem handshake_solver_sound fuel i r pub d start n :
  compute_handshake_pow fuel i r pub d start = Some n -> handshake_pow_valid i r pub n d = true.
Proof.
  unfold compute_handshake_pow. destruct (d =? 0) eqn:E.
  - intros _. unfold handshake_pow_valid. rewrite E. reflexivity.
  - intros H. apply first_from_spec in H. apply H.
Qed.

Theorem transport_solver_sound fuel i r pub d start n :
  compute_transport_pow fuel i r pub d start = Some n -> handshake_pow_valid i r pub n d = true.
Proof.
  unfold compute_transport_pow. destruct (d =? 0) eqn:E.
  - intros _. unfold handshake_pow_valid. rewrite E. reflexivity.
  - intros H. apply first_from_spec in H. rewrite <- transport_valid_is_node_valid. apply H.
Qed.

Theorem announce_solver_sound fuel a d start n :
  compute_announce_pow fuel a d start = Some n -> announce_pow_valid a n d = true.
Proof.
  unfold compute_announce_pow. destruct (d =? 0) eqn:E.
  - intros _. unfold announce_pow_valid. rewrite E. reflexivity.
  - intros H. apply first_from_spec in H. apply H.
Qed.

Theorem store_solver_sound cid size fname d mx cands n :
  compute_store_pow cid size fname d mx cands = Some n -> store_pow_valid cid size fname n d = true.
Proof.
  unfold compute_store_pow. destruct (d =? 0) eqn:E.
  - intros _. unfold store_pow_valid. rewrite E. reflexivity.
  - intros H. apply find_some in H. apply H.
Qed.

Lemma token_search_spec fuel valid : forall att n,
  token_search fuel valid att = Some n ->
  valid n = true /\ att <= n < att + Z.of_nat fuel /\ forall j, att <= j < n -> valid j = false.
Proof.
  induction fuel as [|f IH]; intros att n H; cbn [token_search] in H; [discriminate|].
  destruct (valid att) eqn:E.
  - injection H as <-. split; [exact E|]. split; [lia|]. intros j Hj. lia.
  - apply IH in H. destruct H as [Hv [Hr Hmin]]. split; [exact Hv|]. split; [lia|].
    intros j Hj. destruct (Z.eq_dec j att) as [->|Hne]; [exact E | apply Hmin; lia].
Qed.

Theorem token_solver_sound cid chash ep d mx n :
  solve_token_challenge cid chash ep d mx = Some n ->
  token_valid cid chash ep n d = true /\ (d <> 0 -> 0 <= n < mx /\ forall j, 0 <= j < n -> token_valid cid chash ep j d = false).
Proof.
  unfold solve_token_challenge. destruct (d =? 0) eqn:E.
  - intros H. injection H as <-. split; [|lia]. unfold token_valid, meets_difficulty. rewrite E. reflexivity.
  - destruct ep as [|e0 ep]; [discriminate|]. destruct (mx =? 0) eqn:E2; [discriminate|].
    intros H. apply token_search_spec in H. destruct H as [Hv [Hr Hmin]].
    split; [exact Hv|]. intros _. split; [lia|]. intros j Hj. apply Hmin. lia.
Qed.
