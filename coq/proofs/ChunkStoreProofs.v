(* Proofs about model/ChunkStoreModel.v (C01): refinement of the store to "the latest put of each id, while live". *)
Require Import ZArith List Bool Lia ZifyBool.
Import ListNotations.
Local Open Scope Z_scope.
From EphVerif Require Import lib.Bytes model.ChunkStoreModel gen.Constants_config.

(* ---------------------------------------------------------------- association-list facts *)
Definition keys (s : store) : list Z := map fst s.

Lemma get_del_same k s : get k (del k s) = None.
Proof. induction s as [|[k' v] r IH]; cbn [del get]; [reflexivity|]. destruct (k' =? k) eqn:E; [exact IH|]. cbn [get]. rewrite E. exact IH. Qed.

Lemma get_del_other k k' s : k' <> k -> get k' (del k s) = get k' s.
Proof.
  intros Hne. induction s as [|[k0 v] r IH]; cbn [del get]; [reflexivity|].
  destruct (k0 =? k) eqn:E.
  - assert ((k0 =? k') = false) by lia. rewrite H. exact IH.
  - cbn [get]. destruct (k0 =? k'); [reflexivity | exact IH].
Qed.

Lemma in_keys_del k k' s : In k' (keys (del k s)) -> In k' (keys s) /\ k' <> k.
Proof.
  induction s as [|[k0 v] r IH]; cbn [del keys map]; [tauto|].
  destruct (k0 =? k) eqn:E.
  - intros H. apply IH in H. simpl. tauto.
  - cbn [map fst]. intros [H|H]; [subst; simpl; split; [tauto | lia] | apply IH in H; simpl; tauto].
Qed.

Lemma NoDup_del k s : NoDup (keys s) -> NoDup (keys (del k s)).
Proof.
  induction s as [|[k0 v] r IH]; cbn [del keys map]; intros H; [constructor|].
  inversion H as [|? ? Hn Hd]; subst. destruct (k0 =? k); [apply IH; exact Hd|].
  cbn [map fst]. constructor; [|apply IH; exact Hd]. intros Hin. apply in_keys_del in Hin. tauto.
Qed.

Lemma NoDup_set k v s : NoDup (keys s) -> NoDup (keys (set k v s)).
Proof.
  intros H. unfold set. cbn [keys map fst]. constructor; [|apply NoDup_del; exact H].
  intros Hin. apply in_keys_del in Hin. tauto.
Qed.

Lemma get_in k s r : get k s = Some r -> In k (keys s).
Proof.
  induction s as [|[k0 v] t IH]; cbn [get keys map fst]; [discriminate|].
  destruct (k0 =? k) eqn:E; [intros _; left; lia | intros H; right; apply IH; exact H].
Qed.

Lemma get_filter p k s : NoDup (keys s) ->
  get k (filter (fun e => p (snd e)) s) = match get k s with Some r => if p r then Some r else None | None => None end.
Proof.
  induction s as [|[k0 v] t IH]; intros Hn; cbn [filter get snd]; [reflexivity|].
  cbn [keys map fst] in Hn. inversion Hn as [|? ? Hk Hd]; subst.
  destruct (k0 =? k) eqn:E.
  - assert (k0 = k) by lia. subst k0. destruct (p v) eqn:Ep; cbn [get]; [rewrite Z.eqb_refl; reflexivity|].
    rewrite IH by exact Hd. destruct (get k t) as [r|] eqn:G; [|reflexivity].
    exfalso. apply Hk. eapply get_in. exact G.
  - destruct (p v); cbn [get]; [rewrite E|]; apply IH; exact Hd.
Qed.

Lemma NoDup_filter_keys (p : Z * rec -> bool) s : NoDup (keys s) -> NoDup (keys (filter p s)).
Proof.
  induction s as [|e t IH]; cbn [filter keys map]; intros H; [constructor|].
  inversion H as [|? ? Hk Hd]; subst. destruct (p e); cbn [map]; [|apply IH; exact Hd].
  constructor; [|apply IH; exact Hd]. intros Hin. apply Hk.
  unfold keys in *. apply in_map_iff in Hin. destruct Hin as [x [Hx Hin]]. apply filter_In in Hin.
  apply in_map_iff. exists x. tauto.
Qed.

Lemma get_In_pair k s r : NoDup (keys s) -> (get k s = Some r <-> In (k, r) s).
Proof.
  induction s as [|[k0 v] t IH]; intros Hn; cbn [get]; [split; [discriminate | intros []]|].
  cbn [keys map fst] in Hn. inversion Hn as [|? ? Hk Hd]; subst.
  destruct (k0 =? k) eqn:E.
  - assert (k0 = k) by lia. subst k0. split.
    + intros H. injection H as ->. left. reflexivity.
    + intros [H|H]; [injection H as ->; reflexivity|]. exfalso. apply Hk. unfold keys. apply in_map_iff. exists (k, r). split; [reflexivity | exact H].
  - rewrite IH by exact Hd. split; [intros H; right; exact H|]. intros [H|H]; [injection H as -> ->; lia | exact H].
Qed.

(* ---------------------------------------------------------------- the specification: a history of puts *)
Definition hist : Type := list (Z * rec).          (* newest first *)
Fixpoint latest (id : Z) (h : hist) : option rec :=
  match h with [] => None | (k, r) :: t => if k =? id then Some r else latest id t end.
Definition spec_lookup (h : hist) (t id : Z) : option rec :=
  match latest id h with Some r => if live t r then Some r else None | None => None end.

(* the record a put creates *)
Definition put_rec (node : bool) (st : state) (data : list Z) (ttl : Z) : rec :=
  let ttl' := if node then node_ttl st ttl else ttl in
  let effective := if 0 <? ttl' then ttl' else dflt st in
  {| r_data := data; r_exp := now st + Z.max effective store_minimum_ttl * ns |}.

Definition ghost (node : bool) (st : state) (h : hist) (o : op) : hist :=
  match o with Put id data ttl => (id, put_rec node st data ttl) :: h | _ => h end.

(* run model and history side by side *)
Fixpoint exec2 (node : bool) (st : state) (h : hist) (ops : list op) : state * hist :=
  match ops with
  | [] => (st, h)
  | o :: r => exec2 node (fst (step node st o)) (ghost node st h o) r
  end.

Definition R (st : state) (h : hist) : Prop :=
  NoDup (keys (recs st)) /\
  (forall id r, get id (recs st) = Some r -> latest id h = Some r) /\
  (forall id r, latest id h = Some r -> live (now st) r = true -> get id (recs st) = Some r).

Lemma R_init d mn mx ci : R (init d mn mx ci) [].
Proof. unfold R, init; cbn. split; [constructor|]. split; intros; discriminate. Qed.

Lemma R_put (node : bool) st h id data ttl : R st h ->
  R (if node then node_store st id data ttl else put st id data ttl) ((id, put_rec node st data ttl) :: h).
Proof.
  intros (N & A & B).
  assert (E : (if node then node_store st id data ttl else put st id data ttl) =
              with_recs st (set id (put_rec node st data ttl) (recs st))).
  { destruct node; unfold node_store, put, put_rec; reflexivity. }
  rewrite E. unfold R, with_recs; cbn [recs now]. split; [apply NoDup_set; exact N|]. split.
  - intros k r H. unfold set in H. cbn [get latest] in *. destruct (id =? k) eqn:Ek; [exact H|].
    rewrite get_del_other in H by lia. apply A. exact H.
  - intros k r H L. unfold set. cbn [get latest] in *. destruct (id =? k) eqn:Ek; [exact H|].
    rewrite get_del_other by lia. apply B; assumption.
Qed.

Lemma get_record_state st id : snd (get_record st id) = st.
Proof. unfold get_record. destruct (get id (recs st)) as [r|]; [destruct (live (now st) r)|]; reflexivity. Qed.
Lemma R_get_record st h id : R st h -> R (snd (get_record st id)) h.
Proof. intros H. rewrite get_record_state. exact H. Qed.

Lemma R_sweep st h : R st h -> R (snd (sweep st)) h.
Proof.
  intros (N & A & B). unfold sweep, R, with_recs; cbn [snd recs now].
  split; [apply NoDup_filter_keys; exact N|]. split.
  - intros k r H. rewrite (get_filter (live (now st)) k (recs st) N) in H.
    destruct (get k (recs st)) as [r0|] eqn:G; [|discriminate]. destruct (live (now st) r0); [|discriminate].
    injection H as <-. apply A. exact G.
  - intros k r H L. rewrite (get_filter (live (now st)) k (recs st) N). rewrite (B k r H L), L. reflexivity.
Qed.

Lemma R_advance st h d : R st h -> R (advance st d) h.
Proof.
  intros (N & A & B). unfold R, advance; cbn [recs now]. split; [exact N|]. split; [exact A|].
  intros k r H L. apply B; [exact H|]. unfold live in *. lia.
Qed.

Lemma R_tick st h : R st h -> R (snd (tick st)) h.
Proof.
  intros H. unfold tick. destruct (cleanup_interval st <=? now st - last_cleanup st); [|exact H].
  pose proof (R_sweep st h H) as S. destruct (sweep st) as [removed st'] eqn:E. cbn [snd] in *.
  destruct S as (N & A & B). unfold R; cbn [recs now]. split; [exact N | split; assumption].
Qed.

Lemma R_step node st h o : R st h -> R (fst (step node st o)) (ghost node st h o).
Proof.
  intros H. destruct o; cbn [step ghost].
  - cbn [fst]. apply R_put. exact H.
  - pose proof (R_get_record st h id H). destruct (get_record st id) as [r st']. exact H0.
  - pose proof (R_get_record st h id H). destruct (get_record st id) as [r st']. exact H0.
  - pose proof (R_get_record st h id H). destruct (get_record st id) as [r st']. exact H0.
  - destruct node.
    + pose proof (R_tick st h H). destruct (tick st) as [rm st']. exact H0.
    + pose proof (R_sweep st h H). destruct (sweep st) as [rm st']. exact H0.
  - exact H.
  - exact H.
  - cbn [fst]. apply R_advance. exact H.
Qed.

Theorem R_exec2 node ops : forall st h, R st h -> R (fst (exec2 node st h ops)) (snd (exec2 node st h ops)).
Proof.
  induction ops as [|o ops IH]; intros st h H; cbn [exec2]; [exact H|].
  apply IH. apply R_step. exact H.
Qed.

(* ---------------------------------------------------------------- what a read returns *)
Theorem get_record_refines st h id : R st h -> fst (get_record st id) = spec_lookup h (now st) id.
Proof.
  intros (N & A & B). unfold get_record, spec_lookup.
  destruct (get id (recs st)) as [r|] eqn:G.
  - rewrite (A id r G). destruct (live (now st) r); reflexivity.
  - cbn [fst]. destruct (latest id h) as [r|] eqn:L; [|reflexivity].
    destruct (live (now st) r) eqn:Lv; [|reflexivity]. rewrite (B id r L Lv) in G. discriminate.
Qed.

Theorem listing_refines st h id r : R st h -> (In (id, r) (listing st) <-> spec_lookup h (now st) id = Some r).
Proof.
  intros (N & A & B). unfold listing, spec_lookup. rewrite filter_In. cbn [snd].
  rewrite <- (get_In_pair id (recs st) r N). split.
  - intros [G L]. rewrite (A id r G), L. reflexivity.
  - destruct (latest id h) as [r0|] eqn:E; [|discriminate]. destruct (live (now st) r0) eqn:L; [|discriminate].
    intros H. injection H as <-. split; [apply B; assumption | exact L].
Qed.

Theorem sweep_removes_exactly_expired st id : NoDup (keys (recs st)) ->
  (In id (fst (sweep st)) <-> exists r, get id (recs st) = Some r /\ live (now st) r = false).
Proof.
  intros N. unfold sweep. cbn [fst]. rewrite in_map_iff. split.
  - intros [[k r] [Hk Hin]]. cbn [fst] in Hk. subst k. apply filter_In in Hin. destruct Hin as [Hin Hl]. cbn [snd] in Hl.
    exists r. split; [apply get_In_pair; assumption | destruct (live (now st) r); [discriminate | reflexivity]].
  - intros [r [G L]]. exists (id, r). split; [reflexivity|]. apply filter_In. split; [apply get_In_pair; assumption|].
    cbn [snd]. rewrite L. reflexivity.
Qed.

Theorem sweep_keeps_live st id r : NoDup (keys (recs st)) -> get id (recs st) = Some r -> live (now st) r = true ->
  get id (recs (snd (sweep st))) = Some r.
Proof.
  intros N G L. unfold sweep, with_recs; cbn [snd recs]. rewrite (get_filter (live (now st)) id (recs st) N), G, L. reflexivity.
Qed.

(* the snapshot (what the TTL audit reads) shows only latest puts, possibly expired ones that no sweep has removed yet *)
Theorem snapshot_sound st h id r : R st h -> In (id, r) (snapshot st) -> latest id h = Some r.
Proof. intros (N & A & B) H. apply A. apply get_In_pair; assumption. Qed.
