(* C10: reconstruction for every threshold.  The model's evaluate_polynomial is polynomial evaluation over GF(2^8), its
   interpolate is the Lagrange formula at 0; with proofs/GfPoly.v (a polynomial with at most t coefficients is determined by
   its values at t distinct points) any t of the shares `split` hands out give back the secret. *)
Require Import ZArith List Bool Lia Ring Setoid Morphisms Arith.
Import ListNotations.
Local Open Scope Z_scope.
From EphVerif Require Import lib.Bytes model.ShamirModel proofs.ShamirProofs proofs.GfPoly.

(* ---------- the model's operations on bytes are the ring's ---------- *)
Lemma gf_mul_f a b : byte_ok a -> byte_ok b -> gf_mul a b = fmul a b.
Proof. intros Ha Hb. unfold fmul. rewrite !nm_of_byte by assumption. reflexivity. Qed.
Lemma gf_add_f a b : byte_ok a -> byte_ok b -> gf_add a b = fadd a b.
Proof. intros Ha Hb. unfold fadd. rewrite !nm_of_byte by assumption. reflexivity. Qed.
Lemma gf_inv_f a : byte_ok a -> gf_inv a = finv a.
Proof. intros Ha. unfold finv. rewrite nm_of_byte by assumption. reflexivity. Qed.
#[export] Instance finv_proper : Proper (feq ==> feq) finv.
Proof. intros a b H. unfold finv, feq in *. rewrite H. reflexivity. Qed.

(* ---------- evaluate_polynomial ---------- *)
Lemma eval_loop_spec x : byte_ok x -> forall coeffs pw res, Forall byte_ok coeffs -> byte_ok pw -> byte_ok res ->
  byte_ok (eval_loop x coeffs pw res) /\ eval_loop x coeffs pw res == fadd res (fmul (fmul pw x) (eval coeffs x)).
Proof.
  intros Bx. induction coeffs as [|c r IH]; intros pw res Hc Bp Br; cbn [eval_loop eval].
  - split; [exact Br | ring].
  - inversion Hc as [|? ? Bc Hr]; subst.
    assert (B1 : byte_ok (gf_mul pw x)) by (apply gf_mul_byte; assumption).
    assert (B2 : byte_ok (gf_mul c (gf_mul pw x))) by (apply gf_mul_byte; assumption).
    assert (B3 : byte_ok (gf_add res (gf_mul c (gf_mul pw x)))) by (apply gf_add_byte; assumption).
    destruct (IH (gf_mul pw x) (gf_add res (gf_mul c (gf_mul pw x))) Hr B1 B3) as [Bo Eo].
    split; [exact Bo|]. rewrite Eo.
    rewrite (gf_add_f _ _ Br B2), (gf_mul_f _ _ Bc B1), (gf_mul_f _ _ Bp Bx). ring.
Qed.

Lemma evaluate_polynomial_spec x s coeffs : byte_ok x -> byte_ok s -> Forall byte_ok coeffs ->
  byte_ok (evaluate_polynomial x s coeffs) /\ evaluate_polynomial x s coeffs == eval (s :: coeffs) x.
Proof.
  intros Bx Bs Hc. unfold evaluate_polynomial.
  destruct (eval_loop_spec x Bx coeffs 1 s Hc ltac:(unfold byte_ok; lia) Bs) as [B E].
  split; [exact B|]. rewrite E. cbn [eval]. ring.
Qed.

(* ---------- the Lagrange numerator and denominator ---------- *)
Definition lstep (xi : Z) (nd : Z * Z) (a : Z) : Z * Z := (gf_mul (fst nd) a, gf_mul (snd nd) (gf_add a xi)).

Lemma fold_left_ext_in {A B} (f g : A -> B -> A) l a : (forall a b, In b l -> f a b = g a b) -> fold_left f l a = fold_left g l a.
Proof.
  revert a. induction l as [|b l IH]; intros a H; [reflexivity|]. cbn [fold_left]. rewrite (H a b (or_introl eq_refl)).
  apply IH. intros a' b' Hb. apply H. right. exact Hb.
Qed.

Lemma lagrange_segment xs i : forall len a nd, (a + len <= length xs)%nat -> (i < a \/ a + len <= i)%nat ->
  fold_left (fun nd j => if Nat.eqb i j then nd else
               (gf_mul (fst nd) (nth j xs 0), gf_mul (snd nd) (gf_add (nth j xs 0) (nth i xs 0)))) (seq a len) nd
  = fold_left (lstep (nth i xs 0)) (firstn len (skipn a xs)) nd.
Proof.
  induction len as [|len IH]; intros a nd Hl Hi; [reflexivity|].
  cbn [seq fold_left]. rewrite (skipn_cons_nth a xs 0) by lia. cbn [firstn fold_left].
  assert (E : Nat.eqb i a = false) by (apply Nat.eqb_neq; lia). rewrite E.
  rewrite IH by lia. reflexivity.
Qed.

Lemma lagrange_term_fold xs i : (i < length xs)%nat ->
  lagrange_term xs i = fold_left (lstep (nth i xs 0)) (firstn i xs ++ skipn (S i) xs) (1, 1).
Proof.
  intros Hi. unfold lagrange_term.
  replace (length xs) with (i + S (length xs - S i))%nat by lia.
  rewrite seq_app. cbn [seq]. rewrite fold_left_app. cbn [fold_left]. rewrite Nat.eqb_refl.
  rewrite (lagrange_segment xs i i 0) by lia. rewrite (lagrange_segment xs i (length xs - S i) (0 + S i)) by lia.
  rewrite Nat.add_0_l. change (skipn 0 xs) with xs. rewrite fold_left_app.
  replace (firstn (length xs - S i) (skipn (S i) xs)) with (skipn (S i) xs); [reflexivity|].
  symmetry. apply firstn_all2. rewrite skipn_length. lia.
Qed.

Lemma lstep_fold xi : byte_ok xi -> forall l nd, Forall byte_ok l -> byte_ok (fst nd) -> byte_ok (snd nd) ->
  fst (fold_left (lstep xi) l nd) == fmul (fst nd) (fprod 0 l) /\
  snd (fold_left (lstep xi) l nd) == fmul (snd nd) (fprod xi l).
Proof.
  intros Bx. induction l as [|a r IH]; intros [n d] Hl Bn Bd; cbn [fold_left fprod fst snd] in *.
  - split; ring.
  - inversion Hl as [|? ? Ba Hr]; subst.
    assert (B1 : byte_ok (gf_mul n a)) by (apply gf_mul_byte; assumption).
    assert (B2 : byte_ok (gf_add a xi)) by (apply gf_add_byte; assumption).
    assert (B3 : byte_ok (gf_mul d (gf_add a xi))) by (apply gf_mul_byte; assumption).
    destruct (IH (lstep xi (n, d) a) Hr B1 B3) as [E1 E2]. unfold lstep in *. cbn [fst snd] in *.
    split.
    + rewrite E1, (gf_mul_f _ _ Bn Ba). ring.
    + rewrite E2, (gf_mul_f _ _ Bd B2), (gf_add_f _ _ Ba Bx). ring.
Qed.

Lemma lagrange_term_spec xs i : Forall byte_ok xs -> (i < length xs)%nat ->
  let others := firstn i xs ++ skipn (S i) xs in
  fst (lagrange_term xs i) == fprod 0 others /\ snd (lagrange_term xs i) == fprod (nth i xs 0) others.
Proof.
  intros Hb Hi others. rewrite (lagrange_term_fold xs i Hi). fold others.
  assert (Bi : byte_ok (nth i xs 0)) by (rewrite Forall_forall in Hb; apply Hb, nth_In; exact Hi).
  assert (Ho : Forall byte_ok others).
  { apply Forall_forall. intros a Ha. rewrite Forall_forall in Hb. apply Hb. unfold others in Ha. apply in_app_or in Ha.
    destruct Ha as [Ha|Ha]; [rewrite <- (firstn_skipn i xs) | rewrite <- (firstn_skipn (S i) xs)]; apply in_or_app; [left | right]; exact Ha. }
  destruct (lstep_fold _ Bi others (1, 1) Ho ltac:(unfold byte_ok; cbn; lia) ltac:(unfold byte_ok; cbn; lia)) as [E1 E2].
  cbn [fst snd] in *. split; [rewrite E1 | rewrite E2]; ring.
Qed.

(* ---------- interpolate, one byte position ---------- *)
Lemma distinct_of_NoDup l : Forall byte_ok l -> NoDup l -> distinct l.
Proof.
  induction l as [|a r IH]; intros Hb Hn; [exact I|]. inversion Hb as [|? ? Ba Hr]; subst. inversion Hn as [|? ? Hna Hnr]; subst.
  split; [|apply IH; assumption]. intros b Hin E. apply Hna.
  rewrite Forall_forall in Hr. rewrite (feq_bytes a b Ba (Hr b Hin) E). exact Hin.
Qed.

Lemma interp_byte_spec xs : Forall byte_ok xs -> NoDup xs ->
  forall rest pre value, xs = pre ++ map fst rest -> Forall byte_ok (map snd rest) -> byte_ok value ->
  exists v, interp_byte xs (map snd rest) (length pre) value = Val v /\ byte_ok v /\ v == fadd value (lag0 pre rest).
Proof.
  intros Hb Hn. induction rest as [|[xi yi] r IH]; intros pre value Hx Hy Bv; cbn [map snd interp_byte lag0].
  - exists value. split; [reflexivity | split; [exact Bv | ring]].
  - cbn [map fst snd] in Hx, Hy. inversion Hy as [|? ? Byi Hyr]; subst.
    set (xs := pre ++ xi :: map fst r) in *.
    assert (Hi : (length pre < length xs)%nat) by (unfold xs; rewrite app_length; cbn [length]; lia).
    assert (Ei : nth (length pre) xs 0 = xi) by (unfold xs; rewrite app_nth2 by lia; rewrite Nat.sub_diag; reflexivity).
    assert (Eo : firstn (length pre) xs ++ skipn (S (length pre)) xs = pre ++ map fst r).
    { unfold xs. rewrite firstn_app, firstn_all, Nat.sub_diag. cbn [firstn]. rewrite app_nil_r.
      replace (S (length pre)) with (length pre + 1)%nat by lia. rewrite skipn_app, skipn_all2 by lia.
      replace (length pre + 1 - length pre)%nat with 1%nat by lia. reflexivity. }
    assert (Hx' : xs = (pre ++ [xi]) ++ map fst r) by (unfold xs; rewrite <- app_assoc; reflexivity).
    assert (Hl' : length (pre ++ [xi]) = S (length pre)) by (rewrite app_length; cbn [length]; lia).
    destruct (yi =? 0) eqn:Ey.
    + assert (yi = 0) by lia. subst yi.
      destruct (IH (pre ++ [xi]) value Hx' Hyr Bv) as [v [Ev [Bv' Eq]]]. rewrite Hl' in Ev.
      exists v. split; [exact Ev | split; [exact Bv'|]]. rewrite Eq. unfold term_weight. ring.
    + destruct (lagrange_term xs (length pre)) as [num den] eqn:E.
      destruct (lagrange_term_ok xs (length pre) Hb Hn Hi) as [Bn Nd]. rewrite E in Bn, Nd. cbn [fst snd] in Bn, Nd.
      destruct (lagrange_term_spec xs (length pre) Hb Hi) as [Sn Sd]. rewrite E, Eo in Sn. rewrite E, Ei, Eo in Sd. cbn [fst snd] in Sn, Sd.
      assert (Bd : byte_ok den) by (unfold nz, byte_ok in *; lia).
      destruct (gf_div_spec num den Bn Bd) as [_ D]. destruct (D ltac:(unfold nz in Nd; lia)) as [q [Eq [Bq [_ Eqv]]]].
      rewrite Eq.
      assert (Bm : byte_ok (gf_mul yi q)) by (apply gf_mul_byte; assumption).
      assert (Bnew : byte_ok (gf_add value (gf_mul yi q))) by (apply gf_add_byte; assumption).
      destruct (IH (pre ++ [xi]) (gf_add value (gf_mul yi q)) Hx' Hyr Bnew) as [v [Ev [Bv' Eqf]]]. rewrite Hl' in Ev.
      exists v. split; [exact Ev | split; [exact Bv'|]]. rewrite Eqf.
      assert (Bi : byte_ok (gf_inv den)) by (destruct (gf_inv_spec den Nd) as [N _]; unfold nz, byte_ok in *; lia).
      rewrite (gf_add_f _ _ Bv Bm), (gf_mul_f _ _ Byi Bq), Eqv, (gf_mul_f _ _ Bn Bi), (gf_inv_f _ Bd).
      unfold term_weight. rewrite Sn, Sd. ring.
Qed.

(* ---------- what `split` hands out ---------- *)
Lemma split_bytes_length secret k rnd indices : length (split_bytes secret k rnd indices) = length secret.
Proof. revert rnd. induction secret as [|s r IH]; intros rnd; [reflexivity|]. cbn [split_bytes length]. rewrite IH. reflexivity. Qed.

Lemma share_of_split secret t n rnd shares s : 1 <= t <= n -> n <= 255 -> split secret t n rnd = Val shares -> In s shares ->
  1 <= s_index s <= 255 /\
  forall b, (b < length secret)%nat ->
    nth b (s_value s) 0 = evaluate_polynomial (s_index s) (nth b secret 0) (firstn (Z.to_nat (t - 1)) (skipn (b * Z.to_nat (t - 1)) rnd)).
Proof.
  intros Ht Hn Hs Hin. unfold split in Hs.
  assert (E1 : (t =? 0) || (n =? 0) = false) by lia. assert (E2 : (n <? t) = false) by lia. rewrite E1, E2 in Hs.
  inversion Hs; subst shares; clear Hs.
  set (indices := map (fun i => Z.of_nat i) (seq 1 (Z.to_nat n))) in *.
  set (rows := split_bytes secret (Z.to_nat (t - 1)) rnd indices) in *.
  apply in_map_iff in Hin. destruct Hin as [j [Ej Hj]]. apply in_seq in Hj. subst s. cbn [s_index s_value].
  assert (Li : length indices = Z.to_nat n) by (unfold indices; rewrite map_length, seq_length; reflexivity).
  split.
  - assert (Range : forall z, In z indices -> 1 <= z <= 255).
    { intros z Hz. unfold indices in Hz. apply in_map_iff in Hz. destruct Hz as [i [Ei Hi]]. apply in_seq in Hi. lia. }
    apply Range. apply nth_In. lia.
  - intros b Hb.
    assert (Ec : column j rows = map (fun row => nth j row 0) rows) by (destruct j; reflexivity). rewrite Ec.
    rewrite (nth_indep (map (fun row => nth j row 0) rows) 0 ((fun row : list Z => nth j row 0) []))
      by (rewrite map_length; unfold rows; rewrite split_bytes_length; exact Hb).
    rewrite (map_nth (fun row => nth j row 0) rows [] b).
    unfold rows. apply split_bytes_nth; lia.
Qed.

(* ---------- one byte position of the secret ---------- *)
Lemma sub_bytes (l : list Z) a k : Forall byte_ok l -> Forall byte_ok (firstn k (skipn a l)).
Proof.
  intros H. apply Forall_forall. intros x Hx. rewrite Forall_forall in H. apply H.
  assert (In x (skipn a l)) by (rewrite <- (firstn_skipn k (skipn a l)); apply in_or_app; left; exact Hx).
  rewrite <- (firstn_skipn a l). apply in_or_app. right. assumption.
Qed.

Lemma byte_reconstructs secret t n rnd shares subset b :
  Forall byte_ok secret -> Forall byte_ok rnd -> 1 <= t <= n -> n <= 255 -> split secret t n rnd = Val shares ->
  zlen subset = t -> NoDup (map s_index subset) -> (forall s, In s subset -> In s shares) -> (b < length secret)%nat ->
  interp_byte (map s_index subset) (map (fun s => nth b (s_value s) 0) subset) 0 0 = Val (nth b secret 0).
Proof.
  intros Bs Br Ht Hn Hsp Hz Hnd Hsub Hb.
  set (coeffs := firstn (Z.to_nat (t - 1)) (skipn (b * Z.to_nat (t - 1)) rnd)).
  set (sb := nth b secret 0).
  set (pts := map (fun s => (s_index s, nth b (s_value s) 0)) subset).
  assert (Fx : map fst pts = map s_index subset) by (unfold pts; rewrite map_map; reflexivity).
  assert (Fy : map snd pts = map (fun s => nth b (s_value s) 0) subset) by (unfold pts; rewrite map_map; reflexivity).
  assert (Bsb : byte_ok sb) by (rewrite Forall_forall in Bs; apply Bs, nth_In; exact Hb).
  assert (Bc : Forall byte_ok coeffs) by (apply sub_bytes; exact Br).
  (* every point lies on the byte's polynomial *)
  assert (On : forall x y, In (x, y) pts -> byte_ok x /\ byte_ok y /\ y == eval (sb :: coeffs) x).
  { intros x y Hin. unfold pts in Hin. apply in_map_iff in Hin. destruct Hin as [s [E Hs]]. inversion E; subst x y; clear E.
    destruct (share_of_split secret t n rnd shares s Ht Hn Hsp (Hsub s Hs)) as [Hi Hv].
    assert (Bx : byte_ok (s_index s)) by (unfold byte_ok; lia).
    rewrite (Hv b Hb). fold coeffs. fold sb.
    destruct (evaluate_polynomial_spec (s_index s) sb coeffs Bx Bsb Bc) as [By Ey]. auto. }
  assert (Bxs : Forall byte_ok (map s_index subset)).
  { rewrite <- Fx. apply Forall_forall. intros x Hx. apply in_map_iff in Hx. destruct Hx as [[x' y'] [E Hin]]. cbn [fst] in E. subst x'.
    apply (On x y' Hin). }
  assert (Bys : Forall byte_ok (map snd pts)).
  { apply Forall_forall. intros y Hy. apply in_map_iff in Hy. destruct Hy as [[x' y'] [E Hin]]. cbn [snd] in E. subst y'.
    apply (On x' y Hin). }
  destruct (interp_byte_spec (map s_index subset) Bxs Hnd pts [] 0 ltac:(rewrite Fx; reflexivity) Bys ltac:(unfold byte_ok; lia))
    as [v [Ev [Bv Eq]]].
  cbn [length] in Ev. rewrite Fy in Ev. rewrite Ev. f_equal.
  apply feq_bytes; [exact Bv | exact Bsb|].
  rewrite Eq, <- (lag_at_zero [] pts).
  rewrite (lagrange_unique pts (sb :: coeffs)).
  - cbn [eval]. ring.
  - unfold pts. rewrite map_length. cbn [length]. unfold coeffs. rewrite firstn_length. unfold zlen in Hz. lia.
  - rewrite Fx. apply distinct_of_NoDup; assumption.
  - intros x y Hin. apply (On x y Hin).
Qed.

(* ---------- all thirty-two ---------- *)
Lemma interp_bytes_all shares (secret : list Z) : forall fuel byte, (byte + fuel <= length secret)%nat ->
  (forall b, (b < length secret)%nat ->
     interp_byte (map s_index shares) (map (fun s => nth b (s_value s) 0) shares) 0 0 = Val (nth b secret 0)) ->
  interp_bytes fuel byte shares = Val (firstn fuel (skipn byte secret)).
Proof.
  induction fuel as [|f IH]; intros byte Hl H; cbn [interp_bytes firstn]; [reflexivity|].
  rewrite (H byte) by lia. rewrite (IH (S byte)) by (lia || assumption).
  rewrite (skipn_cons_nth byte secret 0) by lia. reflexivity.
Qed.

(* THE reconstruction theorem, for every threshold: any t shares with distinct indices out of those `split` produced (t - 1
   random coefficients per secret byte, whatever they are) are combined into the secret *)
Theorem reconstruct secret t n rnd shares subset :
  length secret = 32%nat -> Forall byte_ok secret -> Forall byte_ok rnd -> 1 <= t <= n -> n <= 255 ->
  split secret t n rnd = Val shares ->
  zlen subset = t -> NoDup (map s_index subset) -> (forall s, In s subset -> In s shares) ->
  combine subset t = Val secret.
Proof.
  intros Hl Bs Br Ht Hn Hsp Hz Hnd Hsub. unfold combine.
  assert (E : zlen subset <? t = false) by lia. rewrite E.
  assert (F : firstn (Z.to_nat t) subset = subset) by (apply firstn_all2; unfold zlen in Hz; lia). rewrite F.
  assert (D : has_dup (map s_index subset) = false) by (apply has_dup_spec; exact Hnd). rewrite D.
  unfold interpolate. rewrite (interp_bytes_all subset secret 32 0).
  - cbn [skipn]. rewrite firstn_all2 by lia. reflexivity.
  - lia.
  - intros b Hb. eapply byte_reconstructs; eassumption.
Qed.

(* combine looks at the first t shares only: the whole list `split` produced reconstructs as well *)
Lemma firstn_NoDup {A} n (l : list A) : NoDup l -> NoDup (firstn n l).
Proof.
  revert n. induction l as [|x l IH]; intros n H; [rewrite firstn_nil; constructor|]. destruct n; [constructor|].
  inversion H as [|? ? Hx Hl]; subst. cbn [firstn]. constructor; [|apply IH; exact Hl].
  intros Hin. apply Hx. rewrite <- (firstn_skipn n l). apply in_or_app. left. exact Hin.
Qed.

Theorem reconstruct_all secret t n rnd shares :
  length secret = 32%nat -> Forall byte_ok secret -> Forall byte_ok rnd -> 1 <= t <= n -> n <= 255 ->
  split secret t n rnd = Val shares -> combine shares t = Val secret.
Proof.
  intros Hl Bs Br Ht Hn Hsp.
  destruct (split_indices secret t n rnd Ht Hn) as [sh [Hs [_ [Hz [Hd _]]]]]. rewrite Hsp in Hs. inversion Hs; subst sh; clear Hs.
  assert (Hr : combine (firstn (Z.to_nat t) shares) t = Val secret).
  { apply (reconstruct secret t n rnd shares); try assumption.
    - unfold zlen in *. rewrite firstn_length. lia.
    - rewrite <- firstn_map. apply firstn_NoDup. exact Hd.
    - intros s Hin. rewrite <- (firstn_skipn (Z.to_nat t) shares). apply in_or_app. left. exact Hin. }
  unfold combine in *.
  assert (E1 : zlen shares <? t = false) by lia. rewrite E1.
  assert (E2 : zlen (firstn (Z.to_nat t) shares) <? t = false) by (unfold zlen in *; rewrite firstn_length; lia). rewrite E2 in Hr.
  rewrite firstn_firstn, Nat.min_id in Hr. exact Hr.
Qed.
