(* Proofs about model/CleanupModel.v (C05). *)
Require Import ZArith List Bool Lia ZifyBool.
Import ListNotations.
Local Open Scope Z_scope.
From EphVerif Require Import lib.Bytes model.CleanupModel.
From EphVerif Require model.ProviderModel proofs.ProviderProofs.

Lemma zlen_nil_iff {A} (l : list A) : zlen l = 0 <-> l = [].
Proof. unfold zlen. destruct l; cbn [length]; split; intros H; try reflexivity; try discriminate; lia. Qed.

(* ---------- what the DHT sweep leaves ---------- *)
Lemma sweep_tbl_entries t0 t : forall c hs lexp, In (c, (hs, lexp)) (ProviderModel.sweep_tbl t0 t) ->
  t0 < lexp /\ hs <> [] /\ forall h, In h hs -> ProviderModel.live t0 h = true.
Proof.
  induction t as [|[k [hs0 l0]] t IH]; cbn [ProviderModel.sweep_tbl]; intros c hs lexp Hin; [contradiction|].
  destruct (filter (ProviderModel.live t0) hs0) as [|h r] eqn:F; [apply (IH c hs lexp); exact Hin|].
  destruct (l0 <=? t0) eqn:E; [apply (IH c hs lexp); exact Hin|].
  destruct Hin as [Hin|Hin]; [|apply (IH c hs lexp); exact Hin]. inversion Hin; subst.
  split; [lia|]. split; [discriminate|]. intros h' Hh. rewrite <- F in Hh. apply filter_In in Hh. tauto.
Qed.

Lemma dead_of_alive t (l : timed) : filter (fun e => negb (alive t e)) (filter (alive t) l) = [].
Proof.
  induction l as [|x r IH]; cbn [filter]; [reflexivity|]. destruct (alive t x) eqn:E; [cbn [filter]; rewrite E; exact IH | exact IH].
Qed.

(* ---------- a cleanup tick ---------- *)
Definition due (s : st) : Prop := interval s <= now s - last_cleanup s.

Lemma tick_due s : due s ->
  tick s =
  let dead := map fst (filter (fun e => negb (alive (now s) e)) (chunks s)) in
  let loc1 := fold_left (fun t c => ProviderModel.tbl (ProviderModel.withdraw {| ProviderModel.now := now s; ProviderModel.tbl := t |} c self)) dead (loc s) in
  let manifests' := filter (alive (now s)) (manifests s) in
  mkSt (now s) (filter (alive (now s)) (chunks s)) manifests' (filter (alive (now s)) (shards s))
       (filter (fun c => match tget c manifests' with Some _ => true | None => false end) (plans s))
       (ProviderModel.sweep_tbl (now s) loc1) (notes s ++ dead) (now s) (interval s) (min_ttl s) (max_ttl s).
Proof. intros H. unfold tick, due in *. destruct (now s - last_cleanup s <? interval s) eqn:E; [lia | reflexivity]. Qed.

Lemma tget_in k v (s : timed) : tget k s = Some v -> In (k, v) s.
Proof.
  induction s as [|[k' v'] r IH]; cbn [tget]; [discriminate|]. destruct (k' =? k) eqn:E.
  - intros H. inversion H; subst. left. f_equal. lia.
  - intros H. right. apply IH. exact H.
Qed.

(* after a tick that ran the cleanup: no local chunk, cached manifest, key-share record or swarm plan for anything whose
   deadline has passed; every locator and every provider contact that is left is unexpired; the TTL audit finds nothing *)
Theorem tick_removes_everything_expired s : due s ->
  let s' := tick s in
  (forall k e, In (k, e) (chunks s') -> now s < e) /\
  (forall k e, In (k, e) (manifests s') -> now s < e) /\
  (forall k e, In (k, e) (shards s') -> now s < e) /\
  (forall c, In c (plans s') -> exists e, In (c, e) (manifests s') /\ now s < e) /\
  (forall c hs lexp, In (c, (hs, lexp)) (loc s') -> now s < lexp /\ forall h, In h hs -> now s < snd h) /\
  audit s' = [0; 0; 0] /\ now s' = now s.
Proof.
  intros Hd. cbv zeta. rewrite (tick_due s Hd). cbv zeta. cbn [chunks manifests shards plans loc now].
  assert (F : forall (l : timed) k e, In (k, e) (filter (alive (now s)) l) -> now s < e).
  { intros l k e H. apply filter_In in H. destruct H as [_ H]. unfold alive in H. cbn [snd] in H. lia. }
  split; [apply F|]. split; [apply F|]. split; [apply F|]. split.
  - intros c Hc. apply filter_In in Hc. destruct Hc as [_ Hc].
    destruct (tget c (filter (alive (now s)) (manifests s))) as [e|] eqn:G; [|discriminate].
    exists e. pose proof (tget_in _ _ _ G) as Hin. split; [exact Hin | eapply F; exact Hin].
  - set (loc2 := ProviderModel.sweep_tbl (now s) _).
    assert (L : forall c hs lexp, In (c, (hs, lexp)) loc2 -> now s < lexp /\ forall h, In h hs -> now s < snd h).
    { intros c hs lexp Hin. destruct (sweep_tbl_entries _ _ _ _ _ Hin) as [H1 [_ H3]]. split; [exact H1|].
      intros h Hh. specialize (H3 h Hh). unfold ProviderModel.live in H3. lia. }
    split; [exact L|]. split; [|reflexivity].
    unfold audit. cbn [chunks loc now].
    assert (A1 : filter (fun e => negb (alive (now s) e)) (filter (alive (now s)) (chunks s)) = []) by apply dead_of_alive.
    assert (A2 : filter (fun e : Z * (list ProviderModel.holder * Z) => snd (snd e) <=? now s) loc2 = []).
    { assert (G : forall l : ProviderModel.table, (forall c hs lexp, In (c, (hs, lexp)) l -> now s < lexp) -> filter (fun e : Z * (list ProviderModel.holder * Z) => snd (snd e) <=? now s) l = []).
      { induction l as [|[c [hs lexp]] r IH]; intros H; cbn [filter snd]; [reflexivity|].
        assert (now s < lexp) by (eapply H; left; reflexivity). destruct (lexp <=? now s) eqn:E; [lia|]. apply IH. intros c' hs' l' Hin. eapply H. right. exact Hin. }
      apply G. intros c hs lexp Hin. apply (L c hs lexp Hin). }
    assert (A3 : flat_map (fun e : Z * (list ProviderModel.holder * Z) => filter (fun h => negb (ProviderModel.live (now s) h)) (fst (snd e))) loc2 = []).
    { assert (G : forall l : ProviderModel.table, (forall c hs lexp, In (c, (hs, lexp)) l -> forall h, In h hs -> now s < snd h) ->
                  flat_map (fun e : Z * (list ProviderModel.holder * Z) => filter (fun h => negb (ProviderModel.live (now s) h)) (fst (snd e))) l = []).
      { induction l as [|[c [hs lexp]] r IH]; intros H; cbn [flat_map fst snd]; [reflexivity|].
        rewrite IH by (intros c' hs' l' Hin; eapply H; right; exact Hin). rewrite app_nil_r.
        assert (Hh : forall h, In h hs -> now s < snd h) by (eapply H; left; reflexivity).
        clear -Hh. induction hs as [|h r IH]; cbn [filter]; [reflexivity|].
        assert (now s < snd h) by (apply Hh; left; reflexivity). unfold ProviderModel.live at 1.
        destruct (now s <? snd h) eqn:E; [|lia]. cbn [negb]. apply IH. intros h' Hin. apply Hh. right. exact Hin. }
      apply G. intros c hs lexp Hin. apply (L c hs lexp Hin). }
    rewrite A1, A2, A3. reflexivity.
Qed.

(* the notifications of a cleanup tick: exactly the local chunks whose deadline has passed, each once; and they are gone *)
Definition unique_keys (s : timed) : Prop := NoDup (map fst s).
Lemma filter_keys_nodup (f : Z * Z -> bool) (s : timed) : unique_keys s -> NoDup (map fst (filter f s)).
Proof.
  unfold unique_keys. induction s as [|[k v] r IH]; cbn [filter map fst]; intros H; [constructor|].
  inversion H as [|? ? Hn Hd]; subst. destruct (f (k, v)); [|apply IH; exact Hd].
  cbn [map fst]. constructor; [|apply IH; exact Hd]. intros Hin. apply Hn.
  apply in_map_iff in Hin. destruct Hin as [e [E He]]. apply filter_In in He. apply in_map_iff. exists e. tauto.
Qed.

Theorem tick_reports_each_expiry_once s : due s -> unique_keys (chunks s) ->
  let reported := notes (tick s) in
  exists fresh, reported = notes s ++ fresh /\ NoDup fresh /\
    (forall c, In c fresh <-> exists e, In (c, e) (chunks s) /\ e <= now s) /\
    (forall c, In c fresh -> forall e, ~ In (c, e) (chunks (tick s))).
Proof.
  intros Hd Hu. cbv zeta. rewrite (tick_due s Hd). cbv zeta. cbn [notes chunks].
  exists (map fst (filter (fun e => negb (alive (now s) e)) (chunks s))). split; [reflexivity|].
  split; [apply filter_keys_nodup; exact Hu|]. split.
  - intros c. rewrite in_map_iff. split.
    + intros [[k e] [E H]]. cbn [fst] in E. subst k. apply filter_In in H. destruct H as [H1 H2]. exists e. split; [exact H1|].
      unfold alive in H2. cbn [snd] in H2. lia.
    + intros [e [H1 H2]]. exists (c, e). split; [reflexivity|]. apply filter_In. split; [exact H1|]. unfold alive. cbn [snd]. lia.
  - intros c Hc e Hin. apply filter_In in Hin. destruct Hin as [Hin Ha]. unfold alive in Ha. cbn [snd] in Ha.
    apply in_map_iff in Hc. destruct Hc as [[k e'] [E H]]. cbn [fst] in E. subst k. apply filter_In in H. destruct H as [H1 H2].
    unfold alive in H2. cbn [snd] in H2.
    (* unique keys: (c, e) and (c, e') are the same entry *)
    assert (e = e').
    { clear -Hu Hin H1. unfold unique_keys in Hu. induction (chunks s) as [|[k v] r IH]; [contradiction|]. cbn [map fst] in Hu. inversion Hu as [|? ? Hn Hd]; subst.
      destruct Hin as [Hin|Hin], H1 as [H1|H1].
      - inversion Hin; inversion H1; subst. reflexivity.
      - inversion Hin; subst. exfalso. apply Hn. apply in_map_iff. exists (c, e'). split; [reflexivity | exact H1].
      - inversion H1; subst. exfalso. apply Hn. apply in_map_iff. exists (c, e). split; [reflexivity | exact Hin].
      - apply IH; assumption. }
    subst e'. lia.
Qed.

(* nothing but a cleanup tick ever removes or reports a local chunk: a lookup -- also one that meets an expired chunk -- leaves
   the chunks and the pending notifications alone *)
Theorem lookup_keeps_chunks s c : chunks (lookup s c) = chunks s /\ notes (lookup s c) = notes s /\
  manifests (lookup s c) = manifests s /\ shards (lookup s c) = shards s /\ plans (lookup s c) = plans s.
Proof. unfold lookup. destruct (tget c (chunks s)) as [e|]; [destruct (now s <? e)|]; repeat split; reflexivity. Qed.

(* unique keys are kept by every operation (so the exactly-once theorem applies at every tick of any history) *)
Lemma tset_unique k v s : unique_keys s -> unique_keys (tset k v s).
Proof.
  intros H. unfold tset, unique_keys. cbn [map fst]. constructor; [|apply filter_keys_nodup; exact H].
  intros Hin. apply in_map_iff in Hin. destruct Hin as [e [E He]]. apply filter_In in He. destruct He as [_ He]. lia.
Qed.
Lemma step_unique s o : unique_keys (chunks s) -> unique_keys (chunks (fst (step s o))).
Proof.
  intros H. unfold step. cbn [fst chunks]. destruct o as [c t|c r|c p t|c| |dt]; cbn [chunks].
  - unfold store. cbn [chunks]. apply tset_unique. exact H.
  - unfold ingest. destruct (_ || _); exact H.
  - exact H.
  - destruct (lookup_keeps_chunks s c) as [E _]. rewrite E. exact H.
  - unfold tick. destruct (_ <? _); [exact H|]. cbn [chunks]. apply filter_keys_nodup. exact H.
  - exact H.
Qed.
Theorem reachable_unique ops : forall s, unique_keys (chunks s) -> unique_keys (chunks (run_ops s ops)).
Proof. unfold run_ops. induction ops as [|o r IH]; cbn [fold_left]; intros s H; [exact H | apply IH, step_unique, H]. Qed.
