(* C09: the model of ChaCha20::apply equals RFC 8439 encryption for every key, nonce, counter and
   length (counter wrap included), is its own inverse, and preserves length. *)
Require Import ZArith List Bool Lia ZifyBool Arith.
Import ListNotations.
Local Open Scope Z_scope.
From EphVerif Require Import lib.Bytes spec.ChaCha20Spec model.ChaCha20Model gen.Constants_chacha.
Ltac Zify.zify_post_hook ::= Z.div_mod_to_equations.

Lemma sigma_matches_rfc : chacha_sigma = ChaCha20Spec.sigma.
Proof. reflexivity. Qed.

Ltac qstep :=
  match goal with
  | |- context [Qround [?y0;?y1;?y2;?y3;?y4;?y5;?y6;?y7;?y8;?y9;?y10;?y11;?y12;?y13;?y14;?y15] ?i ?j ?k ?l] =>
      let t := eval cbv [Qround nth] in (Qround [y0;y1;y2;y3;y4;y5;y6;y7;y8;y9;y10;y11;y12;y13;y14;y15] i j k l) in
      change (Qround [y0;y1;y2;y3;y4;y5;y6;y7;y8;y9;y10;y11;y12;y13;y14;y15] i j k l) with t
  end;
  match goal with |- context [qr ?a ?b ?c ?d] => destruct (qr a b c d) as [[[? ?] ?] ?] end; cbn [upd].

(* one double round on sixteen variables = the RFC's eight index-based QUARTERROUNDs *)
Lemma dround_spec s : to_list (dround s) = inner_block (to_list s).
Proof.
  destruct s as [[[[[[[[[[[[[[[x0 x1] x2] x3] x4] x5] x6] x7] x8] x9] x10] x11] x12] x13] x14] x15].
  unfold dround, inner_block, to_list. cbv zeta.
  qstep. qstep. qstep. qstep. qstep. qstep. qstep. qstep.
  reflexivity.
Qed.

Lemma iter_dround_spec n s : to_list (Nat.iter n dround s) = Nat.iter n inner_block (to_list s).
Proof.
  induction n as [|n IH]; [reflexivity|].
  change (Nat.iter (S n) dround s) with (dround (Nat.iter n dround s)).
  change (Nat.iter (S n) inner_block (to_list s)) with (inner_block (Nat.iter n inner_block (to_list s))).
  rewrite dround_spec, IH. reflexivity.
Qed.

Lemma nth_skipn_add {A} (l : list A) k i d : nth i (skipn k l) d = nth (k + i) l d.
Proof.
  revert l. induction k as [|k IH]; intros l; [reflexivity|].
  destruct l as [|x l]; [destruct i; reflexivity|]. cbn [skipn Nat.add nth]. apply IH.
Qed.

Lemma skipn_skipn_add {A} (l : list A) a b : skipn a (skipn b l) = skipn (b + a) l.
Proof.
  revert l. induction b as [|b IH]; intros l; [reflexivity|].
  destruct l as [|x l]; [destruct a; reflexivity|]. cbn [skipn Nat.add]. apply IH.
Qed.

Lemma words_le_at n : forall b off,
  words_le n (skipn off b) = map (fun k => ld32_at b (off + 4 * k)) (seq 0 n).
Proof.
  induction n as [|n IH]; intros b off; [reflexivity|].
  cbn [words_le]. rewrite skipn_skipn_add, IH. cbn [seq map]. f_equal.
  - unfold ld32_at. rewrite !nth_skipn_add. repeat f_equal; lia.
  - rewrite <- seq_shift, map_map. apply map_ext. intros k. f_equal. lia.
Qed.

Lemma init_state_spec key nonce c : to_list (init16 key nonce c) = init_state key nonce c.
Proof.
  unfold init_state. rewrite <- sigma_matches_rfc.
  pose proof (words_le_at 8 key 0) as H8. pose proof (words_le_at 3 nonce 0) as H3.
  cbn [skipn] in H8, H3. rewrite H8, H3. reflexivity.
Qed.

Lemma ser_add_spec a b :
  ser16 (add16 a b) = flat_map le32 (map (fun p => add32 (fst p) (snd p)) (combine (to_list a) (to_list b))).
Proof.
  destruct a as [[[[[[[[[[[[[[[a0 a1] a2] a3] a4] a5] a6] a7] a8] a9] a10] a11] a12] a13] a14] a15].
  destruct b as [[[[[[[[[[[[[[[b0 b1] b2] b3] b4] b5] b6] b7] b8] b9] b10] b11] b12] b13] b14] b15].
  reflexivity.
Qed.

Theorem mblock_is_rfc_block key nonce c : mblock key nonce c = block key c nonce.
Proof.
  unfold mblock, block. rewrite ser_add_spec, iter_dround_spec, init_state_spec. reflexivity.
Qed.

Lemma mblock_length key nonce c : length (mblock key nonce c) = 64%nat.
Proof.
  unfold mblock. destruct (add16 _ _) as [[[[[[[[[[[[[[[a0 a1] a2] a3] a4] a5] a6] a7] a8] a9] a10] a11] a12] a13] a14] a15].
  reflexivity.
Qed.

(* ---- the block loop ---- *)
Lemma xor_with_length ks inp : (length inp <= length ks)%nat -> length (xor_with ks inp) = length inp.
Proof. intros. unfold xor_with. rewrite map_length, combine_length. lia. Qed.

Lemma nblocks_0 : nblocks 0 = 0%nat.
Proof. reflexivity. Qed.

Lemma nblocks_step n : (0 < n)%nat -> nblocks n = S (nblocks (n - Nat.min 64 n)).
Proof.
  intros Hn. unfold nblocks. destruct (Nat.le_gt_cases 64 n) as [H|H].
  - rewrite Nat.min_l by lia. replace (n + 63)%nat with ((n - 64 + 63) + 1 * 64)%nat by lia.
    rewrite Nat.div_add by lia. lia.
  - rewrite Nat.min_r by lia. replace (n - n + 63)%nat with 63%nat by lia.
    change (63 / 64)%nat with 0%nat.
    assert ((n + 63) / 64 = 1)%nat as ->; [|reflexivity].
    symmetry. apply Nat.div_unique with (r := (n - 1)%nat); lia.
Qed.

Lemma apply_loop_step f key nonce input c : input <> [] ->
  apply_loop (S f) key nonce input c =
    xor_with (mblock key nonce c) (firstn (Nat.min 64 (length input)) input) ++
    apply_loop f key nonce (skipn (Nat.min 64 (length input)) input) ((c + 1) mod w32).
Proof. destruct input; [congruence | reflexivity]. Qed.

Lemma apply_loop_nil f key nonce c : apply_loop f key nonce [] c = [].
Proof. destruct f; reflexivity. Qed.

Lemma nonempty_pos {A} (l : list A) : l <> [] -> (0 < length l)%nat.
Proof. destruct l; [congruence | simpl; lia]. Qed.

Lemma apply_loop_spec fuel : forall key nonce input c,
  0 <= c < w32 ->
  (nblocks (length input) <= fuel)%nat ->
  apply_loop fuel key nonce input c =
  concat (map (fun j => xor_with (block key ((c + Z.of_nat j) mod w32) nonce) (firstn 64 (skipn (64 * j) input)))
              (seq 0 (nblocks (length input)))).
Proof.
  induction fuel as [|f IH]; intros key nonce input c Hc Hf.
  - assert (nblocks (length input) = 0%nat) as -> by lia. reflexivity.
  - destruct (list_eq_dec Z.eq_dec input []) as [->|Hne]; [reflexivity|].
    pose proof (nonempty_pos input Hne) as Hpos.
    rewrite (apply_loop_step f key nonce input c Hne).
    rewrite (nblocks_step _ Hpos) in *. cbn [seq map concat].
    rewrite mblock_is_rfc_block. f_equal.
    + rewrite Z.add_0_r, Z.mod_small by exact Hc. rewrite Nat.mul_0_r. cbn [skipn].
      destruct (Nat.le_gt_cases 64 (length input)).
      * rewrite Nat.min_l by lia. reflexivity.
      * rewrite Nat.min_r by lia. rewrite !firstn_all2 by lia. reflexivity.
    + rewrite IH; [| unfold w32 in *; lia | rewrite skipn_length; lia].
      rewrite skipn_length. rewrite <- seq_shift, map_map. f_equal. apply map_ext. intros j.
      assert (E1 : ((c + 1) mod w32 + Z.of_nat j) mod w32 = (c + Z.of_nat (S j)) mod w32).
      { unfold w32. rewrite Zplus_mod_idemp_l. f_equal. lia. }
      assert (E2 : skipn (64 * j) (skipn (Nat.min 64 (length input)) input) = skipn (64 * S j) input).
      { rewrite skipn_skipn_add. destruct (Nat.le_gt_cases 64 (length input)).
        - rewrite Nat.min_l by lia. f_equal. lia.
        - rewrite Nat.min_r by lia. rewrite !skipn_all2 by lia. reflexivity. }
      rewrite E1, E2. reflexivity.
Qed.

Theorem apply_is_rfc_encrypt key nonce input c : 0 <= c < w32 ->
  apply key nonce input c = encrypt key c nonce input.
Proof. intros Hc. unfold apply, encrypt. apply apply_loop_spec; [exact Hc | lia]. Qed.

Lemma apply_loop_length fuel : forall key nonce input c,
  (nblocks (length input) <= fuel)%nat -> length (apply_loop fuel key nonce input c) = length input.
Proof.
  induction fuel as [|f IH]; intros key nonce input c Hf.
  - destruct input; [reflexivity|]. rewrite (nblocks_step (length (z :: input))) in Hf by (simpl; lia). lia.
  - destruct (list_eq_dec Z.eq_dec input []) as [->|Hne]; [reflexivity|].
    pose proof (nonempty_pos input Hne) as Hpos.
    rewrite (apply_loop_step f key nonce input c Hne).
    rewrite (nblocks_step _ Hpos) in Hf.
    rewrite app_length, xor_with_length by (rewrite mblock_length, firstn_length; lia).
    rewrite IH by (rewrite skipn_length; lia).
    rewrite firstn_length, skipn_length. lia.
Qed.

Theorem apply_length key nonce input c : length (apply key nonce input c) = length input.
Proof. unfold apply. apply apply_loop_length. lia. Qed.

Lemma xor_with_twice ks inp : (length inp <= length ks)%nat -> xor_with ks (xor_with ks inp) = inp.
Proof.
  revert ks. induction inp as [|a inp IH]; intros ks H; [reflexivity|].
  destruct ks as [|k ks]; [simpl in H; lia|].
  unfold xor_with in *. cbn [combine map fst snd]. f_equal.
  - rewrite Z.lxor_assoc, Z.lxor_nilpotent, Z.lxor_0_r. reflexivity.
  - apply IH. simpl in H. lia.
Qed.

Lemma apply_loop_twice fuel : forall key nonce input c,
  (nblocks (length input) <= fuel)%nat ->
  apply_loop fuel key nonce (apply_loop fuel key nonce input c) c = input.
Proof.
  induction fuel as [|f IH]; intros key nonce input c Hf.
  - destruct input; [reflexivity|]. rewrite (nblocks_step (length (z :: input))) in Hf by (simpl; lia). lia.
  - destruct (list_eq_dec Z.eq_dec input []) as [->|Hne]; [reflexivity|].
    pose proof (nonempty_pos input Hne) as Hpos.
    rewrite (apply_loop_step f key nonce input c Hne).
    rewrite (nblocks_step _ Hpos) in Hf.
    set (bs := Nat.min 64 (length input)).
    set (ks := mblock key nonce c).
    set (blk := xor_with ks (firstn bs input)).
    set (rest := apply_loop f key nonce (skipn bs input) ((c + 1) mod w32)).
    assert (Hblk : length blk = bs).
    { unfold blk. rewrite xor_with_length; [rewrite firstn_length; unfold bs; lia|].
      unfold ks. rewrite mblock_length, firstn_length. unfold bs. lia. }
    assert (Hrest : length rest = (length input - bs)%nat).
    { unfold rest. rewrite apply_loop_length by (rewrite skipn_length; unfold bs; lia).
      apply skipn_length. }
    assert (Hne2 : blk ++ rest <> []).
    { intros Hnil. apply (f_equal (@length Z)) in Hnil. rewrite app_length, Hblk in Hnil.
      simpl in Hnil. unfold bs in Hnil. lia. }
    rewrite (apply_loop_step f key nonce (blk ++ rest) c Hne2).
    rewrite app_length, Hblk, Hrest.
    replace (Nat.min 64 (bs + (length input - bs))) with bs by (unfold bs; lia).
    rewrite firstn_app, Hblk, Nat.sub_diag, firstn_all2 by lia. cbn [firstn]. rewrite app_nil_r.
    rewrite skipn_app, Hblk, Nat.sub_diag, skipn_all2 by lia. cbn [skipn app].
    unfold blk. rewrite xor_with_twice by (unfold ks; rewrite mblock_length, firstn_length; unfold bs; lia).
    unfold rest. rewrite IH by (rewrite skipn_length; unfold bs; lia).
    apply firstn_skipn.
Qed.

Theorem apply_involution key nonce input c : apply key nonce (apply key nonce input c) c = input.
Proof.
  unfold apply at 1. rewrite apply_length. unfold apply. apply apply_loop_twice. lia.
Qed.

Theorem cryptomanager_roundtrip key id p nonce :
  decrypt_with_key key id (encrypt_with_key key id p nonce) nonce = Some p.
Proof. unfold decrypt_with_key, encrypt_with_key. rewrite apply_involution. reflexivity. Qed.
