(* Proofs about model/PersistModel.v (C04). *)
Require Import ZArith List Bool Lia ZifyBool.
Import ListNotations.
Local Open Scope Z_scope.
From EphVerif Require Import lib.Bytes model.PersistModel gen.Constants_config.

Section Maps.
  Context {A : Type}.
  Lemma get_del_same k (s : list (Z * A)) : get k (del k s) = None.
  Proof.
    induction s as [|[k' v] r IH]; cbn [del filter get fst]; [reflexivity|].
    destruct (k' =? k) eqn:E; cbn [negb]; [exact IH|]. cbn [get]. rewrite E. exact IH.
  Qed.
  Lemma get_del_other k k' (s : list (Z * A)) : k <> k' -> get k' (del k s) = get k' s.
  Proof.
    intros H. induction s as [|[k2 v] r IH]; cbn [del filter get fst]; [reflexivity|].
    destruct (k2 =? k) eqn:E; cbn [negb].
    - destruct (k2 =? k') eqn:E2; [lia | exact IH].
    - cbn [get]. destruct (k2 =? k'); [reflexivity | exact IH].
  Qed.
  Lemma get_set_same k v (s : list (Z * A)) : get k (set k v s) = Some v.
  Proof. unfold set. cbn [get]. rewrite Z.eqb_refl. reflexivity. Qed.
  Lemma get_set_other k k' v (s : list (Z * A)) : k <> k' -> get k' (set k v s) = get k' s.
  Proof. intros H. unfold set. cbn [get]. destruct (k =? k') eqn:E; [lia|]. apply get_del_other. exact H. Qed.
  Lemma get_filter_some (f : Z * A -> bool) k v (s : list (Z * A)) : get k (filter f s) = Some v -> exists v', get k s = Some v'.
  Proof.
    induction s as [|[k' w] r IH]; cbn [filter get]; [discriminate|].
    destruct (k' =? k) eqn:E; [intros _; eexists; reflexivity|].
    destruct (f (k', w)); cbn [get]; rewrite ?E; exact IH.
  Qed.
End Maps.

(* the first binding of a key decides; with unique keys, filtering by a predicate on the entry keeps or drops exactly it *)
Definition keys {A} (s : list (Z * A)) : list Z := map fst s.
Lemma get_none_notin {A} k (s : list (Z * A)) : get k s = None <-> ~ In k (keys s).
Proof.
  induction s as [|[k' v] r IH]; cbn [get keys map In fst]; [tauto|]. destruct (k' =? k) eqn:E.
  - split; [discriminate | intros H; exfalso; apply H; left; lia].
  - rewrite IH. unfold keys. split; [intros H [H1|H1]; [lia | contradiction] | tauto].
Qed.
Lemma get_filter_nodup {A} (f : Z * A -> bool) k (s : list (Z * A)) : NoDup (keys s) ->
  get k (filter f s) = match get k s with Some v => if f (k, v) then Some v else None | None => None end.
Proof.
  induction s as [|[k' w] r IH]; cbn [filter get keys map fst]; intros Hd; [reflexivity|].
  inversion Hd as [|? ? Hn Hd']; subst. destruct (k' =? k) eqn:E.
  - assert (k' = k) by lia. subst k'. destruct (f (k, w)) eqn:F; cbn [get]; [rewrite Z.eqb_refl; reflexivity|].
    rewrite IH by exact Hd'. assert (G : get k r = None) by (apply get_none_notin; exact Hn). rewrite G. reflexivity.
  - destruct (f (k', w)); cbn [get]; rewrite ?E; apply IH; exact Hd'.
Qed.
Lemma keys_filter_incl {A} (f : Z * A -> bool) (s : list (Z * A)) x : In x (keys (filter f s)) -> In x (keys s).
Proof. unfold keys. rewrite !in_map_iff. intros [e [E H]]. exists e. apply filter_In in H. tauto. Qed.
Lemma nodup_filter {A} (f : Z * A -> bool) (s : list (Z * A)) : NoDup (keys s) -> NoDup (keys (filter f s)).
Proof.
  induction s as [|[k v] r IH]; cbn [filter keys map fst]; intros H; [constructor|].
  inversion H as [|? ? Hn Hd]; subst. destruct (f (k, v)); [|apply IH; exact Hd].
  cbn [map fst]. constructor; [|apply IH; exact Hd]. intros Hin. apply Hn. eapply keys_filter_incl. exact Hin.
Qed.
Lemma nodup_set {A} k (v : A) s : NoDup (keys s) -> NoDup (keys (set k v s)).
Proof.
  intros H. unfold set. cbn [keys map fst]. constructor; [|apply nodup_filter; exact H].
  intros Hin. apply get_none_notin in Hin; [exact Hin | apply get_del_same].
Qed.

(* ---------- the invariant (wipe-on-expiry on) ---------- *)
(* a chunk file exists exactly for the records the store holds, with exactly the stored bytes *)
Definition FInv (st : state) : Prop :=
  NoDup (keys (recs st)) /\
  (forall k b, get k (files st) = Some b -> exists r, get k (recs st) = Some r /\ r_data r = b /\ r_persisted r = true) /\
  (forall k r, get k (recs st) = Some r -> r_persisted r = true /\ get k (files st) = Some (r_data r)).

Lemma FInv_empty t d w : FInv (mkState t [] [] d w).
Proof. split; [constructor|]. split; intros k x H; discriminate. Qed.

Lemma put_inv st k data ttl : FInv st -> FInv (put st k data ttl).
Proof.
  intros [Hd [Hf Hr]]. unfold put. cbn [recs files].
  set (exp := now st + Z.max (if 0 <? ttl then ttl else dflt st) store_minimum_ttl * ns).
  set (d1 := match get k (recs st) with Some r => if r_persisted r then wipe k (files st) else files st | None => files st end).
  assert (Hother : forall k', k <> k' -> get k' (set k data (wipe k d1)) = get k' (files st)).
  { intros k' Hne. rewrite get_set_other by exact Hne. unfold wipe. rewrite get_del_other by exact Hne.
    unfold d1. destruct (get k (recs st)) as [r|]; [destruct (r_persisted r)|]; try reflexivity. unfold wipe. apply get_del_other. exact Hne. }
  split; [cbn [recs]; apply nodup_set; exact Hd|]. split; cbn [recs files].
  - intros k' b H. destruct (Z.eq_dec k k') as [<-|Hne].
    + rewrite get_set_same in H. inversion H; subst. exists (mkRec b exp true). rewrite get_set_same. cbn. auto.
    + rewrite Hother in H by exact Hne. rewrite get_set_other by exact Hne. apply Hf. exact H.
  - intros k' r H. destruct (Z.eq_dec k k') as [<-|Hne].
    + rewrite get_set_same in H. inversion H; subst. cbn. split; [reflexivity | apply get_set_same].
    + rewrite get_set_other in H by exact Hne. rewrite Hother by exact Hne. apply Hr. exact H.
Qed.

(* wiping the files of a list of (distinct) records: a key loses its file iff it is one of them *)
Lemma get_fold_wipe (expired : list (Z * rec)) : forall d k,
  (forall e, In e expired -> r_persisted (snd e) = true) ->
  get k (fold_left (fun d e => if r_persisted (snd e) then wipe (fst e) d else d) expired d)
  = if existsb (fun e => fst e =? k) expired then None else get k d.
Proof.
  induction expired as [|e r IH]; intros d k Hp; cbn [fold_left existsb]; [reflexivity|].
  rewrite IH by (intros e' He'; apply Hp; right; exact He').
  rewrite (Hp e (or_introl eq_refl)).
  destruct (fst e =? k) eqn:E; cbn [orb].
  - destruct (existsb _ r); [reflexivity|]. assert (fst e = k) by lia. subst k. apply get_del_same.
  - destruct (existsb _ r); [reflexivity|]. unfold wipe. apply get_del_other. lia.
Qed.

Lemma existsb_key_filter k (f : Z * rec -> bool) (s : list (Z * rec)) : NoDup (keys s) ->
  existsb (fun e => fst e =? k) (filter f s) = match get k s with Some v => f (k, v) | None => false end.
Proof.
  induction s as [|[k' v] r IH]; cbn [filter existsb get keys map fst]; intros Hd; [reflexivity|].
  inversion Hd as [|? ? Hn Hd']; subst. destruct (k' =? k) eqn:E.
  - assert (k' = k) by lia. subst k'. destruct (f (k, v)) eqn:F; cbn [existsb fst]; [rewrite Z.eqb_refl; reflexivity|].
    rewrite IH by exact Hd'. assert (G : get k r = None) by (apply get_none_notin; exact Hn). rewrite G. reflexivity.
  - destruct (f (k', v)); cbn [existsb fst]; rewrite ?E; apply IH; exact Hd'.
Qed.

Lemma sweep_inv st : wipe_on_expiry st = true -> FInv st -> FInv (sweep st).
Proof.
  intros Hw [Hd [Hf Hr]]. unfold sweep. rewrite Hw. cbn [recs files].
  set (dead := fun e : Z * rec => negb (live (now st) (snd e))).
  assert (Hp : forall e, In e (filter dead (recs st)) -> r_persisted (snd e) = true).
  { intros [k r] He. apply filter_In in He. destruct He as [He _].
    assert (G : get k (recs st) = Some r).
    { clear -He Hd. induction (recs st) as [|[k' v] l IH]; [contradiction|]. cbn [keys map fst] in Hd. inversion Hd as [|? ? Hn Hd']; subst.
      destruct He as [He|He]; [inversion He; subst; cbn [get]; rewrite Z.eqb_refl; reflexivity|].
      cbn [get]. destruct (k' =? k) eqn:E; [|apply IH; assumption].
      exfalso. apply Hn. assert (k' = k) by lia. subst. unfold keys. apply in_map_iff. exists (k, r). split; [reflexivity | exact He]. }
    apply Hr in G. tauto. }
  split; [cbn [recs]; apply nodup_filter; exact Hd|]. split; cbn [recs files].
  - intros k b H. fold dead in H. rewrite get_fold_wipe in H by exact Hp. rewrite existsb_key_filter in H by exact Hd.
    rewrite get_filter_nodup by exact Hd.
    destruct (get k (recs st)) as [r|] eqn:G.
    + unfold dead in H. cbn [snd] in H. destruct (live (now st) r) eqn:L; cbn [negb] in H; [|discriminate].
      cbn [snd]. rewrite L. destruct (Hf k b H) as [r' [G' [D P]]]. rewrite G in G'. inversion G'; subst r'. exists r. auto.
    + destruct (Hf k b H) as [r' [G' _]]. rewrite G in G'. discriminate.
  - intros k r H. rewrite get_filter_nodup in H by exact Hd. destruct (get k (recs st)) as [r0|] eqn:G; [|discriminate].
    cbn [snd] in H. destruct (live (now st) r0) eqn:L; [|discriminate]. inversion H; subst r0.
    destruct (Hr k r G) as [P F]. split; [exact P|].
    fold dead. rewrite get_fold_wipe by exact Hp. rewrite existsb_key_filter by exact Hd. rewrite G. unfold dead. cbn [snd]. rewrite L. exact F.
Qed.

Lemma step_inv st o : wipe_on_expiry st = true -> FInv st -> FInv (step st o) /\ wipe_on_expiry (step st o) = true.
Proof.
  intros Hw H. destruct o as [k d t|k| |ms|lo]; cbn [step].
  - split; [apply put_inv; exact H | exact Hw].
  - split; assumption.
  - split; [apply sweep_inv; assumption | exact Hw].
  - split; [exact H | exact Hw].
  - unfold restart. rewrite Hw. split; [apply FInv_empty | reflexivity].
Qed.

Theorem reachable_inv ops : forall st, wipe_on_expiry st = true -> FInv st ->
  FInv (run_ops st ops) /\ wipe_on_expiry (run_ops st ops) = true.
Proof.
  unfold run_ops. induction ops as [|o r IH]; cbn [fold_left]; intros st Hw H; [split; assumption|].
  destruct (step_inv st o Hw H) as [H' Hw']. apply IH; assumption.
Qed.

(* after a sweep every remaining file belongs to a chunk that is still live *)
Theorem sweep_leaves_only_live st : wipe_on_expiry st = true -> FInv st ->
  forall k b, get k (files (sweep st)) = Some b ->
  exists r, get k (recs st) = Some r /\ r_data r = b /\ live (now st) r = true.
Proof.
  intros Hw H k b Hk. destruct (sweep_inv st Hw H) as [_ [Hf _]]. destruct (Hf k b Hk) as [r [G [D _]]].
  unfold sweep in G. cbn [recs] in G. destruct H as [Hd _]. rewrite get_filter_nodup in G by exact Hd.
  destruct (get k (recs st)) as [r0|] eqn:G0; [|discriminate]. cbn [snd] in G. destruct (live (now st) r0) eqn:L; [|discriminate].
  inversion G; subst r0. exists r. auto.
Qed.

(* a lookup never touches records or files *)
Theorem lookup_changes_nothing st k : step st (Get k) = st.
Proof. reflexivity. Qed.

(* after a restart nothing is left, whatever a crash had put into the directory *)
Theorem restart_leaves_nothing st lo : wipe_on_expiry st = true -> files (restart st lo) = [] /\ recs (restart st lo) = [].
Proof. intros Hw. unfold restart. rewrite Hw. split; reflexivity. Qed.
