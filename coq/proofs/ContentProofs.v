(* Proofs about model/ContentModel.v (C11). *)
Require Import ZArith List Bool Lia ZifyBool.
Import ListNotations.
Local Open Scope Z_scope.
From EphVerif Require Import lib.Bytes model.Sha256Model model.ChaCha20Model model.ShamirModel
  proofs.ChaCha20Proofs proofs.ShamirProofs model.ContentModel.

Lemma eff_bounds t n : 1 <= eff_threshold t <= eff_total t n.
Proof. unfold eff_total, eff_threshold. split; [apply Z.le_max_l | apply Z.le_max_l]. Qed.

(* what a store produces *)
Lemma store_shape id data key nonce t n rnd held m : store id data key nonce t n rnd = Val (held, m) ->
  held = encrypt_with_key key id data nonce /\ m_id m = id /\ m_hash m = sha256 data /\ m_nonce m = nonce /\
  m_threshold m = eff_threshold t /\ m_total m = eff_total t n /\
  split key (eff_threshold t) (eff_total t n) rnd = Val (m_shards m).
Proof.
  unfold store. destruct (split key (eff_threshold t) (eff_total t n) rnd) as [shares|e] eqn:E; [|discriminate].
  intros H. inversion H; subst. cbn. repeat split; reflexivity.
Qed.

(* the held bytes are the ChaCha20 encryption (RFC 8439 block function, C09) of the payload under the fresh key *)
Theorem held_is_chacha id data key nonce t n rnd held m : store id data key nonce t n rnd = Val (held, m) ->
  held = apply key nonce data (derive_counter id).
Proof. intros H. destruct (store_shape _ _ _ _ _ _ _ _ _ H) as [Hh _]. exact Hh. Qed.

(* a store succeeds for every share count the field can carry, and yields total shares with the indices 1..total *)
Theorem store_succeeds id data key nonce t n rnd : eff_total t n <= 255 ->
  exists held m, store id data key nonce t n rnd = Val (held, m) /\ zlen (m_shards m) = eff_total t n /\
                 NoDup (map s_index (m_shards m)).
Proof.
  intros Hn. destruct (split_indices key (eff_threshold t) (eff_total t n) rnd (eff_bounds t n) Hn) as [shares [Hs [_ [Hl [Hd _]]]]].
  unfold store. rewrite Hs. eexists. eexists. split; [reflexivity|]. cbn. split; assumption.
Qed.

(* whoever reconstructs the key from the manifest's shares recovers the payload from the held bytes: local lookup ... *)
Theorem fetch_roundtrip id data key nonce t n rnd held m : store id data key nonce t n rnd = Val (held, m) ->
  eff_total t n <= 255 ->
  combine (m_shards m) (m_threshold m) = Val key ->
  fetch id held (m_nonce m) (m_shards m) (m_threshold m) = Val (Some data).
Proof.
  intros H Hn Hk. destruct (store_shape _ _ _ _ _ _ _ _ _ H) as [Hh [Hi [_ [Hno [Ht [_ Hs]]]]]].
  destruct (split_indices key (eff_threshold t) (eff_total t n) rnd (eff_bounds t n) Hn) as [shares [Hs' [_ [Hl _]]]].
  rewrite Hs in Hs'. inversion Hs'; subst shares.
  unfold fetch. pose proof (eff_bounds t n).
  assert (E : (m_threshold m <=? 0) || (zlen (m_shards m) <? m_threshold m) = false) by lia. rewrite E, Hk.
  rewrite Hh, Hno. f_equal. apply cryptomanager_roundtrip.
Qed.

(* ... and replica import on another node / the CLI (same checks, plus the hash comparison) *)
Theorem receive_genuine id data key nonce t n rnd held m : store id data key nonce t n rnd = Val (held, m) ->
  eff_total t n <= 255 ->
  combine (m_shards m) (m_threshold m) = Val key ->
  receive m held = Val (Some data).
Proof.
  intros H Hn Hk. destruct (store_shape _ _ _ _ _ _ _ _ _ H) as [Hh [Hi [Hha [Hno [Ht [_ Hs]]]]]].
  destruct (split_indices key (eff_threshold t) (eff_total t n) rnd (eff_bounds t n) Hn) as [shares [Hs' [_ [Hl _]]]].
  rewrite Hs in Hs'. inversion Hs'; subst shares.
  unfold receive. pose proof (eff_bounds t n).
  assert (E : (m_threshold m <=? 0) || (zlen (m_shards m) <? m_threshold m) = false) by lia.
  assert (V : validate_shards m = true).
  { unfold validate_shards. rewrite E. cbn [negb andb]. revert Hk. unfold combine.
    destruct (zlen (m_shards m) <? m_threshold m); [discriminate|].
    destruct (has_dup (map s_index (firstn (Z.to_nat (m_threshold m)) (m_shards m)))); [discriminate | reflexivity]. }
  rewrite V, Hk. cbn [negb].
  rewrite Hh, Hi, Hno, cryptomanager_roundtrip, Hha, list_eqb_refl. reflexivity.
Qed.

(* threshold 1 needs no assumption: the single share is the key (C10's proved case) *)
Lemma firstn_1_cons {A} (x : A) l : firstn 1 (x :: l) = [x]. Proof. reflexivity. Qed.

(* any manifest, any bytes: what is accepted decrypts -- under the key the manifest's shares reconstruct -- to bytes whose
   SHA-256 is the manifest's content hash; nothing else is ever accepted *)
Theorem receive_sound m c p : receive m c = Val (Some p) ->
  exists k, combine (m_shards m) (m_threshold m) = Val k /\
            p = apply k (m_nonce m) c (derive_counter (m_id m)) /\ sha256 p = m_hash m /\
            0 < m_threshold m <= zlen (m_shards m).
Proof.
  unfold receive. destruct (validate_shards m) eqn:V; cbn [negb]; [|discriminate].
  assert (E : (m_threshold m <=? 0) || (zlen (m_shards m) <? m_threshold m) = false).
  { unfold validate_shards in V. destruct ((m_threshold m <=? 0) || (zlen (m_shards m) <? m_threshold m)); [discriminate | reflexivity]. }
  destruct (combine (m_shards m) (m_threshold m)) as [k|e]; [|discriminate].
  unfold decrypt_with_key. destruct (list_eqb (sha256 _) (m_hash m)) eqn:Hh; [|discriminate].
  intros H. inversion H; subst. exists k. split; [reflexivity|]. split; [reflexivity|].
  split; [apply list_eqb_spec; exact Hh | lia].
Qed.

(* a replica that does not hash to the manifest's hash is refused, whatever else is true of it *)
Theorem receive_refuses_mismatch m c k : combine (m_shards m) (m_threshold m) = Val k ->
  sha256 (apply k (m_nonce m) c (derive_counter (m_id m))) <> m_hash m -> receive m c = Val None.
Proof.
  intros Hk Hne. unfold receive. destruct (negb (validate_shards m)); [reflexivity|]. rewrite Hk. unfold decrypt_with_key.
  destruct (list_eqb (sha256 _) (m_hash m)) eqn:E; [apply list_eqb_spec in E; contradiction | reflexivity].
Qed.

(* a manifest whose shard indices are bytes never makes replica import throw: the shard check excludes exactly the sets
   Shamir::combine refuses (C35: the exception would end the session thread, and with it the process) *)
Theorem receive_never_throws m c : Forall byte_ok (map s_index (m_shards m)) -> forall e, receive m c <> Throw e.
Proof.
  intros Hb e. unfold receive. destruct (validate_shards m) eqn:V; cbn [negb]; [|discriminate].
  unfold validate_shards in V. apply andb_true_iff in V. destruct V as [V1 V2].
  assert (Ht : 0 <= m_threshold m <= zlen (m_shards m)) by lia.
  assert (Hn : NoDup (map s_index (firstn (Z.to_nat (m_threshold m)) (m_shards m)))).
  { apply has_dup_spec. destruct (has_dup _); [discriminate | reflexivity]. }
  destruct (combine_total_on_good_sets (m_shards m) (m_threshold m) Ht Hb Hn) as [k [Ek _]]. rewrite Ek.
  destruct (decrypt_with_key k (m_id m) c (m_nonce m)) as [p|]; [destruct (list_eqb _ _)|]; discriminate.
Qed.

(* changing ciphertext bytes changes the decryption at exactly those bytes (stream cipher): a corrupted replica of an
   honest manifest decrypts to something other than the payload *)
Theorem corrupted_ciphertext_decrypts_differently key nonce ctr c c' :
  length c = length c' -> c <> c' -> apply key nonce c ctr <> apply key nonce c' ctr.
Proof.
  intros Hl Hne E. apply Hne. rewrite <- (apply_involution key nonce c ctr), <- (apply_involution key nonce c' ctr). rewrite E. reflexivity.
Qed.
