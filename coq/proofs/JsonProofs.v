(* Proofs about model/JsonModel.v (C38). *)
Require Import ZArith List Bool Lia ZifyBool.
Import ListNotations.
Local Open Scope Z_scope.
From EphVerif Require Import lib.Bytes lib.Sweep model.JsonModel gen.Constants_json.

(* break the if / match structure of a hypothesis that says a parser step succeeded *)
Ltac brk H :=
  repeat (match type of H with
          | context [if ?b then _ else _] => destruct b eqn:?
          | context [match ?x with _ => _ end] => destruct x eqn:?
          end; try discriminate).

(* ---------------------------------------------------------------- every step consumes input *)
Lemma skip_ws_len l : (length (skip_ws l) <= length l)%nat.
Proof. induction l as [|c r IH]; cbn [skip_ws length]; [lia|]. destruct (is_ws c); cbn [length]; lia. Qed.

Lemma string_body_shorter n : forall l acc s r, (length l <= n)%nat ->
  string_body l acc = Ok s r -> (length r < length l)%nat.
Proof.
  induction n as [|n IH]; intros l acc s r Hn H.
  - destruct l; [cbn in H; discriminate | cbn [length] in Hn; lia].
  - destruct l as [|c r0]; [cbn in H; discriminate|]. cbn [string_body] in H. cbn [length] in *.
    destruct (c =? 34) eqn:E1; [injection H as <- <-; lia|].
    destruct (c =? 92) eqn:E2; [|apply IH in H; lia].
    destruct r0 as [|e r1]; [discriminate|]. cbn [length] in *.
    destruct (simple_escape e) as [b|] eqn:E3; [apply IH in H; lia|].
    destruct (e =? 117) eqn:E4; [|discriminate].
    destruct r1 as [|h1 [|h2 [|h3 [|h4 r2]]]]; try discriminate. cbn [length] in *.
    destruct (hex4 h1 h2 h3 h4) as [cp|] eqn:E5; [|discriminate].
    destruct (is_low_surrogate cp) eqn:E6; [discriminate|].
    destruct (is_high_surrogate cp) eqn:E7; [|apply IH in H; lia].
    destruct r2 as [|b1 [|u1 [|g1 [|g2 [|g3 [|g4 r3]]]]]]; try discriminate. cbn [length] in *.
    destruct ((b1 =? 92) && (u1 =? 117)) eqn:E8; [|discriminate].
    destruct (hex4 g1 g2 g3 g4) as [low|] eqn:E9; [|discriminate].
    destruct (is_low_surrogate low) eqn:E10; [|discriminate].
    apply IH in H; lia.
Qed.

Lemma parse_string_shorter l s r : parse_string l = Ok s r -> (length r < length l)%nat.
Proof.
  unfold parse_string. destruct l as [|c r0]; [discriminate|]. destruct (c =? 34); [|discriminate].
  intros H. apply (string_body_shorter (length r0)) in H; [cbn [length]; lia | lia].
Qed.

Lemma string_body_not_fuel n : forall l acc, (length l <= n)%nat -> string_body l acc <> Fuel.
Proof.
  induction n as [|n IH]; intros l acc Hn.
  - destruct l; [discriminate | cbn [length] in Hn; lia].
  - destruct l as [|c r0]; [discriminate|]. cbn [string_body]. cbn [length] in *.
    destruct (c =? 34); [discriminate|]. destruct (c =? 92); [|apply IH; lia].
    destruct r0 as [|e r1]; [discriminate|]. cbn [length] in *.
    destruct (simple_escape e); [apply IH; lia|]. destruct (e =? 117); [|discriminate].
    destruct r1 as [|h1 [|h2 [|h3 [|h4 r2]]]]; try discriminate. cbn [length] in *.
    destruct (hex4 h1 h2 h3 h4) as [cp|]; [|discriminate]. destruct (is_low_surrogate cp); [discriminate|].
    destruct (is_high_surrogate cp); [|apply IH; lia].
    destruct r2 as [|b1 [|u1 [|g1 [|g2 [|g3 [|g4 r3]]]]]]; try discriminate. cbn [length] in *.
    destruct ((b1 =? 92) && (u1 =? 117)); [|discriminate]. destruct (hex4 g1 g2 g3 g4) as [low|]; [|discriminate].
    destruct (is_low_surrogate low); [apply IH; lia | discriminate].
Qed.

Lemma parse_string_not_fuel l : parse_string l <> Fuel.
Proof.
  unfold parse_string. destruct l as [|c r0]; [discriminate|]. destruct (c =? 34); [|discriminate].
  apply (string_body_not_fuel (length r0)). lia.
Qed.

Lemma take_digits_len l d rest : take_digits l = (d, rest) -> (length d + length rest = length l)%nat.
Proof.
  revert d rest. induction l as [|c r IH]; intros d rest H; cbn [take_digits] in H; [injection H as <- <-; reflexivity|].
  destruct (is_digit c).
  - destruct (take_digits r) as [d' rest'] eqn:E. injection H as <- <-. specialize (IH d' rest' eq_refl). cbn [length]. lia.
  - injection H as <- <-. cbn [length]. lia.
Qed.

Lemma take_digits_first l c r : l = c :: r -> is_digit c = true -> forall d rest, take_digits l = (d, rest) -> (length rest < length l)%nat.
Proof.
  intros -> Hc d rest H. cbn [take_digits] in H. rewrite Hc in H. destruct (take_digits r) as [d' rest'] eqn:E.
  injection H as <- <-. apply take_digits_len in E. cbn [length]. lia.
Qed.

Lemma is_prefix_shorter p l r : p <> [] -> is_prefix p l = Some r -> (length r < length l)%nat.
Proof.
  revert l. induction p as [|x p IH]; intros l Hp H; [congruence|].
  destruct l as [|y l]; cbn [is_prefix] in H; [discriminate|]. destruct (x =? y); [|discriminate].
  destruct p as [|x2 p2]; [cbn in H; injection H as <-; cbn [length]; lia|].
  apply IH in H; [cbn [length] in *; lia | discriminate].
Qed.

Lemma parse_number_progress l v r : parse_number l = Ok v r -> (length r < length l)%nat /\ (forall t, v <> JArr t) /\ (forall t, v <> JObj t).
Proof.
  unfold parse_number. intros H.
  assert (Hs : exists sign l1, (match l with c :: r0 => if c =? 45 then ([45], r0) else ([], l) | [] => ([], l) end) = (sign, l1) /\ (length l1 <= length l)%nat).
  { destruct l as [|c r0]; [eexists _, _; split; [reflexivity | lia]|]. destruct (c =? 45); eexists _, _; (split; [reflexivity | cbn [length]; lia]). }
  destruct Hs as (sign & l1 & Es & Hl1). rewrite Es in H.
  destruct l1 as [|c1 r1]; [discriminate|].
  assert (Hi : exists ip l2, (if c1 =? 48 then Some ([48], r1) else if is_digit c1 then Some (take_digits (c1 :: r1)) else None) = Some (ip, l2) /\ (length l2 < length (c1 :: r1))%nat).
  { destruct (c1 =? 48) eqn:E48; [eexists _, _; split; [reflexivity | cbn [length]; lia]|].
    destruct (is_digit c1) eqn:Ed; [|discriminate].
    destruct (take_digits (c1 :: r1)) as [ip l2] eqn:Et. exists ip, l2. split; [reflexivity|].
    eapply take_digits_first; [reflexivity | exact Ed | exact Et]. }
  destruct Hi as (ip & l2 & Ei & Hl2). rewrite Ei in H.
  (* fraction and exponent never lengthen the rest *)
  match type of H with (match ?fr with _ => _ end) = _ => destruct fr as [[fp l3]|] eqn:Ef end; [|discriminate].
  assert (Hl3 : (length l3 <= length l2)%nat).
  { destruct l2 as [|c2 r2]; [injection Ef as <- <-; lia|]. destruct (c2 =? 46).
    - destruct (is_digit (peek r2)); [|discriminate]. destruct (take_digits r2) as [d rest] eqn:Et. injection Ef as <- <-.
      apply take_digits_len in Et. cbn [length]. lia.
    - injection Ef as <- <-. lia. }
  match type of H with (match ?ex with _ => _ end) = _ => destruct ex as [[ep l4]|] eqn:Ee end; [|discriminate].
  assert (Hl4 : (length l4 <= length l3)%nat).
  { destruct l3 as [|c3 r3]; [injection Ee as <- <-; lia|]. destruct ((c3 =? 101) || (c3 =? 69)); [|injection Ee as <- <-; lia].
    destruct r3 as [|s r4].
    - cbn in Ee. discriminate.
    - destruct ((s =? 43) || (s =? 45)).
      + destruct (is_digit (peek r4)); [|discriminate]. destruct (take_digits r4) as [d rest] eqn:Et. injection Ee as <- <-.
        apply take_digits_len in Et. cbn [length]. lia.
      + destruct (is_digit (peek (s :: r4))); [|discriminate]. destruct (take_digits (s :: r4)) as [d rest] eqn:Et. injection Ee as <- <-.
        apply take_digits_len in Et. cbn [length] in *. lia. }
  injection H as <- <-. cbn [length] in *. split; [lia|]. split; intros t; discriminate.
Qed.

Lemma parse_number_not_fuel l : parse_number l <> Fuel.
Proof.
  unfold parse_number. intros H. brk H.
Qed.

(* ---------------------------------------------------------------- the member loops, for any child parser that
   consumes input and never runs out of fuel *)
Section LoopFacts.
  Variable pv : list Z -> res json.
  Hypothesis pv_progress : forall l v r, pv l = Ok v r -> (length r < length l)%nat.
  Hypothesis pv_not_fuel : forall l, pv l <> Fuel.

  Lemma arr_loop_facts n : forall l acc, (length l < n)%nat ->
    arr_loop pv n l acc <> Fuel /\ forall v r, arr_loop pv n l acc = Ok v r -> (length r < length l)%nat.
  Proof.
    induction n as [|n IH]; intros l acc Hn; [lia|]. cbn [arr_loop].
    pose proof (skip_ws_len l) as W.
    destruct (pv (skip_ws l)) as [v l1| e |] eqn:E; [| split; [discriminate | intros; discriminate] | exfalso; exact (pv_not_fuel _ E)].
    apply pv_progress in E. pose proof (skip_ws_len l1) as W1.
    destruct (skip_ws l1) as [|c r] eqn:E1; [split; [discriminate | intros; discriminate]|]. cbn [length] in W1.
    destruct (c =? 93); [split; [discriminate | intros v' r' H; injection H as <- <-; lia]|].
    destruct (c =? 44); [|split; [discriminate | intros; discriminate]].
    pose proof (skip_ws_len r) as W2.
    destruct (IH (skip_ws r) (v :: acc) ltac:(lia)) as [F P]. split; [exact F|].
    intros v' r' H. apply P in H. lia.
  Qed.

  Lemma obj_loop_facts n : forall l acc, (length l < n)%nat ->
    obj_loop pv n l acc <> Fuel /\ forall v r, obj_loop pv n l acc = Ok v r -> (length r < length l)%nat.
  Proof.
    induction n as [|n IH]; intros l acc Hn; [lia|]. cbn [obj_loop]. cbv zeta.
    pose proof (skip_ws_len l) as W.
    destruct (negb (peek (skip_ws l) =? 34)); [split; [discriminate | intros; discriminate]|].
    destruct (parse_string (skip_ws l)) as [key l1| e |] eqn:Es;
      [| split; [discriminate | intros; discriminate] | exfalso; exact (parse_string_not_fuel _ Es)].
    apply parse_string_shorter in Es. pose proof (skip_ws_len l1) as W1.
    destruct (skip_ws l1) as [|c r] eqn:E1; [split; [discriminate | intros; discriminate]|]. cbn [length] in W1.
    destruct (c =? 58); [|split; [discriminate | intros; discriminate]].
    pose proof (skip_ws_len r) as W2.
    destruct (pv (skip_ws r)) as [v l2| e |] eqn:E; [| split; [discriminate | intros; discriminate] | exfalso; exact (pv_not_fuel _ E)].
    apply pv_progress in E. pose proof (skip_ws_len l2) as W3.
    destruct (skip_ws l2) as [|c2 r2] eqn:E2; [split; [discriminate | intros; discriminate]|]. cbn [length] in W3.
    destruct (c2 =? 125); [split; [discriminate | intros v' r' H; injection H as <- <-; lia]|].
    destruct (c2 =? 44); [|split; [discriminate | intros; discriminate]].
    pose proof (skip_ws_len r2) as W4.
    destruct (IH (skip_ws r2) ((key, v) :: acc) ltac:(lia)) as [F P]. split; [exact F|].
    intros v' r' H. apply P in H. lia.
  Qed.
End LoopFacts.

(* ---------------------------------------------------------------- parse_value: with nesting fuel above the depth budget it
   never runs out of fuel, and a success consumed input *)
Theorem parse_value_facts f : forall d, (d <= max_depth)%nat -> (max_depth < f + d)%nat ->
  (forall l, parse_value f d l <> Fuel) /\ (forall l v r, parse_value f d l = Ok v r -> (length r < length l)%nat).
Proof.
  induction f as [|f IH]; intros d Hd Hf; [lia|].
  assert (Child : (max_depth <=? d)%nat = false ->
                  (forall l, parse_value f (S d) l <> Fuel) /\
                  (forall l v r, parse_value f (S d) l = Ok v r -> (length r < length l)%nat)).
  { intros E. apply Nat.leb_gt in E. apply IH; lia. }
  split.
  - intros l. cbn [parse_value]. destruct l as [|c r]; [discriminate|].
    destruct (c =? 34). { pose proof (parse_string_not_fuel (c :: r)) as N. destruct (parse_string (c :: r)); [discriminate | discriminate | congruence]. }
    destruct ((c =? 123) || (c =? 91)).
    { destruct (max_depth <=? d)%nat eqn:E; [discriminate|]. destruct (Child eq_refl) as [CF CP]. cbv zeta.
      destruct (peek (skip_ws r) =? (if c =? 123 then 125 else 93)). { destruct (skip_ws r); discriminate. }
      destruct (c =? 123).
      - apply (obj_loop_facts _ CP CF). lia.
      - apply (arr_loop_facts _ CP CF). lia. }
    destruct (c =? 116). { destruct (is_prefix _ _); discriminate. }
    destruct (c =? 102). { destruct (is_prefix _ _); discriminate. }
    destruct (c =? 110). { destruct (is_prefix _ _); discriminate. }
    destruct ((c =? 45) || is_digit c); [apply parse_number_not_fuel | discriminate].
  - intros l v r0 H. cbn [parse_value] in H. destruct l as [|c r]; [discriminate|].
    destruct (c =? 34).
    { destruct (parse_string (c :: r)) as [s r'| |] eqn:Es; try discriminate. injection H as <- <-. apply parse_string_shorter in Es. exact Es. }
    destruct ((c =? 123) || (c =? 91)).
    { destruct (max_depth <=? d)%nat eqn:E; [discriminate|]. destruct (Child eq_refl) as [CF CP]. cbv zeta in H.
      pose proof (skip_ws_len r) as W.
      destruct (peek (skip_ws r) =? (if c =? 123 then 125 else 93)).
      { destruct (skip_ws r) as [|x r'] eqn:Er; [discriminate|]. injection H as <- <-. cbn [length] in *. lia. }
      destruct (c =? 123).
      - apply (obj_loop_facts _ CP CF (S (length (skip_ws r))) (skip_ws r) [] ltac:(lia)) in H. cbn [length]. lia.
      - apply (arr_loop_facts _ CP CF (S (length (skip_ws r))) (skip_ws r) [] ltac:(lia)) in H. cbn [length]. lia. }
    destruct (c =? 116). { destruct (is_prefix _ _) eqn:Ep; [|discriminate]. injection H as <- <-. apply is_prefix_shorter in Ep; [exact Ep | discriminate]. }
    destruct (c =? 102). { destruct (is_prefix _ _) eqn:Ep; [|discriminate]. injection H as <- <-. apply is_prefix_shorter in Ep; [exact Ep | discriminate]. }
    destruct (c =? 110). { destruct (is_prefix _ _) eqn:Ep; [|discriminate]. injection H as <- <-. apply is_prefix_shorter in Ep; [exact Ep | discriminate]. }
    destruct ((c =? 45) || is_digit c); [|discriminate]. apply parse_number_progress in H. tauto.
Qed.

(* for EVERY byte string the document parser ends with a value or an error: neither the nesting fuel nor any loop fuel
   runs out (the C++ loops consume input on every iteration and the recursion is cut at kMaxNestingDepth) *)
Theorem parse_document_total l : parse_document l <> Fuel.
Proof.
  unfold parse_document.
  destruct (parse_value_facts (S max_depth) 0 ltac:(lia) ltac:(lia)) as [F _].
  destruct (parse_value (S max_depth) 0 (skip_ws l)) eqn:E; [destruct (skip_ws rest); discriminate | discriminate | exfalso; exact (F _ E)].
Qed.

Theorem parse_update_metadata_total l : parse_update_metadata l = None \/ exists m, parse_update_metadata l = Some m.
Proof. destruct (parse_update_metadata l) as [m|]; [right; exists m; reflexivity | left; reflexivity]. Qed.

(* ---------------------------------------------------------------- nesting depth of what is accepted *)
Fixpoint depth_of (v : json) : nat :=
  match v with
  | JArr items => S (fold_right (fun x m => Nat.max (depth_of x) m) 0%nat items)
  | JObj members => S (fold_right (fun kv m => Nat.max (let '(_, x) := kv in depth_of x) m) 0%nat members)
  | _ => 0%nat
  end.

Lemma fold_max_le {A} (g : A -> nat) k l : Forall (fun x => (g x <= k)%nat) l ->
  (fold_right (fun x m => Nat.max (g x) m) 0%nat l <= k)%nat.
Proof. induction 1; cbn [fold_right]; lia. Qed.

Section LoopDepth.
  Variable pv : list Z -> res json.
  Variable k : nat.
  Hypothesis pv_depth : forall l v r, pv l = Ok v r -> (depth_of v <= k)%nat.

  Lemma arr_loop_depth n : forall l acc v r, Forall (fun x => (depth_of x <= k)%nat) acc ->
    arr_loop pv n l acc = Ok v r -> (depth_of v <= S k)%nat.
  Proof.
    induction n as [|n IH]; intros l acc v r Ha H; [discriminate|]. cbn [arr_loop] in H.
    destruct (pv (skip_ws l)) as [x l1| |] eqn:E; try discriminate. apply pv_depth in E.
    destruct (skip_ws l1) as [|c r1]; [discriminate|].
    destruct (c =? 93).
    - injection H as <- <-. cbn [depth_of]. apply le_n_S. apply fold_max_le.
      change (rev acc ++ [x]) with (rev (x :: acc)). apply Forall_rev. constructor; assumption.
    - destruct (c =? 44); [|discriminate]. eapply IH; [|exact H]. constructor; assumption.
  Qed.

  Lemma obj_loop_depth n : forall l acc v r, Forall (fun kv => (depth_of (snd kv) <= k)%nat) acc ->
    obj_loop pv n l acc = Ok v r -> (depth_of v <= S k)%nat.
  Proof.
    induction n as [|n IH]; intros l acc v r Ha H; [discriminate|]. cbn [obj_loop] in H. cbv zeta in H.
    destruct (negb (peek (skip_ws l) =? 34)); [discriminate|].
    destruct (parse_string (skip_ws l)) as [key l1| |]; try discriminate.
    destruct (skip_ws l1) as [|c r1]; [discriminate|]. destruct (c =? 58); [|discriminate].
    destruct (pv (skip_ws r1)) as [x l2| |] eqn:E; try discriminate. apply pv_depth in E.
    destruct (skip_ws l2) as [|c2 r2]; [discriminate|].
    destruct (c2 =? 125).
    - injection H as <- <-. cbn [depth_of]. apply le_n_S.
      assert (F : Forall (fun kv : list Z * json => ((let '(_, x) := kv in depth_of x) <= k)%nat) (rev ((key, x) :: acc))).
      { apply Forall_rev. constructor; [exact E|]. eapply Forall_impl; [|exact Ha]. intros [a b] Hb. exact Hb. }
      apply (fold_max_le (fun kv : list Z * json => let '(_, x) := kv in depth_of x) k _ F).
    - destruct (c2 =? 44); [|discriminate]. eapply IH; [|exact H]. constructor; assumption.
  Qed.
End LoopDepth.

Theorem parse_value_depth f : forall d l v r, parse_value f d l = Ok v r -> (depth_of v + d <= max_depth)%nat \/ depth_of v = 0%nat.
Proof.
  induction f as [|f IH]; intros d l v r H; [discriminate|]. cbn [parse_value] in H.
  destruct l as [|c r0]; [discriminate|].
  destruct (c =? 34). { destruct (parse_string (c :: r0)); try discriminate. injection H as <- <-. right. reflexivity. }
  destruct ((c =? 123) || (c =? 91)).
  { destruct (max_depth <=? d)%nat eqn:E; [discriminate|]. apply Nat.leb_gt in E. cbv zeta in H. left.
    destruct (peek (skip_ws r0) =? (if c =? 123 then 125 else 93)).
    { destruct (skip_ws r0); [discriminate|]. injection H as <- <-. destruct (c =? 123); cbn [depth_of fold_right]; lia. }
    assert (Hc : forall l' v' r', parse_value f (S d) l' = Ok v' r' -> (depth_of v' <= max_depth - S d)%nat).
    { intros l' v' r' H'. apply IH in H'. lia. }
    destruct (c =? 123).
    - apply (obj_loop_depth _ (max_depth - S d) Hc) in H; [lia | constructor].
    - apply (arr_loop_depth _ (max_depth - S d) Hc) in H; [lia | constructor]. }
  right.
  destruct (c =? 116). { destruct (is_prefix _ _); [|discriminate]. injection H as <- <-. reflexivity. }
  destruct (c =? 102). { destruct (is_prefix _ _); [|discriminate]. injection H as <- <-. reflexivity. }
  destruct (c =? 110). { destruct (is_prefix _ _); [|discriminate]. injection H as <- <-. reflexivity. }
  destruct ((c =? 45) || is_digit c); [|discriminate]. apply parse_number_progress in H.
  destruct H as (_ & Ha & Ho). destruct v; try reflexivity; [exfalso; eapply Ha; reflexivity | exfalso; eapply Ho; reflexivity].
Qed.

Theorem parse_document_depth l v r : parse_document l = Ok v r -> (depth_of v <= max_depth)%nat.
Proof.
  unfold parse_document. destruct (parse_value (S max_depth) 0 (skip_ws l)) as [x r0| |] eqn:E; try discriminate.
  destruct (skip_ws r0); [|discriminate]. intros H. injection H as <- <-. apply parse_value_depth in E. lia.
Qed.

(* ---------------------------------------------------------------- strings: RFC 8259 section 7 / RFC 3629 *)
(* UTF-8 of a Unicode scalar value, arithmetically (RFC 3629 table) *)
Definition utf8_spec (cp : Z) : list Z :=
  if cp <? 128 then [cp]
  else if cp <? 2048 then [192 + cp / 64; 128 + cp mod 64]
  else if cp <? 65536 then [224 + cp / 4096; 128 + (cp / 64) mod 64; 128 + cp mod 64]
  else [240 + cp / 262144; 128 + (cp / 4096) mod 64; 128 + (cp / 64) mod 64; 128 + cp mod 64].

(* exhaustive check over every code point 0 .. 0x10FFFF (1 114 112 values) *)
Definition utf8_ok (i : Z) : bool := list_eqb (append_utf8 i) (utf8_spec i).

Lemma utf8_sweep : sweep utf8_ok 0 1114112 = true.
Proof. vm_compute. reflexivity. Qed.

Theorem append_utf8_correct cp : 0 <= cp < 1114112 -> append_utf8 cp = utf8_spec cp.
Proof.
  intros H. apply list_eqb_spec. change (utf8_ok cp = true).
  apply (sweep_spec utf8_ok 1114112 0 utf8_sweep). lia.
Qed.

(* hexadecimal digits in either case *)
Definition hexd (upper : bool) (v : Z) : Z := if v <? 10 then 48 + v else (if upper then 65 else 97) + (v - 10).
Definition hex4_text (upper : bool) (v : Z) : list Z :=
  [hexd upper (v / 4096); hexd upper ((v / 256) mod 16); hexd upper ((v / 16) mod 16); hexd upper (v mod 16)].

Definition hex_check (up : bool) (v : Z) : bool :=
  match hex4_text up v with
  | [a; b; c; d] => match hex4 a b c d with Some w => w =? v | None => false end
  | _ => false
  end.
Lemma hex_sweep_lower : sweep (hex_check false) 0 65536 = true.
Proof. vm_compute. reflexivity. Qed.
Lemma hex_sweep_upper : sweep (hex_check true) 0 65536 = true.
Proof. vm_compute. reflexivity. Qed.

Lemma hex4_of_text up v : 0 <= v < 65536 ->
  hex4 (hexd up (v / 4096)) (hexd up ((v / 256) mod 16)) (hexd up ((v / 16) mod 16)) (hexd up (v mod 16)) = Some v.
Proof.
  intros H.
  assert (C : hex_check up v = true).
  { destruct up; [apply (sweep_spec (hex_check true) 65536 0 hex_sweep_upper) | apply (sweep_spec (hex_check false) 65536 0 hex_sweep_lower)]; lia. }
  unfold hex_check, hex4_text in C.
  destruct (hex4 _ _ _ _) as [w|]; [|discriminate]. f_equal. lia.
Qed.

(* the pieces a JSON string literal is made of, and what each stands for *)
Inductive item :=
| Raw (c : Z)                         (* any byte other than the quote and the backslash, copied *)
| Esc (e : Z)                         (* backslash + one of  quote backslash / b f n r t *)
| U (upper : bool) (cp : Z)           (* \uXXXX for a BMP scalar value *)
| Pair (up1 up2 : bool) (cp : Z).     (* \uHHHH\uLLLL for a scalar value above U+FFFF *)

Definition item_ok (i : item) : Prop :=
  match i with
  | Raw c => c <> 34 /\ c <> 92
  | Esc e => simple_escape e <> None
  | U _ cp => 0 <= cp < 65536 /\ ~ (55296 <= cp <= 57343)
  | Pair _ _ cp => 65536 <= cp < 1114112
  end.

Definition render (i : item) : list Z :=
  match i with
  | Raw c => [c]
  | Esc e => [92; e]
  | U up cp => 92 :: 117 :: hex4_text up cp
  | Pair u1 u2 cp => let v := cp - 65536 in
                     92 :: 117 :: hex4_text u1 (55296 + v / 1024) ++ 92 :: 117 :: hex4_text u2 (56320 + v mod 1024)
  end.

Definition value_of (i : item) : list Z :=
  match i with
  | Raw c => [c]
  | Esc e => match simple_escape e with Some b => [b] | None => [] end
  | U _ cp => utf8_spec cp
  | Pair _ _ cp => utf8_spec cp
  end.

Theorem string_body_decodes items : Forall item_ok items -> forall rest acc,
  string_body (flat_map render items ++ 34 :: rest) acc = Ok (acc ++ flat_map value_of items) rest.
Proof.
  induction 1 as [|i items Hi Hr IH]; intros rest acc.
  - cbn. rewrite app_nil_r. reflexivity.
  - cbn [flat_map]. rewrite <- app_assoc. destruct i as [c|e|up cp|u1 u2 cp]; cbn [item_ok render value_of] in *.
    + destruct Hi as [H1 H2]. cbn [app string_body].
      assert ((c =? 34) = false) by lia. assert ((c =? 92) = false) by lia. rewrite H, H0.
      rewrite IH, <- app_assoc. reflexivity.
    + cbn [app string_body]. destruct (simple_escape e) as [b|] eqn:E; [|congruence].
      rewrite IH, <- app_assoc. reflexivity.
    + destruct Hi as [H1 H2]. unfold hex4_text. cbn [app string_body]. cbn [simple_escape].
      change (simple_escape 117) with (@None Z). cbv iota. change (117 =? 117) with true. cbv iota.
      rewrite (hex4_of_text up cp H1).
      assert (L : is_low_surrogate cp = false) by (unfold is_low_surrogate; lia).
      assert (Hh : is_high_surrogate cp = false) by (unfold is_high_surrogate; lia).
      rewrite L, Hh. rewrite IH, <- app_assoc. rewrite append_utf8_correct by lia. reflexivity.
    + set (v := cp - 65536) in *.
      assert (Hv : 0 <= v < 1048576) by (unfold v; lia).
      set (hi := 55296 + v / 1024). set (lo := 56320 + v mod 1024).
      assert (Hhi : 55296 <= hi <= 56319) by (unfold hi; lia).
      assert (Hlo : 56320 <= lo <= 57343) by (unfold lo; lia).
      unfold hex4_text. cbn [app string_body].
      change (simple_escape 117) with (@None Z). cbv iota. change (117 =? 117) with true. cbv iota.
      rewrite (hex4_of_text u1 hi) by lia.
      assert (L : is_low_surrogate hi = false) by (unfold is_low_surrogate; lia).
      assert (Hh : is_high_surrogate hi = true) by (unfold is_high_surrogate; lia).
      rewrite L, Hh. cbn [app]. change ((92 =? 92) && (117 =? 117)) with true. cbv iota.
      rewrite (hex4_of_text u2 lo) by lia.
      assert (L2 : is_low_surrogate lo = true) by (unfold is_low_surrogate; lia). rewrite L2.
      assert (Ec : combine_surrogates hi lo = cp).
      { unfold combine_surrogates, hi, lo. rewrite Z.shiftl_mul_pow2 by lia. change (2 ^ 10) with 1024. unfold v. lia. }
      rewrite Ec, IH, <- app_assoc. rewrite append_utf8_correct by lia. reflexivity.
Qed.

Theorem parse_string_decodes items rest : Forall item_ok items ->
  parse_string (34 :: flat_map render items ++ 34 :: rest) = Ok (flat_map value_of items) rest.
Proof. intros H. unfold parse_string. change (34 =? 34) with true. cbv iota. apply (string_body_decodes items H rest []). Qed.

(* unpaired surrogates have no UTF-8 value and are refused *)
Theorem lone_surrogate_refused up cp tail acc : 55296 <= cp <= 57343 ->
  (forall a b c d r, tail = 92 :: 117 :: a :: b :: c :: d :: r ->
                     match hex4 a b c d with Some low => is_low_surrogate low = false | None => True end) ->
  exists e, string_body (92 :: 117 :: hex4_text up cp ++ tail) acc = Err e.
Proof.
  intros Hcp Hnext. unfold hex4_text. cbn [app string_body].
  change (simple_escape 117) with (@None Z). cbv iota. change (117 =? 117) with true. cbv iota.
  rewrite (hex4_of_text up cp) by lia.
  destruct (is_low_surrogate cp) eqn:L; [eexists; reflexivity|].
  assert (Hh : is_high_surrogate cp = true) by (unfold is_high_surrogate, is_low_surrogate in *; lia). rewrite Hh.
  destruct tail as [|b1 [|u1 [|g1 [|g2 [|g3 [|g4 r3]]]]]]; try (eexists; reflexivity).
  destruct ((b1 =? 92) && (u1 =? 117)) eqn:E; [|eexists; reflexivity].
  assert (b1 = 92 /\ u1 = 117) as [-> ->] by lia.
  specialize (Hnext g1 g2 g3 g4 r3 eq_refl).
  destruct (hex4 g1 g2 g3 g4) as [low|]; [|eexists; reflexivity]. rewrite Hnext. eexists; reflexivity.
Qed.
