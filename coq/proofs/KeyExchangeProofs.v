(* Proofs about model/KeyExchangeModel.v (C12). *)
Require Import ZArith List Bool Lia ZifyBool Zpow_facts.
Import ListNotations.
Local Open Scope Z_scope.
From EphVerif Require Import lib.Bytes model.Sha256Model model.KeyExchangeModel gen.Constants_keyexchange.

(* ---- modexp computes base^e mod m, and no uint64_t product wraps ---- *)
Lemma modexp_loop_spec m : 0 < m < two32 -> forall fuel e result base,
  0 <= e < 2 ^ Z.of_nat fuel -> 0 <= result < m -> 0 <= base < m ->
  modexp_loop fuel result base e m = (result * base ^ e) mod m.
Proof.
  intros Hm. induction fuel as [|f IH]; intros e result base He Hr Hb.
  - simpl in He. assert (e = 0) by lia. subst. cbn [modexp_loop]. rewrite Z.pow_0_r, Z.mul_1_r. symmetry. apply Z.mod_small. lia.
  - cbn [modexp_loop]. destruct (e <=? 0) eqn:E0.
    + assert (e = 0) by lia. subst. rewrite Z.pow_0_r, Z.mul_1_r. symmetry. apply Z.mod_small. lia.
    + assert (Hprod1 : 0 <= result * base < two64) by (unfold two64, two32 in *; nia).
      assert (Hprod2 : 0 <= base * base < two64) by (unfold two64, two32 in *; nia).
      rewrite (Z.mod_small (result * base) two64 Hprod1), (Z.mod_small (base * base) two64 Hprod2).
      assert (He2 : 0 <= e / 2 < 2 ^ Z.of_nat f).
      { rewrite Nat2Z.inj_succ, Z.pow_succ_r in He by lia. split; [apply Z.div_pos; lia | apply Z.div_lt_upper_bound; lia]. }
      assert (Hsq : 0 <= (base * base) mod m < m) by (apply Z.mod_pos_bound; lia).
      pose proof (Z.div_mod e 2 ltac:(lia)) as Hdm.
      assert (Hpow : base ^ e = (base * base) ^ (e / 2) * base ^ (e mod 2)).
      { rewrite Hdm at 1. rewrite Z.pow_add_r by (try apply Z.mul_nonneg_nonneg; try apply Z.mod_pos_bound; lia).
        rewrite Z.pow_mul_r by lia. replace (base ^ 2) with (base * base) by (rewrite Z.pow_2_r; reflexivity). reflexivity. }
      destruct (Z.odd e) eqn:Eo.
      * assert (Hmod : e mod 2 = 1) by (rewrite Zmod_odd, Eo; reflexivity).
        rewrite IH by (try apply Z.mod_pos_bound; lia).
        rewrite Hpow, Hmod, Z.pow_1_r.
        rewrite <- Zmult_mod_idemp_r. rewrite <- (Zpower_mod (base * base)) by lia. rewrite Zmult_mod_idemp_r.
        rewrite Zmult_mod_idemp_l. f_equal. ring.
      * assert (Hmod : e mod 2 = 0) by (rewrite Zmod_odd, Eo; reflexivity).
        rewrite IH by lia.
        rewrite Hpow, Hmod, Z.pow_0_r, Z.mul_1_r.
        rewrite <- Zmult_mod_idemp_r. rewrite <- (Zpower_mod (base * base)) by lia. rewrite Zmult_mod_idemp_r.
        reflexivity.
Qed.

Theorem modexp_spec base e m : 0 < m < two32 -> 0 <= e < two32 -> modexp base e m = (base ^ e) mod m.
Proof.
  intros Hm He. unfold modexp.
  rewrite (modexp_loop_spec m Hm 32 e (1 mod m) (base mod m)); try (apply Z.mod_pos_bound; lia).
  - rewrite Z.mod_mod by lia.
    assert (Hr : 0 <= (1 mod m * (base mod m) ^ e) mod m < m) by (apply Z.mod_pos_bound; lia).
    rewrite (Z.mod_small _ two32) by lia.
    rewrite Zmult_mod_idemp_l, Z.mul_1_l. rewrite <- Zpower_mod by lia. reflexivity.
  - unfold two32 in He. change (2 ^ Z.of_nat 32) with 4294967296. lia.
Qed.

Lemma kx_prime_range : 0 < kx_prime < two32.
Proof. unfold two32. split; reflexivity. Qed.

Lemma modexp_range base e : 0 <= e < two32 -> 0 <= modexp base e kx_prime < kx_prime.
Proof. intros He. rewrite modexp_spec by (apply kx_prime_range || assumption). apply Z.mod_pos_bound. reflexivity. Qed.

(* ---- Diffie-Hellman agreement for every pair of private scalars ---- *)
Theorem dh_agreement a b : 0 <= a < two32 -> 0 <= b < two32 ->
  modexp (compute_public a mod kx_prime) b kx_prime = modexp (compute_public b mod kx_prime) a kx_prime.
Proof.
  intros Ha Hb. unfold compute_public. pose proof kx_prime_range as Hp.
  rewrite !(modexp_spec _ _ kx_prime) by assumption.
  rewrite !Z.mod_mod by lia. rewrite <- !Zpower_mod by lia.
  rewrite <- !Z.pow_mul_r by lia. f_equal. f_equal. ring.
Qed.

Lemma material_sym p q : make_handshake_material p q = make_handshake_material q p.
Proof. unfold make_handshake_material. rewrite Z.min_comm, Z.max_comm. reflexivity. Qed.

(* both ends of a mutual handshake hold the same session key *)
Theorem same_session_key a b : 0 <= a < two32 -> 0 <= b < two32 ->
  session_key a (compute_public a) (compute_public b) = session_key b (compute_public b) (compute_public a).
Proof.
  intros Ha Hb. unfold session_key, derive_shared_secret.
  rewrite (dh_agreement b a Hb Ha). rewrite (material_sym (compute_public a)). reflexivity.
Qed.

(* the shared value is g^(ab) mod p *)
Theorem shared_scalar_value a b : 0 <= a < two32 -> 0 <= b < two32 ->
  modexp (compute_public b mod kx_prime) a kx_prime = (kx_generator ^ (a * b)) mod kx_prime.
Proof.
  intros Ha Hb. unfold compute_public. pose proof kx_prime_range as Hp.
  rewrite !(modexp_spec _ _ kx_prime) by assumption. rewrite Z.mod_mod by lia. rewrite <- Zpower_mod by lia.
  rewrite <- Z.pow_mul_r by lia. f_equal. f_equal. ring.
Qed.

(* the key material binds the unordered pair of public keys *)
Lemma be32_inj a b : 0 <= a < two32 -> 0 <= b < two32 -> be32 a = be32 b -> a = b.
Proof. unfold two32. intros Ha Hb H. unfold be32 in H. injection H as H1 H2 H3 H4. lia. Qed.

Theorem material_injective p q p' q' :
  0 <= p < two32 -> 0 <= q < two32 -> 0 <= p' < two32 -> 0 <= q' < two32 ->
  make_handshake_material p q = make_handshake_material p' q' ->
  (p = p' /\ q = q') \/ (p = q' /\ q = p').
Proof.
  intros Hp Hq Hp' Hq' H. unfold make_handshake_material in H.
  assert (L : be32 (Z.min p q) = be32 (Z.min p' q') /\ be32 (Z.max p q) = be32 (Z.max p' q')).
  { unfold be32 in *. cbn [app] in H. injection H as H1 H2 H3 H4 H5 H6 H7 H8. split; congruence. }
  destruct L as [L1 L2]. apply be32_inj in L1; [|lia|lia]. apply be32_inj in L2; [|lia|lia]. lia.
Qed.

Theorem validate_public_iff c : validate_public c = true <-> 1 < c < kx_prime.
Proof. unfold validate_public. lia. Qed.

Theorem session_key_is_hmac priv mine remote :
  session_key priv mine remote =
  hmac (sha256 (be32 (modexp (remote mod kx_prime) priv kx_prime)))
       (be32 (Z.min mine remote) ++ be32 (Z.max mine remote)).
Proof. reflexivity. Qed.

(* ---- the newest accepted handshake of a peer decides the key held for it ---- *)
Lemma km_current_filter m peer q : q <> peer ->
  km_current (filter (fun e => negb (fst e =? peer)) m) q = km_current m q.
Proof.
  intros Hq. induction m as [|[p k] r IH]; cbn [filter km_current fst]; [reflexivity|].
  destruct (p =? peer) eqn:E; cbn [negb km_current].
  - assert ((p =? q) = false) by lia. rewrite H. exact IH.
  - destruct (p =? q); [reflexivity | exact IH].
Qed.

Theorem km_register_current m peer key :
  km_current (km_register m peer key) peer = Some key /\
  forall q, q <> peer -> km_current (km_register m peer key) q = km_current m q.
Proof.
  unfold km_register. cbn [km_current]. rewrite Z.eqb_refl. split; [reflexivity|].
  intros q Hq. assert ((peer =? q) = false) by lia. rewrite H. apply km_current_filter. exact Hq.
Qed.

Theorem latest_handshake_wins priv hs peer pub :
  km_current (accept_all priv (hs ++ [(peer, pub)])) peer = Some (session_key priv (compute_public priv) pub).
Proof.
  unfold accept_all. rewrite fold_left_app. cbn [fold_left fst snd]. apply km_register_current.
Qed.

(* so a peer that re-handshakes under the same id with a new scalar and the node hold the same key again *)
Theorem rehandshake_same_key a hs peer b2 : 0 <= a < two32 -> 0 <= b2 < two32 ->
  km_current (accept_all a (hs ++ [(peer, compute_public b2)])) peer =
  Some (session_key b2 (compute_public b2) (compute_public a)).
Proof. intros Ha Hb. rewrite latest_handshake_wins. f_equal. apply same_session_key; assumption. Qed.
