(* Proofs about model/HandshakeModel.v (C20). *)
Require Import ZArith List Bool Lia ZifyBool.
Import ListNotations.
Local Open Scope Z_scope.
From EphVerif Require Import lib.Bytes model.HandshakeModel gen.Constants_handshake gen.Constants_keyexchange.

Section Proofs.
  Variable pow : Z -> Z -> bool.
  Variable cooldown : Z.

  (* what a successful record stands for *)
  Definition Inv (ps : peer_state) : Prop :=
    rep_min_score <= score ps <= rep_max_score /\
    match rec ps with
    | Some r => success r = true ->
                validate_public (remote_public r) = true /\ pow (remote_public r) (remote_nonce r) = true /\
                key_pub ps = Some (remote_public r)
    | None => True
    end.

  Lemma Inv_peer0 : Inv peer0.
  Proof. unfold Inv, peer0; cbn. split; [split; discriminate | exact I]. Qed.

  Lemma rep_consts : rep_failure_penalty = 2 /\ rep_success_reward = 1 /\ rep_min_score = -100 /\ rep_max_score = 100.
  Proof. repeat split; reflexivity. Qed.

  Theorem perform_inv ps now pub nonce : Inv ps -> Inv (snd (perform pow cooldown ps now pub nonce)).
  Proof.
    intros [Hs Hr]. destruct rep_consts as (K1 & K2 & K3 & K4). unfold perform.
    destruct (match rec ps with Some r => _ | None => false end); [split; assumption|].
    destruct (negb (validate_public pub)) eqn:Ev; cbn [snd].
    - unfold Inv; cbn [score rec success]. split; [unfold rep_failure; lia | discriminate].
    - destruct (negb (pow pub nonce)) eqn:Ep; cbn [snd].
      + unfold Inv; cbn [score rec success]. split; [unfold rep_failure; lia | discriminate].
      + unfold Inv; cbn [score rec success remote_public remote_nonce key_pub]. split; [unfold rep_success; lia|].
        intros _. destruct (validate_public pub); [|discriminate]. destruct (pow pub nonce); [|discriminate]. repeat split; reflexivity.
  Qed.

  (* an acknowledged handshake offered a valid key and a nonce that is valid PoW for exactly that key, and the session
     registered for the claimed peer is that key's *)
  Theorem accept_sound ps now pub nonce ps' : Inv ps ->
    handle pow cooldown ps now pub nonce = (true, ps') ->
    validate_public pub = true /\ pow pub nonce = true /\ key_pub ps' = Some pub.
  Proof.
    intros [Hs Hr]. unfold handle, perform.
    destruct (rec ps) as [r|] eqn:Er.
    - destruct (success r && (now - last_attempt r <? cooldown) && (remote_public r =? pub) && (remote_nonce r =? nonce)) eqn:E.
      + apply andb_true_iff in E. destruct E as [E E4]. apply andb_true_iff in E. destruct E as [E E3].
        apply andb_true_iff in E. destruct E as [E1 E2].
        destruct (Hr E1) as (V & Pw & K). assert (remote_public r = pub) by lia. assert (remote_nonce r = nonce) by lia. subst.
        rewrite K. intros H. injection H as <-. repeat split; assumption.
      + destruct (negb (validate_public pub)) eqn:Ev; [intros H; discriminate|].
        destruct (negb (pow pub nonce)) eqn:Ep; [intros H; discriminate|].
        cbn [key_pub]. intros H. injection H as <-. cbn [key_pub].
        destruct (validate_public pub); [|discriminate]. destruct (pow pub nonce); [|discriminate]. repeat split.
    - destruct (negb (validate_public pub)) eqn:Ev; [intros H; discriminate|].
      destruct (negb (pow pub nonce)) eqn:Ep; [intros H; discriminate|].
      cbn [key_pub]. intros H. injection H as <-. cbn [key_pub].
      destruct (validate_public pub); [|discriminate]. destruct (pow pub nonce); [|discriminate]. repeat split.
  Qed.

  (* a rejected handshake leaves the registered key untouched and lowers the claimed peer's reputation (saturating) *)
  Theorem reject_preserves ps now pub nonce ps' : Inv ps ->
    handle pow cooldown ps now pub nonce = (false, ps') ->
    key_pub ps' = key_pub ps /\ (score ps' < score ps \/ score ps = rep_min_score) /\ rep_min_score <= score ps'.
  Proof.
    intros [Hs Hr]. destruct rep_consts as (K1 & K2 & K3 & K4). unfold handle, perform.
    destruct (match rec ps with Some r => _ | None => false end) eqn:E.
    - (* repeat of the accepted handshake: acknowledged, since a key is held *)
      destruct (rec ps) as [r|]; [|discriminate].
      apply andb_true_iff in E. destruct E as [E _]. apply andb_true_iff in E. destruct E as [E _].
      apply andb_true_iff in E. destruct E as [E1 _]. destruct (Hr E1) as (_ & _ & K). rewrite K. discriminate.
    - destruct (negb (validate_public pub)) eqn:Ev.
      + intros H. injection H as <-. cbn [key_pub score]. unfold rep_failure. split; [reflexivity|]. lia.
      + destruct (negb (pow pub nonce)) eqn:Ep.
        * intros H. injection H as <-. cbn [key_pub score]. unfold rep_failure. split; [reflexivity|]. lia.
        * cbn [key_pub]. discriminate.
  Qed.

  (* every state reached from the empty one by any sequence of handshakes satisfies Inv *)
  Fixpoint exec (ps : peer_state) (now : Z) (es : list (Z * Z * Z)) : peer_state :=
    match es with
    | [] => ps
    | (d, pub, nonce) :: r => exec (snd (handle pow cooldown ps (now + d) pub nonce)) (now + d) r
    end.

  Lemma handle_inv ps now pub nonce : Inv ps -> Inv (snd (handle pow cooldown ps now pub nonce)).
  Proof.
    intros H. unfold handle. pose proof (perform_inv ps now pub nonce H) as P.
    destruct (perform pow cooldown ps now pub nonce) as [ok ps']. cbn [snd] in P. destruct ok; exact P.
  Qed.

  Theorem reachable_inv es : forall ps now, Inv ps -> Inv (exec ps now es).
  Proof.
    induction es as [|[[d pub] nonce] r IH]; intros ps now H; cbn [exec]; [exact H|]. apply IH. apply handle_inv. exact H.
  Qed.
End Proofs.
