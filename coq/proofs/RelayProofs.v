(* Proofs about model/RelayModel.v (C25, C26). *)
Require Import ZArith List Bool Lia Arith.
Import ListNotations.
Local Open Scope Z_scope.
From EphVerif Require Import lib.Bytes model.RelayModel.

(* ---------- get / set ---------- *)
Lemma lset_length l i c : length (lset l i c) = length l.
Proof. revert i. induction l as [|x r IH]; intros [|k]; cbn [lset length]; try reflexivity. rewrite IH. reflexivity. Qed.
Lemma nth_lset_same l i c d : (i < length l)%nat -> nth i (lset l i c) d = c.
Proof. revert i. induction l as [|x r IH]; intros [|k] H; cbn [lset nth length] in *; try lia; [reflexivity | apply IH; lia]. Qed.
Lemma nth_lset_other l i k c d : k <> i -> nth k (lset l i c) d = nth k l d.
Proof.
  revert i k. induction l as [|x r IH]; intros [|i] [|k] H; cbn [lset nth]; try reflexivity; try congruence.
  apply IH. congruence.
Qed.
Lemma get_set_same s i c : (i < length (clients s))%nat -> get (set s i c) i = c.
Proof. intros H. unfold get, set. cbn [clients]. apply nth_lset_same. exact H. Qed.
Lemma get_set_other s i k c : k <> i -> get (set s i c) k = get s k.
Proof. intros H. unfold get, set. cbn [clients]. apply nth_lset_other. exact H. Qed.
Lemma reg_set s i c : reg (set s i c) = reg s. Proof. reflexivity. Qed.
Lemma hung_set s i c : hung (set s i c) = hung s. Proof. reflexivity. Qed.
Lemma length_set s i c : length (clients (set s i c)) = length (clients s).
Proof. unfold set. cbn [clients]. apply lset_length. Qed.

Definition Live (s : state) (i : nat) : Prop := alive (get s i) = true.
Lemma live_lt s i : Live s i -> (i < length (clients s))%nat.
Proof.
  unfold Live, get. intros H. destruct (lt_dec i (length (clients s))) as [L|L]; [exact L|].
  rewrite nth_overflow in H by lia. discriminate.
Qed.

(* ---------- what the invariant looks at ---------- *)
Definition skel (c : client) := (st c, hex c, partner c, alive c).
Definition SkEq (s s' : state) : Prop :=
  (forall k, skel (get s k) = skel (get s' k)) /\ reg s = reg s' /\ hung s = hung s' /\ length (clients s) = length (clients s').
Lemma SkEq_refl s : SkEq s s. Proof. repeat split. Qed.
Lemma SkEq_trans a b c : SkEq a b -> SkEq b c -> SkEq a c.
Proof. intros [A1 [A2 [A3 A4]]] [B1 [B2 [B3 B4]]]. split; [intros k; rewrite A1; apply B1 | repeat split; congruence]. Qed.

Lemma set_skeq s i c : skel c = skel (get s i) -> SkEq s (set s i c).
Proof.
  intros H. repeat split; try (symmetry; apply length_set).
  intros k. destruct (Nat.eq_dec k i) as [->|N]; [|rewrite get_set_other by exact N; reflexivity].
  destruct (lt_dec i (length (clients s))) as [L|L]; [rewrite get_set_same by exact L; symmetry; exact H|].
  unfold get, set. cbn [clients].
  rewrite (nth_overflow (clients s)) by lia. rewrite (nth_overflow (lset (clients s) i c)) by (rewrite lset_length; lia). reflexivity.
Qed.
Lemma queue_skeq s i d : SkEq s (queue s i d).
Proof. unfold queue. apply set_skeq. reflexivity. Qed.

(* ---------- the invariant ---------- *)
Definition pair_states (a b : Z) : Prop :=
  (a = Registered /\ b = AwaitingIdentity) \/ (a = AwaitingIdentity /\ b = Registered) \/ (a = Bridged /\ b = Bridged).

Record Inv (s : state) : Prop := mkInv {
  (* pairings are symmetric, between two different open sessions, in matching states *)
  i_sym : forall i j, Live s i -> partner (get s i) = Some j ->
            Live s j /\ j <> i /\ partner (get s j) = Some i /\ pair_states (st (get s i)) (st (get s j));
  (* a session without a partner is waiting for a command or registered *)
  i_single : forall i, Live s i -> partner (get s i) = None -> st (get s i) = AwaitingCommand \/ st (get s i) = Registered;
  (* the registry: one entry per id, each naming an open, registered, unclaimed session that registered that id *)
  i_keys : NoDup (map fst (reg s));
  i_reg : forall k j, In (k, j) (reg s) ->
            Live s j /\ st (get s j) = Registered /\ hex (get s j) = k /\ partner (get s j) = None /\ k <> [];
  i_run : hung s = false
}.

Lemma Inv_init : Inv init.
Proof.
  split; cbn.
  - intros i j H. unfold Live, get in H. cbn in H. destruct i; discriminate.
  - intros i H. unfold Live, get in H. cbn in H. destruct i; discriminate.
  - constructor.
  - intros k j [].
  - reflexivity.
Qed.

Lemma skel_fields a b : skel a = skel b -> st a = st b /\ hex a = hex b /\ partner a = partner b /\ alive a = alive b.
Proof. unfold skel. intros H. inversion H. auto. Qed.

Lemma Inv_skeq s s' : Inv s -> SkEq s s' -> Inv s'.
Proof.
  intros [S1 S2 S3 S4 S5] [E [Er [Eh _]]].
  assert (F : forall k, st (get s' k) = st (get s k) /\ hex (get s' k) = hex (get s k) /\ partner (get s' k) = partner (get s k)
                        /\ alive (get s' k) = alive (get s k)).
  { intros k. destruct (skel_fields _ _ (E k)) as [A [B [C D]]]. auto. }
  assert (L : forall k, Live s' k <-> Live s k) by (intros k; unfold Live; destruct (F k) as [_ [_ [_ ->]]]; tauto).
  split.
  - intros i j Hi Hp. destruct (F i) as [A [_ [C _]]]. destruct (F j) as [A' [_ [C' _]]]. rewrite C in Hp. rewrite A, A', C'.
    destruct (S1 i j (proj1 (L i) Hi) Hp) as [X1 [X2 [X3 X4]]]. split; [apply L; exact X1 | auto].
  - intros i Hi Hp. destruct (F i) as [A [_ [C _]]]. rewrite C in Hp. rewrite A. apply S2; [apply L; exact Hi | exact Hp].
  - rewrite <- Er. exact S3.
  - intros k j Hin. rewrite <- Er in Hin. destruct (S4 k j Hin) as [X1 [X2 [X3 [X4 X5]]]]. destruct (F j) as [A [B [C _]]].
    rewrite A, B, C. split; [apply L; exact X1 | auto].
  - rewrite <- Eh. exact S5.
Qed.

(* ---------- the registry ---------- *)
Lemma rfind_some k m j : rfind k m = Some j -> In (k, j) m.
Proof.
  induction m as [|[k' j'] r IH]; cbn [rfind]; [discriminate|]. destruct (list_eqb k' k) eqn:E.
  - intros H. inversion H; subst. apply list_eqb_spec in E. subst. left. reflexivity.
  - intros H. right. apply IH. exact H.
Qed.
Lemma rfind_none k m : rfind k m = None -> forall j, ~ In (k, j) m.
Proof.
  induction m as [|[k' j'] r IH]; cbn [rfind]; intros H j; [intros []|]. destruct (list_eqb k' k) eqn:E; [discriminate|].
  intros [X|X]; [inversion X; subst; rewrite list_eqb_refl in E; discriminate | exact (IH H j X)].
Qed.
Lemma rfind_unique k m j : NoDup (map fst m) -> In (k, j) m -> rfind k m = Some j.
Proof.
  induction m as [|[k' j'] r IH]; intros Hd Hin; [contradiction|]. cbn [map fst] in Hd. inversion Hd as [|? ? Hn Hd']; subst.
  cbn [rfind]. destruct Hin as [X|X].
  - inversion X; subst. rewrite list_eqb_refl. reflexivity.
  - destruct (list_eqb k' k) eqn:E; [|apply IH; assumption].
    apply list_eqb_spec in E. subst. exfalso. apply Hn. change k with (fst (k, j)). apply in_map. exact X.
Qed.
Lemma in_rerase k m k' j : In (k', j) (rerase k m) <-> In (k', j) m /\ k' <> k.
Proof.
  unfold rerase. rewrite filter_In. cbn [fst]. split; intros [A B]; split; try exact A.
  - intros ->. rewrite list_eqb_refl in B. discriminate.
  - destruct (list_eqb k' k) eqn:E; [apply list_eqb_spec in E; contradiction | reflexivity].
Qed.
Lemma keys_rerase k m : NoDup (map fst m) -> NoDup (map fst (rerase k m)).
Proof.
  unfold rerase. induction m as [|[k' j'] r IH]; cbn [filter map fst]; intros Hd; [constructor|].
  inversion Hd as [|? ? Hn Hd']; subst. destruct (negb (list_eqb k' k)); cbn [map fst]; [|apply IH; exact Hd'].
  constructor; [|apply IH; exact Hd']. intros Hin. apply Hn. apply in_map_iff in Hin. destruct Hin as [[a b] [Ha Hb]].
  cbn [fst] in Ha. subst. apply filter_In in Hb. change k' with (fst (k', b)). apply in_map. tauto.
Qed.
Lemma key_gone k m : ~ In k (map fst (rerase k m)).
Proof. intros Hin. apply in_map_iff in Hin. destruct Hin as [[a b] [Ha Hb]]. cbn [fst] in Ha. subst. apply in_rerase in Hb. tauto. Qed.
Lemma keys_rset k j m : NoDup (map fst m) -> NoDup (map fst (rset k j m)).
Proof. intros H. unfold rset. cbn [map fst]. constructor; [apply key_gone | apply keys_rerase; exact H]. Qed.

Lemma get_with_reg s r k : get (with_reg s r) k = get s k. Proof. reflexivity. Qed.

(* dropping a registry entry never hurts *)
Lemma Inv_erase s k : Inv s -> Inv (with_reg s (rerase k (reg s))).
Proof.
  intros [S1 S2 S3 S4 S5]. split; cbn [reg with_reg hung].
  - exact S1.
  - exact S2.
  - apply keys_rerase. exact S3.
  - intros k' j Hin. apply in_rerase in Hin. apply S4. tauto.
  - exact S5.
Qed.

(* remove_registration on a consistent state: still consistent, and nothing in the registry names the session any more *)
Lemma remove_registration_clients s i : clients (remove_registration s i) = clients s.
Proof.
  unfold remove_registration. destruct (hex (get s i)); [reflexivity|]. destruct (rfind _ (reg s)) as [j|]; [|reflexivity].
  destruct (alive (get s j) && negb (Nat.eqb j i)); reflexivity.
Qed.
Lemma remove_registration_get s i k : get (remove_registration s i) k = get s k.
Proof. unfold get. rewrite remove_registration_clients. reflexivity. Qed.
Lemma remove_registration_inv s i : Inv s -> Inv (remove_registration s i).
Proof.
  intros H. unfold remove_registration. destruct (hex (get s i)); [exact H|]. destruct (rfind _ (reg s)) as [j|]; [|exact H].
  destruct (alive (get s j) && negb (Nat.eqb j i)); [exact H | apply Inv_erase; exact H].
Qed.
Lemma remove_registration_clears s i : Inv s -> forall k, ~ In (k, i) (reg (remove_registration s i)).
Proof.
  intros H k Hin. pose proof (remove_registration_inv s i H) as H'.
  destruct (i_reg _ H' k i Hin) as [Li [_ [Hh [_ Hk]]]]. rewrite remove_registration_get in Hh.
  revert Hin. unfold remove_registration. rewrite Hh. destruct k as [|k0 kr]; [congruence|].
  destruct (rfind (k0 :: kr) (reg s)) as [j|] eqn:F.
  - destruct (alive (get s j) && negb (Nat.eqb j i)) eqn:C.
    + intros Hin. rewrite (rfind_unique _ _ _ (i_keys _ H) Hin) in F. inversion F; subst.
      rewrite Nat.eqb_refl in C. rewrite andb_false_r in C. discriminate.
    + cbn [reg with_reg]. intros Hin. apply in_rerase in Hin. tauto.
  - intros Hin. exact (rfind_none _ _ F i Hin).
Qed.

(* ---------- REGISTER ---------- *)
Lemma live_partner_lock s i : Inv s -> Live s i -> lock s (partner (get s i)) = None -> partner (get s i) = None.
Proof.
  intros H Li Hl. destruct (partner (get s i)) as [j|] eqn:P; [|reflexivity].
  destruct (i_sym _ H i j Li P) as [Lj _]. unfold lock in Hl. unfold Live in Lj. rewrite Lj in Hl. discriminate.
Qed.

Lemma canonical_nonempty arg : zlen arg = 64 -> canonical arg <> [].
Proof. destruct arg; unfold zlen; cbn; [lia | discriminate]. Qed.

Lemma register_core s i h : Inv s -> Live s i -> partner (get s i) = None -> (forall k, ~ In (k, i) (reg s)) -> h <> [] ->
  Inv (with_reg (set s i (with_st (with_hex (get s i) h) Registered)) (rset h i (reg s))).
Proof.
  intros H Li Pi Hno Hh. pose proof (live_lt _ _ Li) as Lt.
  set (c' := with_st (with_hex (get s i) h) Registered).
  assert (G : forall k, get (with_reg (set s i c') (rset h i (reg s))) k = if Nat.eqb k i then c' else get s k).
  { intros k. rewrite get_with_reg. destruct (Nat.eqb k i) eqn:E.
    - apply Nat.eqb_eq in E. subst. apply get_set_same. exact Lt.
    - apply Nat.eqb_neq in E. apply get_set_other. exact E. }
  assert (Lv : forall k, Live (with_reg (set s i c') (rset h i (reg s))) k <-> Live s k).
  { intros k. unfold Live. rewrite G. destruct (Nat.eqb k i) eqn:E; [apply Nat.eqb_eq in E; subst; cbn; tauto | tauto]. }
  split.
  - intros a b La Pa. rewrite G in Pa. destruct (Nat.eqb a i) eqn:Ea.
    + unfold c' in Pa. cbn in Pa. congruence.
    + apply Nat.eqb_neq in Ea. apply Lv in La. destruct (i_sym _ H a b La Pa) as [Lb [Nb [Pb Ps]]].
      assert (b <> i) by (intros ->; congruence).
      rewrite !G. rewrite (proj2 (Nat.eqb_neq a i) Ea), (proj2 (Nat.eqb_neq b i) H0). split; [apply Lv; exact Lb | auto].
  - intros a La Pa. rewrite G in *. destruct (Nat.eqb a i) eqn:Ea; [right; reflexivity|].
    apply (i_single _ H a); [apply Lv; exact La | exact Pa].
  - apply keys_rset. apply (i_keys _ H).
  - intros k j Hin. cbn [reg with_reg] in Hin. destruct Hin as [X|X].
    + inversion X; subst. rewrite G, Nat.eqb_refl. unfold c'. cbn. split; [apply Lv; exact Li | auto].
    + apply in_rerase in X. destruct X as [X _]. assert (j <> i) by (intros ->; exact (Hno k X)).
      rewrite G, (proj2 (Nat.eqb_neq j i) H0). destruct (i_reg _ H k j X) as [A B]. split; [apply Lv; exact A | exact B].
  - exact (i_run _ H).
Qed.

Lemma handle_register_inv s i arg : Inv s -> Live s i -> Inv (handle_register s i arg).
Proof.
  intros H Li. unfold handle_register.
  destruct (negb (is_hex_string arg && (zlen arg =? 64))) eqn:V; [eapply Inv_skeq; [exact H | apply queue_skeq]|].
  destruct (lock s (partner (get s i))) as [j|] eqn:Lk; [eapply Inv_skeq; [exact H | apply queue_skeq]|].
  eapply Inv_skeq; [|apply queue_skeq].
  pose proof (live_partner_lock s i H Li Lk) as Pi.
  pose proof (remove_registration_inv s i H) as H1. pose proof (remove_registration_clears s i H) as Hc.
  assert (Hlen : zlen arg = 64) by (destruct (is_hex_string arg); cbn in V; [destruct (zlen arg =? 64) eqn:E; [lia | discriminate] | discriminate]).
  apply (register_core (remove_registration s i) i (canonical arg)); try assumption.
  - unfold Live. rewrite remove_registration_get. exact Li.
  - rewrite remove_registration_get. exact Pi.
  - apply canonical_nonempty. exact Hlen.
Qed.

(* ---------- CONNECT ---------- *)
Lemma get_set2 s i j ci cj a : (i < length (clients s))%nat -> (j < length (clients s))%nat ->
  get (set (set s i ci) j cj) a = if Nat.eqb a j then cj else if Nat.eqb a i then ci else get s a.
Proof.
  intros Li Lj. destruct (Nat.eqb a j) eqn:Ej.
  - apply Nat.eqb_eq in Ej. subst. apply get_set_same. rewrite length_set. exact Lj.
  - apply Nat.eqb_neq in Ej. rewrite get_set_other by exact Ej. destruct (Nat.eqb a i) eqn:Ei.
    + apply Nat.eqb_eq in Ei. subst. apply get_set_same. exact Li.
    + apply Nat.eqb_neq in Ei. apply get_set_other. exact Ei.
Qed.

Lemma unpartnered_command s i : Inv s -> Live s i -> st (get s i) <> Registered -> st (get s i) <> AwaitingIdentity ->
  st (get s i) <> Bridged -> partner (get s i) = None /\ st (get s i) = AwaitingCommand.
Proof.
  intros H Li N1 N2 N3. destruct (partner (get s i)) as [x|] eqn:P.
  - destruct (i_sym _ H i x Li P) as [_ [_ [_ Ps]]]. unfold pair_states in Ps. tauto.
  - split; [reflexivity|]. destruct (i_single _ H i Li P); [assumption | contradiction].
Qed.

Lemma connect_core s i j target self : Inv s -> Live s i -> partner (get s i) = None -> st (get s i) = AwaitingCommand ->
  In (target, j) (reg s) ->
  Inv (set (set (with_reg s (rerase target (reg s))) i
                (with_partner (with_self (with_st (get s i) AwaitingIdentity) self) (Some j)))
           j (with_partner (get s j) (Some i))).
Proof.
  intros H Li Pi Si Hin.
  destruct (i_reg _ H target j Hin) as [Lj [Sj [Hj [Pj Hk]]]].
  assert (Nij : i <> j) by (intros ->; unfold Registered, AwaitingCommand in *; congruence).
  pose proof (live_lt _ _ Li) as Lti. pose proof (live_lt _ _ Lj) as Ltj.
  set (ci := with_partner (with_self (with_st (get s i) AwaitingIdentity) self) (Some j)).
  set (cj := with_partner (get s j) (Some i)).
  set (s0 := with_reg s (rerase target (reg s))).
  assert (G : forall a, get (set (set s0 i ci) j cj) a = if Nat.eqb a j then cj else if Nat.eqb a i then ci else get s a).
  { intros a. rewrite get_set2; [reflexivity | exact Lti | exact Ltj]. }
  assert (Lv : forall a, Live (set (set s0 i ci) j cj) a <-> Live s a).
  { intros a. unfold Live. rewrite G. destruct (Nat.eqb a j) eqn:Ej; [apply Nat.eqb_eq in Ej; subst; unfold cj; cbn; tauto|].
    destruct (Nat.eqb a i) eqn:Ei; [apply Nat.eqb_eq in Ei; subst; unfold ci; cbn; tauto | tauto]. }
  assert (Ei_j : Nat.eqb i j = false) by (apply Nat.eqb_neq; exact Nij).
  assert (Ej_i : Nat.eqb j i = false) by (apply Nat.eqb_neq; congruence).
  split.
  - intros a b La Pa. rewrite G in Pa. destruct (Nat.eqb a j) eqn:Eaj.
    + apply Nat.eqb_eq in Eaj. subst a. unfold cj in Pa. cbn in Pa. inversion Pa; subst b.
      rewrite !G, Nat.eqb_refl, Ei_j, Nat.eqb_refl. unfold ci, cj. cbn. rewrite Sj.
      split; [apply Lv; exact Li | split; [congruence | split; [reflexivity | left; split; reflexivity]]].
    + destruct (Nat.eqb a i) eqn:Eai.
      * apply Nat.eqb_eq in Eai. subst a. unfold ci in Pa. cbn in Pa. inversion Pa; subst b.
        rewrite !G, Nat.eqb_refl, Ei_j, Nat.eqb_refl. unfold ci, cj. cbn. rewrite Sj.
        split; [apply Lv; exact Lj | split; [congruence | split; [reflexivity | right; left; split; reflexivity]]].
      * apply Nat.eqb_neq in Eaj. apply Nat.eqb_neq in Eai. apply Lv in La.
        destruct (i_sym _ H a b La Pa) as [Lb [Nb [Pb Ps]]].
        assert (b <> i) by (intros ->; congruence). assert (b <> j) by (intros ->; congruence).
        rewrite !G. rewrite (proj2 (Nat.eqb_neq a j) Eaj), (proj2 (Nat.eqb_neq a i) Eai), (proj2 (Nat.eqb_neq b j) H1), (proj2 (Nat.eqb_neq b i) H0).
        split; [apply Lv; exact Lb | auto].
  - intros a La Pa. rewrite G in *. destruct (Nat.eqb a j) eqn:Eaj; [unfold cj in Pa; cbn in Pa; discriminate|].
    destruct (Nat.eqb a i) eqn:Eai; [unfold ci in Pa; cbn in Pa; discriminate|].
    apply (i_single _ H a); [apply Lv; exact La | exact Pa].
  - cbn [reg set with_reg s0]. apply keys_rerase. exact (i_keys _ H).
  - intros k x Hx. cbn [reg set with_reg s0] in Hx. apply in_rerase in Hx. destruct Hx as [Hx Nk].
    destruct (i_reg _ H k x Hx) as [Lx [Sx [Hhx [Px Hkx]]]].
    assert (x <> i) by (intros ->; unfold Registered, AwaitingCommand in *; congruence).
    assert (x <> j) by (intros ->; congruence).
    rewrite G, (proj2 (Nat.eqb_neq x j) H1), (proj2 (Nat.eqb_neq x i) H0). split; [apply Lv; exact Lx | auto].
  - exact (i_run _ H).
Qed.

Lemma handle_connect_inv s i a b : Inv s -> Live s i -> st (get s i) <> AwaitingIdentity -> st (get s i) <> Bridged ->
  Inv (handle_connect s i a b).
Proof.
  intros H Li N2 N3. unfold handle_connect.
  destruct (st (get s i) =? Registered) eqn:E1; [eapply Inv_skeq; [exact H | apply queue_skeq]|].
  destruct (negb (is_hex_string a && is_hex_string b)); [eapply Inv_skeq; [exact H | apply queue_skeq]|].
  destruct (list_eqb a b); [eapply Inv_skeq; [exact H | apply queue_skeq]|].
  unfold find_registered. destruct (rfind b (reg s)) as [j|] eqn:F; [|eapply Inv_skeq; [exact H | apply queue_skeq]].
  destruct (alive (get s j) && (st (get s j) =? Registered)).
  2:{ eapply Inv_skeq; [apply Inv_erase; exact H | apply queue_skeq]. }
  eapply Inv_skeq; [|apply queue_skeq].
  assert (N1 : st (get s i) <> Registered) by lia.
  destruct (unpartnered_command s i H Li N1 N2 N3) as [Pi Si].
  pose proof (rfind_some _ _ _ F) as Hin.
  destruct (i_reg _ H b j Hin) as [_ [Sj _]].
  assert (Nji : j <> i) by (intros ->; unfold Registered, AwaitingCommand in *; congruence).
  cbv zeta. rewrite (get_set_other _ i j _ Nji). rewrite !get_with_reg.
  exact (connect_core s i j b a H Li Pi Si Hin).
Qed.

(* ---------- closing sessions ---------- *)
Definition dead_of (c : client) : client := with_alive c false.

Lemma rr_kill_commute s i : (i < length (clients s))%nat ->
  remove_registration (set s i (dead_of (get s i))) i = set (remove_registration s i) i (dead_of (get s i)).
Proof.
  intros Lt. unfold remove_registration. rewrite get_set_same by exact Lt. cbn [dead_of with_alive hex].
  destruct (hex (get s i)) as [|h0 hr]; [reflexivity|]. cbn [reg set].
  destruct (rfind (h0 :: hr) (reg s)) as [j|]; [|reflexivity].
  destruct (Nat.eqb j i) eqn:E.
  - rewrite !andb_false_r. reflexivity.
  - apply Nat.eqb_neq in E. rewrite get_set_other by exact E. destruct (alive (get s j) && negb false); reflexivity.
Qed.

(* an unpartnered session that the registry does not name can simply go *)
Lemma kill_single s i : Inv s -> Live s i -> partner (get s i) = None -> (forall k, ~ In (k, i) (reg s)) ->
  Inv (set s i (dead_of (get s i))).
Proof.
  intros H Li Pi Hno. pose proof (live_lt _ _ Li) as Lt.
  assert (G : forall a, get (set s i (dead_of (get s i))) a = if Nat.eqb a i then dead_of (get s i) else get s a).
  { intros a. destruct (Nat.eqb a i) eqn:E; [apply Nat.eqb_eq in E; subst; apply get_set_same; exact Lt
                                             | apply Nat.eqb_neq in E; apply get_set_other; exact E]. }
  assert (Lv : forall a, Live (set s i (dead_of (get s i))) a <-> (Live s a /\ a <> i)).
  { intros a. unfold Live. rewrite G. destruct (Nat.eqb a i) eqn:E.
    - apply Nat.eqb_eq in E. subst. cbn. split; [discriminate | tauto].
    - apply Nat.eqb_neq in E. tauto. }
  split.
  - intros a b La Pa. apply Lv in La. destruct La as [La Na]. rewrite G, (proj2 (Nat.eqb_neq a i) Na) in Pa.
    destruct (i_sym _ H a b La Pa) as [Lb [Nb [Pb Ps]]]. assert (b <> i) by (intros ->; congruence).
    rewrite !G, (proj2 (Nat.eqb_neq a i) Na), (proj2 (Nat.eqb_neq b i) H0). split; [apply Lv; tauto | auto].
  - intros a La Pa. apply Lv in La. destruct La as [La Na]. rewrite G, (proj2 (Nat.eqb_neq a i) Na) in *. apply (i_single _ H a La Pa).
  - exact (i_keys _ H).
  - intros k x Hx. cbn [reg set] in Hx. assert (x <> i) by (intros ->; exact (Hno k Hx)).
    destruct (i_reg _ H k x Hx) as [Lx R]. rewrite G, (proj2 (Nat.eqb_neq x i) H0). split; [apply Lv; tauto | exact R].
  - exact (i_run _ H).
Qed.

(* two partnered sessions go together *)
Lemma kill_pair s i j cj : Inv s -> Live s i -> partner (get s i) = Some j -> (forall k, ~ In (k, i) (reg s)) ->
  (forall k, ~ In (k, j) (reg s)) -> alive cj = false ->
  Inv (set (set s i (dead_of (get s i))) j cj).
Proof.
  intros H Li Pi Hni Hnj Dj. destruct (i_sym _ H i j Li Pi) as [Lj [Nji [Pj Ps]]].
  pose proof (live_lt _ _ Li) as Lti. pose proof (live_lt _ _ Lj) as Ltj.
  assert (G : forall a, get (set (set s i (dead_of (get s i))) j cj) a
                        = if Nat.eqb a j then cj else if Nat.eqb a i then dead_of (get s i) else get s a).
  { intros a. apply get_set2; assumption. }
  assert (Lv : forall a, Live (set (set s i (dead_of (get s i))) j cj) a <-> (Live s a /\ a <> i /\ a <> j)).
  { intros a. unfold Live. rewrite G. destruct (Nat.eqb a j) eqn:Ej.
    - apply Nat.eqb_eq in Ej. subst. rewrite Dj. split; [discriminate | tauto].
    - apply Nat.eqb_neq in Ej. destruct (Nat.eqb a i) eqn:Ei.
      + apply Nat.eqb_eq in Ei. subst. cbn. split; [discriminate | tauto].
      + apply Nat.eqb_neq in Ei. tauto. }
  split.
  - intros a b La Pa. apply Lv in La. destruct La as [La [Nai Naj]].
    rewrite G, (proj2 (Nat.eqb_neq a j) Naj), (proj2 (Nat.eqb_neq a i) Nai) in Pa.
    destruct (i_sym _ H a b La Pa) as [Lb [Nb [Pb Ps']]].
    assert (b <> i) by (intros ->; rewrite Pi in Pb; inversion Pb; congruence).
    assert (b <> j) by (intros ->; rewrite Pj in Pb; inversion Pb; congruence).
    rewrite !G, (proj2 (Nat.eqb_neq a j) Naj), (proj2 (Nat.eqb_neq a i) Nai), (proj2 (Nat.eqb_neq b j) H1), (proj2 (Nat.eqb_neq b i) H0).
    split; [apply Lv; tauto | auto].
  - intros a La Pa. apply Lv in La. destruct La as [La [Nai Naj]].
    rewrite G, (proj2 (Nat.eqb_neq a j) Naj), (proj2 (Nat.eqb_neq a i) Nai) in *. apply (i_single _ H a La Pa).
  - exact (i_keys _ H).
  - intros k x Hx. cbn [reg set] in Hx. assert (x <> i) by (intros ->; exact (Hni k Hx)). assert (x <> j) by (intros ->; exact (Hnj k Hx)).
    destruct (i_reg _ H k x Hx) as [Lx R]. rewrite G, (proj2 (Nat.eqb_neq x j) H1), (proj2 (Nat.eqb_neq x i) H0). split; [apply Lv; tauto | exact R].
  - exact (i_run _ H).
Qed.

(* a connector leaves before sending its identity: the registered side is on its own again *)
Lemma unpair_kill s i j : Inv s -> Live s i -> partner (get s i) = Some j -> st (get s j) = Registered ->
  (forall k, ~ In (k, i) (reg s)) ->
  Inv (set (set s i (dead_of (get s i))) j (with_partner (get s j) None)).
Proof.
  intros H Li Pi Sj Hni. destruct (i_sym _ H i j Li Pi) as [Lj [Nji [Pj Ps]]].
  pose proof (live_lt _ _ Li) as Lti. pose proof (live_lt _ _ Lj) as Ltj.
  set (cj := with_partner (get s j) None).
  assert (G : forall a, get (set (set s i (dead_of (get s i))) j cj) a
                        = if Nat.eqb a j then cj else if Nat.eqb a i then dead_of (get s i) else get s a).
  { intros a. apply get_set2; assumption. }
  assert (Lv : forall a, Live (set (set s i (dead_of (get s i))) j cj) a <-> (Live s a /\ a <> i)).
  { intros a. unfold Live. rewrite G. destruct (Nat.eqb a j) eqn:Ej.
    - apply Nat.eqb_eq in Ej. subst. unfold cj. cbn. unfold Live in Lj. rewrite Lj. split; [intros _; split; [reflexivity | exact Nji] | reflexivity].
    - apply Nat.eqb_neq in Ej. destruct (Nat.eqb a i) eqn:Ei.
      + apply Nat.eqb_eq in Ei. subst. cbn. split; [discriminate | tauto].
      + apply Nat.eqb_neq in Ei. tauto. }
  split.
  - intros a b La Pa. apply Lv in La. destruct La as [La Nai]. rewrite G in Pa. destruct (Nat.eqb a j) eqn:Eaj; [unfold cj in Pa; cbn in Pa; discriminate|].
    apply Nat.eqb_neq in Eaj. rewrite (proj2 (Nat.eqb_neq a i) Nai) in Pa.
    destruct (i_sym _ H a b La Pa) as [Lb [Nb [Pb Ps']]].
    assert (b <> i) by (intros ->; rewrite Pi in Pb; inversion Pb; congruence).
    assert (b <> j) by (intros ->; rewrite Pj in Pb; inversion Pb; congruence).
    rewrite !G, (proj2 (Nat.eqb_neq a j) Eaj), (proj2 (Nat.eqb_neq a i) Nai), (proj2 (Nat.eqb_neq b j) H1), (proj2 (Nat.eqb_neq b i) H0).
    split; [apply Lv; tauto | auto].
  - intros a La Pa. apply Lv in La. destruct La as [La Nai]. rewrite G in *. destruct (Nat.eqb a j) eqn:Eaj.
    + unfold cj. cbn. right. exact Sj.
    + rewrite (proj2 (Nat.eqb_neq a i) Nai) in *. apply (i_single _ H a La Pa).
  - exact (i_keys _ H).
  - intros k x Hx. cbn [reg set] in Hx. assert (x <> i) by (intros ->; exact (Hni k Hx)).
    destruct (i_reg _ H k x Hx) as [Lx [Sx [Hhx [Px Hk]]]].
    assert (x <> j) by (intros ->; congruence).
    rewrite G, (proj2 (Nat.eqb_neq x j) H1), (proj2 (Nat.eqb_neq x i) H0). split; [apply Lv; tauto | auto].
  - exact (i_run _ H).
Qed.

(* ... and is registered again *)
Lemma restore_core s j : Inv s -> Live s j -> partner (get s j) = None -> st (get s j) = Registered -> hex (get s j) <> [] ->
  Inv (with_reg s (rset (hex (get s j)) j (reg s))).
Proof.
  intros H Lj Pj Sj Hh. split; cbn [reg with_reg hung].
  - exact (i_sym _ H).
  - exact (i_single _ H).
  - apply keys_rset. exact (i_keys _ H).
  - intros k x [X|X].
    + inversion X; subst. rewrite get_with_reg. auto.
    + apply in_rerase in X. apply (i_reg _ H). tauto.
  - exact (i_run _ H).
Qed.

Lemma close_S f s i : close (S f) s i =
  let c := get s i in
  if negb (alive c) then s else
  let s1 := set s i (with_alive c false) in
  let s2 := remove_registration s1 i in
  match lock s2 (partner c) with
  | None => s2
  | Some j =>
      let pj := get s2 j in
      let s3 := set s2 j (with_partner pj None) in
      if (st pj =? AwaitingIdentity) || (st pj =? Bridged) then close f s3 j
      else if (st pj =? Registered) && negb (match hex pj with [] => true | _ => false end)
           then with_reg s3 (rset (hex pj) j (reg s3))
           else s3
  end.
Proof. reflexivity. Qed.

Lemma lset_lset l j a b : lset (lset l j a) j b = lset l j b.
Proof. revert j. induction l as [|x r IH]; intros [|k]; cbn [lset]; try reflexivity. rewrite IH. reflexivity. Qed.
Lemma set_set_same s j a b : set (set s j a) j b = set s j b.
Proof. unfold set. cbn [clients reg hung]. rewrite lset_lset. reflexivity. Qed.

(* what close_session does to a consistent state, case by case *)
Lemma close_result s i : Inv s -> Live s i ->
  let s' := remove_registration s i in
  let di := dead_of (get s i) in
  close_session s i =
    match partner (get s i) with
    | None => set s' i di
    | Some j =>
        if (st (get s j) =? AwaitingIdentity) || (st (get s j) =? Bridged)
        then remove_registration (set (set s' i di) j (dead_of (with_partner (get s j) None))) j
        else let s3 := set (set s' i di) j (with_partner (get s j) None) in
             if (st (get s j) =? Registered) && negb (match hex (get s j) with [] => true | _ => false end)
             then with_reg s3 (rset (hex (get s j)) j (reg s3)) else s3
    end.
Proof.
  intros H Li. cbv zeta. pose proof (live_lt _ _ Li) as Lti.
  unfold close_session. rewrite close_S. cbv zeta. unfold Live in Li. rewrite Li. cbn [negb].
  change (with_alive (get s i) false) with (dead_of (get s i)).
  rewrite (rr_kill_commute s i Lti).
  destruct (partner (get s i)) as [j|] eqn:Pi; [|reflexivity].
  destruct (i_sym _ H i j Li Pi) as [Lj [Nji [Pj Ps]]].
  assert (Gj : get (set (remove_registration s i) i (dead_of (get s i))) j = get s j).
  { rewrite get_set_other by exact Nji. apply remove_registration_get. }
  unfold lock. rewrite Gj. unfold Live in Lj. rewrite Lj. cbv beta iota. rewrite !Gj.
  destruct ((st (get s j) =? AwaitingIdentity) || (st (get s j) =? Bridged)) eqn:B; [|reflexivity].
  rewrite close_S. cbv zeta.
  assert (Ltj : (j < length (clients (set (remove_registration s i) i (dead_of (get s i)))))%nat).
  { rewrite length_set. unfold get. rewrite remove_registration_clients. apply live_lt. exact Lj. }
  rewrite (get_set_same _ j _ Ltj). cbn [with_partner alive]. rewrite Lj. cbn [negb].
  rewrite set_set_same. cbn [partner lock]. reflexivity.
Qed.

Lemma close_inv s i : Inv s -> Inv (close_session s i).
Proof.
  intros H. destruct (alive (get s i)) eqn:Li.
  2:{ unfold close_session. rewrite close_S. cbv zeta. rewrite Li. exact H. }
  rewrite (close_result s i H Li). cbv zeta.
  pose proof (remove_registration_inv s i H) as H'. pose proof (remove_registration_clears s i H) as Hc.
  set (s' := remove_registration s i) in *.
  assert (Gs : forall k, get s' k = get s k) by (intros k; apply remove_registration_get).
  assert (Li' : Live s' i) by (unfold Live; rewrite Gs; exact Li).
  destruct (partner (get s i)) as [j|] eqn:Pi.
  2:{ rewrite <- (Gs i). apply kill_single; try assumption. rewrite Gs. exact Pi. }
  destruct (i_sym _ H i j Li Pi) as [Lj [Nji [Pj Ps]]].
  assert (Pi' : partner (get s' i) = Some j) by (rewrite Gs; exact Pi).
  assert (Hnj : forall k, ~ In (k, j) (reg s')).
  { intros k Hin. destruct (i_reg _ H' k j Hin) as [_ [_ [_ [Pn _]]]]. rewrite Gs in Pn. congruence. }
  destruct ((st (get s j) =? AwaitingIdentity) || (st (get s j) =? Bridged)) eqn:B.
  - apply remove_registration_inv. rewrite <- (Gs i). apply kill_pair; try assumption. reflexivity.
  - assert (Sj : st (get s j) = Registered).
    { unfold pair_states in Ps. unfold Registered, AwaitingIdentity, Bridged in *. lia. }
    assert (U : Inv (set (set s' i (dead_of (get s i))) j (with_partner (get s j) None))).
    { rewrite <- (Gs i), <- (Gs j). apply unpair_kill; try assumption. rewrite Gs. exact Sj. }
    destruct ((st (get s j) =? Registered) && negb (match hex (get s j) with [] => true | _ => false end)) eqn:C; [|exact U].
    set (s3 := set (set s' i (dead_of (get s i))) j (with_partner (get s j) None)) in *.
    assert (G3 : get s3 j = with_partner (get s j) None).
    { unfold s3. apply get_set_same. rewrite length_set. unfold s', get. rewrite remove_registration_clients. apply live_lt. exact Lj. }
    replace (hex (get s j)) with (hex (get s3 j)) by (rewrite G3; reflexivity).
    apply restore_core; try exact U.
    + unfold Live. rewrite G3. cbn. exact Lj.
    + rewrite G3. reflexivity.
    + rewrite G3. cbn. exact Sj.
    + rewrite G3. cbn. destruct (hex (get s j)); [rewrite andb_false_r in C; discriminate | discriminate].
Qed.

(* ---------- the identity bytes: the bridge is established ---------- *)
Lemma bridge_core s i j ci cj : Inv s -> Live s i -> partner (get s i) = Some j -> st (get s i) = AwaitingIdentity ->
  skel ci = (Bridged, hex (get s i), Some j, true) -> skel cj = (Bridged, hex (get s j), Some i, true) ->
  Inv (set (set s i ci) j cj).
Proof.
  intros H Li Pi Si Ki Kj. destruct (i_sym _ H i j Li Pi) as [Lj [Nji [Pj Ps]]].
  pose proof (live_lt _ _ Li) as Lti. pose proof (live_lt _ _ Lj) as Ltj.
  destruct (skel_fields ci (mkClient Bridged [] [] (hex (get s i)) [] (Some j) true) Ki) as [Ci1 [Ci2 [Ci3 Ci4]]].
  destruct (skel_fields cj (mkClient Bridged [] [] (hex (get s j)) [] (Some i) true) Kj) as [Cj1 [Cj2 [Cj3 Cj4]]].
  cbn in Ci1, Ci2, Ci3, Ci4, Cj1, Cj2, Cj3, Cj4.
  assert (G : forall a, get (set (set s i ci) j cj) a = if Nat.eqb a j then cj else if Nat.eqb a i then ci else get s a).
  { intros a. apply get_set2; assumption. }
  assert (Lv : forall a, Live (set (set s i ci) j cj) a <-> Live s a).
  { intros a. unfold Live. rewrite G. destruct (Nat.eqb a j) eqn:Ej; [apply Nat.eqb_eq in Ej; subst; rewrite Cj4; unfold Live in Lj; rewrite Lj; tauto|].
    destruct (Nat.eqb a i) eqn:Ei; [apply Nat.eqb_eq in Ei; subst; rewrite Ci4; unfold Live in Li; rewrite Li; tauto | tauto]. }
  assert (Eij : Nat.eqb i j = false) by (apply Nat.eqb_neq; congruence).
  split.
  - intros a b La Pa. rewrite G in Pa. destruct (Nat.eqb a j) eqn:Eaj.
    + apply Nat.eqb_eq in Eaj. subst a. rewrite Cj3 in Pa. inversion Pa; subst b.
      rewrite !G, Nat.eqb_refl, Eij, Nat.eqb_refl, Ci3, Ci1, Cj1.
      split; [apply Lv; exact Li | split; [congruence | split; [reflexivity | right; right; split; reflexivity]]].
    + destruct (Nat.eqb a i) eqn:Eai.
      * apply Nat.eqb_eq in Eai. subst a. rewrite Ci3 in Pa. inversion Pa; subst b.
        rewrite !G, Nat.eqb_refl, Eij, Nat.eqb_refl, Cj3, Ci1, Cj1.
        split; [apply Lv; exact Lj | split; [exact Nji | split; [reflexivity | right; right; split; reflexivity]]].
      * apply Nat.eqb_neq in Eaj. apply Nat.eqb_neq in Eai. apply Lv in La.
        destruct (i_sym _ H a b La Pa) as [Lb [Nb [Pb Ps']]].
        assert (b <> i) by (intros ->; rewrite Pi in Pb; inversion Pb; congruence).
        assert (b <> j) by (intros ->; rewrite Pj in Pb; inversion Pb; congruence).
        rewrite !G, (proj2 (Nat.eqb_neq a j) Eaj), (proj2 (Nat.eqb_neq a i) Eai), (proj2 (Nat.eqb_neq b j) H1), (proj2 (Nat.eqb_neq b i) H0).
        split; [apply Lv; exact Lb | auto].
  - intros a La Pa. rewrite G in *. destruct (Nat.eqb a j) eqn:Eaj; [congruence|]. destruct (Nat.eqb a i) eqn:Eai; [congruence|].
    apply (i_single _ H a); [apply Lv; exact La | exact Pa].
  - exact (i_keys _ H).
  - intros k x Hx. cbn [reg set] in Hx. destruct (i_reg _ H k x Hx) as [Lx [Sx [Hhx [Px Hk]]]].
    assert (x <> i) by (intros ->; unfold Registered, AwaitingIdentity in *; congruence).
    assert (x <> j) by (intros ->; congruence).
    rewrite G, (proj2 (Nat.eqb_neq x j) H1), (proj2 (Nat.eqb_neq x i) H0). split; [apply Lv; exact Lx | auto].
  - exact (i_run _ H).
Qed.

Lemma skeq_get s s' k : SkEq s s' -> skel (get s' k) = skel (get s k).
Proof. intros [E _]. symmetry. apply E. Qed.

Lemma handle_identity_ready_inv s i : Inv s -> Live s i -> st (get s i) = AwaitingIdentity -> Inv (handle_identity_ready s i).
Proof.
  intros H Li Si. unfold handle_identity_ready.
  destruct (partner (get s i)) as [j|] eqn:Pi.
  2:{ destruct (i_single _ H i Li Pi); unfold AwaitingCommand, Registered, AwaitingIdentity in *; congruence. }
  destruct (i_sym _ H i j Li Pi) as [Lj [Nji [Pj Ps]]].
  unfold lock. unfold Live in Lj. rewrite Lj.
  eapply Inv_skeq; [|apply queue_skeq].
  set (s1 := queue s j (t_BEGIN ++ cself (get s i) ++ [10])).
  assert (Q : SkEq s s1) by apply queue_skeq.
  pose proof (Inv_skeq _ _ H Q) as H1.
  destruct (skel_fields _ _ (skeq_get _ _ i Q)) as [A1 [A2 [A3 A4]]].
  destruct (skel_fields _ _ (skeq_get _ _ j Q)) as [B1 [B2 [B3 B4]]].
  apply bridge_core; try exact H1.
  - unfold Live. rewrite A4. exact Li.
  - rewrite A3. exact Pi.
  - rewrite A1. exact Si.
  - unfold skel. cbn [with_rbuf with_st st hex partner alive]. rewrite A3, A4, Pi. unfold Live in Li. rewrite Li. reflexivity.
  - rewrite (get_set_other _ i j _ Nji). unfold skel. cbn [with_rbuf with_st st hex partner alive]. rewrite B3, B4, Pj, Lj. reflexivity.
Qed.

(* ---------- forwarding changes nothing the invariant looks at (or closes the session) ---------- *)
Lemma forward_inv s i d : Inv s -> Inv (forward s i d).
Proof.
  intros H. unfold forward. destruct (lock s (partner (get s i))); [eapply Inv_skeq; [exact H | apply queue_skeq] | apply close_inv; exact H].
Qed.

(* ---------- lines, the protocol loop, a read event ---------- *)
Lemma handle_line_inv s i line : Inv s -> Live s i -> st (get s i) <> AwaitingIdentity -> st (get s i) <> Bridged ->
  Inv (handle_line s i line).
Proof.
  intros H Li N2 N3. unfold handle_line. destruct line as [|b0 br]; [exact H|].
  destruct (match split_at 32 (b0 :: br) with Some (a, b) => (a, b) | None => (b0 :: br, []) end) as [cmd args].
  destruct (list_eqb cmd t_REGISTER); [apply handle_register_inv; assumption|].
  destruct (list_eqb cmd t_CONNECT).
  - destruct (tokens args) as [|a [|b [|c r]]]; try (eapply Inv_skeq; [exact H | apply queue_skeq]).
    apply handle_connect_inv; assumption.
  - destruct (list_eqb cmd t_PONG); [exact H | eapply Inv_skeq; [exact H | apply queue_skeq]].
Qed.

Lemma process_inv fuel : forall s i, Inv s -> Inv (process fuel s i).
Proof.
  induction fuel as [|f IH]; intros s i H; cbn [process]; [exact H|].
  destruct (alive (get s i)) eqn:Li; cbn [negb]; [|exact H].
  destruct (st (get s i) =? AwaitingIdentity) eqn:E2.
  - destruct (32 <=? zlen (rbuf (get s i))); [|exact H]. apply IH. apply handle_identity_ready_inv; [exact H | exact Li | lia].
  - destruct (st (get s i) =? Bridged) eqn:E3; [exact H|].
    destruct (split_at 10 (rbuf (get s i))) as [[line rest]|]; [|exact H].
    apply IH.
    assert (Q : SkEq s (set s i (with_rbuf (get s i) rest))) by (apply set_skeq; reflexivity).
    destruct (skel_fields _ _ (skeq_get _ _ i Q)) as [A1 [A2 [A3 A4]]].
    apply handle_line_inv; [exact (Inv_skeq _ _ H Q) | unfold Live; rewrite A4; exact Li | rewrite A1; lia | rewrite A1; lia].
Qed.

Lemma handle_read_inv s i data : Inv s -> Inv (handle_read s i data).
Proof.
  intros H. unfold handle_read. destruct (negb (alive (get s i))); [exact H|].
  destruct (st (get s i) =? Bridged); [apply forward_inv; exact H|].
  apply process_inv. eapply Inv_skeq; [exact H | apply set_skeq; reflexivity].
Qed.

Lemma nth_map_wbuf l k : skel (nth k (map (fun c => with_wbuf c []) l) gone) = skel (nth k l gone).
Proof. revert k. induction l as [|x r IH]; intros [|k]; cbn [map nth]; try reflexivity. apply IH. Qed.
Lemma deliver_skeq s : SkEq s (fst (deliver s)).
Proof.
  unfold deliver. cbn [fst]. repeat split; cbn [clients reg hung]; [|rewrite map_length; reflexivity].
  intros k. unfold get. cbn [clients]. symmetry. apply nth_map_wbuf.
Qed.

Lemma connect_inv s : Inv s -> Inv (mkState (clients s ++ [fresh]) (reg s) (hung s)).
Proof.
  intros H.
  assert (G : forall k, (k < length (clients s))%nat -> get (mkState (clients s ++ [fresh]) (reg s) (hung s)) k = get s k).
  { intros k L. unfold get. cbn [clients]. apply app_nth1. exact L. }
  assert (Gn : get (mkState (clients s ++ [fresh]) (reg s) (hung s)) (length (clients s)) = fresh).
  { unfold get. cbn [clients]. rewrite app_nth2 by lia. rewrite Nat.sub_diag. reflexivity. }
  assert (Lv : forall k, Live (mkState (clients s ++ [fresh]) (reg s) (hung s)) k -> (k < length (clients s))%nat \/ k = length (clients s)).
  { intros k Lk. apply live_lt in Lk. cbn [clients] in Lk. rewrite app_length in Lk. cbn in Lk. lia. }
  split; cbn [reg hung].
  - intros a b La Pa. destruct (Lv a La) as [L | ->].
    + rewrite G in Pa by exact L. unfold Live in La. rewrite G in La by exact L.
      destruct (i_sym _ H a b La Pa) as [Lb [Nb [Pb Ps]]]. pose proof (live_lt _ _ Lb) as Ltb.
      unfold Live. rewrite !G by assumption. auto.
    + rewrite Gn in Pa. discriminate.
  - intros a La Pa. destruct (Lv a La) as [L | ->].
    + unfold Live in La. rewrite G in * by exact L. apply (i_single _ H a La Pa).
    + rewrite Gn. left. reflexivity.
  - exact (i_keys _ H).
  - intros k x Hx. destruct (i_reg _ H k x Hx) as [Lx R]. pose proof (live_lt _ _ Lx) as Ltx.
    unfold Live. rewrite G by exact Ltx. split; [exact Lx | exact R].
  - exact (i_run _ H).
Qed.

Theorem step_inv s o : Inv s -> Inv (fst (step s o)).
Proof.
  intros H. destruct o as [|i data|i|i n sd]; cbn [step].
  - eapply Inv_skeq; [|apply deliver_skeq]. apply connect_inv. exact H.
  - eapply Inv_skeq; [|apply deliver_skeq]. apply handle_read_inv. exact H.
  - eapply Inv_skeq; [|apply deliver_skeq]. apply close_inv. exact H.
  - destruct (alive (get s i) && (st (get s i) =? Bridged)); (eapply Inv_skeq; [|apply deliver_skeq]);
      [apply handle_read_inv; exact H | exact H].
Qed.

Definition run_ops (s : state) (ops : list op) : state := fold_left (fun s o => fst (step s o)) ops s.
Theorem reachable_inv ops : forall s, Inv s -> Inv (run_ops s ops).
Proof. induction ops as [|o r IH]; intros s H; cbn [run_ops fold_left]; [exact H | apply IH, step_inv, H]. Qed.

(* ---------- what the clients receive ---------- *)
Definition Flushed (s : state) : Prop := forall k, wbuf (get s k) = [].
Lemma nth_map_wbuf_empty l k : wbuf (nth k (map (fun c => with_wbuf c []) l) gone) = [].
Proof. revert k. induction l as [|x r IH]; intros [|k]; cbn [map nth]; try reflexivity. apply IH. Qed.
Lemma step_flushed s o : Flushed (fst (step s o)).
Proof.
  intros k. destruct o as [|i d|i|i n sd]; cbn [step]; [| | |destruct (alive (get s i) && (st (get s i) =? Bridged))];
    cbn [deliver fst]; unfold get; cbn [clients]; apply nth_map_wbuf_empty.
Qed.
Lemma init_flushed : Flushed init.
Proof. intros k. unfold get. cbn. destruct k; reflexivity. Qed.

Definition received (s : state) (k : nat) : list Z := if alive (get s k) then wbuf (get s k) else [].
Lemma nth_outs s k : nth k (snd (deliver s)) [] = received s k.
Proof.
  unfold deliver, received, get. cbn [snd]. generalize (clients s). intros l. revert k.
  induction l as [|x r IH]; intros [|k]; cbn [map nth]; try reflexivity. apply IH.
Qed.

(* C25, delivery: what a bridged client sends reaches its partner, whole, and nobody else; nothing else changes *)
Theorem bridged_send_delivers s i data : Inv s -> Flushed s -> Live s i -> st (get s i) = Bridged ->
  exists j, partner (get s i) = Some j /\ Live s j /\ j <> i /\ st (get s j) = Bridged /\ partner (get s j) = Some i /\
    let r := step s (Send i data) in
    nth j (snd r) [] = data /\ (forall k, k <> j -> nth k (snd r) [] = []) /\ SkEq s (fst r).
Proof.
  intros H F Li Si.
  destruct (partner (get s i)) as [j|] eqn:Pi.
  2:{ destruct (i_single _ H i Li Pi); unfold AwaitingCommand, Registered, Bridged in *; congruence. }
  destruct (i_sym _ H i j Li Pi) as [Lj [Nji [Pj Ps]]].
  assert (Sj : st (get s j) = Bridged) by (unfold pair_states, Registered, AwaitingIdentity, Bridged in *; lia).
  exists j. split; [reflexivity|]. repeat (split; [assumption|]).
  cbv zeta. cbn [step]. unfold handle_read. cbv zeta. unfold Live in Li. rewrite Li, Si. cbn [negb]. rewrite Z.eqb_refl.
  unfold forward. rewrite Pi. unfold lock. unfold Live in Lj. rewrite Lj.
  pose proof (live_lt _ _ Lj) as Ltj.
  assert (Gq : forall k, get (queue s j data) k = if Nat.eqb k j then with_wbuf (get s j) (wbuf (get s j) ++ data) else get s k).
  { intros k. unfold queue. destruct (Nat.eqb k j) eqn:E; [apply Nat.eqb_eq in E; subst; apply get_set_same; exact Ltj
                                                             | apply Nat.eqb_neq in E; apply get_set_other; exact E]. }
  split; [|split].
  - rewrite nth_outs. unfold received. rewrite Gq, Nat.eqb_refl. cbn [with_wbuf alive wbuf]. rewrite Lj, (F j). reflexivity.
  - intros k Nk. rewrite nth_outs. unfold received. rewrite Gq, (proj2 (Nat.eqb_neq k j) Nk), (F k). destruct (alive (get s k)); reflexivity.
  - eapply SkEq_trans; [apply queue_skeq | apply deliver_skeq].
Qed.

(* C25, disconnect: when one side of an established bridge leaves, both sessions are gone after that event *)
Theorem bridged_disconnect_closes_both s i : Inv s -> Live s i -> st (get s i) = Bridged ->
  exists j, partner (get s i) = Some j /\ Live s j /\
    ~ Live (fst (step s (Disconnect i))) i /\ ~ Live (fst (step s (Disconnect i))) j.
Proof.
  intros H Li Si.
  destruct (partner (get s i)) as [j|] eqn:Pi.
  2:{ destruct (i_single _ H i Li Pi); unfold AwaitingCommand, Registered, Bridged in *; congruence. }
  destruct (i_sym _ H i j Li Pi) as [Lj [Nji [Pj Ps]]].
  assert (Sj : st (get s j) = Bridged) by (unfold pair_states, Registered, AwaitingIdentity, Bridged in *; lia).
  exists j. split; [reflexivity|]. split; [exact Lj|].
  assert (D : forall k, Live (fst (step s (Disconnect i))) k <-> Live (close_session s i) k).
  { intros k. unfold Live. destruct (skel_fields _ _ (skeq_get _ _ k (deliver_skeq (close_session s i)))) as [_ [_ [_ A]]].
    cbn [step]. rewrite A. tauto. }
  rewrite !D. rewrite (close_result s i H Li). cbv zeta. rewrite Pi, Sj. cbn [Z.eqb orb]. rewrite Z.eqb_refl, orb_true_r.
  pose proof (live_lt _ _ Li) as Lti. pose proof (live_lt _ _ Lj) as Ltj.
  assert (Len : length (clients (remove_registration s i)) = length (clients s)) by (rewrite remove_registration_clients; reflexivity).
  unfold Live. rewrite !remove_registration_get. split.
  - rewrite get_set_other by congruence. rewrite get_set_same by (rewrite Len; exact Lti). cbn. discriminate.
  - rewrite get_set_same by (rewrite length_set, Len; exact Ltj). cbn. discriminate.
Qed.

(* ---------- C26: once every client has left, nothing is held ---------- *)
Lemma close_alive s i k : Inv s -> alive (get (close_session s i) k) = true -> alive (get s k) = true /\ (Live s i -> k <> i).
Proof.
  intros H. destruct (alive (get s i)) eqn:Li.
  2:{ unfold close_session. rewrite close_S. cbv zeta. rewrite Li. cbn [negb]. intros A. split; [exact A | unfold Live; congruence]. }
  rewrite (close_result s i H Li). cbv zeta.
  pose proof (live_lt _ _ Li) as Lti.
  assert (Len : length (clients (remove_registration s i)) = length (clients s)) by (rewrite remove_registration_clients; reflexivity).
  destruct (partner (get s i)) as [j|] eqn:Pi.
  2:{ destruct (Nat.eq_dec k i) as [->|N].
      - rewrite get_set_same by (rewrite Len; exact Lti). cbn. discriminate.
      - rewrite get_set_other by exact N. rewrite remove_registration_get. intros A. split; [exact A | intros _; exact N]. }
  destruct (i_sym _ H i j Li Pi) as [Lj [Nji [Pj Ps]]]. pose proof (live_lt _ _ Lj) as Ltj.
  assert (G2 : forall cj, get (set (set (remove_registration s i) i (dead_of (get s i))) j cj) k
                          = if Nat.eqb k j then cj else if Nat.eqb k i then dead_of (get s i) else get s k).
  { intros cj. rewrite get_set2 by (rewrite Len; assumption). rewrite remove_registration_get. reflexivity. }
  assert (Fin : forall cj, alive cj = true -> alive (get s j) = true ->
                 alive (if Nat.eqb k j then cj else if Nat.eqb k i then dead_of (get s i) else get s k) = true ->
                 alive (get s k) = true /\ (Live s i -> k <> i)).
  { intros cj _ Aj. destruct (Nat.eqb k j) eqn:Ej.
    - apply Nat.eqb_eq in Ej. subst k. intros _. split; [exact Aj | intros _; exact Nji].
    - destruct (Nat.eqb k i) eqn:Ei; [cbn; discriminate|]. apply Nat.eqb_neq in Ei. intros A. split; [exact A | intros _; exact Ei]. }
  destruct ((st (get s j) =? AwaitingIdentity) || (st (get s j) =? Bridged)).
  - rewrite remove_registration_get, G2. destruct (Nat.eqb k j); [cbn; discriminate|].
    destruct (Nat.eqb k i) eqn:Ei; [cbn; discriminate|]. apply Nat.eqb_neq in Ei. intros A. split; [exact A | intros _; exact Ei].
  - destruct ((st (get s j) =? Registered) && negb (match hex (get s j) with [] => true | _ => false end)).
    + rewrite get_with_reg, G2. apply Fin; [cbn; exact Lj | exact Lj].
    + rewrite G2. apply Fin; [cbn; exact Lj | exact Lj].
Qed.

Lemma close_length s i : Inv s -> length (clients (close_session s i)) = length (clients s).
Proof.
  intros H. destruct (alive (get s i)) eqn:Li.
  2:{ unfold close_session. rewrite close_S. cbv zeta. rewrite Li. reflexivity. }
  rewrite (close_result s i H Li). cbv zeta.
  assert (Len : length (clients (remove_registration s i)) = length (clients s)) by (rewrite remove_registration_clients; reflexivity).
  destruct (partner (get s i)) as [j|]; [|rewrite length_set; exact Len].
  destruct ((st (get s j) =? AwaitingIdentity) || (st (get s j) =? Bridged)).
  - rewrite remove_registration_clients, !length_set. exact Len.
  - destruct ((st (get s j) =? Registered) && negb (match hex (get s j) with [] => true | _ => false end));
      cbn [with_reg clients]; rewrite !length_set; exact Len.
Qed.

Lemma disconnect_step s i k : Inv s ->
  (Live (fst (step s (Disconnect i))) k -> Live s k /\ k <> i) /\
  length (clients (fst (step s (Disconnect i)))) = length (clients s).
Proof.
  intros H. split.
  - intros Lk. unfold Live in Lk. destruct (skel_fields _ _ (skeq_get _ _ k (deliver_skeq (close_session s i)))) as [_ [_ [_ A]]].
    cbn [step] in Lk. rewrite A in Lk. destruct (close_alive s i k H Lk) as [A1 A2]. split; [exact A1|].
    intros ->. exact (A2 A1 eq_refl).
  - cbn [step]. destruct (deliver_skeq (close_session s i)) as [_ [_ [_ L]]]. rewrite <- L. apply close_length. exact H.
Qed.

Theorem everyone_leaves_clean s : Inv s ->
  let s' := everyone_leaves s in count_alive s' = 0 /\ reg s' = [] /\ hung s' = false.
Proof.
  intros H. cbv zeta. unfold everyone_leaves.
  assert (K : forall l s0, Inv s0 -> let sf := fold_left (fun s i => fst (step s (Disconnect i))) l s0 in
                 Inv sf /\ length (clients sf) = length (clients s0) /\ (forall k, Live sf k -> Live s0 k /\ ~ In k l)).
  { induction l as [|i r IH]; intros s0 H0; cbn [fold_left]; cbv zeta; [split; [exact H0 | split; [reflexivity | intros k Lk; split; [exact Lk | intros []]]]|].
    destruct (IH (fst (step s0 (Disconnect i))) (step_inv s0 (Disconnect i) H0)) as [I1 [I2 I3]].
    destruct (disconnect_step s0 i 0%nat H0) as [_ Ln].
    split; [exact I1 | split; [rewrite I2; exact Ln|]].
    intros k Lk. destruct (I3 k Lk) as [L1 L2]. destruct (disconnect_step s0 i k H0) as [D _]. destruct (D L1) as [D1 D2].
    split; [exact D1 | intros [->|X]; [congruence | exact (L2 X)]]. }
  destruct (K (seq 0 (length (clients s))) s H) as [If [Lf Df]].
  set (sf := fold_left (fun s i => fst (step s (Disconnect i))) (seq 0 (length (clients s))) s) in *.
  assert (Dead : forall k, alive (get sf k) = false).
  { intros k. destruct (alive (get sf k)) eqn:A; [|reflexivity]. destruct (Df k A) as [L1 L2]. exfalso. apply L2.
    apply in_seq. pose proof (live_lt _ _ L1). lia. }
  split; [|split].
  - unfold count_alive. assert (E : filter alive (clients sf) = []).
    { assert (P : forall l, (forall k, alive (nth k l gone) = false) -> filter alive l = []).
      { induction l as [|x r IHl]; intros D; [reflexivity|]. cbn [filter]. pose proof (D 0%nat) as D0. cbn in D0. rewrite D0.
        apply IHl. intros k. exact (D (S k)). }
      apply P. exact Dead. }
    rewrite E. reflexivity.
  - destruct (reg sf) as [|[k j] r] eqn:R; [reflexivity|]. exfalso.
    destruct (i_reg _ If k j) as [Lj _]; [rewrite R; left; reflexivity|]. unfold Live in Lj. rewrite Dead in Lj. discriminate.
  - exact (i_run _ If).
Qed.

Theorem never_hangs ops : hung (run_ops init ops) = false.
Proof. exact (i_run _ (reachable_inv ops init Inv_init)). Qed.

(* ---------- who can make whom receive bytes ---------- *)
Lemma wbuf_set s j c k : wbuf c = wbuf (get s j) -> wbuf (get (set s j c) k) = wbuf (get s k).
Proof.
  intros E. destruct (Nat.eq_dec k j) as [->|N]; [|rewrite get_set_other by exact N; reflexivity].
  destruct (lt_dec j (length (clients s))) as [L|L]; [rewrite get_set_same by exact L; exact E|].
  unfold get, set. cbn [clients]. rewrite !nth_overflow; [reflexivity | lia | rewrite lset_length; lia].
Qed.
Lemma wbuf_queue_other s i d k : k <> i -> wbuf (get (queue s i d) k) = wbuf (get s k).
Proof. intros N. unfold queue. rewrite get_set_other by exact N. reflexivity. Qed.

Lemma close_wbuf fuel : forall s i k, wbuf (get (close fuel s i) k) = wbuf (get s k).
Proof.
  induction fuel as [|f IH]; intros s i k; [reflexivity|]. rewrite close_S. cbv zeta.
  destruct (negb (alive (get s i))); [reflexivity|].
  set (s1 := set s i (with_alive (get s i) false)).
  assert (W1 : forall x, wbuf (get (remove_registration s1 i) x) = wbuf (get s x)).
  { intros x. rewrite remove_registration_get. unfold s1. apply wbuf_set. reflexivity. }
  destruct (lock (remove_registration s1 i) (partner (get s i))) as [j|]; [|apply W1].
  set (s3 := set (remove_registration s1 i) j (with_partner (get (remove_registration s1 i) j) None)).
  assert (W3 : forall x, wbuf (get s3 x) = wbuf (get s x)).
  { intros x. unfold s3. rewrite wbuf_set by reflexivity. apply W1. }
  destruct ((st (get (remove_registration s1 i) j) =? AwaitingIdentity) || (st (get (remove_registration s1 i) j) =? Bridged)).
  - rewrite IH. apply W3.
  - destruct ((st (get (remove_registration s1 i) j) =? Registered) && _); [rewrite get_with_reg|]; apply W3.
Qed.

Lemma handle_register_quiet s i arg k : k <> i -> wbuf (get (handle_register s i arg) k) = wbuf (get s k).
Proof.
  intros N. unfold handle_register.
  destruct (negb (is_hex_string arg && (zlen arg =? 64))); [apply wbuf_queue_other; exact N|].
  destruct (lock s (partner (get s i))); [apply wbuf_queue_other; exact N|].
  rewrite wbuf_queue_other by exact N. rewrite get_with_reg. rewrite get_set_other by exact N. rewrite remove_registration_get. reflexivity.
Qed.

Lemma handle_connect_quiet s i a b k : k <> i -> wbuf (get (handle_connect s i a b) k) = wbuf (get s k).
Proof.
  intros N. unfold handle_connect.
  destruct (st (get s i) =? Registered); [apply wbuf_queue_other; exact N|].
  destruct (negb (is_hex_string a && is_hex_string b)); [apply wbuf_queue_other; exact N|].
  destruct (list_eqb a b); [apply wbuf_queue_other; exact N|].
  unfold find_registered. destruct (rfind b (reg s)) as [j|]; [|apply wbuf_queue_other; exact N].
  destruct (alive (get s j) && (st (get s j) =? Registered)); [|rewrite wbuf_queue_other by exact N; reflexivity].
  rewrite wbuf_queue_other by exact N. rewrite wbuf_set by reflexivity. rewrite get_set_other by exact N. reflexivity.
Qed.

Lemma handle_line_quiet s i line k : k <> i -> wbuf (get (handle_line s i line) k) = wbuf (get s k).
Proof.
  intros N. unfold handle_line. destruct line as [|b0 br]; [reflexivity|].
  destruct (match split_at 32 (b0 :: br) with Some (a, b) => (a, b) | None => (b0 :: br, []) end) as [cmd args].
  destruct (list_eqb cmd t_REGISTER); [apply handle_register_quiet; exact N|].
  destruct (list_eqb cmd t_CONNECT).
  - destruct (tokens args) as [|a [|b [|c r]]]; try (apply wbuf_queue_other; exact N). apply handle_connect_quiet; exact N.
  - destruct (list_eqb cmd t_PONG); [reflexivity | apply wbuf_queue_other; exact N].
Qed.

(* a client k other than the one whose bytes the server is handling gets something only as that client's bridge partner *)
Definition Touched (s0 s : state) (i k : nat) : Prop :=
  wbuf (get s k) = wbuf (get s0 k) \/
  (Live s k /\ Live s i /\ st (get s k) = Bridged /\ st (get s i) = Bridged /\ partner (get s k) = Some i /\ partner (get s i) = Some k).

Lemma identity_touch s i k : Inv s -> Live s i -> st (get s i) = AwaitingIdentity -> k <> i ->
  Touched s (handle_identity_ready s i) i k.
Proof.
  intros H Li Si N. pose proof (handle_identity_ready_inv s i H Li Si) as H'. revert H'.
  unfold handle_identity_ready.
  destruct (partner (get s i)) as [j|] eqn:Pi.
  2:{ destruct (i_single _ H i Li Pi); unfold AwaitingCommand, Registered, AwaitingIdentity in *; congruence. }
  destruct (i_sym _ H i j Li Pi) as [Lj [Nji [Pj Ps]]].
  unfold lock. unfold Live in Lj. rewrite Lj. intros H'.
  pose proof (live_lt _ _ Li) as Lti. pose proof (live_lt _ _ Lj) as Ltj.
  set (s1 := queue s j (t_BEGIN ++ cself (get s i) ++ [10])) in *.
  assert (L1 : length (clients s1) = length (clients s)) by (unfold s1, queue; apply length_set).
  set (ci := with_rbuf (with_st (get s1 i) Bridged) []) in *.
  set (s2 := set s1 i ci) in *.
  set (cj := with_st (get s2 j) Bridged) in *.
  set (s3 := set s2 j cj) in *.
  destruct (Nat.eq_dec k j) as [->|Nkj].
  - right.
    assert (Gj : get (queue s3 j (firstn 32 (rbuf (get s i)) ++ skipn 32 (rbuf (get s i)))) j = with_wbuf cj (wbuf cj ++ (firstn 32 (rbuf (get s i)) ++ skipn 32 (rbuf (get s i))))).
    { unfold queue. rewrite get_set_same by (unfold s3, s2; rewrite !length_set, L1; exact Ltj).
      unfold s3. rewrite get_set_same by (unfold s2; rewrite length_set, L1; exact Ltj). reflexivity. }
    assert (Gi : get (queue s3 j (firstn 32 (rbuf (get s i)) ++ skipn 32 (rbuf (get s i)))) i = ci).
    { unfold queue. rewrite get_set_other by congruence. unfold s3. rewrite get_set_other by congruence.
      unfold s2. apply get_set_same. rewrite L1. exact Lti. }
    assert (G1i : get s1 i = get s i) by (unfold s1, queue; apply get_set_other; congruence).
    assert (G2j : get s2 j = get s1 j) by (unfold s2; apply get_set_other; exact Nji).
    assert (G1j : skel (get s1 j) = skel (get s j)) by (apply skeq_get; apply queue_skeq).
    destruct (skel_fields _ _ G1j) as [B1 [B2 [B3 B4]]].
    unfold Live. rewrite Gj, Gi. unfold cj, ci. cbn [with_wbuf with_st with_rbuf alive st partner]. rewrite G2j, G1i, B3, B4.
    unfold Live in Li. rewrite Li, Lj, Pj, Pi. repeat split; reflexivity.
  - left. rewrite wbuf_queue_other by exact Nkj. unfold s3. rewrite get_set_other by exact Nkj.
    unfold s2. rewrite get_set_other by exact N. unfold s1. rewrite wbuf_queue_other by exact Nkj. reflexivity.
Qed.

Lemma process_touch fuel : forall s i k, Inv s -> k <> i -> Touched s (process fuel s i) i k.
Proof.
  induction fuel as [|f IH]; intros s i k H N; cbn [process]; [left; reflexivity|].
  destruct (alive (get s i)) eqn:Li; cbn [negb]; [|left; reflexivity].
  destruct (st (get s i) =? AwaitingIdentity) eqn:E2.
  - destruct (32 <=? zlen (rbuf (get s i))); [|left; reflexivity].
    assert (Si : st (get s i) = AwaitingIdentity) by lia.
    pose proof (handle_identity_ready_inv s i H Li Si) as H1.
    (* after the bridge is up the loop stops: the session is Bridged (or, never, closed) *)
    assert (Stop : process f (handle_identity_ready s i) i = handle_identity_ready s i).
    { destruct f as [|f']; [reflexivity|]. cbn [process].
      destruct (alive (get (handle_identity_ready s i) i)) eqn:A; cbn [negb]; [|reflexivity].
      assert (S3 : st (get (handle_identity_ready s i) i) = Bridged).
      { destruct (partner (get s i)) as [j|] eqn:Pi.
        2:{ destruct (i_single _ H i Li Pi); unfold AwaitingCommand, Registered, AwaitingIdentity in *; congruence. }
        destruct (i_sym _ H i j Li Pi) as [Lj [Nji [Pj Ps]]].
        destruct (identity_touch s i j H Li Si Nji) as [W|[_ [_ [_ [X _]]]]]; [|exact X].
        (* the partner's buffer did change: BEGIN was queued *)
        exfalso. revert W. unfold handle_identity_ready. rewrite Pi. unfold lock. unfold Live in Lj. rewrite Lj.
        pose proof (live_lt _ _ Lj) as Ltj. pose proof (live_lt _ _ Li) as Lti.
        unfold queue at 1. rewrite get_set_same.
        2:{ rewrite !length_set. unfold queue. rewrite length_set. exact Ltj. }
        rewrite get_set_same.
        2:{ rewrite length_set. unfold queue. rewrite length_set. exact Ltj. }
        rewrite get_set_other by exact Nji. unfold queue. rewrite get_set_same by exact Ltj.
        cbn [with_wbuf with_st wbuf]. intros W. apply (f_equal (@length Z)) in W. rewrite !app_length in W. cbn [length t_BEGIN] in W. lia. }
      rewrite S3. cbn. reflexivity. }
    rewrite Stop. apply identity_touch; assumption.
  - destruct (st (get s i) =? Bridged) eqn:E3; [left; reflexivity|].
    destruct (split_at 10 (rbuf (get s i))) as [[line rest]|]; [|left; reflexivity].
    set (s1 := set s i (with_rbuf (get s i) rest)).
    assert (Q : SkEq s s1) by (apply set_skeq; reflexivity).
    destruct (skel_fields _ _ (skeq_get _ _ i Q)) as [A1 [A2 [A3 A4]]].
    assert (H2 : Inv (handle_line s1 i (strip_cr line))).
    { apply handle_line_inv; [exact (Inv_skeq _ _ H Q) | unfold Live; rewrite A4; exact Li | rewrite A1; lia | rewrite A1; lia]. }
    destruct (IH (handle_line s1 i (strip_cr line)) i k H2 N) as [W|B]; [left | right; exact B].
    rewrite W, handle_line_quiet by exact N. unfold s1. rewrite get_set_other by exact N. reflexivity.
Qed.

(* C25, isolation: while the server handles what client i sent, any OTHER client k that receives anything is, after that event,
   bridged to i -- so no client receives relayed bytes before its own bridge exists, or from anyone but its partner *)
Theorem only_the_bridge_partner_receives s i data k : Inv s -> Flushed s -> k <> i ->
  nth k (snd (step s (Send i data))) [] <> [] ->
  let s' := fst (step s (Send i data)) in
  Live s' k /\ Live s' i /\ st (get s' k) = Bridged /\ st (get s' i) = Bridged /\ partner (get s' k) = Some i /\ partner (get s' i) = Some k.
Proof.
  intros H F N. cbn [step]. rewrite nth_outs. unfold received. intros R. cbv zeta.
  set (hr := handle_read s i data) in *.
  assert (T : Touched s hr i k).
  { unfold hr, handle_read. destruct (alive (get s i)) eqn:Li; cbn [negb]; [|left; reflexivity].
    destruct (st (get s i) =? Bridged) eqn:E3.
    - unfold forward. destruct (lock s (partner (get s i))) as [j|] eqn:Lk.
      + destruct (Nat.eq_dec k j) as [->|Nkj]; [|left; apply wbuf_queue_other; exact Nkj].
        right. destruct (partner (get s i)) as [j'|] eqn:Pi; [|discriminate]. unfold lock in Lk.
        destruct (alive (get s j')) eqn:Aj; [|discriminate]. inversion Lk; subst j'.
        destruct (i_sym _ H i j Li Pi) as [Lj [Nji [Pj Ps]]].
        assert (Si : st (get s i) = Bridged) by lia.
        assert (Sj : st (get s j) = Bridged) by (unfold pair_states, Registered, AwaitingIdentity, Bridged in *; lia).
        destruct (skel_fields _ _ (skeq_get _ _ j (queue_skeq s j data))) as [B1 [B2 [B3 B4]]].
        destruct (skel_fields _ _ (skeq_get _ _ i (queue_skeq s j data))) as [C1 [C2 [C3 C4]]].
        unfold Live. rewrite B1, B3, B4, C1, C3, C4. repeat split; assumption.
      + left. unfold close_session. apply close_wbuf.
    - set (s0 := set s i (with_rbuf (get s i) (rbuf (get s i) ++ data))).
      assert (Q : SkEq s s0) by (apply set_skeq; reflexivity).
      destruct (process_touch (S (length (rbuf (get s i) ++ data))) s0 i k (Inv_skeq _ _ H Q) N) as [W|B]; [left | right; exact B].
      rewrite W. unfold s0. rewrite get_set_other by exact N. reflexivity. }
  destruct T as [W|B].
  - exfalso. apply R. rewrite W, (F k). destruct (alive (get hr k)); reflexivity.
  - destruct B as [B1 [B2 [B3 [B4 [B5 B6]]]]].
    destruct (skel_fields _ _ (skeq_get _ _ k (deliver_skeq hr))) as [K1 [K2 [K3 K4]]].
    destruct (skel_fields _ _ (skeq_get _ _ i (deliver_skeq hr))) as [I1 [I2 [I3 I4]]].
    unfold Live in *. rewrite K1, K3, K4, I1, I3, I4. repeat split; assumption.
Qed.

(* a new connection or a disconnect makes nobody receive anything *)
Theorem quiet_events s o k : Flushed s -> (o = Connect \/ exists i, o = Disconnect i) -> nth k (snd (step s o)) [] = [].
Proof.
  intros F [->|[i ->]]; cbn [step]; rewrite nth_outs; unfold received.
  - assert (W : wbuf (get (mkState (clients s ++ [fresh]) (reg s) (hung s)) k) = []).
    { unfold get. cbn [clients]. destruct (lt_dec k (length (clients s))) as [L|L].
      - rewrite app_nth1 by exact L. exact (F k).
      - rewrite app_nth2 by lia. destruct (k - length (clients s))%nat as [|[|m]]; reflexivity. }
    rewrite W. destruct (alive _); reflexivity.
  - unfold close_session. rewrite close_wbuf, (F k). destruct (alive _); reflexivity.
Qed.
