(* Proofs about model/FetchCliModel.v (C30). *)
Require Import ZArith List Bool Lia.
Import ListNotations.
Local Open Scope Z_scope.
From EphVerif Require Import lib.Bytes model.Sha256Model model.FetchCliModel.

Section Proofs.
  Variable hash : list Z -> list Z.
  Variable h : list Z.

  Lemma transport_writes_matching r b : attempt_transport hash h r = Wrote b -> hash b = h /\ r = Payload b.
  Proof.
    destruct r as [| |c|]; cbn [attempt_transport]; try discriminate. unfold matches.
    destruct (list_eqb (hash c) h) eqn:E; [|discriminate]. intros H. inversion H; subst. split; [apply list_eqb_spec; exact E | reflexivity].
  Qed.
  Lemma control_writes_matching r b : attempt_control hash h r = Wrote b -> hash b = h /\ r = Payload b.
  Proof.
    destruct r as [| |c|]; cbn [attempt_control]; try discriminate. unfold matches.
    destruct (list_eqb (hash c) h) eqn:E; [|discriminate]. intros H. inversion H; subst. split; [apply list_eqb_spec; exact E | reflexivity].
  Qed.

  (* what a stage returns was produced by one of its paths *)
  Lemma first_ok_from att l tried i o : first_ok att l = (tried, Some (i, o)) ->
    exists x, In (i, x) l /\ att (h_resp x) = o /\ o <> Failed.
  Proof.
    revert tried. induction l as [|[j x] r IH]; intros tried; cbn [first_ok]; [discriminate|].
    destruct (att (h_resp x)) eqn:A.
    - intros H. inversion H; subst. exists x. split; [left; reflexivity | split; [exact A | discriminate]].
    - intros H. inversion H; subst. exists x. split; [left; reflexivity | split; [exact A | discriminate]].
    - destruct (first_ok att r) as [t res] eqn:F. intros H. inversion H; subst.
      destruct (IH t eq_refl) as [y [Hin Hy]]. exists y. split; [right; exact Hin | exact Hy].
  Qed.

  (* the direct stage of fetch, isolated so that the theorem below can talk about it *)
  Definition written (r : result) (b : list Z) : Prop := r_file r = Some b.

  Theorem fetch_writes_only_matching mode expired hints local b :
    r_file (fetch hash h mode expired hints local) = Some b -> hash b = h.
  Proof.
    unfold fetch.
    set (idx := combine (map Z.of_nat (seq 0 (length hints))) hints).
    set (ts := sort_prio (filter (fun e => h_kind (snd e) =? 0) idx)).
    set (cs := sort_prio (filter (fun e => h_kind (snd e) =? 1) idx)).
    set (fs := sort_prio (filter (fun e => h_kind (snd e) =? 2) idx)).
    match goal with |- context [if negb ?hh then _ else _] => destruct (negb hh) end.
    - destruct ((mode =? 1) || (mode =? 2)); cbn [r_file]; [discriminate|].
      destruct (attempt_control hash h local) eqn:A; cbn [r_file]; try discriminate.
      intros H. inversion H; subst. apply (control_writes_matching _ _ A).
    - assert (T : forall l t i c, first_ok (if expired then (fun _ => Failed) else attempt_transport hash h) l = (t, Some (i, Wrote c)) -> hash c = h).
      { intros l t i c F. destruct (first_ok_from _ _ _ _ _ F) as [x [_ [A _]]]. destruct expired; [discriminate | apply (transport_writes_matching _ _ A)]. }
      assert (C : forall l t i c, first_ok (attempt_control hash h) l = (t, Some (i, Wrote c)) -> hash c = h).
      { intros l t i c F. destruct (first_ok_from _ _ _ _ _ F) as [x [_ [A _]]]. apply (control_writes_matching _ _ A). }
      assert (L : forall tried, r_file (if (mode =? 1) || (mode =? 2) then mkResult 1 None (-1) tried false
                                  else match attempt_control hash h local with
                                       | Wrote b0 => mkResult 0 (Some b0) 100 tried true
                                       | OnDaemonHost => mkResult 0 None 100 tried true
                                       | Failed => mkResult 1 None (-1) tried true
                                       end) = Some b -> hash b = h).
      { intros tried. destruct ((mode =? 1) || (mode =? 2)); cbn [r_file]; [discriminate|].
        destruct (attempt_control hash h local) eqn:A; cbn [r_file]; try discriminate.
        intros H. inversion H; subst. apply (control_writes_matching _ _ A). }
      destruct (mode =? 3).
      + destruct (mode =? 2); [apply L|].
        destruct (first_ok (attempt_control hash h) cs) as [t2 [[i2 o2]|]] eqn:F2.
        * destruct o2; cbn [r_file]; try discriminate. intros H. inversion H; subst. eapply C; exact F2.
        * destruct (first_ok (attempt_control hash h) fs) as [t3 [[i3 o3]|]] eqn:F3; [|apply L].
          destruct o3; cbn [r_file]; try discriminate. intros H. inversion H; subst. eapply C; exact F3.
      + destruct (first_ok (if expired then (fun _ => Failed) else attempt_transport hash h) ts) as [t1 [[i1 o1]|]] eqn:F1.
        * destruct o1; cbn [r_file]; try discriminate. intros H. inversion H; subst. eapply T; exact F1.
        * destruct (mode =? 2); [apply L|].
          destruct (first_ok (attempt_control hash h) cs) as [t2 [[i2 o2]|]] eqn:F2.
          -- destruct o2; cbn [r_file]; try discriminate. intros H. inversion H; subst. eapply C; exact F2.
          -- destruct (first_ok (attempt_control hash h) fs) as [t3 [[i3 o3]|]] eqn:F3; [|apply L].
             destruct o3; cbn [r_file]; try discriminate. intros H. inversion H; subst. eapply C; exact F3.
  Qed.

  (* an endpoint that returns other bytes is, for the command, an endpoint that refuses *)
  Definition soften (r : resp) : resp :=
    match r with Payload b => if matches hash h b then r else Refuse | _ => r end.
  Lemma attempt_transport_soften r : attempt_transport hash h (soften r) = attempt_transport hash h r.
  Proof. destruct r as [| |b|]; cbn [soften attempt_transport]; try reflexivity. destruct (matches hash h b) eqn:E; cbn [attempt_transport]; rewrite ?E; reflexivity. Qed.
  Lemma attempt_control_soften r : attempt_control hash h (soften r) = attempt_control hash h r.
  Proof. destruct r as [| |b|]; cbn [soften attempt_control]; try reflexivity. destruct (matches hash h b) eqn:E; cbn [attempt_control]; rewrite ?E; reflexivity. Qed.

  (* ... for the whole command: replacing every mismatching payload by a refusal changes nothing *)
  Definition soften_hint (x : hint) : hint := mkHint (h_kind x) (h_prio x) (soften (h_resp x)).
  Definition sh (e : Z * hint) : Z * hint := (fst e, soften_hint (snd e)).

  Lemma combine_map_sh (l : list Z) (l' : list hint) : combine l (map soften_hint l') = map sh (combine l l').
  Proof. revert l'. induction l as [|a l IH]; intros [|x l']; cbn [combine map]; try reflexivity. rewrite IH. reflexivity. Qed.
  Lemma filter_sh k l : filter (fun e => h_kind (snd e) =? k) (map sh l) = map sh (filter (fun e => h_kind (snd e) =? k) l).
  Proof. induction l as [|e l IH]; cbn [map filter]; [reflexivity|]. cbn [sh snd soften_hint h_kind]. destruct (h_kind (snd e) =? k); cbn [map]; rewrite IH; reflexivity. Qed.
  Lemma insert_prio_sh e l : insert_prio (sh e) (map sh l) = map sh (insert_prio e l).
  Proof.
    induction l as [|g l IH]; cbn [map insert_prio]; [reflexivity|]. cbn [sh snd soften_hint h_prio].
    destruct (h_prio (snd e) <=? h_prio (snd g)); cbn [map]; [reflexivity|]. f_equal. exact IH.
  Qed.
  Lemma sort_prio_sh l : sort_prio (map sh l) = map sh (sort_prio l).
  Proof. unfold sort_prio. induction l as [|e l IH]; cbn [map fold_right]; [reflexivity|]. rewrite IH. apply insert_prio_sh. Qed.
  Lemma first_ok_sh att l : (forall r, att (soften r) = att r) -> first_ok att (map sh l) = first_ok att l.
  Proof.
    intros Ha. induction l as [|[i x] l IH]; cbn [map first_ok]; [reflexivity|]. cbn [sh fst snd soften_hint h_resp].
    rewrite Ha, IH. reflexivity.
  Qed.
  Lemma empty_sh {A} l (a b : A) : match map sh l with [] => a | _ => b end = match l with [] => a | _ => b end.
  Proof. destruct l; reflexivity. Qed.

  Theorem mismatch_is_refusal mode expired hints local :
    fetch hash h mode expired (map soften_hint hints) (soften local) = fetch hash h mode expired hints local.
  Proof.
    unfold fetch. rewrite map_length, combine_map_sh, !filter_sh, !sort_prio_sh, <- map_app, !empty_sh.
    rewrite !first_ok_sh by (first [apply attempt_control_soften | destruct expired; [reflexivity | apply attempt_transport_soften]]).
    rewrite attempt_control_soften. reflexivity.
  Qed.
End Proofs.

(* with the project's SHA-256: whatever the endpoints return, a file that is written hashes to the hash of the stored payload *)
Theorem file_matches_manifest P mode expired hints local b :
  r_file (fetch sha256 (sha256 P) mode expired hints local) = Some b -> sha256 b = sha256 P.
Proof. apply fetch_writes_only_matching. Qed.

(* the genuine payload is never refused *)
Theorem genuine_payload_accepted P : attempt_control sha256 (sha256 P) (Payload P) = Wrote P /\ attempt_transport sha256 (sha256 P) (Payload P) = Wrote P.
Proof. unfold attempt_control, attempt_transport, matches. rewrite list_eqb_refl. split; reflexivity. Qed.
