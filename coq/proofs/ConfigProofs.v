(* Proofs about model/ConfigModel.v (C02). *)
Require Import ZArith List Bool Lia ZifyBool.
Import ListNotations.
Local Open Scope Z_scope.
From EphVerif Require Import lib.Bytes model.ConfigModel gen.Constants_config.

Ltac ifs := repeat match goal with
  | |- context [if ?b then _ else _] => destruct b eqn:?
  | H : context [if ?b then _ else _] |- _ => destruct b eqn:?
  end.

Lemma consts :
  min_key_rotation = 5 /\ max_key_rotation = 3600 /\ min_allowed_ttl = 1 /\ max_allowed_ttl = 86400 /\
  max_announce_pow = 24 /\ max_handshake_pow = 24 /\ max_store_pow = 24 /\ store_minimum_ttl = 1 /\
  min_announce_interval = 1 /\ max_announce_window = 3600.
Proof. repeat split; reflexivity. Qed.

Lemma smin_range v : 1 <= sanitize_manifest_min v <= 86400.
Proof. destruct consts as (K1 & K2 & K3 & K4 & _). unfold sanitize_manifest_min. rewrite K3, K4. intros; ifs; lia. Qed.

Lemma smax_range v mn : 1 <= mn <= 86400 -> mn <= sanitize_manifest_max v mn <= 86400.
Proof. destruct consts as (K1 & K2 & K3 & K4 & _). unfold sanitize_manifest_max. rewrite K3, K4. intros; ifs; lia. Qed.

Lemma rot_range v : 5 <= sanitize_key_rotation_interval v <= 3600.
Proof. destruct consts as (K1 & K2 & _). unfold sanitize_key_rotation_interval. rewrite K1, K2. intros; ifs; lia. Qed.

Lemma ann_interval_range v : 1 <= sanitize_announce_interval v.
Proof. destruct consts as (K1 & K2 & K3 & K4 & K5 & K6 & K7 & K8 & K9 & K10). unfold sanitize_announce_interval. rewrite K9. intros; ifs; lia. Qed.

Lemma smin_fix v : 1 <= v <= 86400 -> sanitize_manifest_min v = v.
Proof. destruct consts as (K1 & K2 & K3 & K4 & _). unfold sanitize_manifest_min. rewrite K3, K4. intros; ifs; lia. Qed.
Lemma smax_fix v mn : mn <= v <= 86400 -> 1 <= mn -> sanitize_manifest_max v mn = v.
Proof. destruct consts as (K1 & K2 & K3 & K4 & _). unfold sanitize_manifest_max. rewrite K3, K4. intros; ifs; lia. Qed.
Lemma rot_fix v : 5 <= v <= 3600 -> sanitize_key_rotation_interval v = v.
Proof. destruct consts as (K1 & K2 & _). unfold sanitize_key_rotation_interval. rewrite K1, K2. intros; ifs; lia. Qed.
Lemma ann_fix v : 1 <= v -> sanitize_announce_interval v = v.
Proof. destruct consts as (K1 & K2 & K3 & K4 & K5 & K6 & K7 & K8 & K9 & K10). unfold sanitize_announce_interval. rewrite K9. intros; ifs; lia. Qed.
Lemma win_range v : 1 <= sanitize_announce_window v <= 3600.
Proof. destruct consts as (K1 & K2 & K3 & K4 & K5 & K6 & K7 & K8 & K9 & K10). unfold sanitize_announce_window. rewrite K9, K10. intros; ifs; lia. Qed.
Lemma win_fix v : 1 <= v <= 3600 -> sanitize_announce_window v = v.
Proof. destruct consts as (K1 & K2 & K3 & K4 & K5 & K6 & K7 & K8 & K9 & K10). unfold sanitize_announce_window. rewrite K9, K10. intros; ifs; lia. Qed.

Theorem config_window c :
  let s := sanitize_config c in
  1 <= min_ttl s /\ min_ttl s <= max_ttl s /\ max_ttl s <= 86400 /\
  min_ttl s <= default_ttl s <= max_ttl s /\
  5 <= rotation s <= 3600 /\
  (pow_a s <= 24 /\ pow_h s <= 24 /\ pow_s s <= 24) /\
  1 <= ann_interval s /\ ann_interval s <= burst_window s /\ (0 <= burst_limit c -> 1 <= burst_limit s).
Proof.
  cbn zeta. destruct consts as (K1 & K2 & K3 & K4 & K5 & K6 & K7 & K8 & K9 & K10).
  unfold sanitize_config; cbn [min_ttl max_ttl default_ttl rotation pow_a pow_h pow_s ann_interval burst_window burst_limit].
  rewrite K5, K6, K7.
  pose proof (smin_range (min_ttl c)) as R1.
  pose proof (smax_range (max_ttl c) _ R1) as R2.
  pose proof (rot_range (rotation c)) as R3.
  pose proof (ann_interval_range (ann_interval c)) as R4.
  set (mn := sanitize_manifest_min (min_ttl c)) in *.
  set (mx := sanitize_manifest_max (max_ttl c) mn) in *.
  set (rt := sanitize_key_rotation_interval (rotation c)) in *.
  set (ai := sanitize_announce_interval (ann_interval c)) in *.
  set (bw := sanitize_announce_window (burst_window c)) in *.
  clearbody mn mx rt ai bw. repeat split; ifs; lia.
Qed.

(* sanitising twice changes nothing: a configuration that satisfies the bounds is left alone *)
Theorem sanitize_idempotent c : 0 <= burst_limit c -> sanitize_config (sanitize_config c) = sanitize_config c.
Proof.
  intros Hb. pose proof (config_window c) as W. cbn zeta in W.
  destruct consts as (K1 & K2 & K3 & K4 & K5 & K6 & K7 & K8 & K9 & K10).
  pose proof (win_range (burst_window c)) as R5.
  remember (sanitize_config c) as s eqn:Es.
  assert (Hbw : burst_window s = ann_interval s \/ (ann_interval s <= burst_window s <= 3600)).
  { subst s. unfold sanitize_config; cbn [burst_window ann_interval].
    set (ai := sanitize_announce_interval (ann_interval c)) in *. set (bw := sanitize_announce_window (burst_window c)) in *.
    clearbody bw ai. destruct (bw <? ai) eqn:E; lia. }
  destruct s as [mn mx d rt ai bl bw pa ph ps]. cbn [min_ttl max_ttl default_ttl rotation pow_a pow_h pow_s ann_interval burst_window burst_limit] in *.
  unfold sanitize_config; cbn [min_ttl max_ttl default_ttl rotation pow_a pow_h pow_s ann_interval burst_window burst_limit].
  rewrite K5, K6, K7.
  rewrite (smin_fix mn) by lia. rewrite (smax_fix mx mn) by lia. rewrite (rot_fix rt) by lia. rewrite (ann_fix ai) by lia.
  f_equal; try (ifs; lia).
  unfold sanitize_announce_window. rewrite K9, K10. ifs; lia.
Qed.

Definition window_ok (c : cfg) : Prop := 1 <= min_ttl c /\ min_ttl c <= max_ttl c /\ min_ttl c <= default_ttl c <= max_ttl c.

Lemma sanitized_window_ok c : window_ok (sanitize_config c).
Proof. pose proof (config_window c) as H. cbn zeta in H. unfold window_ok. lia. Qed.

Theorem store_lifetimes_in_window c ttl : window_ok c ->
  let l := store_lifetimes c ttl in
  min_ttl c <= l_chunk l <= max_ttl c /\
  l_manifest l = l_chunk l /\ l_shards l = l_chunk l /\ l_announce l = l_chunk l /\
  (min_ttl c <= ttl <= max_ttl c -> l_chunk l = ttl).
Proof.
  intros (H1 & H2 & H3). cbn zeta. destruct consts as (K1 & K2 & K3 & K4 & K5 & K6 & K7 & K8 & K9 & K10).
  unfold store_lifetimes, clamp_chunk_ttl; cbn [l_chunk l_manifest l_shards l_announce]. rewrite K3, K8. repeat split; intros; ifs; lia.
Qed.

(* for every configuration a caller can write and every requested TTL *)
Theorem node_store_lifetimes c ttl :
  let s := sanitize_config c in let l := store_lifetimes s ttl in
  min_ttl s <= l_chunk l <= max_ttl s /\ min_ttl s <= l_manifest l <= max_ttl s /\
  min_ttl s <= l_shards l <= max_ttl s /\ min_ttl s <= l_announce l <= max_ttl s /\
  1 <= min_ttl s /\ max_ttl s <= 86400.
Proof.
  cbn zeta. pose proof (store_lifetimes_in_window (sanitize_config c) ttl (sanitized_window_ok c)) as H.
  cbn zeta in H. pose proof (config_window c) as W. cbn zeta in W. lia.
Qed.

(* ---- the control plane's TTL gate ---- *)
Lemma digits_value_range l : forall acc v, 0 <= acc -> digits_value acc l = Some v -> 0 <= v < two64 \/ (l = [] /\ v = acc).
Proof.
  induction l as [|c r IH]; intros acc v Ha H; cbn [digits_value] in H.
  - injection H as <-. right. split; reflexivity.
  - destruct (is_digit c) eqn:Ed; [|discriminate]. unfold is_digit in Ed.
    destruct (two64 <=? acc * 10 + (c - 48)) eqn:E; [discriminate|].
    apply IH in H; [|lia]. left. destruct H as [H|[_ ->]]; [exact H | unfold two64 in *; lia].
Qed.

Lemma parse_uint64_range text v : parse_uint64 text = Some v -> 0 <= v < two64.
Proof.
  unfold parse_uint64. destruct text as [|c r]; [discriminate|]. intros H.
  apply digits_value_range in H; [|lia]. destruct H as [H|[H _]]; [exact H | discriminate].
Qed.

Theorem gate_accepts_only_window c hdr t :
  store_ttl_gate c hdr = GateOk t -> min_ttl c <= t <= max_ttl c.
Proof.
  unfold store_ttl_gate. destruct hdr as [text|].
  - destruct (parse_uint64 text) as [v|]; [|discriminate].
    destruct ((to_int64 v <? min_ttl c) || (max_ttl c <? to_int64 v)) eqn:E; [discriminate|].
    intros H. injection H as <-. lia.
  - destruct ((default_ttl c <? min_ttl c) || (max_ttl c <? default_ttl c)) eqn:E; [discriminate|].
    intros H. injection H as <-. lia.
Qed.

(* what the gate lets through is then stored for exactly that long *)
Theorem gate_then_store c hdr t : window_ok c -> store_ttl_gate c hdr = GateOk t ->
  let l := store_lifetimes c t in l_chunk l = t /\ l_manifest l = t /\ l_shards l = t /\ l_announce l = t.
Proof.
  intros W H. apply gate_accepts_only_window in H. pose proof (store_lifetimes_in_window c t W) as L. cbn zeta in *. lia.
Qed.

(* a header that is not a decimal uint64 is refused as invalid; a value of 2^63 or more becomes negative and is refused *)
Theorem gate_huge_refused c text v : window_ok c -> parse_uint64 text = Some v -> two63 <= v ->
  store_ttl_gate c (Some text) = GateOutOfRange.
Proof.
  intros (H1 & _) Hp Hv. unfold store_ttl_gate. rewrite Hp. apply parse_uint64_range in Hp.
  unfold to_int64, two63, two64 in *. destruct (9223372036854775808 <=? v) eqn:E; [|lia].
  destruct ((v - 18446744073709551616 <? min_ttl c) || (max_ttl c <? v - 18446744073709551616)) eqn:E2; [reflexivity|lia].
Qed.
