(* Proofs about model/BucketModel.v (C07). *)
Require Import ZArith List Bool Lia ZifyBool Sorted Permutation.
Import ListNotations.
Local Open Scope Z_scope.
From EphVerif Require Import lib.Bytes lib.Sweep model.PowModel proofs.PowProofs model.BucketModel gen.Constants_bucket.
Ltac Zify.zify_post_hook ::= Z.div_mod_to_equations.

(* ---------------------------------------------------------------- list helpers *)
Lemma remove_first_In p l x : In x (remove_first p l) -> In x l.
Proof.
  induction l as [|e r IH]; cbn [remove_first]; [tauto|].
  destruct (p e); simpl; intuition.
Qed.

Lemma filter_length_le {A} (f : A -> bool) l : (length (filter f l) <= length l)%nat.
Proof. induction l as [|x l IH]; simpl; [lia|]. destruct (f x); simpl; lia. Qed.

Lemma count_app i a b : count_bucket i (a ++ b) = count_bucket i a + count_bucket i b.
Proof. unfold count_bucket. rewrite filter_app, zlen_app. reflexivity. Qed.

Lemma count_single i j c : count_bucket j [(i, c)] = if i =? j then 1 else 0.
Proof. unfold count_bucket, in_bucket. cbn [filter fst]. destruct (i =? j); reflexivity. Qed.

Lemma count_nonneg i l : 0 <= count_bucket i l.
Proof. unfold count_bucket. apply zlen_nonneg. Qed.

Lemma remove_first_count_le p j l : count_bucket j (remove_first p l) <= count_bucket j l.
Proof.
  unfold count_bucket, zlen. induction l as [|e r IH]; cbn [remove_first]; [lia|].
  destruct (p e); cbn [filter]; destruct (in_bucket j e); cbn [length]; lia.
Qed.

Lemma remove_first_count_hit p i l :
  (forall e, p e = true -> in_bucket i e = true) -> (exists e, In e l /\ p e = true) ->
  count_bucket i (remove_first p l) = count_bucket i l - 1.
Proof.
  intros Hp. unfold count_bucket, zlen. induction l as [|e r IH]; intros [x [Hin Hx]]; [destruct Hin|].
  cbn [remove_first]. destruct (p e) eqn:E.
  - cbn [filter]. rewrite (Hp e E). cbn [length]. lia.
  - cbn [filter]. destruct Hin as [->|Hin]; [congruence|].
    specialize (IH (ex_intro _ x (conj Hin Hx))).
    destruct (in_bucket i e); cbn [length]; lia.
Qed.

Lemma remove_first_count_other p i j l :
  (forall e, p e = true -> in_bucket i e = true) -> j <> i ->
  count_bucket j (remove_first p l) = count_bucket j l.
Proof.
  intros Hp Hne. unfold count_bucket. induction l as [|e r IH]; cbn [remove_first]; [reflexivity|].
  destruct (p e) eqn:E.
  - cbn [filter]. specialize (Hp e E). unfold in_bucket in *.
    destruct (fst e =? j) eqn:Ej; [lia | reflexivity].
  - cbn [filter]. destruct (in_bucket j e); [unfold zlen in *; cbn [length]; lia | exact IH].
Qed.

Lemma NoDup_app_intro_single {A} (l : list A) x : NoDup l -> ~ In x l -> NoDup (l ++ [x]).
Proof.
  induction l as [|a l IH]; intros Hd Hn; cbn [app]; [constructor; [tauto | constructor]|].
  inversion Hd as [|? ? Ha Hd']; subst. constructor.
  - intros Hin. apply in_app_or in Hin. simpl in Hin, Hn. intuition congruence.
  - apply IH; [exact Hd' | simpl in Hn; tauto].
Qed.

Definition ids (l : list entry) : list (list Z) := map (fun e => c_id (snd e)) l.

Lemma ids_app a b : ids (a ++ b) = ids a ++ ids b.
Proof. unfold ids. apply map_app. Qed.

Lemma NoDup_ids_filter f l : NoDup (ids l) -> NoDup (ids (filter f l)).
Proof.
  unfold ids. induction l as [|e r IH]; intros H; cbn [filter map]; [constructor|].
  inversion H as [|? ? Hn Hd]; subst. destruct (f e); cbn [map]; [|apply IH; exact Hd].
  constructor; [|apply IH; exact Hd]. intros Hin. apply Hn.
  apply in_map_iff in Hin. destruct Hin as [x [Hx Hin]]. apply filter_In in Hin.
  apply in_map_iff. exists x. tauto.
Qed.

Lemma NoDup_ids_remove_first p l : NoDup (ids l) -> NoDup (ids (remove_first p l)).
Proof.
  unfold ids. induction l as [|e r IH]; intros H; cbn [remove_first map]; [constructor|].
  inversion H as [|? ? Hn Hd]; subst. destruct (p e); [exact Hd|]. cbn [map].
  constructor; [|apply IH; exact Hd]. intros Hin. apply Hn.
  apply in_map_iff in Hin. destruct Hin as [x [Hx Hin]]. apply remove_first_In in Hin.
  apply in_map_iff. exists x. tauto.
Qed.

(* when p characterises "has id cid" on l, and ids are unique, removing the first match removes the id *)
Lemma remove_first_drops_id p cid l :
  NoDup (ids l) -> (forall y, In y l -> (p y = true <-> c_id (snd y) = cid)) ->
  ~ In cid (ids (remove_first p l)).
Proof.
  unfold ids. induction l as [|e r IH]; intros Hnd Hp; cbn [remove_first map]; [tauto|].
  inversion Hnd as [|? ? Hn Hd]; subst.
  destruct (p e) eqn:E.
  - apply (proj1 (Hp e (or_introl eq_refl))) in E. rewrite <- E. exact Hn.
  - cbn [map]. intros [Heq|Hin].
    + apply (proj2 (Hp e (or_introl eq_refl))) in Heq. congruence.
    + revert Hin. apply IH; [exact Hd|]. intros y Hy. apply Hp. right. exact Hy.
Qed.

Lemma find_none_no_id (p : entry -> bool) cid l :
  (forall y, In y l -> (p y = true <-> c_id (snd y) = cid)) -> find p l = None -> ~ In cid (ids l).
Proof.
  intros Hp Hf Hin. unfold ids in Hin. apply in_map_iff in Hin. destruct Hin as [y [Hy Hin]].
  pose proof (find_none p l Hf y Hin) as Hn. apply (proj2 (Hp y Hin)) in Hy. congruence.
Qed.

(* ---------------------------------------------------------------- the invariant *)
Definition Inv (st : state) : Prop :=
  (forall e, In e (ents st) -> bucket_index_for (self st) (c_id (snd e)) = Some (fst e)) /\
  NoDup (ids (ents st)) /\
  (forall i, count_bucket i (ents st) <= bucket_size).

Lemma bucket_size_pos : 0 < bucket_size.
Proof. reflexivity. Qed.

Lemma Inv_init s : Inv (init s).
Proof.
  unfold Inv, init; cbn. split; [tauto|]. split; [constructor|]. intros i. unfold count_bucket, zlen. simpl.
  pose proof bucket_size_pos. lia.
Qed.

Lemma id_eqb_eq a b : id_eqb a b = true <-> a = b.
Proof. unfold id_eqb. apply list_eqb_spec. Qed.

Lemma same_char st i cid l :
  (forall e, In e l -> bucket_index_for (self st) (c_id (snd e)) = Some (fst e)) ->
  bucket_index_for (self st) cid = Some i ->
  forall y, In y l -> ((in_bucket i y && id_eqb (c_id (snd y)) cid) = true <-> c_id (snd y) = cid).
Proof.
  intros H1 Hi y Hy. rewrite andb_true_iff, id_eqb_eq. split; [tauto|]. intros Heq. split; [|exact Heq].
  specialize (H1 y Hy). rewrite Heq, Hi in H1. unfold in_bucket. injection H1 as H1. lia.
Qed.

Theorem upsert_inv st c : Inv st -> Inv (upsert_bucket st c).
Proof.
  intros [I1 [I2 I3]]. unfold upsert_bucket.
  destruct (bucket_index_for (self st) (c_id c)) as [i|] eqn:Hi; [|split; [exact I1 | split; [exact I2 | exact I3]]].
  set (l1 := filter (fun e => negb (in_bucket i e) || live (now st) (snd e)) (ents st)).
  assert (L1 : forall e, In e l1 -> bucket_index_for (self st) (c_id (snd e)) = Some (fst e)).
  { intros e He. apply filter_In in He. apply I1. tauto. }
  assert (L2 : NoDup (ids l1)) by (apply NoDup_ids_filter; exact I2).
  assert (L3 : forall j, count_bucket j l1 <= bucket_size).
  { intros j. specialize (I3 j). unfold count_bucket, l1 in *.
    assert (zlen (filter (in_bucket j) (filter (fun e => negb (in_bucket i e) || live (now st) (snd e)) (ents st)))
            <= zlen (filter (in_bucket j) (ents st))); [|lia].
    clear. unfold zlen. induction (ents st) as [|e r IH]; cbn [filter]; [lia|].
    destruct (negb (in_bucket i e) || live (now st) (snd e)); cbn [filter]; destruct (in_bucket j e); cbn [length]; lia. }
  clearbody l1.
  pose proof (same_char st i (c_id c) l1 L1 Hi) as Hsame.
  set (same := fun e : entry => in_bucket i e && id_eqb (c_id (snd e)) (c_id c)) in *.
  destruct (find same l1) as [[ti old]|] eqn:Hf.
  - (* refresh in place, moved to the back *)
    apply find_some in Hf. destruct Hf as [Hold Hs].
    assert (Hoid : c_id old = c_id c) by (apply (Hsame _ Hold); exact Hs).
    assert (Hsub : forall e, same e = true -> in_bucket i e = true).
    { intros e He. unfold same in He. apply andb_true_iff in He. tauto. }
    unfold Inv; cbn [ents self]. split; [|split].
    + intros e He. apply in_app_or in He. destruct He as [He|[<-|[]]].
      * apply L1. eapply remove_first_In. exact He.
      * cbn [fst snd c_id]. rewrite Hoid. exact Hi.
    + rewrite ids_app. cbn [ids map snd c_id]. rewrite Hoid.
      apply NoDup_app_intro_single; [apply NoDup_ids_remove_first; exact L2 |].
      apply remove_first_drops_id; [exact L2 | exact Hsame].
    + intros j. rewrite count_app, count_single.
      destruct (Z.eq_dec j i) as [->|Hne].
      * rewrite (remove_first_count_hit same i l1 Hsub) by (exists (ti, old); tauto).
        rewrite Z.eqb_refl. specialize (L3 i). lia.
      * rewrite (remove_first_count_other same i j l1 Hsub Hne).
        assert ((i =? j) = false) by lia. rewrite H. specialize (L3 j). lia.
  - (* new contact: evict the oldest of the bucket when it is full *)
    assert (Hnoid : ~ In (c_id c) (ids l1)) by (eapply find_none_no_id; [exact Hsame | exact Hf]).
    assert (Hsub : forall e, in_bucket i e = true -> in_bucket i e = true) by tauto.
    unfold Inv; cbn [ents self]. split; [|split].
    + intros e He. apply in_app_or in He. destruct He as [He|[<-|[]]]; [|exact Hi].
      apply L1. destruct (bucket_size <=? count_bucket i l1); [eapply remove_first_In; exact He | exact He].
    + rewrite ids_app. cbn [ids map snd].
      apply NoDup_app_intro_single.
      * destruct (bucket_size <=? count_bucket i l1); [apply NoDup_ids_remove_first; exact L2 | exact L2].
      * destruct (bucket_size <=? count_bucket i l1); [|exact Hnoid].
        intros Hin. apply Hnoid. unfold ids in *. apply in_map_iff in Hin. destruct Hin as [y [Hy Hin]].
        apply in_map_iff. exists y. split; [exact Hy | eapply remove_first_In; exact Hin].
    + intros j. rewrite count_app, count_single.
      destruct (bucket_size <=? count_bucket i l1) eqn:Efull.
      * destruct (Z.eq_dec j i) as [->|Hne].
        -- assert (Hex : exists e, In e l1 /\ in_bucket i e = true).
           { unfold count_bucket in Efull. pose proof bucket_size_pos.
             destruct (filter (in_bucket i) l1) as [|e r] eqn:Ef; [unfold zlen in Efull; simpl in Efull; lia|].
             exists e. apply filter_In. rewrite Ef. left. reflexivity. }
           rewrite (remove_first_count_hit (in_bucket i) i l1 Hsub Hex).
           rewrite Z.eqb_refl. specialize (L3 i). lia.
        -- rewrite (remove_first_count_other (in_bucket i) i j l1 Hsub Hne).
           assert ((i =? j) = false) by lia. rewrite H. specialize (L3 j). lia.
      * destruct (Z.eq_dec j i) as [->|Hne].
        -- rewrite Z.eqb_refl. lia.
        -- assert ((i =? j) = false) by lia. rewrite H. specialize (L3 j). lia.
Qed.

Lemma sweep_inv st : Inv st -> Inv (sweep_buckets st).
Proof.
  intros [I1 [I2 I3]]. unfold Inv, sweep_buckets; cbn [ents self]. split; [|split].
  - intros e He. apply filter_In in He. apply I1. tauto.
  - apply NoDup_ids_filter. exact I2.
  - intros j. specialize (I3 j). unfold count_bucket in *.
    assert (zlen (filter (in_bucket j) (filter (fun e => live (now st) (snd e)) (ents st)))
            <= zlen (filter (in_bucket j) (ents st))); [|lia].
    clear. unfold zlen. induction (ents st) as [|e r IH]; cbn [filter]; [lia|].
    destruct (live (now st) (snd e)); cbn [filter]; destruct (in_bucket j e); cbn [length]; lia.
Qed.

Lemma step_inv st o : Inv st -> Inv (fst (step st o)).
Proof.
  intros H. destruct o; cbn [step fst]; try exact H.
  - apply upsert_inv. exact H.
  - apply upsert_inv. exact H.
  - apply sweep_inv. exact H.
Qed.

Lemma step_self st o : self (fst (step st o)) = self st.
Proof.
  destruct o; cbn [step fst]; try reflexivity;
    unfold register_peer, add_contact, upsert_bucket;
    repeat match goal with |- context [match ?x with _ => _ end] => destruct x end; reflexivity.
Qed.

Theorem exec_inv ops : forall st, Inv st -> Inv (exec st ops).
Proof.
  unfold exec. induction ops as [|o ops IH]; intros st H; cbn [fold_left]; [exact H|].
  apply IH. apply step_inv. exact H.
Qed.

Theorem reachable_inv s ops : Inv (exec (init s) ops).
Proof. apply exec_inv. apply Inv_init. Qed.

(* ---------------------------------------------------------------- bucket index = position of the highest differing bit *)
Lemma lead_zero_loop_spec diffs : forall acc,
  lead_zero_loop acc diffs = (acc + clz diffs, forallb (fun d => d =? 0) diffs).
Proof.
  induction diffs as [|d r IH]; intros acc; cbn [lead_zero_loop clz forallb]; [f_equal; lia|].
  destruct (d =? 0); [rewrite IH; f_equal; lia | reflexivity].
Qed.

Theorem bucket_index_spec s p :
  bucket_index_for s p =
  let x := xor_bytes s p in
  if forallb (fun d => d =? 0) x || (256 <=? clz x) then None else Some (255 - clz x).
Proof.
  unfold bucket_index_for. rewrite lead_zero_loop_spec. cbn zeta. unfold id_bits.
  replace (0 + clz (xor_bytes s p)) with (clz (xor_bytes s p)) by lia.
  destruct (forallb _ _ || _); [reflexivity | f_equal; lia].
Qed.

Lemma xor_bytes_ok a b : bytes_ok a -> bytes_ok b -> bytes_ok (xor_bytes a b).
Proof.
  revert b. induction a as [|x a IH]; intros [|y b] Ha Hb; cbn [xor_bytes]; try constructor.
  - inversion Ha; inversion Hb; subst. apply lxor_byte; assumption.
  - inversion Ha; inversion Hb; subst. apply IH; assumption.
Qed.

Lemma xor_bytes_length a b : length a = length b -> length (xor_bytes a b) = length a.
Proof.
  revert b. induction a as [|x a IH]; intros [|y b] H; cbn [xor_bytes length] in *; try discriminate; [reflexivity|].
  f_equal. apply IH. lia.
Qed.

Lemma xor_bytes_zero_iff a b : bytes_ok a -> bytes_ok b -> length a = length b ->
  (forallb (fun d => d =? 0) (xor_bytes a b) = true <-> a = b).
Proof.
  revert b. induction a as [|x a IH]; intros [|y b] Ha Hb Hl; cbn [xor_bytes forallb length] in *; try discriminate.
  - split; reflexivity.
  - inversion Ha; inversion Hb; subst. rewrite andb_true_iff, IH by (assumption || lia).
    pose proof (lxor_byte x y H1 H5) as [_ Hz]. split.
    + intros [E1 E2]. f_equal; [apply Hz; lia | exact E2].
    + intros E. injection E as -> ->. split; [|reflexivity]. assert (Z.lxor y y = 0) by (apply Hz; reflexivity). lia.
Qed.

Lemma clz_le_bits dg : bytes_ok dg -> clz dg <= 8 * zlen dg.
Proof.
  induction dg as [|b r IH]; intros H; cbn [clz]; [unfold zlen; simpl; lia|].
  inversion H as [|? ? Hb Hr]; subst. replace (zlen (b :: r)) with (zlen r + 1) by (unfold zlen; simpl length; lia).
  specialize (IH Hr). pose proof (clz8_range b Hb). pose proof (zlen_nonneg r). destruct (b =? 0); lia.
Qed.

Lemma clz_all_zero dg : bytes_ok dg -> (forallb (fun d => d =? 0) dg = true <-> clz dg = 8 * zlen dg).
Proof.
  induction dg as [|b r IH]; intros H; cbn [clz forallb]; [unfold zlen; simpl; split; reflexivity|].
  inversion H as [|? ? Hb Hr]; subst. replace (zlen (b :: r)) with (zlen r + 1) by (unfold zlen; simpl length; lia).
  specialize (IH Hr). pose proof (clz_le_bits r Hr). rewrite andb_true_iff.
  destruct (b =? 0) eqn:E.
  - rewrite IH. split; [intros [_ ?]; lia | intros ?; split; [reflexivity | lia]].
  - assert (b <> 0) by lia. pose proof (clz8_nonzero b Hb H1). pose proof (zlen_nonneg r). split; [intros [? _]; discriminate | lia].
Qed.

(* for 32-byte ids: no bucket exactly for the own id; otherwise bucket i with 2^i <= (self xor id) < 2^(i+1) *)
Theorem bucket_index_value s p : bytes_ok s -> bytes_ok p -> length s = 32%nat -> length p = 32%nat ->
  (bucket_index_for s p = None <-> s = p) /\
  (forall i, bucket_index_for s p = Some i ->
     0 <= i < 256 /\ 2 ^ i <= be_val (xor_bytes s p) < 2 ^ (i + 1)).
Proof.
  intros Hs Hp Ls Lp. rewrite bucket_index_spec. cbn zeta.
  pose proof (xor_bytes_ok s p Hs Hp) as Hx.
  assert (Lx : zlen (xor_bytes s p) = 32) by (unfold zlen; rewrite xor_bytes_length by lia; lia).
  pose proof (clz_le_bits _ Hx) as Hle. pose proof (clz_nonneg (xor_bytes s p)) as Hnn.
  pose proof (clz_all_zero _ Hx) as Hz. pose proof (xor_bytes_zero_iff s p Hs Hp ltac:(lia)) as Hzi.
  rewrite Lx in *. set (x := xor_bytes s p) in *. clearbody x.
  destruct (forallb (fun d => d =? 0) x) eqn:Ez; cbn [orb].
  - split; [split; [intros _; apply Hzi; reflexivity | reflexivity] | intros i Hi; discriminate].
  - assert (clz x <> 256) by (intros Hc; assert (false = true) by (apply Hz; lia); discriminate).
    destruct (256 <=? clz x) eqn:E2; [lia|]. split.
    + split; [discriminate | intros Heq; apply Hzi in Heq; discriminate].
    + intros i Hi. assert (Ei : i = 255 - clz x) by congruence. clear Hi. subst i. split; [lia|].
      pose proof (clz_value x Hx (clz x) ltac:(lia)) as V1.
      pose proof (clz_value x Hx (clz x + 1) ltac:(lia)) as V2. rewrite Lx in V1, V2.
      replace (8 * 32 - clz x) with (255 - clz x + 1) in V1 by lia.
      replace (8 * 32 - (clz x + 1)) with (255 - clz x) in V2 by lia.
      split; [|apply V1; lia].
      destruct (Z.lt_ge_cases (be_val x) (2 ^ (255 - clz x))) as [Hlt|Hge]; [apply V2 in Hlt; lia | lia].
Qed.

Lemma exec_self ops : forall st, self (exec st ops) = self st.
Proof.
  unfold exec. induction ops as [|o ops IH]; intros st; cbn [fold_left]; [reflexivity|].
  rewrite IH. apply step_self.
Qed.

(* the own id is never held, in any reachable state *)
Theorem self_never_held s ops : bytes_ok s -> length s = 32%nat ->
  ~ In s (ids (ents (exec (init s) ops))).
Proof.
  intros Hs Ls Hin. pose proof (reachable_inv s ops) as [I1 _].
  assert (Hself : self (exec (init s) ops) = s) by (rewrite exec_self; reflexivity).
  unfold ids in Hin. apply in_map_iff in Hin. destruct Hin as [e [He Hin]].
  specialize (I1 e Hin). rewrite Hself, He in I1.
  destruct (bucket_index_value s s Hs Hs Ls Ls) as [[_ Hn] _]. rewrite (Hn eq_refl) in I1. discriminate.
Qed.

(* ---------------------------------------------------------------- refresh keeps one entry with the newest address and expiry *)
Theorem upsert_newest st c i : Inv st -> bucket_index_for (self st) (c_id c) = Some i ->
  exists pre, ents (upsert_bucket st c) = pre ++ [(i, {| c_id := c_id c; c_addr := c_addr c; c_exp := c_exp c |})] /\
              ~ In (c_id c) (ids pre).
Proof.
  intros HI Hi. pose proof (upsert_inv st c HI) as [_ [N2 _]].
  destruct HI as [I1 _]. unfold upsert_bucket in *. rewrite Hi in *.
  set (l1 := filter (fun e => negb (in_bucket i e) || live (now st) (snd e)) (ents st)) in *.
  assert (L1 : forall e, In e l1 -> bucket_index_for (self st) (c_id (snd e)) = Some (fst e)).
  { intros e He. apply filter_In in He. apply I1. tauto. }
  pose proof (same_char st i (c_id c) l1 L1 Hi) as Hsame.
  destruct (find (fun e : entry => in_bucket i e && id_eqb (c_id (snd e)) (c_id c)) l1) as [[ti old]|] eqn:Hf.
  - apply find_some in Hf. destruct Hf as [Hold Hs]. apply (Hsame _ Hold) in Hs. cbn [snd] in Hs.
    cbn [ents] in *. rewrite Hs in *. eexists. split; [reflexivity|].
    rewrite ids_app in N2. cbn [ids map snd c_id] in N2.
    intros Hin. apply NoDup_remove_2 in N2. apply N2. rewrite app_nil_r. exact Hin.
  - cbn [ents] in *. destruct c as [cid ca ce]. cbn [c_id c_addr c_exp] in *. eexists. split; [reflexivity|].
    rewrite ids_app in N2. cbn [ids map snd c_id] in N2.
    intros Hin. apply NoDup_remove_2 in N2. apply N2. rewrite app_nil_r. exact Hin.
Qed.

(* ---------------------------------------------------------------- closest_peers *)
Section Sorting.
Variable key : contact -> Z.

Lemma insert_by_In c l x : In x (insert_by key c l) <-> x = c \/ In x l.
Proof.
  induction l as [|y l IH]; cbn [insert_by]; [simpl; intuition|].
  destruct (key c <? key y); simpl; rewrite ?IH; intuition.
Qed.

Lemma insert_by_perm c l : Permutation (c :: l) (insert_by key c l).
Proof.
  induction l as [|y l IH]; cbn [insert_by]; [apply Permutation_refl|].
  destruct (key c <? key y); [apply Permutation_refl|].
  eapply Permutation_trans; [apply perm_swap|]. apply perm_skip. exact IH.
Qed.

Lemma sort_by_perm l : Permutation l (sort_by key l).
Proof.
  induction l as [|c l IH]; [constructor|]. unfold sort_by in *. cbn [fold_right].
  eapply Permutation_trans; [|apply insert_by_perm]. apply perm_skip. exact IH.
Qed.

Fixpoint ascending (l : list contact) : Prop :=
  match l with [] => True | x :: r => Forall (fun y => key x <= key y) r /\ ascending r end.

Lemma insert_by_ascending c l : ascending l -> ascending (insert_by key c l).
Proof.
  induction l as [|y l IH]; intros H; cbn [insert_by]; [simpl; auto|].
  destruct H as [Hy Hl]. destruct (key c <? key y) eqn:E.
  - cbn [ascending]. split; [|split; assumption]. constructor; [lia|].
    rewrite Forall_forall in *. intros z Hz. specialize (Hy z Hz). lia.
  - cbn [ascending]. split; [|apply IH; exact Hl]. rewrite Forall_forall in *. intros z Hz.
    apply insert_by_In in Hz. destruct Hz as [->|Hz]; [lia | apply Hy; exact Hz].
Qed.

Lemma sort_by_ascending l : ascending (sort_by key l).
Proof. induction l as [|c l IH]; [exact I|]. unfold sort_by in *. cbn [fold_right]. apply insert_by_ascending. exact IH. Qed.

Lemma ascending_app a b : ascending (a ++ b) -> forall x y, In x a -> In y b -> key x <= key y.
Proof.
  induction a as [|h a IH]; intros H x y Hx Hy; [destruct Hx|]. cbn [app ascending] in H. destruct H as [Hh Ha].
  destruct Hx as [<-|Hx]; [|apply (IH Ha x y Hx Hy)].
  rewrite Forall_forall in Hh. apply Hh. apply in_or_app. right. exact Hy.
Qed.

Lemma ascending_firstn n l : ascending l -> ascending (firstn n l).
Proof.
  revert l. induction n as [|n IH]; intros [|x l] H; cbn [firstn ascending]; auto.
  destruct H as [Hx Hl]. split; [|apply IH; exact Hl].
  rewrite Forall_forall in *. intros y Hy. apply Hx. rewrite <- (firstn_skipn n l). apply in_or_app. left. exact Hy.
Qed.
End Sorting.

Definition live_contacts (st : state) : list contact := filter (live (now st)) (map snd (ents st)).

Theorem closest_spec st t k :
  let r := closest_peers st t k in
  (* every answer is an unexpired contact the table holds *)
  (forall c, In c r -> In c (map snd (ents st)) /\ now st < c_exp c) /\
  (* in non-decreasing XOR distance to the target *)
  ascending (distance t) r /\
  (* min(k, n) of them *)
  zlen r = Z.min (Z.max 0 k) (zlen (live_contacts st)) /\
  (* and nothing closer was left out *)
  (forall c d, In c r -> In d (live_contacts st) -> ~ In d r -> distance t c <= distance t d).
Proof.
  cbn zeta. unfold closest_peers. fold (live_contacts st).
  set (srt := sort_by (distance t) (live_contacts st)).
  assert (Hperm : Permutation (live_contacts st) srt) by apply sort_by_perm.
  assert (Hasc : ascending (distance t) srt) by apply sort_by_ascending.
  split; [|split; [|split]].
  - intros c Hc. assert (In c srt) by (rewrite <- (firstn_skipn (Z.to_nat k) srt); apply in_or_app; left; exact Hc).
    apply (Permutation_in _ (Permutation_sym Hperm)) in H. unfold live_contacts in H. apply filter_In in H.
    unfold live in H. split; [tauto | lia].
  - apply ascending_firstn. exact Hasc.
  - unfold zlen. rewrite firstn_length. rewrite <- (Permutation_length Hperm). lia.
  - intros c d Hc Hd Hnd. apply (Permutation_in _ Hperm) in Hd.
    rewrite <- (firstn_skipn (Z.to_nat k) srt) in Hd, Hasc. apply in_app_or in Hd. destruct Hd as [Hd|Hd]; [contradiction|].
    eapply ascending_app; eassumption.
Qed.

(* strictness: distinct ids of the same length are at distinct distances *)
Lemma be_val_inj a : forall b, bytes_ok a -> bytes_ok b -> length a = length b -> be_val a = be_val b -> a = b.
Proof.
  induction a as [|x a IH]; intros [|y b] Ha Hb Hl H; cbn [length] in *; try discriminate; [reflexivity|].
  inversion Ha as [|? ? Hx Ha']; inversion Hb as [|? ? Hy Hb']; subst. cbn [be_val] in H.
  assert (Hz : zlen a = zlen b) by (unfold zlen; lia). rewrite Hz in H.
  pose proof (be_val_range a Ha'). pose proof (be_val_range b Hb'). rewrite Hz in H0.
  assert (0 < 256 ^ zlen b) by (apply Z.pow_pos_nonneg; [lia | apply zlen_nonneg]).
  unfold byte_ok in *. assert (x = y) by nia. subst. f_equal. apply IH; [assumption|assumption|lia|nia].
Qed.

Lemma xor_bytes_cancel a : forall b t, bytes_ok a -> bytes_ok b -> bytes_ok t ->
  length a = length t -> length b = length t -> xor_bytes a t = xor_bytes b t -> a = b.
Proof.
  induction a as [|x a IH]; intros [|y b] [|z t] Ha Hb Ht La Lb H; cbn [length xor_bytes] in *; try discriminate; [reflexivity|].
  inversion Ha; inversion Hb; inversion Ht; subst. injection H as Ehd Etl.
  f_equal; [|eapply IH; eauto].
  assert (E : Z.lxor (Z.lxor x z) z = Z.lxor (Z.lxor y z) z) by (rewrite Ehd; reflexivity).
  rewrite !Z.lxor_assoc, Z.lxor_nilpotent, !Z.lxor_0_r in E. exact E.
Qed.

Definition id_wf (id : list Z) : Prop := bytes_ok id /\ length id = 32%nat.

Theorem distance_injective t c d : id_wf t -> id_wf (c_id c) -> id_wf (c_id d) ->
  distance t c = distance t d -> c_id c = c_id d.
Proof.
  intros [Ht Lt] [Hc Lc] [Hd Ld] H. unfold distance in H.
  apply be_val_inj in H; [|apply xor_bytes_ok; assumption|apply xor_bytes_ok; assumption|rewrite !xor_bytes_length by lia; lia].
  eapply xor_bytes_cancel; [..|exact H]; try assumption; lia.
Qed.

(* std::array<uint8_t,N>::operator< is lexicographic; on byte strings of equal length that is the order of be_val *)
Fixpoint lex_ltb (a b : list Z) : bool :=
  match a, b with
  | x :: a', y :: b' => if x <? y then true else if y <? x then false else lex_ltb a' b'
  | _, _ => false
  end.

Theorem lex_ltb_be_val a : forall b, bytes_ok a -> bytes_ok b -> length a = length b ->
  lex_ltb a b = (be_val a <? be_val b).
Proof.
  induction a as [|x a IH]; intros [|y b] Ha Hb Hl; cbn [length lex_ltb be_val] in *; try discriminate; [reflexivity|].
  inversion Ha as [|? ? Hx Ha']; inversion Hb as [|? ? Hy Hb']; subst.
  assert (Hz : zlen a = zlen b) by (unfold zlen; lia). rewrite Hz.
  pose proof (be_val_range a Ha'). pose proof (be_val_range b Hb'). rewrite Hz in H.
  assert (0 < 256 ^ zlen b) by (apply Z.pow_pos_nonneg; [lia | apply zlen_nonneg]).
  unfold byte_ok in *.
  destruct (x <? y) eqn:E1; [symmetry; apply Z.ltb_lt; nia|].
  destruct (y <? x) eqn:E2; [symmetry; apply Z.ltb_ge; nia|].
  assert (x = y) by lia. subst. rewrite IH by (assumption || lia).
  destruct (be_val a <? be_val b) eqn:E3; symmetry; [apply Z.ltb_lt | apply Z.ltb_ge]; nia.
Qed.

(* ---------------------------------------------------------------- strictly increasing distances in reachable states *)
Fixpoint sascending (key : contact -> Z) (l : list contact) : Prop :=
  match l with [] => True | x :: r => Forall (fun y => key x < key y) r /\ sascending key r end.

Lemma ascending_strict key l :
  ascending key l -> NoDup (map c_id l) ->
  (forall x y, In x l -> In y l -> key x = key y -> c_id x = c_id y) -> sascending key l.
Proof.
  induction l as [|x r IH]; intros Ha Hn Hinj; cbn [sascending]; [exact I|].
  destruct Ha as [Hx Hr]. cbn [map] in Hn. inversion Hn as [|? ? Hnx Hnr]; subst. split.
  - rewrite Forall_forall in *. intros y Hy. specialize (Hx y Hy).
    destruct (Z.eq_dec (key x) (key y)) as [E|E]; [|lia].
    exfalso. apply Hnx. rewrite (Hinj x y (or_introl eq_refl) (or_intror Hy) E). apply in_map. exact Hy.
  - apply IH; [exact Hr | exact Hnr |]. intros a b Ha Hb. apply Hinj; right; assumption.
Qed.

Lemma NoDup_map_filter {A B} (f : A -> B) p l : NoDup (map f l) -> NoDup (map f (filter p l)).
Proof.
  induction l as [|x l IH]; intros H; cbn [filter map]; [constructor|].
  cbn [map] in H. inversion H as [|? ? Hn Hd]; subst. destruct (p x); cbn [map]; [|apply IH; exact Hd].
  constructor; [|apply IH; exact Hd]. intros Hin. apply Hn. apply in_map_iff in Hin. destruct Hin as [y [Hy Hin]].
  apply filter_In in Hin. apply in_map_iff. exists y. tauto.
Qed.

Lemma NoDup_map_firstn {A B} (f : A -> B) n l : NoDup (map f l) -> NoDup (map f (firstn n l)).
Proof.
  revert l. induction n as [|n IH]; intros [|x l] H; cbn [firstn map]; try constructor.
  - cbn [map] in H. inversion H as [|? ? Hn Hd]; subst. intros Hin. apply Hn.
    apply in_map_iff in Hin. destruct Hin as [y [Hy Hin]]. apply in_map_iff. exists y. split; [exact Hy|].
    rewrite <- (firstn_skipn n l). apply in_or_app. left. exact Hin.
  - cbn [map] in H. inversion H; subst. apply IH. assumption.
Qed.

Definition wf_op (o : op) : Prop :=
  match o with Register id _ _ | AddContact id _ _ => id_wf id | _ => True end.

Definition ids_wf (st : state) : Prop := forall e, In e (ents st) -> id_wf (c_id (snd e)).

Lemma upsert_ids_wf st c : ids_wf st -> id_wf (c_id c) -> ids_wf (upsert_bucket st c).
Proof.
  intros H Hc. unfold ids_wf, upsert_bucket in *.
  destruct (bucket_index_for (self st) (c_id c)) as [i|]; [|exact H].
  set (l1 := filter (fun e => negb (in_bucket i e) || live (now st) (snd e)) (ents st)).
  assert (L1 : forall e, In e l1 -> id_wf (c_id (snd e))) by (intros e He; apply filter_In in He; apply H; tauto).
  clearbody l1.
  destruct (find (fun e : entry => in_bucket i e && id_eqb (c_id (snd e)) (c_id c)) l1) as [[ti old]|] eqn:Hf; cbn [ents].
  - apply find_some in Hf. destruct Hf as [Hold _]. intros e He. apply in_app_or in He. destruct He as [He|[<-|[]]].
    + apply L1. eapply remove_first_In. exact He.
    + cbn [snd c_id]. apply (L1 _ Hold).
  - intros e He. apply in_app_or in He. destruct He as [He|[<-|[]]]; [|exact Hc].
    apply L1. destruct (bucket_size <=? count_bucket i l1); [eapply remove_first_In; exact He | exact He].
Qed.

Lemma step_ids_wf st o : ids_wf st -> wf_op o -> ids_wf (fst (step st o)).
Proof.
  intros H Ho. destruct o; cbn [step fst wf_op] in *; try exact H.
  - apply upsert_ids_wf; assumption.
  - apply upsert_ids_wf; assumption.
  - unfold ids_wf, sweep_buckets in *. cbn [ents]. intros e He. apply filter_In in He. apply H. tauto.
Qed.

Lemma exec_ids_wf ops : forall st, ids_wf st -> Forall wf_op ops -> ids_wf (exec st ops).
Proof.
  unfold exec. induction ops as [|o ops IH]; intros st H Hw; cbn [fold_left]; [exact H|].
  inversion Hw; subst. apply IH; [apply step_ids_wf; assumption | assumption].
Qed.

Theorem closest_strict s ops t k : Forall wf_op ops -> id_wf t ->
  sascending (distance t) (closest_peers (exec (init s) ops) t k).
Proof.
  intros Hw Ht. set (st := exec (init s) ops).
  pose proof (reachable_inv s ops) as [_ [I2 _]]. fold st in I2.
  assert (Hwf : ids_wf st) by (apply exec_ids_wf; [intros e [] | exact Hw]).
  destruct (closest_spec st t k) as [Hin [Hasc _]].
  apply ascending_strict; [exact Hasc | |].
  - unfold closest_peers. apply NoDup_map_firstn.
    assert (Hp : Permutation (live_contacts st) (sort_by (distance t) (live_contacts st))) by apply sort_by_perm.
    eapply Permutation_NoDup; [apply Permutation_map; exact Hp|].
    unfold live_contacts. apply NoDup_map_filter. unfold ids in I2. rewrite map_map. exact I2.
  - intros x y Hx Hy E. apply (distance_injective t x y Ht); [| |exact E].
    + destruct (Hin x Hx) as [Hx' _]. apply in_map_iff in Hx'. destruct Hx' as [e [<- He]]. apply Hwf. exact He.
    + destruct (Hin y Hy) as [Hy' _]. apply in_map_iff in Hy'. destruct Hy' as [e [<- He]]. apply Hwf. exact He.
Qed.
