(* C36 -- daemon threads never race on shared node state.
   Only statements here; proofs are in proofs/LocksetProofs.v.  `lock_table` is regenerated on every run from the clang AST of
   the current src/core/Node.cpp (tools/lockset): every access to a field of Node that a session thread (role 0: the callbacks
   the node registers with its session manager; it enters the node holding no lock) or the control / tick thread (role 1: every
   Node method that ControlServer.cpp / main.cpp call, entered under node_mutex) can make, reading or writing, with
   scheduler_mutex_ held there or not.  A field is racy when a session-thread access and any other access conflict without
   both holding scheduler_mutex_ (fields whose own type synchronises -- atomics, classes with their own mutex -- are left out).
   The property as stated is FALSE of the unchanged code (c36_refuted): five fields are racy; they are recorded as open
   findings.  What is proved: those are ALL the racy fields, and for every other field no schedule of any number of threads
   ever has two of them about to make conflicting accesses. *)
Require Import ZArith List Lia Bool.
Import ListNotations.
Local Open Scope Z_scope.
From EphVerif Require Import lib.Bytes gen.Constants_locktable model.LocksetModel proofs.LocksetProofs.

Definition c36_statement : Prop := racy_fields lock_table lock_self_synchronised lock_field_count = [].
Theorem c36_refuted : ~ c36_statement.
Proof. unfold c36_statement. vm_compute. discriminate. Qed.
Print Assumptions c36_refuted.

(* the racy fields of the current source are exactly these *)
Definition c36_known : list Z := [fld_bootstrap_nodes; fld_config; fld_handshake_state; fld_key_manager; fld_nat_status].
Theorem c36_racy_fields_are_exactly : racy_fields lock_table lock_self_synchronised lock_field_count = c36_known.
Proof. vm_compute. reflexivity. Qed.
Print Assumptions c36_racy_fields_are_exactly.

Lemma c36_roles : forall r, In r lock_table -> r_role r = 0 \/ r_role r = 1.
Proof.
  assert (H : forallb (fun r => (r_role r =? 0) || (r_role r =? 1)) lock_table = true) by (vm_compute; reflexivity).
  intros r Hin. rewrite forallb_forall in H. specialize (H r Hin). lia.
Qed.

(* every other field: in every schedule of any number of threads, each running any sequence of the table's accesses, no two
   threads are ever both about to make conflicting accesses to it *)
Theorem c36_other_fields_never_race : forall x programs schedule,
  0 <= x < lock_field_count -> ~ In x c36_known -> memz x lock_self_synchronised = false ->
  (forall i r, In r (programs i) -> In r lock_table) ->
  let c := exec (start programs) schedule in
  forall i j a b, i <> j -> at_access c i a -> at_access c j b -> r_field a = x -> conflict a b = true -> False.
Proof.
  intros x programs schedule Hx Hk Hs Hp.
  apply (protected_field_never_races lock_table lock_self_synchronised x programs schedule); try assumption; [|exact c36_roles].
  destruct (racy_field lock_table lock_self_synchronised x) eqn:R; [|reflexivity]. exfalso. apply Hk.
  rewrite <- c36_racy_fields_are_exactly. unfold racy_fields. apply filter_In. split; [|exact R].
  apply in_map_iff. exists (Z.to_nat x). split; [lia|]. apply in_seq. lia.
Qed.
Print Assumptions c36_other_fields_never_race.

(* the general theorem behind it, for any table *)
Theorem c36_lock_discipline_excludes_races : forall t sync x programs schedule,
  racy_field t sync x = false -> memz x sync = false ->
  (forall r, In r t -> r_role r = 0 \/ r_role r = 1) ->
  (forall i r, In r (programs i) -> In r t) ->
  let c := exec (start programs) schedule in
  forall i j a b, i <> j -> at_access c i a -> at_access c j b -> r_field a = x -> conflict a b = true -> False.
Proof. exact protected_field_never_races. Qed.

(* non-vacuity: two session threads writing a field without the lock can both be at their access; under the lock the second
   waits *)
Example c36_examples :
  let bad := (7, 1, 0, 10, 0) in let good := (7, 1, 0, 10, 1) in
  let c1 := exec (start (fun _ => [bad])) [0; 0; 1; 1]%nat in
  let c2 := exec (start (fun _ => [good])) [0; 0; 1; 1; 1]%nat in
  (pc (thr c1 0%nat), pc (thr c1 1%nat), pc (thr c2 0%nat), pc (thr c2 1%nat), racy_field [bad] [] 7, racy_field [good] [] 7)
  = (2, 2, 2, 1, true, false).
Proof. vm_compute. reflexivity. Qed.
