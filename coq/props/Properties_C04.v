(* C04 -- persisted chunk files do not outlive the chunk.
   Only statements here; proofs are in proofs/PersistProofs.v.  `run_ops st0 ops` is the store after ANY sequence of puts,
   overwrites, lookups, sweeps, clock advances and restarts on the same directory; a restart takes an arbitrary set of chunk
   files with arbitrary content as what a crash (in the middle of a store or of a wipe, at any file-system operation) left
   behind.  files = the <key>.chunk files of the storage directory.  The model follows the code after the two fix: commits. *)
Require Import ZArith List Lia Bool.
Import ListNotations.
Local Open Scope Z_scope.
From EphVerif Require Import lib.Bytes model.PersistModel proofs.PersistProofs.

(* with wipe-on-expiry: in every reachable state a chunk file exists exactly for the chunks the store holds, and holds exactly
   the stored bytes *)
Theorem c04_files_mirror_held_chunks : forall t0 d ops,
  let st := run_ops (mkState t0 [] [] d true) ops in
  (forall k b, get k (files st) = Some b -> exists r, get k (recs st) = Some r /\ r_data r = b /\ r_persisted r = true) /\
  (forall k r, get k (recs st) = Some r -> get k (files st) = Some (r_data r)).
Proof.
  intros t0 d ops. cbv zeta. destruct (reachable_inv ops (mkState t0 [] [] d true) eq_refl (FInv_empty t0 d true)) as [[_ [Hf Hr]] _].
  split; [exact Hf | intros k r H; apply Hr; exact H].
Qed.
Print Assumptions c04_files_mirror_held_chunks.

(* after a sweep every file that is left belongs to a chunk whose deadline has not passed -- also when a lookup had noticed
   the expiry first (a lookup changes nothing) *)
Theorem c04_sweep_removes_expired_files : forall t0 d ops,
  let st := run_ops (mkState t0 [] [] d true) ops in
  forall k b, get k (files (sweep st)) = Some b ->
  exists r, get k (recs st) = Some r /\ r_data r = b /\ now st < r_exp r.
Proof.
  intros t0 d ops. cbv zeta. intros k b H.
  destruct (reachable_inv ops (mkState t0 [] [] d true) eq_refl (FInv_empty t0 d true)) as [Hi Hw].
  destruct (sweep_leaves_only_live _ Hw Hi k b H) as [r [G [D L]]]. exists r. unfold live in L. repeat split; try assumption. lia.
Qed.
Print Assumptions c04_sweep_removes_expired_files.
Theorem c04_lookup_changes_nothing : forall st k, step st (Get k) = st.
Proof. exact lookup_changes_nothing. Qed.

(* a new instance on the same directory leaves no chunk file behind, whatever a crash had left there *)
Theorem c04_restart_leaves_nothing : forall st leftover, wipe_on_expiry st = true ->
  files (restart st leftover) = [] /\ recs (restart st leftover) = [].
Proof. exact restart_leaves_nothing. Qed.

(* non-vacuity, and the two historical failures: expiry first noticed by a lookup; a stale file from an earlier instance *)
Example c04_examples :
  let st0 := mkState 0 [] [] 60 true in
  (files (run_ops st0 [Put 3 [97; 98] 2; Advance 2000; Get 3; Sweep]),
   files (run_ops st0 [Put 3 [97] 5; Restart [(9, [115])]]),
   files (run_ops st0 [Put 3 [97] 5; Put 3 [98; 99] 5; Put 4 [] 1])) = ([], [], [(4, []); (3, [98; 99])]).
Proof. vm_compute. reflexivity. Qed.
