(* C38 -- update metadata parsing is total and decodes JSON strings correctly.
   Only statements here; proofs are in proofs/JsonProofs.v.  The model follows the C++ reader after the three fix:
   commits (NUL at end of input from peek(), nesting limit kMaxNestingDepth -- regenerated from the source --, surrogate
   pairs).  Memory safety of the compiled code (the string_view is indexed only below its size) is tied by running the
   real parser on exact-size non-NUL-terminated buffers under ASan. *)
Require Import ZArith List.
Import ListNotations.
Local Open Scope Z_scope.
From EphVerif Require Import lib.Bytes model.JsonModel proofs.JsonProofs gen.Constants_json.

(* totality: for EVERY byte string the reader ends with a value or an error message.  In the model the recursion is on
   fuel (nesting fuel kMaxNestingDepth+1, member loops: remaining length + 1); neither ever runs out, because every
   loop iteration and every recursive descent consumes input (parse_value_facts) and the depth test precedes the
   descent.  No hang, no unbounded recursion. *)
Theorem c38_total : forall l, parse_document l <> Fuel.
Proof. exact parse_document_total. Qed.
Print Assumptions c38_total.

Theorem c38_metadata_total : forall l, parse_update_metadata l = None \/ exists m, parse_update_metadata l = Some m.
Proof. exact parse_update_metadata_total. Qed.

(* whatever is accepted is nested at most kMaxNestingDepth deep, so the recursion depth (one C++ frame triple per level)
   is bounded by a constant *)
Theorem c38_depth_bounded : forall l v r, parse_document l = Ok v r -> (depth_of v <= max_depth)%nat.
Proof. exact parse_document_depth. Qed.
Theorem c38_depth_limit_is_64 : max_depth = 64%nat.
Proof. reflexivity. Qed.
Print Assumptions c38_depth_bounded.

(* strings: a literal made of raw bytes, simple escapes, \uXXXX escapes (either case) of BMP scalar values and surrogate
   pairs decodes to the concatenation of their values, where \u escapes stand for the RFC 3629 UTF-8 encoding of the
   scalar value -- a pair gives ONE four-byte sequence *)
Theorem c38_strings_decode : forall items rest, Forall item_ok items ->
  parse_string (34 :: flat_map render items ++ 34 :: rest) = Ok (flat_map value_of items) rest.
Proof. exact parse_string_decodes. Qed.
Print Assumptions c38_strings_decode.

Theorem c38_append_utf8_is_rfc3629 : forall cp, 0 <= cp < 1114112 -> append_utf8 cp = utf8_spec cp.
Proof. exact append_utf8_correct. Qed.

(* an unpaired surrogate (no UTF-8 value exists) makes the string, hence the document, an error *)
Theorem c38_lone_surrogate_refused : forall up cp tail acc, 55296 <= cp <= 57343 ->
  (forall a b c d r, tail = 92 :: 117 :: a :: b :: c :: d :: r ->
                     match hex4 a b c d with Some low => is_low_surrogate low = false | None => True end) ->
  exists e, string_body (92 :: 117 :: hex4_text up cp ++ tail) acc = Err e.
Proof. exact lone_surrogate_refused. Qed.

(* non-vacuity: U+1F600 as a surrogate pair, e-acute as an escape, a tab, raw bytes *)
Example c38_example :
  parse_string (34 :: flat_map render [Raw 97; Pair true false 128512; U false 233; Esc 116; Raw 122] ++ [34; 125])
  = Ok [97; 240; 159; 152; 128; 195; 169; 9; 122] [125].
Proof. vm_compute. reflexivity. Qed.
Example c38_deep_refused : exists e, parse_document (repeat 91 65 ++ repeat 93 65) = Err e.
Proof. vm_compute. eexists. reflexivity. Qed.
