(* C21 -- announces change state only when admissible and within the throttle.
   Only statements here; proofs are in proofs/AnnounceProofs.v.  `handle c ps now a` is Node::handle_announce for one
   sender with per-peer state ps (throttle history, failure history, lock-out deadline); an announce is represented by the
   verdicts of the content checks in the order the code evaluates them.  120 s / 180 s / 3 are regenerated from the source. *)
Require Import ZArith List.
Import ListNotations.
Local Open Scope Z_scope.
From EphVerif Require Import lib.Bytes model.AnnounceModel proofs.AnnounceProofs gen.Constants_announce.

(* state changes only for an announce that is not locked out, names its sender, carries a URI, has valid PoW (version >= 3
   when PoW is required), passed the per-peer throttle, decodes, is for the announced chunk, meets its threshold, is not
   expired and only assigns shards the manifest has *)
Theorem c21_admissible : forall c ps now a ps',
  handle c ps now a = (Accepted, ps') ->
  fst (sender_locked ps now) = false /\
  names_sender a = true /\ has_uri a = true /\ verify_pow c a = true /\
  fst (register c (snd (sender_locked ps now)) now) = true /\
  decodes a = true /\ chunk_matches a = true /\ shards_ok a = true /\ ttl_ok a = true /\ assigned_ok a = true.
Proof. exact accepted_only_if_admissible. Qed.
Print Assumptions c21_admissible.
Theorem c21_pow_needs_version_3 : forall c a, pow_difficulty c <> 0 -> verify_pow c a = true -> 3 <= version a /\ pow_ok a = true.
Proof. exact pow_requires_version_3. Qed.

(* throttle: one decision at time t' (after any earlier history P of passes, with window > 0 and interval <= window as
   the sanitised configuration guarantees): a pass is at least min_interval after the previous pass, and with it at most
   burst_limit passes lie in [t' - window, t']; the invariant carries over to the next decision *)
Theorem c21_throttle_step : forall c P h t t', cfg_ok c -> t <= t' -> TInv c P h t ->
  let '(passed, ps') := register c {| hist := h; fails := []; lock := None |} t' in
  let P' := if passed then P ++ [t'] else P in
  TInv c P' (hist ps') t' /\
  (passed = true ->
     (P = [] \/ t' - last P 0 >= min_interval c) /\
     zlen (filter (fun x => t' - burst_window c <=? x) P') <= burst_limit c).
Proof. exact register_step. Qed.
Print Assumptions c21_throttle_step.

(* over ANY timed sequence of decisions, all passes of a peer are pairwise at least min_interval apart *)
Theorem c21_throttle_history : forall c ts, cfg_ok c -> forall h P t, nondecreasing_from t ts -> TInv c P h t ->
  let '(h', P') := reg_run c h P ts in gaps_ok (min_interval c) P' /\ exists t', TInv c P' h' t'.
Proof. exact throttle_history. Qed.
Theorem c21_only_the_throttle_touches_its_history : forall c ps now a,
  hist (snd (handle c ps now a)) = hist ps \/
  hist (snd (handle c ps now a)) = hist (snd (register c (snd (sender_locked ps now)) now)).
Proof. exact handle_hist. Qed.

(* lock-out: the third failure within 120 s locks the peer for 180 s; while locked every announce is rejected without
   changing anything; the lock ends exactly at the deadline; failures during the lock-out do not move it *)
Theorem c21_third_failure_locks : forall ps now t1 t2,
  lock ps = None -> fails ps = [t1; t2] -> t1 <= t2 <= now -> now - t1 <= announce_failure_window ->
  lock (record_failure ps now) = Some (now + announce_lockout_duration) /\ fails (record_failure ps now) = [].
Proof. exact third_failure_locks. Qed.
Theorem c21_locked_rejected_unchanged : forall c ps now a l, lock ps = Some l -> now < l -> handle c ps now a = (RejectedLocked, ps).
Proof. exact locked_out_is_rejected_unchanged. Qed.
Theorem c21_lockout_ends_exactly : forall ps now l, lock ps = Some l -> l <= now ->
  fst (sender_locked ps now) = false /\ lock (snd (sender_locked ps now)) = None.
Proof. exact lockout_ends_exactly. Qed.
Theorem c21_constants : announce_failure_window = 120 /\ announce_lockout_duration = 180 /\ announce_failure_threshold = 3.
Proof. exact failure_constants. Qed.
Theorem c21_peers_independent : forall c st e p, p <> sender e -> pget p (peers (fst (step c st e))) = pget p (peers st).
Proof. exact step_other_peer. Qed.
Print Assumptions c21_third_failure_locks.

(* non-vacuity: interval 5, burst 2, window 60: passes at 1000 and 1005, the third inside the window is throttled *)
Example c21_example :
  let c := {| min_interval := 5; burst_limit := 2; burst_window := 60; pow_difficulty := 0 |} in
  reg_run c [] [] [1000; 1003; 1005; 1012; 1061; 1066] = ([1061; 1066], [1000; 1005; 1061; 1066]).
Proof. vm_compute. reflexivity. Qed.
