(* C11 -- stored content round-trips and tampered replicas are never accepted.
   Only statements here; proofs are in proofs/ContentProofs.v.  store / fetch / receive are Node::store_chunk, the local branch
   of Node::fetch_chunk, and Node::receive_chunk = the CLI's decrypt_chunk_with_manifest, composed from the models of SHA-256
   (C08), ChaCha20 / CryptoManager (C09) and Shamir (C10); key, nonce and sharing coefficients are whatever std::random_device
   yielded.  Reconstruction of the key from the shares is C10's theorem (every threshold): the first two round-trip
   theorems keep it as an explicit hypothesis, the `_full` ones discharge it. *)
Require Import ZArith List Lia Bool.
Import ListNotations.
Local Open Scope Z_scope.
From EphVerif Require Import lib.Bytes model.Sha256Model model.ChaCha20Model model.ShamirModel model.ContentModel
  proofs.ChaCha20Proofs proofs.ShamirProofs proofs.ContentProofs proofs.ContentRoundtrip.

(* the bytes held for a chunk are the ChaCha20 encryption of the payload under the fresh key, counter = first four id bytes *)
Theorem c11_held_is_chacha : forall id data key nonce t n rnd held m,
  store id data key nonce t n rnd = Val (held, m) -> held = apply key nonce data (derive_counter id).
Proof. exact held_is_chacha. Qed.
(* ... and `apply` is the RFC 8439 encryption function: C09's theorem c09 (apply_is_rfc_encrypt) *)

(* a store succeeds for every shard configuration GF(256) can carry and yields max(threshold, total) distinct shares *)
Theorem c11_store_succeeds : forall id data key nonce t n rnd, eff_total t n <= 255 ->
  exists held m, store id data key nonce t n rnd = Val (held, m) /\ zlen (m_shards m) = eff_total t n /\
                 NoDup (map s_index (m_shards m)).
Proof. exact store_succeeds. Qed.

(* round trip, for every payload (empty to any length), id, key, nonce and shard configuration: given that the manifest's
   shares reconstruct the key (C10), the local lookup and the replica import / CLI decryption return exactly the payload *)
Theorem c11_local_roundtrip : forall id data key nonce t n rnd held m,
  store id data key nonce t n rnd = Val (held, m) -> eff_total t n <= 255 ->
  combine (m_shards m) (m_threshold m) = Val key ->
  fetch id held (m_nonce m) (m_shards m) (m_threshold m) = Val (Some data).
Proof. exact fetch_roundtrip. Qed.
Print Assumptions c11_local_roundtrip.
Theorem c11_replica_roundtrip : forall id data key nonce t n rnd held m,
  store id data key nonce t n rnd = Val (held, m) -> eff_total t n <= 255 ->
  combine (m_shards m) (m_threshold m) = Val key ->
  receive m held = Val (Some data).
Proof. exact receive_genuine. Qed.
Print Assumptions c11_replica_roundtrip.

(* ... and with C10's reconstruction theorem (every threshold) the hypothesis is discharged: for every payload, id, 32-byte key,
   nonce, shard configuration and random coefficients, the local lookup and the replica import return exactly the payload *)
Theorem c11_local_roundtrip_full : forall id data key nonce t n rnd held m,
  store id data key nonce t n rnd = Val (held, m) -> eff_total t n <= 255 ->
  length key = 32%nat -> Forall byte_ok key -> Forall byte_ok rnd ->
  fetch id held (m_nonce m) (m_shards m) (m_threshold m) = Val (Some data).
Proof. exact fetch_roundtrip_full. Qed.
Print Assumptions c11_local_roundtrip_full.
Theorem c11_replica_roundtrip_full : forall id data key nonce t n rnd held m,
  store id data key nonce t n rnd = Val (held, m) -> eff_total t n <= 255 ->
  length key = 32%nat -> Forall byte_ok key -> Forall byte_ok rnd ->
  receive m held = Val (Some data).
Proof. exact receive_genuine_full. Qed.
Print Assumptions c11_replica_roundtrip_full.

(* tampering: whatever manifest and bytes arrive, what is accepted is the decryption under the key the manifest's shares
   reconstruct AND hashes to the manifest's content hash; a decryption with another hash is refused *)
Theorem c11_accept_sound : forall m c p, receive m c = Val (Some p) ->
  exists k, combine (m_shards m) (m_threshold m) = Val k /\
            p = apply k (m_nonce m) c (derive_counter (m_id m)) /\ sha256 p = m_hash m /\
            0 < m_threshold m <= zlen (m_shards m).
Proof. exact receive_sound. Qed.
Print Assumptions c11_accept_sound.
Theorem c11_mismatch_refused : forall m c k, combine (m_shards m) (m_threshold m) = Val k ->
  sha256 (apply k (m_nonce m) c (derive_counter (m_id m))) <> m_hash m -> receive m c = Val None.
Proof. exact receive_refuses_mismatch. Qed.
(* and corrupted replica bytes never decrypt to the payload (so only a SHA-256 collision could get them accepted) *)
Theorem c11_corrupted_bytes_decrypt_differently : forall key nonce ctr c c',
  length c = length c' -> c <> c' -> apply key nonce c ctr <> apply key nonce c' ctr.
Proof. exact corrupted_ciphertext_decrypts_differently. Qed.

(* non-vacuity: threshold 1 (no assumption needed): store, local fetch, replica import, and a flipped ciphertext bit *)
Example c11_example :
  let id := repeat 7 32 in let key := map Z.of_nat (seq 1 32) in let nonce := repeat 9 12 in
  match store id [104; 105] key nonce 1 3 [] with
  | Val (held, m) =>
      (fetch id held (m_nonce m) (m_shards m) (m_threshold m), receive m held,
       receive m (map (fun b => Z.lxor b 1) held), zlen (m_shards m))
      = (Val (Some [104; 105]), Val (Some [104; 105]), Val None, 3)
  | Throw _ => False
  end.
Proof. vm_compute. reflexivity. Qed.
