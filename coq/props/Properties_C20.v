(* C20 -- inbound handshakes are accepted only with a valid key and valid PoW.
   Only statements here; proofs are in proofs/HandshakeProofs.v.  pow : public -> nonce -> bool is handshake_pow_valid for
   (claimed peer, this node, .) at the configured difficulty (any function: the theorems hold for every verdict function);
   validate_public is 1 < c < p.  `exec pow cd peer0 t0 es` is the per-peer state after ANY sequence of inbound handshakes
   at any times.  The model follows the code after the two fix: commits (cool-down repeat check, penalty for invalid keys). *)
Require Import ZArith List Lia ZifyBool Bool.
Import ListNotations.
Local Open Scope Z_scope.
From EphVerif Require Import lib.Bytes model.HandshakeModel proofs.HandshakeProofs gen.Constants_handshake gen.Constants_keyexchange.

Theorem c20_accept_sound : forall pow cooldown es t0 now pub nonce ps',
  let ps := exec pow cooldown peer0 t0 es in
  handle pow cooldown ps now pub nonce = (true, ps') ->
  validate_public pub = true /\ pow pub nonce = true /\ key_pub ps' = Some pub.
Proof. intros. eapply accept_sound; [|eassumption]. apply reachable_inv. apply Inv_peer0. Qed.
Print Assumptions c20_accept_sound.

Theorem c20_reject_preserves : forall pow cooldown es t0 now pub nonce ps',
  let ps := exec pow cooldown peer0 t0 es in
  handle pow cooldown ps now pub nonce = (false, ps') ->
  key_pub ps' = key_pub ps /\ (score ps' < score ps \/ score ps = rep_min_score) /\ rep_min_score <= score ps'.
Proof. intros. eapply reject_preserves; [|eassumption]. apply reachable_inv. apply Inv_peer0. Qed.
Print Assumptions c20_reject_preserves.

Theorem c20_reputation_constants : rep_failure_penalty = 2 /\ rep_success_reward = 1 /\ rep_min_score = -100 /\ rep_max_score = 100.
Proof. exact rep_consts. Qed.
Theorem c20_validate_public : forall c, validate_public c = true <-> 1 < c < kx_prime.
Proof. intros c. unfold validate_public. lia. Qed.

(* non-vacuity: accepted at t, another key inside the cool-down is judged on its own merits (here: no valid PoW), the
   exact repeat is acknowledged, an invalid key is penalised *)
Example c20_example :
  let pow := fun p n => (p =? 777) && (n =? 5) in
  let s1 := snd (handle pow 5 peer0 1000 777 5) in
  let '(ok2, s2) := handle pow 5 s1 1001 888 9 in
  let '(ok3, s3) := handle pow 5 s2 1002 777 5 in
  let '(ok4, s4) := handle pow 5 s3 1003 1 5 in
  (key_pub s1, ok2, key_pub s2, score s2, ok3, ok4, score s4) = (Some 777, false, Some 777, -3, true, false, -4).
Proof. vm_compute. reflexivity. Qed.
