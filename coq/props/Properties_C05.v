(* C05 -- a cleanup tick removes all expired state and reports each expiry once.
   Only statements here; proofs are in proofs/CleanupProofs.v.  The state holds the node's TTL-bearing structures: local chunks,
   cached manifests, key-share records, swarm plans, provider locators with their holders (model/ProviderModel.v, C06) and the
   cleanup notifications.  `due s` = cleanup_interval has elapsed, so Node::tick runs its cleanup branch.  The model follows
   the code after the fix: commits (4a484a7: expired records stay until swept; 6bb87a4: manifests and plans are pruned). *)
Require Import ZArith List Lia Bool.
Import ListNotations.
Local Open Scope Z_scope.
From EphVerif Require Import lib.Bytes model.CleanupModel proofs.CleanupProofs.
From EphVerif Require model.ProviderModel.

(* after a cleanup tick at time T, in ANY state: every local chunk, cached manifest and key-share record that is left has a
   deadline after T; every swarm plan belongs to such a manifest; every locator and every provider contact that is left is
   unexpired; and the TTL audit counts no expired entry *)
Theorem c05_tick_removes_everything_expired : forall s, due s ->
  let s' := tick s in
  (forall k e, In (k, e) (chunks s') -> now s < e) /\
  (forall k e, In (k, e) (manifests s') -> now s < e) /\
  (forall k e, In (k, e) (shards s') -> now s < e) /\
  (forall c, In c (plans s') -> exists e, In (c, e) (manifests s') /\ now s < e) /\
  (forall c hs lexp, In (c, (hs, lexp)) (loc s') -> now s < lexp /\ forall h, In h hs -> now s < snd h) /\
  audit s' = [0; 0; 0] /\ now s' = now s.
Proof. exact tick_removes_everything_expired. Qed.
Print Assumptions c05_tick_removes_everything_expired.

(* the notifications a cleanup tick adds are exactly the local chunks whose deadline has passed, each once, and those chunks
   are gone afterwards (so a later tick cannot report them again) -- in every state reachable by any history *)
Theorem c05_each_expiry_reported_once : forall s0 ops, unique_keys (chunks s0) ->
  let s := run_ops s0 ops in due s ->
  exists fresh, notes (tick s) = notes s ++ fresh /\ NoDup fresh /\
    (forall c, In c fresh <-> exists e, In (c, e) (chunks s) /\ e <= now s) /\
    (forall c, In c fresh -> forall e, ~ In (c, e) (chunks (tick s))).
Proof. intros s0 ops Hu s Hd. apply tick_reports_each_expiry_once; [exact Hd | apply reachable_unique; exact Hu]. Qed.
Print Assumptions c05_each_expiry_reported_once.

(* however the expiry is first noticed: a lookup (fetch_chunk) -- also of an expired chunk -- neither removes a chunk nor adds
   or drops a notification; only the cleanup tick does *)
Theorem c05_lookup_leaves_it_to_the_tick : forall s c, chunks (lookup s c) = chunks s /\ notes (lookup s c) = notes s /\
  manifests (lookup s c) = manifests s /\ shards (lookup s c) = shards s /\ plans (lookup s c) = plans s.
Proof. exact lookup_keeps_chunks. Qed.

(* non-vacuity and the two historical failures: a lookup between deadline and tick; manifest and plan of an ingested chunk *)
Example c05_examples :
  let s0 := mkSt 1000 [] [] [] [] [] [] 1000 1 1 86400 in
  let '(s1, n1) := step (run_ops s0 [Store 1 3; Advance 5; Lookup 1; Advance 2]) Tick in
  let '(s2, n2) := step (run_ops s0 [Ingest 4 5; Provider 4 2 6; Advance 3; Tick; Advance 3]) Tick in
  (n1, chunks s1, manifests s1, plans s1, n2, manifests s2, plans s2, shards s2, audit s2) = ([1], [], [], [], [], [], [], [], [0; 0; 0]).
Proof. vm_compute. reflexivity. Qed.
