(* C39 -- key rotation never leaves the two ends of a session on different keys.
   Only statements here; proofs are in proofs/RotationProofs.v.  `mutual a b ia ib hsa hsb` is the pair of ends right after
   a mutual handshake (scalars a b, configured intervals ia ib, each end's own clock reading hsa hsb at its handshake);
   `run_ops s ops` runs any schedule of ticks, each carrying the acting node's own clock reading.  The statement of the
   property is c39_statement; on the faithful model of the unchanged code it is FALSE (c39_refuted, with witnesses that the
   check replays on the implementation: known_findings.json).  What does hold is proved beside it. *)
Require Import ZArith List Lia Bool.
Import ListNotations.
Local Open Scope Z_scope.
From EphVerif Require Import lib.Bytes model.Sha256Model model.KeyExchangeModel model.ConfigModel model.RotationModel
  proofs.RotationProofs.

(* the property, at full strength: over every schedule the two ends agree or the session is not open *)
Definition c39_full_statement : Prop :=
  forall a b ia ib hsa hsb ops, 0 <= a < two32 -> 0 <= b < two32 ->
    let s := run_ops (mutual a b ia ib hsa hsb) ops in
    keys_agree s = true \/ e_open (s_a s) = false \/ e_open (s_b s) = false.

Theorem c39_refuted : ~ c39_full_statement.
Proof. exact statement_refuted. Qed.
Print Assumptions c39_refuted.

(* the two replayed witnesses: a one-sided due tick; both ends rotating when due with readings 1 ns apart *)
Theorem c39_witness_one_sided :
  let s := run_ops (mutual 3 7 5 5 1000 1000) [(0, 1000 + 5 * ns_per_s)] in
  keys_agree s = false /\ e_open (s_a s) = true /\ e_open (s_b s) = true.
Proof. exact witness1_disagrees. Qed.
Theorem c39_witness_one_ns_apart :
  let s := run_ops (mutual 3 7 5 5 1000 1001) [(0, 1000 + 5 * ns_per_s); (1, 1001 + 5 * ns_per_s)] in
  keys_agree s = false /\ e_open (s_a s) = true /\ e_open (s_b s) = true.
Proof. exact witness2_disagrees. Qed.

(* ---- what holds on every schedule ---- *)
(* right after the handshake the ends agree and both sessions are open *)
Theorem c39_agree_after_handshake : forall a b ia ib hsa hsb, 0 <= a < two32 -> 0 <= b < two32 ->
  keys_agree (mutual a b ia ib hsa hsb) = true.
Proof. exact mutual_agrees. Qed.
Print Assumptions c39_agree_after_handshake.

(* no rotation tears a session down: the "torn down and re-established" branch of the property never happens *)
Theorem c39_sessions_never_torn_down : forall ops s,
  e_open (s_a (run_ops s ops)) = e_open (s_a s) /\ e_open (s_b (run_ops s ops)) = e_open (s_b s).
Proof. exact sessions_stay_open. Qed.

(* each end's live session always uses its key manager's current key *)
Theorem c39_session_uses_current_key : forall a b ia ib hsa hsb ops,
  let s := run_ops (mutual a b ia ib hsa hsb) ops in
  e_session_key (s_a s) = c_key (e_ctx (s_a s)) /\ e_session_key (s_b s) = c_key (e_ctx (s_b s)).
Proof. intros. apply run_inv. apply mutual_inv. Qed.

(* until a clock has passed its interval nothing rotates: the partial property (keys agree on every early schedule) *)
Theorem c39_partial_stable_before_interval : forall a b ia ib hsa hsb ops, 0 <= a < two32 -> 0 <= b < two32 ->
  Forall (early (mutual a b ia ib hsa hsb)) ops ->
  keys_agree (run_ops (mutual a b ia ib hsa hsb) ops) = true.
Proof. intros a b ia ib hsa hsb ops Ha Hb H. rewrite stable_before_interval by exact H. apply mutual_agrees; assumption. Qed.
Print Assumptions c39_partial_stable_before_interval.

(* a tick rotates exactly when the acting node's OWN clock has advanced by its interval since its last rotation ... *)
Theorem c39_rotation_exactly_when_due : forall iv c now,
  snd (rotate_if_needed iv c now) = true <-> iv * ns_per_s <= now - c_last c.
Proof. exact rotate_iff. Qed.
(* ... and the new key is HMAC(shared secret, be64 counter || be64 of that node's own reading): the peer cannot know it *)
Theorem c39_rotated_key : forall s now, e_interval (s_a s) * ns_per_s <= now - c_last (e_ctx (s_a s)) ->
  e_session_key (s_a (fst (step s (0, now)))) =
    derive_key (c_shared (e_ctx (s_a s))) ((c_counter (e_ctx (s_a s)) + 1) mod two64) now
  /\ s_b (fst (step s (0, now))) = s_b s.
Proof. exact first_rotation_key. Qed.

(* the only schedules on which rotated ends agree by construction: equal counters and equal readings *)
Theorem c39_synchronised_rotation_agrees : forall s now,
  c_shared (e_ctx (s_a s)) = c_shared (e_ctx (s_b s)) -> c_counter (e_ctx (s_a s)) = c_counter (e_ctx (s_b s)) ->
  e_interval (s_a s) * ns_per_s <= now - c_last (e_ctx (s_a s)) ->
  e_interval (s_b s) * ns_per_s <= now - c_last (e_ctx (s_b s)) ->
  keys_agree (run_ops s [(0, now); (1, now)]) = true.
Proof. exact synchronized_rotation_agrees. Qed.

(* the configured interval is clamped to [5 s, 1 h] *)
Theorem c39_intervals : forall a b ia ib hsa hsb,
  e_interval (s_a (mutual a b ia ib hsa hsb)) = sanitize_key_rotation_interval ia /\
  e_interval (s_b (mutual a b ia ib hsa hsb)) = sanitize_key_rotation_interval ib /\
  c_last (e_ctx (s_a (mutual a b ia ib hsa hsb))) = hsa /\ c_last (e_ctx (s_b (mutual a b ia ib hsa hsb))) = hsb.
Proof. exact mutual_intervals. Qed.

(* non-vacuity of the early-schedule theorem: a real schedule with both nodes ticking before their 30 s are up *)
Example c39_early_example :
  let s := mutual 3 7 30 30 1000 2000 in
  early s (0, 1000 + 29 * ns_per_s) /\ early s (1, 2000 + 30 * ns_per_s - 1).
Proof. cbv [early]. cbn [Z.eqb]. rewrite !(proj1 (mutual_intervals 3 7 30 30 1000 2000)).
  destruct (mutual_intervals 3 7 30 30 1000 2000) as [_ [Hb [Hla Hlb]]]. rewrite Hb, Hla, Hlb. vm_compute. auto. Qed.

(* the re-establishment branch does work: after ANY schedule, once both ends take the peer's handshake again (each past
   its cool-down) they hold one key again *)
Theorem c39_rehandshake_reestablishes : forall a b ia ib hsa hsb ops ta tb, 0 <= a < two32 -> 0 <= b < two32 ->
  let s := run_ops (mutual a b ia ib hsa hsb) ops in
  e_cooldown (s_a s) * ns_per_s <= ta - e_last_hs (s_a s) ->
  e_cooldown (s_b s) * ns_per_s <= tb - e_last_hs (s_b s) ->
  keys_agree (run_ops s [(2, ta); (3, tb)]) = true.
Proof. exact rehandshake_reestablishes. Qed.
Print Assumptions c39_rehandshake_reestablishes.
