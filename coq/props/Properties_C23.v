(* C23 -- upload concurrency limits hold and slots are always released.
   Only statements here; proofs are in proofs/UploadProofs.v.  `run_ops c e (init_at t0, t0) ops` is the scheduler state after ANY
   sequence of requests, acknowledgements, ticks and clock advances, for any limits c (0 = unlimited) and any environment e
   (which peers hold a session, which chunks can be served).  active = active_uploads_ (key (peer, chunk) -> started_at),
   per_peer = active_uploads_per_peer_, count p = number of active uploads of peer p.  The model follows the code after the
   fix: commit (a repeated request for a still-active upload no longer takes a second slot). *)
Require Import ZArith List Lia Bool.
Import ListNotations.
Local Open Scope Z_scope.
From EphVerif Require Import lib.Bytes model.UploadModel proofs.UploadProofs.

(* in every reachable state: never more active uploads than the global limit, never more per peer than the per-peer limit,
   and the per-peer slot counter IS the number of that peer's active uploads *)
Theorem c23_limits_and_counters : forall c e ops t0, 0 <= max_parallel c -> 0 <= max_per_peer c ->
  let s := fst (run_ops c e (init_at t0, t0) ops) in
  NoDup (keys (active s)) /\
  (forall p, pp_get p (per_peer s) = count p (active s)) /\
  (0 < max_parallel c -> zlen (active s) <= max_parallel c) /\
  (0 < max_per_peer c -> forall p, count p (active s) <= max_per_peer c).
Proof.
  intros c e ops t0 Hm Hp. cbv zeta.
  destruct (reachable_inv c e ops Hm Hp (init_at t0, t0) (Inv_init c t0)) as [Hd [Ha [Hg Hl]]]. auto.
Qed.
Print Assumptions c23_limits_and_counters.

(* once none of a peer's uploads is active any more -- each was acknowledged or timed out -- its slot count is zero *)
Theorem c23_slots_released : forall c e ops t0 p, 0 <= max_parallel c -> 0 <= max_per_peer c ->
  let s := fst (run_ops c e (init_at t0, t0) ops) in
  (forall ch, act_find (p, ch) (active s) = None) -> pp_get p (per_peer s) = 0.
Proof. intros c e ops t0 p Hm Hp. cbv zeta. apply slots_released with (c := c). apply reachable_inv; [assumption | assumption | apply Inv_init]. Qed.
Print Assumptions c23_slots_released.

(* what ends an upload: an acknowledgement for it (nothing else is touched), and a time-out at the next scheduling pass *)
Theorem c23_ack_ends_exactly_that_upload : forall s u u', act_find u (active (note_end s u)) = None /\
  (u <> u' -> act_find u' (active (note_end s u)) = act_find u' (active s)).
Proof. intros s u u'. split; [apply note_end_removes | apply note_end_keeps_others]. Qed.
Theorem c23_timeout_ends_uploads : forall c s now, NoDup (keys (active s)) -> 0 < transfer_timeout_s c ->
  forall u t, In (u, t) (active (prune c s now)) -> now - t < transfer_timeout_s c * ns.
Proof. exact prune_leaves_young. Qed.

(* a CHUNK frame is only ever sent for an upload that is then active (so the limits above bound the frames in flight) *)
Theorem c23_chunk_frames_are_active_uploads : forall c e s now o p ch,
  In (1, p, ch) (snd (step c e (s, now) o)) ->
  act_find (p, ch) (active (fst (fst (step c e (s, now) o)))) = Some now.
Proof. exact chunk_frames_are_active_uploads. Qed.

(* a peer with a session that asks for a chunk the node cannot serve gets exactly one negative acknowledgement *)
Theorem c23_nack : forall c e s now p ch, peer_kind e p = 1 -> servable e ch = false ->
  step c e (s, now) (Request p ch) = ((s, now), [(0, p, ch)]).
Proof. exact nack_for_unservable. Qed.
Theorem c23_no_key_no_effect : forall c e s now p ch, peer_kind e p = 0 ->
  step c e (s, now) (Request p ch) = ((s, now), []).
Proof. exact request_without_key_ignored. Qed.

(* non-vacuity, and the historical failure: per-peer limit 2, the same (peer, chunk) requested twice while in flight, then
   acknowledged twice -- one upload, one slot, released by the first acknowledgement *)
Example c23_repeated_request :
  let c := mkCfg 3 2 30 2 in
  let e := mkEnv (fun _ => 1) (fun _ => true) in
  let s1 := fst (run_ops c e (init_at 1000, 1000) [Request 1 7; Request 1 7]) in
  let s2 := fst (run_ops c e (init_at 1000, 1000) [Request 1 7; Request 1 7; Ack 1 7]) in
  let s3 := fst (run_ops c e (init_at 1000, 1000) [Request 1 7; Request 1 7; Ack 1 7; Ack 1 7; Request 1 8; Request 1 9; Request 1 10]) in
  (zlen (active s1), pp_get 1 (per_peer s1), zlen (active s2), pp_get 1 (per_peer s2),
   zlen (active s3), pp_get 1 (per_peer s3), zlen (pending s3)) = (1, 1, 0, 0, 2, 2, 1).
Proof. vm_compute. reflexivity. Qed.
