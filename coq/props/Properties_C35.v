(* C35 -- no remote input can crash the node or the daemon.
   Only statements here; proofs are in proofs/RemoteProofs.v (on the Shamir and content proofs).  What a theorem can carry of
   this property is the exception discipline: the handlers that take remote input reach two operations that throw -- key
   reconstruction (Shamir::combine, on a repeated share index or too few shares) and path resolution
   (std::filesystem::absolute, on an empty path) -- from threads that have no handler for exceptions, so an exception there
   ends the process.  The model gives those operations an explicit Throw outcome; the theorems say no input produces it.
   Memory safety, undefined behaviour and "keeps serving others" are checked on the implementation (AddressSanitizer +
   UBSan build, hostile byte streams before and after the handshake and on the control socket, an honest peer probing after
   every one).  The model follows the code after the two fix: commits. *)
Require Import ZArith List Lia Bool.
Import ListNotations.
Local Open Scope Z_scope.
From EphVerif Require Import lib.Bytes model.ShamirModel model.ContentModel model.RemoteModel proofs.ShamirProofs proofs.ContentProofs proofs.RemoteProofs.

(* a signed ANNOUNCE with any manifest (any threshold, share count, indices, values, hash, nonce) followed by a signed CHUNK with
   any bytes: nothing is thrown on the session thread *)
Theorem c35_announce_then_chunk_never_throws : forall m' c', wf m' -> forall e, announce_then_chunk m' c' <> Throw e.
Proof. exact announce_then_chunk_never_throws. Qed.
Print Assumptions c35_announce_then_chunk_never_throws.
(* replica import itself (receive_chunk: also reached from the fetch paths) *)
Theorem c35_receive_never_throws : forall m c, wf m -> forall e, receive m c <> Throw e.
Proof. exact receive_never_throws. Qed.

(* a control FETCH with any MANIFEST (absent, undecodable, any manifest), any OUT (absent, empty, any path), streamed or not:
   nothing is thrown on the control thread *)
Theorem c35_control_fetch_never_throws : forall id held nonce man out stream writable,
  (forall m', man = Some (Some m') -> wf m') -> forall e, control_fetch id held nonce man out stream writable <> Throw e.
Proof. exact control_fetch_never_throws. Qed.
Print Assumptions c35_control_fetch_never_throws.
Theorem c35_empty_out_is_an_error : forall id held nonce m' stream writable,
  control_fetch id held nonce (Some (Some m')) (Some []) stream writable = Val 7.
Proof. exact empty_out_is_an_error. Qed.

(* the shard check lets through exactly the sets the reconstruction accepts: it excludes everything combine refuses ... *)
Theorem c35_validated_shards_reconstruct : forall m, wf m -> validate_shards m = true ->
  exists k, combine (m_shards m) (m_threshold m) = Val k /\ length k = 32%nat.
Proof. exact validate_excludes_what_combine_refuses. Qed.
Print Assumptions c35_validated_shards_reconstruct.
(* ... and nothing more: no manifest that could be opened is turned away by it *)
Theorem c35_shard_check_is_not_stricter : forall m k, 0 < m_threshold m -> combine (m_shards m) (m_threshold m) = Val k ->
  validate_shards m = true.
Proof. exact validate_refuses_only_what_combine_refuses. Qed.

(* non-vacuity: threshold 2 with the same index on both shares: not cached, nothing thrown; the same with distinct indices is
   cached (and refused as a replica: the bytes do not hash to the manifest's hash) *)
Example c35_examples :
  let sh i := {| s_index := i; s_value := repeat 7 32 |} in
  let bad := mkManifest (repeat 1 32) (repeat 2 32) (repeat 3 12) 2 2 [sh 5; sh 5] in
  let good := mkManifest (repeat 1 32) (repeat 2 32) (repeat 3 12) 2 2 [sh 5; sh 6] in
  (announce_then_chunk bad [1; 2; 3], announce_then_chunk good [1; 2; 3], combine (m_shards bad) 2,
   control_fetch (repeat 1 32) [9] (repeat 3 12) (Some (Some bad)) (Some [47; 120]) false true)
  = (Val (false, false), Val (true, false), Throw 1, Val 4).
Proof. vm_compute. reflexivity. Qed.
