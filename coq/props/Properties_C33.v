(* C33 -- STUN responses are parsed exactly and safely.
   Only statements here; proofs are in proofs/StunProofs.v. *)
Require Import ZArith List Lia.
Import ListNotations.
Local Open Scope Z_scope.
From EphVerif Require Import lib.Bytes lib.Outcome model.StunModel proofs.StunProofs gen.Constants_stun.

(* Safety, for every datagram of every length and every expected transaction id: the parser (in checked-read
   form: any data[i] outside the datagram is UB, and so is running out of loop fuel) returns an address or
   nothing.  No bound on the datagram size. *)
Theorem c33_safe : forall data txid, bytes_ok data ->
  exists r, parse data txid = Ok r.
Proof.
  intros data txid Hd. pose proof (parse_safe data Hd txid) as S.
  destruct (parse data txid) as [r| |]; [eauto | contradiction | contradiction].
Qed.
Print Assumptions c33_safe.

(* "only": an address is reported only for a Binding Success response whose transaction id matches *)
Theorem c33_only_matching_success : forall data txid r, parse data txid = Ok (Some r) ->
  20 <= zlen data /\ rd16 data 0 = Ok 257 /\ rdn data 8 12 = Ok txid /\
  exists mlen, rd16 data 2 = Ok mlen /\ 20 + mlen <= zlen data.
Proof. exact parse_some_only. Qed.
Print Assumptions c33_only_matching_success.

(* exactness of the XOR-MAPPED-ADDRESS decoding (RFC 5389 15.2): un-xoring with cookie||txid and cookie>>16
   inverts the encoder's xor for every address and port *)
Theorem c33_xor_address_exact : forall addr key, (length addr <= length key)%nat -> xor_list (xor_list addr key) key = addr.
Proof. exact xor_list_involutive. Qed.
Theorem c33_xor_port_exact : forall p, Z.lxor (Z.lxor p cookie_hi16) cookie_hi16 = p.
Proof. exact xor_port_involutive. Qed.
Theorem c33_cookie : stun_magic_cookie = 554869826 /\ cookie_bytes = [33; 18; 164; 66] /\ cookie_hi16 = 8466.
Proof. repeat split; reflexivity. Qed.

(* PARTIAL (c33_decodes_partial): the full statement -- for every response built by the RFC encoder [response] from
   any attribute list whose first address attribute is (family, addr, port), parse returns exactly that -- is
   evaluated here on concrete responses only (tests, by vm_compute); whole-datagram exactness for generated
   responses is carried by the correspondence oracle (independent python encoder).  Missing: the induction over
   the skipped attributes and the symbolic be16 / lxor range reasoning. *)
Definition tx : list Z := [1; 2; 3; 4; 5; 6; 7; 8; 9; 10; 11; 12].
Example c33_decodes_tests :
  parse (response tx (tlv 32802 [1; 2; 3] ++ xor_mapped_attr tx 1 [192; 0; 2; 1] 32853 ++ tlv 32808 [9; 9; 9; 9])) tx
    = Ok (Some (1, [192; 0; 2; 1], 32853)) /\
  parse (response tx (mapped_attr 2 [32; 1; 13; 184; 0; 0; 0; 0; 0; 0; 0; 0; 0; 0; 0; 1] 65535)) tx
    = Ok (Some (2, [32; 1; 13; 184; 0; 0; 0; 0; 0; 0; 0; 0; 0; 0; 0; 1], 65535)) /\
  parse (response tx (xor_mapped_attr tx 2 [32; 1; 13; 184; 0; 0; 0; 0; 0; 0; 0; 0; 0; 0; 0; 1] 0)) tx
    = Ok (Some (2, [32; 1; 13; 184; 0; 0; 0; 0; 0; 0; 0; 0; 0; 0; 0; 1], 0)) /\
  parse (response tx (mapped_attr 1 [10; 0; 0; 1] 80)) (0 :: tl tx) = Ok None /\
  parse [1; 1; 0; 8; 0; 0; 0; 0; 1; 2; 3; 4; 5; 6; 7; 8; 9; 10; 11; 12; 0; 1; 0; 8; 0; 1; 0; 80] tx = Ok None.
Proof. repeat split; vm_compute; reflexivity. Qed.
