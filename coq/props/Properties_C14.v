(* C14 -- transport sessions deliver exactly what was sent, within the size limit.
   Only statements here; proofs are in proofs/TransportProofs.v.  send is SessionManager::send (None = refused, nothing on
   the wire), receive is receive_loop over the bytes that arrive (result: the payloads handed to the message handler, in
   order, and how the loop ended: 0 between frames, 1 inside a frame, 2 oversized length).  transport_max_payload is
   regenerated from kMaxPayloadSize in the source. *)
Require Import ZArith List Lia Bool.
Import ListNotations.
Local Open Scope Z_scope.
From EphVerif Require Import lib.Bytes spec.ChaCha20Spec model.ChaCha20Model proofs.ChaCha20Proofs
  gen.Constants_transport model.TransportModel proofs.TransportProofs.

Theorem c14_limit_is_one_mib : transport_max_payload = 1024 * 1024.
Proof. reflexivity. Qed.

(* what goes on the wire: nonce | big-endian length | ChaCha20(session key, that nonce, counter 0) of the payload (C09: the
   RFC 8439 function), and nothing at all for a payload above the limit *)
Theorem c14_frame : forall key nonce payload,
  send key nonce payload = if transport_max_payload <? zlen payload then None
                           else Some (nonce ++ be32 (zlen payload) ++ apply key nonce payload 0).
Proof. exact send_spec. Qed.
Theorem c14_oversized_not_sent : forall key nonce payload, transport_max_payload < zlen payload -> send key nonce payload = None.
Proof. exact oversized_payload_not_sent. Qed.

(* delivery: for ANY sequence of payloads of at most 1 MiB (empty ones included) under any nonces, the receiver hands its
   handler exactly those payloads -- each once, byte for byte, in send order -- and then waits between frames *)
Theorem c14_delivery_exact : forall key msgs, Forall wf_msg msgs -> forall fuel delivered, (length msgs < fuel)%nat ->
  receive fuel key (wire key msgs) delivered = (delivered ++ map snd msgs, 0).
Proof. exact delivery_exact. Qed.
Print Assumptions c14_delivery_exact.

(* a frame that announces more than 1 MiB ends the session at once: nothing of it and nothing after it is delivered, and
   no byte of its body is read *)
Theorem c14_oversized_frame_ends_session : forall fuel key nonce len rest delivered,
  length nonce = 12%nat -> transport_max_payload < len < 4294967296 ->
  receive (S fuel) key (nonce ++ be32 len ++ rest) delivered = (delivered, 2).
Proof. exact oversized_frame_ends_session. Qed.
Print Assumptions c14_oversized_frame_ends_session.

(* the runner's apply_fast is ChaCha20Model.apply *)
Theorem c14_apply_fast : forall key nonce input c, apply_fast key nonce input c = apply key nonce input c.
Proof. exact apply_fast_eq. Qed.

(* non-vacuity: three messages (one empty) are delivered in order; then an oversized announcement stops everything *)
Example c14_example :
  let key := map Z.of_nat (seq 1 32) in let n1 := repeat 1 12 in let n2 := repeat 2 12 in
  let stream := wire key [(n1, [104; 105]); (n2, []); (n1, [33])] ++ n2 ++ be32 1048577 ++ wire key [(n1, [9])] in
  receive_all key stream = ([[104; 105]; []; [33]], 2).
Proof. vm_compute. reflexivity. Qed.
