(* C01 -- a stored chunk is retrievable exactly while it is live.
   Only statements here; proofs are in proofs/ChunkStoreProofs.v.
   `exec2 node (init ...) [] ops` runs the store model over ANY operation list (puts / overwrites, lookups, fetches,
   peer requests, sweeps or ticks, listings, clock advances of any size including 0 and 1 ns) and, side by side, the
   history of puts (newest first).  spec_lookup h t id = the bytes and deadline of the LATEST put of id, if t is before
   that deadline -- the abstract TTL map.  Every read path of the model goes through get_record (see step). *)
Require Import ZArith List.
Import ListNotations.
Local Open Scope Z_scope.
From EphVerif Require Import lib.Bytes model.ChunkStoreModel proofs.ChunkStoreProofs gen.Constants_config.

(* every lookup / fetch / export / peer request, after any history, answers exactly what the abstract map answers *)
Theorem c01_reads_refine : forall node d mn mx ci ops id,
  let st := fst (exec2 node (init d mn mx ci) [] ops) in
  let h := snd (exec2 node (init d mn mx ci) [] ops) in
  fst (get_record st id) = spec_lookup h (now st) id.
Proof. intros. apply get_record_refines. apply R_exec2. apply R_init. Qed.
Print Assumptions c01_reads_refine.

(* ... so: before the deadline of the latest put the exact stored bytes come back ... *)
Theorem c01_live_readback : forall node d mn mx ci ops id r,
  let st := fst (exec2 node (init d mn mx ci) [] ops) in
  let h := snd (exec2 node (init d mn mx ci) [] ops) in
  latest id h = Some r -> now st < r_exp r -> fst (get_record st id) = Some r.
Proof.
  intros node d mn mx ci ops id r st h L T. unfold st, h. rewrite c01_reads_refine. unfold spec_lookup.
  fold h. rewrite L. unfold live. destruct (now (fst (exec2 node (init d mn mx ci) [] ops)) <? r_exp r) eqn:E; [reflexivity|].
  fold st in E. apply Z.ltb_ge in E. exfalso. apply (Z.lt_irrefl (now st)). eapply Z.lt_le_trans; eassumption.
Qed.

(* ... and at or after it nothing is served, by any read path, whether or not a sweep has run in between *)
Theorem c01_never_at_or_after_deadline : forall node d mn mx ci ops id r,
  let st := fst (exec2 node (init d mn mx ci) [] ops) in
  let h := snd (exec2 node (init d mn mx ci) [] ops) in
  latest id h = Some r -> r_exp r <= now st ->
  fst (get_record st id) = None /\ forall r', ~ In (id, r') (listing st).
Proof.
  intros node d mn mx ci ops id r st h L T.
  assert (HR : R st h) by (apply R_exec2; apply R_init).
  assert (S : spec_lookup h (now st) id = None).
  { unfold spec_lookup. rewrite L. unfold live. destruct (now st <? r_exp r) eqn:E; [|reflexivity].
    apply Z.ltb_lt in E. exfalso. apply (Z.lt_irrefl (now st)). eapply Z.lt_le_trans; eassumption. }
  split.
  - rewrite (get_record_refines st h id HR). exact S.
  - intros r' Hin. apply (listing_refines st h id r' HR) in Hin. rewrite S in Hin. discriminate.
Qed.
Print Assumptions c01_never_at_or_after_deadline.

(* the listing (`eph list`, STATUS) shows exactly the live chunks *)
Theorem c01_listing : forall node d mn mx ci ops id r,
  let st := fst (exec2 node (init d mn mx ci) [] ops) in
  let h := snd (exec2 node (init d mn mx ci) [] ops) in
  In (id, r) (listing st) <-> spec_lookup h (now st) id = Some r.
Proof. intros. apply listing_refines. apply R_exec2. apply R_init. Qed.

(* overwriting replaces both the bytes and the deadline: the newest put is the one the map holds *)
Theorem c01_overwrite : forall node st h id data ttl,
  latest id (ghost node st h (Put id data ttl)) = Some (put_rec node st data ttl) /\
  r_data (put_rec node st data ttl) = data /\
  r_exp (put_rec node st data ttl) =
    now st + Z.max (let t := if node then node_ttl st ttl else ttl in if 0 <? t then t else dflt st) store_minimum_ttl * ns.
Proof. intros. cbn [ghost latest]. rewrite Z.eqb_refl. repeat split. Qed.

(* a sweep removes exactly the expired records and never a live one *)
Theorem c01_sweep_exact : forall node d mn mx ci ops id,
  let st := fst (exec2 node (init d mn mx ci) [] ops) in
  (In id (fst (sweep st)) <-> exists r, get id (recs st) = Some r /\ live (now st) r = false) /\
  (forall r, get id (recs st) = Some r -> live (now st) r = true -> get id (recs (snd (sweep st))) = Some r).
Proof.
  intros. assert (HR : R st (snd (exec2 node (init d mn mx ci) [] ops))) by (apply R_exec2; apply R_init).
  destruct HR as (N & _). split; [apply sweep_removes_exactly_expired; exact N | intros r; apply sweep_keeps_live; exact N].
Qed.
Print Assumptions c01_sweep_exact.

(* non-vacuity: store, overwrite with a shorter TTL, read 1 ns before and exactly at the new deadline *)
Example c01_example :
  run_ops false (init 60 30 3600 1)
    [Put 7 [1; 2] 10; Put 7 [9] 3; Advance 2999999999; Get 7; Advance 1; Get 7; List; Snapshot; Sweep; Snapshot]
  = [1; 1; 9] ++ [0] ++ [0] ++ [1; 7; 0] ++ [1; 7] ++ [0].   (* refused at the deadline, not listed, still held until the sweep takes and reports it *)
Proof. vm_compute. reflexivity. Qed.
