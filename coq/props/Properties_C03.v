(* C03 -- state learned from a manifest never outlives that manifest.
   Only statements here; proofs are in proofs/ManifestTtlProofs.v.  E = the manifest's expiry, now = the time it arrives (one
   nanosecond clock), (mn, mx) = the node's sanitised TTL window in seconds (C02: 0 < mn <= mx).  ingest / receive / announce
   give the deadlines of what Node::ingest_manifest, Node::receive_chunk and Node::handle_announce create: the key-share record,
   the replica with the node's own announcement, the announcer's provider contact.  Pending fetches are C24's (dropped at the
   manifest's expiry), the manifest cache is C05's (pruned by the cleanup). *)
Require Import ZArith List Lia Bool.
Import ListNotations.
Local Open Scope Z_scope.
From EphVerif Require Import lib.Bytes model.ManifestTtlModel proofs.ManifestTtlProofs.

(* for every manifest expiry, arrival time, window and advertised TTL, on all three paths: every deadline created is no later
   than the manifest's expiry and no later than now + max *)
Theorem c03_nothing_outlives_the_manifest : forall E now mn mx adv path, 0 < mn <= mx ->
  let d := if path =? 0 then ingest E now mn mx else if path =? 1 then receive E now mn mx else announce E now mn mx adv in
  forall x, In x (deadlines d) -> x <= E /\ x <= now + mx * ns.
Proof. exact nothing_outlives_the_manifest. Qed.
Print Assumptions c03_nothing_outlives_the_manifest.

(* an expired manifest, or one with fewer whole seconds left than the minimum TTL, is refused and creates nothing *)
Theorem c03_refused_manifest_creates_nothing : forall E now mn mx adv, 0 < mn <= mx -> E <= now \/ (E - now) / ns < mn ->
  ingest E now mn mx = nothing /\ receive E now mn mx = nothing /\ announce E now mn mx adv = nothing.
Proof. exact refused_manifest_creates_nothing. Qed.
Print Assumptions c03_refused_manifest_creates_nothing.

(* an accepted manifest is given its remaining whole seconds, a far-future expiry capped at the maximum *)
Theorem c03_accepted_lifetime : forall E now mn mx, 0 < mn <= mx -> now < E -> mn <= (E - now) / ns ->
  manifest_ttl E now mn mx = Some (Z.min ((E - now) / ns) mx).
Proof. exact accepted_lifetime. Qed.

(* non-vacuity: window (30 s, 6 h); a manifest with 100.5 s left, announced with an advertised TTL of one day; one with 29.9 s
   left; one in the far future *)
Example c03_examples :
  (announce (100500 * 1000000) 0 30 21600 86400, ingest (29900 * 1000000) 0 30 21600, receive (10 ^ 15) 0 30 21600)
  = (mkDerived true (Some (100 * ns)) None (Some (100 * ns)), nothing,
     mkDerived true (Some (21600 * ns)) (Some (21600 * ns)) None).
Proof. vm_compute. reflexivity. Qed.
