(* C03 -- state learned from a manifest never outlives that manifest.
   Only statements here; proofs are in proofs/ManifestTtlProofs.v.  E = the manifest's expiry, now = the time it arrives (one
   nanosecond clock), (mn, mx) = the node's sanitised TTL window in seconds (C02: 0 < mn <= mx).  ingest / receive / announce
   give the deadlines of what Node::ingest_manifest, Node::receive_chunk and Node::handle_announce create: the key-share record,
   the replica with the node's own announcement, the announcer's provider contact.  Pending fetches are C24's (dropped at the
   manifest's expiry), the manifest cache is C05's (pruned by the cleanup). *)
Require Import ZArith List Lia Bool.
Import ListNotations.
Local Open Scope Z_scope.
From EphVerif Require Import lib.Bytes model.ManifestTtlModel proofs.ManifestTtlProofs proofs.ManifestFetchProofs.
From EphVerif Require model.FetchModel proofs.FetchProofs proofs.FetchDropProofs.

(* for every manifest expiry, arrival time, window and advertised TTL, on all three paths: every deadline created is no later
   than the manifest's expiry and no later than now + max *)
Theorem c03_nothing_outlives_the_manifest : forall E now mn mx adv path, 0 < mn <= mx ->
  let d := if path =? 0 then ingest E now mn mx else if path =? 1 then receive E now mn mx else announce E now mn mx adv in
  forall x, In x (deadlines d) -> x <= E /\ x <= now + mx * ns.
Proof. exact nothing_outlives_the_manifest. Qed.
Print Assumptions c03_nothing_outlives_the_manifest.

(* an expired manifest, or one with fewer whole seconds left than the minimum TTL, is refused and creates nothing *)
Theorem c03_refused_manifest_creates_nothing : forall E now mn mx adv, 0 < mn <= mx -> E <= now \/ (E - now) / ns < mn ->
  ingest E now mn mx = nothing /\ receive E now mn mx = nothing /\ announce E now mn mx adv = nothing.
Proof. exact refused_manifest_creates_nothing. Qed.
Print Assumptions c03_refused_manifest_creates_nothing.

(* an accepted manifest is given its remaining whole seconds, a far-future expiry capped at the maximum *)
Theorem c03_accepted_lifetime : forall E now mn mx, 0 < mn <= mx -> now < E -> mn <= (E - now) / ns ->
  manifest_ttl E now mn mx = Some (Z.min ((E - now) / ns) mx).
Proof. exact accepted_lifetime. Qed.

(* pending fetches.  An announce that assigns this node a shard creates a pending fetch (FetchModel); when the manifest is
   refused nothing is scheduled, and whatever the retry back-off and however far the clock moves, the fetch is gone after a
   tick at or after the manifest's expiry *)
Theorem c03_refused_announce_schedules_nothing : forall E now mn mx backoff dt,
  manifest_ttl E now mn mx = None -> announce_fetch E now mn mx backoff dt = (false, false, false, -1).
Proof. exact refused_announce_schedules_nothing. Qed.
Theorem c03_assigned_fetch_dropped_at_expiry : forall E now mn mx backoff dt, E <> 0 -> 0 <= dt -> E <= now + dt * 1000000 ->
  snd (fst (announce_fetch E now mn mx backoff dt)) = false.
Proof. exact assigned_fetch_dropped_at_expiry. Qed.
Print Assumptions c03_assigned_fetch_dropped_at_expiry.
(* the scheduler theorem behind it, for every history of announcements, arrivals, disconnects, ticks and clock movements from
   any consistent state: after a tick no fetch is left whose manifest (expiry `expires chunk`; 0 = none) has run out --
   whether it was waiting for a retry, in flight, or ready *)
Theorem c03_no_fetch_outlives_its_manifest : forall c expires ops sn,
  FetchProofs.Inv c (fst sn) -> FetchDropProofs.ExpOK expires (fst sn) ->
  let sn' := FetchModel.run_ops c expires sn ops in
  forall f, In f (FetchModel.fetches (fst (fst (FetchModel.step c expires sn' FetchModel.Tick)))) ->
    expires (FetchModel.f_chunk f) = 0 \/ snd sn' < expires (FetchModel.f_chunk f).
Proof. exact FetchDropProofs.tick_drops_expired. Qed.
Print Assumptions c03_no_fetch_outlives_its_manifest.

(* non-vacuity: window (30 s, 6 h); a manifest with 100.5 s left, announced with an advertised TTL of one day; one with 29.9 s
   left; one in the far future *)
Example c03_examples :
  (announce (100500 * 1000000) 0 30 21600 86400, ingest (29900 * 1000000) 0 30 21600, receive (10 ^ 15) 0 30 21600)
  = (mkDerived true (Some (100 * ns)) None (Some (100 * ns)), nothing,
     mkDerived true (Some (21600 * ns)) (Some (21600 * ns)) None).
Proof. vm_compute. reflexivity. Qed.
(* window (1 s, 1 day), manifest expires 10 s from now, back-off 30 s: a fetch is pending after the announce; a tick 9.999 s
   later still finds it waiting (20.001 s to go), a tick 10 s later does not *)
Example c03_fetch_examples :
  (announce_fetch (1010 * ns) (1000 * ns) 1 86400 30 9999, announce_fetch (1010 * ns) (1000 * ns) 1 86400 30 10000)
  = ((true, true, true, 20001), (true, true, false, -1)).
Proof. vm_compute. reflexivity. Qed.
