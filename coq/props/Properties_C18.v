(* C18 -- manifest decoding is total and free of undefined behaviour.
   Only statements here; proofs are in proofs/ManifestProofs.v. *)
Require Import ZArith List Lia.
Import ListNotations.
Local Open Scope Z_scope.
From EphVerif Require Import lib.Bytes lib.Outcome model.ManifestModel proofs.ManifestProofs gen.Constants_manifest.

(* The model decoder is written in checked-read form: every payload[offset] / iterator-range access is a
   [take]/[take1] whose result is UB when it would leave the vector, the seconds -> system_clock conversion is
   guarded by the range check the code performs, and every C++ throw is a [Throw] of its exception class.
   For EVERY string (any list of integers, no bound on length) the decoder returns a manifest or throws
   std::invalid_argument: it never reaches UB and throws nothing else.  (Termination: the model is a
   structurally recursive Gallina function, so it is total by construction.) *)
Theorem c18_total : forall uri : list Z,
  (exists m, decode_manifest uri = Ok m) \/ decode_manifest uri = Throw InvalidArgument.
Proof. exact decode_manifest_cases. Qed.
Print Assumptions c18_total.

(* the conversion seconds -> int64 nanoseconds is in the model as a step whose overflow is UB (so c18_total
   rules it out for arbitrary 64-bit expiry fields), not assumed away *)
Theorem c18_overflow_modelled : forall v, v < -9223372036854775808 \/ 9223372036854775807 < v -> no_overflow64 v = UB.
Proof. exact overflow_is_ub. Qed.

(* base64 alone *)
Theorem c18_base64_total : forall l : list Z,
  (exists b, base64_decode l = Ok b) \/ base64_decode l = Throw InvalidArgument.
Proof.
  intros l. pose proof (base64_decode_good l) as G. destruct (base64_decode l) as [b|e|]; cbn in G;
    [left; eauto | right; rewrite G; reflexivity | contradiction].
Qed.

(* non-vacuity: both outcomes occur; an expiry the clock cannot hold is refused, not converted *)
Example c18_examples :
  decode_manifest [101; 112; 104; 58; 47; 47; 65] = Throw InvalidArgument /\
  decode_manifest [104] = Throw InvalidArgument /\
  (exists m, decode_manifest (uri_scheme ++ base64_encode ([1] ++ repeat 0 76 ++ [0; 0; 0; 2; 37; 193; 125; 4] ++ [0; 0; 0])) = Ok m) /\
  decode_manifest (uri_scheme ++ base64_encode ([1] ++ repeat 0 76 ++ [0; 0; 0; 2; 37; 193; 125; 5] ++ [0; 0; 0])) = Throw InvalidArgument.
Proof. repeat split; try (vm_compute; reflexivity). eexists. vm_compute. reflexivity. Qed.
