(* C07 -- routing table answers XOR-closest live peers and keeps bucket shape.
   Only statements here; proofs are in proofs/BucketProofs.v.  `exec (init s) ops` is the state the table reaches
   from empty, with local id s, after ANY operation list (register_peer / add_contact / sweep / closest / clock
   advance / dump), so every statement about it is a statement about every reachable table. *)
Require Import ZArith List.
Import ListNotations.
Local Open Scope Z_scope.
From EphVerif Require Import lib.Bytes model.PowModel proofs.PowProofs model.BucketModel proofs.BucketProofs
  gen.Constants_bucket.

(* bucket shape, in every reachable state: every contact sits in the bucket bucket_index_for gives its id,
   no id is held twice, no bucket holds more than kBucketSize (regenerated from the header) contacts *)
Theorem c07_bucket_shape : forall s ops,
  let st := exec (init s) ops in
  (forall e, In e (ents st) -> bucket_index_for (self st) (c_id (snd e)) = Some (fst e)) /\
  NoDup (ids (ents st)) /\
  (forall i, count_bucket i (ents st) <= bucket_size).
Proof. exact reachable_inv. Qed.
Print Assumptions c07_bucket_shape.

Theorem c07_bucket_size_is_16 : bucket_size = 16.
Proof. reflexivity. Qed.

(* the bucket index is the position of the highest bit in which the id differs from the local id:
   no bucket for the own id, otherwise bucket i with 2^i <= (self xor id) < 2^(i+1) *)
Theorem c07_bucket_index : forall s p, bytes_ok s -> bytes_ok p -> length s = 32%nat -> length p = 32%nat ->
  (bucket_index_for s p = None <-> s = p) /\
  (forall i, bucket_index_for s p = Some i ->
     0 <= i < 256 /\ 2 ^ i <= be_val (xor_bytes s p) < 2 ^ (i + 1)).
Proof. exact bucket_index_value. Qed.
Print Assumptions c07_bucket_index.

(* the node's own id is never held *)
Theorem c07_self_never_held : forall s ops, bytes_ok s -> length s = 32%nat ->
  ~ In s (ids (ents (exec (init s) ops))).
Proof. exact self_never_held. Qed.
Print Assumptions c07_self_never_held.

(* a (re-)registered contact is the newest entry of its bucket, carries the new address and expiry, and its id
   occurs nowhere else: a refreshed contact keeps a single entry *)
Theorem c07_refresh_single_newest : forall st c i, Inv st -> bucket_index_for (self st) (c_id c) = Some i ->
  exists pre, ents (upsert_bucket st c) = pre ++ [(i, {| c_id := c_id c; c_addr := c_addr c; c_exp := c_exp c |})] /\
              ~ In (c_id c) (ids pre).
Proof. exact upsert_newest. Qed.
Print Assumptions c07_refresh_single_newest.

(* a closest-peer query returns min(k, n) of the n unexpired contacts held, in non-decreasing XOR distance,
   and every unexpired contact that was left out is at least as far as every one returned *)
Theorem c07_closest : forall st t k,
  let r := closest_peers st t k in
  (forall c, In c r -> In c (map snd (ents st)) /\ now st < c_exp c) /\
  ascending (distance t) r /\
  zlen r = Z.min (Z.max 0 k) (zlen (live_contacts st)) /\
  (forall c d, In c r -> In d (live_contacts st) -> ~ In d r -> distance t c <= distance t d).
Proof. exact closest_spec. Qed.
Print Assumptions c07_closest.

(* ... strictly increasing in every reachable state of a table fed 32-byte ids *)
Theorem c07_closest_strictly_increasing : forall s ops t k, Forall wf_op ops -> id_wf t ->
  sascending (distance t) (closest_peers (exec (init s) ops) t k).
Proof. exact closest_strict. Qed.
Print Assumptions c07_closest_strictly_increasing.

(* the C++ compares distances as std::array<uint8_t,32> (lexicographic); that is the numeric order used above *)
Theorem c07_lexicographic_is_numeric : forall a b, bytes_ok a -> bytes_ok b -> length a = length b ->
  lex_ltb a b = (be_val a <? be_val b).
Proof. exact lex_ltb_be_val. Qed.

(* non-vacuity: three contacts of one bucket, one expired, queried for the two nearest *)
Example c07_example :
  let s := repeat 0 32 in
  let id n := repeat 0 31 ++ [n] in
  let st := exec (init s) [Register (id 5) 1 2000; Register (id 6) 2 1001; Register (id 4) 3 2000; Advance 5;
                           Register (id 5) 9 3000] in
  map c_addr (closest_peers st (id 4) 2) = [3; 9] /\ count_bucket 2 (ents st) = 2.
Proof. vm_compute. split; reflexivity. Qed.
