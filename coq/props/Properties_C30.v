(* C30 -- `eph fetch` only writes bytes that match the manifest.
   Only statements here; proofs are in proofs/FetchCliProofs.v.  `fetch hash h mode hints local` is the fetch command of
   src/main.cpp: the manifest's transport hints, control hints and control:// fallbacks (each with what its endpoint answers:
   unreachable, a refusal, a payload -- for a transport peer the bytes its record decrypts to --, or "written on the daemon
   host"), the local daemon's answer, and the discovery mode flag; r_file is the output file it writes (None = no file),
   r_exit the exit code, r_served the endpoint that served.  The model follows the code after the fix: commit. *)
Require Import ZArith List Lia Bool.
Import ListNotations.
Local Open Scope Z_scope.
From EphVerif Require Import lib.Bytes model.Sha256Model model.FetchCliModel proofs.FetchCliProofs.

(* whatever every endpoint on every path answers, in every mode: a file that is written hashes to the manifest's hash *)
Theorem c30_file_matches_manifest : forall P mode expired hints local b,
  r_file (fetch sha256 (sha256 P) mode expired hints local) = Some b -> sha256 b = sha256 P.
Proof. exact file_matches_manifest. Qed.
Print Assumptions c30_file_matches_manifest.
(* the same for any hash function and any manifest hash *)
Theorem c30_file_matches_manifest_any_hash : forall hash h mode expired hints local b,
  r_file (fetch hash h mode expired hints local) = Some b -> hash b = h.
Proof. exact fetch_writes_only_matching. Qed.

(* an endpoint that returns other bytes makes that path fail: the whole command behaves exactly (exit code, file, serving
   endpoint, endpoints tried) as if each such endpoint had refused *)
Theorem c30_mismatch_is_refusal : forall hash h mode expired hints local,
  fetch hash h mode expired (map (soften_hint hash h) hints) (soften hash h local) = fetch hash h mode expired hints local.
Proof. exact mismatch_is_refusal. Qed.
Print Assumptions c30_mismatch_is_refusal.

(* the genuine payload is accepted on a control path and on a transport path *)
Theorem c30_genuine_payload_accepted : forall P,
  attempt_control sha256 (sha256 P) (Payload P) = Wrote P /\ attempt_transport sha256 (sha256 P) (Payload P) = Wrote P.
Proof. exact genuine_payload_accepted. Qed.

(* non-vacuity: payload "hi"; a transport hint whose peer returns "ho", a control hint (priority 2) returning "hx", a control
   hint (priority 1) that refuses, a fallback returning "hi": the fallback (index 3) serves after 0, 2, 1 failed; with
   --transport-only nothing is written and the exit code is 1; with no hints the local daemon's "hi" is written; an expired manifest: the transport peer is
   not asked and the local daemon's "hx" is refused *)
Example c30_examples :
  let P := [104; 105] in
  let hints := [mkHint 0 1 (Payload [104; 111]); mkHint 1 2 (Payload [104; 120]); mkHint 1 1 Refuse; mkHint 2 9 (Payload P)] in
  let r := fetch sha256 (sha256 P) 0 false hints Unreach in
  let r2 := fetch sha256 (sha256 P) 2 false hints (Payload P) in
  let r3 := fetch sha256 (sha256 P) 0 false [] (Payload P) in
  let r4 := fetch sha256 (sha256 P) 0 true [mkHint 0 1 (Payload P)] (Payload [104; 120]) in
  (r_exit r, r_file r, r_served r, r_tried r, (r_exit r2, r_file r2, r_tried r2), (r_exit r3, r_file r3, r_served r3), (r_exit r4, r_file r4))
  = (0, Some P, 3, [0; 2; 1; 3], (1, None, [0]), (0, Some P, 100), (1, None)).
Proof. vm_compute. reflexivity. Qed.
