(* C08 -- SHA-256 and HMAC-SHA256 match the standards for every input.
   Only statements here; proofs are in proofs/Sha256Proofs.v and proofs/MessageProofs.v.
   spec/Sha256Spec.v is FIPS 180-4 / RFC 2104 and is validated inside the kernel against the published
   vectors (Examples fips_abc, fips_empty, fips_448, rfc4231_1, rfc4231_2, rfc4231_6). *)
Require Import ZArith List.
Import ListNotations.
Local Open Scope Z_scope.
From EphVerif Require Import lib.Bytes spec.Sha256Spec model.Sha256Model proofs.Sha256Proofs proofs.MessageProofs
  gen.Constants_sha256.

(* the constants in the C++ source (regenerated on every run) are the FIPS constants *)
Theorem c08_K_matches_fips : sha256_K = Sha256Spec.K.
Proof. exact K_matches_fips. Qed.
Theorem c08_H0_matches_fips : sha256_H0 = Sha256Spec.H0.
Proof. exact H0_matches_fips. Qed.

(* every message, fed in ANY split of incremental updates (empty updates included), hashes to the FIPS value.
   No length bound is needed: the model's bit counter wraps mod 2^64 exactly as the C++ uint64_t does and the
   spec writes (8*len) mod 2^64 into the padding (FIPS itself is only defined below 2^64 bits). *)
Theorem c08_sha_streaming : forall chunks : list (list Z),
  finalize (fold_left update chunks sha_init) = Sha256Spec.hash (concat chunks).
Proof. exact sha_streaming. Qed.
Print Assumptions c08_sha_streaming.

Theorem c08_transform_is_compress : forall h b, transform h b = Sha256Spec.compress h b.
Proof. exact transform_is_compress. Qed.

(* every key length (keys longer than the 64-byte block are hashed first) *)
Theorem c08_hmac : forall key data, hmac key data = Sha256Spec.hmac_sha256 key data.
Proof. exact hmac_is_rfc2104. Qed.
Print Assumptions c08_hmac.

(* verification accepts exactly the correct tag (so any length other than 32 is rejected) *)
Theorem c08_verify_exact : forall key data mac, hmac_verify key data mac = true <-> mac = hmac key data.
Proof. exact hmac_verify_iff. Qed.
Theorem c08_tag_is_32_bytes : forall key data, length (hmac key data) = 32%nat.
Proof. exact hmac_length. Qed.
Print Assumptions c08_verify_exact.

(* non-vacuity: a 3-way split with an empty update, checked against the FIPS two-block vector *)
Example c08_split_example :
  finalize (fold_left update [firstn 7 ascii_448; []; skipn 7 ascii_448] sha_init) = hash ascii_448.
Proof. vm_compute. reflexivity. Qed.
