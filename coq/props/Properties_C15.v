(* C15 -- protocol messages round-trip through the wire codec.
   Only statements here; proofs are in proofs/MessageProofs.v. *)
Require Import ZArith List Lia.
Import ListNotations.
Local Open Scope Z_scope.
From EphVerif Require Import lib.Bytes model.MessageModel proofs.MessageProofs gen.Constants_message.

(* For every message of each of the six types, every uint8 version (0..255) and fields within their
   wire ranges, decoding the encoding yields the same message with the version clamped into 1..4 and
   the announce PoW nonce carried from version 3 onward. *)
Theorem c15_roundtrip : forall m : message, wf m -> decode (encode m) = Some (carry m).
Proof. exact decode_encode. Qed.
Print Assumptions c15_roundtrip.

(* a version outside 1..4 is encoded as the nearest supported version *)
Theorem c15_clamp : forall m : message, 0 <= m_version m < 256 ->
  encode m = encode {| m_version := clamp_version (m_version m); m_type := m_type m; m_payload := m_payload m |}.
Proof. exact encode_clamps. Qed.
Print Assumptions c15_clamp.

Theorem c15_clamp_range : forall v, 1 <= clamp_version v <= 4.
Proof. exact clamp_range. Qed.

(* the nonce really is carried from version 3 (tied to the regenerated constants) *)
Theorem c15_nonce_from_v3 : announce_pow_encode_from = 3 /\ announce_pow_decode_from = 3.
Proof. split; reflexivity. Qed.

(* non-vacuity: a concrete version-3 announce is well-formed and its nonce survives *)
Example c15_v3_announce_example :
  let m := {| m_version := 3; m_type := msgtype_Announce;
              m_payload := PAnnounce (repeat 7 32) (repeat 9 32) [104; 58; 49] 3600 [101; 112; 104] [1; 2] 123456789012345 |} in
  wf m /\ decode (encode m) = Some m.
Proof.
  cbv zeta. split.
  - unfold wf, wf_payload, id_ok, str_ok, bytes_ok, byte_ok, two32, two64. cbn.
    repeat split; try lia; try reflexivity; repeat constructor; try lia.
  - vm_compute. reflexivity.
Qed.
