(* C29 -- control responses reach the client intact, so list shows every chunk.
   Only statements here; proofs are in proofs/ControlProofs.v.  render_response is ControlServer::Impl::send_response (with
   the value escaping of the fix: commit), parse_response is the client's recv_line / parse_response / unescape_value.
   The field list is in ANY order (unordered_map iteration). *)
Require Import ZArith List.
Import ListNotations.
Local Open Scope Z_scope.
From EphVerif Require Import lib.Bytes model.ControlModel proofs.ControlProofs.

(* every value -- any bytes: line feeds, carriage returns, backslashes, text that looks like a header -- survives *)
Theorem c29_value_roundtrip : forall v, unescape_value (escape_value v) = v.
Proof. exact unescape_escape. Qed.
Print Assumptions c29_value_roundtrip.

(* the client ends up with the status and exactly the fields the daemon produced (keys as the daemon writes them) *)
Theorem c29_response_roundtrip : forall ok fields, Forall (fun f => key_ok (fst f)) fields ->
  parse_response (render_response ok fields None) =
  {| r_status_seen := true; r_success := ok;
     r_fields := fold_left (fun acc f => set_field (fst f) (snd f) acc) fields []; r_payload := None |}.
Proof. exact response_roundtrip. Qed.
Print Assumptions c29_response_roundtrip.

Theorem c29_every_field_arrives : forall fields, NoDup (map fst fields) -> forall k v acc, In (k, v) fields ->
  get_field k (fold_left (fun acc f => set_field (fst f) (snd f) acc) fields acc) = Some v.
Proof. exact fields_preserved. Qed.
Print Assumptions c29_every_field_arrives.

(* non-vacuity: a three-line chunk listing plus a count, in the order that used to lose the count; with a payload *)
Example c29_example :
  let entries := [97; 44; 49; 10; 98; 44; 50; 10; 99; 92; 110; 10] in
  let r := parse_response (render_response true [([69; 78; 84; 82; 73; 69; 83], entries); ([67; 79; 85; 78; 84], [51])] (Some [1; 10; 10; 2])) in
  get_field [69; 78; 84; 82; 73; 69; 83] (r_fields r) = Some entries /\ get_field [67; 79; 85; 78; 84] (r_fields r) = Some [51] /\
  r_payload r = Some [1; 10; 10; 2] /\ r_success r = true.
Proof. vm_compute. repeat split. Qed.
