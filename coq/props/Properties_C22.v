(* C22 -- swarm plans hand every shard to exactly one eligible provider, evenly.
   Only statements here; proofs are in proofs/SwarmProofs.v.  `ranked` is the candidate list in WHATEVER order the
   scoring put it (doubles, jitter and std::sort are not modelled): every statement holds for every ranking.
   Eligibility of the candidates themselves (unexpired, not the node's own id, held once) is C07's theorem about
   closest_peers; here: providers are a duplicate-free prefix of the candidates. *)
Require Import ZArith List Bool Permutation.
Import ListNotations.
Local Open Scope Z_scope.
From EphVerif Require Import lib.Bytes model.SwarmModel proofs.SwarmProofs.

Theorem c22_provider_count_formula : forall c s mn tg thr,
  provider_count c s mn tg thr = Z.min c (Z.min s (Z.max tg (Z.min (Z.max mn thr) (Z.min c s)))).
Proof. exact provider_count_formula. Qed.

Theorem c22_plan : forall labels thr ranked mn tg,
  0 <= thr -> 0 <= mn -> 0 <= tg ->
  let plan := compute_plan labels thr ranked mn tg in
  let pc := provider_count (zlen ranked) (zlen labels) mn tg thr in
  zlen plan = (if (zlen labels =? 0) || (zlen ranked =? 0) then 0 else pc) /\
  map fst plan = firstn (length plan) ranked /\
  (plan <> [] ->
     Permutation (concat (map snd plan)) labels /\
     exists q r, (r < length plan)%nat /\ (q * length plan + r = length labels)%nat /\ (1 <= q)%nat /\
       forall k, (k < length plan)%nat -> length (nth k (map snd plan) []) = if Nat.ltb k r then S q else q).
Proof. exact plan_spec. Qed.
Print Assumptions c22_plan.

Theorem c22_providers_distinct_candidates : forall labels thr ranked mn tg, NoDup ranked ->
  NoDup (map fst (compute_plan labels thr ranked mn tg)) /\
  forall x, In x (map fst (compute_plan labels thr ranked mn tg)) -> In x ranked.
Proof. exact plan_providers_distinct. Qed.
Print Assumptions c22_providers_distinct_candidates.

(* non-vacuity: 7 shards, threshold 2, 5 candidates, min 2, target 3 -> 3 providers with 3,2,2 shards *)
Example c22_example :
  compute_plan [10; 11; 12; 13; 14; 15; 16] 2 [100; 101; 102; 103; 104] 2 3
  = [(100, [10; 13; 16]); (101, [11; 14]); (102, [12; 15])].
Proof. vm_compute. reflexivity. Qed.
