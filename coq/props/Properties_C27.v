(* C27 -- a configured control token gates STORE, FETCH and STOP.
   Only statements here; proofs are in proofs/ControlProofs.v.  handle_command is the decision every one of the four
   request kinds (STORE, FETCH streamed, FETCH to a daemon-side path, STOP) goes through after the fix: commit: the token
   comparison (constant_time_equal: same length, same bytes) comes first, before anything is registered, read or written. *)
Require Import ZArith List.
Import ListNotations.
Local Open Scope Z_scope.
From EphVerif Require Import lib.Bytes model.ControlModel proofs.ControlProofs.

Theorem c27_refused_without_exact_token : forall t presented cmd later,
  presented <> Some t -> handle_command (Some t) presented cmd later = VAuthError.
Proof. exact gate_refuses_without_exact_token. Qed.
Print Assumptions c27_refused_without_exact_token.

Theorem c27_effect_needs_token : forall configured presented cmd later e,
  handle_command configured presented cmd later = VOk e ->
  (configured = None \/ presented = configured) /\ later = true.
Proof. exact gate_effect_needs_token. Qed.
Print Assumptions c27_effect_needs_token.

Example c27_example :
  handle_command (Some [115; 101; 99]) (Some [115; 101]) CStop true = VAuthError /\
  handle_command (Some [115; 101; 99]) None CFetchOut true = VAuthError /\
  handle_command (Some [115; 101; 99]) (Some [115; 101; 99]) CStop true = VOk EStopped.
Proof. vm_compute. repeat split. Qed.
