(* C09 -- ChaCha20 matches RFC 8439 and is its own inverse.
   Only statements here; proofs are in proofs/ChaCha20Proofs.v.  spec/ChaCha20Spec.v is the RFC's
   index-based formulation, validated in the kernel on the RFC's vectors 2.1.1, 2.3.2 and 2.4.2. *)
Require Import ZArith List.
Import ListNotations.
Local Open Scope Z_scope.
From EphVerif Require Import lib.Bytes spec.ChaCha20Spec model.ChaCha20Model proofs.ChaCha20Proofs gen.Constants_chacha.

Theorem c09_sigma_matches_rfc : chacha_sigma = ChaCha20Spec.sigma.
Proof. exact sigma_matches_rfc. Qed.

(* every key, nonce, 32-bit counter and input length; block j uses (counter + j) mod 2^32 *)
Theorem c09_matches_rfc : forall key nonce input counter, 0 <= counter < 4294967296 ->
  apply key nonce input counter = ChaCha20Spec.encrypt key counter nonce input.
Proof. exact apply_is_rfc_encrypt. Qed.
Print Assumptions c09_matches_rfc.

Theorem c09_block_matches_rfc : forall key nonce counter, mblock key nonce counter = ChaCha20Spec.block key counter nonce.
Proof. exact mblock_is_rfc_block. Qed.

Theorem c09_involution : forall key nonce input counter,
  apply key nonce (apply key nonce input counter) counter = input.
Proof. exact apply_involution. Qed.
Print Assumptions c09_involution.

Theorem c09_length : forall key nonce input counter, length (apply key nonce input counter) = length input.
Proof. exact apply_length. Qed.

(* CryptoManager: decrypting what was encrypted under the same key, chunk id and nonce returns the payload
   (the all-zero key, which the constructor replaces by a random key, is outside this model) *)
Theorem c09_cryptomanager : forall key id p nonce,
  decrypt_with_key key id (encrypt_with_key key id p nonce) nonce = Some p.
Proof. exact cryptomanager_roundtrip. Qed.
Print Assumptions c09_cryptomanager.

(* non-vacuity: the counter wrap 2^32-1 -> 0 on a 100-byte input *)
Example c09_wrap_example :
  let inp := map Z.of_nat (seq 0 100) in
  apply tv_key tv_nonce_242 inp 4294967295 =
    xor_with (block tv_key 4294967295 tv_nonce_242) (firstn 64 inp) ++
    xor_with (block tv_key 0 tv_nonce_242) (skipn 64 inp).
Proof. vm_compute. reflexivity. Qed.
